/-
C08, "strict validation has no holes", for the parser model: whatever `runParser` ACCEPTS in strict mode (and in
lenient mode without warnings) is a valid tree — `TreeValid`, stated purely on the returned tree (no text).

* `StrV ver m φ` — "a strict run of `m` from a state of version `ver` that succeeds keeps the version and returns a
  value satisfying `φ`"; closed under `bind'` (the continuation may assume `φ`), vacuous for `optErr` / `hardErr`.
* `TreeC` / `TreeValid` — the declarative validity (the text-independent mirror image of `SerParse.ValidC`).
* `pLoop_sound` — the invariant of the element loop; `runParser_sound`, `runParser_sound_lenient`.
-/
import AutosarVerif.Lemmas.SerParseTree
import AutosarVerif.Lemmas.Parser
import AutosarVerif.Lemmas.Spec

namespace AV.ParseSound
open AV.W AV.Lex AV.PM AV.SerParse

/-! ### strict success -/

/-- a strict run of `m` from a state of version `ver` that succeeds keeps the version and returns a value with `φ` -/
def StrV {α : Type} (ver : Nat) (m : P α) (φ : α → Prop) : Prop :=
  ∀ s a s', s.ver = ver → m true s = (.ok a, s') → s'.ver = ver ∧ φ a

theorem SV_pure {α : Type} {ver : Nat} {φ : α → Prop} (a : α) (h : φ a) : StrV ver (pure' a) φ := by
  intro s a' s' hv hr
  simp only [pure', Prod.mk.injEq, Except.ok.injEq] at hr
  obtain ⟨rfl, rfl⟩ := hr
  exact ⟨hv, h⟩

theorem SV_hard {α : Type} {ver : Nat} {φ : α → Prop} (k : Nat) : StrV ver (hardErr k : P α) φ := by
  intro s a s' _ hr; simp [hardErr] at hr

/-- in strict mode an optional error is an error -/
theorem SV_opt {ver : Nat} {φ : Unit → Prop} (k : Nat) : StrV ver (optErr k) φ := by
  intro s a s' _ hr; simp [optErr] at hr

theorem SV_bind {α β : Type} {ver : Nat} {m : P α} {k : α → P β} {φ1 : α → Prop} {φ2 : β → Prop}
    (hm : StrV ver m φ1) (hk : ∀ a, φ1 a → StrV ver (k a) φ2) : StrV ver (bind' m k) φ2 := by
  intro s b s' hv hr
  simp only [bind'] at hr
  cases h1 : m true s with
  | mk r s1 =>
    rw [h1] at hr
    cases r with
    | error e => cases hr
    | ok a =>
      obtain ⟨hv1, ha⟩ := hm s a s1 hv h1
      exact hk a ha s1 b s' hv1 hr

theorem SV_optBind {α : Type} {ver : Nat} {φ : α → Prop} (k : Nat) (f : Unit → P α) : StrV ver (bind' (optErr k) f) φ := by
  intro s a s' _ hr; simp [bind', optErr] at hr

theorem SV_mono {α : Type} {ver : Nat} {m : P α} {φ ψ : α → Prop} (h : StrV ver m φ) (hi : ∀ a, φ a → ψ a) :
    StrV ver m ψ := fun s a s' hv hr => ⟨(h s a s' hv hr).1, hi a (h s a s' hv hr).2⟩

theorem SV_ite {α : Type} {ver : Nat} {c : Prop} [Decidable c] {a b : P α} {φ : α → Prop}
    (ha : c → StrV ver a φ) (hb : ¬c → StrV ver b φ) : StrV ver (if c then a else b) φ := by
  split
  · exact ha ‹_›
  · exact hb ‹_›

theorem SV_getS {ver : Nat} : StrV ver getS (fun s => s.ver = ver) := by
  intro s a s' hv hr
  simp only [getS, Prod.mk.injEq, Except.ok.injEq] at hr
  obtain ⟨rfl, rfl⟩ := hr
  exact ⟨hv, hv⟩

theorem SV_modS {ver : Nat} (f : PState → PState) (hf : ∀ s, (f s).ver = s.ver) : StrV ver (modS f) (fun _ => True) := by
  intro s a s' hv hr
  simp only [modS, Prod.mk.injEq] at hr
  obtain ⟨_, rfl⟩ := hr
  exact ⟨by rw [hf, hv], trivial⟩

theorem SV_allocId {ver : Nat} : StrV ver allocId (fun _ => True) := by
  intro s a s' hv hr
  simp only [allocId, Prod.mk.injEq, Except.ok.injEq] at hr
  obtain ⟨_, rfl⟩ := hr
  exact ⟨hv, trivial⟩

theorem SV_nextTok {ver : Nat} (setLine : Bool) : StrV ver (nextTok setLine) (fun _ => True) := by
  intro s a s' hv hr
  unfold nextTok at hr
  split at hr
  · simp only [Prod.mk.injEq, Except.ok.injEq] at hr
    obtain ⟨_, rfl⟩ := hr
    exact ⟨hv, trivial⟩
  · cases hr
  · cases hr

theorem SV_checkVersion {ver : Nat} (mask kind : Nat) : StrV ver (checkVersion mask kind) (fun _ => ver &&& mask ≠ 0) := by
  unfold checkVersion
  refine SV_bind (SV_modS _ fun _ => rfl) fun _ _ => SV_bind SV_getS fun s hs => ?_
  refine SV_ite (fun _ => SV_opt _) (fun hne => SV_pure _ ?_)
  rw [← hs]; exact hne

/-! ### values -/

theorem utf8_length_le (n : Nat) : (CData.utf8 n).length ≤ 4 := by
  unfold CData.utf8; (repeat' split) <;> simp

theorem untilSemi_length (t body rest : Bytes) (h : CData.untilSemi t = some (body, rest)) :
    body.length + rest.length + 1 = t.length := by
  induction t generalizing body with
  | nil => simp [CData.untilSemi] at h
  | cons c cs ih =>
    simp only [CData.untilSemi] at h
    split at h
    · simp only [Option.some.injEq, Prod.mk.injEq] at h
      obtain ⟨rfl, rfl⟩ := h; simp
    · cases hu : CData.untilSemi cs with
      | none => simp [hu] at h
      | some p =>
        obtain ⟨a, b⟩ := p
        simp only [hu, Option.map_some, Option.some.injEq, Prod.mk.injEq] at h
        obtain ⟨rfl, rfl⟩ := h
        have := ih a hu
        simp only [List.length_cons]; omega

theorem charRef_length (radix : Nat) (body u : Bytes) (h : CData.charRef radix body = some u) :
    u.length ≤ 4 ∧ 1 ≤ body.length := by
  unfold CData.charRef at h
  split at h
  · cases h
  · rename_i hne
    have hb : 1 ≤ body.length := by
      cases body with
      | nil => simp at hne
      | cons _ _ => simp
    split at h
    · cases h
    · split at h
      · cases h
      · simp only at h
        split at h
        · simp only [Option.some.injEq] at h; subst h; exact ⟨utf8_length_le _, hb⟩
        · cases h

/-- `unescape_string` (strict): the value is not longer than the text -/
theorem SV_unescapeP {ver : Nat} (fuel : Nat) (raw : Bytes) : StrV ver (unescapeP fuel raw) (fun u => u.length ≤ raw.length) := by
  fun_induction unescapeP fuel raw
  · exact SV_pure _ (by simp)
  · exact SV_pure _ (by simp)
  · rename_i fuel r named c t hx ih
    have hlen : t.length ≤ r.length := by
      simp only [named] at hx
      split at hx <;> simp only [Option.some.injEq, Prod.mk.injEq, reduceCtorEq] at hx <;>
        (obtain ⟨_, rfl⟩ := hx; simp only [List.length_cons]; omega)
    exact SV_bind ih fun u hu => SV_pure _ (by simp only [List.length_cons]; omega)
  · rename_i fuel r named hn num u rest hx ih
    have hlen : u.length + rest.length ≤ r.length + 1 := by
      simp only [num] at hx
      split at hx
      · rename_i t
        cases hu : CData.untilSemi t with
        | none => simp [hu] at hx
        | some p =>
          obtain ⟨body, rest'⟩ := p
          simp only [hu, Option.bind_some] at hx
          cases hc : CData.charRef 16 body with
          | none => simp [hc] at hx
          | some u' =>
            simp only [hc, Option.map_some, Option.some.injEq, Prod.mk.injEq] at hx
            obtain ⟨rfl, rfl⟩ := hx
            have := untilSemi_length t body rest' hu
            have := charRef_length 16 body u' hc
            simp only [List.length_cons]; omega
      · rename_i t _
        cases hu : CData.untilSemi t with
        | none => simp [hu] at hx
        | some p =>
          obtain ⟨body, rest'⟩ := p
          simp only [hu, Option.bind_some] at hx
          cases hc : CData.charRef 10 body with
          | none => simp [hc] at hx
          | some u' =>
            simp only [hc, Option.map_some, Option.some.injEq, Prod.mk.injEq] at hx
            obtain ⟨rfl, rfl⟩ := hx
            have := untilSemi_length t body rest' hu
            have := charRef_length 10 body u' hc
            simp only [List.length_cons]; omega
      · cases hx
    exact SV_bind ih fun v hv => SV_pure _ (by simp only [List.length_cons, List.length_append]; omega)
  · rename_i ih
    exact SV_optBind _ _
  · rename_i ih
    exact SV_bind ih fun u hu => SV_pure _ (by simp only [List.length_cons]; omega)

theorem SV_maxLen {ver : Nat} (maxLen : Option Nat) (n : Nat) : StrV ver (match maxLen with
    | some m => if n > m then optErr kStringValueTooLong else pure' ()
    | none => pure' ()) (fun _ => ∀ m, maxLen = some m → n ≤ m) := by
  cases maxLen with
  | none => exact SV_pure _ (by intro m h; cases h)
  | some m =>
    dsimp only
    exact SV_ite (fun _ => SV_opt _) (fun hn => SV_pure _ (by intro m' h; cases h; omega))

/-- **values**: what `parse_character_data` returns in strict mode is accepted by `CharacterData::check_value`
(enumeration item of the enumeration and of the version; length, pattern; number) -/
theorem SV_parseCD {ver : Nat} (V : Env) (input : Bytes) (spec : CSpec) :
    StrV ver (parseCD V input spec) (fun v => checkValue V v spec ver = true) := by
  unfold parseCD
  dsimp only
  split
  · -- enum
    rename_i items
    split
    · exact SV_hard _
    · rename_i e he
      split
      · exact SV_hard _
      · rename_i it hit
        refine SV_bind (SV_checkVersion _ _) fun _ hv => SV_pure _ ?_
        simp only [checkValue, List.any_eq_true, Bool.and_eq_true, bne_iff_ne, ne_eq]
        refine ⟨it, List.mem_of_find?_eq_some hit, by simpa using List.find?_some hit, ?_⟩
        rw [Nat.and_comm]; exact hv
  · -- pattern
    rename_i k maxLen
    refine SV_bind (φ1 := fun _ => True) ?_ fun checked _ => SV_bind (SV_maxLen _ _) fun _ hlen =>
      SV_bind (φ1 := fun _ => V.validate k checked = true) ?_ fun _ hval => ?_
    · split
      · exact SV_mono (SV_unescapeP _ _) fun _ _ => trivial
      · exact SV_pure _ trivial
    · exact SV_ite (fun h => SV_pure _ h) (fun _ => SV_opt _)
    · refine SV_ite (fun _ => SV_pure _ ?_) (fun _ => SV_optBind _ _)
      simp only [checkValue, Bool.and_eq_true, hval, and_true]
      cases maxLen with
      | none => rfl
      | some m => simpa using hlen m rfl
  · -- string
    rename_i preserve maxLen
    refine SV_bind (SV_maxLen _ _) fun _ hlen => SV_ite (fun _ => SV_bind (SV_unescapeP _ _) fun u hu => SV_pure _ ?_)
      (fun _ => SV_optBind _ _)
    simp only [checkValue]
    cases maxLen with
    | none => rfl
    | some m => have := hlen m rfl; simp only [decide_eq_true_eq]; omega
  · -- uint
    refine SV_ite (fun _ => SV_hard _) fun _ => ?_
    split
    · exact SV_pure _ rfl
    · exact SV_optBind _ _
  · -- float
    refine SV_ite (fun _ => SV_hard _) fun _ => ?_
    split
    · exact SV_pure _ rfl
    · exact SV_optBind _ _

/-! ### attributes -/

section
variable (S : Spec) (V : Env) (ver : Nat)

/-- one attribute of an element of type `typ`: known to the type, allowed in the version, value accepted -/
def AttrValid (typ : Nat) (av : Nat × CDv) : Prop :=
  ∃ cd rq mask, S.findAttr typ av.1 = some (cd, rq, mask) ∧ ver &&& mask ≠ 0 ∧ checkValue V av.2 (S.cspec cd) ver = true

/-- the attribute list of an element of type `typ`: every attribute is valid, the required attributes are present -/
def AttrsValid (typ : Nat) (attrs : List (Nat × CDv)) : Prop :=
  (∀ av ∈ attrs, AttrValid S V ver typ av) ∧
  (∀ a ∈ S.listAttrs typ, a.2.2.1 = true → attrs.any (·.1 == a.1) = true)

theorem SV_attrLoop (typ : Nat) (fuel : Nat) : ∀ (rem : Bytes) (acc : List (Nat × CDv)),
    (∀ av ∈ acc, AttrValid S V ver typ av) →
    StrV ver (attrLoop S V typ fuel rem acc) (fun r => ∀ av ∈ r.1, AttrValid S V ver typ av) := by
  induction fuel with
  | zero => intro rem acc hacc; unfold attrLoop; exact SV_pure _ hacc
  | succ n ih =>
    intro rem acc hacc
    unfold attrLoop
    split
    · exact SV_pure _ hacc
    · dsimp only
      refine SV_bind (φ1 := fun acc' => ∀ av ∈ acc', AttrValid S V ver typ av) ?_ fun acc' hacc' =>
        SV_ite (fun _ => SV_pure _ hacc') (fun _ => ih _ _ hacc')
      split
      · rename_i a ha
        split
        · rename_i cd rq mask hf
          refine SV_bind (SV_checkVersion _ _) fun _ hv => SV_bind (SV_parseCD V _ _) fun v hval => SV_pure _ ?_
          intro av hav
          rcases List.mem_append.mp hav with h | h
          · exact hacc av h
          · simp only [List.mem_singleton] at h; subst h
            exact ⟨cd, rq, mask, hf, hv, hval⟩
        · exact SV_optBind _ _
      · exact SV_optBind _ _

theorem SV_required (attrs : List (Nat × CDv)) (l : List (Nat × Nat × Bool × Nat)) : ∀ (m : P Unit) (ψ : Prop),
    StrV ver m (fun _ => ψ) →
    StrV ver (l.foldl (fun (m : P Unit) (a : Nat × Nat × Bool × Nat) =>
      bind' m fun _ => if a.2.2.1 ∧ !attrs.any (·.1 == a.1) then optErr kRequiredAttributeMissing else pure' ()) m)
      (fun _ => ψ ∧ ∀ a ∈ l, a.2.2.1 = true → attrs.any (·.1 == a.1) = true) := by
  induction l with
  | nil => intro m ψ hm; exact SV_mono hm fun _ h => ⟨h, by simp⟩
  | cons a r ih =>
    intro m ψ hm
    simp only [List.foldl_cons]
    refine SV_mono (ih _ (ψ ∧ (a.2.2.1 = true → attrs.any (·.1 == a.1) = true)) ?_) ?_
    · refine SV_bind hm fun _ hψ => SV_ite (fun _ => SV_opt _) (fun hn => SV_pure _ ⟨hψ, ?_⟩)
      intro hreq
      cases hany : attrs.any (·.1 == a.1) with
      | true => rfl
      | false => exact absurd ⟨hreq, by simp [hany]⟩ hn
    · intro _ h
      refine ⟨h.1.1, ?_⟩
      intro x hx
      rcases List.mem_cons.mp hx with rfl | hx
      · exact h.1.2
      · exact h.2 x hx

/-- **attributes**: in strict mode `parse_attribute_text` returns only attributes the type has in this version, with
accepted values, and all required attributes -/
theorem SV_parseAttrs (typ : Nat) (text : Bytes) : StrV ver (parseAttrs S V typ text) (AttrsValid S V ver typ) := by
  unfold parseAttrs
  refine SV_bind (SV_attrLoop S V ver typ _ _ _ (by simp)) fun r hr => ?_
  obtain ⟨attrs, rem⟩ := r
  dsimp only
  refine SV_bind (φ1 := fun _ => True) (SV_ite (fun _ => SV_opt _) (fun _ => SV_pure _ trivial)) fun _ _ => ?_
  refine SV_bind (SV_required ver attrs _ _ True (SV_pure _ trivial)) fun _ hreq => SV_pure _ ⟨hr, hreq.2⟩

end

/-! ### elements -/

section
variable (S : Spec) (V : Env) (ver : Nat)

/-- an element found only by the version-independent lookup whose entry nevertheless contains the version would have
been found by the lookup in that version -/
theorem fallback_absurd (typ name : Nat) (e : ETy) (idx : List Nat) (mask : Nat)
    (h0 : S.findSub typ name ver = none) (h1 : S.findSub typ name 0xFFFFFFFF = some (e, idx))
    (h2 : S.subMaskAt typ idx = some mask) (h3 : ver &&& mask ≠ 0) : False := by
  obtain ⟨m, hm, _⟩ := Spec.findSubT_sound S name 0xFFFFFFFF (S.depth + 1) typ e idx h1
  have hs := (Spec.subSpecAt_listed S (S.depth + 1) typ name e m idx hm).1
  simp only [Spec.subMaskAt, hs, Option.map_some, Option.some.injEq] at h2
  subst h2
  have := Spec.findSubT_complete S name ver (S.depth + 1) typ e m idx hm h3
  unfold Spec.findSub at h0
  rw [h0] at this; cases this

/-- **elements**: in strict mode `find_element_in_spec_checked` returns only what the lookup IN THE VERSION finds -/
theorem SV_findChecked (typ name : Nat) :
    StrV ver (findChecked S typ name) (fun r => S.findSub typ name ver = some r) := by
  unfold findChecked
  refine SV_bind SV_getS fun s hs => ?_
  split
  · rename_i r hr
    exact SV_pure _ (by rw [← hs]; exact hr)
  · rename_i h0
    split
    · exact SV_hard _
    · rename_i e idx h1
      split
      · exact SV_hard _
      · rename_i mask h2
        refine SV_bind (SV_checkVersion _ _) fun _ hv => ?_
        exact absurd hv (fun hv => fallback_absurd S ver typ name e idx mask (by rw [← hs]; exact h0) h1 h2 hv)

theorem SV_checkConflict (typ : Nat) (old new : List Nat) :
    StrV ver (checkConflict S typ old new) (fun _ => ConflictOK S typ old new) := by
  unfold checkConflict
  refine SV_ite (fun h => SV_pure _ ?_) (fun _ => ?_)
  · rcases h with h | h
    · left; cases old with
      | nil => rfl
      | cons _ _ => simp at h
    · right; left; exact h
  · split
    · exact SV_opt _
    · exact SV_hard _
    · rename_i h1 h2
      exact SV_pure _ (Or.inr (Or.inr ⟨fun h => h1 h, fun h => h2 h⟩))

def nameOfItem : Item → Option Nat
  | .el h _ => some h.name
  | .tx _ => none

/-- the names of the elements accumulated so far, last first -/
def seenOf (acc : List Item) : List Nat := (acc.filterMap nameOfItem).reverse

theorem seenOf_el (acc : List Item) (h : Hdr) (k : Items) : seenOf (acc ++ [.el h k]) = h.name :: seenOf acc := by
  simp [seenOf, List.filterMap_append, nameOfItem]

theorem seenOf_tx (acc : List Item) (c : CDv) : seenOf (acc ++ [.tx c]) = seenOf acc := by
  simp [seenOf, List.filterMap_append, nameOfItem]

theorem SV_checkMult (typ name : Nat) (idx : List Nat) (acc : List Item) :
    StrV ver (checkMult S typ name idx acc) (fun _ => MultOK S typ name idx (seenOf acc)) := by
  unfold checkMult
  split
  · exact SV_hard _
  · rename_i md hmd
    split
    · rename_i hsc
      split
      · rename_i mu hmu
        refine SV_ite (fun _ => SV_opt _) (fun hn => SV_pure _ ⟨md, hmd, fun _ mu' hmu' => ?_⟩)
        rw [hmu] at hmu'; cases hmu'
        by_cases hany : mu = .any
        · exact Or.inl hany
        · right
          intro hmem
          apply hn
          refine ⟨hany, ?_⟩
          simp only [seenOf, List.mem_reverse, List.mem_filterMap] at hmem
          obtain ⟨it, hit, hnm⟩ := hmem
          refine List.any_eq_true.mpr ⟨it, hit, ?_⟩
          cases it with
          | el h k => simp only [nameOfItem, Option.some.injEq] at hnm; simp [hnm]
          | tx c => cases hnm
      · rename_i hmu
        exact SV_pure _ ⟨md, hmd, fun _ mu' hmu' => by rw [hmu'] at hmu; cases hmu⟩
    · rename_i hsc
      exact SV_pure _ ⟨md, hmd, fun h => absurd h hsc⟩

/-- **declarative validity of a content list** (purely on the tree): `pt` = type of the parent element; `pi` = index
path of the preceding element; `seen` = names of the preceding elements; `ne` = something precedes.
* a character item: the parent's type has character data and `CharacterData::check_value` accepts the value
  (enumeration item of the enumeration and in the version; length; pattern; number);
* an element: `find_sub_element` IN THE VERSION finds its name in the parent's type, with the recorded type; it is not
  the second of two adjacent alternatives of a choice (`ConflictOK`); it does not repeat a single-occurrence element
  (`MultOK`); its attributes are valid and the required ones present; it has a SHORT-NAME if its type is named in the
  version; its content is valid -/
def TreeC : Nat → Items → List Nat → List Nat → Bool → Prop
  | _, .nil, _, _, _ => True
  | pt, .text c r, pi, seen, _ =>
    (∃ spec, S.chardataSpec pt = some spec ∧ checkValue V c spec ver = true) ∧ TreeC pt r pi seen true
  | pt, .elem h k r, pi, seen, ne =>
    (∃ idx, S.findSub pt h.name ver = some (h.ety, idx) ∧ ConflictOK S pt pi idx ∧
      (ne = true → MultOK S pt h.name idx seen) ∧ TreeC pt r idx (h.name :: seen) true) ∧
    AttrsValid S V ver h.ety.typ h.attrs ∧
    (S.isNamedIn h.ety.typ ver = true → hasSN S k = true) ∧
    TreeC h.ety.typ k [] [] false

theorem itemsOf_snoc_el (acc : List Item) (h : Hdr) (k new : Items) :
    (itemsOf (acc ++ [.el h k])).append new = (itemsOf acc).append (.elem h k new) := by
  induction acc with
  | nil => rfl
  | cons a r ih => cases a <;> simp only [List.cons_append, itemsOf, Items.append, ih]

theorem itemsOf_snoc_tx (acc : List Item) (c : CDv) (new : Items) :
    (itemsOf (acc ++ [.tx c])).append new = (itemsOf acc).append (.text c new) := by
  induction acc with
  | nil => rfl
  | cons a r ih => cases a <;> simp only [List.cons_append, itemsOf, Items.append, ih]

theorem append_nil (its : Items) : its.append .nil = its := by
  induction its with
  | nil => rfl
  | elem h k r _ ih => simp only [Items.append, ih]
  | text c r ih => simp only [Items.append, ih]

/-- what the element loop for `h` in loop state `st` returns: the accumulated content followed by a VALID continuation -/
def LoopPost (h : Hdr) (st : LoopSt) (items : Items) : Prop :=
  ∃ new, items = (itemsOf st.acc).append new ∧
    TreeC S V ver h.ety.typ new st.elemIdx (seenOf st.acc) (!st.acc.isEmpty) ∧
    (S.isNamedIn h.ety.typ ver = true → st.snFound = true ∨ hasSN S new = true)

/-- **the invariant of `parse_element`** (mirror image of `SerParse.content_ok`) -/
theorem pLoop_sound (fuel : Nat) : ∀ (h : Hdr) (st : LoopSt),
    StrV ver (pLoop S V fuel h st) (LoopPost S V ver h st) := by
  induction fuel with
  | zero => intro h st; unfold pLoop; exact SV_hard _
  | succ n ih =>
    intro h st
    unfold pLoop
    refine SV_bind (SV_nextTok _) fun ev _ => ?_
    split
    · -- start tag
      rename_i nm attrText
      split
      · exact SV_hard _
      · rename_i name _
        refine SV_bind (SV_findChecked S ver _ _) fun r hfind => ?_
        obtain ⟨sty, idx⟩ := r
        dsimp only
        refine SV_bind (SV_checkConflict S ver _ _ _) fun _ hconf => ?_
        refine SV_bind (φ1 := fun _ => st.acc.isEmpty = false → MultOK S h.ety.typ name idx (seenOf st.acc)) ?_ fun _ hmult => ?_
        · split
          · rename_i he
            exact SV_pure _ (fun hf => by rw [he] at hf; cases hf)
          · exact SV_mono (SV_checkMult S ver _ _ _ _) fun _ hm _ => hm
        refine SV_bind (SV_parseAttrs S V ver _ _) fun attrs hattrs => ?_
        refine SV_bind SV_allocId fun id _ => ?_
        refine SV_bind (ih _ _) fun skids hk => ?_
        refine SV_bind (φ1 := fun _ => True) ?_ fun _ _ => ?_
        · split
          · exact SV_modS _ fun _ => rfl
          · exact SV_pure _ trivial
        refine SV_mono (ih _ _) ?_
        rintro items ⟨new, rfl, hnew, hsn⟩
        obtain ⟨newk, hkeq, hknew, hksn⟩ := hk
        simp only [itemsOf, Items.append] at hkeq
        subst hkeq
        refine ⟨.elem _ _ new, itemsOf_snoc_el _ _ _ _, ?_, ?_⟩
        · unfold TreeC
          refine ⟨⟨idx, hfind, hconf, ?_, ?_⟩, hattrs, ?_, ?_⟩
          · intro hne; exact hmult (by simpa using hne)
          · have hemp : ∀ (x : Item), (st.acc ++ [x]).isEmpty = false := by intro x; cases st.acc <;> rfl
            simp only [seenOf_el, hemp, Bool.not_false] at hnew
            exact hnew
          · intro hh
            rcases hksn hh with h1 | h1
            · cases h1
            · exact h1
          · simpa [seenOf] using hknew
        · intro hh
          rcases hsn hh with h1 | h1
          · simp only [Bool.or_eq_true] at h1
            rcases h1 with h1 | h1
            · exact Or.inl h1
            · right; simp [hasSN, h1]
          · right; simp [hasSN, h1]
    · -- end tag
      split
      · exact SV_hard _
      · refine SV_ite (fun _ => ?_) (fun _ => SV_hard _)
        refine SV_bind (φ1 := fun _ => S.isNamedIn h.ety.typ ver = true → st.snFound = true) ?_ fun _ hsn =>
          SV_pure _ ⟨.nil, (append_nil _).symm, by unfold TreeC; trivial, fun hh => Or.inl (hsn hh)⟩
        split
        · refine SV_bind SV_getS fun s hs => SV_ite (fun _ => SV_opt _) (fun hn => SV_pure _ ?_)
          intro hh; rw [← hs] at hh; exact absurd hh hn
        · rename_i hf
          exact SV_pure _ (fun _ => by simpa using hf)
    · -- characters
      rename_i text
      split
      · rename_i spec hspec
        refine SV_bind (SV_parseCD V _ _) fun v hv => ?_
        refine SV_bind (φ1 := fun _ => True) ?_ fun _ _ => ?_
        · split
          · exact SV_ite (fun _ => SV_modS _ fun _ => rfl) (fun _ => SV_pure _ trivial)
          · exact SV_pure _ trivial
        refine SV_mono (ih _ _) ?_
        rintro items ⟨new, rfl, hnew, hsn⟩
        refine ⟨.text v new, itemsOf_snoc_tx _ _ _, ?_, hsn⟩
        unfold TreeC
        have hemp : (st.acc ++ [Item.tx v]).isEmpty = false := by cases st.acc <;> rfl
        simp only [seenOf_tx, hemp, Bool.not_false] at hnew
        exact ⟨⟨spec, hspec, hv⟩, hnew⟩
      · exact SV_optBind _ _
    · exact SV_optBind _ _
    · exact SV_hard _
    · exact SV_ite (fun _ => ih _ _) (fun _ => SV_hard _)

end

/-! ### the document -/

theorem bind_inv {α β : Type} {m : P α} {k : α → P β} {b : Bool} {s s' : PState} {r : β}
    (h : bind' m k b s = (.ok r, s')) : ∃ a s1, m b s = (.ok a, s1) ∧ k a b s1 = (.ok r, s') := by
  simp only [bind'] at h
  cases h1 : m b s with
  | mk x s1 =>
    rw [h1] at h
    cases x with
    | error e => cases h
    | ok a => exact ⟨a, s1, rfl, h⟩

section
variable (S : Spec) (V : Env)

theorem SV_skipComments {ver : Nat} (fuel : Nat) : ∀ (c : Option Bytes) (ev : Event),
    StrV ver (skipComments fuel c ev) (fun _ => True) := by
  induction fuel with
  | zero =>
    intro c ev
    cases ev <;> first | exact SV_hard _ | exact SV_pure _ trivial
  | succ n ih =>
    intro c ev
    cases ev with
    | comment b =>
      unfold skipComments
      exact SV_ite (fun _ => SV_bind (SV_nextTok _) fun _ _ => ih _ _) (fun _ => SV_hard _)
    | header _ => exact SV_pure _ trivial
    | beginElement _ _ => exact SV_pure _ trivial
    | endElement _ => exact SV_pure _ trivial
    | characters _ => exact SV_pure _ trivial
    | eof => exact SV_pure _ trivial

/-- **declarative validity of a document** (purely on the tree the parser returns).  The attributes of the root element
are valid for version `1` (4.0.1), not for the version of the file: the parser reads them BEFORE it reads the version
from `xsi:schemaLocation` (`parse_attribute_text` precedes `parse_file_header`). -/
structure TreeValid (nmAutosar ver : Nat) (h : Hdr) (k : Items) : Prop where
  name : h.name = nmAutosar
  ety : h.ety = S.ety S.rootDef
  attrs : AttrsValid S V 1 h.ety.typ h.attrs
  sn : S.isNamedIn h.ety.typ ver = true → hasSN S k = true
  kids : TreeC S V ver h.ety.typ k [] [] false

/-- the end-of-file event leaves nothing unread -/
theorem nextTok_eof_inv (setLine b : Bool) (s s' : PState) (h : nextTok setLine b s = (.ok .eof, s')) :
    s'.lx.rest = [] ∧ s'.lx.deferred = none := by
  unfold nextTok at h
  split at h
  · rename_i l e lx' hn
    simp only [Prod.mk.injEq, Except.ok.injEq] at h
    obtain ⟨rfl, rfl⟩ := h
    have hm := Lex.next_eof_measure _ _ _ _ hn
    simp only [Lex.measure] at hm
    obtain ⟨rest, line, deferred⟩ := lx'
    simp only at hm ⊢
    cases deferred with
    | some _ => simp at hm
    | none =>
      refine ⟨?_, rfl⟩
      cases rest with
      | nil => rfl
      | cons _ _ => simp at hm
  · cases h
  · cases h

/-- `verify_end_of_input` in strict mode: anything but the end of the file after the root element is an error -/
theorem endCheck_strict (ev : Event) (s : PState) (a : Unit) (s' : PState)
    (h : (match ev with | .eof => pure' () | _ => optErr kAdditionalDataError : P Unit) true s = (.ok a, s')) :
    ev = .eof ∧ s' = s := by
  cases ev <;> first
    | (simp only [pure', Prod.mk.injEq] at h; exact ⟨rfl, h.2.symm⟩)
    | (simp [optErr] at h)

/-- **data after the root element** — the tail of `parse_arxml` (`verify_end_of_input`), exactly as it stands in the
model: when the token that follows the root's end tag is anything but the end of the file (a comment, text that is not
white space, another element, a second xml header), the strict run fails with `AdditionalDataError` on the line of the
last token of the root; white space and ignored processing instructions produce no token and are skipped -/
theorem verify_end_strict {α : Type} (r : α) (s8 s9 : PState) (ev : Event) (hn : nextTok false true s8 = (.ok ev, s9))
    (hne : ev ≠ .eof) :
    (bind' (nextTok false) fun evEnd =>
      bind' (match evEnd with | .eof => pure' () | _ => optErr kAdditionalDataError) fun _ => pure' r) true s8 =
      (.error ⟨kAdditionalDataError, s9.line⟩, s9) := by
  rw [PM.bind_ok hn]
  cases ev <;> first | exact absurd rfl hne | rfl

theorem parseArxml_sound (fuel nmAutosar : Nat) (s0 : PState) (h : Hdr) (k : Items) (st : PState) (hv0 : s0.ver = 1)
    (hr : parseArxml S V fuel nmAutosar true s0 = (.ok (h, k), st)) :
    TreeValid S V nmAutosar st.ver h k ∧ st.lx.rest = [] ∧ st.lx.deferred = none := by
  unfold parseArxml at hr
  obtain ⟨ev0, s1, h1, hr⟩ := bind_inv hr
  have hv1 := (SV_nextTok true s0 ev0 s1 hv0 h1).1
  split at hr
  · obtain ⟨_, s2, h2, hr⟩ := bind_inv hr
    have hv2 : s2.ver = 1 := by
      simp only [modS, Prod.mk.injEq] at h2
      rw [← h2.2]; exact hv1
    obtain ⟨ev1, s3, h3, hr⟩ := bind_inv hr
    have hv3 := (SV_nextTok true s2 ev1 s3 hv2 h3).1
    obtain ⟨⟨comment, ev⟩, s4, h4, hr⟩ := bind_inv hr
    have hv4 := (SV_skipComments fuel none ev1 s3 _ s4 hv3 h4).1
    dsimp only at hr
    split at hr
    · rename_i nm attrText
      split at hr
      · obtain ⟨attrs, s5, h5, hr⟩ := bind_inv hr
        obtain ⟨hv5, hattrs⟩ := SV_parseAttrs S V 1 _ _ s4 attrs s5 hv4 h5
        obtain ⟨_, s6, h6, hr⟩ := bind_inv hr
        obtain ⟨id, s7, h7, hr⟩ := bind_inv hr
        have hv7 : s7.ver = s6.ver := by
          simp only [allocId, Prod.mk.injEq, Except.ok.injEq] at h7
          rw [← h7.2]
        obtain ⟨kids, s8, h8, hr⟩ := bind_inv hr
        obtain ⟨hv8, knew, hkeq, hknew, hksn⟩ := pLoop_sound S V s7.ver fuel _ _ s7 kids s8 rfl h8
        simp only [itemsOf, Items.append] at hkeq
        subst hkeq
        obtain ⟨evEnd, s9, h9, hr⟩ := bind_inv hr
        have hv9 := (SV_nextTok false s8 evEnd s9 hv8 h9).1
        obtain ⟨u, s10, h10, hr⟩ := bind_inv hr
        obtain ⟨hev, hs10⟩ := endCheck_strict evEnd s9 u s10 h10
        subst hev hs10
        cases hr
        refine ⟨⟨rfl, rfl, hattrs, ?_, ?_⟩, nextTok_eof_inv false true s8 _ h9⟩
        · intro hh
          rw [hv9] at hh
          rcases hksn hh with h' | h'
          · cases h'
          · exact h'
        · rw [hv9]; simpa [seenOf] using hknew
      · simp [hardErr] at hr
    · simp [hardErr] at hr
  · simp [hardErr] at hr

/-- **C08, "no holes", strict mode**: whatever the strict parser accepts is a valid document (`TreeValid`, for the
version of the file), and the whole buffer has been read (nothing but ignored white space / processing instructions after
the root element) -/
theorem runParser_sound (buf : Bytes) (nid nmAutosar : Nat) (h : Hdr) (k : Items) (st : PState)
    (hr : runParser S V true buf nid nmAutosar = (.ok (h, k), st)) :
    TreeValid S V nmAutosar st.ver h k ∧ st.lx.rest = [] ∧ st.lx.deferred = none :=
  parseArxml_sound S V _ nmAutosar _ h k st rfl hr

/-- **C08, "no holes", lenient mode without warnings**: the same -/
theorem runParser_sound_lenient (buf : Bytes) (nid nmAutosar : Nat) (h : Hdr) (k : Items) (st : PState)
    (hr : runParser S V false buf nid nmAutosar = (.ok (h, k), st)) (hw : st.warnings = []) :
    TreeValid S V nmAutosar st.ver h k ∧ st.lx.rest = [] ∧ st.lx.deferred = none := by
  have hlock := (lock_rules _ (LM_parseArxml S V (2 * buf.length + 8) nmAutosar).1
    { warnings := [], line := 1, lx := Lex.init buf, nextId := nid } rfl).1
  have heq : runParser S V true buf nid nmAutosar = runParser S V false buf nid nmAutosar := by
    unfold runParser
    apply hlock
    have : (runParser S V false buf nid nmAutosar).2.warnings = [] := by rw [hr]; exact hw
    exact this
  exact runParser_sound S V buf nid nmAutosar h k st (heq.trans hr)

end

/-! ### the constraints of the property, one by one -/

/-- `(h', k')` is an element of the forest, `k'` its content -/
inductive Node : Items → Hdr → Items → Prop
  | here (h : Hdr) (k r : Items) : Node (.elem h k r) h k
  | kids (h : Hdr) (k r : Items) (h' : Hdr) (k' : Items) : Node k h' k' → Node (.elem h k r) h' k'
  | rest (h : Hdr) (k r : Items) (h' : Hdr) (k' : Items) : Node r h' k' → Node (.elem h k r) h' k'
  | text (c : CDv) (r : Items) (h' : Hdr) (k' : Items) : Node r h' k' → Node (.text c r) h' k'

/-- the child elements of a content list, in order -/
def childs : Items → List Hdr
  | .nil => []
  | .elem h _ r => h :: childs r
  | .text _ r => childs r

/-- the character items of a content list -/
def texts : Items → List CDv
  | .nil => []
  | .elem _ _ r => texts r
  | .text c r => c :: texts r

section
variable (S : Spec) (V : Env) (ver : Nat)

/-- every element below a valid content list has valid attributes, a SHORT-NAME where required, valid content -/
theorem TreeC_node {its : Items} {h' : Hdr} {k' : Items} (hn : Node its h' k') :
    ∀ (pt : Nat) (pi seen : List Nat) (ne : Bool), TreeC S V ver pt its pi seen ne →
    AttrsValid S V ver h'.ety.typ h'.attrs ∧ (S.isNamedIn h'.ety.typ ver = true → hasSN S k' = true) ∧
      TreeC S V ver h'.ety.typ k' [] [] false := by
  induction hn with
  | here h k r => intro pt pi seen ne ht; unfold TreeC at ht; exact ⟨ht.2.1, ht.2.2.1, ht.2.2.2⟩
  | kids h k r h' k' _ ih => intro pt pi seen ne ht; unfold TreeC at ht; exact ih _ _ _ _ ht.2.2.2
  | rest h k r h' k' _ ih =>
    intro pt pi seen ne ht; unfold TreeC at ht
    obtain ⟨⟨idx, _, _, _, hr⟩, _⟩ := ht
    exact ih _ _ _ _ hr
  | text c r h' k' _ ih => intro pt pi seen ne ht; unfold TreeC at ht; exact ih _ _ _ _ ht.2

/-- every child element is found by `find_sub_element` in the version, with the recorded type -/
theorem TreeC_childs (its : Items) : ∀ (pt : Nat) (pi seen : List Nat) (ne : Bool), TreeC S V ver pt its pi seen ne →
    ∀ c ∈ childs its, ∃ idx, S.findSub pt c.name ver = some (c.ety, idx) := by
  induction its with
  | nil => intro _ _ _ _ _ c hc; simp [childs] at hc
  | text c r ih => intro pt pi seen ne ht; unfold TreeC at ht; exact ih _ _ _ _ ht.2
  | elem h k r _ ihr =>
    intro pt pi seen ne ht c hc
    unfold TreeC at ht
    obtain ⟨⟨idx, hf, _, _, hr⟩, _⟩ := ht
    simp only [childs, List.mem_cons] at hc
    rcases hc with rfl | hc
    · exact ⟨idx, hf⟩
    · exact ihr _ _ _ _ hr c hc

/-- every character item is accepted by `check_value` for the character data specification of the parent's type -/
theorem TreeC_texts (its : Items) : ∀ (pt : Nat) (pi seen : List Nat) (ne : Bool), TreeC S V ver pt its pi seen ne →
    ∀ c ∈ texts its, ∃ spec, S.chardataSpec pt = some spec ∧ checkValue V c spec ver = true := by
  induction its with
  | nil => intro _ _ _ _ _ c hc; simp [texts] at hc
  | text c r ih =>
    intro pt pi seen ne ht c' hc
    unfold TreeC at ht
    simp only [texts, List.mem_cons] at hc
    rcases hc with rfl | hc
    · exact ht.1
    · exact ih _ _ _ _ ht.2 c' hc
  | elem h k r _ ihr =>
    intro pt pi seen ne ht
    unfold TreeC at ht
    obtain ⟨⟨idx, _, _, _, hr⟩, _⟩ := ht
    exact ihr _ _ _ _ hr

/-- the first child element -/
def firstEl : Items → Option Hdr
  | .nil => none
  | .elem h _ _ => some h
  | .text _ r => firstEl r

/-- `c2` is the element that follows the element `c1` in the content list (character items in between do not count) -/
inductive Adjacent : Items → Hdr → Hdr → Prop
  | here (c1 : Hdr) (k r : Items) (c2 : Hdr) : firstEl r = some c2 → Adjacent (.elem c1 k r) c1 c2
  | rest (h : Hdr) (k r : Items) (c1 c2 : Hdr) : Adjacent r c1 c2 → Adjacent (.elem h k r) c1 c2
  | text (c : CDv) (r : Items) (c1 c2 : Hdr) : Adjacent r c1 c2 → Adjacent (.text c r) c1 c2

theorem TreeC_first (its : Items) : ∀ (pt : Nat) (pi seen : List Nat) (ne : Bool) (c2 : Hdr),
    TreeC S V ver pt its pi seen ne → firstEl its = some c2 →
    ∃ i2, S.findSub pt c2.name ver = some (c2.ety, i2) ∧ ConflictOK S pt pi i2 := by
  induction its with
  | nil => intro _ _ _ _ _ _ hf; cases hf
  | text c r ih => intro pt pi seen ne c2 ht hf; unfold TreeC at ht; exact ih _ _ _ _ _ ht.2 hf
  | elem h k r _ _ =>
    intro pt pi seen ne c2 ht hf
    unfold TreeC at ht
    obtain ⟨⟨idx, hfs, hc, _, _⟩, _⟩ := ht
    simp only [firstEl, Option.some.injEq] at hf; subst hf
    exact ⟨idx, hfs, hc⟩

/-- two adjacent elements: same entry, or not alternatives of an exclusive choice -/
theorem TreeC_adjacent {its : Items} {c1 c2 : Hdr} (ha : Adjacent its c1 c2) :
    ∀ (pt : Nat) (pi seen : List Nat) (ne : Bool), TreeC S V ver pt its pi seen ne →
    ∃ i1 i2, S.findSub pt c1.name ver = some (c1.ety, i1) ∧ S.findSub pt c2.name ver = some (c2.ety, i2) ∧
      ConflictOK S pt i1 i2 := by
  induction ha with
  | here c1 k r c2 hf =>
    intro pt pi seen ne ht
    unfold TreeC at ht
    obtain ⟨⟨i1, hf1, _, _, hr⟩, _⟩ := ht
    obtain ⟨i2, hf2, hc⟩ := TreeC_first S V ver r _ _ _ _ c2 hr hf
    exact ⟨i1, i2, hf1, hf2, hc⟩
  | rest h k r c1 c2 _ ih =>
    intro pt pi seen ne ht
    unfold TreeC at ht
    obtain ⟨⟨idx, _, _, _, hr⟩, _⟩ := ht
    exact ih _ _ _ _ hr
  | text c r c1 c2 _ ih => intro pt pi seen ne ht; unfold TreeC at ht; exact ih _ _ _ _ ht.2

/-- an element whose name occurred before (among `seen` or among the preceding children) is not a single-occurrence
element of a sequence or choice -/
theorem TreeC_repeat (its : Items) : ∀ (pt : Nat) (pi seen : List Nat) (ne : Bool), TreeC S V ver pt its pi seen ne →
    (seen ≠ [] → ne = true) →
    ∀ l1 c l2, childs its = l1 ++ c :: l2 → (c.name ∈ seen ∨ c.name ∈ l1.map (·.name)) →
    ∃ idx, S.findSub pt c.name ver = some (c.ety, idx) ∧
      ∀ md, S.containerMode pt idx = some md → (md = .sequence ∨ md = .choice) →
        ∀ mu, S.subMult pt idx = some mu → mu = .any := by
  induction its with
  | nil => intro _ _ _ _ _ _ l1 c l2 hc; simp [childs] at hc
  | text c r ih =>
    intro pt pi seen ne ht hne l1 c' l2 hc hm
    unfold TreeC at ht
    exact ih _ _ _ _ ht.2 (fun _ => rfl) l1 c' l2 hc hm
  | elem h k r _ ihr =>
    intro pt pi seen ne ht hne l1 c l2 hc hm
    unfold TreeC at ht
    obtain ⟨⟨idx, hf, _, hmult, hr⟩, _⟩ := ht
    simp only [childs] at hc
    cases l1 with
    | nil =>
      simp only [List.nil_append, List.cons.injEq] at hc
      obtain ⟨rfl, _⟩ := hc
      simp only [List.map_nil, List.not_mem_nil, or_false] at hm
      have hne' : ne = true := hne (by intro h0; rw [h0] at hm; cases hm)
      obtain ⟨md, hmd, hmu⟩ := hmult hne'
      refine ⟨idx, hf, fun md' hmd' hsc mu hsm => ?_⟩
      rw [hmd] at hmd'; cases hmd'
      rcases hmu hsc mu hsm with h1 | h1
      · exact h1
      · exact absurd hm h1
    | cons x xs =>
      simp only [List.cons_append, List.cons.injEq] at hc
      obtain ⟨rfl, hc⟩ := hc
      refine ihr _ _ _ _ hr (fun _ => rfl) xs c l2 hc ?_
      simp only [List.map_cons, List.mem_cons] at hm ⊢
      rcases hm with hm | hm | hm
      · exact Or.inl (Or.inr hm)
      · exact Or.inl (Or.inl hm)
      · exact Or.inr hm

end

/-! #### … in the words of the property (strict mode; by `runParser_sound_lenient` the same holds for a lenient run
without warnings).  `hr` = the strict parser accepts the buffer and returns the root `h` with content `k`; `(h', k')`
ranges over ALL elements of the document. -/

section
variable (S : Spec) (V : Env) (buf : Bytes) (nid nmAutosar : Nat) (h : Hdr) (k : Items) (st : PState)
  (hr : runParser S V true buf nid nmAutosar = (.ok (h, k), st))
include hr

/-- the content of every element of an accepted document is valid -/
theorem accepted_node (h' : Hdr) (k' : Items) (hn : Node (.elem h k .nil) h' k') :
    (S.isNamedIn h'.ety.typ st.ver = true → hasSN S k' = true) ∧ TreeC S V st.ver h'.ety.typ k' [] [] false := by
  obtain ⟨hv, _⟩ := runParser_sound S V buf nid nmAutosar h k st hr
  cases hn with
  | here => exact ⟨hv.sn, hv.kids⟩
  | kids _ _ _ _ _ hn' => exact (TreeC_node S V st.ver hn' _ _ _ _ hv.kids).2
  | rest _ _ _ _ _ hn' => cases hn'

/-- **no element that is unknown in its context or not available in the file's version**: every child element of every
element is found by `find_sub_element(name, version of the file)` in the type of its parent, with the type it has in
the tree -/
theorem accepted_elements_known (h' : Hdr) (k' : Items) (hn : Node (.elem h k .nil) h' k') :
    ∀ c ∈ childs k', ∃ idx, S.findSub h'.ety.typ c.name st.ver = some (c.ety, idx) :=
  TreeC_childs S V st.ver k' _ _ _ _ (accepted_node S V buf nid nmAutosar h k st hr h' k' hn).2

/-- **no two adjacent alternatives of an exclusive choice**: for two adjacent child elements with different entries
the innermost group that contains both is not a choice -/
theorem accepted_no_choice_conflict (h' : Hdr) (k' : Items) (hn : Node (.elem h k .nil) h' k') (c1 c2 : Hdr)
    (ha : Adjacent k' c1 c2) :
    ∃ i1 i2, S.findSub h'.ety.typ c1.name st.ver = some (c1.ety, i1) ∧
      S.findSub h'.ety.typ c2.name st.ver = some (c2.ety, i2) ∧
      (i1 = [] ∨ i1 = i2 ∨ S.mode (S.commonGroup h'.ety.typ i1 i2) ≠ .choice) := by
  obtain ⟨i1, i2, h1, h2, hc⟩ := TreeC_adjacent S V st.ver ha _ _ _ _ (accepted_node S V buf nid nmAutosar h k st hr h' k' hn).2
  refine ⟨i1, i2, h1, h2, ?_⟩
  rcases hc with hc | hc | hc
  · exact Or.inl hc
  · exact Or.inr (Or.inl hc)
  · exact Or.inr (Or.inr hc.1)

/-- **no repeated single-occurrence element**: a child element whose name already occurred among the preceding children
of the same parent is, in a sequence or choice, an element of multiplicity `Any` -/
theorem accepted_no_repeat (h' : Hdr) (k' : Items) (hn : Node (.elem h k .nil) h' k') (l1 : List Hdr) (c : Hdr) (l2 : List Hdr)
    (hc : childs k' = l1 ++ c :: l2) (hrep : c.name ∈ l1.map (·.name)) :
    ∃ idx, S.findSub h'.ety.typ c.name st.ver = some (c.ety, idx) ∧
      ∀ md, S.containerMode h'.ety.typ idx = some md → (md = .sequence ∨ md = .choice) →
        ∀ mu, S.subMult h'.ety.typ idx = some mu → mu = .any :=
  TreeC_repeat S V st.ver k' _ _ _ _ (accepted_node S V buf nid nmAutosar h k st hr h' k' hn).2 (fun h0 => absurd rfl h0)
    l1 c l2 hc (Or.inr hrep)

/-- **no missing SHORT-NAME**: every element whose type is named in the file's version has a SHORT-NAME child -/
theorem accepted_short_name (h' : Hdr) (k' : Items) (hn : Node (.elem h k .nil) h' k')
    (hnamed : S.isNamedIn h'.ety.typ st.ver = true) : hasSN S k' = true :=
  (accepted_node S V buf nid nmAutosar h k st hr h' k' hn).1 hnamed

/-- **attributes** of every element below the root: known to the type, available in the file's version, value accepted
by `check_value`; **no missing required attribute** -/
theorem accepted_attributes (h' : Hdr) (k' : Items) (hn : Node k h' k') : AttrsValid S V st.ver h'.ety.typ h'.attrs := by
  obtain ⟨hv, _⟩ := runParser_sound S V buf nid nmAutosar h k st hr
  exact (TreeC_node S V st.ver hn _ _ _ _ hv.kids).1

/-- … of the root element: the same, but with respect to version `1` (4.0.1) -/
theorem accepted_root_attributes : AttrsValid S V 1 h.ety.typ h.attrs :=
  (runParser_sound S V buf nid nmAutosar h k st hr).1.attrs

/-- **values**: every character item of every element is accepted by `check_value` for the specification of the
element's type -/
theorem accepted_values (h' : Hdr) (k' : Items) (hn : Node (.elem h k .nil) h' k') :
    ∀ c ∈ texts k', ∃ spec, S.chardataSpec h'.ety.typ = some spec ∧ checkValue V c spec st.ver = true :=
  TreeC_texts S V st.ver k' _ _ _ _ (accepted_node S V buf nid nmAutosar h k st hr h' k' hn).2

/-- **no data after the root element**: the whole buffer has been read -/
theorem accepted_no_trailing_data : st.lx.rest = [] ∧ st.lx.deferred = none :=
  (runParser_sound S V buf nid nmAutosar h k st hr).2

end

/-! what `check_value = true` says, kind by kind -/

theorem checkValue_string (V : Env) (v : CDv) (p : Bool) (m ver : Nat) (h : checkValue V v (.string p (some m)) ver = true) :
    ∃ s, v = .str s ∧ s.length ≤ m := by
  cases v <;> simp [checkValue] at h
  exact ⟨_, rfl, h⟩

theorem checkValue_pattern (V : Env) (v : CDv) (kk : Nat) (ml : Option Nat) (ver : Nat)
    (h : checkValue V v (.pattern kk ml) ver = true) :
    ∃ s, v = .str s ∧ (∀ m, ml = some m → s.length ≤ m) ∧ V.validate kk s = true := by
  cases v <;> simp only [checkValue, Bool.and_eq_true, reduceCtorEq] at h
  rename_i s
  refine ⟨s, rfl, ?_, h.2⟩
  intro m hm; subst hm; simpa using h.1

theorem checkValue_enum (V : Env) (v : CDv) (items : List (Nat × Nat)) (ver : Nat)
    (h : checkValue V v (.enum items) ver = true) :
    ∃ i it, v = .enum i ∧ it ∈ items ∧ it.1 = i ∧ it.2 &&& ver ≠ 0 := by
  cases v <;> simp only [checkValue, reduceCtorEq] at h
  rename_i i
  obtain ⟨it, hit, hh⟩ := List.any_eq_true.mp h
  simp only [Bool.and_eq_true, beq_iff_eq, bne_iff_ne, ne_eq] at hh
  exact ⟨i, it, rfl, hit, hh.1, hh.2⟩

theorem checkValue_uint (V : Env) (v : CDv) (ver : Nat) (h : checkValue V v .uint ver = true) : ∃ n, v = .uint n := by
  cases v <;> simp [checkValue] at h
  exact ⟨_, rfl⟩

theorem checkValue_float (V : Env) (v : CDv) (ver : Nat) (h : checkValue V v .float ver = true) : ∃ b, v = .float b := by
  cases v <;> simp [checkValue] at h
  exact ⟨_, rfl⟩

end AV.ParseSound
