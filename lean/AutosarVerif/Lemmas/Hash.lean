/-
Generic lemmas about the perfect-hash model (`Model/Hash.lean`): the packed presentation agrees
with the byte-level one, and a successful table walk (a regenerated `decide +kernel` obligation)
lifts to statements about *all* byte strings.
-/
import AutosarVerif.Model.Hash

namespace AV.Hash

theorem u8_lt (b : UInt8) : b.toNat < 256 := by
  have := UInt8.toNat_lt b
  simpa using this

theorem pack_pos (s : Bytes) : 1 ≤ pack s := by
  induction s with
  | nil => simp [pack]
  | cons b bs ih => simp only [pack]; omega

theorem pack_ge (s : Bytes) : 256 ^ s.length ≤ pack s := by
  induction s with
  | nil => simp [pack]
  | cons b bs ih =>
    simp only [pack, List.length_cons, Nat.pow_succ]
    omega

theorem unpack_pack (fuel : Nat) (s : Bytes) (h : s.length ≤ fuel) : unpack fuel (pack s) = s := by
  induction s generalizing fuel with
  | nil =>
    cases fuel <;> simp [unpack, pack]
  | cons b bs ih =>
    cases fuel with
    | zero => simp at h
    | succ fuel =>
      have hb := u8_lt b
      have hp := pack_pos bs
      simp only [unpack, pack]
      have h1 : ¬ (b.toNat + 256 * pack bs ≤ 1) := by omega
      have h2 : (b.toNat + 256 * pack bs) % 256 = b.toNat := by omega
      have h3 : (b.toNat + 256 * pack bs) / 256 = pack bs := by omega
      simp only [h1, h2, h3, if_false]
      rw [ih fuel (by simpa using h)]
      simp

theorem hashAux_small (P : Params) (fuel n : Nat) (f : Nat × Nat) (h : n < 0x100) :
    hashAux P (fuel + 1) n f = f := by
  have h1 : ¬ (n ≥ 0x100000000) := by omega
  have h2 : ¬ (n ≥ 0x1000000) := by omega
  have h3 : ¬ (n ≥ 0x10000) := by omega
  have h4 : ¬ (n ≥ 0x100) := by omega
  simp only [hashAux, h1, h2, h3, h4, if_false]

theorem hashAux_one (P : Params) (fuel n v : Nat) (f : Nat × Nat) (hv : v < 256) (hn : n = v + 256) :
    hashAux P (fuel + 1) n f = stepf P.c1 P.c2 f v := by
  have h1 : ¬ (n ≥ 0x100000000) := by omega
  have h2 : ¬ (n ≥ 0x1000000) := by omega
  have h3 : ¬ (n ≥ 0x10000) := by omega
  have h4 : (n ≥ 0x100) := by omega
  have h5 : n % 256 = v := by omega
  simp only [hashAux, h1, h2, h3, h4, h5, if_false, if_true]

theorem hashAux_two (P : Params) (fuel n v : Nat) (f : Nat × Nat) (hv : v < 65536) (hn : n = v + 65536) :
    hashAux P (fuel + 1) n f = stepf P.c1 P.c2 f v := by
  have h1 : ¬ (n ≥ 0x100000000) := by omega
  have h2 : ¬ (n ≥ 0x1000000) := by omega
  have h3 : (n ≥ 0x10000) := by omega
  have h5 : n % 0x10000 = v := by omega
  simp only [hashAux, h1, h2, h3, h5, if_false, if_true]

theorem hashAux_three (P : Params) (fuel n v w : Nat) (f : Nat × Nat) (hv : v < 65536) (hw : w < 256)
    (hn : n = v + 65536 * w + 16777216) :
    hashAux P (fuel + 1) n f = stepf P.c1 P.c2 (stepf P.c1 P.c2 f v) w := by
  have h1 : ¬ (n ≥ 0x100000000) := by omega
  have h2 : (n ≥ 0x1000000) := by omega
  have h5 : n % 0x10000 = v := by omega
  have h6 : (n >>> 16) % 256 = w := by
    rw [Nat.shiftRight_eq_div_pow]; omega
  simp only [hashAux, h1, h2, h5, h6, if_false, if_true]

theorem hashAux_four (P : Params) (fuel n v r : Nat) (f : Nat × Nat) (hv : v < 4294967296) (hr : 1 ≤ r)
    (hn : n = v + 4294967296 * r) :
    hashAux P (fuel + 1) n f = hashAux P fuel r (stepf P.c1 P.c2 f v) := by
  have h1 : (n ≥ 0x100000000) := by omega
  have h5 : n % 0x100000000 = v := by omega
  have h6 : n >>> 32 = r := by
    rw [Nat.shiftRight_eq_div_pow]; omega
  simp only [hashAux, h1, h5, h6, if_true]

/-- the packed and the byte-level presentation of `hashfunc` agree -/
theorem hashAux_pack (P : Params) (fuel : Nat) (s : Bytes) (f : Nat × Nat)
    (h : s.length < 4 * fuel) : hashAux P fuel (pack s) f = hashBytes P s f := by
  induction fuel generalizing s f with
  | zero => omega
  | succ fuel ih =>
    match s with
    | [] => rw [hashAux_small P fuel _ f (by simp [pack])]; simp [hashBytes]
    | [b0] =>
      have := u8_lt b0
      rw [hashAux_one P fuel _ b0.toNat f this (by simp [pack])]
      simp [hashBytes]
    | [b0, b1] =>
      have := u8_lt b0
      have := u8_lt b1
      rw [hashAux_two P fuel _ (b0.toNat + 256 * b1.toNat) f (by omega) (by simp only [pack]; omega)]
      simp [hashBytes]
    | [b0, b1, b2] =>
      have := u8_lt b0
      have := u8_lt b1
      have := u8_lt b2
      rw [hashAux_three P fuel _ (b0.toNat + 256 * b1.toNat) b2.toNat f (by omega) (by omega)
        (by simp only [pack]; omega)]
      simp [hashBytes]
    | b0 :: b1 :: b2 :: b3 :: rest =>
      have := u8_lt b0
      have := u8_lt b1
      have := u8_lt b2
      have := u8_lt b3
      have hp := pack_pos rest
      rw [hashAux_four P fuel _ (b0.toNat + 256 * b1.toNat + 65536 * b2.toNat + 16777216 * b3.toNat)
        (pack rest) f (by omega) hp (by simp only [pack]; omega)]
      simp only [hashBytes]
      apply ih
      simp only [List.length_cons] at h
      omega

/-! ### lifting the table walk -/

theorem walkN_sound (P : Params) (T : NameTable) (c : List Nat) (base n : Nat)
    (h : walkN P T c base = some n) :
    n = base + c.length ∧ ∀ j x, c[j]? = some x → entryOk P T x (base + j) = true := by
  induction c generalizing base with
  | nil => simp [walkN] at h; simp [h]
  | cons y ys ih =>
    simp only [walkN] at h
    split at h
    · rename_i hy
      obtain ⟨hn, hrest⟩ := ih (base + 1) h
      refine ⟨by simp [hn]; omega, ?_⟩
      intro j x hj
      cases j with
      | zero => simp at hj; subst hj; simpa using hy
      | succ j =>
        simp at hj
        have := hrest j x hj
        have e : base + 1 + j = base + (j + 1) := by omega
        rw [e] at this; exact this
    · simp at h

theorem walkAll_sound (P : Params) (T : NameTable) (cs : List (List Nat)) (base n : Nat)
    (h : walkAll P T cs base = some n) :
    n = base + cs.flatten.length ∧
      ∀ j x, cs.flatten[j]? = some x → entryOk P T x (base + j) = true := by
  induction cs generalizing base with
  | nil => simp [walkAll] at h; simp [h]
  | cons c cs ih =>
    simp only [walkAll] at h
    split at h
    · rename_i m hm
      obtain ⟨hm1, hm2⟩ := walkN_sound P T c base m hm
      obtain ⟨hn, hrest⟩ := ih m h
      refine ⟨by simp [hn, hm1]; omega, ?_⟩
      intro j x hj
      simp only [List.flatten_cons] at hj
      by_cases hlt : j < c.length
      · rw [List.getElem?_append_left hlt] at hj
        exact hm2 j x hj
      · rw [List.getElem?_append_right (by omega)] at hj
        have := hrest (j - c.length) x hj
        have e : m + (j - c.length) = base + j := by omega
        rw [e] at this; exact this
    · simp at h

theorem walkAll_nil (P : Params) (T : NameTable) (i : Nat) : walkAll P T [] i = some i := rfl

theorem walkAll_cons_of {P : Params} {T : NameTable} {c : List Nat} {cs : List (List Nat)} {i j n : Nat}
    (h1 : walkN P T c i = some j) (h2 : walkAll P T cs j = some n) :
    walkAll P T (c :: cs) i = some n := by
  simp only [walkAll, h1, h2]

/-- every entry of the table is a well-formed packed text that hashes to its own slot -/
def TableOk (P : Params) (T : NameTable) : Prop :=
  T.names.length = T.nNames ∧ ∀ i x, T.names[i]? = some x → entryOk P T x i = true

theorem tableOk_of_walkAll (P : Params) (T : NameTable) (cs : List (List Nat))
    (hn : T.names = cs.flatten) (h : walkAll P T cs 0 = some T.nNames) : TableOk P T := by
  obtain ⟨h1, h2⟩ := walkAll_sound P T cs 0 T.nNames h
  refine ⟨by rw [hn]; omega, ?_⟩
  intro i x hi
  rw [hn] at hi
  simpa using h2 i x hi

theorem validPacked_sound (fuel n : Nat) (h : validPacked fuel n = true) :
    pack (unpack fuel n) = n ∧ n < 256 ^ fuel := by
  induction fuel generalizing n with
  | zero => simp [validPacked] at h
  | succ fuel ih =>
    simp only [validPacked, Bool.or_eq_true, beq_iff_eq, Bool.and_eq_true, decide_eq_true_eq] at h
    rcases h with h | ⟨h1, h2⟩
    · subst h
      refine ⟨by simp [unpack, pack], ?_⟩
      exact Nat.one_lt_pow (by omega) (by omega)
    · obtain ⟨ih1, ih2⟩ := ih (n / 256) h2
      have hn : ¬ (n ≤ 1) := by omega
      constructor
      · simp only [unpack, hn, if_false, pack]
        rw [ih1]
        have : (UInt8.ofNat (n % 256)).toNat = n % 256 := by
          simp [UInt8.toNat_ofNat']
        rw [this]; omega
      · rw [Nat.pow_succ]; omega

theorem unpack_fuel_mono (fuel n : Nat) (h : validPacked fuel n = true) (fuel' : Nat) (hf : fuel ≤ fuel') :
    unpack fuel' n = unpack fuel n := by
  induction fuel generalizing n fuel' with
  | zero => simp [validPacked] at h
  | succ fuel ih =>
    cases fuel' with
    | zero => omega
    | succ fuel' =>
      simp only [validPacked, Bool.or_eq_true, beq_iff_eq, Bool.and_eq_true, decide_eq_true_eq] at h
      rcases h with h | ⟨h1, h2⟩
      · subst h; simp [unpack]
      · have hn : ¬ (n ≤ 1) := by omega
        simp only [unpack, hn, if_false]
        rw [ih (n / 256) h2 fuel' (by omega)]

set_option exponentiation.threshold 4096 in
theorem entry_facts {P : Params} {T : NameTable} {x i : Nat} (h : entryOk P T x i = true) :
    idxPacked P T x = i ∧ pack (unpack 256 x) = x ∧ x < 2 ^ 2040 := by
  simp only [entryOk, Bool.and_eq_true, beq_iff_eq] at h
  obtain ⟨h1, h2⟩ := validPacked_sound 255 x h.2
  refine ⟨h.1, ?_, ?_⟩
  · rw [unpack_fuel_mono 255 x h.2 256 (by omega)]; exact h1
  · have e : (2 : Nat) ^ 2040 = 256 ^ 255 := by
      rw [show (256 : Nat) = 2 ^ 8 by rfl, ← Nat.pow_mul]
    rw [e]; exact h2

set_option exponentiation.threshold 4096 in
theorem len_lt_of_pack_lt (s : Bytes) (h : pack s < 2 ^ 2040) : s.length < 255 := by
  have h1 := pack_ge s
  have e : (2 : Nat) ^ 2040 = 256 ^ 255 := by
    rw [show (256 : Nat) = 2 ^ 8 by rfl, ← Nat.pow_mul]
  rw [e] at h
  have : 256 ^ s.length < 256 ^ 255 := Nat.lt_of_le_of_lt h1 h
  exact (Nat.pow_lt_pow_iff_right (by omega)).mp this

/-- **text → item → text**: whatever `from_bytes` accepts is exactly the text of the item returned -/
theorem from_only_members {P : Params} {T : NameTable} (hT : TableOk P T) (s : Bytes) (i : Nat)
    (h : fromBytes P T s = some i) : toStr T i = s ∧ i < T.nNames := by
  simp only [fromBytes] at h
  split at h
  · rename_i hx
    simp at h
    subst h
    have hlt : idxOf T (hashBytes P s (P.init1, P.init2)) < T.names.length := by
      rcases List.getElem?_eq_some_iff.mp hx with ⟨hl, _⟩
      exact hl
    have hok := hT.2 _ _ hx
    obtain ⟨_, _, hsmall⟩ := entry_facts hok
    have hlen := len_lt_of_pack_lt s hsmall
    refine ⟨?_, by rw [← hT.1]; exact hlt⟩
    simp only [toStr]
    have : T.names.getD (idxOf T (hashBytes P s (P.init1, P.init2))) 0 = pack s := by
      simp [List.getD, hx]
    rw [this]
    exact unpack_pack 256 s (by omega)
  · simp at h

/-- **item → text → item** for every item of the table -/
theorem from_to {P : Params} {T : NameTable} (hT : TableOk P T) (i : Nat) (hi : i < T.nNames) :
    fromBytes P T (toStr T i) = some i := by
  rw [← hT.1] at hi
  have hx : T.names[i]? = some T.names[i] := List.getElem?_eq_getElem hi
  have hok := hT.2 _ _ hx
  obtain ⟨hidx, hpk, hsmall⟩ := entry_facts hok
  have hs : toStr T i = unpack 256 T.names[i] := by
    simp [toStr, List.getD, hx]
  have hlen : (unpack 256 T.names[i]).length < 255 := by
    apply len_lt_of_pack_lt; rw [hpk]; exact hsmall
  have hh : hashBytes P (unpack 256 T.names[i]) (P.init1, P.init2)
      = hashAux P 64 T.names[i] (P.init1, P.init2) := by
    rw [← hashAux_pack P 64 _ _ (by omega), hpk]
  simp only [fromBytes, hs, hh, hpk]
  simp only [idxPacked] at hidx
  rw [hidx, hx]
  simp

/-- distinct items have distinct texts -/
theorem toStr_inj {P : Params} {T : NameTable} (hT : TableOk P T) (i j : Nat)
    (hi : i < T.nNames) (hj : j < T.nNames) (h : toStr T i = toStr T j) : i = j := by
  have h1 := from_to hT i hi
  have h2 := from_to hT j hj
  rw [h] at h1
  rw [h1] at h2
  exact Option.some.inj h2

/-- a text that is not exactly the text of an item is rejected — for *every* byte string -/
theorem non_member_fails {P : Params} {T : NameTable} (hT : TableOk P T) (s : Bytes)
    (h : ∀ i, i < T.nNames → toStr T i ≠ s) : fromBytes P T s = none := by
  cases hf : fromBytes P T s with
  | none => rfl
  | some i =>
    obtain ⟨h1, h2⟩ := from_only_members hT s i hf
    exact absurd h1 (h i h2)

theorem bitmap_testBit (l : List Nat) (acc i : Nat) :
    (bitmap l acc).testBit i = (acc.testBit i || decide (i ∈ l)) := by
  induction l generalizing acc with
  | nil => simp [bitmap]
  | cons d ds ih =>
    have : bitmap (d :: ds) acc = bitmap ds (acc ||| (1 <<< d)) := rfl
    rw [this, ih]
    simp only [Nat.testBit_or, Nat.testBit_shiftLeft, List.mem_cons]
    by_cases hid : i = d
    · subst hid; simp
    · have h1 : ¬ (i ≥ d ∧ i - d = 0) := by omega
      by_cases hge : i ≥ d
      · have : i - d ≠ 0 := by omega
        have h2 : Nat.testBit 1 (i - d) = false := by
          cases hb : Nat.testBit 1 (i - d) with
          | false => rfl
          | true => exact absurd (Nat.testBit_one_eq_true_iff_self_eq_zero.mp hb) this
        simp [hid, h2]
      · simp [hid, hge]

theorem isRange_sound (ls : List (List Nat)) (n : Nat) (h : isRange ls n = true) :
    ls.flatten.length = n ∧ ∀ i, i < n → i ∈ ls.flatten := by
  simp only [isRange, Bool.and_eq_true, beq_iff_eq] at h
  refine ⟨h.1, fun i hi => ?_⟩
  have := bitmap_testBit ls.flatten 0 i
  rw [h.2, Nat.testBit_two_pow_sub_one] at this
  simpa [hi] using this

end AV.Hash
