/-
Lemmas about the value layer (`Model/CData.lean`): escaping/unescaping round trip, decimal
formatting/parsing round trip of unsigned integers, the rounding core of the float conversion.
-/
import AutosarVerif.Model.CData

namespace AV.CData

/-! ### unescape ∘ escape = id -/

theorem escape_length_pos (c : UInt8) : 1 ≤ (escOne c).length := by
  unfold escOne; (repeat' split) <;> simp

theorem unescapeAux_escape (s : Bytes) (fuel : Nat) (h : s.length < fuel) :
    unescapeAux fuel (escape s) = some s := by
  induction s generalizing fuel with
  | nil => cases fuel with
    | zero => omega
    | succ f => simp [escape, unescapeAux]
  | cons c cs ih =>
    cases fuel with
    | zero => omega
    | succ f =>
      have hf : cs.length < f := by simp at h; omega
      have ihf := ih f hf
      simp only [escape, escOne]
      split
      · subst_vars; simp [unescapeAux, ihf]
      · split
        · subst_vars; simp [unescapeAux, ihf]
        · split
          · subst_vars; simp [unescapeAux, ihf]
          · split
            · subst_vars; simp [unescapeAux, ihf]
            · split
              · subst_vars; simp [unescapeAux, ihf]
              · rename_i h1 h2 h3 h4 h5
                show unescapeAux (f + 1) (c :: escape cs) = some (c :: cs)
                unfold unescapeAux
                split <;> simp_all

/-- every string survives formatting and (strict) parsing: `unescape (escape s) = s` -/
theorem unescape_escape (s : Bytes) : unescape (escape s) = some s := by
  unfold unescape
  apply unescapeAux_escape
  have : s.length ≤ (escape s).length := by
    induction s with
    | nil => simp [escape]
    | cons c cs ih =>
      simp only [escape, List.length_append, List.length_cons]
      have := escape_length_pos c
      omega
  omega

/-- the escaped text contains none of `<`, `>`, `"`, `'`, and `&` only as the start of one of the five entities -/
theorem escape_no_markup (s : Bytes) : ∀ c ∈ escape s, c ≠ 60 ∧ c ≠ 62 ∧ c ≠ 34 ∧ c ≠ 39 := by
  induction s with
  | nil => simp [escape]
  | cons c cs ih =>
    intro x hx
    simp only [escape, List.mem_append] at hx
    rcases hx with hx | hx
    · unfold escOne at hx
      repeat' split at hx
      all_goals simp at hx
      all_goals first
        | (rcases hx with rfl | rfl | rfl | rfl | rfl | rfl <;> decide)
        | (rcases hx with rfl | rfl | rfl | rfl | rfl <;> decide)
        | (rcases hx with rfl | rfl | rfl | rfl <;> decide)
        | (subst hx; simp_all)
    · exact ih x hx

/-! ### decimal formatting and parsing of unsigned integers -/

theorem digitVal_dec (d : Nat) (h : d < 10) : digitVal 10 (UInt8.ofNat (48 + d)) = some d := by
  have : (UInt8.ofNat (48 + d)).toNat = 48 + d := by
    simp [UInt8.toNat_ofNat']; omega
  simp only [digitVal, this]
  have h1 : 48 ≤ 48 + d ∧ 48 + d ≤ 57 := by omega
  simp [h1, h]

theorem toDecAux_digits (fuel n : Nat) (acc : Bytes) (h : n < 10 ^ fuel) :
    ∃ k, ∀ a, digitsVal 10 (toDecAux fuel n acc) a = digitsVal 10 acc (a * 10 ^ k + n) := by
  induction fuel generalizing n acc with
  | zero => simp at h; subst h; exact ⟨0, fun a => by simp [toDecAux]⟩
  | succ fuel ih =>
    simp only [toDecAux]
    split
    · rename_i hn
      refine ⟨1, fun a => ?_⟩
      have hm : n % 10 = n := Nat.mod_eq_of_lt hn
      simp only [digitsVal, hm, digitVal_dec n hn, Nat.pow_one]
    · rename_i hn
      have hlt : n / 10 < 10 ^ fuel := by
        rw [Nat.pow_succ] at h; omega
      obtain ⟨k, hk⟩ := ih (n / 10) (UInt8.ofNat (48 + n % 10) :: acc) hlt
      refine ⟨k + 1, fun a => ?_⟩
      rw [hk a]
      simp only [digitsVal, digitVal_dec (n % 10) (Nat.mod_lt _ (by omega))]
      congr 1
      rw [Nat.pow_succ]
      have := Nat.div_add_mod n 10
      calc (a * 10 ^ k + n / 10) * 10 + n % 10 = a * 10 ^ k * 10 + (n / 10 * 10 + n % 10) := by
            rw [Nat.add_mul, Nat.add_assoc]
        _ = a * (10 ^ k * 10) + n := by rw [Nat.mul_assoc]; congr 1; omega

theorem toDecAux_head (fuel n : Nat) (acc : Bytes) (hf : 0 < fuel) :
    ∃ c rest, toDecAux fuel n acc = c :: rest ∧ 48 ≤ c.toNat ∧ c.toNat ≤ 57 := by
  induction fuel generalizing n acc with
  | zero => omega
  | succ fuel ih =>
    simp only [toDecAux]
    have hd : (UInt8.ofNat (48 + n % 10)).toNat = 48 + n % 10 := by
      simp [UInt8.toNat_ofNat']; omega
    split
    · exact ⟨_, _, rfl, by rw [hd]; omega, by rw [hd]; omega⟩
    · rename_i hn
      cases fuel with
      | zero =>
        -- fuel exhausted: still a digit at the head
        simp only [toDecAux]
        exact ⟨_, _, rfl, by rw [hd]; omega, by rw [hd]; omega⟩
      | succ f => exact ih (n / 10) _ (by omega)

theorem lt_ten_pow_succ (n : Nat) : n < 10 ^ (n + 1) := by
  induction n with
  | zero => simp
  | succ k ih => rw [Nat.pow_succ]; omega

/-- **unsigned integers round-trip**: parsing the decimal text of `n` gives `n` (whole `u64` range) -/
theorem parseU64_toDec (n : Nat) (hn : n < 2 ^ 64) : parseU64 (toDec n) = some n := by
  obtain ⟨k, hk⟩ := toDecAux_digits (n + 1) n [] (lt_ten_pow_succ n)
  obtain ⟨c, rest, hc, hc1, hc2⟩ := toDecAux_head (n + 1) n [] (by omega)
  have hv : digitsVal 10 (toDec n) 0 = some n := by
    have := hk 0
    simpa [toDec, digitsVal] using this
  have hfit : u64.fits (n : Int) = true := by
    have h2 : ((2 ^ 64 : Nat) : Int) = (2 : Int) ^ 64 := Int.natCast_pow 2 64
    have h3 : (n : Int) < ((2 ^ 64 : Nat) : Int) := Int.ofNat_lt.mpr hn
    rw [h2] at h3
    simp only [IntTy.fits, u64, Bool.false_eq_true, if_false]
    exact decide_eq_true ⟨Int.natCast_nonneg n, h3⟩
  have hne43 : c ≠ 43 := by intro h; subst h; simp at hc1
  have hne45 : c ≠ 45 := by intro h; subst h; simp at hc1
  unfold parseU64 fromStrRadix
  rw [show toDec n = c :: rest from hc] at hv ⊢
  cases rest with
  | nil =>
    simp only [hne43, hne45, or_self, if_false]
    rw [hv]; simp [hfit]
  | cons d ds =>
    simp only [hne43, hne45, false_and, if_false]
    rw [hv]; simp [hfit]

/-! ### the rounding core: nearest integer to a quotient, ties to even -/

/-- the integer `roundPos` picks for the quotient `n/d` -/
def roundDiv (n d : Nat) : Nat :=
  let q := n / d
  let r := n % d
  if 2 * r > d then q + 1 else if 2 * r < d then q else (if q % 2 = 1 then q + 1 else q)

/-- `roundDiv n d` is a nearest integer to `n/d` (error at most one half), and on an exact tie it is even -/
theorem roundDiv_nearest (n d : Nat) (hd : 0 < d) :
    (2 * (n - roundDiv n d * d) ≤ d ∧ 2 * (roundDiv n d * d - n) ≤ d) ∧
    (2 * (n % d) = d → roundDiv n d % 2 = 0) := by
  have hdm := Nat.div_add_mod n d
  have hr := Nat.mod_lt n hd
  have e1 : (n / d + 1) * d = d * (n / d) + d := by rw [Nat.add_mul, Nat.one_mul, Nat.mul_comm]
  have e2 : n / d * d = d * (n / d) := Nat.mul_comm _ _
  unfold roundDiv
  simp only
  split
  · rw [e1]; exact ⟨⟨by omega, by omega⟩, by omega⟩
  · split
    · rw [e2]; exact ⟨⟨by omega, by omega⟩, by omega⟩
    · split
      · rw [e1]; exact ⟨⟨by omega, by omega⟩, fun _ => by omega⟩
      · rw [e2]; exact ⟨⟨by omega, by omega⟩, fun _ => by omega⟩

end AV.CData

namespace AV.CData

/-! ### integer interpretation of the AUTOSAR lexical forms -/

/-- decimal form after the optional sign: first digit 1–9, then digits -/
def decForm (d : Bytes) (neg : Bool) : Option Int :=
  match d with
  | c :: _ =>
    if 49 ≤ c.toNat ∧ c.toNat ≤ 57 then
      (digitsVal 10 d 0).map fun v => if neg then -(v : Int) else (v : Int)
    else none
  | [] => none

/-- **independent reading** of the integer lexical forms (`0`, `[+-]?[1-9][0-9]*`, `0[xX]hex+`,
`0[bB]bin+`, `0[0-7]+`): the number the text denotes, `none` if the text is in none of the forms.
Does not mention `from_str_radix`, prefix stripping order or any integer width. -/
def denoteInt (t : Bytes) : Option Int :=
  match t with
  | [48] => some 0
  | 48 :: 120 :: h => if h = [] then none else (digitsVal 16 h 0).map Int.ofNat
  | 48 :: 88 :: h => if h = [] then none else (digitsVal 16 h 0).map Int.ofNat
  | 48 :: 98 :: b => if b = [] then none else (digitsVal 2 b 0).map Int.ofNat
  | 48 :: 66 :: b => if b = [] then none else (digitsVal 2 b 0).map Int.ofNat
  | 48 :: o => (digitsVal 8 o 0).map Int.ofNat
  | 43 :: d => decForm d false
  | 45 :: d => decForm d true
  | d => decForm d false

theorem sp_nil (s : Bytes) : stripPrefix [] s = some s := by simp [stripPrefix]
theorem sp_cons_eq (a : UInt8) (p s : Bytes) : stripPrefix (a :: p) (a :: s) = stripPrefix p s := by
  simp [stripPrefix, List.isPrefixOf]
theorem sp_cons_ne (a b : UInt8) (p s : Bytes) (h : a ≠ b) : stripPrefix (a :: p) (b :: s) = none := by
  simp [stripPrefix, List.isPrefixOf, h]
theorem sp_cons_nil (a : UInt8) (p : Bytes) : stripPrefix (a :: p) [] = none := by
  simp [stripPrefix, List.isPrefixOf]

theorem digitVal_not_sign (radix : Nat) (c : UInt8) (d : Nat) (h : digitVal radix c = some d) : c ≠ 43 ∧ c ≠ 45 := by
  constructor <;> (intro hc; subst hc; simp [digitVal] at h)

theorem digitsVal_ge (radix : Nat) (s : Bytes) (acc v : Nat) (hr : 1 ≤ radix) (h : digitsVal radix s acc = some v) : acc ≤ v := by
  induction s generalizing acc with
  | nil => simp [digitsVal] at h; omega
  | cons c cs ih =>
    simp only [digitsVal] at h
    split at h
    · rename_i d hd
      have := ih (acc * radix + d) h
      have : acc ≤ acc * radix := Nat.le_mul_of_pos_right acc hr
      omega
    · simp at h

/-- unsigned digit string through `from_str_radix`: the value if it fits, otherwise an error -/
theorem fromStrRadix_digits (T : IntTy) (radix : Nat) (h : Bytes) (v : Nat) (hne : h ≠ [])
    (hv : digitsVal radix h 0 = some v) :
    fromStrRadix T radix h = if T.fits (v : Int) then some (v : Int) else none := by
  cases h with
  | nil => exact absurd rfl hne
  | cons c rest =>
    have hd : ∃ d, digitVal radix c = some d := by
      simp only [digitsVal] at hv
      split at hv
      · rename_i d hd; exact ⟨d, hd⟩
      · simp at hv
    obtain ⟨d, hd⟩ := hd
    obtain ⟨h43, h45⟩ := digitVal_not_sign radix c d hd
    cases rest with
    | nil =>
      simp only [fromStrRadix, h43, h45, or_self, if_false, hv]
    | cons e es =>
      simp only [fromStrRadix, h43, h45, false_and, if_false, hv]
      simp

theorem decForm_some (d : Bytes) (neg : Bool) (r : Int) (h : decForm d neg = some r) :
    ∃ c rest v, d = c :: rest ∧ 49 ≤ c.toNat ∧ c.toNat ≤ 57 ∧ digitsVal 10 d 0 = some v ∧ 1 ≤ v ∧
      r = if neg then -(v : Int) else (v : Int) := by
  cases d with
  | nil => simp [decForm] at h
  | cons c rest =>
    simp only [decForm] at h
    split at h
    · rename_i hc
      cases hdv' : digitsVal 10 (c :: rest) 0 with
      | none => simp [hdv'] at h
      | some n =>
        have h' : r = if neg = true then -(n : Int) else (n : Int) := by
          cases neg <;> simp [hdv'] at h ⊢ <;> omega
        refine ⟨c, rest, n, rfl, hc.1, hc.2, rfl, ?_, h'⟩
        -- the first digit is at least 1
        simp only [digitsVal] at hdv'
        have hdv : digitVal 10 c = some (c.toNat - 48) := by
          simp only [digitVal]
          have : 48 ≤ c.toNat ∧ c.toNat ≤ 57 := by omega
          simp [this]; omega
        rw [hdv] at hdv'
        have := digitsVal_ge 10 rest _ n (by omega) hdv'
        omega
    · simp at h

theorem fits_neg_unsigned (bits : Nat) (v : Nat) (hv : 1 ≤ v) : IntTy.fits ⟨false, bits⟩ (-(v : Int)) = false := by
  simp only [IntTy.fits, Bool.false_eq_true, if_false, decide_eq_false_iff_not, not_and]
  intro h; omega

/-- **numeric interpretation is exact** (integers): for every text in the AUTOSAR integer lexical
forms and every requested integer type, `parse_integer` returns the denoted number if it fits the
type and nothing otherwise — never a different number. -/
theorem parseInteger_spec (T : IntTy) (t : Bytes) (v : Int) (h : denoteInt t = some v) :
    parseInteger T t = if T.fits v then some v else none := by
  unfold denoteInt at h
  split at h
  · -- "0"
    simp at h; subst h
    simp [parseInteger]
  · -- 0x
    rename_i hx
    split at h
    · simp at h
    · rename_i hne
      simp only [Option.map_eq_some_iff] at h
      obtain ⟨n, hn, hv⟩ := h
      subst hv
      have e1 : (48 :: 120 :: hx : Bytes) ≠ [48] := by simp
      simp only [parseInteger, e1, if_false, sp_cons_eq, sp_nil]
      exact fromStrRadix_digits T 16 hx n hne hn
  · -- 0X
    rename_i hx
    split at h
    · simp at h
    · rename_i hne
      simp only [Option.map_eq_some_iff] at h
      obtain ⟨n, hn, hv⟩ := h
      subst hv
      have e1 : (48 :: 88 :: hx : Bytes) ≠ [48] := by simp
      have e2 : stripPrefix [48, 120] (48 :: 88 :: hx) = none := by
        rw [sp_cons_eq]; exact sp_cons_ne _ _ _ _ (by decide)
      simp only [parseInteger, e1, if_false, e2, sp_cons_eq, sp_nil]
      exact fromStrRadix_digits T 16 hx n hne hn
  · -- 0b
    rename_i hb
    split at h
    · simp at h
    · rename_i hne
      simp only [Option.map_eq_some_iff] at h
      obtain ⟨n, hn, hv⟩ := h
      subst hv
      have e1 : (48 :: 98 :: hb : Bytes) ≠ [48] := by simp
      have e2 : stripPrefix [48, 120] (48 :: 98 :: hb) = none := by
        rw [sp_cons_eq]; exact sp_cons_ne _ _ _ _ (by decide)
      have e3 : stripPrefix [48, 88] (48 :: 98 :: hb) = none := by
        rw [sp_cons_eq]; exact sp_cons_ne _ _ _ _ (by decide)
      simp only [parseInteger, e1, if_false, e2, e3, sp_cons_eq, sp_nil]
      exact fromStrRadix_digits T 2 hb n hne hn
  · -- 0B
    rename_i hb
    split at h
    · simp at h
    · rename_i hne
      simp only [Option.map_eq_some_iff] at h
      obtain ⟨n, hn, hv⟩ := h
      subst hv
      have e1 : (48 :: 66 :: hb : Bytes) ≠ [48] := by simp
      have e2 : stripPrefix [48, 120] (48 :: 66 :: hb) = none := by
        rw [sp_cons_eq]; exact sp_cons_ne _ _ _ _ (by decide)
      have e3 : stripPrefix [48, 88] (48 :: 66 :: hb) = none := by
        rw [sp_cons_eq]; exact sp_cons_ne _ _ _ _ (by decide)
      have e4 : stripPrefix [48, 98] (48 :: 66 :: hb) = none := by
        rw [sp_cons_eq]; exact sp_cons_ne _ _ _ _ (by decide)
      simp only [parseInteger, e1, if_false, e2, e3, e4, sp_cons_eq, sp_nil]
      exact fromStrRadix_digits T 2 hb n hne hn
  · -- leading 0: octal
    rename_i o h0 hx hX hb hB
    simp only [Option.map_eq_some_iff] at h
    obtain ⟨n, hn, hv⟩ := h
    subst hv
    have hne : o ≠ [] := by intro ho; exact h0 ho
    have e1 : (48 :: o : Bytes) ≠ [48] := by intro he; exact h0 (List.cons.inj he).2
    have nohead : ∀ c : UInt8, (∀ r, o = c :: r → False) → stripPrefix [48, c] (48 :: o) = none := by
      intro c hc
      rw [sp_cons_eq]
      cases o with
      | nil => exact sp_cons_nil _ _
      | cons a r =>
        apply sp_cons_ne
        intro hca; subst hca; exact hc r rfl
    have e2 := nohead 120 (fun r hr => hx r hr)
    have e3 := nohead 88 (fun r hr => hX r hr)
    have e4 := nohead 98 (fun r hr => hb r hr)
    have e5 := nohead 66 (fun r hr => hB r hr)
    simp only [parseInteger, e1, if_false, e2, e3, e4, e5, sp_cons_eq, sp_nil]
    exact fromStrRadix_digits T 8 o n hne hn
  · -- +decimal
    rename_i d
    obtain ⟨c, rest, n, hd, hc1, hc2, hn, hn1, hr⟩ := decForm_some d false v h
    simp only [Bool.false_eq_true, if_false] at hr
    subst hr hd
    have e1 : (43 :: c :: rest : Bytes) ≠ [48] := by simp
    have e0 : ∀ p : Bytes, stripPrefix (48 :: p) (43 :: c :: rest) = none := fun p => sp_cons_ne _ _ _ _ (by decide)
    simp only [parseInteger, e1, if_false, e0]
    simp only [fromStrRadix, if_true, hn]
    simp
  · -- -decimal
    rename_i d
    obtain ⟨c, rest, n, hd, hc1, hc2, hn, hn1, hr⟩ := decForm_some d true v h
    simp only [if_true] at hr
    subst hr hd
    have e1 : (45 :: c :: rest : Bytes) ≠ [48] := by simp
    have e0 : ∀ p : Bytes, stripPrefix (48 :: p) (45 :: c :: rest) = none := fun p => sp_cons_ne _ _ _ _ (by decide)
    simp only [parseInteger, e1, if_false, e0]
    cases hs : T.signed with
    | true =>
      have h43 : (45 : UInt8) ≠ 43 := by decide
      simp only [fromStrRadix, h43, if_false, hs, and_self, if_true, hn]
    | false =>
      have h43 : (45 : UInt8) ≠ 43 := by decide
      have hbad : digitsVal 10 (45 :: c :: rest) 0 = none := by simp [digitsVal, digitVal]
      have hT : T = ⟨false, T.bits⟩ := by cases T; simp_all
      have hfit : T.fits (-(n : Int)) = false := by rw [hT]; exact fits_neg_unsigned _ n hn1
      simp only [fromStrRadix, h43, if_false, hs, Bool.false_eq_true, and_false, hbad, hfit]
      try simp
  · -- decimal without sign
    rename_i d hz hx hX hb hB ho hp hm
    obtain ⟨c, rest, n, hd, hc1, hc2, hn, hn1, hr⟩ := decForm_some t false v h
    simp only [Bool.false_eq_true, if_false] at hr
    subst hr hd
    have hc48 : c ≠ 48 := by intro hc; subst hc; simp at hc1
    have e1 : (c :: rest : Bytes) ≠ [48] := by intro he; simp at he; exact hc48 he.1
    have e0 : ∀ p : Bytes, stripPrefix (48 :: p) (c :: rest) = none := fun p => sp_cons_ne _ _ _ _ (Ne.symm hc48)
    simp only [parseInteger, e1, if_false, e0]
    exact fromStrRadix_digits T 10 (c :: rest) n (by simp) hn

end AV.CData
