/-
C05, tree-level lemmas for the reference-map invariant: how `refEntries` (what the reverse reference map must hold) behaves
under the primitive edits `modify` / `insertAt` / `removeAt` and under header-only changes, and what `remove_internal` does
to the reverse reference map.
-/
import AutosarVerif.Lemmas.RefsDefs
import AutosarVerif.Lemmas.IndexTree
import AutosarVerif.Lemmas.RemoveInternal

namespace AV.W
open Items

section
variable (S : Spec)

/-! ### `refOf` looks at id, type and character data only -/

theorem refOf_hdr (h h' : Hdr) (k : Items) (hid : h'.id = h.id) (ht : h'.ety.typ = h.ety.typ) :
    refOf S h' k = refOf S h k := by
  unfold refOf
  rw [charData_hdr S h h' k ht, ht, hid]

theorem refOf_modify (h : Hdr) (t : Nat) (f : Hdr → Items → Hdr × Items) (k : Items) :
    refOf S h (k.modify t f) = refOf S h k := by
  unfold refOf
  rw [charData_modify]

theorem refEntries_elem_split (h : Hdr) (k r : Items) :
    refEntries S (.elem h k r) = refEntries S (.elem h k .nil) ++ refEntries S r := by
  simp only [refEntries, List.append_nil]

/-! ### `modify` -/

/-- an edit of node `t` that keeps id and type and the node's own registration and the registrations below it -/
theorem refEntries_modify_same (t : Nat) (f : Hdr → Items → Hdr × Items) (its : Items)
    (hf : ∀ h k, Occ h k its → h.id = t →
      refOf S (f h k).1 (f h k).2 = refOf S h k ∧ refEntries S (f h k).2 = refEntries S k) :
    refEntries S (its.modify t f) = refEntries S its := by
  induction its with
  | nil => rfl
  | text c r ih => simp only [Items.modify, refEntries]; exact ih hf
  | elem hd k r ihk ihr =>
    have ihk' := ihk (fun h0 k0 ho => hf h0 k0 (Or.inr (Or.inl ho)))
    have ihr' := ihr (fun h0 k0 ho => hf h0 k0 (Or.inr (Or.inr ho)))
    simp only [Items.modify]
    split
    · rename_i heq
      obtain ⟨h1, h2⟩ := hf hd k (Or.inl ⟨rfl, rfl⟩) heq
      simp only [refEntries, h1, h2, ihr']
    · simp only [refEntries, refOf_modify, ihk', ihr']

/-- general located edit (unique ids): `A` / `B` = registrations that disappear / appear at or below node `t` -/
theorem refEntries_modify_located (t : Nat) (f : Hdr → Items → Hdr × Items) (A B : List (Bytes × Nat)) (its : Items)
    (hf : ∀ h k, Occ h k its → h.id = t → (f h k).1.id = h.id ∧
      ((refOf S (f h k).1 (f h k).2 ++ refEntries S (f h k).2) ++ A).Perm ((refOf S h k ++ refEntries S k) ++ B))
    (hn : its.ids.Nodup) (hm : t ∈ its.ids) : (refEntries S (its.modify t f) ++ A).Perm (refEntries S its ++ B) := by
  induction its with
  | nil => simp [Items.ids] at hm
  | text c r ih => simp only [Items.modify, Items.ids, refEntries] at *; exact ih hf hn hm
  | elem hd k r ihk ihr =>
    have ihk := ihk (fun h0 k0 ho => hf h0 k0 (Or.inr (Or.inl ho)))
    have ihr := ihr (fun h0 k0 ho => hf h0 k0 (Or.inr (Or.inr ho)))
    simp only [Items.ids, List.nodup_cons, List.nodup_append, List.mem_append, not_or] at hn
    obtain ⟨hn1, hnk, hnr, hdis⟩ := hn
    simp only [Items.modify]
    split
    · rename_i heq
      obtain ⟨_, h2⟩ := hf hd k (Or.inl ⟨rfl, rfl⟩) heq
      have hr : t ∉ r.ids := by rw [← heq]; exact hn1.2
      rw [modify_not_mem t f r hr]
      simp only [refEntries]
      exact perm3l _ h2
    · rename_i hne
      simp only [Items.ids, List.mem_cons, List.mem_append] at hm
      rcases hm with hm | hm | hm
      · exact absurd hm.symm hne
      · have hr : t ∉ r.ids := fun hx => hdis t hm t hx rfl
        rw [modify_not_mem t f r hr]
        simp only [refEntries, refOf_modify]
        exact perm3l _ (perm3r _ (ihk hnk hm))
      · have hk : t ∉ k.ids := fun hx => hdis t hx t hm rfl
        rw [modify_not_mem t f k hk]
        simp only [refEntries]
        exact perm3r _ (ihr hnr hm)

/-! ### insertion / removal of one content item -/

theorem refEntries_insertAt (nh : Hdr) (nk : Items) (k : Items) (pos : Nat) :
    (refEntries S (k.insertAt (fun r => .elem nh nk r) pos)).Perm (refEntries S (.elem nh nk .nil) ++ refEntries S k) := by
  induction k generalizing pos with
  | nil => cases pos <;> simp only [Items.insertAt] <;> exact (refEntries_elem_split S nh nk .nil) ▸ List.Perm.refl _
  | text c r ih =>
    cases pos with
    | zero => simp only [Items.insertAt]; exact (refEntries_elem_split S nh nk _) ▸ List.Perm.refl _
    | succ q => simp only [Items.insertAt, refEntries]; exact ih q
  | elem h kk r _ ih =>
    cases pos with
    | zero => simp only [Items.insertAt]; exact (refEntries_elem_split S nh nk _) ▸ List.Perm.refl _
    | succ q =>
      simp only [Items.insertAt]
      rw [refEntries_elem_split S h kk, refEntries_elem_split S h kk r]
      refine List.Perm.trans (List.Perm.append_left _ (ih q)) ?_
      rw [← List.append_assoc, ← List.append_assoc]
      exact List.Perm.append_right _ List.perm_append_comm

theorem refEntries_insertText (c : CDv) (k : Items) (pos : Nat) :
    refEntries S (k.insertAt (fun r => .text c r) pos) = refEntries S k := by
  induction k generalizing pos with
  | nil => cases pos <;> rfl
  | text c' r ih =>
    cases pos with
    | zero => rfl
    | succ q => simp only [Items.insertAt, refEntries]; exact ih q
  | elem h kk r _ ih =>
    cases pos with
    | zero => rfl
    | succ q => simp only [Items.insertAt, refEntries, ih q]

theorem refEntries_removeAt (k : Items) (pos : Nat) :
    (refEntries S k).Perm (refEntries S (itemAt k pos) ++ refEntries S (k.removeAt pos)) := by
  induction k generalizing pos with
  | nil => simp [itemAt, Items.removeAt, refEntries]
  | text c r ih =>
    cases pos with
    | zero => simp [itemAt, Items.removeAt, refEntries]
    | succ q => simp only [itemAt, Items.removeAt, refEntries]; exact ih q
  | elem h kk r _ ih =>
    cases pos with
    | zero => simp only [itemAt, Items.removeAt]; rw [refEntries_elem_split S h kk r]
    | succ q =>
      simp only [itemAt, Items.removeAt]
      rw [refEntries_elem_split S h kk r, refEntries_elem_split S h kk (r.removeAt q)]
      refine List.Perm.trans (List.Perm.append_left _ (ih q)) ?_
      rw [← List.append_assoc, ← List.append_assoc]
      exact List.Perm.append_right _ List.perm_append_comm

theorem refEntries_removeAt_text (k : Items) (pos : Nat) (h : isTextAt k pos = true) :
    refEntries S (k.removeAt pos) = refEntries S k := by
  induction k generalizing pos with
  | nil => simp [isTextAt] at h
  | text c r ih =>
    cases pos with
    | zero => rfl
    | succ q =>
      simp only [isTextAt] at h
      simp only [Items.removeAt, refEntries]
      exact ih q h
  | elem hd kk r _ ih =>
    cases pos with
    | zero => simp [isTextAt] at h
    | succ q =>
      simp only [isTextAt] at h
      simp only [Items.removeAt, refEntries, ih q h]

/-! ### `remove_internal` and the reverse reference map -/

/-- un-register a batch of registrations, one by one -/
def refsRemoveAll (rs : List (Bytes × List Nat)) (es : List (Bytes × Nat)) : List (Bytes × List Nat) :=
  es.foldl (fun acc e => refsRemove acc e.1 e.2) rs

theorem refsRemoveAll_append (rs : List (Bytes × List Nat)) (a b : List (Bytes × Nat)) :
    refsRemoveAll rs (a ++ b) = refsRemoveAll (refsRemoveAll rs a) b := by
  simp only [refsRemoveAll, List.foldl_append]

/-- the statement about the map component of one call, for a given amount of fuel -/
def RmSpecRefs (fuel : Nat) : Prop :=
  ∀ (h : Hdr) (kids : Items) (path : Bytes) (idx : List (Bytes × Nat)) (rs : List (Bytes × List Nat)),
    kids.size + 1 ≤ fuel →
    (removeInternal S fuel h kids path idx rs).2.1 = refsRemoveAll rs (refEntries S (.elem h kids .nil))

/-- the inner fold: folding `removeInternal` over the child elements of a forest `ks` un-registers `refEntries ks` -/
theorem rmFold_refs (fuel : Nat) (IH : RmSpecRefs S fuel) (path' : Bytes) (ks : Items) :
    ∀ (idx : List (Bytes × Nat)) (rs : List (Bytes × List Nat)) (acc : List Hdr), ks.size ≤ fuel →
      (ks.childElems.foldl (rmStep S fuel path') (idx, rs, acc)).2.1 = refsRemoveAll rs (refEntries S ks) := by
  induction ks with
  | nil =>
    intro idx rs acc _
    simp only [Items.childElems, List.foldl_nil, refEntries, refsRemoveAll]
  | text c r ih =>
    intro idx rs acc hs
    simp only [Items.size] at hs
    have := ih idx rs acc (by omega)
    simp only [Items.childElems, refEntries]
    exact this
  | elem h k r _ ihr =>
    intro idx rs acc hs
    simp only [Items.size] at hs
    have hr := size_pos r
    have h1 := IH h k path' idx rs (by omega)
    simp only [Items.childElems, List.foldl_cons]
    have g1 := ihr (rmStep S fuel path' (idx, rs, acc) (h, k)).1
      (rmStep S fuel path' (idx, rs, acc) (h, k)).2.1 (rmStep S fuel path' (idx, rs, acc) (h, k)).2.2 (by omega)
    rw [g1]
    simp only [rmStep]
    rw [h1, refEntries_elem_split S h k r, refsRemoveAll_append]

theorem rmSpecRefs_all (fuel : Nat) : RmSpecRefs S fuel := by
  induction fuel with
  | zero =>
    intro h kids path idx rs hf
    have := size_pos kids
    omega
  | succ fuel ih =>
    intro h kids path idx rs hf
    rw [removeInternal_succ, rmFold_refs S fuel ih _ kids _ _ _ (by omega)]
    simp only [refEntries, List.append_nil]
    rw [refsRemoveAll_append]
    congr 1
    unfold refOf refsRemoveAll
    cases S.isRef h.ety.typ with
    | false => rfl
    | true =>
      simp only [if_true]
      cases charData S h kids with
      | none => rfl
      | some c => cases c <;> rfl

/-- MAIN: with enough fuel, the reference map after `remove_internal` is the old map with the registrations of the subtree
removed one by one, in document order -/
theorem removeInternal_refs (fuel : Nat) (h : Hdr) (kids : Items) (path : Bytes) (idx : List (Bytes × Nat))
    (rs : List (Bytes × List Nat)) (hfuel : kids.size + 1 ≤ fuel) :
    (removeInternal S fuel h kids path idx rs).2.1 =
      (refEntries S (.elem h kids .nil)).foldl (fun acc e => refsRemove acc e.1 e.2) rs :=
  rmSpecRefs_all S fuel h kids path idx rs hfuel

end

end AV.W
