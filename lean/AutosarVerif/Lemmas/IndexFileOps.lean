/-
C04, the history invariant for the FILE operations (`Model/FileOps.lean`, `opSetVersion` of `Model/Compat.lean`, the
creation of a model): they change header fields other than id / name / element type, the file list of the model and — the
first `create_file` of a model — the id of a root element that has no content yet.  None of them changes the index.

The tool is the SKELETON of a forest: the forest with `parent`, `attrs`, `files`, `comment` of every header erased.  Element
ids, `entries`, and the SHORT-NAME discipline are functions of the skeleton.
-/
import AutosarVerif.Lemmas.IndexOps

namespace AV.W
open Items

/-- what the index invariant looks at in a header: id, name, element type -/
def Hdr.core (h : Hdr) : Hdr := { h with parent := .none, attrs := [], files := [], comment := none }

/-- the forest with everything but id, name and element type erased from the headers -/
def Items.skel (its : Items) : Items := its.mapHdrs Hdr.core

theorem core_id (h : Hdr) : h.core.id = h.id := rfl
theorem core_name (h : Hdr) : h.core.name = h.name := rfl
theorem core_ety (h : Hdr) : h.core.ety = h.ety := rfl

theorem skel_nil : Items.nil.skel = .nil := rfl
theorem skel_elem (h : Hdr) (k r : Items) : (Items.elem h k r).skel = .elem h.core k.skel r.skel := rfl
theorem skel_text (c : CDv) (r : Items) : (Items.text c r).skel = .text c r.skel := rfl

/-- two headers with the same id, name and element type have the same core -/
theorem core_eq_of {h h' : Hdr} (h1 : h'.id = h.id) (h2 : h'.name = h.name) (h3 : h'.ety = h.ety) : h'.core = h.core := by
  simp only [Hdr.core, h1, h2, h3]

theorem core_inj {h h' : Hdr} (e : h'.core = h.core) : h'.id = h.id ∧ h'.name = h.name ∧ h'.ety = h.ety :=
  ⟨(congrArg Hdr.id e :), (congrArg Hdr.name e :), (congrArg Hdr.ety e :)⟩

theorem skel_elem_inj {h h' : Hdr} {k k' r r' : Items} (e : (Items.elem h' k' r').skel = (Items.elem h k r).skel) :
    h'.core = h.core ∧ k'.skel = k.skel ∧ r'.skel = r.skel := by
  rw [skel_elem, skel_elem] at e
  injection e with a b c
  exact ⟨a, b, c⟩

section
variable (S : Spec) (V : Env) (vOk : Nat)

/-! ### ids, entries and the SHORT-NAME discipline are functions of the skeleton -/

theorem ids_skel (its : Items) : its.skel.ids = its.ids := by
  induction its with
  | nil => rfl
  | text c r ih => simp only [skel_text, Items.ids]; exact ih
  | elem h k r ihk ihr => simp only [skel_elem, Items.ids, ihk, ihr, core_id]

theorem skel_eq_text_nil (k : Items) (c : CDv) : k.skel = .text c .nil ↔ k = .text c .nil := by
  cases k with
  | nil => simp [skel_nil]
  | elem h kk r => simp [skel_elem]
  | text c' r =>
    cases r with
    | nil => simp [skel_text, skel_nil]
    | text _ _ => simp [skel_text]
    | elem _ _ _ => simp [skel_text, skel_elem]

theorem charData_skel (h : Hdr) (k : Items) : charData S h.core k.skel = charData S h k := by
  cases k with
  | nil => rfl
  | elem _ _ _ => rfl
  | text c r =>
    cases r with
    | nil => rfl
    | text _ _ => rfl
    | elem _ _ _ => rfl

theorem itemName_skel (h : Hdr) (k : Items) : itemName S h.core k.skel = itemName S h k := by
  cases k with
  | nil => rfl
  | text _ _ => rfl
  | elem sh sk r => simp only [skel_elem, itemName, core_ety, core_name, charData_skel]

theorem entries_skel (its : Items) (pre : Bytes) : entries S its.skel pre = entries S its pre := by
  induction its generalizing pre with
  | nil => rfl
  | text c r ih => simp only [skel_text, entries]; exact ih pre
  | elem h k r ihk ihr => simp only [skel_elem, entries, itemName_skel, core_id, ihk, ihr]

theorem noSnTop_skel (its : Items) : noSnTop S its.skel ↔ noSnTop S its := by
  induction its with
  | nil => exact Iff.rfl
  | text c r ih => exact ih
  | elem h k r _ ih => simp only [skel_elem, noSnTop, core_name, ih]

theorem properSn_skel (h : Hdr) (k : Items) : properSn S h.core k.skel ↔ properSn S h k := by
  simp only [properSn, core_ety, skel_eq_text_nil]

theorem kidsOk_skel (h : Hdr) (k : Items) : kidsOk S h.core k.skel ↔ kidsOk S h k := by
  cases k with
  | nil => exact Iff.rfl
  | text c r => exact noSnTop_skel S r
  | elem sh sk r => simp only [skel_elem, kidsOk, core_name, core_ety, properSn_skel, noSnTop_skel]

theorem snOk_skel (its : Items) : SnOk S its.skel ↔ SnOk S its := by
  induction its with
  | nil => exact Iff.rfl
  | text c r ih => exact ih
  | elem h k r ihk ihr => simp only [skel_elem, SnOk, kidsOk_skel, ihk, ihr]

theorem ids_of_skel {its its' : Items} (h : its'.skel = its.skel) : its'.ids = its.ids := by
  rw [← ids_skel its', h, ids_skel]

theorem entries_of_skel {its its' : Items} (h : its'.skel = its.skel) (pre : Bytes) : entries S its' pre = entries S its pre := by
  rw [← entries_skel S its', h, entries_skel]

theorem snOk_of_skel {its its' : Items} (h : its'.skel = its.skel) : SnOk S its' ↔ SnOk S its := by
  rw [← snOk_skel S its', h, snOk_skel]

theorem noSnTop_of_skel {its its' : Items} (h : its'.skel = its.skel) : noSnTop S its' ↔ noSnTop S its := by
  rw [← noSnTop_skel S its', h, noSnTop_skel]

/-! ### header-only transformations keep the skeleton -/

theorem skel_mapHdrs (g : Hdr → Hdr) (hg : ∀ h, (g h).id = h.id ∧ (g h).name = h.name ∧ (g h).ety = h.ety) (its : Items) :
    (its.mapHdrs g).skel = its.skel := by
  induction its with
  | nil => rfl
  | text c r ih => simp only [Items.mapHdrs, skel_text, ih]
  | elem h k r ihk ihr =>
    simp only [Items.mapHdrs, skel_elem, ihk, ihr, core_eq_of (hg h).1 (hg h).2.1 (hg h).2.2]

theorem skel_mapKidHdrs (g : Hdr → Hdr) (hg : ∀ h, (g h).id = h.id ∧ (g h).name = h.name ∧ (g h).ety = h.ety) (its : Items) :
    (its.mapKidHdrs g).skel = its.skel := by
  induction its with
  | nil => rfl
  | text c r ih => simp only [Items.mapKidHdrs, skel_text, ih]
  | elem h k r _ ihr =>
    simp only [Items.mapKidHdrs, skel_elem, ihr, core_eq_of (hg h).1 (hg h).2.1 (hg h).2.2]

theorem skel_setParents (p : PRef) (its : Items) : (its.setParents p).skel = its.skel := by
  induction its with
  | nil => rfl
  | text c r ih => simp only [Items.setParents, skel_text, ih]
  | elem h k r _ ihr =>
    simp only [Items.setParents, skel_elem, ihr]
    rfl

theorem skel_modify_hdr (x : Nat) (g : Hdr → Hdr) (hg : ∀ h, (g h).id = h.id ∧ (g h).name = h.name ∧ (g h).ety = h.ety)
    (its : Items) : (its.modify x fun h k => (g h, k)).skel = its.skel := by
  induction its with
  | nil => rfl
  | text c r ih => simp only [Items.modify, skel_text, ih]
  | elem h k r ihk ihr =>
    simp only [Items.modify]
    split
    · simp only [skel_elem, ihr, core_eq_of (hg h).1 (hg h).2.1 (hg h).2.2]
    · simp only [skel_elem, ihk, ihr]

theorem pin_keeps (cur : List Nat) (h : Hdr) : (pin cur h).id = h.id ∧ (pin cur h).name = h.name ∧ (pin cur h).ety = h.ety := by
  unfold pin
  split <;> exact ⟨rfl, rfl, rfl⟩

theorem dropF_keeps (f : Nat) (h : Hdr) : (dropF f h).id = h.id ∧ (dropF f h).name = h.name ∧ (dropF f h).ety = h.ety :=
  ⟨rfl, rfl, rfl⟩

/-- `add_to_file_restricted` on one node: header core and skeleton of the content stay -/
theorem restrictStep_skel (f : Nat) (h : Hdr) (kids : Items) (pe : List Nat) (ps : Bool) :
    (restrictStep S f h kids pe ps).1.core = h.core ∧ (restrictStep S f h kids pe ps).2.1.skel = kids.skel := by
  unfold restrictStep
  dsimp only
  split
  · exact ⟨rfl, rfl⟩
  · dsimp only
    refine ⟨?_, ?_⟩
    · split <;> rfl
    · split
      · exact skel_mapKidHdrs _ (pin_keeps _) kids
      · rfl

theorem addPath_skel (f : Nat) (p pe : List Nat) (ps : Bool) (its : Items) : (addPath S f p pe ps its).1.skel = its.skel := by
  induction its generalizing p pe ps with
  | nil => cases p <;> rfl
  | text c r ih =>
    cases p with
    | nil => rfl
    | cons id rest =>
      simp only [addPath, skel_text, ih]
  | elem h k r ihk ihr =>
    cases p with
    | nil => rfl
    | cons id rest =>
      simp only [addPath]
      split
      · cases rest with
        | nil =>
          dsimp only
          split
          · rfl
          · rfl
        | cons id2 rest2 =>
          dsimp only
          split
          · obtain ⟨a, b⟩ := restrictStep_skel S f h (addPath S f (id2 :: rest2) (effOf pe h) (splittable S h) k).1 pe ps
            simp only [skel_elem, a, b, ihk]
          · simp only [skel_elem, ihk]
      · simp only [skel_elem, ihr]

theorem rmAt_skel (f x : Nat) (pe : List Nat) (its : Items) : (rmAt f x pe its).skel = its.skel := by
  induction its generalizing pe with
  | nil => rfl
  | text c r ih => simp only [rmAt, skel_text, ih]
  | elem h k r ihk ihr =>
    simp only [rmAt]
    split
    · simp only [skel_elem, ihr, skel_mapHdrs _ (dropF_keeps f) k]
      rfl
    · simp only [skel_elem, ihk, ihr]

/-! ### re-keying a path onto itself -/

theorem foldl_fixStep_self (p : Bytes) (idx l acc : List (Bytes × Nat)) (hn : keysNodupI idx) (hl : ∀ e ∈ l, e ∈ idx)
    (hacc : ∀ q i, idxGet acc q = some i ↔ idxGet idx q = some i) (q : Bytes) (i : Nat) :
    idxGet (l.foldl (fixStep p p) acc) q = some i ↔ idxGet idx q = some i := by
  induction l generalizing acc with
  | nil => exact hacc q i
  | cons e es ih =>
    rw [List.foldl_cons]
    apply ih _ (fun e' he' => hl e' (List.mem_cons_of_mem _ he'))
    intro q i
    cases hps : pathSuffix p e.1 with
    | none =>
      have hstep : fixStep p p acc e = acc := by unfold fixStep; rw [hps]
      rw [hstep]; exact hacc q i
    | some s =>
      have hkey : p ++ s = e.1 := (pathSuffix_some p e.1 s hps).1.symm
      have hstep : fixStep p p acc e = idxInsert (idxRemove acc e.1) e.1 e.2 := by
        unfold fixStep; rw [hps]; simp only [hkey]
      rw [hstep]
      have hget : idxGet idx e.1 = some e.2 := (idxGet_iff_mem idx hn e.1 e.2).mpr (hl e List.mem_cons_self)
      by_cases hq : q = e.1
      · subst hq
        rw [idxGet_insert_same, hget]
      · rw [idxGet_insert_other _ _ _ _ hq, idxGet_remove_other _ _ _ hq]; exact hacc q i

/-- `fix_identifiables(p, p)`: every step removes a key and inserts it again with the same value -/
theorem idxFix_self (idx : List (Bytes × Nat)) (p : Bytes) (hn : keysNodupI idx) :
    keysNodupI (idxFix idx p p) ∧ ∀ q i, idxGet (idxFix idx p p) q = some i ↔ idxGet idx q = some i := by
  rw [idxFix_eq]
  exact ⟨foldl_fixStep_keysNodup p p idx idx hn,
    fun q i => foldl_fixStep_self p idx idx idx hn (fun _ h => h) (fun _ _ => Iff.rfl) q i⟩

/-! ### the invariant of a model whose tree keeps its skeleton -/

theorem skel_eq_nil (r : Items) (h : r.skel = .nil) : r = .nil := by
  cases r with
  | nil => rfl
  | text _ _ => rw [skel_text] at h; cases h
  | elem _ _ _ => rw [skel_elem] at h; cases h

/-- `setRoot` with a tree of the skeleton of the root -/
theorem setRoot_of_skel (m : Model) (its : Items) (h : its.skel = m.rootItems.skel) :
    (m.setRoot its).rootItems = its ∧ (m.setRoot its).index = m.index ∧ (m.setRoot its).files = m.files ∧
      (m.setRoot its).rootIssued = m.rootIssued := by
  rw [rootItems_eq] at h
  cases its with
  | nil => rw [skel_nil, skel_elem] at h; cases h
  | text _ _ => rw [skel_text, skel_elem] at h; cases h
  | elem h' k' r' =>
    obtain ⟨_, _, hr⟩ := skel_elem_inj h
    have : r' = .nil := skel_eq_nil r' hr
    subst this
    exact ⟨rfl, rfl, rfl, rfl⟩

/-- a model whose tree keeps its skeleton and whose index stays: the invariant survives (the file list and the file sets
are free, up to the two facts the invariant states about them) -/
theorem minv_skel (nid : Nat) (m m' : Model) (hm : MInv S vOk nid m)
    (hsk : m'.rootItems.skel = m.rootItems.skel) (hidx : m'.index = m.index) (hiss : m'.rootIssued = m.rootIssued)
    (hvers : ∀ f ∈ m'.files, f.version &&& vOk = f.version)
    (hfresh : m'.rootIssued = false → m'.rootHdr.files = []) : MInv S vOk nid m' := by
  have hids : m'.rootItems.ids = m.rootItems.ids := ids_of_skel hsk
  have hent : ∀ pre, entries S m'.rootItems pre = entries S m.rootItems pre := entries_of_skel S hsk
  have hsk2 := hsk
  rw [rootItems_eq, rootItems_eq] at hsk2
  obtain ⟨hc, hk, _⟩ := skel_elem_inj hsk2
  refine ⟨hvers, ?_, ?_, ?_, ?_, ?_, ?_, ?_, ?_⟩
  · rw [hids]; exact hm.ids
  · intro hi; rw [hids]; exact hm.bound (hiss ▸ hi)
  · intro hi
    exact ⟨(ids_of_skel hk).trans (hm.fresh (hiss ▸ hi)).1, hfresh hi⟩
  · rw [(core_inj hc).2.1]; exact hm.rootName
  · exact (snOk_of_skel S hsk).mpr hm.sn
  · rw [hent]; exact hm.keys
  · rw [hidx]; exact hm.idxKeys
  · intro q i; rw [hidx, hent]; exact hm.exact q i

/-! ### a root without sub-elements -/

theorem no_elems (k : Items) (hk : k.ids = []) :
    (∀ pre, entries S k pre = []) ∧ ¬ firstIsSn S k ∧ SnOk S k ∧ noSnTop S k := by
  induction k with
  | nil => exact ⟨fun _ => rfl, id, trivial, trivial⟩
  | text c r ih =>
    obtain ⟨a, _, b, d⟩ := ih hk
    exact ⟨fun pre => a pre, id, b, d⟩
  | elem h kk r _ _ => simp [Items.ids] at hk

theorem kidsOk_no_elems (h : Hdr) (k : Items) (hk : k.ids = []) : kidsOk S h k := by
  cases k with
  | nil => trivial
  | text c r => exact (no_elems S r hk).2.2.2
  | elem _ _ _ => simp [Items.ids] at hk

theorem entries_leaf_root (h : Hdr) (k : Items) (hk : k.ids = []) (pre : Bytes) : entries S (.elem h k .nil) pre = [] := by
  simp only [entries, itemName_none_of_not_sn S h k (no_elems S k hk).2.1, (no_elems S k hk).1, List.append_nil]

/-- a model whose root has no sub-elements and whose index is empty -/
theorem minv_leaf_root (nid : Nat) (m : Model) (hv : ∀ f ∈ m.files, f.version &&& vOk = f.version)
    (hid : m.rootIssued = true → m.rootHdr.id < nid) (hfresh : m.rootIssued = false → m.rootHdr.files = [])
    (hk : m.rootKids.ids = []) (hname : m.rootHdr.name ≠ S.nmShortName)
    (hidxK : keysNodupI m.index) (hidx : ∀ q i, idxGet m.index q ≠ some i) : MInv S vOk nid m := by
  have hids : m.rootItems.ids = [m.rootHdr.id] := by simp only [rootItems_eq, Items.ids, hk, List.append_nil]
  have hent : entries S m.rootItems [] = [] := entries_leaf_root S _ _ hk []
  refine ⟨hv, ?_, ?_, ?_, hname, ?_, ?_, hidxK, ?_⟩
  · rw [hids]; exact List.nodup_cons.mpr ⟨List.not_mem_nil, List.nodup_nil⟩
  · intro hi i hmem
    rw [hids, List.mem_singleton] at hmem
    rw [hmem]; exact hid hi
  · intro hi; exact ⟨hk, hfresh hi⟩
  · exact ⟨kidsOk_no_elems S _ _ hk, (no_elems S _ hk).2.2.1, trivial⟩
  · rw [hent]; exact List.nodup_nil
  · intro q i
    rw [hent]
    constructor
    · intro h; exact absurd h (hidx q i)
    · intro h; cases h

/-! ### the operations -/

theorem newModel_inv (rootAttrs : List (Nat × CDv)) (hroot : S.defName S.rootDef ≠ S.nmShortName) (w : World)
    (hw : WInv S vOk w) : WInv S vOk { w with models := w.models ++ [newModel S rootAttrs] } := by
  intro m hmem
  rcases List.mem_append.mp hmem with h | h
  · exact hw m h
  · rw [List.mem_singleton] at h
    subst h
    refine minv_leaf_root S vOk _ _ ?_ ?_ ?_ rfl hroot ?_ ?_
    · intro f hf; cases hf
    · intro hi; cases hi
    · intro _; rfl
    · exact List.nodup_nil
    · intro q i h; cases h

/-- the tree part of `remove_from_file`: restricting file sets changes no index-relevant fact -/
theorem rmAt_minv (nid : Nat) (m : Model) (f x : Nat) (hm : MInv S vOk nid m) :
    MInv S vOk nid (m.setRoot (rmAt f x [] m.rootItems)) := by
  obtain ⟨h1, h2, h3, h4⟩ := setRoot_of_skel m _ (rmAt_skel f x [] m.rootItems)
  refine minv_skel S vOk nid m _ hm (by rw [h1]; exact rmAt_skel f x [] m.rootItems) h2 h4 (by rw [h3]; exact hm.vers) ?_
  intro hi
  rw [h4] at hi
  obtain ⟨_, hf⟩ := hm.fresh hi
  simp only [Model.rootItems, rmAt]
  split
  · simp only [Model.setRoot, effOf, hf]
    rfl
  · exact hf

/-- a root without protocol id belongs to no file -/
theorem membership_none_of_fresh {nid : Nat} {m : Model} (hm : MInv S vOk nid m) (hiss : m.rootIssued = false) (x : Nat)
    (c : List (Hdr × Items)) (hc : m.rootItems.chain x = some c) : membership c = none := by
  obtain ⟨hk, hf⟩ := hm.fresh hiss
  have hkn : m.rootKids.chain x = none := by
    cases h : m.rootKids.chain x with
    | none => rfl
    | some c' =>
      have := chain_mem_ids x _ c' h
      rw [hk] at this; cases this
  rw [rootItems_eq] at hc
  simp only [Items.chain, hkn] at hc
  split at hc
  · cases hc
    simp [membership, hf]
  · cases hc

theorem opAddFile_inv (w : World) (x f : Nat) (hw : WInv S vOk w) : WInv S vOk (opAddFile S w x f).1 := by
  unfold opAddFile
  split
  · exact hw
  · rename_i k c hloc
    obtain ⟨m, _, hm2, hmem, hc⟩ := locate_chain w x k c hloc
    have hm := hw m hmem
    dsimp only
    split
    · exact hw
    · split
      · exact hw
      · split
        · exact hw
        · split
          · exact hw
          · rename_i own cur hms
            split
            · exact hw
            · refine winv_update S vOk w _ k _ hw (Nat.le_refl _) ?_ rfl
              rw [hm2]
              have hsk := addPath_skel S f (c.map (·.1.id)) [] true m.rootItems
              obtain ⟨h1, h2, h3, h4⟩ := setRoot_of_skel m _ hsk
              refine minv_skel S vOk _ m _ hm (by rw [h1]; exact hsk) h2 h4 (by rw [h3]; exact hm.vers) ?_
              intro hi
              rw [h4] at hi
              have := membership_none_of_fresh S vOk hm hi x c hc
              rw [this] at hms
              cases hms

theorem opSetVersion_inv (w : World) (f ver : Nat) (hver : ver &&& vOk = ver) (hw : WInv S vOk w) :
    WInv S vOk (opSetVersion S w f ver).1 := by
  unfold opSetVersion
  split
  · exact hw
  · rename_i k hk
    dsimp only
    split
    · exact hw
    · split
      · have hlt : k < w.models.length := by
          unfold fileModel at hk
          have := List.mem_of_find?_eq_some hk
          exact List.mem_range.mp this
        have hmem : w.models[k]! ∈ w.models := by
          rw [getElem!_pos w.models k hlt]; exact List.getElem_mem hlt
        have hm := hw _ hmem
        refine winv_update S vOk w _ k _ hw (Nat.le_refl _) ?_ rfl
        refine ⟨?_, hm.ids, hm.bound, hm.fresh, hm.rootName, hm.sn, hm.keys, hm.idxKeys, hm.exact⟩
        intro fl hfl
        obtain ⟨g, hg, rfl⟩ := List.mem_map.mp hfl
        split
        · exact hver
        · exact hm.vers g hg
      · exact hw

/-- the first file of a model: the root gets its protocol id -/
theorem mkFile_fresh_minv (nid k : Nat) (m : Model) (fl : File) (hm : MInv S vOk nid m) (hiss : m.rootIssued = false)
    (hver : fl.version &&& vOk = fl.version) :
    MInv S vOk (nid + 1)
      { m with
        files := m.files ++ [fl]
        rootHdr := { (restrictStep S fl.id m.rootHdr m.rootKids [] true).1 with id := nid, parent := .model k }
        rootKids := (restrictStep S fl.id m.rootHdr m.rootKids [] true).2.1.setParents (.elem nid)
        rootIssued := true } := by
  obtain ⟨hk, _⟩ := hm.fresh hiss
  obtain ⟨hc, hs⟩ := restrictStep_skel S fl.id m.rootHdr m.rootKids [] true
  have hent : entries S m.rootItems [] = [] := entries_leaf_root S _ _ hk []
  refine minv_leaf_root S vOk _ _ ?_ ?_ ?_ ?_ ?_ hm.idxKeys ?_
  · intro g hg
    rcases List.mem_append.mp hg with h | h
    · exact hm.vers g h
    · rw [List.mem_singleton] at h; rw [h]; exact hver
  · intro _; exact Nat.lt_succ_self nid
  · intro hi; cases hi
  · exact (ids_of_skel ((skel_setParents _ _).trans hs)).trans hk
  · show (restrictStep S fl.id m.rootHdr m.rootKids [] true).1.name ≠ S.nmShortName
    rw [(core_inj hc).2.1]; exact hm.rootName
  · intro q i h
    have := (hm.exact q i).mp h
    rw [hent] at this; cases this

/-- a further file of a model -/
theorem mkFile_issued_minv (nid : Nat) (m : Model) (fl : File) (hm : MInv S vOk nid m) (hiss : m.rootIssued = true)
    (hver : fl.version &&& vOk = fl.version) :
    MInv S vOk nid
      { m with
        files := m.files ++ [fl]
        rootHdr := (restrictStep S fl.id m.rootHdr m.rootKids [] true).1
        rootKids := (restrictStep S fl.id m.rootHdr m.rootKids [] true).2.1
        rootIssued := true } := by
  obtain ⟨hc, hs⟩ := restrictStep_skel S fl.id m.rootHdr m.rootKids [] true
  refine minv_skel S vOk nid m _ hm ?_ rfl hiss.symm ?_ ?_
  · simp only [rootItems_eq, skel_elem, hc, hs]
  · intro g hg
    rcases List.mem_append.mp hg with h | h
    · exact hm.vers g h
    · rw [List.mem_singleton] at h; rw [h]; exact hver
  · intro hi; cases hi

theorem opMkFile_inv (w : World) (k : Nat) (name : Bytes) (ver : Nat) (valid : Bool) (hver : ver &&& vOk = ver)
    (hw : WInv S vOk w) : WInv S vOk (opMkFile S w k name ver valid).1 := by
  unfold opMkFile
  split
  · exact hw
  · rename_i m hmk
    have hm := hw m (List.mem_of_getElem? hmk)
    split
    · exact hw
    · split
      · exact hw
      · cases hiss : m.rootIssued with
        | true =>
          simp only [if_true]
          refine winv_update S vOk w _ k _ hw (Nat.le_refl _) ?_ rfl
          exact mkFile_issued_minv S vOk _ m { id := w.nextFile, name := name, version := ver } hm hiss hver
        | false =>
          simp only [Bool.false_eq_true, if_false]
          refine winv_update S vOk w _ k _ hw (Nat.le_succ _) ?_ rfl
          exact mkFile_fresh_minv S vOk _ k m { id := w.nextFile, name := name, version := ver } hm hiss hver

end
end AV.W
