/-
C16: the machine of `Lemmas/Serializable.lean` covers the lock semantics of `Model/Locks.lean`.

Every one-section operation has a lock program (`lockProg`: `acq`/`tryAcq` of lock 0, then `rel`); `projSys` maps a
state of the machine to the `Locks.Sys` of these programs.  `locks_step_sim`: whenever the lock semantics (`Locks.stepTh`,
with its fair grant policy: a waiting writer blocks new readers, a try-acquisition that is not granted gives up) lets
thread `i` perform its lock event, the machine can do the corresponding step (`Act.go i`, or `Act.giveUp i` for the
try-acquisition that gives up) and ends in the projected state.  The steps of the machine that are not lock events
(thread-local steps, the effect) do not change the projection (`proj_stutter`).  Hence an execution in which the lock
events are ordered by `Locks.stepTh` and every thread performs its effect between its acquisition and its release is
a schedule of the machine, and `serializable` applies to it.
-/
import AutosarVerif.Lemmas.Serializable

namespace AV.Serializable
open AV.Locks (Mode Ev Th)

/-- the acquisition event of an operation (the lock `L` is lock 0) -/
def lockEv {σ ρ : Type} (o : Op σ ρ) : Ev := if o.tryAcq then .tryAcq 0 o.eff.mode else .acq 0 o.eff.mode

/-- the lock program of an operation -/
def lockProg {σ ρ : Type} (o : Op σ ρ) : Locks.Prog := [lockEv o, .rel 0 o.eff.mode]

/-- the `Locks` thread of a thread of the machine: remaining lock program and held locks -/
def projTh {σ ρ : Type} (o : Op σ ρ) : PC ρ → Th
  | .pre _ => ⟨lockProg o, []⟩
  | .crit m => ⟨[.rel 0 m], [(0, m)]⟩
  | .eff m _ => ⟨[.rel 0 m], [(0, m)]⟩
  | .done _ => ⟨[], []⟩

def projSys {σ ρ : Type} (ops : List (Op σ ρ)) (pcs : List (PC ρ)) : Locks.Sys := List.zipWith projTh ops pcs

theorem projSys_init {σ ρ : Type} (ops : List (Op σ ρ)) (x0 : σ) :
    projSys ops (init ops x0).pcs = Locks.initSys (ops.map lockProg) := by
  simp only [projSys, init, Locks.initSys, List.map_map]
  apply List.ext_getElem?
  intro j
  simp only [List.getElem?_zipWith, List.getElem?_map]
  cases ops[j]? <;> simp [projTh]

theorem projSys_get {σ ρ : Type} (ops : List (Op σ ρ)) (pcs : List (PC ρ)) (j : Nat) (o : Op σ ρ) (p : PC ρ)
    (ho : ops[j]? = some o) (hp : pcs[j]? = some p) : (projSys ops pcs)[j]? = some (projTh o p) := by
  simp [projSys, List.getElem?_zipWith, ho, hp]

theorem projSys_set {σ ρ : Type} (ops : List (Op σ ρ)) (pcs : List (PC ρ)) (i : Nat) (o : Op σ ρ) (p : PC ρ)
    (ho : ops[i]? = some o) : projSys ops (pcs.set i p) = (projSys ops pcs).set i (projTh o p) := by
  apply List.ext_getElem?
  intro j
  simp only [projSys, List.getElem?_zipWith, List.getElem?_set, List.length_zipWith]
  by_cases hij : i = j
  · subst hij
    simp only [if_true, ho]
    by_cases hl : i < pcs.length
    · have : i < ops.length := by
        rcases Nat.lt_or_ge i ops.length with h1 | h1
        · exact h1
        · rw [List.getElem?_eq_none h1] at ho; cases ho
      simp [hl, this, Nat.lt_min]
    · have : ¬ (i < ops.length ∧ i < pcs.length) := fun h => hl h.2
      simp [hl]
      omega
  · simp [hij]

theorem holds_proj {σ ρ : Type} (o : Op σ ρ) (p : PC ρ) : Locks.holds (projTh o p) 0 = p.held.isSome := by
  cases p <;> simp [projTh, Locks.holds, PC.held]

theorem holdsW_proj {σ ρ : Type} (o : Op σ ρ) (p : PC ρ) : Locks.holdsW (projTh o p) 0 = (p.held == some Mode.write) := by
  cases p with
  | pre k => simp [projTh, Locks.holdsW, PC.held]
  | done r => simp [projTh, Locks.holdsW, PC.held]
  | crit m => cases m <;> simp [projTh, Locks.holdsW, PC.held]
  | eff m r => cases m <;> simp [projTh, Locks.holdsW, PC.held]

theorem mem_others (s : Locks.Sys) (i j : Nat) (t : Th) (hj : s[j]? = some t) (hne : j ≠ i) : t ∈ Locks.others s i := by
  simp only [Locks.others, List.mem_map, List.mem_filter]
  refine ⟨(t, j), ⟨?_, by simpa using hne⟩, rfl⟩
  rw [List.mk_mem_zipIdx_iff_getElem?]
  exact hj

theorem lt_of_get {α : Type} (l : List α) (i : Nat) (a : α) (h : l[i]? = some a) : i < l.length := by
  rcases Nat.lt_or_ge i l.length with h1 | h1
  · exact h1
  · rw [List.getElem?_eq_none h1] at h; cases h

/-- the grant policy of `Locks` is at least as strict as the policy of the machine -/
theorem grantable_of_locks {σ ρ : Type} (ops : List (Op σ ρ)) (pcs : List (PC ρ)) (hlen : pcs.length = ops.length)
    (i : Nat) (m : Mode) (h : Locks.grantable (projSys ops pcs) i 0 m = true) : grantable pcs m = true := by
  have hget : ∀ q, q ∈ pcs → ∃ (j : Nat) (o : Op σ ρ), pcs[j]? = some q ∧ (projSys ops pcs)[j]? = some (projTh o q) := by
    intro q hq
    obtain ⟨j, hj⟩ := List.getElem?_of_mem hq
    have hjl := lt_of_get _ _ _ hj
    have ho : ops[j]? = some ops[j] := List.getElem?_eq_getElem (by omega)
    exact ⟨j, _, hj, projSys_get ops pcs j _ q ho hj⟩
  unfold Locks.grantable at h
  split at h
  · cases h
  · rename_i me hme
    cases m with
    | write =>
      simp only [Bool.not_eq_true', List.any_eq_false] at h
      simp only [grantable, List.all_eq_true]
      intro q hq
      obtain ⟨j, o, _, hs⟩ := hget q hq
      have := h _ (List.mem_of_getElem? hs)
      rw [holds_proj] at this
      cases hh : q.held <;> simp_all
    | read =>
      simp only [Bool.and_eq_true, Bool.not_eq_true', List.any_eq_false] at h
      obtain ⟨⟨h1, h2⟩, _⟩ := h
      simp only [grantable, List.all_eq_true]
      intro q hq
      obtain ⟨j, o, _, hs⟩ := hget q hq
      have hw : Locks.holdsW (projTh o q) 0 = false := by
        by_cases hji : j = i
        · subst hji
          rw [hme] at hs; cases hs; exact h2
        · have := h1 _ (mem_others _ i j _ hs hji)
          simpa using this
      rw [holdsW_proj] at hw
      simp [hw]

/-- a lock event that `Locks.stepTh` allows is a step of the machine, with the projected result -/
theorem locks_step_sim {σ ρ : Type} (ops : List (Op σ ρ)) (s : Sys σ ρ) (hlen : s.pcs.length = ops.length) (i : Nat)
    (l' : Locks.Sys) (hpc : s.pcs[i]? = some (PC.pre 0) ∨ ∃ m r, s.pcs[i]? = some (PC.eff m r))
    (h : Locks.stepTh (projSys ops s.pcs) i = some l') :
    ∃ a s', (a = Act.go i ∨ a = Act.giveUp i) ∧ act ops s a = some s' ∧ projSys ops s'.pcs = l' := by
  have hil : i < s.pcs.length := by
    rcases hpc with hp | ⟨_, _, hp⟩ <;> exact lt_of_get _ _ _ hp
  have ho : ops[i]? = some ops[i] := List.getElem?_eq_getElem (by omega)
  generalize ops[i] = o at ho
  rcases hpc with hp | ⟨m, r, hp⟩
  · have hS := projSys_get ops s.pcs i o _ ho hp
    unfold Locks.stepTh at h
    rw [hS] at h
    simp only [projTh, lockProg, lockEv] at h
    by_cases ht : o.tryAcq = true
    · simp only [ht, if_true] at h
      split at h
      · rename_i hg
        cases h
        refine ⟨.go i, { s with pcs := s.pcs.set i (PC.crit o.eff.mode), log := s.log ++ [i] }, Or.inl rfl, ?_, ?_⟩
        · simp only [act, step, ho, hp, grantable_of_locks ops s.pcs hlen i _ hg, if_true]
        · exact projSys_set ops s.pcs i o _ ho
      · cases h
        refine ⟨.giveUp i, { s with pcs := s.pcs.set i (PC.done .locked) }, Or.inr rfl, ?_, ?_⟩
        · simp only [act, giveUp, ho, hp, ht, if_true]
        · exact projSys_set ops s.pcs i o _ ho
    · have ht' : o.tryAcq = false := by simpa using ht
      simp only [ht', Bool.false_eq_true, if_false] at h
      split at h
      · rename_i hg
        cases h
        refine ⟨.go i, { s with pcs := s.pcs.set i (PC.crit o.eff.mode), log := s.log ++ [i] }, Or.inl rfl, ?_, ?_⟩
        · simp only [act, step, ho, hp, grantable_of_locks ops s.pcs hlen i _ hg, if_true]
        · exact projSys_set ops s.pcs i o _ ho
      · cases h
  · have hS := projSys_get ops s.pcs i o _ ho hp
    unfold Locks.stepTh at h
    rw [hS] at h
    simp only [projTh] at h
    cases h
    refine ⟨.go i, { s with pcs := s.pcs.set i (PC.done (.ok r)) }, Or.inl rfl, ?_, ?_⟩
    · simp only [act, step, ho, hp]
    · rw [projSys_set ops s.pcs i o _ ho]
      simp [projTh, Locks.releaseOne]

/-- thread-local steps and the effect are invisible to the lock -/
theorem proj_stutter {σ ρ : Type} (ops : List (Op σ ρ)) (s s' : Sys σ ρ) (i : Nat)
    (hpc : (∃ k, s.pcs[i]? = some (PC.pre (k + 1))) ∨ ∃ m, s.pcs[i]? = some (PC.crit m))
    (h : step ops s i = some s') : projSys ops s'.pcs = projSys ops s.pcs := by
  have key : ∀ (o : Op σ ρ) (p p' : PC ρ), ops[i]? = some o → s.pcs[i]? = some p → projTh o p' = projTh o p →
      projSys ops (s.pcs.set i p') = projSys ops s.pcs := by
    intro o p p' ho hp he
    rw [projSys_set ops s.pcs i o _ ho, he]
    apply List.ext_getElem?
    intro j
    rw [List.getElem?_set]
    split
    · rename_i hij
      subst hij
      have := projSys_get ops s.pcs i o p ho hp
      rw [this]
      simp [lt_of_get _ _ _ this]
    · rfl
  cases hoi : ops[i]? with
  | none => simp [step, hoi] at h
  | some o =>
    rcases hpc with ⟨k, hp⟩ | ⟨m, hp⟩
    · simp only [step, hoi, hp] at h
      cases h
      exact key o _ _ hoi hp rfl
    · simp only [step, hoi, hp] at h
      cases h
      exact key o _ _ hoi hp rfl

end AV.Serializable
