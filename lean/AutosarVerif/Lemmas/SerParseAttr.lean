/-
C01, element level: the attribute text.  Sufficient syntactic conditions for `AttrsRound`: `parse_attribute_text` reads
the text `serialize_attributes` writes back as the same attribute list.
-/
import AutosarVerif.Lemmas.SerParseVal

namespace AV.SerParse
open AV.W AV.Lex AV.PM AV.SerLex

/-! ### splitting one attribute off -/

theorem posOf_append (p : UInt8 → Bool) (a : Bytes) (x : UInt8) (b : Bytes) (i : Nat)
    (ha : ∀ c ∈ a, p c = false) (hx : p x = true) : posOf p (a ++ x :: b) i = some (i + a.length) := by
  induction a generalizing i with
  | nil => simp [posOf, hx]
  | cons c cs ih =>
    have hc : p c = false := ha c (by simp)
    simp only [List.cons_append, posOf, hc, Bool.false_eq_true, if_false, List.length_cons]
    rw [ih (i + 1) (fun y hy => ha y (by simp [hy]))]
    congr 1; omega

theorem posOf_nil (p : UInt8 → Bool) (i : Nat) : posOf p [] i = none := rfl

/-- `name="val"rest` is split into the name, the value and the text after the opening quote -/
theorem splitAttr_one (name val rest : Bytes) (hn : ∀ c ∈ name, c ≠ 61) (hv : ∀ c ∈ val, c ≠ 34) :
    splitAttr (name ++ 61 :: 34 :: (val ++ 34 :: rest)) = some (name, val, val ++ 34 :: rest) := by
  unfold splitAttr
  rw [posOf_append (· = 61) name 61 _ 0 (by intro c hc; simpa using hn c hc) (by simp)]
  simp only [Nat.zero_add]
  have hlen : ¬ (name ++ 61 :: 34 :: (val ++ 34 :: rest)).length - name.length < 3 := by
    simp only [List.length_append, List.length_cons]; omega
  rw [if_neg hlen]
  have hq : (name ++ 61 :: 34 :: (val ++ 34 :: rest)).getD (name.length + 1) 0 = 34 := by
    simp [List.getD_eq_getElem?_getD]
  simp only [hq]
  have hdrop : (name ++ 61 :: 34 :: (val ++ 34 :: rest)).drop (name.length + 2) = val ++ 34 :: rest := by
    rw [show name ++ 61 :: 34 :: (val ++ 34 :: rest) = (name ++ [61, 34]) ++ (val ++ 34 :: rest) by simp]
    exact List.drop_left' (by simp)
  rw [hdrop, posOf_append (· = 34) val 34 rest 0 (by intro c hc; simpa using hv c hc) (by simp)]
  simp

/-! ### the loop -/

section
variable (S : Spec) (V : Env) (ver typ : Nat)

/-- one attribute `(a, v)` of an element of type `typ` in version `ver`: its name is a name (no `=`, no white space) that
is read back as `a`; the type has the attribute, in this version; the value's text has no `"` and is read back as `v` -/
def AttrOK (av : Nat × CDv) : Prop :=
  (∀ c ∈ V.attrText av.1, c ≠ 61 ∧ isWs8 c = false) ∧
  V.attrOf (V.attrText av.1) = some av.1 ∧
  ∃ cd rq mask t, S.findAttr typ av.1 = some (cd, rq, mask) ∧ ver &&& mask ≠ 0 ∧
    serVal V av.2 = some t ∧ (∀ c ∈ t, c ≠ 34) ∧ CDRound V ver (S.cspec cd) av.2 t

theorem checkVersion_ok (mask kind : Nat) (b : Bool) (s : PState) (h : s.ver &&& mask ≠ 0) :
    checkVersion mask kind b s = (.ok (), { s with compat := s.compat &&& mask }) := by
  simp only [checkVersion, bind', modS, getS, h, if_false, pure']

/-- the head of a serialized attribute list after its leading blank is not white space -/
theorem dropWhile_serAttrs (l : List (Nat × CDv)) (at0 : Bytes) (hl : ∀ av ∈ l, AttrOK S V ver typ av)
    (hs : serAttrs V l = some at0) : at0.dropWhile isWs8 = at0.drop 1 := by
  cases l with
  | nil => simp only [serAttrs, Option.some.injEq] at hs; subst hs; rfl
  | cons av r =>
    obtain ⟨a, v⟩ := av
    simp only [serAttrs] at hs
    split at hs
    · rename_i tv rest hsv hsr
      simp only [Option.some.injEq] at hs; subst hs
      have hname := (hl (a, v) (by simp)).1
      have h32 : isWs8 32 = true := by decide
      simp only [List.append_assoc, List.cons_append, List.nil_append, List.dropWhile_cons, h32, if_true,
        List.drop_succ_cons, List.drop_zero]
      cases hnm : V.attrText a with
      | nil => simp [isWs8]
      | cons c cs =>
        have := (hname c (by simp [hnm])).2
        simp [this]
    · cases hs

theorem attrLoop_ok (l : List (Nat × CDv)) :
    ∀ (acc : List (Nat × CDv)) (fuel : Nat) (at0 : Bytes) (b : Bool) (s : PState),
      (∀ av ∈ l, AttrOK S V ver typ av) → serAttrs V l = some at0 → l.length < fuel → s.ver = ver →
      ∃ c, attrLoop S V typ fuel (at0.drop 1) acc b s = (.ok (acc ++ l, []), { s with compat := c }) := by
  induction l with
  | nil =>
    intro acc fuel at0 b s _ hs _ _
    simp only [serAttrs, Option.some.injEq] at hs; subst hs
    refine ⟨s.compat, ?_⟩
    cases fuel with
    | zero => simp [attrLoop, pure']
    | succ f => simp [attrLoop, splitAttr, posOf_nil, pure']
  | cons av r ih =>
    intro acc fuel at0 b s hl hs hf hv
    obtain ⟨a, v⟩ := av
    obtain ⟨f, rfl⟩ : ∃ f, fuel = f + 1 := ⟨fuel - 1, by omega⟩
    have hav := hl (a, v) (by simp)
    obtain ⟨hname, hof, cd, rq, mask, t, hfind, hmask, hsv, hq, hcd⟩ := hav
    simp only [serAttrs, hsv] at hs
    cases hsr : serAttrs V r with
    | none => simp [hsr] at hs
    | some rest =>
      simp only [hsr, Option.some.injEq] at hs; subst hs
      have hdrop : ([32] ++ V.attrText a ++ [61, 34] ++ t ++ [34] ++ rest).drop 1 =
          V.attrText a ++ 61 :: 34 :: (t ++ 34 :: rest) := by simp
      rw [hdrop]
      unfold attrLoop
      rw [splitAttr_one _ _ _ (fun c hc => (hname c hc).1) hq]
      simp only [hof, hfind]
      obtain ⟨cc, hp⟩ := hcd b { s with compat := s.compat &&& mask } hv
      have hinner : (bind' (checkVersion mask kAttributeVersionError) fun _ =>
          bind' (parseCD V t (S.cspec cd)) fun v' => pure' (acc ++ [(a, v')])) b s =
          (.ok (acc ++ [(a, v)]), { s with compat := cc }) := by
        rw [bind_ok (checkVersion_ok mask _ b s (by rw [hv]; exact hmask)), bind_ok hp]; rfl
      rw [bind_ok hinner]
      have htail : (t ++ 34 :: rest).drop (t.length + 1) = rest := by
        rw [show t ++ 34 :: rest = (t ++ [34]) ++ rest by simp]
        exact List.drop_left' (by simp)
      simp only [htail]
      have hnext := dropWhile_serAttrs S V ver typ r rest (fun av hav => hl av (by simp [hav])) hsr
      rw [hnext]
      have hstop : ¬ ((!(rest.drop 1).isEmpty) = true ∧ (rest.drop 1).length = rest.length) := by
        intro ⟨h1, h2⟩
        cases rest with
        | nil => simp at h1
        | cons x xs => simp at h2
      rw [if_neg hstop]
      obtain ⟨c2, h2⟩ := ih (acc ++ [(a, v)]) f rest b { s with compat := cc }
        (fun av hav => hl av (by simp [hav])) hsr (by simp at hf; omega) hv
      exact ⟨c2, by simpa using h2⟩

/-! ### required attributes -/

theorem required_ok (attrs : List (Nat × CDv)) (l : List (Nat × Nat × Bool × Nat)) (b : Bool) (s : PState)
    (h : ∀ a ∈ l, a.2.2.1 = true → attrs.any (·.1 == a.1) = true) :
    ∀ m : P Unit, m b s = (.ok (), s) →
    (l.foldl (fun (m : P Unit) (a : Nat × Nat × Bool × Nat) =>
      bind' m fun _ => if a.2.2.1 ∧ !attrs.any (·.1 == a.1) then optErr kRequiredAttributeMissing else pure' ()) m) b s
      = (.ok (), s) := by
  induction l with
  | nil => intro m hm; exact hm
  | cons a r ih =>
    intro m hm
    simp only [List.foldl_cons]
    apply ih (fun x hx => h x (by simp [hx]))
    rw [bind_ok hm]
    split
    · rename_i hh
      have := h a (by simp) hh.1
      simp [this] at hh
    · rfl

theorem serAttrs_length (l : List (Nat × CDv)) (at0 : Bytes) (hs : serAttrs V l = some at0) : 2 * l.length ≤ at0.length := by
  induction l generalizing at0 with
  | nil => simp
  | cons av r ih =>
    obtain ⟨a, v⟩ := av
    simp only [serAttrs] at hs
    split at hs
    · rename_i tv rest hsv hsr
      simp only [Option.some.injEq] at hs; subst hs
      have := ih rest hsr
      simp only [List.length_append, List.length_cons, List.length_nil]; omega
    · cases hs

/-- **the attribute list is read back**: every attribute is `AttrOK`, the list can be written, the required attributes
of the type are present -/
theorem AttrsRound_of (attrs : List (Nat × CDv)) (at0 : Bytes)
    (hok : ∀ av ∈ attrs, AttrOK S V ver typ av) (hs : serAttrs V attrs = some at0)
    (hreq : ∀ a ∈ S.listAttrs typ, a.2.2.1 = true → attrs.any (·.1 == a.1) = true) :
    AttrsRound S V ver typ attrs := by
  refine ⟨at0, hs, fun b s hv => ?_⟩
  have hlen := serAttrs_length V attrs at0 hs
  have hdw : (at0.drop 1).dropWhile isWs8 = at0.drop 1 := by
    cases attrs with
    | nil => simp only [serAttrs, Option.some.injEq] at hs; subst hs; rfl
    | cons av r =>
      obtain ⟨a, v⟩ := av
      have hname := (hok (a, v) (by simp)).1
      simp only [serAttrs] at hs
      split at hs
      · rename_i tv rest hsv hsr
        simp only [Option.some.injEq] at hs; subst hs
        simp only [List.append_assoc, List.cons_append, List.nil_append, List.drop_succ_cons, List.drop_zero]
        cases hnm : V.attrText a with
        | nil => simp [isWs8]
        | cons c cs =>
          have := (hname c (by simp [hnm])).2
          simp [this]
      · cases hs
  obtain ⟨c, hloop⟩ := attrLoop_ok S V ver typ attrs [] ((at0.drop 1).length + 1) at0 b s hok hs
    (by simp only [List.length_drop]; cases attrs with
      | nil => simp
      | cons x xs => simp only [List.length_cons] at hlen ⊢; omega) hv
  refine ⟨c, ?_⟩
  unfold parseAttrs
  rw [hdw, bind_ok hloop]
  simp only [List.nil_append]
  rw [bind_ok (show (if (!([] : Bytes).isEmpty) = true ∧ (!([] : Bytes).all isWs8) = true then optErr kAttributeValueError
      else pure' ()) b _ = (.ok (), _) from rfl)]
  rw [bind_ok (required_ok attrs _ b _ hreq _ rfl)]
  rfl

end

end AV.SerParse
