/-
C05: the reverse reference map as a multiset of (path, referrer) pairs.  What `add_reference_origin`, `remove_reference_origin`
and `fix_reference_origins` do to the keys (no duplicates), to the lists (never empty) and to the number of times a referrer
is registered under a path.
-/
import AutosarVerif.Lemmas.RefsDefs

namespace AV.W

/-! ### `refsGet`, keys -/

theorem refsGet_nil (q : Bytes) : refsGet [] q = [] := rfl

theorem refsGet_cons (e : Bytes × List Nat) (es : List (Bytes × List Nat)) (q : Bytes) :
    refsGet (e :: es) q = if e.1 = q then e.2 else refsGet es q := by
  simp only [refsGet, List.find?_cons]
  by_cases h : e.1 = q
  · have hb : (e.1 == q) = true := by simpa using h
    rw [if_pos h]; simp only [hb]
  · have hb : (e.1 == q) = false := by simpa using h
    rw [if_neg h]; simp only [hb]

theorem refsGet_of_not_key (rs : List (Bytes × List Nat)) (q : Bytes) (h : q ∉ rs.map (·.1)) : refsGet rs q = [] := by
  induction rs with
  | nil => rfl
  | cons e es ih =>
    simp only [List.map_cons, List.mem_cons, not_or] at h
    rw [refsGet_cons, if_neg (fun he => h.1 he.symm)]
    exact ih h.2

theorem keys_map_same (rs : List (Bytes × List Nat)) (h : Bytes × List Nat → Bytes × List Nat)
    (hk : ∀ e, (h e).1 = e.1) : (rs.map h).map (·.1) = rs.map (·.1) := by
  induction rs with
  | nil => rfl
  | cons e es ih => simp only [List.map_cons, hk, ih]

theorem keysNodup_map_same (rs : List (Bytes × List Nat)) (h : Bytes × List Nat → Bytes × List Nat)
    (hk : ∀ e, (h e).1 = e.1) (hn : keysNodup rs) : keysNodup (rs.map h) := by
  unfold keysNodup at hn ⊢
  rw [keys_map_same rs h hk]; exact hn

theorem keysNodup_filter (rs : List (Bytes × List Nat)) (P : Bytes × List Nat → Bool) (hn : keysNodup rs) :
    keysNodup (rs.filter P) := by
  unfold keysNodup at hn ⊢
  exact List.Nodup.sublist (List.Sublist.map _ List.filter_sublist) hn

/-- a map that keeps the keys and applies `f` to the list under `q` -/
theorem refsGet_map_key (rs : List (Bytes × List Nat)) (q : Bytes) (h : Bytes × List Nat → Bytes × List Nat)
    (f : List Nat → List Nat) (hk : ∀ e, (h e).1 = e.1) (hf : ∀ e, e.1 = q → (h e).2 = f e.2) (hnil : f [] = []) :
    refsGet (rs.map h) q = f (refsGet rs q) := by
  induction rs with
  | nil => simp only [List.map_nil, refsGet_nil, hnil]
  | cons e es ih =>
    rw [List.map_cons, refsGet_cons, refsGet_cons, hk]
    by_cases he : e.1 = q
    · rw [if_pos he, if_pos he]; exact hf e he
    · rw [if_neg he, if_neg he]; exact ih

/-- dropping the entries `(p, [])` changes no list -/
theorem refsGet_filter_empty (rs : List (Bytes × List Nat)) (p q : Bytes) (hn : keysNodup rs) :
    refsGet (rs.filter fun e => !(e.1 == p && e.2.isEmpty)) q = refsGet rs q := by
  induction rs with
  | nil => rfl
  | cons e es ih =>
    have hn' := hn
    simp only [keysNodup, List.map_cons, List.nodup_cons] at hn'
    have ih' := ih hn'.2
    rw [List.filter_cons]
    by_cases hd : (e.1 == p && e.2.isEmpty) = true
    · simp only [hd, Bool.not_true, Bool.false_eq_true, if_false]
      simp only [Bool.and_eq_true, beq_iff_eq, List.isEmpty_iff] at hd
      rw [ih', refsGet_cons]
      by_cases he : e.1 = q
      · rw [if_pos he, hd.2]
        exact refsGet_of_not_key es q (he ▸ hn'.1)
      · rw [if_neg he]
    · have hd' : (e.1 == p && e.2.isEmpty) = false := by simpa using hd
      simp only [hd', Bool.not_false, if_true]
      rw [refsGet_cons, refsGet_cons, ih']

/-! ### `add_reference_origin` -/

theorem refsAdd_keysNodup (rs : List (Bytes × List Nat)) (p : Bytes) (id : Nat) (hn : keysNodup rs) :
    keysNodup (refsAdd rs p id) := by
  unfold refsAdd
  split
  · apply keysNodup_map_same rs _ _ hn
    intro e
    by_cases he : e.1 = p
    · have hb : (e.1 == p) = true := by simpa using he
      rw [if_pos hb]; exact he.symm
    · have hb : ¬ (e.1 == p) = true := by simpa using he
      rw [if_neg hb]
  · rename_i hany
    unfold keysNodup at hn ⊢
    rw [List.map_append, List.nodup_append]
    refine ⟨hn, by simp, ?_⟩
    intro a ha b hb hab
    simp only [List.map_cons, List.map_nil, List.mem_singleton] at hb
    subst hb; subst hab
    apply hany
    obtain ⟨e, he, hea⟩ := List.mem_map.mp ha
    exact List.any_eq_true.mpr ⟨e, he, by simpa using hea⟩

theorem refsAdd_nonempty (rs : List (Bytes × List Nat)) (p : Bytes) (id : Nat) (hne : refsNonempty rs) :
    refsNonempty (refsAdd rs p id) := by
  unfold refsAdd
  split
  · intro e he
    obtain ⟨e0, he0, rfl⟩ := List.mem_map.mp he
    by_cases hb : (e0.1 == p) = true
    · simp only [hb, if_true]; simp
    · simp only [hb]; exact hne e0 he0
  · intro e he
    rcases List.mem_append.mp he with h | h
    · exact hne e h
    · simp only [List.mem_singleton] at h
      subst h; simp

theorem refsAdd_count (rs : List (Bytes × List Nat)) (p q : Bytes) (id j : Nat) (hn : keysNodup rs) :
    (refsGet (refsAdd rs p id) q).count j = (refsGet rs q).count j + (if q = p ∧ j = id then 1 else 0) := by
  by_cases hq : q = p
  · subst hq
    rw [refsAdd_get_same rs q id hn, List.count_append, List.count_singleton]
    by_cases hj : j = id
    · subst hj; simp
    · have : (id == j) = false := by simpa using (Ne.symm hj)
      simp [this, hj]
  · rw [refsAdd_get_other rs p q id hq]
    simp [hq]

/-! ### `remove_reference_origin` -/

theorem refsRemove_map_key (p : Bytes) (id : Nat) (e : Bytes × List Nat) :
    (if e.1 == p then (p, e.2.erase id) else e).1 = e.1 := by
  by_cases he : e.1 = p
  · have hb : (e.1 == p) = true := by simpa using he
    rw [if_pos hb]; exact he.symm
  · have hb : ¬ (e.1 == p) = true := by simpa using he
    rw [if_neg hb]

theorem refsRemove_keysNodup (rs : List (Bytes × List Nat)) (p : Bytes) (id : Nat) (hn : keysNodup rs) :
    keysNodup (refsRemove rs p id) := by
  unfold refsRemove
  exact keysNodup_filter _ _ (keysNodup_map_same rs _ (refsRemove_map_key p id) hn)

theorem refsRemove_nonempty (rs : List (Bytes × List Nat)) (p : Bytes) (id : Nat) (_hn : keysNodup rs)
    (hne : refsNonempty rs) : refsNonempty (refsRemove rs p id) := by
  unfold refsRemove
  intro e he
  obtain ⟨hm, hf⟩ := List.mem_filter.mp he
  obtain ⟨e0, he0, rfl⟩ := List.mem_map.mp hm
  by_cases hb : (e0.1 == p) = true
  · simp only [hb, if_true] at hf ⊢
    intro hnil
    simp [hnil] at hf
  · simp only [hb]; exact hne e0 he0

theorem refsRemove_get (rs : List (Bytes × List Nat)) (p q : Bytes) (id : Nat) (hn : keysNodup rs) :
    refsGet (refsRemove rs p id) q = if q = p then (refsGet rs q).erase id else refsGet rs q := by
  unfold refsRemove
  rw [refsGet_filter_empty _ p q (keysNodup_map_same rs _ (refsRemove_map_key p id) hn)]
  by_cases hq : q = p
  · rw [if_pos hq]
    apply refsGet_map_key rs q _ (fun l => l.erase id) (refsRemove_map_key p id)
    · intro e he
      have hb : (e.1 == p) = true := by simpa using he.trans hq
      simp only [hb, if_true]
    · rfl
  · rw [if_neg hq]
    apply refsGet_map_key rs q _ (fun l => l) (refsRemove_map_key p id)
    · intro e he
      have hb : (e.1 == p) = false := by simpa using (fun h : e.1 = p => hq (he.symm.trans h))
      simp only [hb, Bool.false_eq_true, if_false]
    · rfl

theorem count_erase_ite (l : List Nat) (id j : Nat) :
    (l.erase id).count j = l.count j - (if j = id then 1 else 0) := by
  rw [List.count_erase]
  by_cases hj : j = id
  · subst hj; simp
  · have : (id == j) = false := by simpa using (Ne.symm hj)
    simp [this, hj]

theorem refsRemove_count (rs : List (Bytes × List Nat)) (p q : Bytes) (id j : Nat) (hn : keysNodup rs) :
    (refsGet (refsRemove rs p id) q).count j = (refsGet rs q).count j - (if q = p ∧ j = id then 1 else 0) := by
  rw [refsRemove_get rs p q id hn]
  by_cases hq : q = p
  · rw [if_pos hq, count_erase_ite]
    simp only [hq, true_and]
  · rw [if_neg hq]
    simp [hq]

/-! ### `fix_reference_origins` -/

/-- the first step of `fix_reference_origins`: take `id` out of the list of `old` -/
def refsFix1 (rs : List (Bytes × List Nat)) (old : Bytes) (id : Nat) : List (Bytes × List Nat) :=
  (rs.map fun e => if e.1 == old ∧ e.2.contains id then (e.1, e.2.erase id) else e).filter
    fun e => !(e.1 == old && e.2.isEmpty)

theorem refsFix_eq (rs : List (Bytes × List Nat)) (old new : Bytes) (id : Nat) :
    refsFix rs old new id = if old = new then rs else refsAdd (refsFix1 rs old id) new id := rfl

theorem refsFix_map_key (old : Bytes) (id : Nat) (e : Bytes × List Nat) :
    (if e.1 == old ∧ e.2.contains id then (e.1, e.2.erase id) else e).1 = e.1 := by
  split <;> rfl

theorem refsFix1_keysNodup (rs : List (Bytes × List Nat)) (old : Bytes) (id : Nat) (hn : keysNodup rs) :
    keysNodup (refsFix1 rs old id) := by
  unfold refsFix1
  exact keysNodup_filter _ _ (keysNodup_map_same rs _ (refsFix_map_key old id) hn)

theorem refsFix1_nonempty (rs : List (Bytes × List Nat)) (old : Bytes) (id : Nat) (hne : refsNonempty rs) :
    refsNonempty (refsFix1 rs old id) := by
  unfold refsFix1
  intro e he
  obtain ⟨hm, hf⟩ := List.mem_filter.mp he
  obtain ⟨e0, he0, rfl⟩ := List.mem_map.mp hm
  split
  · rename_i hc
    have hb : (e0.1 == old) = true := hc.1
    rw [if_pos hc] at hf
    intro hnil
    simp only at hnil
    simp [hb, hnil] at hf
  · exact hne e0 he0

theorem refsFix1_get (rs : List (Bytes × List Nat)) (old q : Bytes) (id : Nat) (hn : keysNodup rs) :
    refsGet (refsFix1 rs old id) q = if q = old then (refsGet rs q).erase id else refsGet rs q := by
  unfold refsFix1
  rw [refsGet_filter_empty _ old q (keysNodup_map_same rs _ (refsFix_map_key old id) hn)]
  by_cases hq : q = old
  · rw [if_pos hq]
    apply refsGet_map_key rs q _ (fun l => l.erase id) (refsFix_map_key old id)
    · intro e he
      have hb : (e.1 == old) = true := by simpa using he.trans hq
      by_cases hc : e.2.contains id = true
      · rw [if_pos ⟨hb, hc⟩]
      · rw [if_neg (fun h => hc h.2)]
        have : id ∉ e.2 := by simpa using hc
        exact (List.erase_of_not_mem this).symm
    · rfl
  · rw [if_neg hq]
    apply refsGet_map_key rs q _ (fun l => l) (refsFix_map_key old id)
    · intro e he
      have hb : ¬ (e.1 == old) = true := by
        simpa using (fun h : e.1 = old => hq (he.symm.trans h))
      rw [if_neg (fun h => hb h.1)]
    · rfl

theorem refsFix_keysNodup (rs : List (Bytes × List Nat)) (old new : Bytes) (id : Nat) (hn : keysNodup rs) :
    keysNodup (refsFix rs old new id) := by
  rw [refsFix_eq]
  split
  · exact hn
  · exact refsAdd_keysNodup _ new id (refsFix1_keysNodup rs old id hn)

theorem refsFix_nonempty (rs : List (Bytes × List Nat)) (old new : Bytes) (id : Nat) (_hn : keysNodup rs)
    (hne : refsNonempty rs) : refsNonempty (refsFix rs old new id) := by
  rw [refsFix_eq]
  split
  · exact hne
  · exact refsAdd_nonempty _ new id (refsFix1_nonempty rs old id hne)

theorem refsFix_count (rs : List (Bytes × List Nat)) (old new q : Bytes) (id j : Nat) (hn : keysNodup rs) :
    (refsGet (refsFix rs old new id) q).count j =
      if old = new then (refsGet rs q).count j
      else (refsGet rs q).count j - (if q = old ∧ j = id then 1 else 0) + (if q = new ∧ j = id then 1 else 0) := by
  rw [refsFix_eq]
  by_cases hon : old = new
  · rw [if_pos hon, if_pos hon]
  · rw [if_neg hon, if_neg hon, refsAdd_count _ new q id j (refsFix1_keysNodup rs old id hn), refsFix1_get rs old q id hn]
    by_cases hq : q = old
    · rw [if_pos hq, count_erase_ite]
      simp only [hq, true_and]
    · rw [if_neg hq]
      simp [hq]

end AV.W
