/-
C05: the reference rewriting loop of `set_item_name` (`renameRefs`) as a key rewriting of the reverse reference map.

The loop folds over a SNAPSHOT of the map.  An entry whose key is `old` or continues it with '/' is taken out of the
accumulator and its list is appended under the rewritten key `new ++ s`; the texts of the referrers are overwritten in the
tree.  Under `hnd` (a rewritten key is not itself at or below `old`, so nothing is moved twice and nothing is moved ONTO a
key that is still to be processed) the result is described exactly: `renameRefs_keysNodup`, `renameRefs_nonempty`,
`renameRefs_count`, `renameRefs_tree`.
-/
import AutosarVerif.Lemmas.RefsMap
import AutosarVerif.Lemmas.IdxFix

namespace AV.W

/-- the entries that move -/
def movedRefs (old : Bytes) (rs : List (Bytes × List Nat)) : List (Bytes × List Nat) :=
  rs.filter fun e => (pathSuffix old e.1).isSome

/-! ### one step on the map: move the list under `k` to the key `k'` -/

/-- take the list stored under `k` out of the map and append it under `k'` -/
def moveKey (acc : List (Bytes × List Nat)) (k k' : Bytes) : List (Bytes × List Nat) :=
  if (acc.filter (·.1 != k)).any (·.1 == k') then
    (acc.filter (·.1 != k)).map fun x => if x.1 == k' then (x.1, x.2 ++ refsGet acc k) else x
  else acc.filter (·.1 != k) ++ [(k', refsGet acc k)]

/-- one step of the fold of `renameRefs` -/
def renStep (old new : Bytes) (acc : List (Bytes × List Nat) × Items) (e : Bytes × List Nat) :
    List (Bytes × List Nat) × Items :=
  match pathSuffix old e.1 with
  | some s =>
    if acc.1.any (·.1 == e.1) then
      (moveKey acc.1 e.1 (new ++ s), setRefTexts acc.2 (refsGet acc.1 e.1) (new ++ s))
    else acc
  | none => acc

theorem renameRefs_eq (rs : List (Bytes × List Nat)) (root : Items) (old new : Bytes) :
    renameRefs rs root old new = rs.foldl (renStep old new) (rs, root) := rfl

theorem refsGet_filter_ne (acc : List (Bytes × List Nat)) (k q : Bytes) :
    refsGet (acc.filter (·.1 != k)) q = if q = k then [] else refsGet acc q := by
  induction acc with
  | nil => simp only [List.filter_nil, refsGet_nil, ite_self]
  | cons e es ih =>
    rw [List.filter_cons]
    by_cases hek : e.1 = k
    · have hb : (e.1 != k) = false := by simp [hek]
      simp only [hb, Bool.false_eq_true, if_false]
      rw [ih, refsGet_cons]
      by_cases hq : q = k
      · rw [if_pos hq, if_pos hq]
      · rw [if_neg hq, if_neg hq, if_neg (fun h => hq (h.symm.trans hek))]
    · have hb : (e.1 != k) = true := by simp [hek]
      simp only [hb, if_true]
      rw [refsGet_cons, refsGet_cons, ih]
      by_cases heq : e.1 = q
      · rw [if_pos heq, if_pos heq, if_neg (fun h => hek (heq.trans h))]
      · rw [if_neg heq, if_neg heq]

/-- appending to the lists under `k'`, which is a key of the map -/
theorem refsGet_mapApp_same (rs : List (Bytes × List Nat)) (k' : Bytes) (cur : List Nat)
    (hany : rs.any (·.1 == k') = true) :
    refsGet (rs.map fun x => if x.1 == k' then (x.1, x.2 ++ cur) else x) k' = refsGet rs k' ++ cur := by
  induction rs with
  | nil => simp at hany
  | cons e es ih =>
    rw [List.map_cons, refsGet_cons, refsGet_cons]
    by_cases he : e.1 = k'
    · have hb : (e.1 == k') = true := by simpa using he
      simp only [hb, if_true]
      rw [if_pos he, if_pos he]
    · have hb : (e.1 == k') = false := by simpa using he
      simp only [hb, Bool.false_eq_true, if_false]
      rw [if_neg he, if_neg he]
      apply ih
      simpa [hb] using hany

theorem mapApp_key (k' : Bytes) (cur : List Nat) (x : Bytes × List Nat) :
    (if x.1 == k' then (x.1, x.2 ++ cur) else x).1 = x.1 := by
  split <;> rfl

theorem refsGet_mapApp_other (rs : List (Bytes × List Nat)) (k' q : Bytes) (cur : List Nat) (hq : q ≠ k') :
    refsGet (rs.map fun x => if x.1 == k' then (x.1, x.2 ++ cur) else x) q = refsGet rs q := by
  apply refsGet_map_key rs q _ (fun l => l) (mapApp_key k' cur)
  · intro e he
    have hb : (e.1 == k') = false := by simpa using (fun h : e.1 = k' => hq (he.symm.trans h))
    simp only [hb, Bool.false_eq_true, if_false]
  · rfl

theorem refsGet_append_same (rs : List (Bytes × List Nat)) (k' : Bytes) (cur : List Nat)
    (hany : ¬ rs.any (·.1 == k') = true) : refsGet (rs ++ [(k', cur)]) k' = cur := by
  induction rs with
  | nil => rw [List.nil_append, refsGet_cons, if_pos rfl]
  | cons e es ih =>
    rw [List.cons_append, refsGet_cons]
    have he : e.1 ≠ k' := by
      intro h; apply hany
      simp [h]
    rw [if_neg he]
    apply ih
    intro h; apply hany
    rw [List.any_cons, h, Bool.or_true]

theorem not_any_key (rs : List (Bytes × List Nat)) (k' : Bytes) (hany : ¬ rs.any (·.1 == k') = true) :
    k' ∉ rs.map (·.1) := by
  intro h
  obtain ⟨e, he, hek⟩ := List.mem_map.mp h
  exact hany (List.any_eq_true.mpr ⟨e, he, by simpa using hek⟩)

/-- the map after one move -/
theorem moveKey_get (acc : List (Bytes × List Nat)) (k k' q : Bytes) (hkk : k ≠ k') :
    refsGet (moveKey acc k k') q =
      if q = k' then refsGet acc k' ++ refsGet acc k else if q = k then [] else refsGet acc q := by
  have hk'k : ¬ k' = k := fun h => hkk h.symm
  unfold moveKey
  split
  · rename_i hany
    by_cases hq : q = k'
    · subst hq
      rw [if_pos rfl, refsGet_mapApp_same _ _ _ hany, refsGet_filter_ne, if_neg hk'k]
    · rw [if_neg hq, refsGet_mapApp_other _ _ _ _ hq, refsGet_filter_ne]
  · rename_i hany
    by_cases hq : q = k'
    · subst hq
      rw [if_pos rfl, refsGet_append_same _ _ _ hany]
      have h0 := refsGet_of_not_key _ q (not_any_key _ q hany)
      rw [refsGet_filter_ne, if_neg hk'k] at h0
      rw [h0, List.nil_append]
    · rw [if_neg hq, refsGet_append_other _ _ _ _ hq, refsGet_filter_ne]

theorem moveKey_keysNodup (acc : List (Bytes × List Nat)) (k k' : Bytes) (hn : keysNodup acc) :
    keysNodup (moveKey acc k k') := by
  have hf := keysNodup_filter acc (·.1 != k) hn
  unfold moveKey
  split
  · exact keysNodup_map_same _ _ (mapApp_key k' _) hf
  · rename_i hany
    unfold keysNodup at hf ⊢
    rw [List.map_append, List.nodup_append]
    refine ⟨hf, List.nodup_cons.mpr ⟨List.not_mem_nil, List.nodup_nil⟩, ?_⟩
    intro a ha b hb hab
    simp only [List.map_cons, List.map_nil, List.mem_singleton] at hb
    subst hb; subst hab
    exact not_any_key _ _ hany ha

theorem moveKey_nonempty (acc : List (Bytes × List Nat)) (k k' : Bytes) (hne : refsNonempty acc)
    (hcur : refsGet acc k ≠ []) : refsNonempty (moveKey acc k k') := by
  have hf : refsNonempty (acc.filter (·.1 != k)) := fun e he => hne e (List.mem_filter.mp he).1
  unfold moveKey
  split
  · intro e he
    obtain ⟨e0, he0, rfl⟩ := List.mem_map.mp he
    split
    · intro h
      exact hf e0 he0 (List.append_eq_nil_iff.mp h).1
    · exact hf e0 he0
  · intro e he
    rcases List.mem_append.mp he with h | h
    · exact hf e h
    · rw [List.mem_singleton] at h
      subst h; exact hcur

/-- an entry under a third key is not touched -/
theorem moveKey_mem (acc : List (Bytes × List Nat)) (k k' : Bytes) (e : Bytes × List Nat) (he : e ∈ acc)
    (h1 : e.1 ≠ k) (h2 : e.1 ≠ k') : e ∈ moveKey acc k k' := by
  have hf : e ∈ acc.filter (·.1 != k) := List.mem_filter.mpr ⟨he, by simpa using h1⟩
  unfold moveKey
  split
  · refine List.mem_map.mpr ⟨e, hf, ?_⟩
    have hb : (e.1 == k') = false := by simpa using h2
    simp only [hb, Bool.false_eq_true, if_false]
  · exact List.mem_append_left _ hf

/-! ### sums of counts over the entries selected by a predicate -/

/-- number of times `id` occurs in the lists of the entries selected by `P` -/
def csum (P : Bytes × List Nat → Bool) (l : List (Bytes × List Nat)) (id : Nat) : Nat :=
  ((l.filter P).map fun e => e.2.count id).sum

theorem csum_nil (P : Bytes × List Nat → Bool) (id : Nat) : csum P [] id = 0 := rfl

theorem csum_cons (P : Bytes × List Nat → Bool) (e : Bytes × List Nat) (l : List (Bytes × List Nat)) (id : Nat) :
    csum P (e :: l) id = (if P e = true then e.2.count id else 0) + csum P l id := by
  unfold csum
  rw [List.filter_cons]
  by_cases h : P e = true
  · rw [if_pos h, if_pos h, List.map_cons, List.sum_cons]
  · rw [if_neg h, if_neg h, Nat.zero_add]

theorem csum_append (P : Bytes × List Nat → Bool) (l1 l2 : List (Bytes × List Nat)) (id : Nat) :
    csum P (l1 ++ l2) id = csum P l1 id + csum P l2 id := by
  unfold csum
  rw [List.filter_append, List.map_append, List.sum_append]

theorem csum_snoc (P : Bytes × List Nat → Bool) (e : Bytes × List Nat) (l : List (Bytes × List Nat)) (id : Nat) :
    csum P (l ++ [e]) id = csum P l id + (if P e = true then e.2.count id else 0) := by
  rw [csum_append, csum_cons, csum_nil, Nat.add_zero]

/-- with pairwise different keys, the list under `q` is the only one selected by the key `q` -/
theorem refsGet_count_csum (rs : List (Bytes × List Nat)) (hn : keysNodup rs) (q : Bytes) (id : Nat) :
    (refsGet rs q).count id = csum (fun e => e.1 == q) rs id := by
  induction rs with
  | nil => rfl
  | cons e es ih =>
    have hn' := hn
    simp only [keysNodup, List.map_cons, List.nodup_cons] at hn'
    have ih' := ih hn'.2
    rw [refsGet_cons, csum_cons]
    by_cases he : e.1 = q
    · have hb : (e.1 == q) = true := by simpa using he
      simp only [hb, if_true]
      rw [if_pos he]
      have h0 := refsGet_of_not_key es q (he ▸ hn'.1)
      rw [h0] at ih'
      rw [← ih']; simp only [List.count_nil, Nat.add_zero]
    · have hb : (e.1 == q) = false := by simpa using he
      simp only [hb, Bool.false_eq_true, if_false]
      rw [if_neg he, Nat.zero_add]; exact ih'

/-! ### the invariant of the fold -/

/-- the keys of the snapshot after an entry differ from the key of the entry -/
theorem keysNodup_mid (done l : List (Bytes × List Nat)) (e : Bytes × List Nat) (hn : keysNodup (done ++ e :: l)) :
    ∀ x ∈ l, x.1 ≠ e.1 := by
  unfold keysNodup at hn
  rw [List.map_append, List.map_cons, List.nodup_append, List.nodup_cons] at hn
  obtain ⟨_, ⟨hnot, _⟩, _⟩ := hn
  intro x hx hxe
  apply hnot
  rw [← hxe]
  exact List.mem_map.mpr ⟨x, hx, rfl⟩

/-- the accumulator after the part `done` of the snapshot has been processed and the part `l` is still to come: the entries
of `l` that will move are still there unchanged, the referrers under `q` are those of the processed entries rewritten to `q`
and of the unprocessed entries with the key `q`, and the tree has received the texts of the processed moved entries -/
structure RInv (old new : Bytes) (root : Items) (done l : List (Bytes × List Nat))
    (acc : List (Bytes × List Nat) × Items) : Prop where
  nd : keysNodup acc.1
  ne : refsNonempty acc.1
  mem : ∀ e ∈ l, pathSuffix old e.1 ≠ none → e ∈ acc.1
  cnt : ∀ q id, (refsGet acc.1 q).count id =
    csum (fun e => rekey old new e.1 == q) done id + csum (fun e => e.1 == q) l id
  tree : acc.2 = (movedRefs old done).foldl (fun t e => setRefTexts t e.2 (rekey old new e.1)) root

theorem movedRefs_snoc_some (old : Bytes) (done : List (Bytes × List Nat)) (e : Bytes × List Nat) (s : Bytes)
    (hps : pathSuffix old e.1 = some s) : movedRefs old (done ++ [e]) = movedRefs old done ++ [e] := by
  unfold movedRefs
  rw [List.filter_append, List.filter_cons, hps]
  simp only [Option.isSome_some, if_true, List.filter_nil]

theorem movedRefs_snoc_none (old : Bytes) (done : List (Bytes × List Nat)) (e : Bytes × List Nat)
    (hps : pathSuffix old e.1 = none) : movedRefs old (done ++ [e]) = movedRefs old done := by
  unfold movedRefs
  rw [List.filter_append, List.filter_cons, hps]
  simp only [Option.isSome_none, Bool.false_eq_true, if_false, List.filter_nil, List.append_nil]

theorem renStep_inv (old new : Bytes) (root : Items) (done l : List (Bytes × List Nat)) (e : Bytes × List Nat)
    (acc : List (Bytes × List Nat) × Items)
    (hn : keysNodup (done ++ e :: l))
    (hnd : ∀ s, pathSuffix old e.1 = some s → pathSuffix old (new ++ s) = none)
    (inv : RInv old new root done (e :: l) acc) :
    RInv old new root (done ++ [e]) l (renStep old new acc e) := by
  have hrest := keysNodup_mid done l e hn
  cases hps : pathSuffix old e.1 with
  | none =>
    have hstep : renStep old new acc e = acc := by unfold renStep; rw [hps]
    rw [hstep]
    refine ⟨inv.nd, inv.ne, fun x hx hs => inv.mem x (List.mem_cons_of_mem _ hx) hs, ?_, ?_⟩
    · intro q id
      rw [inv.cnt q id, csum_cons, csum_snoc, rekey_none old new e.1 hps]
      omega
    · rw [movedRefs_snoc_none old done e hps]; exact inv.tree
  | some s =>
    have hmem_e : e ∈ acc.1 := inv.mem e List.mem_cons_self (by rw [hps]; exact Option.some_ne_none s)
    have hany : acc.1.any (·.1 == e.1) = true := List.any_eq_true.mpr ⟨e, hmem_e, by simp⟩
    have hcur : refsGet acc.1 e.1 = e.2 := refsGet_of_mem acc.1 e.1 e.2 inv.nd hmem_e
    have hnone : pathSuffix old (new ++ s) = none := hnd s hps
    have hkk : e.1 ≠ new ++ s := by
      intro h; rw [← h, hps] at hnone; cases hnone
    have hstep : renStep old new acc e = (moveKey acc.1 e.1 (new ++ s), setRefTexts acc.2 e.2 (new ++ s)) := by
      unfold renStep; rw [hps]; simp only [hany, if_true, hcur]
    rw [hstep]
    refine ⟨moveKey_keysNodup _ _ _ inv.nd, ?_, ?_, ?_, ?_⟩
    · apply moveKey_nonempty _ _ _ inv.ne
      rw [hcur]; exact inv.ne e hmem_e
    · intro x hx hs
      apply moveKey_mem _ _ _ x (inv.mem x (List.mem_cons_of_mem _ hx) hs) (hrest x hx)
      intro h; rw [h] at hs; exact hs hnone
    · intro q id
      show (refsGet (moveKey acc.1 e.1 (new ++ s)) q).count id = _
      rw [moveKey_get _ _ _ _ hkk, csum_snoc, rekey_some old new e.1 s hps]
      have hc := inv.cnt q id
      have hck := inv.cnt e.1 id
      rw [csum_cons] at hc hck
      rw [hcur] at hck
      simp only [beq_iff_eq, beq_self_eq_true, if_true] at hc hck ⊢
      by_cases hq1 : q = new ++ s
      · subst hq1
        rw [if_pos rfl, if_pos rfl, List.count_append, hcur, hc, if_neg hkk]
        omega
      · have hq1' : ¬ new ++ s = q := fun h => hq1 h.symm
        rw [if_neg hq1, if_neg hq1']
        by_cases hq2 : q = e.1
        · subst hq2
          rw [if_pos rfl, List.count_nil]
          omega
        · have hq2' : ¬ e.1 = q := fun h => hq2 h.symm
          rw [if_neg hq2, hc, if_neg hq2']
          omega
    · show setRefTexts acc.2 e.2 (new ++ s) = _
      rw [movedRefs_snoc_some old done e s hps, List.foldl_append, List.foldl_cons, List.foldl_nil, ← inv.tree,
        rekey_some old new e.1 s hps]

theorem foldl_renStep_inv (old new : Bytes) (root : Items) (l done : List (Bytes × List Nat))
    (acc : List (Bytes × List Nat) × Items)
    (hn : keysNodup (done ++ l))
    (hnd : ∀ e ∈ l, ∀ s, pathSuffix old e.1 = some s → pathSuffix old (new ++ s) = none)
    (inv : RInv old new root done l acc) :
    RInv old new root (done ++ l) [] (l.foldl (renStep old new) acc) := by
  induction l generalizing done acc with
  | nil => rw [List.foldl_nil, List.append_nil]; exact inv
  | cons e l' ih =>
    rw [List.foldl_cons]
    have hassoc : done ++ [e] ++ l' = done ++ e :: l' := by
      rw [List.append_assoc]; rfl
    have key := ih (done ++ [e]) (renStep old new acc e) (by rw [hassoc]; exact hn)
      (fun x hx => hnd x (List.mem_cons_of_mem _ hx))
      (renStep_inv old new root done l' e acc hn (hnd e List.mem_cons_self) inv)
    rw [hassoc] at key
    exact key

/-- the invariant at the end of the loop -/
theorem renameRefs_inv (rs : List (Bytes × List Nat)) (root : Items) (old new : Bytes)
    (hn : keysNodup rs) (hne : refsNonempty rs)
    (hnd : ∀ e ∈ rs, ∀ s, pathSuffix old e.1 = some s → pathSuffix old (new ++ s) = none) :
    RInv old new root rs [] (renameRefs rs root old new) := by
  rw [renameRefs_eq]
  have h := foldl_renStep_inv old new root rs [] (rs, root) (by rw [List.nil_append]; exact hn) hnd
    ⟨hn, hne, fun e he _ => he, fun q id => by rw [csum_nil, Nat.zero_add]; exact refsGet_count_csum rs hn q id, rfl⟩
  rw [List.nil_append] at h
  exact h

/-! ### MAIN -/

theorem renameRefs_keysNodup (rs : List (Bytes × List Nat)) (root : Items) (old new : Bytes)
    (hn : keysNodup rs) (hne : refsNonempty rs)
    (hnd : ∀ e ∈ rs, ∀ s, pathSuffix old e.1 = some s → pathSuffix old (new ++ s) = none) :
    keysNodup (renameRefs rs root old new).1 :=
  (renameRefs_inv rs root old new hn hne hnd).nd

theorem renameRefs_nonempty (rs : List (Bytes × List Nat)) (root : Items) (old new : Bytes)
    (hn : keysNodup rs) (hne : refsNonempty rs)
    (hnd : ∀ e ∈ rs, ∀ s, pathSuffix old e.1 = some s → pathSuffix old (new ++ s) = none) :
    refsNonempty (renameRefs rs root old new).1 :=
  (renameRefs_inv rs root old new hn hne hnd).ne

/-- the map afterwards: the referrers of `q` are the referrers of all old keys that are rewritten to `q` -/
theorem renameRefs_count (rs : List (Bytes × List Nat)) (root : Items) (old new : Bytes)
    (hn : keysNodup rs) (hne : refsNonempty rs)
    (hnd : ∀ e ∈ rs, ∀ s, pathSuffix old e.1 = some s → pathSuffix old (new ++ s) = none) (q : Bytes) (id : Nat) :
    (refsGet (renameRefs rs root old new).1 q).count id =
      ((rs.filter fun e => rekey old new e.1 == q).map fun e => e.2.count id).sum := by
  have h := (renameRefs_inv rs root old new hn hne hnd).cnt q id
  rw [csum_nil, Nat.add_zero] at h
  exact h

/-- the tree afterwards: the referrers of every moved ORIGINAL entry get the rewritten key as their text, in snapshot
order -/
theorem renameRefs_tree (rs : List (Bytes × List Nat)) (root : Items) (old new : Bytes)
    (hn : keysNodup rs) (hne : refsNonempty rs)
    (hnd : ∀ e ∈ rs, ∀ s, pathSuffix old e.1 = some s → pathSuffix old (new ++ s) = none) :
    (renameRefs rs root old new).2 =
      (movedRefs old rs).foldl (fun t e => setRefTexts t e.2 (rekey old new e.1)) root :=
  (renameRefs_inv rs root old new hn hne hnd).tree

/-! ### the hypotheses are satisfiable and the statement is meaningful

map "/a" ↦ [1], "/a/x" ↦ [2], "/a1" ↦ [3], "/b" ↦ [4]; old = "/a", new = "/b" ('/' = 47, 'a' = 97, 'b' = 98, 'x' = 120,
'1' = 49): "/a" is merged into the existing (dangling) key "/b", "/a/x" becomes the new key "/b/x", "/a1" (which continues
"/a" without a '/') stays -/

/-- the hypotheses hold for the example -/
example :
    let rs : List (Bytes × List Nat) := [([47, 97], [1]), ([47, 97, 47, 120], [2]), ([47, 97, 49], [3]), ([47, 98], [4])]
    (rs.map (·.1)).Nodup ∧ (∀ e ∈ rs, e.2 ≠ []) ∧
    ∀ e ∈ rs, ∀ s, pathSuffix [47, 97] e.1 = some s → pathSuffix [47, 97] ([47, 98] ++ s) = none := by
  refine ⟨by decide, by decide, ?_⟩
  intro e he s hs
  simp only [List.mem_cons, List.mem_nil_iff, or_false] at he
  rcases he with rfl | rfl | rfl | rfl
  · have : s = [] := by
      have h : pathSuffix [47, 97] [47, 97] = some [] := by decide
      rw [h] at hs; exact (Option.some.inj hs).symm
    subst this; decide
  · have : s = [47, 120] := by
      have h : pathSuffix [47, 97] [47, 97, 47, 120] = some [47, 120] := by decide
      rw [h] at hs; exact (Option.some.inj hs).symm
    subst this; decide
  · have h : pathSuffix [47, 97] [47, 97, 49] = none := by decide
    rw [h] at hs; cases hs
  · have h : pathSuffix [47, 97] [47, 98] = none := by decide
    rw [h] at hs; cases hs

/-- the merged result for the example -/
example :
    (renameRefs [([47, 97], [1]), ([47, 97, 47, 120], [2]), ([47, 97, 49], [3]), ([47, 98], [4])] .nil [47, 97] [47, 98]).1 =
      [([47, 97, 49], [3]), ([47, 98], [4, 1]), ([47, 98, 47, 120], [2])] := by
  decide

/-- the same through the lookup: "/b" holds the old list of "/b" followed by the list moved from "/a" -/
example :
    let r := (renameRefs [([47, 97], [1]), ([47, 97, 47, 120], [2]), ([47, 97, 49], [3]), ([47, 98], [4])] .nil
      [47, 97] [47, 98]).1
    refsGet r [47, 98] = [4, 1] ∧ refsGet r [47, 98, 47, 120] = [2] ∧ refsGet r [47, 97, 49] = [3] ∧
    refsGet r [47, 97] = [] ∧ refsGet r [47, 97, 47, 120] = [] := by
  decide

/-- `hnd` is needed: with old = "/a", new = "/a/b" and the map "/a" ↦ [1], "/a/b" ↦ [2] the list moved onto "/a/b" is moved a
second time (everything ends under "/a/b/b"), whereas `rekey` sends "/a" to "/a/b" -/
example :
    (renameRefs [([47, 97], [1]), ([47, 97, 47, 98], [2])] .nil [47, 97] [47, 97, 47, 98]).1 =
      [([47, 97, 47, 98, 47, 98], [2, 1])] ∧
    rekey [47, 97] [47, 97, 47, 98] [47, 97] = [47, 97, 47, 98] := by
  decide

end AV.W
