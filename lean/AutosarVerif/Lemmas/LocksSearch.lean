/-
C15: the exhaustive deadlock search `Locks.search` / `deadlockSearch` / `noDeadlock` means what its name says.

* `search_sound`      : a reported state is reachable and is a deadlock (any fuel, any worklist of reachable states);
* `search_complete`   : the answer `(none, true)` comes with a CLOSED visited set (contains the old visited states and
                        the worklist, contains no deadlock, closed under `successors`);
* `deadlockSearch_sound`, `noDeadlock_complete`, `noDeadlock_progress`, the trichotomy `deadlockSearch_cases`,
  and the consistency with the ordered discipline (`ordered_search_none`, `ordered_noDeadlock_iff`).
-/
import AutosarVerif.Lemmas.LocksOrder

namespace AV.Locks

/-! ### state equality as the search uses it -/

/-- `seen.contains s` of the search is list membership (the `BEq` on `Sys` is lawful) -/
theorem seen_contains_iff (seen : List Sys) (s : Sys) : seen.contains s = true ↔ s ∈ seen :=
  List.contains_iff_mem

/-! ### steps and successors -/

theorem stepTh_lt (s s' : Sys) (i : Nat) (h : stepTh s i = some s') : i < s.length := by
  unfold stepTh at h
  cases hg : s[i]? with
  | none => simp [hg] at h
  | some t => exact (List.getElem?_eq_some_iff.mp hg).1

/-- `successors s` is exactly the set of states some thread can step to -/
theorem mem_successors (s s' : Sys) : s' ∈ successors s ↔ ∃ i, stepTh s i = some s' := by
  simp only [successors, List.mem_filterMap, List.mem_range]
  constructor
  · rintro ⟨i, _, h⟩; exact ⟨i, h⟩
  · rintro ⟨i, h⟩; exact ⟨i, stepTh_lt s s' i h, h⟩

theorem reach_successors (ps : List Prog) (s s' : Sys) (hr : Reach ps s) (h : s' ∈ successors s) : Reach ps s' := by
  obtain ⟨i, hi⟩ := (mem_successors s s').mp h
  exact Reach.step s s' i hr hi

/-- a state is a deadlock iff it is not finished and no thread can step -/
theorem isDeadlock_iff (s : Sys) : isDeadlock s = true ↔ finished s = false ∧ ∀ i, stepTh s i = none := by
  simp only [isDeadlock, Bool.and_eq_true, Bool.not_eq_true', List.isEmpty_iff]
  constructor
  · rintro ⟨hf, he⟩
    refine ⟨hf, fun i => ?_⟩
    cases hs : stepTh s i with
    | none => rfl
    | some s' =>
      have : s' ∈ successors s := (mem_successors s s').mpr ⟨i, hs⟩
      rw [he] at this; simp at this
  · rintro ⟨hf, hn⟩
    refine ⟨hf, ?_⟩
    cases hsucc : successors s with
    | nil => rfl
    | cons a as =>
      have : a ∈ successors s := by rw [hsucc]; simp
      obtain ⟨i, hi⟩ := (mem_successors s a).mp this
      rw [hn i] at hi; cases hi

/-- not a deadlock: finished, or some thread can step -/
theorem not_isDeadlock_iff (s : Sys) : isDeadlock s = false ↔ finished s = true ∨ ∃ i s', stepTh s i = some s' := by
  constructor
  · intro h
    cases hf : finished s with
    | true => exact Or.inl rfl
    | false =>
      right
      cases hsucc : successors s with
      | nil => simp [isDeadlock, hf, hsucc] at h
      | cons a as =>
        have : a ∈ successors s := by rw [hsucc]; simp
        obtain ⟨i, hi⟩ := (mem_successors s a).mp this
        exact ⟨i, a, hi⟩
  · intro h
    cases hd : isDeadlock s with
    | false => rfl
    | true =>
      obtain ⟨hf, hn⟩ := (isDeadlock_iff s).mp hd
      rcases h with h | ⟨i, s', h⟩
      · rw [h] at hf; cases hf
      · rw [hn i] at h; cases h

/-! ### the search, for any fuel -/

/-- the search never reports a witness together with "not exhaustive" -/
theorem search_some_flag (fuel : Nat) (work seen : List Sys) (s : Sys) (b : Bool)
    (h : search fuel work seen = (some s, b)) : b = true := by
  fun_induction search fuel work seen with
  | case1 work seen => simp at h
  | case2 fuel seen => simp at h
  | case3 fuel s0 work seen hc ih => exact ih h
  | case4 fuel s0 work seen hc hd => simp at h; exact h.2
  | case5 fuel s0 work seen hc hd ih => exact ih h

/-- **soundness, general form**: if every state on the worklist is reachable, a reported state is reachable and a deadlock -/
theorem search_sound (ps : List Prog) (fuel : Nat) (work seen : List Sys) (s : Sys) (b : Bool)
    (hw : ∀ w, w ∈ work → Reach ps w)
    (h : search fuel work seen = (some s, b)) : Reach ps s ∧ isDeadlock s = true := by
  fun_induction search fuel work seen with
  | case1 work seen => simp at h
  | case2 fuel seen => simp at h
  | case3 fuel s0 work seen hc ih =>
    exact ih (fun w hwm => hw w (List.mem_cons_of_mem _ hwm)) h
  | case4 fuel s0 work seen hc hd =>
    simp at h
    obtain ⟨rfl, _⟩ := h
    exact ⟨hw _ (by simp), hd⟩
  | case5 fuel s0 work seen hc hd ih =>
    refine ih ?_ h
    intro w hwm
    rcases List.mem_append.mp hwm with hwm | hwm
    · exact reach_successors ps s0 w (hw s0 (by simp)) hwm
    · exact hw w (List.mem_cons_of_mem _ hwm)

/-- the worklist invariant: every visited state is no deadlock, and each of its successors is visited or on the worklist -/
def WorkInv (work seen : List Sys) : Prop :=
  ∀ s, s ∈ seen → isDeadlock s = false ∧ ∀ s', s' ∈ successors s → s' ∈ seen ∨ s' ∈ work

/-- a set of states that contains no deadlock and is closed under steps -/
def Closed (S : List Sys) : Prop :=
  ∀ s, s ∈ S → isDeadlock s = false ∧ ∀ s', s' ∈ successors s → s' ∈ S

/-- **completeness, general form**: the answer `(none, true)` under the worklist invariant yields a closed set of
non-deadlock states that contains the visited states and the worklist -/
theorem search_complete (fuel : Nat) (work seen : List Sys)
    (hinv : WorkInv work seen)
    (h : search fuel work seen = (none, true)) :
    ∃ S : List Sys, (∀ s, s ∈ seen → s ∈ S) ∧ (∀ s, s ∈ work → s ∈ S) ∧ Closed S := by
  fun_induction search fuel work seen with
  | case1 work seen =>
    simp only [Prod.mk.injEq, true_and, List.isEmpty_iff] at h
    subst h
    refine ⟨seen, fun s hs => hs, by simp, ?_⟩
    intro s hs
    refine ⟨(hinv s hs).1, fun s' hs' => ?_⟩
    rcases (hinv s hs).2 s' hs' with h1 | h1
    · exact h1
    · simp at h1
  | case2 fuel seen =>
    refine ⟨seen, fun s hs => hs, by simp, ?_⟩
    intro s hs
    refine ⟨(hinv s hs).1, fun s' hs' => ?_⟩
    rcases (hinv s hs).2 s' hs' with h1 | h1
    · exact h1
    · simp at h1
  | case3 fuel s0 work seen hc ih =>
    have hmem : s0 ∈ seen := (seen_contains_iff seen s0).mp hc
    have hinv' : WorkInv work seen := by
      intro s hs
      refine ⟨(hinv s hs).1, fun s' hs' => ?_⟩
      rcases (hinv s hs).2 s' hs' with h1 | h1
      · exact Or.inl h1
      · rcases List.mem_cons.mp h1 with rfl | h1
        · exact Or.inl hmem
        · exact Or.inr h1
    obtain ⟨S, h1, h2, h3⟩ := ih hinv' h
    refine ⟨S, h1, ?_, h3⟩
    intro s hs
    rcases List.mem_cons.mp hs with rfl | hs
    · exact h1 _ hmem
    · exact h2 s hs
  | case4 fuel s0 work seen hc hd => simp at h
  | case5 fuel s0 work seen hc hd ih =>
    have hd' : isDeadlock s0 = false := by simpa using hd
    have hinv' : WorkInv (successors s0 ++ work) (s0 :: seen) := by
      intro s hs
      rcases List.mem_cons.mp hs with rfl | hs
      · exact ⟨hd', fun s' hs' => Or.inr (List.mem_append_left _ hs')⟩
      · refine ⟨(hinv s hs).1, fun s' hs' => ?_⟩
        rcases (hinv s hs).2 s' hs' with h1 | h1
        · exact Or.inl (List.mem_cons_of_mem _ h1)
        · rcases List.mem_cons.mp h1 with rfl | h1
          · exact Or.inl (by simp)
          · exact Or.inr (List.mem_append_right _ h1)
    obtain ⟨S, h1, h2, h3⟩ := ih hinv' h
    refine ⟨S, fun s hs => h1 s (List.mem_cons_of_mem _ hs), ?_, h3⟩
    intro s hs
    rcases List.mem_cons.mp hs with rfl | hs
    · exact h1 _ (by simp)
    · exact h2 s (List.mem_append_right _ hs)

/-- a closed set that contains the initial state contains every reachable state -/
theorem reach_mem_closed (ps : List Prog) (S : List Sys) (hinit : initSys ps ∈ S) (hS : Closed S)
    (s : Sys) (hr : Reach ps s) : s ∈ S := by
  induction hr with
  | init => exact hinit
  | step s s' i _ hstep ih => exact (hS s ih).2 s' ((mem_successors s s').mpr ⟨i, hstep⟩)

/-- soundness and completeness of the search from the initial state, for ANY fuel -/
theorem search_init_sound (ps : List Prog) (fuel : Nat) (s : Sys) (b : Bool)
    (h : search fuel [initSys ps] [] = (some s, b)) : Reach ps s ∧ isDeadlock s = true ∧ b = true := by
  have h1 := search_sound ps fuel [initSys ps] [] s b (by
    intro w hw
    simp only [List.mem_singleton] at hw
    subst hw
    exact Reach.init) h
  exact ⟨h1.1, h1.2, search_some_flag fuel _ _ s b h⟩

theorem search_init_complete (ps : List Prog) (fuel : Nat)
    (h : search fuel [initSys ps] [] = (none, true)) (s : Sys) (hr : Reach ps s) : isDeadlock s = false := by
  obtain ⟨S, _, h2, h3⟩ := search_complete fuel [initSys ps] [] (by intro s hs; simp at hs) h
  exact (h3 s (reach_mem_closed ps S (h2 _ (by simp)) h3 s hr)).1

/-! ### the statements about `deadlockSearch` / `noDeadlock` -/

/-- **(1) soundness of a found deadlock** -/
theorem deadlockSearch_sound (ps : List Prog) (s : Sys) (b : Bool) (h : deadlockSearch ps = (some s, b)) :
    Reach ps s ∧ isDeadlock s = true :=
  let h1 := search_init_sound ps 200000 s b h
  ⟨h1.1, h1.2.1⟩

/-- a found deadlock always comes with the flag `true` -/
theorem deadlockSearch_some_flag (ps : List Prog) (s : Sys) (b : Bool) (h : deadlockSearch ps = (some s, b)) :
    b = true := (search_init_sound ps 200000 s b h).2.2

theorem noDeadlock_eq_true_iff (ps : List Prog) : noDeadlock ps = true ↔ deadlockSearch ps = (none, true) := by
  unfold noDeadlock
  split
  · rename_i h; simp [h]
  · rename_i h
    constructor
    · intro h'; cases h'
    · intro h'; exact absurd h' h

/-- **(2) completeness of a clean answer**: no reachable state is a deadlock -/
theorem noDeadlock_complete (ps : List Prog) (h : noDeadlock ps = true) (s : Sys) (hr : Reach ps s) :
    isDeadlock s = false :=
  search_init_complete ps 200000 ((noDeadlock_eq_true_iff ps).mp h) s hr

/-- **(3b) in the words of the property**: from every reachable state that is not finished some thread can step
(every call can eventually proceed) -/
theorem noDeadlock_progress (ps : List Prog) (h : noDeadlock ps = true) (s : Sys) (hr : Reach ps s)
    (hnf : finished s = false) : ∃ i s', stepTh s i = some s' := by
  rcases (not_isDeadlock_iff s).mp (noDeadlock_complete ps h s hr) with hf | hstep
  · rw [hf] at hnf; cases hnf
  · exact hstep

/-- the three possible answers of the search and what each of them means; `(some _, false)` never occurs,
`(none, false)` (fuel exhausted with a non-empty worklist) says nothing -/
theorem deadlockSearch_cases (ps : List Prog) :
    (∃ s, deadlockSearch ps = (some s, true) ∧ Reach ps s ∧ isDeadlock s = true)
    ∨ (deadlockSearch ps = (none, true) ∧ noDeadlock ps = true ∧ ∀ s, Reach ps s → isDeadlock s = false)
    ∨ (deadlockSearch ps = (none, false) ∧ noDeadlock ps = false) := by
  rcases hd : deadlockSearch ps with ⟨o, b⟩
  cases o with
  | some s =>
    have hb := deadlockSearch_some_flag ps s b hd
    subst hb
    exact Or.inl ⟨s, rfl, deadlockSearch_sound ps s true hd⟩
  | none =>
    cases b with
    | true =>
      have hn : noDeadlock ps = true := (noDeadlock_eq_true_iff ps).mpr hd
      exact Or.inr (Or.inl ⟨rfl, hn, noDeadlock_complete ps hn⟩)
    | false =>
      refine Or.inr (Or.inr ⟨rfl, ?_⟩)
      cases hn : noDeadlock ps with
      | false => rfl
      | true => rw [(noDeadlock_eq_true_iff ps).mp hn] at hd; cases hd

/-- the search decides reachability of a deadlock whenever it is exhaustive -/
theorem deadlockSearch_exhaustive_iff (ps : List Prog) (hex : (deadlockSearch ps).2 = true) :
    (deadlockSearch ps).1.isSome = true ↔ ∃ s, Reach ps s ∧ isDeadlock s = true := by
  rcases deadlockSearch_cases ps with ⟨s, h1, h2, h3⟩ | ⟨h1, _, h3⟩ | ⟨h1, _⟩
  · rw [h1]; simp only [Option.isSome_some, true_iff]; exact ⟨s, h2, h3⟩
  · rw [h1]; simp only [Option.isSome_none, Bool.false_eq_true, false_iff]
    rintro ⟨s, hr, hd⟩
    rw [h3 s hr] at hd; cases hd
  · rw [h1] at hex; cases hex

/-- a reported witness, in the form the generated checks use -/
theorem deadlockSearch_isSome (ps : List Prog) (h : (deadlockSearch ps).1.isSome = true) :
    ∃ s, Reach ps s ∧ isDeadlock s = true := by
  rcases hd : deadlockSearch ps with ⟨o, b⟩
  rw [hd] at h
  cases o with
  | none => simp at h
  | some s => exact ⟨s, deadlockSearch_sound ps s b hd⟩

/-! ### (4) the fuel

`fuel` counts worklist POPS (one per loop iteration, duplicates included), not visited states.  A conclusive answer
(flag `true`) does not depend on the fuel once the fuel suffices (`search_fuel_mono`); when the fuel runs out with a
non-empty worklist the answer is `(none, false)`, `noDeadlock` is `false` and `noDeadlock_complete` says nothing (it
is never wrong: `deadlockSearch_cases`).  Pops needed for `k` threads with `n` always-enabled events each:
`1 + k·n·(n+1)^(k-1)`; so 200000 suffices for two programs of up to 315 events, but is exhausted by e.g. ten threads
of two events each (`1 + 10·2·3^9 = 393661` pops) — such inputs get the answer "inconclusive", not a wrong one. -/

theorem search_nil (fuel : Nat) (seen : List Sys) : search fuel [] seen = (none, true) := by
  cases fuel <;> simp [search]

/-- an exhaustive answer is stable under more fuel -/
theorem search_fuel_mono (fuel k : Nat) (work seen : List Sys) (h : (search fuel work seen).2 = true) :
    search (fuel + k) work seen = search fuel work seen := by
  fun_induction search fuel work seen with
  | case1 work seen =>
    simp only [List.isEmpty_iff] at h
    subst h
    simp [search_nil]
  | case2 fuel seen => simp [search_nil]
  | case3 fuel s0 work seen hc ih =>
    have : fuel + 1 + k = (fuel + k) + 1 := by omega
    rw [this, search, if_pos hc]
    exact ih h
  | case4 fuel s0 work seen hc hd =>
    have : fuel + 1 + k = (fuel + k) + 1 := by omega
    rw [this, search, if_neg hc, if_pos hd]
  | case5 fuel s0 work seen hc hd ih =>
    have : fuel + 1 + k = (fuel + k) + 1 := by omega
    rw [this, search, if_neg hc, if_neg hd]
    exact ih h

/-- a conclusive search with ANY smaller fuel is the answer of `deadlockSearch` -/
theorem deadlockSearch_eq_of_fuel (ps : List Prog) (fuel : Nat) (hf : fuel ≤ 200000)
    (h : (search fuel [initSys ps] []).2 = true) : deadlockSearch ps = search fuel [initSys ps] [] := by
  have := search_fuel_mono fuel (200000 - fuel) [initSys ps] [] h
  have he : fuel + (200000 - fuel) = 200000 := by omega
  rw [he] at this
  exact this

/-- number of transitions (pairs state / enabled thread) out of the states of a list -/
def transitions (S : List Sys) : Nat := (S.map fun s => (successors s).length).sum

/-- **what a clean answer costs**: the answer `(none, true)` is produced by visiting a duplicate-free list `new` of
new states, all reachable if the worklist was; `new ++ seen` is closed, and every worklist entry and every transition
out of a new state has cost one unit of fuel -/
theorem search_complete_exact (ps : List Prog) (fuel : Nat) (work seen : List Sys)
    (hinv : WorkInv work seen) (hw : ∀ w, w ∈ work → Reach ps w)
    (h : search fuel work seen = (none, true)) :
    ∃ new : List Sys, new.Nodup ∧ (∀ s, s ∈ new → s ∉ seen ∧ Reach ps s) ∧ (∀ s, s ∈ work → s ∈ new ++ seen)
      ∧ Closed (new ++ seen) ∧ work.length + transitions new ≤ fuel := by
  fun_induction search fuel work seen with
  | case1 work seen =>
    simp only [Prod.mk.injEq, true_and, List.isEmpty_iff] at h
    subst h
    refine ⟨[], List.nodup_nil, by simp, by simp, ?_, by simp [transitions]⟩
    intro s hs
    simp only [List.nil_append] at hs ⊢
    refine ⟨(hinv s hs).1, fun s' hs' => ?_⟩
    rcases (hinv s hs).2 s' hs' with h1 | h1
    · exact h1
    · simp at h1
  | case2 fuel seen =>
    refine ⟨[], List.nodup_nil, by simp, by simp, ?_, by simp [transitions]⟩
    intro s hs
    simp only [List.nil_append] at hs ⊢
    refine ⟨(hinv s hs).1, fun s' hs' => ?_⟩
    rcases (hinv s hs).2 s' hs' with h1 | h1
    · exact h1
    · simp at h1
  | case3 fuel s0 work seen hc ih =>
    have hmem : s0 ∈ seen := (seen_contains_iff seen s0).mp hc
    have hinv' : WorkInv work seen := by
      intro s hs
      refine ⟨(hinv s hs).1, fun s' hs' => ?_⟩
      rcases (hinv s hs).2 s' hs' with h1 | h1
      · exact Or.inl h1
      · rcases List.mem_cons.mp h1 with rfl | h1
        · exact Or.inl hmem
        · exact Or.inr h1
    obtain ⟨new, h1, h2, h3, h4, h5⟩ := ih hinv' (fun w hwm => hw w (List.mem_cons_of_mem _ hwm)) h
    refine ⟨new, h1, h2, ?_, h4, by simp only [List.length_cons]; omega⟩
    intro s hs
    rcases List.mem_cons.mp hs with rfl | hs
    · exact List.mem_append_right _ hmem
    · exact h3 s hs
  | case4 fuel s0 work seen hc hd => simp at h
  | case5 fuel s0 work seen hc hd ih =>
    have hd' : isDeadlock s0 = false := by simpa using hd
    have hnot : s0 ∉ seen := fun hm => hc ((seen_contains_iff seen s0).mpr hm)
    have hr0 : Reach ps s0 := hw s0 (by simp)
    have hinv' : WorkInv (successors s0 ++ work) (s0 :: seen) := by
      intro s hs
      rcases List.mem_cons.mp hs with rfl | hs
      · exact ⟨hd', fun s' hs' => Or.inr (List.mem_append_left _ hs')⟩
      · refine ⟨(hinv s hs).1, fun s' hs' => ?_⟩
        rcases (hinv s hs).2 s' hs' with h1 | h1
        · exact Or.inl (List.mem_cons_of_mem _ h1)
        · rcases List.mem_cons.mp h1 with rfl | h1
          · exact Or.inl (by simp)
          · exact Or.inr (List.mem_append_right _ h1)
    have hw' : ∀ w, w ∈ successors s0 ++ work → Reach ps w := by
      intro w hwm
      rcases List.mem_append.mp hwm with hwm | hwm
      · exact reach_successors ps s0 w hr0 hwm
      · exact hw w (List.mem_cons_of_mem _ hwm)
    obtain ⟨new, h1, h2, h3, h4, h5⟩ := ih hinv' hw' h
    have happ : (new ++ [s0]) ++ seen = new ++ s0 :: seen := by simp
    refine ⟨new ++ [s0], ?_, ?_, ?_, ?_, ?_⟩
    · refine List.nodup_append.mpr ⟨h1, by simp, ?_⟩
      intro a ha b hb
      simp only [List.mem_singleton] at hb
      subst hb
      intro hab
      subst hab
      exact (h2 a ha).1 (by simp)
    · intro s hs
      rcases List.mem_append.mp hs with hs | hs
      · exact ⟨fun hm => (h2 s hs).1 (List.mem_cons_of_mem _ hm), (h2 s hs).2⟩
      · simp only [List.mem_singleton] at hs
        subst hs
        exact ⟨hnot, hr0⟩
    · intro s hs
      rw [happ]
      rcases List.mem_cons.mp hs with rfl | hs
      · simp
      · exact h3 s (List.mem_append_right _ hs)
    · rw [happ]; exact h4
    · simp only [transitions, List.length_append, List.map_append, List.sum_append, List.map_cons, List.map_nil,
        List.sum_cons, List.sum_nil, List.length_cons] at h5 ⊢
      omega

/-- **necessary fuel**: a clean answer from the initial state lists the reachable states exactly once each, and the
fuel is at least one plus the number of transitions of the reachable graph -/
theorem search_init_exact (ps : List Prog) (fuel : Nat) (h : search fuel [initSys ps] [] = (none, true)) :
    ∃ S : List Sys, S.Nodup ∧ (∀ s, s ∈ S ↔ Reach ps s) ∧ (∀ s, s ∈ S → isDeadlock s = false)
      ∧ 1 + transitions S ≤ fuel := by
  obtain ⟨S, h1, h2, h3, h4, h5⟩ := search_complete_exact ps fuel [initSys ps] [] (by intro s hs; simp at hs)
    (by
      intro w hw
      simp only [List.mem_singleton] at hw
      subst hw
      exact Reach.init) h
  simp only [List.append_nil] at h3 h4
  refine ⟨S, h1, fun s => ⟨fun hs => (h2 s hs).2, reach_mem_closed ps S (h3 _ (by simp)) h4 s⟩,
    fun s hs => (h4 s hs).1, by simpa using h5⟩

/-- for `noDeadlock`: a clean answer means the reachable graph has fewer than 200000 transitions -/
theorem noDeadlock_exact (ps : List Prog) (h : noDeadlock ps = true) :
    ∃ S : List Sys, S.Nodup ∧ (∀ s, s ∈ S ↔ Reach ps s) ∧ (∀ s, s ∈ S → isDeadlock s = false)
      ∧ 1 + transitions S ≤ 200000 :=
  search_init_exact ps 200000 ((noDeadlock_eq_true_iff ps).mp h)

/-! ### the examples of `Properties/C15.lean` as instances -/

section Examples

private def exReader : Prog := [.acq 0 .read, .acq 1 .read, .rel 1 .read, .rel 0 .read]
private def exWriterUp : Prog := [.acq 1 .write, .acq 0 .write, .rel 0 .write, .rel 1 .write]
private def exTiny (l : Nat) : Prog := [.acq l .read, .rel l .read]

/-- two readers: the kernel-evaluated check now MEANS that no interleaving reaches a deadlock … -/
example : ∀ s, Reach [exReader, exReader] s → isDeadlock s = false :=
  noDeadlock_complete _ (by decide +kernel)

/-- … and that from every reachable unfinished state some thread can step -/
example : ∀ s, Reach [exReader, exReader] s → finished s = false → ∃ i s', stepTh s i = some s' :=
  noDeadlock_progress _ (by decide +kernel)

/-- writer (element → model) against reader (model → element): a deadlock is REACHABLE -/
example : ∃ s, Reach [exWriterUp, exReader] s ∧ isDeadlock s = true :=
  deadlockSearch_isSome _ (by decide +kernel)

/-- the fuel counts pops: two threads of two events have 9 states and need 13 pops -/
example : search 12 [initSys [exTiny 0, exTiny 1]] [] = (none, false) := by decide +kernel
example : search 13 [initSys [exTiny 0, exTiny 1]] [] = (none, true) := by decide +kernel
example : deadlockSearch [exTiny 0, exTiny 1] = (none, true) :=
  (deadlockSearch_eq_of_fuel _ 13 (by decide) (by decide +kernel)).trans (by decide +kernel)

end Examples

/-! ### (3a) consistency with the ordered discipline -/

/-- for programs that follow the ordered discipline the search never reports a deadlock … -/
theorem ordered_search_none (ps : List Prog)
    (hord : ∀ p, p ∈ ps → ordered p = true ∧ endsEmpty p [] = true) : (deadlockSearch ps).1 = none := by
  rcases hd : deadlockSearch ps with ⟨o, b⟩
  cases o with
  | none => rfl
  | some s =>
    have h1 := deadlockSearch_sound ps s b hd
    rw [ordered_no_deadlock ps hord s h1.1] at h1
    cases h1.2

/-- … so `noDeadlock` answers `true` exactly when the search was exhaustive, and what it then says
(`noDeadlock_complete`) is the conclusion of `ordered_no_deadlock` -/
theorem ordered_noDeadlock_iff (ps : List Prog)
    (hord : ∀ p, p ∈ ps → ordered p = true ∧ endsEmpty p [] = true) :
    noDeadlock ps = true ↔ (deadlockSearch ps).2 = true := by
  have h1 := ordered_search_none ps hord
  rw [noDeadlock_eq_true_iff]
  rcases hd : deadlockSearch ps with ⟨o, b⟩
  rw [hd] at h1
  simp only at h1
  subst h1
  simp

theorem ordered_search_agrees (ps : List Prog)
    (hord : ∀ p, p ∈ ps → ordered p = true ∧ endsEmpty p [] = true) :
    (deadlockSearch ps = (none, true) ∨ deadlockSearch ps = (none, false))
    ∧ (noDeadlock ps = true → ∀ s, Reach ps s → isDeadlock s = false)
    ∧ (∀ s, Reach ps s → isDeadlock s = false) :=
  ⟨by
    have h1 := ordered_search_none ps hord
    rcases hd : deadlockSearch ps with ⟨o, b⟩
    rw [hd] at h1
    simp only at h1
    subst h1
    cases b <;> simp,
   noDeadlock_complete ps, ordered_no_deadlock ps hord⟩

end AV.Locks
