/-
The fourth alphabet: the guarded steps of `ReachY` (`Lemmas/StepY.lean`: core operations, `set_item_name`, `sort`,
`set_reference_target`, move inside one model, copy) together with `move_element_here[_at]` BETWEEN two models
(`opMoveAny` = `opMove`, and `opMoveFull` = `ElementRaw::move_element_full` when source and destination lie in different models),
as a guarded step (`MoveGuard` for the part inside one model, `MoveFullGuard` for the cross-model part; `Lemmas/MoveFull.lean`).

* `reachZ_ginv`: in every reachable state the full invariant `GInv` holds;
* `reachZ_sep`: … and the element ids of different models are apart (`SepInv`);
* `reachY_reachZ`: the histories of the third alphabet are histories of the fourth;
* `reachZ_moveAny_err_frame`: a refused move (of either kind) leaves the state unchanged;
* `reachZ_moveFull_c06`: C06, last sentence, for a cross-model move issued in any reachable state.
-/
import AutosarVerif.Lemmas.MoveFull

namespace AV.W
open Items

section
variable (S : Spec) (V : Env) (vOk : Nat) (rootAttrs : List (Nat × CDv))

/-- the states reachable from the empty world by guarded steps, cross-model moves included -/
inductive ReachZ : World → Prop
  | empty : ReachZ emptyWorld
  | step (w : World) (op : OpY) : ReachZ w → StepOkY S V vOk w op → ReachZ (applyOpY S V rootAttrs w op).1
  | moveFull (w : World) (p x : Nat) (pos : Option Nat) : ReachZ w → MoveGuard S w p x → MoveFullGuard S w x →
      ReachZ (opMoveAny S V w p x pos).1

variable {S V vOk rootAttrs}

/-- the full invariant and `SepInv` in every reachable state -/
theorem reachZ_ginv_sep (hH : IdxHyp S V vOk) (hR : RefWF S) (hv32 : vOk &&& 0xFFFFFFFF = vOk) {w : World}
    (h : ReachZ S V vOk rootAttrs w) : GInv S vOk w ∧ SepInv w := by
  induction h with
  | empty => exact ⟨ginv_empty S vOk, sepInv_empty⟩
  | step w op _ hop ih => exact ⟨applyOpY_ginv hH hR hv32 w op hop ih.1, applyOpY_sep hH hR hv32 w op hop ih.1 ih.2⟩
  | moveFull w p x pos _ hgd hgf ih => exact opMoveAny_ginv_sep S V vOk hH hR hv32 w p x pos ih.1 ih.2 hgd hgf

/-- **the full invariant in every state reachable by guarded steps of the fourth alphabet** (core operations, rename, sort,
set_reference_target, move inside one model, copy, move between models) -/
theorem reachZ_ginv (hH : IdxHyp S V vOk) (hR : RefWF S) (hv32 : vOk &&& 0xFFFFFFFF = vOk) {w : World}
    (h : ReachZ S V vOk rootAttrs w) : GInv S vOk w :=
  (reachZ_ginv_sep hH hR hv32 h).1

/-- … and the element ids of different models are apart -/
theorem reachZ_sep (hH : IdxHyp S V vOk) (hR : RefWF S) (hv32 : vOk &&& 0xFFFFFFFF = vOk) {w : World}
    (h : ReachZ S V vOk rootAttrs w) : SepInv w :=
  (reachZ_ginv_sep hH hR hv32 h).2

/-- the histories of the third alphabet are histories of the fourth -/
theorem reachY_reachZ {w : World} (h : ReachY S V vOk rootAttrs w) : ReachZ S V vOk rootAttrs w := by
  induction h with
  | empty => exact ReachZ.empty
  | step w op _ hop ih => exact ReachZ.step w op ih hop

/-- a refused move, inside one model or between two models, leaves the state unchanged (in every state) -/
theorem reachZ_moveAny_err_frame (w : World) (p x : Nat) (pos : Option Nat) (h : (opMoveAny S V w p x pos).2 = .err) :
    (opMoveAny S V w p x pos).1 = w :=
  opMoveAny_err_frame S V w p x pos h

/-- **C06, last sentence, in every reachable state** (`opMoveAny_c06` with the invariants discharged) -/
theorem reachZ_moveFull_c06 (hH : IdxHyp S V vOk) (hR : RefWF S) (hv32 : vOk &&& 0xFFFFFFFF = vOk) {w : World}
    (hreach : ReachZ S V vOk rootAttrs w) (p x : Nat) (pos? : Option Nat) (hgf : MoveFullGuard S w x)
    (hun : (opMove S V w p x pos?).2 = .unsupported) (hok : (opMoveAny S V w p x pos?).2 ≠ .err) :
    ∃ kx cx kp cp orig dest, locate w x = some (kx, cx) ∧ locate w p = some (kp, cp) ∧ kx ≠ kp ∧
      itemName S (lastOf cx).1 (lastOf cx).2 = some orig ∧
      dest = pathOfChain S cp ++ 47 ::
        (uniqueName (w.models[kp]!).index (pathOfChain S cp) orig ((w.models[kp]!).index.length + 2) 0).1 ∧
      ∀ t r e, (t, r) ∈ refEntries S (.elem (lastOf cx).1 (lastOf cx).2 .nil) → idxGet (w.models[kx]!).index t = some e →
        e ∈ (Items.elem (lastOf cx).1 (lastOf cx).2 .nil).ids →
        (dest ++ t.drop (pathOfChain S cx).length, r) ∈ refEntries S ((opMoveAny S V w p x pos?).1.models[kp]!).rootItems ∧
          idxGet ((opMoveAny S V w p x pos?).1.models[kp]!).index (dest ++ t.drop (pathOfChain S cx).length) = some e :=
  opMoveAny_c06 S V vOk hH hR hv32 w p x pos? (reachZ_ginv hH hR hv32 hreach) (reachZ_sep hH hR hv32 hreach) hgf hun hok

end
end AV.W
