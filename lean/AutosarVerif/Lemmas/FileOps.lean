/-
C10: "an element is only ever restricted to files that also contain its parent".

`FilesOk pe its`: in the content list `its` of a parent whose effective file set is `pe`, every local file set lies
within the effective set of the parent, recursively.  The theorems show that the file-set operations of the model
(`add_to_file` with its upward propagation `add_to_file_restricted`, the file-set part of `remove_from_file`, removal
of sub-elements) preserve it.
-/
import AutosarVerif.Model.FileOps

namespace AV.W

/-- every local file set is within the effective set of the parent -/
def FilesOk : List Nat → Items → Prop
  | _, .nil => True
  | pe, .text _ r => FilesOk pe r
  | pe, .elem h k r => (∀ g ∈ h.files, g ∈ pe) ∧ FilesOk (effOf pe h) k ∧ FilesOk pe r

theorem effOf_sub (pe : List Nat) (h : Hdr) (hs : ∀ g ∈ h.files, g ∈ pe) : ∀ g ∈ effOf pe h, g ∈ pe := by
  unfold effOf
  split
  · exact fun g hg => hg
  · exact hs

/-- a larger effective set of the parent keeps the invariant -/
theorem FilesOk_mono (its : Items) : ∀ (a b : List Nat), (∀ g ∈ a, g ∈ b) → FilesOk a its → FilesOk b its := by
  induction its with
  | nil => intro _ _ _ _; trivial
  | text _ r ih => intro a b hab h; exact ih a b hab h
  | elem h k r ihk ihr =>
    intro a b hab ⟨h1, h2, h3⟩
    refine ⟨fun g hg => hab g (h1 g hg), ?_, ihr a b hab h3⟩
    apply ihk (effOf a h) (effOf b h) _ h2
    unfold effOf
    split
    · exact hab
    · exact fun g hg => hg

section
variable (S : Spec)

/-- pinning the children that have no set of their own to `pe` itself changes nothing for the invariant, also when the
parent's set grows afterwards -/
theorem FilesOk_pin (pe pe' : List Nat) (hsub : ∀ g ∈ pe, g ∈ pe') (its : Items) (h : FilesOk pe its) :
    FilesOk pe' (its.mapKidHdrs (pin pe)) := by
  induction its with
  | nil => trivial
  | text _ r ih => exact ih h
  | elem hd k r _ ihr =>
    obtain ⟨h1, h2, h3⟩ := h
    unfold Items.mapKidHdrs
    refine ⟨?_, ?_, ihr h3⟩
    · unfold pin
      split
      · exact fun g hg => hsub g hg
      · exact fun g hg => hsub g (h1 g hg)
    · -- the effective set of the child is the same as before
      have he : effOf pe' (pin pe hd) = effOf pe hd ∨ (pe = [] ∧ hd.files = []) := by
        unfold pin effOf
        by_cases hf : hd.files.isEmpty
        · simp only [hf, if_true]
          by_cases hp : pe.isEmpty
          · right
            exact ⟨by simpa using hp, by simpa using hf⟩
          · left; simp [hp]
        · left; simp [hf]
      rcases he with he | ⟨hp, hf⟩
      · rw [he]; exact h2
      · -- nothing is set anywhere above: the children see the empty set before, a larger one after
        have : effOf pe hd = [] := by simp [effOf, hf, hp]
        rw [this] at h2
        exact FilesOk_mono k [] _ (by simp) h2

theorem effOf_with (pe' : List Nat) (hd : Hdr) (X : List Nat) (hne : X.isEmpty = false) :
    effOf pe' { hd with files := X } = X := by simp [effOf, hne]

theorem pin_with (pe : List Nat) (hd : Hdr) (X : List Nat) (hne : X.isEmpty = false) :
    pin pe { hd with files := X } = { hd with files := X } := by simp [pin, hne]

theorem append_single_ne (E : List Nat) (f : Nat) : (E ++ [f]).isEmpty = false := by simp

theorem mem_append_single (E pe : List Nat) (f : Nat) (hE : ∀ g ∈ E, g ∈ pe) : ∀ g ∈ E ++ [f], g ∈ pe ++ [f] := by
  intro g hg
  rcases List.mem_append.mp hg with hg | hg
  · exact List.mem_append_left _ (hE g hg)
  · exact List.mem_append_right _ hg

/-- the node on the path gets the set `E ++ [f]` (`E` its effective set so far); its content `k'` is in order for that set -/
theorem FilesOk_updated (pe : List Nat) (f : Nat) (hd : Hdr) (k' r : Items)
    (hE : ∀ g ∈ effOf pe hd, g ∈ pe) (hk : FilesOk (effOf pe hd ++ [f]) k') (hr : FilesOk pe r) :
    FilesOk (pe ++ [f]) (.elem { hd with files := effOf pe hd ++ [f] } k' r) ∧
    FilesOk (pe ++ [f]) ((Items.elem { hd with files := effOf pe hd ++ [f] } k' r).mapKidHdrs (pin pe)) := by
  have hsub : ∀ g ∈ pe, g ∈ pe ++ [f] := fun g hg => List.mem_append_left _ hg
  have hne := append_single_ne (effOf pe hd) f
  have hfiles := mem_append_single (effOf pe hd) pe f hE
  constructor
  · refine ⟨hfiles, ?_, FilesOk_mono r _ _ hsub hr⟩
    rw [effOf_with _ _ _ hne]; exact hk
  · show FilesOk (pe ++ [f]) (.elem (pin pe { hd with files := effOf pe hd ++ [f] }) k' (r.mapKidHdrs (pin pe)))
    rw [pin_with _ _ _ hne]
    refine ⟨hfiles, ?_, FilesOk_pin pe _ hsub r hr⟩
    rw [effOf_with _ _ _ hne]; exact hk

/-- the main induction: one level of the walk of `add_to_file`.  If the walk stops below or at this level the
invariant holds as before; if it continues, it holds for the parent's set extended by `f` — also after the parent has
pinned its other children. -/
theorem addPath_ok (f : Nat) (its : Items) : ∀ (path : List Nat) (pe : List Nat) (ps : Bool), FilesOk pe its →
    ((addPath S f path pe ps its).2 = false → FilesOk pe (addPath S f path pe ps its).1) ∧
    ((addPath S f path pe ps its).2 = true →
      FilesOk (pe ++ [f]) (addPath S f path pe ps its).1 ∧
      (ps = true → FilesOk (pe ++ [f]) ((addPath S f path pe ps its).1.mapKidHdrs (pin pe)))) := by
  induction its with
  | nil =>
    intro path pe ps _
    cases path <;> simp [addPath, FilesOk, Items.mapKidHdrs]
  | text c r ih =>
    intro path pe ps h
    cases path with
    | nil => simp [addPath]; exact h
    | cons id rest =>
      have := ih (id :: rest) pe ps h
      simpa [addPath, FilesOk, Items.mapKidHdrs] using this
  | elem hd k r ihk ihr =>
    intro path pe ps h
    obtain ⟨h1, h2, h3⟩ := h
    have hsub : ∀ g ∈ pe, g ∈ pe ++ [f] := fun g hg => List.mem_append_left _ hg
    have hE : ∀ g ∈ effOf pe hd, g ∈ pe := effOf_sub pe hd h1
    cases path with
    | nil => simp [addPath]; exact ⟨h1, h2, h3⟩
    | cons id rest =>
      unfold addPath
      by_cases hid : hd.id = id
      · simp only [if_pos hid]
        cases rest with
        | nil =>
          -- the element itself
          dsimp only
          by_cases hc : (effOf pe hd).contains f = true
          · simp only [hc, Bool.false_eq_true, ↓reduceIte]
            exact ⟨fun _ => ⟨h1, h2, h3⟩, fun hx => (by cases hx)⟩
          · simp only [hc, Bool.false_eq_true, ↓reduceIte]
            refine ⟨fun hx => (by cases hx), fun _ => ?_⟩
            have hk : FilesOk (effOf pe hd ++ [f]) k := FilesOk_mono k _ _ (fun g hg => List.mem_append_left _ hg) h2
            have := FilesOk_updated pe f hd k r hE hk h3
            exact ⟨this.1, fun _ => this.2⟩
        | cons id2 rest2 =>
          dsimp only
          have ih1 := ihk (id2 :: rest2) (effOf pe hd) (splittable S hd) h2
          cases hq : (addPath S f (id2 :: rest2) (effOf pe hd) (splittable S hd) k).2
          · -- stopped below
            simp only [Bool.false_eq_true, ↓reduceIte]
            exact ⟨fun _ => ⟨h1, ih1.1 hq, h3⟩, fun hx => (by cases hx)⟩
          · simp only [↓reduceIte]
            obtain ⟨ihA, ihB⟩ := ih1.2 hq
            unfold restrictStep
            dsimp only
            by_cases hc : (effOf pe hd).contains f = true
            · -- this node is in the file already: stop; the sets `E` and `E ++ [f]` have the same members
              simp only [hc, Bool.false_eq_true, ↓reduceIte]
              refine ⟨fun _ => ⟨h1, ?_, h3⟩, fun hx => (by cases hx)⟩
              apply FilesOk_mono _ _ _ _ ihA
              intro g hg
              rcases List.mem_append.mp hg with hg | hg
              · exact hg
              · have : g = f := by simpa using hg
                subst this
                simpa using hc
            · simp only [hc, Bool.false_eq_true, ↓reduceIte]
              refine ⟨fun hx => (by cases hx), fun _ => ?_⟩
              -- the new content of this node
              have hkids' : FilesOk (effOf pe hd ++ [f])
                  (if splittable S hd = true then (addPath S f (id2 :: rest2) (effOf pe hd) (splittable S hd) k).1.mapKidHdrs (pin (effOf pe hd))
                   else (addPath S f (id2 :: rest2) (effOf pe hd) (splittable S hd) k).1) := by
                split
                · rename_i hsp; exact ihB hsp
                · exact ihA
              -- the new header and its effective set
              by_cases hup : (ps || (!hd.files.isEmpty || pe.isEmpty)) = true
              · simp only [hup, ↓reduceIte]
                have := FilesOk_updated pe f hd _ r hE hkids' h3
                exact ⟨this.1, fun _ => this.2⟩
              · -- the node inherits and its parent is not splittable: its set stays empty, the parent's set will grow
                simp only [hup, Bool.false_eq_true, ↓reduceIte]
                have hps : ps = false := by
                  cases ps <;> simp_all
                have hfe : hd.files.isEmpty = true := by
                  cases hfe : hd.files.isEmpty <;> simp_all
                have hE' : effOf pe hd = pe := by simp [effOf, hfe]
                have heff : effOf (pe ++ [f]) hd = pe ++ [f] := by simp [effOf, hfe]
                refine ⟨⟨fun g hg => hsub g (h1 g hg), ?_, FilesOk_mono r _ _ hsub h3⟩, fun hx => ?_⟩
                · have hthis : effOf (pe ++ [f]) hd = effOf pe hd ++ [f] := by rw [heff, hE']
                  rw [hthis]; exact hkids'
                · rw [hps] at hx; cases hx
      · simp only [if_neg hid]
        have := ihr (id :: rest) pe ps h3
        refine ⟨fun hq => ⟨h1, h2, this.1 hq⟩, fun hq => ?_⟩
        obtain ⟨a, b⟩ := this.2 hq
        refine ⟨⟨fun g hg => hsub g (h1 g hg), ?_, a⟩, fun hps => ?_⟩
        · apply FilesOk_mono k _ _ _ h2
          unfold effOf
          split
          · exact hsub
          · exact fun g hg => hg
        · have hthis := FilesOk_pin pe (pe ++ [f]) hsub (.elem hd k .nil) ⟨h1, h2, trivial⟩
          exact ⟨hthis.1, hthis.2.1, b hps⟩

end

/-! ### `remove_from_file` -/

/-- removing `f` from every set of a subtree keeps the invariant relative to the parent's set without `f` -/
theorem FilesOk_dropF (f : Nat) (its : Items) : ∀ pe : List Nat, FilesOk pe its →
    FilesOk (pe.filter (· != f)) (its.mapHdrs (dropF f)) := by
  induction its with
  | nil => intro _ _; trivial
  | text _ r ih => intro pe h; exact ih pe h
  | elem hd k r ihk ihr =>
    intro pe ⟨h1, h2, h3⟩
    unfold Items.mapHdrs
    refine ⟨?_, ?_, ihr pe h3⟩
    · intro g hg
      simp only [dropF, List.mem_filter] at hg ⊢
      exact ⟨h1 g hg.1, hg.2⟩
    · have := ihk (effOf pe hd) h2
      apply FilesOk_mono _ _ _ _ this
      intro g hg
      simp only [List.mem_filter] at hg
      cases hfe : hd.files.isEmpty
      · -- own set
        have hE : effOf pe hd = hd.files := by simp [effOf, hfe]
        rw [hE] at hg
        have hmem : g ∈ hd.files.filter (· != f) := by simp [hg.1, hg.2]
        cases hfe' : (hd.files.filter (· != f)).isEmpty
        · simp only [effOf, dropF, hfe']
          exact hmem
        · have : hd.files.filter (· != f) = [] := by simpa using hfe'
          rw [this] at hmem; cases hmem
      · -- inherits before and after
        have hE : effOf pe hd = pe := by simp [effOf, hfe]
        rw [hE] at hg
        have h0 : hd.files = [] := by simpa using hfe
        simp [effOf, dropF, h0, hg.1, hg.2]

theorem rmAt_ok (f x : Nat) (its : Items) : ∀ pe : List Nat, FilesOk pe its → FilesOk pe (rmAt f x pe its) := by
  induction its with
  | nil => intro _ _; trivial
  | text _ r ih => intro pe h; exact ih pe h
  | elem hd k r ihk ihr =>
    intro pe ⟨h1, h2, h3⟩
    unfold rmAt
    have hE : ∀ g ∈ effOf pe hd, g ∈ pe := effOf_sub pe hd h1
    by_cases hid : hd.id = x
    · rw [if_pos hid]
      refine ⟨?_, ?_, ihr pe h3⟩
      · intro g hg
        simp only [List.mem_filter] at hg
        exact hE g hg.1
      · have hd' := FilesOk_dropF f k (effOf pe hd) h2
        apply FilesOk_mono _ _ _ _ hd'
        intro g hg
        cases hfe : ((effOf pe hd).filter (· != f)).isEmpty
        · rw [effOf_with _ _ _ hfe]; exact hg
        · have : (effOf pe hd).filter (· != f) = [] := by simpa using hfe
          rw [this] at hg; cases hg
    · rw [if_neg hid]
      exact ⟨h1, ihk (effOf pe hd) h2, ihr pe h3⟩

/-- removing a content item keeps the invariant -/
theorem FilesOk_removeAt (its : Items) : ∀ (pe : List Nat) (pos : Nat), FilesOk pe its → FilesOk pe (its.removeAt pos) := by
  induction its with
  | nil => intro _ _ _; trivial
  | text _ r ih =>
    intro pe pos h
    cases pos with
    | zero => exact h
    | succ q => exact ih pe q h
  | elem hd k r _ ihr =>
    intro pe pos ⟨h1, h2, h3⟩
    cases pos with
    | zero => exact h3
    | succ q => exact ⟨h1, h2, ihr pe q h3⟩

/-- a change of the content of one node that keeps the header and keeps the invariant of the content keeps the invariant
of the whole -/
theorem effOf_files (pe : List Nat) (h h' : Hdr) (hf : h'.files = h.files) : effOf pe h' = effOf pe h := by
  unfold effOf; rw [hf]

theorem FilesOk_modify (t : Nat) (g : Hdr → Items → Hdr × Items)
    (hg : ∀ (h : Hdr) (k : Items) (pe : List Nat), FilesOk pe k → (g h k).1.files = h.files ∧ FilesOk pe (g h k).2)
    (its : Items) : ∀ pe : List Nat, FilesOk pe its → FilesOk pe (its.modify t g) := by
  induction its with
  | nil => intro _ _; trivial
  | text _ r ih => intro pe h; exact ih pe h
  | elem hd k r ihk ihr =>
    intro pe ⟨h1, h2, h3⟩
    unfold Items.modify
    by_cases hid : hd.id = t
    · rw [if_pos hid]
      obtain ⟨e1, e2⟩ := hg hd k (effOf pe hd) h2
      show FilesOk pe (.elem (g hd k).1 (g hd k).2 (r.modify t g))
      refine ⟨by rw [e1]; exact h1, ?_, ihr pe h3⟩
      rw [effOf_files pe hd _ e1]; exact e2
    · rw [if_neg hid]
      exact ⟨h1, ihk (effOf pe hd) h2, ihr pe h3⟩

end AV.W

/-! ### the invariant for whole models and worlds -/

namespace AV.W

/-- the invariant for a model: every local file set below the root lies within the effective set of the parent -/
def Model.filesOk (m : Model) : Prop := AV.W.FilesOk m.rootHdr.files m.rootKids

def World.filesOk (w : World) : Prop := ∀ m ∈ w.models, m.filesOk

/-- the invariant for the one-element forest that holds the root -/
def rootOk : Items → Prop
  | .elem h k _ => FilesOk h.files k
  | _ => True

theorem effOf_nil (h : Hdr) : effOf [] h = h.files := by
  unfold effOf
  split
  · rename_i he; have : h.files = [] := by simpa using he
    rw [this]
  · rfl

theorem setRoot_ok (m : Model) (its : Items) (hm : m.filesOk) (h : rootOk its) : (m.setRoot its).filesOk := by
  unfold Model.setRoot
  cases its with
  | nil => exact hm
  | text _ _ => exact hm
  | elem hd k r => show AV.W.FilesOk hd.files k; exact h

theorem setModel_ok (w : World) (k : Nat) (m' : Model) (hw : w.filesOk) (hm : m'.filesOk) : (setModel w k m').filesOk := by
  intro m hmem
  unfold setModel at hmem
  rcases List.mem_or_eq_of_mem_set hmem with h | h
  · exact hw m h
  · rw [h]; exact hm

theorem getElem!_ok (w : World) (k : Nat) (hw : w.filesOk) : (w.models[k]!).filesOk := by
  by_cases hk : k < w.models.length
  · have : w.models[k]! = w.models[k] := by simp [hk]
    rw [this]
    exact hw _ (List.getElem_mem hk)
  · have : w.models[k]! = default := by simp [hk]
    rw [this]
    show AV.W.FilesOk _ Items.nil
    trivial

section
variable (S : Spec)

/-- `add_to_file` at the root of a model -/
theorem addPath_root_ok (f : Nat) (path : List Nat) (h : Hdr) (k : Items) (hk : FilesOk h.files k) :
    rootOk (addPath S f path [] true (.elem h k .nil)).1 := by
  cases path with
  | nil => simpa [addPath, rootOk] using hk
  | cons id rest =>
    unfold addPath
    by_cases hid : h.id = id
    · simp only [if_pos hid]
      cases rest with
      | nil =>
        dsimp only
        rw [effOf_nil]
        by_cases hc : h.files.contains f = true
        · simp only [hc, ↓reduceIte]; exact hk
        · simp only [hc, Bool.false_eq_true, ↓reduceIte]
          exact FilesOk_mono k _ _ (fun g hg => List.mem_append_left _ hg) hk
      | cons id2 rest2 =>
        dsimp only
        rw [effOf_nil]
        have ih1 := addPath_ok S f k (id2 :: rest2) h.files (splittable S h) hk
        cases hq : (addPath S f (id2 :: rest2) h.files (splittable S h) k).2
        · simp only [Bool.false_eq_true, ↓reduceIte]
          exact ih1.1 hq
        · simp only [↓reduceIte]
          obtain ⟨ihA, ihB⟩ := ih1.2 hq
          unfold restrictStep
          dsimp only
          rw [effOf_nil]
          by_cases hc : h.files.contains f = true
          · simp only [hc, ↓reduceIte]
            apply FilesOk_mono _ _ _ _ ihA
            intro g hg
            rcases List.mem_append.mp hg with hg | hg
            · exact hg
            · have : g = f := by simpa using hg
              subst this
              simpa using hc
          · simp only [hc, Bool.false_eq_true, ↓reduceIte, Bool.true_or]
            show FilesOk (h.files ++ [f]) _
            split
            · rename_i hsp; exact ihB hsp
            · exact ihA
    · simp only [if_neg hid]
      cases rest <;> simpa [addPath, rootOk] using hk

/-- **C10** `add_to_file` keeps every element within the files of its parent -/
theorem opAddFile_ok (w : World) (x f : Nat) (hw : w.filesOk) : (opAddFile S w x f).1.filesOk := by
  unfold opAddFile
  split
  · exact hw
  · rename_i k c _
    split
    · exact hw
    · split
      · exact hw
      · split
        · exact hw
        · split
          · exact hw
          · split
            · exact hw
            · have hm := getElem!_ok w k hw
              exact setModel_ok w k _ hw (setRoot_ok _ _ hm (addPath_root_ok S f _ _ _ hm))

/-- `remove_sub_element` keeps the invariant -/
theorem opRemove_ok (w : World) (p c : Nat) (hw : w.filesOk) : (opRemove S w p c).1.filesOk := by
  unfold opRemove
  split
  · exact hw
  · rename_i k ch _
    dsimp only
    split
    · split
      · exact hw
      · rename_i pos hd ck _ _ _
        have hm := getElem!_ok w k hw
        intro m hmem
        dsimp only at hmem
        have hset : ∀ m' : Model, m'.filesOk → ∀ m ∈ (setModel w k m').models, m.filesOk :=
          fun m' hm' => setModel_ok w k m' hw hm'
        apply hset _ _ m hmem
        -- the model with the item removed
        show AV.W.FilesOk (Model.setRoot _ _).rootHdr.files (Model.setRoot _ _).rootKids
        have hroot : rootOk ((w.models[k]!).rootItems.modify p fun h0 k0 => (h0, k0.removeAt pos)) := by
          unfold Model.rootItems Items.modify
          by_cases hid : (w.models[k]!).rootHdr.id = p
          · simp only [if_pos hid]
            exact FilesOk_removeAt _ _ _ hm
          · simp only [if_neg hid]
            exact FilesOk_modify p _ (fun h kk pe hk => ⟨rfl, FilesOk_removeAt kk pe pos hk⟩) _ _ hm
        have := setRoot_ok (w.models[k]!) _ hm hroot
        exact this
    · exact hw

theorem removeAll_ok (ids : List Nat) : ∀ w : World, w.filesOk → (removeAll S w ids).filesOk := by
  induction ids with
  | nil => intro w hw; exact hw
  | cons id rest ih =>
    intro w hw
    unfold removeAll
    apply ih
    split
    · split
      · exact opRemove_ok S w _ id hw
      · exact hw
    · exact hw

/-- the file-set part of `remove_from_file` at the root of a model -/
theorem rmAt_root_ok (f x : Nat) (h : Hdr) (k : Items) (hk : FilesOk h.files k) :
    rootOk (rmAt f x [] (.elem h k .nil)) := by
  unfold rmAt
  by_cases hid : h.id = x
  · rw [if_pos hid, effOf_nil]
    exact FilesOk_dropF f k h.files hk
  · rw [if_neg hid, effOf_nil]
    exact rmAt_ok f x k h.files hk

/-- **C10** `remove_from_file` keeps every element within the files of its parent -/
theorem opRmFromFile_ok (w : World) (x f : Nat) (hw : w.filesOk) : (opRmFromFile S w x f).1.filesOk := by
  unfold opRmFromFile
  split
  · exact hw
  · rename_i k c _
    split
    · exact hw
    · split
      · exact hw
      · split
        · exact hw
        · split
          · exact hw
          · rename_i cur _
            -- the world after the optional deletion of the element itself
            have hw1 : ∀ w1 : World, w1 = (if (cur.filter (· != f)).isEmpty then
                  match c.dropLast.getLast? with
                  | some (ph, _) => (opRemove S w ph.id x).1
                  | none => w
                else w) → w1.filesOk := by
              intro w1 he
              rw [he]
              split
              · split
                · exact opRemove_ok S w _ x hw
                · exact hw
              · exact hw
            dsimp only
            generalize hw1e : (if (cur.filter (· != f)).isEmpty then
                  match c.dropLast.getLast? with
                  | some (ph, _) => (opRemove S w ph.id x).1
                  | none => w
                else w) = w1
            have hw1' := hw1 w1 hw1e.symm
            split
            · exact hw1'
            · rename_i k1 _ _
              apply removeAll_ok
              have hm := getElem!_ok w1 k1 hw1'
              exact setModel_ok w1 k1 _ hw1' (setRoot_ok _ _ hm (rmAt_root_ok f x _ _ hm))

/-- **C10** `remove_file` keeps every element within the files of its parent -/
theorem opRmFile_ok (w : World) (k f : Nat) (hw : w.filesOk) : (opRmFile S w k f).1.filesOk := by
  unfold opRmFile
  split
  · exact hw
  · rename_i m hm
    split
    · exact hw
    · dsimp only
      split
      · exact hw
      · apply opRmFromFile_ok
        apply setModel_ok w k _ hw
        have : m ∈ w.models := List.mem_of_getElem? hm
        exact hw m this

theorem FilesOk_setParents (p : PRef) (its : Items) : ∀ pe, FilesOk pe its → FilesOk pe (its.setParents p) := by
  induction its with
  | nil => intro _ _; trivial
  | text _ r ih => intro pe h; exact ih pe h
  | elem h k r _ ihr => intro pe ⟨h1, h2, h3⟩; exact ⟨h1, h2, ihr pe h3⟩

/-- **C10** `create_file` keeps every element within the files of its parent: the children of the root that had no set of
their own are pinned to the files the root had so far -/
theorem opMkFile_ok (w : World) (k : Nat) (name : Bytes) (ver : Nat) (valid : Bool) (hw : w.filesOk) :
    (opMkFile S w k name ver valid).1.filesOk := by
  unfold opMkFile
  split
  · exact hw
  · rename_i m hm
    have hmm : m.filesOk := hw m (List.mem_of_getElem? hm)
    split
    · exact hw
    · split
      · exact hw
      · dsimp only
        intro m' hmem
        rcases List.mem_or_eq_of_mem_set hmem with h | h
        · exact hw m' h
        · rw [h]
          show AV.W.FilesOk _ _
          -- the step of `add_to_file_restricted` on the root
          have hstep : FilesOk (restrictStep S w.nextFile m.rootHdr m.rootKids [] true).1.files
              (restrictStep S w.nextFile m.rootHdr m.rootKids [] true).2.1 := by
            unfold restrictStep
            dsimp only
            rw [effOf_nil]
            by_cases hc : m.rootHdr.files.contains w.nextFile = true
            · simp only [hc, ↓reduceIte]; exact hmm
            · simp only [hc, Bool.false_eq_true, ↓reduceIte, Bool.true_or]
              show FilesOk (m.rootHdr.files ++ [w.nextFile]) _
              split
              · exact FilesOk_pin _ _ (fun g hg => List.mem_append_left _ hg) _ hmm
              · exact FilesOk_mono _ _ _ (fun g hg => List.mem_append_left _ hg) hmm
          cases hiss : m.rootIssued
          · simp only [Bool.false_eq_true, if_false]
            exact FilesOk_setParents _ _ _ hstep
          · simp only [if_true]
            exact hstep

end

end AV.W

/-! ### element creation keeps the invariant (a new element has no file set of its own) -/

namespace AV.W

theorem FilesOk_insertAt (new : Items → Items) (its : Items) : ∀ (pe : List Nat) (pos : Nat),
    (∀ r, FilesOk pe r → FilesOk pe (new r)) → FilesOk pe its → FilesOk pe (its.insertAt new pos) := by
  induction its with
  | nil =>
    intro pe pos hn h
    cases pos <;> exact hn _ h
  | text c r ih =>
    intro pe pos hn h
    cases pos with
    | zero => exact hn _ h
    | succ q => exact ih pe q hn h
  | elem hd k r _ ihr =>
    intro pe pos hn h
    cases pos with
    | zero => exact hn _ h
    | succ q => exact ⟨h.1, h.2.1, ihr pe q hn h.2.2⟩

/-- a change inside one node that keeps its header and the invariant of its content, applied to the root forest -/
theorem rootOk_modify (m : Model) (p : Nat) (g : Hdr → Items → Hdr × Items)
    (hg : ∀ (h : Hdr) (k : Items) (pe : List Nat), FilesOk pe k → (g h k).1.files = h.files ∧ FilesOk pe (g h k).2)
    (hm : m.filesOk) : rootOk (m.rootItems.modify p g) := by
  unfold Model.rootItems Items.modify
  by_cases hid : m.rootHdr.id = p
  · rw [if_pos hid]
    obtain ⟨e1, e2⟩ := hg m.rootHdr m.rootKids m.rootHdr.files hm
    show FilesOk (g m.rootHdr m.rootKids).1.files (g m.rootHdr m.rootKids).2
    rw [e1]; exact e2
  · rw [if_neg hid]
    exact FilesOk_modify p g hg _ _ hm

section
variable (S : Spec) (V : Env)

theorem newHdr_files (id name : Nat) (ety : ETy) (parent : Nat) : (newHdr id name ety parent).files = [] := rfl

/-- **C10** `create_sub_element[_at]`: the new element inherits -/
theorem opCreate_ok (w : World) (p name : Nat) (pos : Option Nat) (hw : w.filesOk) :
    (opCreate S V w p name pos).1.filesOk := by
  unfold opCreate
  split
  · exact hw
  · rename_i k c _
    dsimp only
    split
    · exact hw
    · split
      · exact hw
      · split
        · exact hw
        · split
          · exact hw
          · split
            · exact hw
            · have hm := getElem!_ok w k hw
              intro m hmem
              dsimp only at hmem
              apply setModel_ok w k _ hw _ m hmem
              apply setRoot_ok _ _ hm
              apply rootOk_modify _ _ _ _ hm
              intro h kk pe hk
              refine ⟨rfl, FilesOk_insertAt _ kk pe _ ?_ hk⟩
              intro r hr
              exact ⟨by simp [newHdr], trivial, hr⟩

end

end AV.W

namespace AV.W

/-- C11: a refused `add_to_file` / `remove_from_file` changes nothing -/
theorem opAddFile_err_frame (S : Spec) (w : World) (x f : Nat) : (opAddFile S w x f).2 = .err → (opAddFile S w x f).1 = w := by
  unfold opAddFile
  split
  · intro _; rfl
  · split
    · intro _; rfl
    · split
      · intro h; cases h
      · split
        · intro _; rfl
        · split
          · intro _; rfl
          · split
            · intro h; cases h
            · intro h; cases h

theorem opRmFromFile_err_frame (S : Spec) (w : World) (x f : Nat) : (opRmFromFile S w x f).2 = .err → (opRmFromFile S w x f).1 = w := by
  unfold opRmFromFile
  split
  · intro _; rfl
  · split
    · intro _; rfl
    · split
      · intro h; cases h
      · split
        · intro _; rfl
        · split
          · intro _; rfl
          · dsimp only
            split
            · intro h; cases h
            · intro h; cases h

end AV.W
