/-
C01, element level, part 1: the event-level interface of the parser and the expected result.

* Stage 1 — the parser (`Model/Parser.lean`) looks at its buffer only through `nextTok`, and `nextTok` on a tokenizer
  state from which the tokenizer *runs* (`Lex.Run`, `Lemmas/SerLex.lean`) through the events `(l, e) :: les` returns
  exactly `e` (line `l`) and leaves a tokenizer state that runs through `les` (`nextTok_run`, `nextTok_eof`).  This is
  the invariant that lets `SerLex.serForest_tokens` be plugged in: `Run s.lx les sfin` is threaded through the parser.
* one-step equations of `pLoop` for each kind of event (`pLoop_begin`, `pLoop_end`, `pLoop_chars`, `pLoop_comment`).
* `relabel` — the tree the parser is expected to build from the text of a forest: the same names, types, attributes,
  values, comments, in the same order; ids taken in document order from a counter, parents set, no local file sets.
-/
import AutosarVerif.Lemmas.SerLex
import AutosarVerif.Model.Parser

namespace AV.PM
open AV.W AV.Lex

/-! ### Stage 1: the parser reads its buffer only through the events of a tokenizer run -/

/-- the first event of a run is what `Lex.next` returns; the rest of the run starts where `next` stops -/
theorem next_of_run {s s' : LState} {l : Nat} {e : Event} {les : List (Nat × Event)}
    (h : Run s ((l, e) :: les) s') :
    ∃ s1, Lex.next (s.rest.length + 1) s = some (.ok (l, e), s1) ∧ Run s1 les s' := by
  generalize hL : (l, e) :: les = L at h
  induction h with
  | nil s => cases hL
  | deferred rest line nm les0 s' hr _ =>
    simp only [List.cons.injEq, Prod.mk.injEq] at hL
    obtain ⟨⟨rfl, rfl⟩, rfl⟩ := hL
    exact ⟨⟨rest, _, none⟩, by simp [Lex.next], hr⟩
  | ev s l0 e0 s1 les0 s' hd hs he hr _ =>
    simp only [List.cons.injEq, Prod.mk.injEq] at hL
    obtain ⟨⟨rfl, rfl⟩, rfl⟩ := hL
    exact ⟨s1, next_ev s _ _ s1 hd hs, hr⟩
  | again s s1 les0 s' hd hs hr ih =>
    obtain ⟨s2, h1, h2⟩ := ih hL
    exact ⟨s2, by rw [next_again s s1 hd hs]; exact h1, h2⟩

/-- at the end of the buffer the tokenizer reports end-of-file -/
theorem next_at_end (line : Nat) :
    Lex.next (([] : Bytes).length + 1) ⟨[], line, none⟩ = some (.ok (line, .eof), ⟨[], line, none⟩) := by
  simp [Lex.next, step1]

/-- **Stage 1** `nextTok` on a state whose tokenizer runs through `(l, e) :: les`: the event `e`, the tokenizer moved
to a state that runs through `les`; nothing else of the parser state changes except the line -/
theorem nextTok_run (setLine b : Bool) (s : PState) {sfin : LState} {l : Nat} {e : Event} {les : List (Nat × Event)}
    (h : Run s.lx ((l, e) :: les) sfin) :
    ∃ lx1, nextTok setLine b s = (.ok e, { s with lx := lx1, line := if setLine then l else s.line }) ∧
      Run lx1 les sfin := by
  obtain ⟨s1, h1, h2⟩ := next_of_run h
  exact ⟨s1, by simp only [nextTok, h1], h2⟩

theorem nextTok_run_true (b : Bool) (s : PState) {sfin : LState} {l : Nat} {e : Event} {les : List (Nat × Event)}
    (h : Run s.lx ((l, e) :: les) sfin) :
    ∃ lx1, nextTok true b s = (.ok e, { s with lx := lx1, line := l }) ∧ Run lx1 les sfin := by
  obtain ⟨lx1, h1, h2⟩ := nextTok_run true b s h
  exact ⟨lx1, by simpa using h1, h2⟩

theorem nextTok_eof (setLine b : Bool) (s : PState) (line : Nat) (h : s.lx = ⟨[], line, none⟩) :
    nextTok setLine b s = (.ok .eof, { s with lx := ⟨[], line, none⟩, line := if setLine then line else s.line }) := by
  have := next_at_end line
  simp only [nextTok, h, this]

/-- a run without events that arrives at the end of the buffer: the tokenizer reports end-of-file -/
theorem next_of_run_end {s : LState} {line : Nat} (h : Run s [] ⟨[], line, none⟩) :
    Lex.next (s.rest.length + 1) s = some (.ok (line, .eof), ⟨[], line, none⟩) := by
  generalize hL : ([] : List (Nat × Event)) = L at h
  generalize hf : (⟨[], line, none⟩ : LState) = sf at h
  induction h with
  | nil s => subst hf; exact next_at_end line
  | deferred rest line nm les0 s' hr _ => cases hL
  | ev s l0 e0 s1 les0 s' hd hs he hr _ => cases hL
  | again s s1 les0 s' hd hs hr ih => rw [next_again s s1 hd hs]; exact ih hL hf

theorem nextTok_run_end (setLine b : Bool) (s : PState) (line : Nat) (h : Run s.lx [] ⟨[], line, none⟩) :
    nextTok setLine b s = (.ok .eof, { s with lx := ⟨[], line, none⟩, line := if setLine then line else s.line }) := by
  simp only [nextTok, next_of_run_end h]

/-! ### the monad -/

theorem bind_ok {α β : Type} {m : P α} {k : α → P β} {b : Bool} {s s1 : PState} {a : α}
    (h : m b s = (.ok a, s1)) : bind' m k b s = k a b s1 := by
  simp only [bind', h]

theorem bind_pure {α β : Type} (a : α) (k : α → P β) (b : Bool) (s : PState) : bind' (pure' a) k b s = k a b s := rfl

section
variable (S : Spec) (V : Env)

/-! ### one step of the element loop, by kind of event -/

/-- a SHORT-NAME with a string value extends the path -/
def newPathOf (name : Nat) (path : Bytes) (skids : Items) : Option Bytes :=
  if name = S.nmShortName then
    match skids with
    | .text (.str n) _ => some (path ++ [47] ++ n)
    | _ => none
  else none

/-- … and registers the element -/
def identsUpd (newPath : Option Bytes) (id : Nat) : P Unit :=
  match newPath with
  | some p => modS fun s => { s with idents := s.idents ++ [(p, id)] }
  | none => pure' ()

/-- the text of a reference is recorded -/
def refsUpd (typ id : Nat) (v : CDv) : P Unit :=
  match v with
  | .str r => if S.isRef typ then modS fun s => { s with refs := s.refs ++ [(r, id)] } else pure' ()
  | _ => pure' ()

theorem pLoop_begin (fuel : Nat) (h : Hdr) (st : LoopSt) (b : Bool) (s s1 : PState) (nm attrText : Bytes) (name : Nat)
    (hn : nextTok true b s = (.ok (.beginElement nm attrText), s1)) (he : V.elemOf nm = some name) :
    pLoop S V (fuel + 1) h st b s =
      (bind' (findChecked S h.ety.typ name) fun (sty, idx) =>
        bind' (checkConflict S h.ety.typ st.elemIdx idx) fun _ =>
        bind' (if st.acc.isEmpty then pure' () else checkMult S h.ety.typ name idx st.acc) fun _ =>
        bind' (parseAttrs S V sty.typ attrText) fun attrs =>
        bind' allocId fun id =>
        let sh : Hdr := { id := id, name := name, ety := sty, parent := .elem h.id, attrs := attrs, files := [], comment := st.comment }
        bind' (pLoop S V fuel sh { path := st.path }) fun skids =>
        bind' (identsUpd (newPathOf S name st.path skids) h.id) fun _ =>
        pLoop S V fuel h { st with
          acc := st.acc ++ [.el sh skids], elemIdx := idx, comment := none,
          snFound := st.snFound || name == S.nmShortName,
          path := (newPathOf S name st.path skids).getD st.path }) b s1 := by
  rw [pLoop, bind_ok hn]
  simp only [he]
  rfl

theorem pLoop_end (fuel : Nat) (h : Hdr) (st : LoopSt) (b : Bool) (s s1 : PState) (nm : Bytes)
    (hn : nextTok true b s = (.ok (.endElement nm), s1)) (he : V.elemOf nm = some h.name) :
    pLoop S V (fuel + 1) h st b s =
      (bind' (if !st.snFound then
          bind' getS fun s => if S.isNamedIn h.ety.typ s.ver then optErr kRequiredSubelementMissing else pure' ()
        else pure' ()) fun _ =>
      pure' (itemsOf st.acc)) b s1 := by
  rw [pLoop, bind_ok hn]
  simp only [he, if_true]

theorem pLoop_chars (fuel : Nat) (h : Hdr) (st : LoopSt) (b : Bool) (s s1 : PState) (text : Bytes) (spec : CSpec)
    (hn : nextTok true b s = (.ok (.characters text), s1)) (hc : S.chardataSpec h.ety.typ = some spec) :
    pLoop S V (fuel + 1) h st b s =
      (bind' (parseCD V text spec) fun v =>
        bind' (refsUpd S h.ety.typ h.id v) fun _ =>
        pLoop S V fuel h { st with acc := st.acc ++ [.tx v] }) b s1 := by
  rw [pLoop, bind_ok hn]
  simp only [hc]
  rfl

theorem pLoop_comment (fuel : Nat) (h : Hdr) (st : LoopSt) (b : Bool) (s s1 : PState) (c : Bytes)
    (hn : nextTok true b s = (.ok (.comment c), s1)) (hc : validUtf8 c = true) :
    pLoop S V (fuel + 1) h st b s = pLoop S V fuel h { st with comment := some c } b s1 := by
  rw [pLoop, bind_ok hn]
  simp only [hc, if_true]

end

/-! ### the expected result -/

/-- number of elements of a forest -/
def cnt : Items → Nat
  | .nil => 0
  | .elem _ k r => 1 + cnt k + cnt r
  | .text _ r => cnt r

/-- **the tree the parser builds from the text of `its`**: the same element names, types, attributes, comments and
values in the same order; the ids are `n, n+1, …` in document order, the parent fields point to the new ids, the local
file sets are empty -/
def relabel (par : PRef) : Nat → Items → Items
  | _, .nil => .nil
  | n, .text c r => .text c (relabel par n r)
  | n, .elem h k r =>
    .elem { h with id := n, parent := par, files := [] } (relabel (.elem n) (n + 1) k) (relabel par (n + 1 + cnt k) r)

/-- a content list as the parser accumulates it -/
def listOf : Items → List Item
  | .nil => []
  | .elem h k r => .el h k :: listOf r
  | .text c r => .tx c :: listOf r

theorem itemsOf_append_listOf (acc : List Item) (its : Items) :
    itemsOf (acc ++ listOf its) = (itemsOf acc).append its := by
  induction acc with
  | nil =>
    simp only [List.nil_append, itemsOf, Items.append]
    induction its with
    | nil => rfl
    | elem h k r _ ihr => simp only [listOf, itemsOf, ihr]
    | text c r ihr => simp only [listOf, itemsOf, ihr]
  | cons a acc ih =>
    cases a <;> simp only [List.cons_append, itemsOf, Items.append, ih]

theorem itemsOf_listOf (its : Items) : itemsOf (listOf its) = its := by
  have := itemsOf_append_listOf [] its
  simpa [itemsOf, Items.append] using this

/-- what does not depend on identities: names, types, attributes, comments, values, order -/
def shape : Items → Items
  | .nil => .nil
  | .text c r => .text c (shape r)
  | .elem h k r => .elem { h with id := 0, parent := .none, files := [] } (shape k) (shape r)

theorem shape_relabel (par : PRef) (n : Nat) (its : Items) : shape (relabel par n its) = shape its := by
  induction its generalizing par n with
  | nil => rfl
  | text c r ih => simp only [relabel, shape, ih]
  | elem h k r ihk ihr => simp only [relabel, shape, ihk, ihr]

/-- the ids of the expected tree are `n, n+1, …, n + cnt its - 1`, in document order -/
theorem ids_relabel (par : PRef) (n : Nat) (its : Items) : (relabel par n its).ids = (List.range (cnt its)).map (n + ·) := by
  induction its generalizing par n with
  | nil => rfl
  | text c r ih => simp only [relabel, Items.ids, cnt, ih]
  | elem h k r ihk ihr =>
    simp only [relabel, Items.ids, cnt, ihk, ihr]
    rw [show 1 + cnt k + cnt r = 1 + (cnt k + cnt r) by omega, List.range_add, List.range_add]
    simp [List.range_succ_eq_map, Nat.add_assoc, Nat.add_comm 1]
    constructor <;> intros <;> omega

end AV.PM
