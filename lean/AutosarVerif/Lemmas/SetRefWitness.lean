/-
`set_reference_target` (`Lemmas/SetRefOp.lean`): non-vacuity of the theorems on a concrete specification with a DEST
attribute, the refusal of a value at the last step, and witnesses that the extra hypotheses (`WIds`, `WRLeaf`, `WROne`) cannot
be dropped.

`destSpec` = `refSpec` (`Lemmas/RefsWitness.lean`) extended by
  * the attribute DEST (name 998, character data 2 = `.enum [(7, 7)]`, required, all versions) of the reference type 5, and
  * the reference item 7 of the named type 1 (P), so that `reference_dest_value(X-REF, P) = 7`.
-/
import AutosarVerif.Lemmas.SetRefOp
import AutosarVerif.Lemmas.RefsWitness
import AutosarVerif.Lemmas.StepX

namespace AV.W
open AV

def destSpec : Spec :=
  { refSpec with
    nAttrs := 1, nRefItems := 1, nCData := 3
    attrEnd := fun t => if t = 5 then 1 else 0
    attrName := fun _ => 998
    attrCData := fun _ => 2
    attrRequired := fun _ => true
    cspec := fun i => if i = 1 then .string false none else if i = 2 then .enum [(7, 7)] else .pattern 8 none
    refEnd := fun t => if t = 1 then 1 else 0
    refItem := fun _ => 7 }

theorem destSpec_named (t : Nat) (h : destSpec.isNamed t = true) : t = 1 ∨ t = 4 := refSpec_named t h

theorem destSpec_snDef (t d : Nat) (h : destSpec.isNamed t = true) (hd : destSpec.subAt t 0 = .elem d) : d = 2 :=
  refSpec_snDef t d h hd

theorem destSpec_isRef (t : Nat) (h : destSpec.isRef t = true) : t = 5 := refSpec_isRef t h

theorem destSpec_hyp : IdxHyp destSpec nameEnv 6 where
  wf := {
    named_seq := by
      intro t h hm
      rcases destSpec_named t h with rfl | rfl
      · rfl
      · exact absurd (by decide) hm
    sn_mask := by
      intro t h
      rcases destSpec_named t h with rfl | rfl <;> decide
    sn_mult := by
      intro t d h hd
      have := destSpec_snDef t d h hd
      subst this
      decide
    sn_type := by
      intro t d h hd
      have := destSpec_snDef t d h hd
      subst this
      exact ⟨by decide, by decide, .pattern 8 none, rfl, rfl⟩ }
  only := by
    intro t nm e m idx h hmem hnm
    rcases destSpec_named t h with rfl | rfl
    · have hl : destSpec.listSub 1 = [(999, ⟨2, 2⟩, 2, [0]), (103, ⟨3, 3⟩, 7, [1])] := by decide
      rw [hl] at hmem
      simp only [List.mem_cons, List.mem_nil_iff, or_false, Prod.mk.injEq] at hmem
      rcases hmem with ⟨_, _, _, h4⟩ | ⟨h1, _, _, _⟩
      · exact h4
      · subst h1; exact absurd hnm (by decide)
    · have hl : destSpec.listSub 4 = [(999, ⟨2, 2⟩, 1, [0])] := by decide
      rw [hl] at hmem
      simp only [List.mem_cons, List.mem_nil_iff, or_false, Prod.mk.injEq] at hmem
      exact hmem.2.2.2
  noSlash := by
    intro t d sp s ver h hd hsp hcv
    have := destSpec_snDef t d h hd
    subst this
    have h2 : destSpec.chardataSpec (destSpec.defType 2) = some (.pattern 8 none) := rfl
    rw [h2] at hsp
    injection hsp with hsp
    subst hsp
    intro h47
    simp only [checkValue, nameEnv, Bool.true_and] at hcv
    have : s.contains 47 = true := List.contains_iff_mem.mpr h47
    rw [this] at hcv
    cases hcv
  latest := by decide
  rootName := by decide

theorem destSpec_refWF : RefWF destSpec where
  ref_chars := by
    intro t h
    have := destSpec_isRef t h
    subst this
    rfl
  ref_spec := by
    intro t h
    have := destSpec_isRef t h
    subst this
    exact ⟨.string false none, rfl, rfl⟩
  sn_not_ref := by
    intro t d h hd
    have := destSpec_snDef t d h hd
    subst this
    decide
  root_not_ref := by decide

/-! ### non-vacuity -/

/-- a file of version 2; the package P "a" (e1, SHORT-NAME e2) with a Q (e3) inside; two X-REF elements (e4, e5) in Q; e5 gets
the text "/zz" -/
def setRefOps : List Op := refOps.take 6 ++ [.cdata 5 (.str [47, 122, 122])]

/-- the world before the call -/
def w0 : World := run destSpec nameEnv [] setRefOps

theorem setRefOps_ok : ∀ op ∈ setRefOps, OpOk destSpec 6 op := by decide

/-- the hypotheses of the theorems of `SetRefOp.lean` hold in `w0` -/
theorem w0_cinv : CInv destSpec 6 w0 ∧ WROne destSpec w0 :=
  run_cinv_one destSpec nameEnv 6 [] destSpec_hyp destSpec_refWF setRefOps setRefOps_ok

/-- e4 (no text yet) := reference to e1: answered with success -/
theorem setRef_4_1_ok : (opSetRef destSpec nameEnv w0 4 1).2 = .ok "" := by decide

/-- e5 (text "/zz") := reference to e1: answered with success -/
theorem setRef_5_1_ok : (opSetRef destSpec nameEnv w0 5 1).2 = .ok "" := by decide

/-- the state after the first call: the map and the registrations of the tree, the index -/
example : ((opSetRef destSpec nameEnv w0 4 1).1.models.map fun m => (m.refs, refEntries destSpec m.rootItems, m.index)) =
    [([([47, 122, 122], [5]), ([47, 97], [4])], [([47, 97], 4), ([47, 122, 122], 5)], [([47, 97], 1)])] := by decide

/-- the state after the second call (on `w0`): the key "/zz" is dropped -/
example : ((opSetRef destSpec nameEnv w0 5 1).1.models.map fun m => (m.refs, refEntries destSpec m.rootItems)) =
    [([([47, 97], [5])], [([47, 97], 5)])] := by decide

/-- the reference element after the call: text, DEST -/
example : (hdrOf (opSetRef destSpec nameEnv w0 4 1).1 4).map (fun hk => (hk.1.attrs, charData destSpec hk.1 hk.2)) =
    some ([(998, .enum 7)], some (.str [47, 97])) := by decide

/-- `get_reference_target` after the call, computed … -/
example : refTarget destSpec nameEnv (opSetRef destSpec nameEnv w0 4 1).1 4 = some 1 := by decide

/-- … and by the theorems: the combined invariant holds after the call -/
example : CInv destSpec 6 (opSetRef destSpec nameEnv w0 4 1).1 ∧ WROne destSpec (opSetRef destSpec nameEnv w0 4 1).1 :=
  opSetRef_cinv destSpec nameEnv 6 destSpec_refWF w0 4 1 w0_cinv.1 w0_cinv.2

example : Inv (opSetRef destSpec nameEnv w0 4 1).1 :=
  opSetRef_inv' destSpec nameEnv 6 w0 4 1 w0_cinv.1.1 (run_inv destSpec nameEnv [] setRefOps)

/-- the postcondition -/
example : ∃ k c kt tc it c' tc', SetRefPost destSpec nameEnv w0 (opSetRef destSpec nameEnv w0 4 1).1 4 1 k c kt tc it c' tc' :=
  opSetRef_post destSpec nameEnv 6 destSpec_refWF w0 4 1 w0_cinv.1 w0_cinv.2 (by rw [setRef_4_1_ok]; exact fun h => by cases h)

/-! ### a refusal at the last step leaves the world unchanged

Before the repair of finding c11:set-reference-target-late-failure this call was the witness of the LATE failure: answered with
`err`, but DEST of e4 set and e4 registered as a referrer of "/a" while holding no text, so that the reverse reference map
was no longer exact (`late_breaks_rinv` in the earlier version of this file).  Now the value is checked first. -/

/-- `destSpec` with a reference text of at most one byte: the path "/a" is refused -/
def lateSpec : Spec :=
  { destSpec with
    cspec := fun i => if i = 1 then .string false (some 1) else if i = 2 then .enum [(7, 7)] else .pattern 8 none }

def wL : World := run lateSpec nameEnv [] (refOps.take 6)

/-- the call is answered with an error … -/
theorem late_err : (opSetRef lateSpec nameEnv wL 4 1).2 = .err := by decide

/-- … and nothing has changed (by the frame theorem; and computed: no DEST, nothing registered) -/
theorem late_frame : (opSetRef lateSpec nameEnv wL 4 1).1 = wL := opSetRef_err_frame lateSpec nameEnv wL 4 1 late_err

example :
    ((opSetRef lateSpec nameEnv wL 4 1).1.models.map fun m => (m.refs, refEntries lateSpec m.rootItems)) = [([], [])] ∧
    (hdrOf (opSetRef lateSpec nameEnv wL 4 1).1 4).map (fun hk => (hk.1.attrs, charData lateSpec hk.1 hk.2)) =
      some ([], none) := by decide

/-! ### `WIds` cannot be dropped from `opSetRef_inv` -/

instance decWf : (exp : PRef) → (its : Items) → Decidable (its.wf exp)
  | _, .nil => isTrue trivial
  | exp, .text _ r => decWf exp r
  | exp, .elem h k r =>
    have := decWf (.elem h.id) k
    have := decWf exp r
    inferInstanceAs (Decidable (h.parent = exp ∧ k.wf (.elem h.id) ∧ r.wf exp))

instance decFilesOk : (pe : List Nat) → (its : Items) → Decidable (FilesOk pe its)
  | _, .nil => isTrue trivial
  | pe, .text _ r => decFilesOk pe r
  | pe, .elem h k r =>
    have := decFilesOk (effOf pe h) k
    have := decFilesOk pe r
    inferInstanceAs (Decidable ((∀ g ∈ h.files, g ∈ pe) ∧ FilesOk (effOf pe h) k ∧ FilesOk pe r))

/-- a second package "c" (e6, SHORT-NAME e7) with a Q (e8) and an X-REF (e9) inside; then the X-REF e9 is given the id 4: two
elements with the id 4, below different parents (not a reachable state) -/
def dupWorld : World :=
  let w := run destSpec nameEnv [] (refOps.take 6 ++ [.named 0 101 [99] none, .create 6 103 none, .create 8 105 none])
  { w with models := w.models.map fun m =>
      { m with rootKids := m.rootKids.mapHdrs fun h => if h.id = 9 then { h with id := 4 } else h } }

theorem dupWorld_inv : Inv dupWorld := by
  constructor
  · rw [World.wf_iff]
    have : ∀ m ∈ dupWorld.models, m.rootKids.wf (.elem m.rootHdr.id) := by decide
    exact this
  · have : ∀ m ∈ dupWorld.models, FilesOk m.rootHdr.files m.rootKids := by decide
    exact this

/-- the call writes the header of the FIRST element with the id 4 (parent e3) over BOTH: the second one sits below e8 -/
theorem opSetRef_inv_needs_ids : Inv dupWorld ∧ ¬ Inv (opSetRef destSpec nameEnv dupWorld 4 1).1 := by
  refine ⟨dupWorld_inv, fun h => ?_⟩
  have h1 := (World.wf_iff _).mp h.1
  have : ¬ ∀ m ∈ (opSetRef destSpec nameEnv dupWorld 4 1).1.models, m.rootKids.wf (.elem m.rootHdr.id) := by decide
  exact this h1

/-! ### `WROne` cannot be dropped from `opSetRef_rinv`

`w2` = `w0` with TWO text items in the reference element e4 (not a reachable state, but a state that satisfies `CInv`). -/

def twoTexts : Items := .text (.str [120]) (.text (.str [121]) .nil)

def w2 : World :=
  setModel w0 0 ((w0.models[0]!).setRoot ((w0.models[0]!).rootItems.modify 4 fun h _ => (h, twoTexts)))

theorem w0_e4 : (locate w0 4).map (·.1) = some 0 ∧
    (hdrOf w0 4).map (fun hk => (hk.1.name, hk.1.ety.typ, hk.2.length)) = some (105, 5, 0) := by decide

theorem w2_cinv : CInv destSpec 6 w2 := by
  obtain ⟨⟨hw, hr, hl, hT⟩, _⟩ := w0_cinv
  obtain ⟨f1, f2⟩ := w0_e4
  cases hloc : locate w0 4 with
  | none => rw [hloc] at f1; cases f1
  | some kc =>
    obtain ⟨k, c⟩ := kc
    rw [hloc] at f1
    have hk : k = 0 := Option.some.inj f1
    subst hk
    have hh : hdrOf w0 4 = some (lastOf c) := by unfold hdrOf; rw [hloc]
    rw [hh] at f2
    have f3 := Option.some.inj f2
    have hname : (lastOf c).1.name = 105 := congrArg Prod.fst f3
    have hty : (lastOf c).1.ety.typ = 5 := congrArg (fun p => p.2.1) f3
    have hlen : (lastOf c).2.length = 0 := congrArg (fun p => p.2.2) f3
    have hnil : (lastOf c).2 = .nil := by
      cases hx : (lastOf c).2 with
      | nil => rfl
      | text _ _ => rw [hx] at hlen; simp [Items.length] at hlen
      | elem _ _ _ => rw [hx] at hlen; simp [Items.length] at hlen
    obtain ⟨m, _, hm2, hmem, hc⟩ := locate_chain w0 4 0 c hloc
    have hm := hw m hmem
    have href : destSpec.isRef (lastOf c).1.ety.typ = true := by rw [hty]; decide
    unfold w2
    rw [hm2]
    refine ⟨?_, ?_, ?_, ?_⟩
    · refine winv_update destSpec 6 w0 _ 0 _ hw (Nat.le_refl _) ?_ rfl
      exact minv_set_content destSpec 6 _ m _ 4 c twoTexts hm hc (by rw [hname]; decide) (by rw [hnil]; rfl) rfl
        (rootItems_setRoot_modify m 4 _) (setRoot_modify_fields m 4 _).1 (setRoot_modify_fields m 4 _).2.2.2
        (setRoot_modify_fields m 4 _).2.2.1
    · refine wrinv_update destSpec w0 _ 0 _ hr ?_ rfl
      have hx := hr m hmem
      have hrefs : (m.setRoot (m.rootItems.modify 4 fun h _ => (h, twoTexts))).refs = m.refs :=
        (setRoot_modify_fields m 4 _).2.1
      refine refsExact_set_content destSpec m _ 4 c twoTexts hm.ids hc (by rw [hnil]; rfl) rfl
        (rootItems_setRoot_modify m 4 _) hx (by rw [hrefs]; exact hx.1) (by rw [hrefs]; exact hx.2.1) ?_
      intro p id
      rw [hrefs, hnil, refOf_nil]
      have : refOf destSpec (lastOf c).1 twoTexts = [] :=
        refOf_cd_other destSpec _ _ (fun o e => by simp [charData, twoTexts] at e)
      rw [this]
    · refine wrleaf_update destSpec w0 _ 0 _ hl ?_ rfl
      rw [rootItems_setRoot_modify m 4 _]
      refine refLeaf_modify destSpec 4 _ _ ?_ (hl m hmem)
      intro h0 k0 _ _ _ _
      exact ⟨fun _ => rfl, (refLeaf_text destSpec _ _).mpr ((refLeaf_text destSpec _ _).mpr (refLeaf_nil destSpec))⟩
    · refine wrootTy_update destSpec w0 _ 0 _ hT ?_ rfl
      exact (rootTy_modify m 4 _ (fun _ _ => rfl)).trans (hT m hmem)

/-- the call is answered with success, and registers e4 under "/a"; but only the FIRST text item of e4 was replaced, so e4
still has no character data: the map is not exact -/
theorem w2_state : (opSetRef destSpec nameEnv w2 4 1).2 = .ok "" ∧
    ((opSetRef destSpec nameEnv w2 4 1).1.models.map fun m => (m.refs, refEntries destSpec m.rootItems)) =
      [([([47, 122, 122], [5]), ([47, 97], [4])], [([47, 122, 122], 5)])] := by decide

theorem opSetRef_rinv_needs_one :
    CInv destSpec 6 w2 ∧ ¬ WRInv destSpec (opSetRef destSpec nameEnv w2 4 1).1 := by
  refine ⟨w2_cinv, fun h => ?_⟩
  have hs := w2_state.2
  cases hms : (opSetRef destSpec nameEnv w2 4 1).1.models with
  | nil => rw [hms] at hs; cases hs
  | cons m rest =>
    rw [hms] at hs
    simp only [List.map_cons, List.cons.injEq] at hs
    have hmem : m ∈ (opSetRef destSpec nameEnv w2 4 1).1.models := by rw [hms]; exact List.mem_cons_self
    have h1 : m.refs = [([47, 122, 122], [5]), ([47, 97], [4])] := congrArg Prod.fst hs.1
    have h2 : refEntries destSpec m.rootItems = [([47, 122, 122], 5)] := congrArg Prod.snd hs.1
    have := (h m hmem).2.2 [47, 97] 4
    rw [h1, h2] at this
    revert this
    decide

/-! ### `WRLeaf` cannot be dropped from `opSetRef_winv`

`w3` = `w0` with a named sub-element "b" (e9, SHORT-NAME e10) in the reference element e4, registered in the index under
"/a/b" (not a reachable state: index and tree agree, but a reference element has a sub-element). -/

def namedKid : Items :=
  .elem { id := 9, name := 101, ety := ⟨1, 1⟩, parent := .elem 4, attrs := [], files := [], comment := none }
    (.elem { id := 10, name := 999, ety := ⟨2, 2⟩, parent := .elem 9, attrs := [], files := [], comment := none }
      (.text (.str [98]) .nil) .nil) .nil

def w3 : World :=
  setModel w0 0 { (w0.models[0]!).setRoot ((w0.models[0]!).rootItems.modify 4 fun h _ => (h, namedKid)) with
    index := (w0.models[0]!).index ++ [([47, 97, 47, 98], 9)] }

/-- before the call the index lists exactly the entries of the tree; after the (successful) call the sub-element is gone from
the tree and still in the index -/
theorem w3_state :
    (w3.models.map fun m => (m.index, entries destSpec m.rootItems [])) =
      [([([47, 97], 1), ([47, 97, 47, 98], 9)], [([47, 97], 1), ([47, 97, 47, 98], 9)])] ∧
    (opSetRef destSpec nameEnv w3 4 1).2 = .ok "" ∧
    ((opSetRef destSpec nameEnv w3 4 1).1.models.map fun m => (m.index, entries destSpec m.rootItems [])) =
      [([([47, 97], 1), ([47, 97, 47, 98], 9)], [([47, 97], 1)])] := by decide

theorem opSetRef_winv_needs_leaf : ¬ WInv destSpec 6 (opSetRef destSpec nameEnv w3 4 1).1 := by
  intro h
  have hs := w3_state.2.2
  cases hms : (opSetRef destSpec nameEnv w3 4 1).1.models with
  | nil => rw [hms] at hs; cases hs
  | cons m rest =>
    rw [hms] at hs
    simp only [List.map_cons, List.cons.injEq] at hs
    have hmem : m ∈ (opSetRef destSpec nameEnv w3 4 1).1.models := by rw [hms]; exact List.mem_cons_self
    have h1 : m.index = [([47, 97], 1), ([47, 97, 47, 98], 9)] := congrArg Prod.fst hs.1
    have h2 : entries destSpec m.rootItems [] = [([47, 97], 1)] := congrArg Prod.snd hs.1
    have := ((h m hmem).exact [47, 97, 47, 98] 9).mp (by rw [h1]; decide)
    rw [h2] at this
    revert this
    decide

/-! ### non-vacuity of the history corollary `runX_setref_target` (`Lemmas/StepX.lean`) -/

/-- the history of `w0` in the larger alphabet, followed by a rename of the package "a" to "b".  (No `sort` here: `decide` does
not evaluate `List.mergeSort`.) -/
def setRefOpsX : List OpX := setRefOps.map .core ++ [.rename 1 [98]]

theorem setRefOpsX_ok : ∀ op ∈ setRefOpsX, OpXOk destSpec 6 op := by decide

/-- the full invariant in the state before the call, by the theorem -/
example : GInv destSpec 6 (runX destSpec nameEnv [] setRefOpsX) :=
  runX_ginv destSpec nameEnv 6 [] destSpec_hyp destSpec_refWF (by decide) setRefOpsX setRefOpsX_ok

theorem wX_facts :
    (opSetRef destSpec nameEnv (runX destSpec nameEnv [] setRefOpsX) 4 1).2 = .ok "" ∧
    (locate (runX destSpec nameEnv [] setRefOpsX) 4).map (·.1) = some 0 ∧
    (locate (runX destSpec nameEnv [] setRefOpsX) 1).map (·.1) = some 0 ∧
    ((locate (runX destSpec nameEnv [] setRefOpsX) 4).bind fun kc =>
      (locate (runX destSpec nameEnv [] setRefOpsX) 1).map fun kt =>
        (setRefItem destSpec nameEnv (lastOf kc.2).1 (lastOf kt.2).1, (lastOf kt.2).1.ety.typ)) = some (some 7, 1) := by
  decide

/-- after the history, `set_reference_target e4 e1` succeeds and `get_reference_target e4` answers e1: by the theorem … -/
theorem setRefOpsX_target : refTarget destSpec nameEnv (runX destSpec nameEnv [] (setRefOpsX ++ [.setref 4 1])) 4 = some 1 := by
  obtain ⟨f1, f2, f3, f4⟩ := wX_facts
  refine runX_setref_target destSpec nameEnv 6 [] destSpec_hyp destSpec_refWF (by decide) setRefOpsX setRefOpsX_ok 4 1
    (by rw [f1]; exact fun h => (by cases h)) ?_ ?_
  · intro k c kt tc h1 h2
    rw [h1] at f2; rw [h2] at f3
    have a : k = 0 := Option.some.inj f2
    have b : kt = 0 := Option.some.inj f3
    rw [a, b]
  · intro k c kt tc it h1 h2 h3
    rw [h1, h2] at f4
    have e := Option.some.inj f4
    have e1 : setRefItem destSpec nameEnv (lastOf c).1 (lastOf tc).1 = some 7 := congrArg Prod.fst e
    have e2 : (lastOf tc).1.ety.typ = 1 := congrArg Prod.snd e
    rw [e1] at h3
    have : it = 7 := (Option.some.inj h3).symm
    rw [this, e2]
    decide

/-- … and computed: the text of e4 is the NEW path "/b" of the renamed package, the map lists e4 under it -/
example : ((runX destSpec nameEnv [] (setRefOpsX ++ [.setref 4 1])).models.map fun m =>
      (m.refs, refEntries destSpec m.rootItems, m.index)) =
    [([([47, 122, 122], [5]), ([47, 98], [4])], [([47, 98], 4), ([47, 122, 122], 5)], [([47, 98], 1)])] := by decide

end AV.W
