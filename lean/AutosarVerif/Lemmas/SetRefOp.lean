/-
`set_reference_target` (`opSetRef`, `Model/WorldOps.lean`) as a core operation.

 1. `opSetRef_inv`        tree well-formed, file sets consistent (needs unique ids `WIds`, a part of `WInv`)
 2. `opSetRef_winv`       the index invariant (needs `WRLeaf`)
 3. `opSetRef_leaf`, `opSetRef_rootTy`, `opSetRef_one`
 4. `opSetRef_rinv`, `opSetRef_cinv`   the reverse reference map (needs `WROne`, `Lemmas/RefOne.lean`)
 5. `opSetRef_err_frame`   a refusal leaves the world unchanged.  (Before the repair of finding
    c11:set-reference-target-late-failure the call could fail LATE: DEST set, reverse map updated, answer `err`, reverse map
    no longer exact; the model and these theorems followed that.  Now the value is checked before anything is changed.)
 6. `opSetRef_post` (`SetRefPost`), `opSetRef_target`
Non-vacuity and the witnesses that the extra hypotheses cannot be dropped: `Lemmas/SetRefWitness.lean`.

The edit of the model is `modify x fun _ _ => (h', kids')` with `h'`, `kids'` computed from the node navigation found: with
unique ids this is the structural edit `setRefF` (`SetRefRun.modify_ok`), which is the edit of `set_character_data` followed by
the edit of `set_attribute` (`SetRefRun.root_ok`), so the lemmas for those two operations apply.
-/
import AutosarVerif.Lemmas.RefsReach
import AutosarVerif.Lemmas.RefOne

namespace AV.W
open Items

section
variable (S : Spec) (V : Env) (vOk : Nat)

/-- the new content of the reference element: the first content item is replaced by the text -/
def refKids (newRef : Bytes) : Items → Items
  | .nil => .text (.str newRef) .nil
  | .elem _ _ r => .text (.str newRef) r
  | .text _ r => .text (.str newRef) r

/-- the DEST item `set_reference_target` chooses -/
def setRefItem (h th : Hdr) : Option Nat :=
  match V.enumOf (V.elemText th.name) with
  | some i => some i
  | none => S.refDestValue h.ety.typ th.ety.typ

/-- the reverse reference map after the call -/
def setRefRefs (rs : List (Bytes × List Nat)) (h : Hdr) (kids : Items) (newRef : Bytes) (x : Nat) : List (Bytes × List Nat) :=
  match charData S h kids with
  | some (.str o) => refsFix rs o newRef x
  | _ => refsAdd rs newRef x

/-- the test of the raw `set_character_data` at the end -/
def setRefOk (h : Hdr) (kids : Items) (newRef : Bytes) (ver : Nat) : Bool :=
  decide (S.mode h.ety.typ = .characters ∨ (S.mode h.ety.typ = .mixed ∧ kids.length ≤ 1)) &&
    match S.chardataSpec h.ety.typ with
    | some sp => checkValue V (.str newRef) sp ver
    | none => false

/-- the facts about a call that got as far as writing -/
structure SetRefRun (w : World) (x t k : Nat) (c : List (Hdr × Items)) (h : Hdr) (kids : Items) (kt : Nat)
    (tc : List (Hdr × Items)) (it ver : Nat) (h' : Hdr) : Prop where
  hdr : hdrOf w x = some (h, kids)
  isRef : S.isRef h.ety.typ = true
  locT : locate w t = some (kt, tc)
  ident : isIdentifiable S (lastOf tc).1 (lastOf tc).2 = true
  item : setRefItem S V h (lastOf tc).1 = some it
  locX : locate w x = some (k, c)
  hver : minVersion V (w.models[k]!) c = some ver
  hattr : setAttrHdr S V h V.nmDest (.enum it) ver = some h'

/-- the world after a successful call -/
def setRefOkWorld (w : World) (x k : Nat) (h' : Hdr) (h : Hdr) (kids : Items) (newRef : Bytes) : World :=
  setModel w k { (w.models[k]!).setRoot ((w.models[k]!).rootItems.modify x fun _ _ => (h', refKids newRef kids)) with
    refs := setRefRefs S (w.models[k]!).refs h kids newRef x }

theorem opSetRef_cases (w : World) (x t : Nat) :
    opSetRef S V w x t = (w, .err) ∨
    ∃ k c h kids kt tc it ver h', SetRefRun S V w x t k c h kids kt tc it ver h' ∧
      opSetRef S V w x t =
        if setRefOk S V h kids (pathOfChain S tc) ver then (setRefOkWorld S w x k h' h kids (pathOfChain S tc), .ok "")
        else (w, .err) := by
  unfold opSetRef
  split
  · exact Or.inl rfl
  · rename_i h kids hh
    split
    · exact Or.inl rfl
    · rename_i href
      split
      · exact Or.inl rfl
      · rename_i kt tc hlt
        dsimp only
        split
        · exact Or.inl rfl
        · rename_i hident
          split
          · exact Or.inl rfl
          · rename_i it hit
            split
            · exact Or.inl rfl
            · rename_i k c hlx
              split
              · exact Or.inl rfl
              · rename_i ver hver
                split
                · exact Or.inl rfl
                · rename_i h' hattr
                  refine Or.inr ⟨k, c, h, kids, kt, tc, it, ver, h', ⟨hh, by simpa using href, hlt, by simpa using hident, hit, hlx, hver, hattr⟩, ?_⟩
                  cases kids <;> rfl

/-! ### tree facts: `modify` -/

/-- two edits that agree at the nodes called `t` -/
theorem modify_congr_occ (t : Nat) (f g : Hdr → Items → Hdr × Items) (its : Items)
    (hfg : ∀ h k, Occ h k its → h.id = t → f h k = g h k) : its.modify t f = its.modify t g := by
  induction its with
  | nil => rfl
  | text c r ih => simp only [Items.modify]; rw [ih hfg]
  | elem hd k r ihk ihr =>
    have ihk := ihk (fun h0 k0 ho => hfg h0 k0 (Or.inr (Or.inl ho)))
    have ihr := ihr (fun h0 k0 ho => hfg h0 k0 (Or.inr (Or.inr ho)))
    by_cases heq : hd.id = t
    · rw [modify_elem_eq t f hd k r heq, modify_elem_eq t g hd k r heq, hfg hd k (Or.inl ⟨rfl, rfl⟩) heq, ihr]
    · rw [modify_elem_ne t f hd k r heq, modify_elem_ne t g hd k r heq, ihk, ihr]

/-- two edits of the same node, one after the other -/
theorem modify_modify (t : Nat) (f1 f2 : Hdr → Items → Hdr × Items) (its : Items)
    (hf1 : ∀ h k, h.id = t → (f1 h k).1.id = t) :
    (its.modify t f1).modify t f2 = its.modify t fun h k => f2 (f1 h k).1 (f1 h k).2 := by
  induction its with
  | nil => rfl
  | text c r ih => simp only [Items.modify]; rw [ih]
  | elem hd k r ihk ihr =>
    by_cases heq : hd.id = t
    · rw [modify_elem_eq t f1 hd k r heq, modify_elem_eq t _ hd k r heq,
        modify_elem_eq t f2 _ _ _ (hf1 hd k heq), ihr]
    · rw [modify_elem_ne t f1 hd k r heq, modify_elem_ne t _ hd k r heq, modify_elem_ne t f2 hd _ _ heq, ihk, ihr]

/-! ### the located reference element -/

theorem SetRefRun.facts {w : World} {x t k : Nat} {c : List (Hdr × Items)} {h : Hdr} {kids : Items} {kt : Nat}
    {tc : List (Hdr × Items)} {it ver : Nat} {h' : Hdr} (r : SetRefRun S V w x t k c h kids kt tc it ver h') :
    ∃ m, w.models[k]? = some m ∧ w.models[k]! = m ∧ m ∈ w.models ∧ m.rootItems.chain x = some c ∧ lastOf c = (h, kids) ∧
      Occ h kids m.rootItems ∧ h.id = x := by
  obtain ⟨m, hm1, hm2, hmem, hc⟩ := locate_chain w x k c r.locX
  have hl := hdrOf_locate w x k c h kids r.locX r.hdr
  obtain ⟨ho, hid⟩ := chain_occ x m.rootItems c hc
  rw [hl] at ho hid
  exact ⟨m, hm1, hm2, hmem, hc, hl, ho, hid⟩

/-- the header after DEST was set -/
def setRefHdr (it ver : Nat) (h0 : Hdr) : Hdr := (setAttrHdr S V h0 V.nmDest (.enum it) ver).getD h0

/-- the edit of a successful call, as a function of the node it meets -/
def setRefF (it ver : Nat) (newRef : Bytes) : Hdr → Items → Hdr × Items :=
  fun h0 k0 => (setRefHdr S V it ver h0, refKids newRef k0)

/-- the header part of the edit, as a function of the node it meets: the edit of `set_attribute` -/
def setRefG (it ver : Nat) : Hdr → Items → Hdr × Items :=
  fun h0 k0 => (setRefHdr S V it ver h0, k0)

/-- with unique ids the constant edit of the model is the structural one -/
theorem SetRefRun.modify_ok {w : World} {x t k : Nat} {c : List (Hdr × Items)} {h : Hdr} {kids : Items} {kt : Nat}
    {tc : List (Hdr × Items)} {it ver : Nat} {h' : Hdr} (r : SetRefRun S V w x t k c h kids kt tc it ver h')
    (hn : (w.models[k]!).rootItems.ids.Nodup) (newRef : Bytes) :
    ((w.models[k]!).rootItems.modify x fun _ _ => (h', refKids newRef kids)) =
      (w.models[k]!).rootItems.modify x (setRefF S V it ver newRef) := by
  obtain ⟨m, _, hm2, _, _, _, ho, hid⟩ := r.facts
  rw [hm2] at hn ⊢
  apply modify_congr_occ
  intro h0 k0 ho' he
  obtain ⟨e1, e2⟩ := occ_unique m.rootItems hn h0 h k0 kids ho' ho (he.trans hid.symm)
  subst e1; subst e2
  simp only [setRefF, setRefHdr, r.hattr, Option.getD_some]

/-! ### C03 / C10: tree well-formed, file sets consistent -/

/-- element ids are unique within every model (part of `WInv`) -/
def WIds (w : World) : Prop := ∀ m ∈ w.models, m.rootItems.ids.Nodup

theorem WIds.of_winv {w : World} (hw : WInv S vOk w) : WIds w := fun m hm => (hw m hm).ids

theorem refKids_wf (newRef : Bytes) (k : Items) (exp : PRef) (hk : k.wf exp) : (refKids newRef k).wf exp := by
  cases k with
  | nil => trivial
  | text _ r => exact hk
  | elem _ _ r => exact hk.2.2

theorem refKids_filesOk (newRef : Bytes) (k : Items) (pe : List Nat) (hk : FilesOk pe k) : FilesOk pe (refKids newRef k) := by
  cases k with
  | nil => trivial
  | text _ r => exact hk
  | elem _ _ r => exact hk.2.2

theorem setRefHdr_keeps (it ver : Nat) (h0 : Hdr) :
    (setRefHdr S V it ver h0).id = h0.id ∧ (setRefHdr S V it ver h0).name = h0.name ∧
    (setRefHdr S V it ver h0).ety = h0.ety ∧ (setRefHdr S V it ver h0).files = h0.files ∧
    (setRefHdr S V it ver h0).parent = h0.parent :=
  ⟨(setAttrHdr_keeps4 S V h0 _ _ _).1, (setAttrHdr_keeps4 S V h0 _ _ _).2.1, (setAttrHdr_keeps4 S V h0 _ _ _).2.2.1,
    (setAttrHdr_keeps4 S V h0 _ _ _).2.2.2, (setAttrHdr_keeps S V h0 _ _ _).2⟩

theorem opSetRef_wf (w : World) (x t : Nat) (hn : WIds w) (hw : w.wf) : (opSetRef S V w x t).1.wf := by
  rcases opSetRef_cases S V w x t with e | ⟨k, c, h, kids, kt, tc, it, ver, h', r, e⟩
  · rw [e]; exact hw
  · rw [e]
    obtain ⟨m, _, hm2, hmem, _⟩ := r.facts
    have hnk : (w.models[k]!).rootItems.ids.Nodup := by rw [hm2]; exact hn m hmem
    split
    · apply wf_update w k _ _ hw ?_ rfl
      apply wfM_of_eq (Model.setRoot _ _) _ rfl rfl
      rw [r.modify_ok S V hnk]
      apply wfM_modify _ _ _ _ (wfM_getElem! w k hw)
      intro h0 k0 _
      exact ⟨(setRefHdr_keeps S V it ver h0).1, (setRefHdr_keeps S V it ver h0).2.2.2.2,
        fun hk => refKids_wf _ k0 _ hk⟩
    · exact hw

theorem opSetRef_ok (w : World) (x t : Nat) (hn : WIds w) (hw : w.filesOk) : (opSetRef S V w x t).1.filesOk := by
  rcases opSetRef_cases S V w x t with e | ⟨k, c, h, kids, kt, tc, it, ver, h', r, e⟩
  · rw [e]; exact hw
  · rw [e]
    obtain ⟨m, _, hm2, hmem, _⟩ := r.facts
    have hnk : (w.models[k]!).rootItems.ids.Nodup := by rw [hm2]; exact hn m hmem
    split
    · apply filesOk_update w k _ _ hw ?_ rfl
      apply filesOk_of_eq (Model.setRoot _ _) _ rfl rfl
      rw [r.modify_ok S V hnk]
      apply setRoot_ok _ _ (getElem!_ok w k hw)
      apply rootOk_modify _ _ _ _ (getElem!_ok w k hw)
      intro h0 k0 pe hk
      exact ⟨(setRefHdr_keeps S V it ver h0).2.2.2.1, refKids_filesOk _ k0 pe hk⟩
    · exact hw

/-- **1.** `set_reference_target` keeps the tree well-formed and the file sets consistent.  The hypothesis `WIds` (element ids
are unique within a model; a part of `WInv`) cannot be dropped: see `opSetRef_inv_needs_ids` below. -/
theorem opSetRef_inv (w : World) (x t : Nat) (hn : WIds w) (h : Inv w) : Inv (opSetRef S V w x t).1 :=
  ⟨opSetRef_wf S V w x t hn h.1, opSetRef_ok S V w x t hn h.2⟩

theorem opSetRef_inv' (w : World) (x t : Nat) (hw : WInv S vOk w) (h : Inv w) : Inv (opSetRef S V w x t).1 :=
  opSetRef_inv S V w x t (WIds.of_winv S vOk hw) h

/-! ### the edited model, in two steps: the content is replaced, then the header is edited -/

/-- the tree of the model after a successful call -/
theorem SetRefRun.root_ok {w : World} {x t k : Nat} {c : List (Hdr × Items)} {h : Hdr} {kids : Items} {kt : Nat}
    {tc : List (Hdr × Items)} {it ver : Nat} {h' : Hdr} (r : SetRefRun S V w x t k c h kids kt tc it ver h')
    (hn : (w.models[k]!).rootItems.ids.Nodup) (newRef : Bytes) (R : List (Bytes × List Nat)) :
    ({ (w.models[k]!).setRoot ((w.models[k]!).rootItems.modify x fun _ _ => (h', refKids newRef kids)) with
        refs := R } : Model).rootItems =
      ((w.models[k]!).rootItems.modify x fun h0 _ => (h0, refKids newRef kids)).modify x (setRefG S V it ver) := by
  show ((w.models[k]!).setRoot _).rootItems = _
  rw [rootItems_setRoot_modify, modify_modify x _ _ _ (fun _ _ e => e)]
  obtain ⟨m, _, hm2, _, _, _, ho, hid⟩ := r.facts
  rw [hm2] at hn ⊢
  apply modify_congr_occ
  intro h0 k0 ho' he
  obtain ⟨e1, e2⟩ := occ_unique m.rootItems hn h0 h k0 kids ho' ho (he.trans hid.symm)
  subst e1; subst e2
  simp only [setRefG, setRefHdr, r.hattr, Option.getD_some]

/-! ### C04: the index invariant -/

/-- a reference element is not a SHORT-NAME -/
theorem ref_not_sn (hR : RefWF S) {nid : Nat} {m : Model} (hm : MInv S vOk nid m) (x : Nat) (c : List (Hdr × Items))
    (hc : m.rootItems.chain x = some c) (href : S.isRef (lastOf c).1.ety.typ = true) :
    (lastOf c).1.name ≠ S.nmShortName := by
  intro hname
  obtain ⟨ph, rest, oldName, _, _, _, hnamed, hsub, htyp, _, _⟩ := sn_context S vOk hm x c hc hname
  have := hR.sn_not_ref ph.ety.typ _ hnamed hsub
  rw [← htyp, href] at this
  cases this

theorem refKids_childElems (newRef : Bytes) (k : Items) (hk : k.childElems = []) : (refKids newRef k).childElems = [] := by
  cases k with
  | nil => rfl
  | text _ r => exact hk
  | elem _ _ r => simp [Items.childElems] at hk

/-- **2.** `set_reference_target` keeps the index invariant.  `WRLeaf` (a reference element has no sub-elements, a part of
`CInv`) is needed: the call replaces the first content item of the reference element, whatever it is. -/
theorem opSetRef_winv (hR : RefWF S) (w : World) (x t : Nat) (hw : WInv S vOk w) (hl : WRLeaf S w) :
    WInv S vOk (opSetRef S V w x t).1 := by
  rcases opSetRef_cases S V w x t with e | ⟨k, c, h, kids, kt, tc, it, ver, h', r, e⟩
  · rw [e]; exact hw
  · rw [e]
    obtain ⟨m, _, hm2, hmem, hc, hlast, ho, hid⟩ := r.facts
    have hm := hw m hmem
    have hnk : (w.models[k]!).rootItems.ids.Nodup := by rw [hm2]; exact hm.ids
    have hkeep : ∀ h0 : Hdr, (setRefHdr S V it ver h0).id = h0.id ∧ (setRefHdr S V it ver h0).name = h0.name ∧
        (setRefHdr S V it ver h0).ety = h0.ety ∧ (setRefHdr S V it ver h0).files = h0.files :=
      fun h0 => ⟨(setRefHdr_keeps S V it ver h0).1, (setRefHdr_keeps S V it ver h0).2.1,
        (setRefHdr_keeps S V it ver h0).2.2.1, (setRefHdr_keeps S V it ver h0).2.2.2.1⟩
    split
    · refine winv_update S vOk w _ k _ hw (Nat.le_refl _) ?_ rfl
      have hce : kids.childElems = [] := hl m hmem h kids ho r.isRef
      have hname : (lastOf c).1.name ≠ S.nmShortName := ref_not_sn S vOk hR hm x c hc (by rw [hlast]; exact r.isRef)
      -- step 1: the content
      have hm1 : MInv S vOk w.nextId (m.setRoot (m.rootItems.modify x fun h0 _ => (h0, refKids (pathOfChain S tc) kids))) :=
        minv_set_content S vOk _ m _ x c _ hm hc hname (by rw [hlast]; exact hce) (refKids_childElems _ kids hce)
          (rootItems_setRoot_modify m x _) (setRoot_modify_fields m x _).1 (setRoot_modify_fields m x _).2.2.2
          (setRoot_modify_fields m x _).2.2.1
      -- step 2: the header
      refine minv_hdr_only S vOk _ _ _ x (setRefHdr S V it ver) hm1 hkeep ?_ ?_ ?_ ?_
      · rw [rootItems_setRoot_modify m x _, ← hm2]
        exact r.root_ok S V hnk _ _
      · rw [(setRoot_modify_fields m x _).1, ← hm2]
        exact (setRoot_modify_fields _ x _).1
      · rw [(setRoot_modify_fields m x _).2.2.2, ← hm2]
        exact (setRoot_modify_fields _ x _).2.2.2
      · rw [(setRoot_modify_fields m x _).2.2.1, ← hm2]
        exact (setRoot_modify_fields _ x _).2.2.1
    · exact hw

/-! ### `WRLeaf`, `WRootTy` -/

theorem refLeaf_refKids (newRef : Bytes) (k : Items) (hk : RefLeaf S k) : RefLeaf S (refKids newRef k) := by
  cases k with
  | nil => exact (refLeaf_text S _ _).mpr (refLeaf_nil S)
  | text c r => exact (refLeaf_text S _ _).mpr ((refLeaf_text S c r).mp hk)
  | elem hd kk r => exact (refLeaf_text S _ _).mpr ((refLeaf_elem S hd kk r).mp hk).2.2

/-- **3a.** a reference element still has no sub-elements -/
theorem opSetRef_leaf (w : World) (x t : Nat) (hn : WIds w) (hl : WRLeaf S w) : WRLeaf S (opSetRef S V w x t).1 := by
  rcases opSetRef_cases S V w x t with e | ⟨k, c, h, kids, kt, tc, it, ver, h', r, e⟩
  · rw [e]; exact hl
  · rw [e]
    obtain ⟨m, _, hm2, hmem, _⟩ := r.facts
    have hnk : (w.models[k]!).rootItems.ids.Nodup := by rw [hm2]; exact hn m hmem
    split
    · refine wrleaf_update S w _ k _ hl ?_ rfl
      show RefLeaf S ((w.models[k]!).setRoot _).rootItems
      rw [rootItems_setRoot_modify, r.modify_ok S V hnk, hm2]
      refine refLeaf_modify S x _ _ ?_ (hl m hmem)
      intro h0 k0 _ _ a b
      refine ⟨fun hx => refKids_childElems _ k0 (a ?_), refLeaf_refKids S _ k0 b⟩
      rw [show (setRefF S V it ver (pathOfChain S tc) h0 k0).1.ety = h0.ety from (setRefHdr_keeps S V it ver h0).2.2.1] at hx
      exact hx
    · exact hl

/-- **3b.** the root element keeps its element type (no hypothesis: the root is the first node navigation meets) -/
theorem opSetRef_rootTy (w : World) (x t : Nat) (hT : WRootTy S w) : WRootTy S (opSetRef S V w x t).1 := by
  rcases opSetRef_cases S V w x t with e | ⟨k, c, h, kids, kt, tc, it, ver, h', r, e⟩
  · rw [e]; exact hT
  · rw [e]
    obtain ⟨m, _, hm2, hmem, hc, hlast, _, _⟩ := r.facts
    have hty : h'.ety = h.ety := by
      have := (setAttrHdr_keeps4 S V h V.nmDest (.enum it) ver).2.2.1
      rw [r.hattr] at this
      exact this
    have key : ∀ (f : Hdr → Items → Hdr × Items), (∀ h0 k0, (f h0 k0).1 = h') →
        (m.setRoot (m.rootItems.modify x f)).rootHdr.ety = m.rootHdr.ety := by
      intro f hf
      by_cases he : m.rootHdr.id = x
      · have hcc : c = [(m.rootHdr, m.rootKids)] := by
          rw [rootItems_eq] at hc
          simp only [Items.chain, he, if_true] at hc
          exact (Option.some.inj hc).symm
        have hh : h = m.rootHdr := by
          rw [hcc] at hlast
          exact (congrArg Prod.fst hlast).symm
        rw [rootItems_eq, modify_elem_eq x f _ _ _ he]
        show (f m.rootHdr m.rootKids).1.ety = _
        rw [hf, hty, hh]
      · rw [rootItems_eq, modify_elem_ne x f _ _ _ he]
        rfl
    split
    · refine wrootTy_update S w _ k _ hT ?_ rfl
      rw [hm2]
      exact (key _ (fun _ _ => rfl)).trans (hT m hmem)
    · exact hT

/-! ### `WROne`: a reference element holds at most one content item -/

theorem refKids_length (newRef : Bytes) (k : Items) (hk : k.length ≤ 1) : (refKids newRef k).length ≤ 1 := by
  cases k with
  | nil => exact Nat.le_refl 1
  | text _ r => exact hk
  | elem _ _ r => exact hk

theorem refOne_refKids (newRef : Bytes) (k : Items) (hk : RefOne S k) : RefOne S (refKids newRef k) := by
  cases k with
  | nil => exact (refOne_text S _ _).mpr (refOne_nil S)
  | text c r => exact (refOne_text S _ _).mpr ((refOne_text S c r).mp hk)
  | elem hd kk r => exact (refOne_text S _ _).mpr ((refOne_elem S hd kk r).mp hk).2.2

theorem opSetRef_one (w : World) (x t : Nat) (hn : WIds w) (hl : WROne S w) : WROne S (opSetRef S V w x t).1 := by
  rcases opSetRef_cases S V w x t with e | ⟨k, c, h, kids, kt, tc, it, ver, h', r, e⟩
  · rw [e]; exact hl
  · rw [e]
    obtain ⟨m, _, hm2, hmem, _⟩ := r.facts
    have hnk : (w.models[k]!).rootItems.ids.Nodup := by rw [hm2]; exact hn m hmem
    split
    · refine wrone_update S w _ k _ hl ?_ rfl
      show RefOne S ((w.models[k]!).setRoot _).rootItems
      rw [rootItems_setRoot_modify, r.modify_ok S V hnk, hm2]
      refine refOne_modify S x _ _ ?_ (hl m hmem)
      intro h0 k0 _ _ a b
      refine ⟨fun hx => refKids_length _ k0 (a ?_), refOne_refKids S _ k0 b⟩
      rw [show (setRefF S V it ver (pathOfChain S tc) h0 k0).1.ety = h0.ety from (setRefHdr_keeps S V it ver h0).2.2.1] at hx
      exact hx
    · exact hl

/-! ### C05: the reverse reference map -/

/-- the arithmetic of the map update of `set_reference_target` against the registrations of the node -/
theorem setRefRefs_transfer (hR : RefWF S) (rs : List (Bytes × List Nat)) (its : Items) (hx : RefsExact S rs its) (h : Hdr)
    (kids : Items) (ho : Occ h kids its) (href : S.isRef h.ety.typ = true) (newRef : Bytes) :
    keysNodup (setRefRefs S rs h kids newRef h.id) ∧ refsNonempty (setRefRefs S rs h kids newRef h.id) ∧
    ∀ p id, (refsGet (setRefRefs S rs h kids newRef h.id) p).count id + (refOf S h kids).count (p, id) =
      (refsGet rs p).count id + (refOf S h (.text (.str newRef) .nil)).count (p, id) := by
  have hnew : refOf S h (.text (.str newRef) .nil) = [(newRef, h.id)] :=
    refOf_str S h newRef href (Or.inl (hR.ref_chars _ href))
  unfold setRefRefs
  split
  · rename_i o hcd
    have hofo : refOf S h kids = [(o, h.id)] := refOf_cd_str S h kids o href hcd
    have hpos : 1 ≤ (refsGet rs o).count h.id :=
      refsExact_has S _ _ hx h kids ho o h.id (by rw [hofo]; exact List.mem_singleton.mpr rfl)
    refine ⟨refsFix_keysNodup _ _ _ _ hx.1, refsFix_nonempty _ _ _ _ hx.1 hx.2.1, fun p id => ?_⟩
    rw [hofo, hnew]
    exact refsFix_transfer rs o newRef h.id hx.1 hpos p id
  · rename_i hcd
    have hofo : refOf S h kids = [] := refOf_cd_other S h kids (fun o e => hcd o e)
    refine ⟨refsAdd_keysNodup _ _ _ hx.1, refsAdd_nonempty _ _ _ hx.2.1, fun p id => ?_⟩
    rw [hofo, hnew]
    exact refsAdd_transfer rs newRef h.id hx.1 p id

/-- **4.** after the call the reverse reference map is exact.  `WROne` (a reference element holds at most one content item;
kept by every core operation, `applyOp_wrone`) is needed besides `CInv`: the call replaces the FIRST content item only. -/
theorem opSetRef_rinv (hR : RefWF S) (w : World) (x t : Nat) (h : CInv S vOk w) (h1 : WROne S w) :
    WRInv S (opSetRef S V w x t).1 := by
  obtain ⟨hw, hr, hl, _⟩ := h
  rcases opSetRef_cases S V w x t with e | ⟨k, c, h, kids, kt, tc, it, ver, h', r, e⟩
  · rw [e]; exact hr
  · rw [e]
    obtain ⟨m, _, hm2, hmem, hc, hlast, ho, hid⟩ := r.facts
    have hm := hw m hmem
    have hnk : (w.models[k]!).rootItems.ids.Nodup := by rw [hm2]; exact hm.ids
    by_cases hok : setRefOk S V h kids (pathOfChain S tc) ver = true
    · rw [if_pos hok]
      refine wrinv_update S w _ k _ hr ?_ rfl
      have hx := hr m hmem
      have hce : kids.childElems = [] := hl m hmem h kids ho r.isRef
      have hlen : kids.length ≤ 1 := h1 m hmem h kids ho r.isRef
      have hnk' : refKids (pathOfChain S tc) kids = .text (.str (pathOfChain S tc)) .nil := by
        rcases ref_content_shape kids hce hlen with rfl | ⟨cd, rfl⟩ <;> rfl
      obtain ⟨t1, t2, t3⟩ := setRefRefs_transfer S hR m.refs m.rootItems hx h kids ho r.isRef (pathOfChain S tc)
      rw [hid] at t1 t2 t3
      -- step 1: the content and the map
      let m1 : Model := { m.setRoot (m.rootItems.modify x fun h0 _ => (h0, refKids (pathOfChain S tc) kids)) with
        refs := setRefRefs S m.refs h kids (pathOfChain S tc) x }
      have hm1 : RefsExact S m1.refs m1.rootItems := by
        refine refsExact_set_content S m m1 x c (refKids (pathOfChain S tc) kids) hm.ids hc
          (by rw [hlast]; exact refEntries_no_elems S kids hce) (by rw [hnk']; rfl)
          (rootItems_setRoot_modify m x _) hx t1 t2 ?_
        intro p id
        rw [hlast, hnk']
        exact t3 p id
      -- step 2: the header
      refine refsExact_hdr_only S m1 _ x (setRefHdr S V it ver)
        (fun h0 => ⟨(setRefHdr_keeps S V it ver h0).1, (setRefHdr_keeps S V it ver h0).2.2.1⟩) ?_ ?_ hm1
      · show _ = (m.setRoot _).rootItems.modify x _
        rw [rootItems_setRoot_modify m x _, ← hm2]
        exact r.root_ok S V hnk _ _
      · show _ = setRefRefs S m.refs h kids (pathOfChain S tc) x
        rw [← hm2]
    · rw [if_neg hok]
      exact hr

/-- **4'.** the combined invariant (with `WROne`) after the call -/
theorem opSetRef_cinv (hR : RefWF S) (w : World) (x t : Nat) (h : CInv S vOk w) (h1 : WROne S w) :
    CInv S vOk (opSetRef S V w x t).1 ∧ WROne S (opSetRef S V w x t).1 :=
  ⟨⟨opSetRef_winv S V vOk hR w x t h.1 h.2.2.1, opSetRef_rinv S V vOk hR w x t h h1,
    opSetRef_leaf S V w x t (WIds.of_winv S vOk h.1) h.2.2.1, opSetRef_rootTy S V w x t h.2.2.2⟩,
   opSetRef_one S V w x t (WIds.of_winv S vOk h.1) h1⟩

/-! ### the answers of the call -/

/-- **5.** a refusal leaves the world unchanged -/
theorem opSetRef_err_frame (w : World) (x t : Nat) (he : (opSetRef S V w x t).2 = .err) : (opSetRef S V w x t).1 = w := by
  rcases opSetRef_cases S V w x t with e | ⟨k, c, h, kids, kt, tc, it, ver, h', r, e⟩
  · rw [e]
  · by_cases hok : setRefOk S V h kids (pathOfChain S tc) ver = true
    · rw [e, if_pos hok] at he
      cases he
    · rw [e, if_neg hok]

/-- a call that is not answered with an error: everything was found and accepted, the world is `setRefOkWorld` -/
theorem opSetRef_ok_cases (w : World) (x t : Nat) (hne : (opSetRef S V w x t).2 ≠ .err) :
    ∃ k c h kids kt tc it ver h', SetRefRun S V w x t k c h kids kt tc it ver h' ∧
      setRefOk S V h kids (pathOfChain S tc) ver = true ∧
      opSetRef S V w x t = (setRefOkWorld S w x k h' h kids (pathOfChain S tc), .ok "") := by
  rcases opSetRef_cases S V w x t with e | ⟨k, c, h, kids, kt, tc, it, ver, h', r, e⟩
  · rw [e] at hne; exact absurd rfl hne
  · by_cases hok : setRefOk S V h kids (pathOfChain S tc) ver = true
    · rw [if_pos hok] at e
      exact ⟨k, c, h, kids, kt, tc, it, ver, h', r, hok, e⟩
    · rw [e, if_neg hok] at hne
      exact absurd rfl hne

/-- with `RefWF` the call succeeds exactly when everything is found and accepted and the character data specification of the
reference type accepts the path of the target: a refusal at the last step is a refusal of that value -/
theorem SetRefRun.ok_iff (hR : RefWF S) {w : World} {x t k : Nat} {c : List (Hdr × Items)} {h : Hdr} {kids : Items} {kt : Nat}
    {tc : List (Hdr × Items)} {it ver : Nat} {h' : Hdr} (r : SetRefRun S V w x t k c h kids kt tc it ver h') :
    setRefOk S V h kids (pathOfChain S tc) ver = true ↔
      ∃ sp, S.chardataSpec h.ety.typ = some sp ∧ checkValue V (.str (pathOfChain S tc)) sp ver = true := by
  obtain ⟨sp, hsp, _⟩ := hR.ref_spec _ r.isRef
  unfold setRefOk
  rw [hsp, hR.ref_chars _ r.isRef]
  constructor
  · intro hh
    exact ⟨sp, rfl, by simpa using hh⟩
  · rintro ⟨sp', e1, e2⟩
    cases e1
    simpa using e2

/-! ### navigation in the edited world -/

/-- what an edit of node `t` does to a node of a chain -/
def modG (t : Nat) (f : Hdr → Items → Hdr × Items) (hk : Hdr × Items) : Hdr × Items :=
  if hk.1.id = t then f hk.1 hk.2 else (hk.1, hk.2.modify t f)

/-- an edit of a node without sub-elements that leaves it without sub-elements: every chain of the new tree is the old
chain, node by node -/
theorem chain_modify_gen (t y : Nat) (f : Hdr → Items → Hdr × Items) (its : Items)
    (hf : ∀ h k, Occ h k its → h.id = t → (f h k).1.id = h.id ∧ k.ids = [] ∧ (f h k).2.ids = []) :
    (its.modify t f).chain y = (its.chain y).map (List.map (modG t f)) := by
  induction its with
  | nil => rfl
  | text c r ih => simp only [Items.modify, Items.chain]; exact ih hf
  | elem hd k r ihk ihr =>
    have ihk := ihk (fun h0 k0 ho => hf h0 k0 (Or.inr (Or.inl ho)))
    have ihr := ihr (fun h0 k0 ho => hf h0 k0 (Or.inr (Or.inr ho)))
    by_cases heq : hd.id = t
    · obtain ⟨e1, hk0, hnk⟩ := hf hd k (Or.inl ⟨rfl, rfl⟩) heq
      have h1 : (f hd k).2.chain y = none := chain_none_of_not_mem y _ (by rw [hnk]; exact List.not_mem_nil)
      have h2 : k.chain y = none := chain_none_of_not_mem y k (by rw [hk0]; exact List.not_mem_nil)
      rw [modify_elem_eq t _ hd k r heq]
      simp only [Items.chain, e1]
      by_cases hy : hd.id = y
      · simp only [if_pos hy, Option.map_some, List.map_cons, List.map_nil, modG, if_pos heq]
      · simp only [if_neg hy, h1, h2, ihr]
    · rw [modify_elem_ne t _ hd k r heq]
      simp only [Items.chain]
      by_cases hy : hd.id = y
      · simp only [if_pos hy, Option.map_some, List.map_cons, List.map_nil, modG, if_neg heq]
      · simp only [if_neg hy, ihk]
        cases k.chain y with
        | none => simp only [Option.map_none, ihr]
        | some c => simp only [Option.map_some, List.map_cons, modG, if_neg heq]

theorem findSome?_map_congr {α β γ : Type} (l : List α) (f : α → Option β) (g : α → Option γ) (φ : β → γ)
    (h : ∀ a ∈ l, g a = (f a).map φ) : l.findSome? g = (l.findSome? f).map φ := by
  induction l with
  | nil => rfl
  | cons a l ih =>
    simp only [List.findSome?_cons, h a List.mem_cons_self]
    cases f a with
    | some b => rfl
    | none => exact ih (fun b hb => h b (List.mem_cons_of_mem _ hb))

/-- navigation after one node of model `k` was edited (the node has no sub-elements, before and after) -/
theorem locate_setModel_modify (w : World) (k : Nat) (m m' : Model) (x : Nat) (f : Hdr → Items → Hdr × Items)
    (hk : w.models[k]? = some m) (hroot : m'.rootItems = m.rootItems.modify x f)
    (hf : ∀ h k0, Occ h k0 m.rootItems → h.id = x → (f h k0).1.id = h.id ∧ k0.ids = [] ∧ (f h k0).2.ids = [])
    (y : Nat) :
    locate (setModel w k m') y =
      (locate w y).map fun jc => (jc.1, if jc.1 = k then jc.2.map (modG x f) else jc.2) := by
  unfold locate
  have hlen : (setModel w k m').models.length = w.models.length := by simp [setModel]
  rw [hlen]
  apply findSome?_map_congr
  intro j _
  by_cases hjk : j = k
  · subst hjk
    have hlt : j < w.models.length := by
      cases hx : decide (j < w.models.length) with
      | true => exact of_decide_eq_true hx
      | false =>
        have : ¬ j < w.models.length := of_decide_eq_false hx
        rw [List.getElem?_eq_none (by omega)] at hk
        cases hk
    have h1 : (setModel w j m').models[j]? = some m' := by
      simp only [setModel]
      exact List.getElem?_set_self hlt
    rw [h1, hk]
    simp only [hroot, chain_modify_gen x y f m.rootItems hf]
    cases m.rootItems.chain y with
    | none => rfl
    | some c => simp only [Option.map_some, if_true]
  · have h1 : (setModel w k m').models[j]? = w.models[j]? := by
      simp only [setModel]
      exact List.getElem?_set_ne (Ne.symm hjk)
    rw [h1]
    cases w.models[j]? with
    | none => rfl
    | some mm =>
      simp only
      cases mm.rootItems.chain y with
      | none => rfl
      | some c => simp only [Option.map_some, if_neg hjk]

theorem lastOf_map (g : Hdr × Items → Hdr × Items) (c : List (Hdr × Items)) (hc : c ≠ []) :
    lastOf (c.map g) = g (lastOf c) := by
  unfold lastOf
  rw [List.getLast?_map]
  cases hl : c.getLast? with
  | none => exact absurd (List.getLast?_eq_none_iff.mp hl) hc
  | some a => rfl

theorem locate_ne_nil (w : World) (y j : Nat) (c : List (Hdr × Items)) (h : locate w y = some (j, c)) : c ≠ [] := by
  obtain ⟨m, _, _, _, hc⟩ := locate_chain w y j c h
  exact chain_ne_nil y m.rootItems c hc

/-! ### the DEST attribute -/

theorem find?_map_set (l : List (Nat × CDv)) (a : Nat) (v : CDv) (h : l.any (·.1 == a) = true) :
    (l.map fun e => if e.1 == a then (a, v) else e).find? (fun e => e.1 == a) = some (a, v) := by
  induction l with
  | nil => simp at h
  | cons e l ih =>
    simp only [List.map_cons]
    by_cases he : (e.1 == a) = true
    · simp only [he, if_true, List.find?_cons, beq_self_eq_true]
    · have he' : (e.1 == a) = false := by simpa using he
      simp only [he', Bool.false_eq_true, if_false, List.find?_cons]
      apply ih
      simpa [List.any_cons, he'] using h

theorem find?_append_new (l : List (Nat × CDv)) (a : Nat) (v : CDv) (h : ¬ l.any (·.1 == a) = true) :
    (l ++ [(a, v)]).find? (fun e => e.1 == a) = some (a, v) := by
  induction l with
  | nil => simp
  | cons e l ih =>
    have he' : (e.1 == a) = false := by
      cases hx : (e.1 == a) with
      | false => rfl
      | true => exact absurd (by simp [List.any_cons, hx]) h
    simp only [List.cons_append, List.find?_cons, he']
    apply ih
    intro hx
    exact h (by simp only [List.any_cons, hx, Bool.or_true])

/-- after `set_attribute_internal` the attribute has the value -/
theorem attrVal_setAttrHdr (h h' : Hdr) (a : Nat) (v : CDv) (ver : Nat) (hs : setAttrHdr S V h a v ver = some h') :
    attrVal h' a = some v := by
  unfold setAttrHdr at hs
  split at hs
  · cases hs
  · split at hs
    · cases hs
    · split at hs
      · cases hs
      · split at hs
        · rename_i hany
          cases hs
          simp only [attrVal, find?_map_set h.attrs a v hany]
        · rename_i hany
          cases hs
          simp only [attrVal, find?_append_new h.attrs a v hany]

/-! ### C05 / C06: the postcondition of a successful call -/

theorem isIdentifiable_iff (h : Hdr) (k : Items) : isIdentifiable S h k = true ↔ S.isNamed h.ety.typ = true ∧ firstIsSn S k := by
  cases k <;> simp [isIdentifiable, firstIsSn]

/-- an identifiable element of a model under the index invariant is in the index under the path of its chain -/
theorem idxGet_of_identifiable {nid : Nat} {m : Model} (hm : MInv S vOk nid m) (t : Nat) (tc : List (Hdr × Items))
    (hc : m.rootItems.chain t = some tc) (hi : isIdentifiable S (lastOf tc).1 (lastOf tc).2 = true) :
    idxGet m.index (pathOfChain S tc) = some t := by
  obtain ⟨ho, _⟩ := chain_occ t m.rootItems tc hc
  obtain ⟨hko, _⟩ := kidsOk_of_occ S _ hm.sn _ _ ho
  obtain ⟨_, n, _, _, _, hn, _⟩ := (itemName_of_kidsOk S _ _ hko).1 ((isIdentifiable_iff S _ _).mp hi).2
  have hfn := findNamed_chain S t m.rootItems tc hc [] n hn
  rw [chainPre_nil] at hfn
  exact (hm.exact _ _).mpr (findNamed_mem S _ [] t _ hfn)

/-- what holds after a call of `set_reference_target` that was not answered with an error: `c`, `tc` = the chains of the
reference element and of the target before the call, `it` = the DEST item chosen, `c'`, `tc'` = the chains after the call -/
structure SetRefPost (w w' : World) (x t k : Nat) (c : List (Hdr × Items)) (kt : Nat) (tc : List (Hdr × Items)) (it : Nat)
    (c' tc' : List (Hdr × Items)) : Prop where
  locX : locate w x = some (k, c)
  locT : locate w t = some (kt, tc)
  isRef : S.isRef (lastOf c).1.ety.typ = true
  ident : isIdentifiable S (lastOf tc).1 (lastOf tc).2 = true
  item : setRefItem S V (lastOf c).1 (lastOf tc).1 = some it
  /-- the reference element is where it was, with its identity and type -/
  locX' : locate w' x = some (k, c')
  id' : (lastOf c').1.id = x
  ety' : (lastOf c').1.ety = (lastOf c).1.ety
  /-- it holds the path of the target, as its only content item -/
  kids' : (lastOf c').2 = .text (.str (pathOfChain S tc)) .nil
  cdata' : charData S (lastOf c').1 (lastOf c').2 = some (.str (pathOfChain S tc))
  /-- DEST is the chosen item -/
  dest' : attrVal (lastOf c').1 V.nmDest = some (.enum it)
  /-- the target is where it was, with the same header -/
  ne : x ≠ t
  locT' : locate w' t = some (kt, tc')
  hdrT' : (lastOf tc').1 = (lastOf tc).1
  /-- the index of the model of the reference element is unchanged and resolves the text to the target if the target is
  in the same model -/
  index' : (w'.models[k]!).index = (w.models[k]!).index
  resolves : kt = k → idxGet (w'.models[k]!).index (pathOfChain S tc) = some t

/-- the answer is `ok` (empty payload) or `err` -/
theorem opSetRef_ans (w : World) (x t : Nat) : (opSetRef S V w x t).2 = .ok "" ∨ (opSetRef S V w x t).2 = .err := by
  rcases opSetRef_cases S V w x t with e | ⟨k, c, h, kids, kt, tc, it, ver, h', r, e⟩
  · rw [e]; exact Or.inr rfl
  · rw [e]; split
    · exact Or.inl rfl
    · exact Or.inr rfl

/-- **6a.** the postcondition of `set_reference_target` -/
theorem opSetRef_post (hR : RefWF S) (w : World) (x t : Nat) (h : CInv S vOk w) (h1 : WROne S w)
    (hne : (opSetRef S V w x t).2 ≠ .err) :
    ∃ k c kt tc it c' tc', SetRefPost S V w (opSetRef S V w x t).1 x t k c kt tc it c' tc' := by
  obtain ⟨hw, _, hl, _⟩ := h
  obtain ⟨k, c, h, kids, kt, tc, it, ver, h', r, hok, e⟩ := opSetRef_ok_cases S V w x t hne
  obtain ⟨m, hm1, hm2, hmem, hc, hlast, ho, hid⟩ := r.facts
  have hm := hw m hmem
  have hnk : (w.models[k]!).rootItems.ids.Nodup := by rw [hm2]; exact hm.ids
  have hce : kids.childElems = [] := hl m hmem h kids ho r.isRef
  have hlen : kids.length ≤ 1 := h1 m hmem h kids ho r.isRef
  have hnk' : refKids (pathOfChain S tc) kids = .text (.str (pathOfChain S tc)) .nil := by
    rcases ref_content_shape kids hce hlen with rfl | ⟨cd, rfl⟩ <;> rfl
  -- the new model
  generalize hm' : ({ (w.models[k]!).setRoot ((w.models[k]!).rootItems.modify x fun _ _ =>
      (h', refKids (pathOfChain S tc) kids)) with
      refs := setRefRefs S (w.models[k]!).refs h kids (pathOfChain S tc) x } : Model) = m' at *
  have hw' : (opSetRef S V w x t).1 = setModel w k m' := by rw [e, ← hm']; rfl
  have hroot : m'.rootItems = m.rootItems.modify x (setRefF S V it ver (pathOfChain S tc)) := by
    rw [← hm']
    show ((w.models[k]!).setRoot _).rootItems = _
    rw [rootItems_setRoot_modify, r.modify_ok S V hnk, hm2]
  have hidx : m'.index = m.index := by
    rw [← hm']
    show ((w.models[k]!).setRoot _).index = _
    rw [(setRoot_modify_fields _ x _).1, hm2]
  have hf : ∀ h0 k0, Occ h0 k0 m.rootItems → h0.id = x →
      (setRefF S V it ver (pathOfChain S tc) h0 k0).1.id = h0.id ∧ k0.ids = [] ∧
      (setRefF S V it ver (pathOfChain S tc) h0 k0).2.ids = [] := by
    intro h0 k0 ho' he
    obtain ⟨e1, e2⟩ := occ_unique m.rootItems hm.ids h0 h k0 kids ho' ho (he.trans hid.symm)
    subst e1; subst e2
    exact ⟨(setRefHdr_keeps S V it ver h0).1, ids_of_childElems_nil k0 hce,
      ids_of_childElems_nil _ (refKids_childElems _ k0 hce)⟩
  have hloc := locate_setModel_modify w k m m' x (setRefF S V it ver (pathOfChain S tc)) hm1 hroot hf
  have hlt : k < w.models.length := by
    cases hx : decide (k < w.models.length) with
    | true => exact of_decide_eq_true hx
    | false =>
      have : ¬ k < w.models.length := of_decide_eq_false hx
      rw [List.getElem?_eq_none (by omega)] at hm1
      cases hm1
  have hget : (setModel w k m').models[k]! = m' := by
    have : (setModel w k m').models[k]? = some m' := by
      simp only [setModel]
      exact List.getElem?_set_self hlt
    simp [getElem!_def, this]
  -- the reference element and the target are different elements
  have hxt : x ≠ t := by
    intro hx
    subst hx
    have := r.locX.symm.trans r.locT
    obtain ⟨_, e2⟩ := Prod.mk.inj (Option.some.inj this)
    subst e2
    have hi := r.ident
    rw [hlast] at hi
    have hfs := ((isIdentifiable_iff S h kids).mp hi).2
    cases kids with
    | nil => exact hfs
    | text _ _ => exact hfs
    | elem _ _ _ => simp [Items.childElems] at hce
  -- the chains after the call
  have hcne := locate_ne_nil w x k c r.locX
  have htne := locate_ne_nil w t kt tc r.locT
  have hlx : locate (setModel w k m') x = some (k, c.map (modG x (setRefF S V it ver (pathOfChain S tc)))) := by
    rw [hloc x, r.locX]
    simp only [Option.map_some, if_true]
  have hlastx : lastOf (c.map (modG x (setRefF S V it ver (pathOfChain S tc)))) =
      (setRefHdr S V it ver h, .text (.str (pathOfChain S tc)) .nil) := by
    rw [lastOf_map _ c hcne, hlast]
    simp only [modG, hid, if_true, setRefF, hnk']
  obtain ⟨mt, hmt1, _, _, htc⟩ := locate_chain w t kt tc r.locT
  obtain ⟨_, htid⟩ := chain_occ t mt.rootItems tc htc
  have hlastt : (lastOf ((if kt = k then tc.map (modG x (setRefF S V it ver (pathOfChain S tc))) else tc))).1 =
      (lastOf tc).1 := by
    split
    · rw [lastOf_map _ tc htne]
      have : ¬ (lastOf tc).1.id = x := fun hx => hxt (hx.symm.trans htid)
      simp only [modG, if_neg this]
    · rfl
  have hh' : setRefHdr S V it ver h = h' := by simp only [setRefHdr, r.hattr, Option.getD_some]
  refine ⟨k, c, kt, tc, it, c.map (modG x (setRefF S V it ver (pathOfChain S tc))),
    (if kt = k then tc.map (modG x (setRefF S V it ver (pathOfChain S tc))) else tc), ?_⟩
  rw [hw']
  refine
    { locX := r.locX, locT := r.locT, isRef := by rw [hlast]; exact r.isRef, ident := r.ident,
      item := by rw [hlast]; exact r.item, locX' := hlx, id' := ?_, ety' := ?_, kids' := ?_, cdata' := ?_, dest' := ?_,
      ne := hxt, locT' := ?_, hdrT' := hlastt, index' := ?_, resolves := ?_ }
  · rw [hlastx]; exact ((setRefHdr_keeps S V it ver h).1).trans hid
  · rw [hlastx, hlast]; exact (setRefHdr_keeps S V it ver h).2.2.1
  · rw [hlastx]
  · rw [hlastx]
    have hty : (setRefHdr S V it ver h).ety.typ = h.ety.typ := by rw [(setRefHdr_keeps S V it ver h).2.2.1]
    simp only [charData, hty, hR.ref_chars _ r.isRef, true_or, if_true]
  · rw [hlastx, hh']
    exact attrVal_setAttrHdr S V h h' _ _ _ r.hattr
  · rw [hloc t, r.locT]
    simp only [Option.map_some]
  · rw [hget, hm2]; exact hidx
  · intro hk
    rw [hget, hidx]
    rw [hk, hm1] at hmt1
    have hmm : m = mt := Option.some.inj hmt1
    rw [← hmm] at htc
    exact idxGet_of_identifiable S vOk hm t tc htc r.ident

/-- from the postcondition: if the target is in the model of the reference element and its type accepts the chosen DEST
item, `get_reference_target` answers with the target -/
theorem SetRefPost.target {w w' : World} {x t k : Nat} {c : List (Hdr × Items)} {kt : Nat} {tc : List (Hdr × Items)}
    {it : Nat} {c' tc' : List (Hdr × Items)} (p : SetRefPost S V w w' x t k c kt tc it c' tc') (hk : kt = k)
    (hd : S.verifyDest (lastOf tc).1.ety.typ it = true) : refTarget S V w' x = some t := by
  unfold refTarget
  rw [p.locX']
  have h1 := p.cdata'
  have h2 := p.dest'
  have h3 : S.isRef (lastOf c').1.ety.typ = true := by rw [p.ety']; exact p.isRef
  have h4 := p.resolves hk
  have h5 := p.locT'
  have h6 : S.verifyDest (lastOf tc').1.ety.typ it = true := by rw [p.hdrT']; exact hd
  simp only [h3, if_true, h1, Model.lookup, h4, h2, h5, h6]

/-- **6b.** after a successful call `get_reference_target` answers with the target, if the target is in the model of the
reference element (`hsame`) and its type accepts the DEST item the call chose (`hdest`, the `verify_reference_dest` fact) -/
theorem opSetRef_target (hR : RefWF S) (w : World) (x t : Nat) (h : CInv S vOk w) (h1 : WROne S w)
    (hne : (opSetRef S V w x t).2 ≠ .err)
    (hsame : ∀ k c kt tc, locate w x = some (k, c) → locate w t = some (kt, tc) → kt = k)
    (hdest : ∀ k c kt tc it, locate w x = some (k, c) → locate w t = some (kt, tc) →
      setRefItem S V (lastOf c).1 (lastOf tc).1 = some it → S.verifyDest (lastOf tc).1.ety.typ it = true) :
    refTarget S V (opSetRef S V w x t).1 x = some t := by
  obtain ⟨k, c, kt, tc, it, c', tc', p⟩ := opSetRef_post S V vOk hR w x t h h1 hne
  exact p.target S V (hsame k c kt tc p.locX p.locT) (hdest k c kt tc it p.locX p.locT p.item)

end
end AV.W
