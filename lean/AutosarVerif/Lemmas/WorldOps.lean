/-
Operation-level theorems about the stateful core:
* C11: an operation that answers `err` returns the world unchanged (all operations except the two
  places where the Rust code itself mutates before its last fallible step, which the model reproduces);
* C03: the operations keep the parent fields in step with the tree structure;
* C04: the path index behaves as a finite map (insert / remove / lookup laws).
The case analysis follows the definitions (`fun_cases`).
-/
import AutosarVerif.Lemmas.World

namespace AV.W
open Items

/-! ### C11: failed operations have no effect -/
section frame
variable (S : Spec) (V : Env)

theorem opCreate_err_frame (w : World) (p n : Nat) (pos : Option Nat) :
    (opCreate S V w p n pos).2 = .err → (opCreate S V w p n pos).1 = w := by
  fun_cases opCreate S V w p n pos <;> intro h <;> first | rfl | (exfalso; simp at h)

theorem opNamed_err_frame (w : World) (p n : Nat) (nm : Bytes) (pos : Option Nat) :
    (opNamed S V w p n nm pos).2 = .err → (opNamed S V w p n nm pos).1 = w := by
  fun_cases opNamed S V w p n nm pos <;> intro h <;> first | rfl | (exfalso; simp at h)

theorem opRemove_err_frame (w : World) (p c : Nat) :
    (opRemove S w p c).2 = .err → (opRemove S w p c).1 = w := by
  fun_cases opRemove S w p c <;> intro h <;> first | rfl | (exfalso; simp at h)

theorem opRename_err_frame (w : World) (x : Nat) (nm : Bytes) :
    (opRename S V w x nm).2 = .err → (opRename S V w x nm).1 = w := by
  fun_cases opRename S V w x nm <;> intro h <;> first | rfl | (exfalso; simp at h)

theorem opCData_err_frame (w : World) (x : Nat) (v : CDv) :
    (opCData S V w x v).2 = .err → (opCData S V w x v).1 = w := by
  fun_cases opCData S V w x v <;> intro h <;> first | rfl | (exfalso; simp at h)

theorem opRmCData_err_frame (w : World) (x : Nat) :
    (opRmCData S w x).2 = .err → (opRmCData S w x).1 = w := by
  fun_cases opRmCData S w x <;> intro h <;> first | rfl | (exfalso; simp at h)

theorem opAttr_err_frame (w : World) (x a : Nat) (v : CDv) :
    (opAttr S V w x a v).2 = .err → (opAttr S V w x a v).1 = w := by
  fun_cases opAttr S V w x a v <;> intro h <;> first | rfl | (exfalso; simp at h)

theorem opAttrS_err_frame (w : World) (x a : Nat) (s : Bytes) :
    (opAttrS S V w x a s).2 = .err → (opAttrS S V w x a s).1 = w := by
  fun_cases opAttrS S V w x a s <;> intro h <;> first | rfl | (exfalso; simp at h)

theorem opInsText_err_frame (w : World) (x pos : Nat) (s : Bytes) :
    (opInsText S w x pos s).2 = .err → (opInsText S w x pos s).1 = w := by
  fun_cases opInsText S w x pos s <;> intro h <;> first | rfl | (exfalso; simp at h)

theorem opRmText_err_frame (w : World) (x pos : Nat) :
    (opRmText S w x pos).2 = .err → (opRmText S w x pos).1 = w := by
  fun_cases opRmText S w x pos <;> intro h <;> first | rfl | (exfalso; simp at h)

theorem opCopy_err_frame (w : World) (p x : Nat) (pos : Option Nat) :
    (opCopy S V w p x pos).2 = .err → (opCopy S V w p x pos).1 = w := by
  fun_cases opCopy S V w p x pos <;> intro h <;> first | rfl | (exfalso; simp at h)

end frame

/-! ### C04: the path index as a finite map -/

theorem idxGet_insert_same (idx : List (Bytes × Nat)) (p : Bytes) (id : Nat) :
    idxGet (idxInsert idx p id) p = some id := by
  unfold idxInsert
  split
  · rename_i hany
    induction idx with
    | nil => simp at hany
    | cons e es ih =>
      by_cases he : e.1 = p
      · simp [idxGet, he]
      · have hb : (e.1 == p) = false := by simpa using he
        simp only [List.any_cons, hb, Bool.false_or] at hany
        simp only [idxGet, List.map_cons, hb, Bool.false_eq_true, if_false, List.find?_cons] at ih ⊢
        exact ih hany
  · rename_i hany
    induction idx with
    | nil => simp [idxGet]
    | cons e es ih =>
      have hne : (e.1 == p) = false := by
        cases hb : (e.1 == p) with
        | false => rfl
        | true => simp [hb] at hany
      have hany' : ¬ (es.any (·.1 == p)) = true := by
        intro h; apply hany; simp [h]
      simp only [idxGet, List.cons_append, List.find?_cons, hne] at ih ⊢
      exact ih hany'

theorem idxGet_remove_same (idx : List (Bytes × Nat)) (p : Bytes) : idxGet (idxRemove idx p) p = none := by
  induction idx with
  | nil => simp [idxGet, idxRemove]
  | cons e es ih =>
    by_cases he : e.1 = p
    · have : (e.1 != p) = false := by simp [he]
      simp only [idxRemove, List.filter_cons, this] at ih ⊢
      exact ih
    · have h1 : (e.1 != p) = true := by simpa using he
      have h2 : (e.1 == p) = false := by simpa using he
      simp only [idxRemove, List.filter_cons, h1, if_true, idxGet, List.find?_cons, h2] at ih ⊢
      exact ih

theorem idxGet_remove_other (idx : List (Bytes × Nat)) (p q : Bytes) (hq : q ≠ p) :
    idxGet (idxRemove idx p) q = idxGet idx q := by
  induction idx with
  | nil => simp [idxGet, idxRemove]
  | cons e es ih =>
    by_cases he : e.1 = p
    · have h0 : (e.1 != p) = false := by simp [he]
      have h3 : (e.1 == q) = false := by rw [he]; simpa using (Ne.symm hq)
      simp only [idxRemove, List.filter_cons, h0, idxGet, List.find?_cons, h3] at ih ⊢
      exact ih
    · have h1 : (e.1 != p) = true := by simpa using he
      simp only [idxRemove, List.filter_cons, h1, if_true, idxGet, List.find?_cons] at ih ⊢
      cases (e.1 == q) with
      | true => rfl
      | false => exact ih

end AV.W

namespace AV.W
open Items

/-! ### C03: operations keep the parent fields in step with the structure -/

/-- in every model the parent fields below the root agree with the tree structure -/
def World.wf (w : World) : Prop := ∀ (k : Nat) (m : Model), w.models[k]? = some m → m.rootKids.wf (.elem m.rootHdr.id)

/-- `modify` with the invariant needed only at the node that is edited -/
theorem modify_wf' (t : Nat) (f : Hdr → Items → Hdr × Items)
    (hf : ∀ h k, h.id = t → (f h k).1.id = h.id ∧ (f h k).1.parent = h.parent ∧ (k.wf (.elem h.id) → (f h k).2.wf (.elem h.id)))
    (its : Items) (exp : PRef) (h : its.wf exp) : (its.modify t f).wf exp := by
  induction its generalizing exp with
  | nil => simp [Items.modify, Items.wf]
  | elem hd k r ihk ihr =>
    simp only [Items.wf] at h
    unfold Items.modify
    split
    · rename_i heq
      obtain ⟨h1, h2, h3⟩ := hf hd k heq
      simp only [Items.wf]
      refine ⟨by rw [h2]; exact h.1, ?_, ihr exp h.2.2⟩
      rw [h1]; exact h3 h.2.1
    · simp only [Items.wf]
      exact ⟨h.1, ihk _ h.2.1, ihr exp h.2.2⟩
  | text c r ihr =>
    simp only [Items.wf] at h
    simp only [Items.modify, Items.wf]
    exact ihr exp h

/-- editing one node of a model through `modify` + `setRoot` keeps the model's invariant -/
theorem setRoot_modify_wf (m : Model) (x : Nat) (f : Hdr → Items → Hdr × Items)
    (hf : ∀ h k, h.id = x → (f h k).1.id = h.id ∧ (f h k).1.parent = h.parent ∧ (k.wf (.elem h.id) → (f h k).2.wf (.elem h.id)))
    (hm : m.rootKids.wf (.elem m.rootHdr.id)) :
    (m.setRoot (m.rootItems.modify x f)).rootKids.wf (.elem (m.setRoot (m.rootItems.modify x f)).rootHdr.id) := by
  simp only [Model.rootItems, Items.modify]
  split
  · rename_i heq
    obtain ⟨h1, _, h3⟩ := hf m.rootHdr m.rootKids heq
    simp only [Model.setRoot]
    rw [h1]; exact h3 hm
  · simp only [Model.setRoot]
    exact modify_wf' x f hf m.rootKids _ hm

theorem wf_setModel (w : World) (k : Nat) (m' : Model) (hw : w.wf) (hm' : m'.rootKids.wf (.elem m'.rootHdr.id)) :
    (setModel w k m').wf := by
  unfold World.wf at hw ⊢
  intro j mj hj
  simp only [setModel] at hj
  by_cases hjk : j = k
  · subst hjk
    by_cases hlt : j < w.models.length
    · rw [List.getElem?_set_self hlt] at hj
      cases hj; exact hm'
    · rw [List.getElem?_eq_none (by simp; omega)] at hj
      cases hj
  · rw [List.getElem?_set_ne (Ne.symm hjk)] at hj
    exact hw j mj hj

theorem locate_model (w : World) (x k : Nat) (c : List (Hdr × Items)) (h : locate w x = some (k, c)) :
    ∃ m, w.models[k]? = some m ∧ w.models[k]! = m := by
  unfold locate at h
  obtain ⟨j, _, hj⟩ := List.exists_of_findSome?_eq_some h
  cases hm : w.models[j]? with
  | none => simp [hm] at hj
  | some m =>
    simp only [hm, Option.map_eq_some_iff] at hj
    obtain ⟨c', _, hc'⟩ := hj
    cases hc'
    refine ⟨m, hm, ?_⟩
    simp [getElem!_def, hm]

section ops
variable (S : Spec)

theorem opInsText_wf (w : World) (x pos : Nat) (s : Bytes) (hw : w.wf) : (opInsText S w x pos s).1.wf := by
  fun_cases opInsText S w x pos s
  all_goals first
    | exact hw
    | (rename_i k c hloc mm _ _ _ _ _
       obtain ⟨m, hm1, hm2⟩ := locate_model w x k c hloc
       have hmm : mm = m := hm2
       apply wf_setModel w k _ hw
       rw [hmm]
       apply setRoot_modify_wf
       · intro h k0 _
         refine ⟨rfl, rfl, fun hk => insertAt_wf _ _ (fun r hr => ?_) k0 pos hk⟩
         simpa [Items.wf] using hr
       · exact hw k m hm1)

theorem opRmText_wf (w : World) (x pos : Nat) (hw : w.wf) : (opRmText S w x pos).1.wf := by
  fun_cases opRmText S w x pos
  all_goals first
    | exact hw
    | (rename_i k c hloc mm _ _ _ _ _
       obtain ⟨m, hm1, hm2⟩ := locate_model w x k c hloc
       have hmm : mm = m := hm2
       apply wf_setModel w k _ hw
       rw [hmm]
       apply setRoot_modify_wf
       · intro h k0 _
         exact ⟨rfl, rfl, fun hk => removeAt_wf _ k0 pos hk⟩
       · exact hw k m hm1)

theorem opComment_wf (w : World) (x : Nat) (cm : Option Bytes) (hw : w.wf) : (opComment w x cm).1.wf := by
  fun_cases opComment w x cm
  all_goals first
    | exact hw
    | (rename_i k c hloc mm
       obtain ⟨m, hm1, hm2⟩ := locate_model w x k c hloc
       have hmm : mm = m := hm2
       apply wf_setModel w k _ hw
       rw [hmm]
       apply setRoot_modify_wf
       · intro h k0 _
         exact ⟨rfl, rfl, fun hk => hk⟩
       · exact hw k m hm1)

end ops
end AV.W

namespace AV.W
open Items

theorem wf_of_models_eq (w w' : World) (h : w'.models = w.models) (hw : w.wf) : w'.wf := by
  unfold World.wf at hw ⊢
  rw [h]; exact hw

end AV.W
