/-
C05, invariant by induction over operations: in EVERY state reachable from the empty world by ANY history of the core
operations (`Model/Step.lean`) that stays inside the guard `OpOk` of the index invariant, the combined invariant `CInv`
holds: the path index is exact (`WInv`), the reverse reference map is exact (`WRInv`), a reference element has no
sub-elements (`WRLeaf`) and the root element of every model has the element type of the root definition (`WRootTy`).

This file: `WRLeaf` for the operations not covered in `RefsOpsA.lean`, the combined invariant through `removeAll` /
`remove_from_file` / `remove_file` (each removal step needs all four parts), the step theorem and its lift to histories.
-/
import AutosarVerif.Lemmas.RefsOpsA
import AutosarVerif.Lemmas.RefsOpsB

namespace AV.W
open Items

section
variable (S : Spec) (V : Env) (vOk : Nat) (rootAttrs : List (Nat × CDv))

/-! ### `RefLeaf` is a function of the skeleton -/

theorem childElems_skel_nil (k : Items) : k.skel.childElems = [] ↔ k.childElems = [] := by
  induction k with
  | nil => exact Iff.rfl
  | text c r ih => simp only [skel_text, Items.childElems]; exact ih
  | elem h kk r _ _ => simp [skel_elem, Items.childElems]

theorem refLeaf_skel (its : Items) : RefLeaf S its.skel ↔ RefLeaf S its := by
  induction its with
  | nil => exact Iff.rfl
  | text c r ih => rw [skel_text, refLeaf_text, refLeaf_text]; exact ih
  | elem h k r ihk ihr => rw [skel_elem, refLeaf_elem, refLeaf_elem, ihk, ihr, core_ety, childElems_skel_nil]

theorem refLeaf_of_skel {its its' : Items} (h : its'.skel = its.skel) : RefLeaf S its' ↔ RefLeaf S its := by
  rw [← refLeaf_skel S its', h, refLeaf_skel]

/-- `setRoot` with a tree of the skeleton of the root -/
theorem refLeaf_setRoot_skel (m : Model) (its : Items) (hsk : its.skel = m.rootItems.skel) (h : RefLeaf S m.rootItems) :
    RefLeaf S (m.setRoot its).rootItems := by
  obtain ⟨h1, _, _, _⟩ := setRoot_of_skel m its hsk
  rw [h1]
  exact (refLeaf_of_skel S hsk).mpr h

/-- a root element whose element type and whose content's skeleton stay -/
theorem refLeaf_root_congr (h h' : Hdr) (k k' : Items) (hty : h'.ety = h.ety) (hsk : k'.skel = k.skel)
    (hl : RefLeaf S (.elem h k .nil)) : RefLeaf S (.elem h' k' .nil) := by
  obtain ⟨a, b, c⟩ := (refLeaf_elem S h k .nil).mp hl
  refine (refLeaf_elem S h' k' .nil).mpr ⟨fun hx => ?_, (refLeaf_of_skel S hsk).mpr b, c⟩
  rw [hty] at hx
  exact (childElems_skel_nil k').mp (by rw [hsk]; exact (childElems_skel_nil k).mpr (a hx))

theorem wrleaf_congr (w w' : World) (hl : WRLeaf S w) (hmodels : w'.models = w.models) : WRLeaf S w' := by
  intro m hmem
  rw [hmodels] at hmem
  exact hl m hmem

/-! ### one located node is edited -/

/-- the common step of the operations that edit one located node: the edit keeps the property at the node and in the new
content of the node -/
theorem wrleaf_located (w w' : World) (x k : Nat) (c : List (Hdr × Items)) (hloc : locate w x = some (k, c)) (m' : Model)
    (f : Hdr → Items → Hdr × Items) (hl : WRLeaf S w) (hmodels : w'.models = w.models.set k m')
    (hroot : m'.rootItems = (w.models[k]!).rootItems.modify x f)
    (hf : ∀ h k0, (S.isRef h.ety.typ = true → k0.childElems = []) → RefLeaf S k0 →
      (S.isRef (f h k0).1.ety.typ = true → (f h k0).2.childElems = []) ∧ RefLeaf S (f h k0).2) : WRLeaf S w' := by
  obtain ⟨m, _, hm2, hmem, _⟩ := locate_chain w x k c hloc
  refine wrleaf_update S w w' k m' hl ?_ hmodels
  rw [hroot, hm2]
  exact refLeaf_modify S x f _ (fun h k0 _ _ a b => hf h k0 a b) (hl m hmem)

/-- the end of the proofs for the operations that edit one located node -/
macro "leaf_located" hl:ident : tactic => `(tactic| (
  refine wrleaf_located _ _ _ _ _ _ (by assumption) _ _ $hl rfl (rootItems_setRoot_modify _ _ _) ?_
  intro h0 k0 a b
  first
    | exact ⟨fun _ => rfl, refLeaf_nil _⟩
    | exact ⟨fun _ => rfl, (refLeaf_text _ _ _).mpr (refLeaf_nil _)⟩
    | exact ⟨a, b⟩
    | exact ⟨fun hx => a (by rw [(setAttrHdr_keeps4 _ _ h0 _ _ _).2.2.1] at hx; exact hx), b⟩
    | (refine ⟨fun hx => a ?_, b⟩; revert hx; dsimp only; split <;> exact id)))

theorem opCData_leaf (w : World) (x : Nat) (v : CDv) (hl : WRLeaf S w) : WRLeaf S (opCData S V w x v).1 := by
  unfold opCData
  split
  · exact hl
  · split
    · exact hl
    · split
      · exact hl
      · split
        · exact hl
        · rename_i k c hloc
          dsimp only
          split
          · exact hl
          · split
            · exact hl
            · split
              · exact hl
              · split
                · exact hl
                · leaf_located hl

theorem opRmCData_leaf (w : World) (x : Nat) (hl : WRLeaf S w) : WRLeaf S (opRmCData S w x).1 := by
  unfold opRmCData
  repeat' (first | exact hl | split | dsimp only)
  all_goals leaf_located hl

theorem opAttr_leaf (w : World) (x a : Nat) (v : CDv) (hl : WRLeaf S w) : WRLeaf S (opAttr S V w x a v).1 := by
  unfold opAttr
  repeat' (first | exact hl | split | dsimp only)
  all_goals leaf_located hl

theorem opAttrS_leaf (w : World) (x a : Nat) (s : Bytes) (hl : WRLeaf S w) : WRLeaf S (opAttrS S V w x a s).1 := by
  unfold opAttrS
  repeat' (first | exact hl | split | dsimp only)
  all_goals leaf_located hl

theorem opRmAttr_leaf (w : World) (x a : Nat) (hl : WRLeaf S w) : WRLeaf S (opRmAttr S w x a).1 := by
  unfold opRmAttr
  repeat' (first | exact hl | split | dsimp only)
  all_goals first
    | exact wrleaf_congr S w _ hl rfl
    | leaf_located hl

theorem opComment_leaf (w : World) (x : Nat) (cm : Option Bytes) (hl : WRLeaf S w) : WRLeaf S (opComment w x cm).1 := by
  unfold opComment
  split
  · exact wrleaf_congr S w _ hl rfl
  · leaf_located hl

/-! ### file operations, creation of a model -/

theorem opAddFile_leaf (w : World) (x f : Nat) (hl : WRLeaf S w) : WRLeaf S (opAddFile S w x f).1 := by
  unfold opAddFile
  split
  · exact hl
  · rename_i k c hloc
    obtain ⟨m, _, hm2, hmem, _⟩ := locate_chain w x k c hloc
    dsimp only
    repeat' (first | exact hl | split)
    all_goals (
      refine wrleaf_update S w _ k _ hl ?_ rfl
      rw [hm2]
      exact refLeaf_setRoot_skel S m _ (addPath_skel S f (c.map (·.1.id)) [] true m.rootItems) (hl m hmem))

theorem opSetVersion_leaf (w : World) (f ver : Nat) (hl : WRLeaf S w) : WRLeaf S (opSetVersion S w f ver).1 := by
  unfold opSetVersion
  split
  · exact hl
  · rename_i k hk
    dsimp only
    split
    · exact hl
    · split
      · have hlt : k < w.models.length := by
          unfold fileModel at hk
          have := List.mem_of_find?_eq_some hk
          exact List.mem_range.mp this
        have hmem : w.models[k]! ∈ w.models := by
          rw [getElem!_pos w.models k hlt]; exact List.getElem_mem hlt
        refine wrleaf_update S w _ k _ hl ?_ rfl
        exact hl (w.models[k]!) hmem
      · exact hl

theorem newModel_leaf (w : World) (hl : WRLeaf S w) : WRLeaf S { w with models := w.models ++ [newModel S rootAttrs] } := by
  intro m hmem
  rcases List.mem_append.mp hmem with h | h
  · exact hl m h
  · rw [List.mem_singleton] at h
    subst h
    exact (refLeaf_elem S _ _ _).mpr ⟨fun _ => rfl, refLeaf_nil S, refLeaf_nil S⟩

/-- `create_file`: headers only; the root that gets its protocol id keeps its element type and its content -/
theorem opMkFile_leaf (w : World) (k : Nat) (name : Bytes) (ver : Nat) (valid : Bool) (hl : WRLeaf S w) :
    WRLeaf S (opMkFile S w k name ver valid).1 := by
  unfold opMkFile
  split
  · exact hl
  · rename_i m hmk
    have hm : RefLeaf S (.elem m.rootHdr m.rootKids .nil) := hl m (List.mem_of_getElem? hmk)
    obtain ⟨hc, hs⟩ := restrictStep_skel S w.nextFile m.rootHdr m.rootKids [] true
    have hty : (restrictStep S w.nextFile m.rootHdr m.rootKids [] true).1.ety = m.rootHdr.ety := (core_inj hc).2.2
    split
    · exact hl
    · split
      · exact hl
      · cases hiss : m.rootIssued with
        | true =>
          simp only [if_true]
          refine wrleaf_update S w _ k _ hl ?_ rfl
          exact refLeaf_root_congr S _ _ _ _ hty hs hm
        | false =>
          simp only [Bool.false_eq_true, if_false]
          refine wrleaf_update S w _ k _ hl ?_ rfl
          exact refLeaf_root_congr S m.rootHdr _ m.rootKids _ hty ((skel_setParents _ _).trans hs) hm

/-! ### `remove_from_file`, `remove_file`: `WRLeaf` alone -/

theorem removeAll_leaf (ids : List Nat) : ∀ (w : World), WRLeaf S w → WRLeaf S (removeAll S w ids) := by
  induction ids with
  | nil => intro w hl; exact hl
  | cons id rest ih =>
    intro w hl
    simp only [removeAll]
    apply ih
    split
    · split
      · exact opRemove_leaf S w _ _ hl
      · exact hl
    · exact hl

theorem opRmFromFile_leaf (w : World) (x f : Nat) (hl : WRLeaf S w) : WRLeaf S (opRmFromFile S w x f).1 := by
  unfold opRmFromFile
  split
  · exact hl
  · dsimp only
    split
    · exact hl
    · split
      · exact hl
      · split
        · exact hl
        · split
          · exact hl
          · rename_i cur _
            have hl1 : WRLeaf S (if (cur.filter (· != f)).isEmpty then
                (match (‹List (Hdr × Items)›).dropLast.getLast? with
                  | some (ph, _) => (opRemove S w ph.id x).1
                  | none => w) else w) := by
              split
              · split
                · exact opRemove_leaf S w _ _ hl
                · exact hl
              · exact hl
            split
            · exact hl1
            · rename_i k1 c1 hloc1
              obtain ⟨m1, _, hm2, hmem1, _⟩ := locate_chain _ x k1 c1 hloc1
              apply removeAll_leaf
              refine wrleaf_update S _ _ k1 _ hl1 ?_ rfl
              rw [hm2]
              exact refLeaf_setRoot_skel S m1 _ (rmAt_skel f x [] m1.rootItems) (hl1 m1 hmem1)

theorem opRmFile_leaf (w : World) (k f : Nat) (hl : WRLeaf S w) : WRLeaf S (opRmFile S w k f).1 := by
  unfold opRmFile
  split
  · exact hl
  · rename_i m hk
    split
    · exact hl
    · dsimp only
      split
      · exact hl
      · apply opRmFromFile_leaf
        refine wrleaf_update S w _ k _ hl ?_ rfl
        exact hl m (List.mem_of_getElem? hk)

/-! ### the combined invariant -/

/-- index exact, reference map exact, reference elements are leaves, the root has the root type -/
def CInv (w : World) : Prop := WInv S vOk w ∧ WRInv S w ∧ WRLeaf S w ∧ WRootTy S w

theorem cinv_empty : CInv S vOk emptyWorld :=
  ⟨winv_empty S vOk, fun m hm => by simp [emptyWorld] at hm, fun m hm => by simp [emptyWorld] at hm, wrootTy_empty S⟩

/-- one removal step: every part of the invariant is used -/
theorem opRemove_cinv (w : World) (p c : Nat) (h : CInv S vOk w) : CInv S vOk (opRemove S w p c).1 :=
  ⟨opRemove_inv S vOk w p c h.1, opRemove_rinv S vOk w p c h.1 h.2.1 h.2.2.1, opRemove_leaf S w p c h.2.2.1,
    opRemove_rootTy S w p c h.2.2.2⟩

theorem removeAll_cinv (ids : List Nat) : ∀ (w : World), CInv S vOk w → CInv S vOk (removeAll S w ids) := by
  induction ids with
  | nil => intro w h; exact h
  | cons id rest ih =>
    intro w h
    simp only [removeAll]
    apply ih
    split
    · split
      · exact opRemove_cinv S vOk w _ _ h
      · exact h
    · exact h

/-- the tree part of `remove_from_file` (file sets only) on a located element -/
theorem rmAt_cinv (w : World) (x f k1 : Nat) (c1 : List (Hdr × Items)) (hloc : locate w x = some (k1, c1))
    (h : CInv S vOk w) :
    CInv S vOk (setModel w k1 ((w.models[k1]!).setRoot (rmAt f x [] (w.models[k1]!).rootItems))) := by
  obtain ⟨m1, _, hm2, hmem1, _⟩ := locate_chain w x k1 c1 hloc
  rw [hm2]
  refine ⟨?_, ?_, ?_, ?_⟩
  · exact winv_update S vOk w _ k1 _ h.1 (Nat.le_refl _) (rmAt_minv S vOk _ m1 f x (h.1 m1 hmem1)) rfl
  · exact wrinv_update S w _ k1 _ h.2.1 (rmAt_refsExact S m1 f x (h.2.1 m1 hmem1)) rfl
  · exact wrleaf_update S w _ k1 _ h.2.2.1
      (refLeaf_setRoot_skel S m1 _ (rmAt_skel f x [] m1.rootItems) (h.2.2.1 m1 hmem1)) rfl
  · exact wrootTy_update S w _ k1 _ h.2.2.2
      ((rootTy_setRoot_skel _ _ (rmAt_skel f x [] _)).trans (h.2.2.2 m1 hmem1)) rfl

theorem opRmFromFile_cinv (w : World) (x f : Nat) (h : CInv S vOk w) : CInv S vOk (opRmFromFile S w x f).1 := by
  unfold opRmFromFile
  split
  · exact h
  · dsimp only
    split
    · exact h
    · split
      · exact h
      · split
        · exact h
        · split
          · exact h
          · rename_i cur _
            have h1 : CInv S vOk (if (cur.filter (· != f)).isEmpty then
                (match (‹List (Hdr × Items)›).dropLast.getLast? with
                  | some (ph, _) => (opRemove S w ph.id x).1
                  | none => w) else w) := by
              split
              · split
                · exact opRemove_cinv S vOk w _ _ h
                · exact h
              · exact h
            split
            · exact h1
            · rename_i k1 c1 hloc1
              apply removeAll_cinv
              exact rmAt_cinv S vOk _ x f k1 c1 hloc1 h1

theorem opRmFile_cinv (w : World) (k f : Nat) (h : CInv S vOk w) : CInv S vOk (opRmFile S w k f).1 := by
  unfold opRmFile
  split
  · exact h
  · rename_i m hk
    have hmem := List.mem_of_getElem? hk
    split
    · exact h
    · rename_i pos _
      dsimp only
      split
      · exact h
      · apply opRmFromFile_cinv
        refine ⟨?_, ?_, ?_, ?_⟩
        · refine winv_update S vOk w _ k _ h.1 (Nat.le_refl _) ?_ rfl
          have hm := h.1 m hmem
          exact { hm with vers := fun g hg => hm.vers g (swapRemove_sub m.files pos g hg) }
        · refine wrinv_update S w _ k _ h.2.1 ?_ rfl
          exact h.2.1 m hmem
        · refine wrleaf_update S w _ k _ h.2.2.1 ?_ rfl
          exact h.2.2.1 m hmem
        · refine wrootTy_update S w _ k _ h.2.2.2 ?_ rfl
          exact h.2.2.2 m hmem

/-! ### the step theorem -/

/-- every guarded core operation keeps the combined invariant -/
theorem applyOp_cinv (hH : IdxHyp S V vOk) (hR : RefWF S) (w : World) (op : Op) (hop : OpOk S vOk op)
    (h : CInv S vOk w) : CInv S vOk (applyOp S V rootAttrs w op).1 := by
  obtain ⟨hw, hr, hl, hT⟩ := h
  have hw' := applyOp_winv S V vOk rootAttrs hH w op hop hw
  have hT' := applyOp_wrootTy S V rootAttrs w op hT
  cases op with
  | newModel => exact ⟨hw', newModel_rinv S rootAttrs w hr, newModel_leaf S rootAttrs w hl, hT'⟩
  | mkFile k name ver valid =>
    exact ⟨hw', opMkFile_rinv S vOk hR w k name ver valid hw hT hr, opMkFile_leaf S w k name ver valid hl, hT'⟩
  | create p name pos =>
    exact ⟨hw', opCreate_rinv S V vOk hH hR w p name pos hw hr, opCreate_leaf S V vOk hR w p name pos hw hl, hT'⟩
  | named p name item pos =>
    exact ⟨hw', opNamed_rinv S V vOk hH hR w p name item pos hw hr, opNamed_leaf S V vOk hH hR w p name item pos hw hl, hT'⟩
  | remove p c => exact ⟨hw', opRemove_rinv S vOk w p c hw hr hl, opRemove_leaf S w p c hl, hT'⟩
  | cdata x v => exact ⟨hw', opCData_rinv S V vOk hH hR w x v hw hr, opCData_leaf S V w x v hl, hT'⟩
  | rmcdata x => exact ⟨hw', opRmCData_rinv S vOk hR w x hw hr, opRmCData_leaf S w x hl, hT'⟩
  | attr x a v => exact ⟨hw', opAttr_rinv S V w x a v hr, opAttr_leaf S V w x a v hl, hT'⟩
  | attrs x a s => exact ⟨hw', opAttrS_rinv S V w x a s hr, opAttrS_leaf S V w x a s hl, hT'⟩
  | rmattr x a => exact ⟨hw', opRmAttr_rinv S w x a hr, opRmAttr_leaf S w x a hl, hT'⟩
  | comment x cm => exact ⟨hw', opComment_rinv S w x cm hr, opComment_leaf S w x cm hl, hT'⟩
  | instext x pos s => exact ⟨hw', opInsText_rinv S vOk hR w x pos s hw hr, opInsText_leaf S w x pos s hl, hT'⟩
  | rmtext x pos => exact ⟨hw', opRmText_rinv S vOk hR w x pos hw hr, opRmText_leaf S w x pos hl, hT'⟩
  | addfile x f => exact ⟨hw', opAddFile_rinv S w x f hr, opAddFile_leaf S w x f hl, hT'⟩
  | rmfromfile x f => exact opRmFromFile_cinv S vOk w x f ⟨hw, hr, hl, hT⟩
  | rmfile k f => exact opRmFile_cinv S vOk w k f ⟨hw, hr, hl, hT⟩
  | setver f ver => exact ⟨hw', opSetVersion_rinv S w f ver hr, opSetVersion_leaf S w f ver hl, hT'⟩

/-- **every reachable state** of a guarded history -/
theorem run_cinv (hH : IdxHyp S V vOk) (hR : RefWF S) (ops : List Op) (hops : ∀ op ∈ ops, OpOk S vOk op) :
    CInv S vOk (run S V rootAttrs ops) := by
  unfold run
  suffices h : ∀ (w : World), CInv S vOk w → CInv S vOk (ops.foldl (fun w op => (applyOp S V rootAttrs w op).1) w) from
    h _ (cinv_empty S vOk)
  induction ops with
  | nil => intro w hw; exact hw
  | cons op rest ih =>
    intro w hw
    simp only [List.foldl_cons]
    exact ih (fun o ho => hops o (List.mem_cons_of_mem _ ho)) _
      (applyOp_cinv S V vOk rootAttrs hH hR w op (hops op List.mem_cons_self) hw)

/-- in particular: the reverse reference map of every model of every reachable state is exact -/
theorem run_wrinv (hH : IdxHyp S V vOk) (hR : RefWF S) (ops : List Op) (hops : ∀ op ∈ ops, OpOk S vOk op) :
    WRInv S (run S V rootAttrs ops) :=
  (run_cinv S V vOk rootAttrs hH hR ops hops).2.1

end
end AV.W
