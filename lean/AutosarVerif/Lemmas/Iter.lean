/-
C03: "the depth-first iterators (model-, element- and file-scoped, with or without depth limit) enumerate exactly this
tree in document order."

The machines of `Model/Iter.lean` (`DfsIt`: `ElementsDfsIterator`, `fileNext`: `ArxmlFileElementsDfsIterator`, `SubIt`:
`ElementsIterator`) against recursive specifications:

* `preD max d its` / `preDElem`: document order of a forest with depths, cut below depth `max` (`max = 0`: no limit);
* `preDF f max d its` / `preDFElem`: the same, skipping (with its subtree) every element whose LOCAL file set is not empty
  and does not contain `f`.

Results
* `dfsAll_eq` : `dfsAll e max = preDElem max 0 e` for every element and every limit, with the bounds chosen in `dfsAll`;
  `drain_new_eq`: every larger fuel / call bound gives the same list (the bounds are never exhausted);
  `DfsGood` / `DfsGood.step_ne_oob`: `.oob` (the Rust panic) never occurs in a state the iterator can get into.
* `dfsAll_ids`, `dfsAll_preorder`, `dfsAll_limit`: without limit exactly the ids of the tree in document order, each with
  its nesting depth; with a limit exactly the elements of depth ≤ max.
* `dfsFileAll_eq`, `preDF_ids_projFile`, `dfsFileAll_model_view`: the file-scoped iterator enumerates exactly the view of
  the file (`projFile`, `Model.view` of `Lemmas/SerFiles.lean`), in document order.
* `subsAll_eq`: `sub_elements()` lists the child elements in order, if no two adjacent child elements have the same id
  (`subsAll_adjacent_dup`: otherwise the second is skipped).
-/
import AutosarVerif.Model.Iter
import AutosarVerif.Lemmas.SerFiles

namespace AV.W
open Items

/-! ### the recursive specification -/

/-- document order with depths of the forest `its` (whose elements are at depth `d`); the content of an element at depth
`d` is listed iff `max = 0 ∨ max > d` -/
def preD (max : Nat) : Nat → Items → List (Nat × Nat)
  | _, .nil => []
  | d, .text _ r => preD max d r
  | d, .elem h k r => (d, h.id) :: ((if max = 0 ∨ max > d then preD max (d + 1) k else []) ++ preD max d r)

def preDElem (max d : Nat) (e : Hdr × Items) : List (Nat × Nat) :=
  (d, e.1.id) :: (if max = 0 ∨ max > d then preD max (d + 1) e.2 else [])

/-- the LOCAL test of the file-scoped iterator (and of the serializer): the local file set is empty or contains `f` -/
def visF (f : Nat) (h : Hdr) : Bool := h.files.isEmpty || h.files.contains f

/-- as `preD`, but an element whose local file set is not empty and does not contain `f` is skipped with its subtree -/
def preDF (f : Nat) (max : Nat) : Nat → Items → List (Nat × Nat)
  | _, .nil => []
  | d, .text _ r => preDF f max d r
  | d, .elem h k r =>
    if h.files.isEmpty || h.files.contains f then
      (d, h.id) :: ((if max = 0 ∨ max > d then preDF f max (d + 1) k else []) ++ preDF f max d r)
    else preDF f max d r

def preDFElem (f : Nat) (max d : Nat) (e : Hdr × Items) : List (Nat × Nat) :=
  (d, e.1.id) :: (if max = 0 ∨ max > d then preDF f max (d + 1) e.2 else [])

/-- both at once, for the proofs: `vis` decides which elements are shown -/
def preDV (vis : Hdr → Bool) (max : Nat) : Nat → Items → List (Nat × Nat)
  | _, .nil => []
  | d, .text _ r => preDV vis max d r
  | d, .elem h k r =>
    if vis h then
      (d, h.id) :: ((if max = 0 ∨ max > d then preDV vis max (d + 1) k else []) ++ preDV vis max d r)
    else preDV vis max d r

theorem preDV_true (max : Nat) (its : Items) : ∀ d, preDV (fun _ => true) max d its = preD max d its := by
  induction its with
  | nil => intro _; rfl
  | text _ r ih => intro d; exact ih d
  | elem h k r ihk ihr =>
    intro d
    simp only [preDV, preD, if_true, ihk, ihr]

theorem preDV_visF (f max : Nat) (its : Items) : ∀ d, preDV (visF f) max d its = preDF f max d its := by
  induction its with
  | nil => intro _; rfl
  | text _ r ih => intro d; exact ih d
  | elem h k r ihk ihr =>
    intro d
    simp only [preDV, preDF, visF, ihk, ihr]

theorem preDV_length_le (vis : Hdr → Bool) (max : Nat) (its : Items) : ∀ d,
    (preDV vis max d its).length ≤ (preD max d its).length := by
  induction its with
  | nil => intro _; exact Nat.le_refl _
  | text _ r ih => intro d; exact ih d
  | elem h k r ihk ihr =>
    intro d
    have h1 := ihk (d + 1)
    have h2 := ihr d
    simp only [preDV, preD]
    split <;> split <;> simp only [List.length_cons, List.length_append, List.length_nil] <;> omega

theorem preD_length_le_count (max : Nat) (its : Items) : ∀ d, (preD max d its).length ≤ its.count := by
  induction its with
  | nil => intro _; exact Nat.le_refl _
  | text _ r ih => intro d; have := ih d; simp only [preD, Items.count]; omega
  | elem h k r ihk ihr =>
    intro d
    have h1 := ihk (d + 1)
    have h2 := ihr d
    simp only [preD, Items.count]
    split <;> simp only [List.length_cons, List.length_append, List.length_nil] <;> omega

/-! ### content positions -/

/-- the content list from position `p` on -/
def Items.drop : Items → Nat → Items
  | .nil, _ => .nil
  | .elem h k r, 0 => .elem h k r
  | .text c r, 0 => .text c r
  | .elem _ _ r, n + 1 => r.drop n
  | .text _ r, n + 1 => r.drop n

theorem Items.drop_zero (its : Items) : its.drop 0 = its := by
  cases its <;> rfl

theorem Items.drop_nil (its : Items) : ∀ p, its.drop p = .nil → ¬ its.length > p := by
  induction its with
  | nil => intro p _; simp [Items.length]
  | text c r ih =>
    intro p h
    cases p with
    | zero => cases h
    | succ p => have := ih p h; simp only [Items.length]; omega
  | elem h0 k0 r _ ih =>
    intro p h
    cases p with
    | zero => cases h
    | succ p => have := ih p h; simp only [Items.length]; omega

theorem Items.drop_elem (its : Items) (h : Hdr) (k r : Items) : ∀ p, its.drop p = .elem h k r →
    its.length > p ∧ its.elemAt p = some (h, k) ∧ its.drop (p + 1) = r := by
  induction its with
  | nil => intro p hd; cases hd
  | text c r0 ih =>
    intro p hd
    cases p with
    | zero => cases hd
    | succ p =>
      obtain ⟨a, b, c⟩ := ih p hd
      exact ⟨by simp only [Items.length]; omega, b, c⟩
  | elem h0 k0 r0 _ ih =>
    intro p hd
    cases p with
    | zero =>
      cases hd
      exact ⟨by simp only [Items.length]; omega, rfl, Items.drop_zero _⟩
    | succ p =>
      obtain ⟨a, b, c⟩ := ih p hd
      exact ⟨by simp only [Items.length]; omega, b, c⟩

theorem Items.drop_text (its : Items) (c : CDv) (r : Items) : ∀ p, its.drop p = .text c r →
    its.length > p ∧ its.elemAt p = none ∧ its.drop (p + 1) = r := by
  induction its with
  | nil => intro p hd; cases hd
  | text c0 r0 ih =>
    intro p hd
    cases p with
    | zero =>
      cases hd
      exact ⟨by simp only [Items.length]; omega, rfl, Items.drop_zero _⟩
    | succ p =>
      obtain ⟨a, b, c⟩ := ih p hd
      exact ⟨by simp only [Items.length]; omega, b, c⟩
  | elem h0 k0 r0 _ ih =>
    intro p hd
    cases p with
    | zero => cases hd
    | succ p =>
      obtain ⟨a, b, c⟩ := ih p hd
      exact ⟨by simp only [Items.length]; omega, b, c⟩

/-! ### the states of the machine

A state the iterator can be in is a stack of frames (element, next content position), top first — every element of the
stack has been returned already (`toA`) — possibly with one more element on top that is to be returned next (`toB`).
So `position.length` is `elements.length` or `elements.length - 1`: the invariant that excludes `.oob`. -/

abbrev Frame := (Hdr × Items) × Nat

def toA (max : Nat) (fs : List Frame) : DfsIt :=
  { elements := fs.map (·.1), position := fs.map (·.2), maxDepth := max }

def toB (max : Nat) (c : Hdr × Items) (fs : List Frame) : DfsIt :=
  { elements := c :: fs.map (·.1), position := fs.map (·.2), maxDepth := max }

theorem new_eq_toB (e : Hdr × Items) (max : Nat) : DfsIt.new e max = toB max e [] := rfl

theorem step_B (max : Nat) (c : Hdr × Items) (fs : List Frame) :
    (toB max c fs).step = .out fs.length c (toA max ((c, 0) :: fs)) := by
  simp [DfsIt.step, toB, toA]

theorem step_A_nil (max : Nat) : (toA max []).step = .done := rfl

theorem step_A_pop (max : Nat) (e : Hdr × Items) (p : Nat) (fs : List Frame)
    (h : ¬ ((max = 0 ∨ max > fs.length) ∧ e.2.length > p)) :
    (toA max ((e, p) :: fs)).step = .go (toA max fs) := by
  simp only [DfsIt.step, toA, List.map_cons, List.length_cons, List.length_map]
  rw [if_neg (by omega), if_neg h]

theorem step_A_elem (max : Nat) (e : Hdr × Items) (p : Nat) (fs : List Frame) (c : Hdr × Items)
    (h : max = 0 ∨ max > fs.length) (hl : e.2.length > p) (hc : e.2.elemAt p = some c) :
    (toA max ((e, p) :: fs)).step = .go (toB max c ((e, p + 1) :: fs)) := by
  simp only [DfsIt.step, toA, toB, List.map_cons, List.length_cons, List.length_map]
  rw [if_neg (by omega), if_pos ⟨h, hl⟩, hc]

theorem step_A_text (max : Nat) (e : Hdr × Items) (p : Nat) (fs : List Frame)
    (h : max = 0 ∨ max > fs.length) (hl : e.2.length > p) (hc : e.2.elemAt p = none) :
    (toA max ((e, p) :: fs)).step = .go (toA max ((e, p + 1) :: fs)) := by
  simp only [DfsIt.step, toA, List.map_cons, List.length_cons, List.length_map]
  rw [if_neg (by omega), if_pos ⟨h, hl⟩, hc]

/-! ### what a stack still yields, and how many loop iterations that takes -/

/-- what the iterator in the state `toA max fs` still yields (elements shown according to `vis`) -/
def semV (vis : Hdr → Bool) (max : Nat) : List Frame → List (Nat × Nat)
  | [] => []
  | x :: fs =>
    (if max = 0 ∨ max > fs.length then preDV vis max (fs.length + 1) (x.1.2.drop x.2) else []) ++ semV vis max fs

/-- loop iterations spent on the forest `its` at depth `d` (one per item, plus returning and leaving every element) -/
def costF (max : Nat) : Nat → Items → Nat
  | _, .nil => 0
  | d, .text _ r => 1 + costF max d r
  | d, .elem _ k r => 3 + (if max = 0 ∨ max > d then costF max (d + 1) k else 0) + costF max d r

/-- loop iterations from the state `toA max fs` until the stack is empty -/
def costA (max : Nat) : List Frame → Nat
  | [] => 0
  | x :: fs => (if max = 0 ∨ max > fs.length then costF max (fs.length + 1) (x.1.2.drop x.2) else 0) + 1 + costA max fs

theorem costF_le (max : Nat) (its : Items) : ∀ d, costF max d its ≤ 3 * its.count := by
  induction its with
  | nil => intro _; exact Nat.le_refl _
  | text _ r ih => intro d; have := ih d; simp only [costF, Items.count]; omega
  | elem h k r ihk ihr =>
    intro d
    have h1 := ihk (d + 1)
    have h2 := ihr d
    simp only [costF, Items.count]
    split <;> omega

theorem semV_off (vis : Hdr → Bool) (max : Nat) (x : Frame) (fs : List Frame) (h : ¬ (max = 0 ∨ max > fs.length)) :
    semV vis max (x :: fs) = semV vis max fs := by
  simp only [semV, if_neg h, List.nil_append]

theorem semV_on (vis : Hdr → Bool) (max : Nat) (x : Frame) (fs : List Frame) (h : max = 0 ∨ max > fs.length) :
    semV vis max (x :: fs) = preDV vis max (fs.length + 1) (x.1.2.drop x.2) ++ semV vis max fs := by
  simp only [semV, if_pos h]

theorem costA_off (max : Nat) (x : Frame) (fs : List Frame) (h : ¬ (max = 0 ∨ max > fs.length)) :
    costA max (x :: fs) = 1 + costA max fs := by
  simp only [costA, if_neg h, Nat.zero_add]

theorem costA_on (max : Nat) (x : Frame) (fs : List Frame) (h : max = 0 ∨ max > fs.length) :
    costA max (x :: fs) = costF max (fs.length + 1) (x.1.2.drop x.2) + 1 + costA max fs := by
  simp only [costA, if_pos h]

theorem costA_tail_le (max : Nat) (x : Frame) (fs : List Frame) : costA max fs ≤ costA max (x :: fs) := by
  simp only [costA]; omega

theorem semV_tail_le (vis : Hdr → Bool) (max : Nat) (x : Frame) (fs : List Frame) :
    (semV vis max fs).length ≤ (semV vis max (x :: fs)).length := by
  simp only [semV, List.length_append]; omega

theorem semV_length_le (vis : Hdr → Bool) (max : Nat) (fs : List Frame) :
    (semV vis max fs).length ≤ (semV (fun _ => true) max fs).length := by
  induction fs with
  | nil => exact Nat.le_refl _
  | cons x fs ih =>
    simp only [semV, List.length_append]
    split
    · have := preDV_length_le vis max (x.1.2.drop x.2) (fs.length + 1)
      rw [preDV_true]
      omega
    · simp only [List.length_nil, Nat.zero_add]; exact ih

theorem next_go (fuel : Nat) (it it' : DfsIt) (h : it.step = .go it') : DfsIt.next (fuel + 1) it = DfsIt.next fuel it' := by
  simp only [DfsIt.next, h]

theorem next_out (fuel : Nat) (it it' : DfsIt) (d : Nat) (e : Hdr × Items) (h : it.step = .out d e it') :
    DfsIt.next (fuel + 1) it = (some (d, e), it') := by
  simp only [DfsIt.next, h]

/-- **one call of `next`** from a state whose elements have all been returned, with enough fuel: either nothing is left
(for any `vis`) and the answer is `None`, or the answer is the next element `c` in document order, at the right depth, and
the iterator is set up to show the content of `c`; what is left to show is described for every `vis` at once (if `c`
is not shown, what is left is what the stack without `c` yields: this is `next_sibling`) -/
def NextSpec (max fuel : Nat) (fs : List Frame) : Prop :=
  ((∀ vis, semV vis max fs = []) ∧ (DfsIt.next fuel (toA max fs)).1 = none) ∨
  (∃ c fs', DfsIt.next fuel (toA max fs) = (some (fs'.length, c), toA max ((c, 0) :: fs')) ∧
    (∀ vis, semV vis max fs =
      if vis c.1 then (fs'.length, c.1.id) :: semV vis max ((c, 0) :: fs') else semV vis max fs') ∧
    costA max ((c, 0) :: fs') + 1 ≤ costA max fs)

theorem next_A (max : Nat) : ∀ (fuel : Nat) (fs : List Frame), costA max fs ≤ fuel → NextSpec max fuel fs := by
  intro fuel
  unfold NextSpec
  induction fuel with
  | zero =>
    intro fs hc
    cases fs with
    | nil => exact Or.inl ⟨fun _ => rfl, rfl⟩
    | cons x fs => simp only [costA] at hc; omega
  | succ fuel ih =>
    intro fs hc
    cases fs with
    | nil => exact Or.inl ⟨fun _ => rfl, rfl⟩
    | cons x fs =>
      obtain ⟨e, p⟩ := x
      -- the three ways to go on after leaving / staying in the top frame
      have pop : (toA max ((e, p) :: fs)).step = .go (toA max fs) →
          (∀ vis, semV vis max ((e, p) :: fs) = semV vis max fs) → costA max ((e, p) :: fs) = 1 + costA max fs →
          NextSpec max (fuel + 1) ((e, p) :: fs) := by
        intro hs hsem hcost
        unfold NextSpec
        rw [next_go _ _ _ hs]
        rcases ih fs (by omega) with ⟨h1, h2⟩ | ⟨c, fs', h1, h2, h3⟩
        · exact Or.inl ⟨fun vis => by rw [hsem]; exact h1 vis, h2⟩
        · exact Or.inr ⟨c, fs', h1, fun vis => by rw [hsem]; exact h2 vis, by omega⟩
      unfold NextSpec at pop
      by_cases hcond : max = 0 ∨ max > fs.length
      · cases hd : e.2.drop p with
        | nil =>
          have hl := Items.drop_nil e.2 p hd
          refine pop (step_A_pop max e p fs (fun h => hl h.2)) (fun vis => ?_) ?_
          · rw [semV_on vis max _ fs hcond]; simp only [hd, preDV, List.nil_append]
          · rw [costA_on max _ fs hcond]; simp only [hd, costF, Nat.zero_add]
        | text c r =>
          obtain ⟨hl, he, hr⟩ := Items.drop_text e.2 c r p hd
          rw [next_go _ _ _ (step_A_text max e p fs hcond hl he)]
          have hsem : ∀ vis, semV vis max ((e, p) :: fs) = semV vis max ((e, p + 1) :: fs) := by
            intro vis
            rw [semV_on vis max _ fs hcond, semV_on vis max _ fs hcond]
            simp only [hd, hr, preDV]
          have hcost : costA max ((e, p) :: fs) = 1 + costA max ((e, p + 1) :: fs) := by
            rw [costA_on max _ fs hcond, costA_on max _ fs hcond]
            simp only [hd, hr, costF]; omega
          rcases ih ((e, p + 1) :: fs) (by omega) with ⟨h1, h2⟩ | ⟨c, fs', h1, h2, h3⟩
          · exact Or.inl ⟨fun vis => by rw [hsem]; exact h1 vis, h2⟩
          · exact Or.inr ⟨c, fs', h1, fun vis => by rw [hsem]; exact h2 vis, by omega⟩
        | elem h k r =>
          obtain ⟨hl, he, hr⟩ := Items.drop_elem e.2 h k r p hd
          rw [next_go _ _ _ (step_A_elem max e p fs (h, k) hcond hl he)]
          have hcost : costA max ((e, p) :: fs) =
              2 + costA max (((h, k), 0) :: (e, p + 1) :: fs) := by
            rw [costA_on max _ fs hcond]
            simp only [costA, List.length_cons, hd, hr, costF, Items.drop_zero, if_pos hcond]
            omega
          have hf : ∃ g, fuel = g + 1 := ⟨fuel - 1, by omega⟩
          obtain ⟨g, rfl⟩ := hf
          rw [next_out _ _ _ _ _ (step_B max (h, k) ((e, p + 1) :: fs))]
          refine Or.inr ⟨(h, k), (e, p + 1) :: fs, rfl, fun vis => ?_, by omega⟩
          rw [semV_on vis max _ fs hcond]
          simp only [semV, List.length_cons, hd, hr, preDV, Items.drop_zero, if_pos hcond]
          split <;> simp
      · refine pop (step_A_pop max e p fs (fun h => hcond h.1)) (fun vis => semV_off vis max _ fs hcond) ?_
        exact costA_off max _ fs hcond

/-- the whole list, unfiltered -/
abbrev semA (max : Nat) (fs : List Frame) : List (Nat × Nat) := semV (fun _ => true) max fs

theorem next_none_eq {fuel : Nat} {it : DfsIt} (h : (DfsIt.next fuel it).1 = none) :
    DfsIt.next fuel it = (none, (DfsIt.next fuel it).2) := by
  cases hn : DfsIt.next fuel it with
  | mk a b => rw [hn] at h; cases h; rfl

/-- **draining** a state: with enough fuel per call (`costA`) and enough calls (the length of the answer) the answer
is exactly what the stack yields -/
theorem drain_A (max fuel : Nat) : ∀ (calls : Nat) (fs : List Frame), costA max fs ≤ fuel →
    (semA max fs).length ≤ calls → DfsIt.drain fuel calls (toA max fs) = semA max fs := by
  intro calls
  induction calls with
  | zero =>
    intro fs _ hl
    have : semA max fs = [] := List.eq_nil_of_length_eq_zero (by omega)
    rw [this]; rfl
  | succ calls ih =>
    intro fs hc hl
    rcases next_A max fuel fs hc with ⟨h1, h2⟩ | ⟨c, fs', h1, h2, h3⟩
    · rw [DfsIt.drain, next_none_eq h2]
      exact (h1 _).symm
    · have h2' := h2 (fun _ => true)
      simp only [if_true] at h2'
      rw [DfsIt.drain, h1]
      show _ :: _ = semA max fs
      have hl' : (semA max ((c, 0) :: fs')).length ≤ calls := by
        have : (semA max fs).length = (semA max ((c, 0) :: fs')).length + 1 := by
          show (semV _ max fs).length = _
          rw [h2']; rfl
        omega
      rw [ih _ (by omega) hl']
      exact h2'.symm

theorem semA_root (max : Nat) (e : Hdr × Items) :
    semA max [(e, 0)] = if max = 0 ∨ max > 0 then preD max 1 e.2 else [] := by
  simp only [semA, semV, List.length_nil, Items.drop_zero, List.append_nil, preDV_true, Nat.zero_add]

theorem costA_root_le (max : Nat) (e : Hdr × Items) : costA max [(e, 0)] ≤ 3 * e.2.count + 1 := by
  simp only [costA, List.length_nil, Items.drop_zero, Nat.zero_add]
  have := costF_le max e.2 1
  split <;> omega

theorem semA_root_length_le (max : Nat) (e : Hdr × Items) : (semA max [(e, 0)]).length ≤ e.2.count := by
  rw [semA_root]
  have := preD_length_le_count max e.2 1
  split
  · exact this
  · exact Nat.zero_le _

/-- draining a new iterator: any fuel ≥ `3 * count + 2` and any number of calls ≥ `count + 1` give the specification -/
theorem drain_new (e : Hdr × Items) (max fuel calls : Nat) (hf : 3 * e.2.count + 2 ≤ fuel) (hc : e.2.count + 1 ≤ calls) :
    DfsIt.drain fuel calls (DfsIt.new e max) = preDElem max 0 e := by
  obtain ⟨g, rfl⟩ : ∃ g, fuel = g + 1 := ⟨fuel - 1, by omega⟩
  obtain ⟨n, rfl⟩ : ∃ n, calls = n + 1 := ⟨calls - 1, by omega⟩
  rw [new_eq_toB, DfsIt.drain, next_out _ _ _ _ _ (step_B max e [])]
  show (0, e.1.id) :: DfsIt.drain (g + 1) n (toA max [(e, 0)]) = _
  have h1 := costA_root_le max e
  have h2 := semA_root_length_le max e
  rw [drain_A max (g + 1) n _ (by omega) (by omega), semA_root]
  rfl

/-- **C03** the element-scoped depth-first iterator (with or without depth limit) yields exactly the subtree in document
order, with depths — with the loop fuel and the number of calls chosen in `dfsAll` -/
theorem dfsAll_eq (e : Hdr × Items) (max : Nat) : dfsAll e max = preDElem max 0 e := by
  unfold dfsAll
  exact drain_new e max _ _ (by omega) (by omega)

/-- the bounds of `dfsAll` are never exhausted: every larger fuel and every larger number of calls gives the same list -/
theorem drain_new_eq (e : Hdr × Items) (max fuel calls : Nat) (hf : 3 * (e.2.count + 2) ≤ fuel) (hc : e.2.count + 2 ≤ calls) :
    DfsIt.drain fuel calls (DfsIt.new e max) = dfsAll e max := by
  rw [dfsAll_eq]
  exact drain_new e max _ _ (by omega) (by omega)

/-! ### `.oob` never occurs -/

/-- the states the iterator can be in -/
def DfsGood (it : DfsIt) : Prop := (∃ fs, it = toA it.maxDepth fs) ∨ (∃ c fs, it = toB it.maxDepth c fs)

theorem DfsGood.new (e : Hdr × Items) (max : Nat) : DfsGood (DfsIt.new e max) := Or.inr ⟨e, [], rfl⟩

theorem step_A_cases (max : Nat) (fs : List Frame) :
    (toA max fs).step = .done ∨ (∃ fs', (toA max fs).step = .go (toA max fs')) ∨
      (∃ c fs', (toA max fs).step = .go (toB max c fs')) := by
  cases fs with
  | nil => exact Or.inl rfl
  | cons x fs =>
    obtain ⟨e, p⟩ := x
    by_cases hcond : (max = 0 ∨ max > fs.length) ∧ e.2.length > p
    · cases he : e.2.elemAt p with
      | none => exact Or.inr (Or.inl ⟨_, step_A_text max e p fs hcond.1 hcond.2 he⟩)
      | some c => exact Or.inr (Or.inr ⟨_, _, step_A_elem max e p fs c hcond.1 hcond.2 he⟩)
    · exact Or.inr (Or.inl ⟨_, step_A_pop max e p fs hcond⟩)

/-- `self.position[depth]` is never out of range, and the states stay of this form -/
theorem DfsGood.step_ne_oob {it : DfsIt} (hg : DfsGood it) : it.step ≠ .oob := by
  rcases hg with ⟨fs, h⟩ | ⟨c, fs, h⟩
  · rw [h]
    rcases step_A_cases it.maxDepth fs with h1 | ⟨_, h1⟩ | ⟨_, _, h1⟩ <;> rw [h1] <;> exact fun h => nomatch h
  · rw [h, step_B]; exact fun h => nomatch h

theorem DfsGood.step_go {it it' : DfsIt} (hg : DfsGood it) (hs : it.step = .go it') : DfsGood it' := by
  rcases hg with ⟨fs, h⟩ | ⟨c, fs, h⟩
  · rw [h] at hs
    rcases step_A_cases it.maxDepth fs with h1 | ⟨fs', h1⟩ | ⟨c, fs', h1⟩ <;> rw [h1] at hs
    · cases hs
    · cases hs; exact Or.inl ⟨fs', rfl⟩
    · cases hs; exact Or.inr ⟨c, fs', rfl⟩
  · rw [h, step_B] at hs; cases hs

theorem DfsGood.step_out {it it' : DfsIt} {d : Nat} {e : Hdr × Items} (hg : DfsGood it) (hs : it.step = .out d e it') : DfsGood it' := by
  rcases hg with ⟨fs, h⟩ | ⟨c, fs, h⟩
  · rw [h] at hs
    rcases step_A_cases it.maxDepth fs with h1 | ⟨fs', h1⟩ | ⟨c, fs', h1⟩ <;> rw [h1] at hs <;> cases hs
  · rw [h, step_B] at hs; cases hs; exact Or.inl ⟨_, rfl⟩

/-- `next_sibling` keeps the form of the state, too -/
theorem DfsGood.tail {it : DfsIt} (hg : DfsGood it) (hp : it.position.length = it.elements.length) :
    DfsGood { it with elements := it.elements.tail, position := it.position.tail } := by
  rcases hg with ⟨fs, h⟩ | ⟨c, fs, h⟩
  · rw [h]
    cases fs with
    | nil => exact Or.inl ⟨[], rfl⟩
    | cons x fs => exact Or.inl ⟨fs, rfl⟩
  · rw [h] at hp; simp [toB] at hp

/-! ### corollaries: ids in document order, nesting depths, the limit -/

theorem preD_ids (its : Items) : ∀ d, (preD 0 d its).map (·.2) = its.ids := by
  induction its with
  | nil => intro _; rfl
  | text _ r ih => intro d; exact ih d
  | elem h k r ihk ihr =>
    intro d
    simp only [preD, true_or, if_true, List.map_cons, List.map_append, ihk, ihr, Items.ids]

/-- **C03** without limit, the ids listed are exactly the ids of the subtree, in document order -/
theorem dfsAll_ids (h : Hdr) (k : Items) : (dfsAll (h, k) 0).map (·.2) = (Items.elem h k .nil).ids := by
  rw [dfsAll_eq]
  simp only [preDElem, true_or, if_true, List.map_cons, preD_ids, Items.ids, List.append_nil]

theorem preorder_depth_ge (its : Items) : ∀ d x, x ∈ its.preorder d → d ≤ x.1 := by
  induction its with
  | nil => intro _ _ h; cases h
  | text _ r ih => intro d x h; exact ih d x h
  | elem h k r ihk ihr =>
    intro d x hx
    simp only [Items.preorder, List.mem_cons, List.mem_append] at hx
    rcases hx with rfl | hx | hx
    · exact Nat.le_refl _
    · have := ihk (d + 1) x hx; omega
    · exact ihr d x hx

/-- `preD` is the preorder list of `Model/World.lean` (depth = nesting depth), cut at the limit -/
theorem preD_preorder (max : Nat) (its : Items) : ∀ d, (max = 0 ∨ d ≤ max) →
    preD max d its =
      ((its.preorder d).filter (fun x => decide (max = 0 ∨ x.1 ≤ max))).map (fun x => (x.1, x.2.1.id)) := by
  induction its with
  | nil => intro _ _; rfl
  | text _ r ih => intro d hd; exact ih d hd
  | elem h k r ihk ihr =>
    intro d hd
    have hd' : decide (max = 0 ∨ d ≤ max) = true := by simpa using hd
    simp only [preD, Items.preorder, List.filter_cons, hd', if_true, List.map_cons, List.filter_append, List.map_append,
      ← ihr d hd]
    congr 2
    by_cases hc : max = 0 ∨ max > d
    · rw [if_pos hc]
      exact ihk (d + 1) (by omega)
    · rw [if_neg hc]
      symm
      rw [List.map_eq_nil_iff, List.filter_eq_nil_iff]
      intro x hx
      have := preorder_depth_ge k (d + 1) x hx
      simp only [decide_eq_true_eq]
      omega

/-- **C03** without limit: the list is the preorder list of the subtree, every element with its nesting depth -/
theorem dfsAll_preorder (h : Hdr) (k : Items) :
    dfsAll (h, k) 0 = ((Items.elem h k .nil).preorder 0).map (fun x => (x.1, x.2.1.id)) := by
  rw [dfsAll_eq]
  have := preD_preorder 0 (Items.elem h k .nil) 0 (Or.inl rfl)
  simp only [true_or, decide_true] at this
  rw [List.filter_eq_self.mpr (fun _ _ => rfl)] at this
  rw [← this]
  simp only [preDElem, preD, true_or, if_true, List.append_nil]

/-- **C03** with a limit: exactly the elements of nesting depth ≤ max, in document order, with their depths -/
theorem dfsAll_limit (h : Hdr) (k : Items) (max : Nat) :
    dfsAll (h, k) max =
      (((Items.elem h k .nil).preorder 0).filter (fun x => decide (max = 0 ∨ x.1 ≤ max))).map (fun x => (x.1, x.2.1.id)) := by
  rw [dfsAll_eq, ← preD_preorder max (Items.elem h k .nil) 0 (by omega)]
  simp only [preDElem, preD, List.append_nil]

/-! ### the file-scoped iterator -/

theorem nextSibling_A (max fuel : Nat) (x : Frame) (fs : List Frame) :
    (toA max (x :: fs)).nextSibling fuel = DfsIt.next fuel (toA max fs) := rfl

def FileSpec (f max fuel g : Nat) (fs : List Frame) : Prop :=
  (semV (visF f) max fs = [] ∧ (fileNextLoop f fuel g (DfsIt.next fuel (toA max fs))).1 = none) ∨
  (∃ c fs', fileNextLoop f fuel g (DfsIt.next fuel (toA max fs)) = (some (fs'.length, c), toA max ((c, 0) :: fs')) ∧
    semV (visF f) max fs = (fs'.length, c.1.id) :: semV (visF f) max ((c, 0) :: fs') ∧
    costA max ((c, 0) :: fs') + 1 ≤ costA max fs ∧
    (semA max ((c, 0) :: fs')).length + 1 ≤ (semA max fs).length)

/-- **one call of the file-scoped `next`** (the loop around `next` / `next_sibling`) -/
theorem fileLoop_A (f max fuel : Nat) : ∀ (g : Nat) (fs : List Frame), costA max fs ≤ fuel →
    (semA max fs).length + 1 ≤ g → FileSpec f max fuel g fs := by
  intro g
  induction g with
  | zero => intro fs _ hg; omega
  | succ g ih =>
    intro fs hc hg
    unfold FileSpec
    rcases next_A max fuel fs hc with ⟨h1, h2⟩ | ⟨c, fs', h1, h2, h3⟩
    · rw [next_none_eq h2]
      exact Or.inl ⟨h1 _, rfl⟩
    · have hT := h2 (fun _ => true)
      simp only [if_true] at hT
      have hlen : (semA max fs).length = (semA max ((c, 0) :: fs')).length + 1 := by
        show (semV _ max fs).length = _
        rw [hT]; rfl
      have hF := h2 (visF f)
      rw [h1]
      by_cases hv : visF f c.1 = true
      · rw [if_pos hv] at hF
        have : fileNextLoop f fuel (g + 1) (some (fs'.length, c), toA max ((c, 0) :: fs')) =
            (some (fs'.length, c), toA max ((c, 0) :: fs')) := by
          unfold visF at hv
          simp only [fileNextLoop, hv, if_true]
        rw [this]
        exact Or.inr ⟨c, fs', rfl, hF, h3, by omega⟩
      · rw [if_neg hv] at hF
        have : fileNextLoop f fuel (g + 1) (some (fs'.length, c), toA max ((c, 0) :: fs')) =
            fileNextLoop f fuel g (DfsIt.next fuel (toA max fs')) := by
          unfold visF at hv
          simp only [fileNextLoop, hv, nextSibling_A]
          rfl
        rw [this]
        have hc' := costA_tail_le max (c, 0) fs'
        have hl' := semV_tail_le (fun _ => true) max (c, 0) fs'
        have hl'' : (semA max fs').length ≤ (semA max ((c, 0) :: fs')).length := hl'
        have := ih fs' (by omega) (by omega)
        unfold FileSpec at this
        rcases this with ⟨a, b⟩ | ⟨c2, fs2, a, b, d, e⟩
        · exact Or.inl ⟨by rw [hF]; exact a, b⟩
        · exact Or.inr ⟨c2, fs2, a, by rw [hF]; exact b, by omega, by omega⟩

theorem fileLoop_none_eq {f fuel g : Nat} {r : Option (Nat × (Hdr × Items)) × DfsIt}
    (h : (fileNextLoop f fuel g r).1 = none) : fileNextLoop f fuel g r = (none, (fileNextLoop f fuel g r).2) := by
  cases hn : fileNextLoop f fuel g r with
  | mk a b => rw [hn] at h; cases h; rfl

/-- **draining** the file-scoped iterator -/
theorem fileDrain_A (f max fuel skips : Nat) : ∀ (calls : Nat) (fs : List Frame), costA max fs ≤ fuel →
    (semA max fs).length + 1 ≤ skips → (semA max fs).length ≤ calls →
    fileDrain f fuel skips calls (toA max fs) = semV (visF f) max fs := by
  intro calls
  induction calls with
  | zero =>
    intro fs _ _ hl
    have h0 := semV_length_le (visF f) max fs
    have hl' : (semV (fun _ => true) max fs).length ≤ 0 := hl
    have : semV (visF f) max fs = [] := List.eq_nil_of_length_eq_zero (by omega)
    rw [this]; rfl
  | succ calls ih =>
    intro fs hc hs hl
    have := fileLoop_A f max fuel skips fs hc hs
    unfold FileSpec at this
    rcases this with ⟨a, b⟩ | ⟨c, fs', a, b, d, e⟩
    · rw [fileDrain, fileNext, fileLoop_none_eq b, a]
    · rw [fileDrain, fileNext, a, b]
      show _ :: fileDrain f fuel skips calls _ = _
      rw [ih _ (by omega) (by omega) (by omega)]

theorem semVF_root (f max : Nat) (e : Hdr × Items) :
    semV (visF f) max [(e, 0)] = if max = 0 ∨ max > 0 then preDF f max 1 e.2 else [] := by
  simp only [semV, List.length_nil, Items.drop_zero, List.append_nil, preDV_visF, Nat.zero_add]

/-- the file-scoped iterator drained, for any sufficient bounds -/
theorem fileDrain_new (f : Nat) (e : Hdr × Items) (max fuel skips calls : Nat) (hf : 3 * e.2.count + 2 ≤ fuel)
    (hs : e.2.count + 2 ≤ skips) (hc : e.2.count + 1 ≤ calls) :
    fileDrain f fuel skips calls (DfsIt.new e max) = if visF f e.1 then preDFElem f max 0 e else [] := by
  obtain ⟨g, rfl⟩ : ∃ g, fuel = g + 1 := ⟨fuel - 1, by omega⟩
  obtain ⟨n, rfl⟩ : ∃ n, calls = n + 1 := ⟨calls - 1, by omega⟩
  obtain ⟨s, rfl⟩ : ∃ s, skips = s + 2 := ⟨skips - 2, by omega⟩
  have h1 := costA_root_le max e
  have h2 := semA_root_length_le max e
  rw [new_eq_toB, fileDrain, fileNext, next_out _ _ _ _ _ (step_B max e [])]
  by_cases hv : visF f e.1 = true
  · rw [if_pos hv]
    have : fileNextLoop f (g + 1) (s + 2) (some (([] : List Frame).length, e), toA max [(e, 0)]) =
        (some (0, e), toA max [(e, 0)]) := by
      unfold visF at hv
      simp only [fileNextLoop, hv, if_true, List.length_nil]
    rw [this]
    show (0, e.1.id) :: fileDrain f (g + 1) (s + 2) n (toA max [(e, 0)]) = _
    rw [fileDrain_A f max (g + 1) (s + 2) n _ (by omega) (by omega) (by omega), semVF_root]
    rfl
  · rw [if_neg hv]
    have : fileNextLoop f (g + 1) (s + 2) (some (([] : List Frame).length, e), toA max [(e, 0)]) =
        (none, toA max []) := by
      unfold visF at hv
      simp only [fileNextLoop, hv, nextSibling_A]
      rfl
    rw [this]

/-- **C03** the file-scoped depth-first iterator: if the root passes the file test, exactly the part of the tree that
passes the test all the way down, in document order; otherwise nothing (the root itself is tested too) -/
theorem dfsFileAll_eq (f : Nat) (e : Hdr × Items) (max : Nat) :
    dfsFileAll f e max = if visF f e.1 then preDFElem f max 0 e else [] := by
  unfold dfsFileAll
  exact fileDrain_new f e max _ _ _ (by omega) (by omega) (by omega)

/-- the bounds of `dfsFileAll` are never exhausted -/
theorem fileDrain_new_eq (f : Nat) (e : Hdr × Items) (max fuel skips calls : Nat) (hf : 3 * (e.2.count + 2) ≤ fuel)
    (hs : e.2.count + 2 ≤ skips) (hc : e.2.count + 2 ≤ calls) :
    fileDrain f fuel skips calls (DfsIt.new e max) = dfsFileAll f e max := by
  rw [dfsFileAll_eq]
  exact fileDrain_new f e max _ _ _ (by omega) hs (by omega)

/-- **C03 / C10** the file-scoped enumeration without limit of a forest below a parent that is in the view of `f` lists
exactly the elements of the view of `f` (`projFile`: the elements whose effective file set contains `f`), in document order -/
theorem preDF_ids_projFile (f : Nat) (its : Items) : ∀ (pe : List Nat) (d : Nat), f ∈ pe →
    (preDF f 0 d its).map (·.2) = (projFile f pe its).ids := by
  induction its with
  | nil => intro _ _ _; rfl
  | text _ r ih => intro pe d hf; exact ih pe d hf
  | elem h k r ihk ihr =>
    intro pe d hf
    by_cases hv : f ∈ effOf pe h
    · have hvis : (h.files.isEmpty || h.files.contains f) = true := (visible_iff_eff f pe h hf).mpr hv
      rw [projFile_elem_pos f pe h k r hv]
      simp only [preDF, hvis, if_true, true_or, List.map_cons, List.map_append, Items.ids, ihk _ (d + 1) hv, ihr pe d hf]
    · have hvis : ¬ (h.files.isEmpty || h.files.contains f) = true := fun hx => hv ((visible_iff_eff f pe h hf).mp hx)
      rw [projFile_elem_neg f pe h k r hv]
      simp only [preDF, hvis]
      exact ihr pe d hf

/-- the same with depths: the file-scoped enumeration is the (unfiltered) enumeration of the view -/
theorem preDF_eq_preD_projFile (f max : Nat) (its : Items) : ∀ (pe : List Nat) (d : Nat), f ∈ pe →
    preDF f max d its = preD max d (projFile f pe its) := by
  induction its with
  | nil => intro _ _ _; rfl
  | text _ r ih => intro pe d hf; exact ih pe d hf
  | elem h k r ihk ihr =>
    intro pe d hf
    by_cases hv : f ∈ effOf pe h
    · have hvis : (h.files.isEmpty || h.files.contains f) = true := (visible_iff_eff f pe h hf).mpr hv
      rw [projFile_elem_pos f pe h k r hv]
      simp only [preDF, preD, hvis, if_true, ihk _ (d + 1) hv, ihr pe d hf]
    · have hvis : ¬ (h.files.isEmpty || h.files.contains f) = true := fun hx => hv ((visible_iff_eff f pe h hf).mp hx)
      rw [projFile_elem_neg f pe h k r hv]
      simp only [preDF, hvis]
      exact ihr pe d hf

theorem visF_root (f : Nat) (h : Hdr) (hf : f ∈ h.files) : visF f h = true := by
  simp [visF, hf]

/-- **C03** for a model: the file-scoped iterator of a file of the root lists exactly the view of the file (the elements
attributed to the file), in document order -/
theorem dfsFileAll_model_view (m : Model) (f : Nat) (hf : f ∈ m.rootHdr.files) :
    (dfsFileAll f (m.rootHdr, m.rootKids) 0).map (·.2) = (m.view f).ids := by
  rw [dfsFileAll_eq, if_pos (visF_root f _ hf)]
  have hv : f ∈ effOf m.rootHdr.files m.rootHdr := by rw [effOf_self]; exact hf
  unfold Model.view Model.rootItems
  rw [projFile_elem_pos f _ _ _ _ hv]
  simp only [preDFElem, true_or, if_true, List.map_cons, Items.ids, projFile, List.append_nil]
  rw [preDF_ids_projFile f m.rootKids _ 1 hv]

/-- with depths, and with a limit: the file-scoped iteration is the plain iteration over the view of the file -/
theorem dfsFileAll_model_eq (m : Model) (f max : Nat) (hf : f ∈ m.rootHdr.files) :
    dfsFileAll f (m.rootHdr, m.rootKids) max = preD max 0 (m.view f) := by
  rw [dfsFileAll_eq, if_pos (visF_root f _ hf)]
  have hv : f ∈ effOf m.rootHdr.files m.rootHdr := by rw [effOf_self]; exact hf
  unfold Model.view Model.rootItems
  rw [projFile_elem_pos f _ _ _ _ hv]
  simp only [preDFElem, preD, projFile, List.append_nil]
  rw [preDF_eq_preD_projFile f max m.rootKids _ 1 hv]

/-- **C03 / C10** (distinct ids, the invariant `filesOk` of all reachable states): the file-scoped iterator lists the
element `t` iff `f` is in the file set `file_membership` reports for `t` -/
theorem mem_dfsFileAll_iff (m : Model) (f t : Nat) (c : List (Hdr × Items)) (hf : f ∈ m.rootHdr.files) (hm : m.filesOk)
    (hn : m.rootItems.ids.Nodup) (hc : m.rootItems.chain t = some c) :
    t ∈ (dfsFileAll f (m.rootHdr, m.rootKids) 0).map (·.2) ↔ f ∈ effective c := by
  rw [dfsFileAll_model_view m f hf]
  exact m.mem_view_iff f t c hm hn hc

/-- a file that is not a file of the root: nothing is listed, if the root has a file set -/
theorem dfsFileAll_not_root (f : Nat) (e : Hdr × Items) (max : Nat) (hne : e.1.files ≠ []) (hf : ¬ f ∈ e.1.files) :
    dfsFileAll f e max = [] := by
  rw [dfsFileAll_eq, if_neg]
  cases he : e.1.files with
  | nil => exact absurd he hne
  | cons a l => rw [he] at hf; simp [visF, he]; simpa using hf

/-! ### `sub_elements()` -/

/-- what `ElementsIterator` yields from the content list `its` on, when `last` is the id returned last: an element with
the id returned last is passed over -/
def subSpec : Option Nat → Items → List Nat
  | _, .nil => []
  | l, .text _ r => subSpec l r
  | l, .elem h _ r => if l = some h.id then subSpec l r else h.id :: subSpec (some h.id) r

theorem Items.itemAt_drop (its : Items) : ∀ p, its.itemAt p =
    match its.drop p with
    | .nil => none
    | .elem h _ _ => some (some h.id)
    | .text _ _ => some none := by
  induction its with
  | nil => intro p; rfl
  | text c r ih => intro p; cases p with
    | zero => rfl
    | succ p => exact ih p
  | elem h k r _ ih => intro p; cases p with
    | zero => rfl
    | succ p => exact ih p

theorem subSpec_length_le (its : Items) : ∀ l, (subSpec l its).length ≤ its.length := by
  induction its with
  | nil => intro _; exact Nat.le_refl _
  | text c r ih => intro l; have := ih l; simp only [subSpec, Items.length]; omega
  | elem h k r _ ih =>
    intro l
    have h1 := ih l
    have h2 := ih (some h.id)
    simp only [subSpec, Items.length]
    split
    · omega
    · simp only [List.length_cons]; omega

def SubSpecNext (kids : Items) (fuel i : Nat) (last : Option Nat) : Prop :=
  (subSpec last (kids.drop i) = [] ∧ (SubIt.next kids fuel ⟨i, last⟩).1 = none) ∨
  (∃ j id, SubIt.next kids fuel ⟨i, last⟩ = (some id, ⟨j, some id⟩) ∧
    subSpec last (kids.drop i) = id :: subSpec (some id) (kids.drop j))

/-- one call of `ElementsIterator::next` -/
theorem sub_next (kids : Items) : ∀ (fuel i : Nat) (last : Option Nat), (kids.drop i).length + 1 ≤ fuel →
    SubSpecNext kids fuel i last := by
  intro fuel
  induction fuel with
  | zero => intro i last h; omega
  | succ fuel ih =>
    intro i last hf
    unfold SubSpecNext
    have hi := Items.itemAt_drop kids i
    cases hd : kids.drop i with
    | nil =>
      rw [hd] at hi
      refine Or.inl ⟨rfl, ?_⟩
      simp only [SubIt.next, hi]
    | text c r =>
      rw [hd] at hi hf
      obtain ⟨_, _, hr⟩ := Items.drop_text kids c r i hd
      have hn : SubIt.next kids (fuel + 1) ⟨i, last⟩ = SubIt.next kids fuel ⟨i + 1, last⟩ := by
        simp only [SubIt.next, hi]
      rw [hn]
      have := ih (i + 1) last (by rw [hr]; simp only [Items.length] at hf; omega)
      unfold SubSpecNext at this
      rw [hr] at this
      exact this
    | elem h k r =>
      rw [hd] at hi hf
      obtain ⟨_, _, hr⟩ := Items.drop_elem kids h k r i hd
      by_cases hl : last = some h.id
      · have hn : SubIt.next kids (fuel + 1) ⟨i, last⟩ = SubIt.next kids fuel ⟨i + 1, last⟩ := by
          subst hl
          simp only [SubIt.next, hi, ne_eq, not_true_eq_false, if_false]
        rw [hn]
        have := ih (i + 1) last (by rw [hr]; simp only [Items.length] at hf; omega)
        unfold SubSpecNext at this
        rw [hr] at this
        simp only [subSpec, if_pos hl]
        exact this
      · have hn : SubIt.next kids (fuel + 1) ⟨i, last⟩ = (some h.id, ⟨i, some h.id⟩) := by
          cases last with
          | none => simp only [SubIt.next, hi]
          | some prev =>
            have : prev ≠ h.id := fun hx => hl (by rw [hx])
            simp only [SubIt.next, hi, ne_eq, this, not_false_eq_true, if_true]
        refine Or.inr ⟨i, h.id, hn, ?_⟩
        rw [hd]
        simp only [subSpec, if_neg hl, if_true]

theorem subNext_none_eq {kids : Items} {fuel : Nat} {it : SubIt} (h : (SubIt.next kids fuel it).1 = none) :
    SubIt.next kids fuel it = (none, (SubIt.next kids fuel it).2) := by
  cases hn : SubIt.next kids fuel it with
  | mk a b => rw [hn] at h; cases h; rfl

theorem Items.drop_length_le (its : Items) : ∀ p, (its.drop p).length ≤ its.length := by
  induction its with
  | nil => intro p; exact Nat.le_refl _
  | text c r ih => intro p; cases p with
    | zero => exact Nat.le_refl _
    | succ p => have := ih p; simp only [Items.drop, Items.length]; omega
  | elem h k r _ ih => intro p; cases p with
    | zero => exact Nat.le_refl _
    | succ p => have := ih p; simp only [Items.drop, Items.length]; omega

theorem sub_drain (kids : Items) (fuel : Nat) (hf : kids.length + 1 ≤ fuel) : ∀ (calls i : Nat) (last : Option Nat),
    (subSpec last (kids.drop i)).length ≤ calls →
    SubIt.drain kids fuel calls ⟨i, last⟩ = subSpec last (kids.drop i) := by
  intro calls
  induction calls with
  | zero =>
    intro i last hl
    rw [List.eq_nil_of_length_eq_zero (Nat.le_zero.mp hl)]; rfl
  | succ calls ih =>
    intro i last hl
    have hd := Items.drop_length_le kids i
    have := sub_next kids fuel i last (by omega)
    unfold SubSpecNext at this
    rcases this with ⟨a, b⟩ | ⟨j, id, a, b⟩
    · rw [SubIt.drain, subNext_none_eq b, a]
    · rw [SubIt.drain, a, b]
      show _ :: SubIt.drain kids fuel calls _ = _
      rw [ih j (some id) (by rw [b] at hl; simpa using hl)]

/-- `sub_elements()`, every content list: the child elements in order, except that an element with the same id as the
child element before it is passed over -/
theorem subsAll_eq_subSpec (kids : Items) : subsAll kids = subSpec none kids := by
  unfold subsAll
  have := subSpec_length_le kids none
  rw [sub_drain kids _ (by omega) _ 0 none (by rw [Items.drop_zero]; omega), Items.drop_zero]

/-- no two adjacent entries are equal -/
def AdjDistinct : List Nat → Prop
  | [] => True
  | [_] => True
  | a :: b :: l => a ≠ b ∧ AdjDistinct (b :: l)

theorem AdjDistinct_of_nodup : ∀ l : List Nat, l.Nodup → AdjDistinct l
  | [], _ => trivial
  | [_], _ => trivial
  | a :: b :: l, h => by
    rw [List.nodup_cons] at h
    exact ⟨fun hab => h.1 (by rw [hab]; exact List.mem_cons_self), AdjDistinct_of_nodup (b :: l) h.2⟩

theorem subSpec_eq_childElems (its : Items) : ∀ l : Option Nat,
    AdjDistinct (l.toList ++ its.childElems.map (·.1.id)) → subSpec l its = its.childElems.map (·.1.id) := by
  induction its with
  | nil => intro _ _; rfl
  | text c r ih => intro l h; exact ih l h
  | elem h k r _ ih =>
    intro l hd
    have hne : l ≠ some h.id := by
      intro hl; subst hl
      exact hd.1 rfl
    have htl : AdjDistinct (h.id :: r.childElems.map (·.1.id)) := by
      cases l with
      | none => exact hd
      | some a => exact hd.2
    simp only [subSpec, if_neg hne, Items.childElems, List.map_cons]
    rw [ih (some h.id) htl]

/-- **C03** `sub_elements()` lists exactly the child elements, in order — provided no two adjacent child elements have the
same id (ids are unique in every reachable state) -/
theorem subsAll_eq (kids : Items) (h : AdjDistinct (kids.childElems.map (·.1.id))) :
    subsAll kids = kids.childElems.map (·.1.id) := by
  rw [subsAll_eq_subSpec]
  exact subSpec_eq_childElems kids none h

theorem childElems_ids_sublist (its : Items) : (its.childElems.map (·.1.id)).Sublist its.ids := by
  induction its with
  | nil => exact List.Sublist.refl _
  | text c r ih => exact ih
  | elem h k r _ ih =>
    exact List.Sublist.cons_cons _ (ih.trans (List.sublist_append_right _ _))

theorem subsAll_eq_of_nodup (kids : Items) (h : kids.ids.Nodup) : subsAll kids = kids.childElems.map (·.1.id) :=
  subsAll_eq kids (AdjDistinct_of_nodup _ (h.sublist (childElems_ids_sublist kids)))

/-! ### examples -/

namespace IterEx

def hdr (id : Nat) (files : List Nat) : Hdr :=
  { id := id, name := 0, ety := ⟨0, 0⟩, parent := .none, attrs := [], files := files, comment := none }

/-- ```
1 {5,7}
├─ 2          ── "text", 3 {7} ── 4
├─ "text"
├─ 5 {5}
└─ 6
``` -/
def kids : Items :=
  .elem (hdr 2 []) (.text (.str []) (.elem (hdr 3 [7]) (.elem (hdr 4 []) .nil .nil) .nil))
    (.text (.str [1]) (.elem (hdr 5 [5]) .nil (.elem (hdr 6 []) .nil .nil)))

def root : Hdr × Items := (hdr 1 [5, 7], kids)

example : dfsAll root 0 = [(0, 1), (1, 2), (2, 3), (3, 4), (1, 5), (1, 6)] := by decide
example : dfsAll root 1 = [(0, 1), (1, 2), (1, 5), (1, 6)] := by decide
example : dfsAll root 2 = [(0, 1), (1, 2), (2, 3), (1, 5), (1, 6)] := by decide
example : dfsAll root 3 = dfsAll root 0 := by decide
/-- the file-scoped iteration: file 5 does not see 3 (nor 4 below it), file 7 does not see 5 -/
example : dfsFileAll 5 root 0 = [(0, 1), (1, 2), (1, 5), (1, 6)] := by decide
example : dfsFileAll 7 root 0 = [(0, 1), (1, 2), (2, 3), (3, 4), (1, 6)] := by decide
example : dfsFileAll 7 root 2 = [(0, 1), (1, 2), (2, 3), (1, 6)] := by decide
/-- a file the root is not in: the root itself is skipped -/
example : dfsFileAll 9 root 0 = [] := by decide
example : (projFile 7 [5, 7] (.elem root.1 root.2 .nil)).ids = [1, 2, 3, 4, 6] := by decide
example : subsAll kids = [2, 5, 6] := by decide
/-- the specification on the same tree -/
example : preDElem 2 0 root = [(0, 1), (1, 2), (2, 3), (1, 5), (1, 6)] := by decide
example : preDFElem 7 0 0 root = [(0, 1), (1, 2), (2, 3), (3, 4), (1, 6)] := by decide

/-- the hypothesis of `subsAll_eq` is needed: of two adjacent child elements with the same id (character data between them
does not count) the second is passed over — `ElementsIterator::next` compares with the element returned last -/
theorem subsAll_adjacent_dup :
    subsAll (.elem (hdr 1 []) .nil (.text (.str []) (.elem (hdr 1 []) .nil (.elem (hdr 2 []) .nil .nil)))) = [1, 2] := by
  decide
/-- not adjacent: both are listed -/
example : subsAll (.elem (hdr 1 []) .nil (.elem (hdr 2 []) .nil (.elem (hdr 1 []) .nil .nil))) = [1, 2, 1] := by decide

end IterEx

end AV.W
