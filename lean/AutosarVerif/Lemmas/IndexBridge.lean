/-
C04: `entries` (the structural "what the index must hold") says what the property says: the pairs (path, element) of the
elements that have an item name, where the path is what navigation from the root computes (`pathOfChain`, the model of
`Element::path`).
-/
import AutosarVerif.Lemmas.IndexCData

namespace AV.W
open Items

section
variable (S : Spec)

/-- with unique ids: `(q, i)` is an entry iff navigation finds `i`, `i` has an item name, and its path is `q` -/
theorem entries_mem_iff (its : Items) (hn : its.ids.Nodup) (pre q : Bytes) (i : Nat) :
    (q, i) ∈ entries S its pre ↔
      ∃ c, its.chain i = some c ∧ (itemName S (lastOf c).1 (lastOf c).2).isSome = true ∧ chainPre S c pre = q := by
  induction its generalizing pre with
  | nil => simp [entries, Items.chain]
  | text _ r ih => simp only [entries, Items.chain]; exact ih (by simpa [Items.ids] using hn) pre
  | elem hd k r ihk ihr =>
    simp only [Items.ids, List.nodup_cons, List.nodup_append, List.mem_append, not_or] at hn
    obtain ⟨hn1, hnk, hnr, hdis⟩ := hn
    have ihk := ihk hnk
    have ihr := ihr hnr
    constructor
    · intro hmem
      simp only [entries] at hmem
      -- where is the entry: the node itself, its content, or the following siblings
      have hcases : (∃ n, itemName S hd k = some n ∧ (q, i) = (pre ++ [47] ++ n, hd.id)) ∨
          (q, i) ∈ entries S k (match itemName S hd k with | some n => pre ++ [47] ++ n | none => pre) ∨
          (q, i) ∈ entries S r pre := by
        cases hin : itemName S hd k with
        | some n =>
          rw [hin] at hmem
          simp only [List.mem_cons, List.mem_append] at hmem
          rcases hmem with h | h | h
          · exact Or.inl ⟨n, rfl, h⟩
          · exact Or.inr (Or.inl h)
          · exact Or.inr (Or.inr h)
        | none =>
          rw [hin] at hmem
          simp only [List.mem_append] at hmem
          rcases hmem with h | h
          · exact Or.inr (Or.inl h)
          · exact Or.inr (Or.inr h)
      rcases hcases with ⟨n, hin, he⟩ | h | h
      · cases he
        refine ⟨[(hd, k)], by simp [Items.chain], ?_, ?_⟩
        · simp [lastOf, hin]
        · simp only [chainPre, hin]
      · obtain ⟨c, hc, hnm, hp⟩ := (ihk _).mp h
        have hik : i ∈ k.ids := chain_mem_ids i k c hc
        have hne : hd.id ≠ i := fun e => hn1.1 (e ▸ hik)
        refine ⟨(hd, k) :: c, by simp [Items.chain, hne, hc], ?_, ?_⟩
        · rw [lastOf_cons _ _ (chain_ne_nil i k c hc)]; exact hnm
        · simp only [chainPre]; exact hp
      · obtain ⟨c, hc, hnm, hp⟩ := (ihr pre).mp h
        have hir : i ∈ r.ids := chain_mem_ids i r c hc
        have hne : hd.id ≠ i := fun e => hn1.2 (e ▸ hir)
        have hnk' : i ∉ k.ids := fun hx => hdis i hx i hir rfl
        exact ⟨c, by simp [Items.chain, hne, chain_none_of_not_mem i k hnk', hc], hnm, hp⟩
    · rintro ⟨c, hc, hnm, hp⟩
      simp only [Items.chain] at hc
      simp only [entries]
      split at hc
      · rename_i heq
        simp at hc; subst hc
        simp only [lastOf, List.getLast?_singleton, Option.getD_some] at hnm
        obtain ⟨n, hin⟩ := Option.isSome_iff_exists.mp hnm
        simp only [chainPre, hin] at hp
        rw [hin, ← hp, ← heq]
        exact List.mem_cons_self
      · rename_i hne
        split at hc
        · rename_i c' hk
          simp at hc; subst hc
          rw [lastOf_cons _ _ (chain_ne_nil i k c' hk)] at hnm
          simp only [chainPre] at hp
          have := (ihk _).mpr ⟨c', hk, hnm, hp⟩
          cases hin : itemName S hd k with
          | some n => rw [hin] at this; simp only [List.mem_cons, List.mem_append]; exact Or.inr (Or.inl this)
          | none => rw [hin] at this; simp only [List.mem_append]; exact Or.inl this
        · have := (ihr pre).mpr ⟨c, hc, hnm, hp⟩
          cases hin : itemName S hd k with
          | some n => simp only [List.mem_cons, List.mem_append]; exact Or.inr (Or.inr this)
          | none => simp only [List.mem_append]; exact Or.inr this

end
end AV.W
