/-
C08, the agreement of strict and lenient mode as a property of the parser's computation type:
`Lock m` — started without warnings, either the lenient run produces no warning and the strict run is
IDENTICAL (same result, same state), or the lenient run's first warning is exactly the error of the
strict run.  `Lock` is closed under `bind'` (given that warnings only grow, `Mono`), holds for the three
primitives, hence for everything built from them: `parseCharData_lock`, `unescapeP_lock`.
-/
import AutosarVerif.Model.ParserMonad

namespace AV.PM

/-- warnings only grow -/
def Mono {α : Type} (m : P α) : Prop := ∀ b s, ∃ ws, (m b s).2.warnings = s.warnings ++ ws

/-- lock-step of the two modes from a warning-free state -/
def Lock {α : Type} (m : P α) : Prop := ∀ s, s.warnings = [] →
  match (m false s).2.warnings with
  | [] => m true s = m false s
  | w :: _ => (m true s).1 = .error w

theorem Lock_pure {α : Type} (a : α) : Lock (pure' a) := by
  intro s hs; simp [pure', hs]
theorem Mono_pure {α : Type} (a : α) : Mono (pure' a) := by
  intro b s; exact ⟨[], by simp [pure']⟩
theorem Lock_hard {α : Type} (k : Nat) : Lock (hardErr k : P α) := by
  intro s hs; simp [hardErr, hs]
theorem Mono_hard {α : Type} (k : Nat) : Mono (hardErr k : P α) := by
  intro b s; exact ⟨[], by simp [hardErr]⟩
theorem Lock_optErr (k : Nat) : Lock (optErr k) := by
  intro s hs; simp [optErr, hs]
theorem Mono_optErr (k : Nat) : Mono (optErr k) := by
  intro b s; cases b <;> simp [optErr]

theorem Mono_bind {α β : Type} {m : P α} {k : α → P β} (hm : Mono m) (hk : ∀ a, Mono (k a)) : Mono (bind' m k) := by
  intro b s
  obtain ⟨w1, h1⟩ := hm b s
  simp only [bind']
  cases hr : m b s with
  | mk r s1 =>
    rw [hr] at h1
    cases r with
    | error e => exact ⟨w1, h1⟩
    | ok a =>
      obtain ⟨w2, h2⟩ := hk a b s1
      refine ⟨w1 ++ w2, ?_⟩
      simp only at h1
      rw [h2, h1, List.append_assoc]

theorem Lock_bind {α β : Type} {m : P α} {k : α → P β} (hm : Lock m) (hmono : Mono m)
    (hk : ∀ a, Lock (k a)) (hkmono : ∀ a, Mono (k a)) : Lock (bind' m k) := by
  intro s hs
  have h1 := hm s hs
  cases hml : m false s with
  | mk r2 s2 =>
    rw [hml] at h1; simp only at h1
    cases hw : s2.warnings with
    | nil =>
      rw [hw] at h1
      simp only [bind', h1, hml]
      cases r2 with
      | error e => simp [hw]
      | ok a => exact hk a s2 hw
    | cons w ws =>
      rw [hw] at h1
      have : ∃ ws', ((bind' m k) false s).2.warnings = w :: ws' := by
        simp only [bind', hml]
        cases r2 with
        | error e => exact ⟨ws, hw⟩
        | ok a =>
          obtain ⟨ws2, h2⟩ := hkmono a false s2
          exact ⟨ws ++ ws2, by simp [h2, hw]⟩
      obtain ⟨ws', hws'⟩ := this
      rw [hws']
      simp only [bind']
      cases hms : m true s with
      | mk r1 s1 =>
        rw [hms] at h1; simp only at h1
        subst h1; rfl

/-- `unescape_string` is lock-step and monotone -/
theorem unescapeP_props (fuel : Nat) (s : Bytes) : Lock (unescapeP fuel s) ∧ Mono (unescapeP fuel s) := by
  fun_induction unescapeP fuel s
  all_goals first
    | exact ⟨Lock_pure _, Mono_pure _⟩
    | (rename_i ih
       exact ⟨Lock_bind ih.1 ih.2 (fun _ => Lock_pure _) (fun _ => Mono_pure _), Mono_bind ih.2 (fun _ => Mono_pure _)⟩)
    | (rename_i ih
       have hin := (⟨Lock_bind ih.1 ih.2 (fun _ => Lock_pure _) (fun _ => Mono_pure _), Mono_bind ih.2 (fun _ => Mono_pure _)⟩ :
         Lock (bind' (unescapeP _ _) fun u => pure' (38 :: u)) ∧ Mono (bind' (unescapeP _ _) fun u => pure' (38 :: u)))
       exact ⟨Lock_bind (Lock_optErr _) (Mono_optErr _) (fun _ => hin.1) (fun _ => hin.2),
         Mono_bind (Mono_optErr _) (fun _ => hin.2)⟩)

/-- typing a character-data text is lock-step in the two modes -/
theorem parseCharData_lock (input : Bytes) (spec : CSpec) : Lock (parseCharData input spec) := by
  unfold parseCharData
  split
  · rename_i preserve maxLen
    have hlen : ∀ raw : Bytes, Lock (match maxLen with
        | some m => if raw.length > m then optErr kStringValueTooLong else pure' ()
        | none => pure' ()) ∧ Mono (match maxLen with
        | some m => if raw.length > m then optErr kStringValueTooLong else pure' ()
        | none => pure' ()) := by
      intro raw
      cases maxLen with
      | none => exact ⟨Lock_pure _, Mono_pure _⟩
      | some m =>
        simp only
        split
        · exact ⟨Lock_optErr _, Mono_optErr _⟩
        · exact ⟨Lock_pure _, Mono_pure _⟩
    simp only
    refine Lock_bind (hlen _).1 (hlen _).2 (fun _ => ?_) (fun _ => ?_)
    · exact Lock_bind (unescapeP_props _ _).1 (unescapeP_props _ _).2 (fun _ => Lock_pure _) (fun _ => Mono_pure _)
    · exact Mono_bind (unescapeP_props _ _).2 (fun _ => Mono_pure _)
  · split
    · exact Lock_pure _
    · exact Lock_bind (Lock_optErr _) (Mono_optErr _) (fun _ => Lock_pure _) (fun _ => Mono_pure _)
  · split
    · exact Lock_pure _
    · exact Lock_bind (Lock_optErr _) (Mono_optErr _) (fun _ => Lock_pure _) (fun _ => Mono_pure _)
  · exact Lock_hard _

/-- what `Lock` means for the caller: the three agreement rules of C08 -/
theorem lock_rules {α : Type} (m : P α) (hm : Lock m) (s : PState) (hs : s.warnings = []) :
    -- lenient without warnings ⇒ strict identical
    ((m false s).2.warnings = [] → m true s = m false s) ∧
    -- lenient with warnings ⇒ strict fails with the first warning
    (∀ w ws, (m false s).2.warnings = w :: ws → (m true s).1 = .error w) := by
  have h := hm s hs
  constructor
  · intro h0; rw [h0] at h; exact h
  · intro w ws h1; rw [h1] at h; exact h

end AV.PM
