/- Soundness of `VersionTable.check`: what the regenerated obligation `versionTable_ok` means. -/
import AutosarVerif.Model.Versions

namespace AV.VersionTable

theorem check_parts {T : VersionTable} (h : T.check = true) :
    (T.values.all isBit = true) ∧ (pairwiseDistinct T.values = true) ∧
    (∀ v ∈ T.values, ∃ s, T.fileNameOf v = some s ∧ T.parse s = some v) ∧
    (∀ p ∈ T.fromStr, p.2 ∈ T.values ∧ T.fileNameOf p.2 = some p.1 ∧ T.parse p.1 = some p.2) ∧
    (∀ v ∈ T.values, T.ofU64 v = some v) ∧
    (∀ p ∈ T.fromU64, p.1 = p.2 ∧ p.2 ∈ T.values) ∧
    (T.latest ∈ T.values ∧ ∀ v ∈ T.values, v ≤ T.latest) := by
  simp only [check, Bool.and_eq_true, List.all_eq_true, beq_iff_eq, List.contains_iff_mem,
    decide_eq_true_eq] at h
  obtain ⟨⟨⟨⟨⟨⟨⟨h1, h2⟩, h3⟩, h4⟩, h5⟩, h6⟩, h7⟩, h8⟩ := h
  refine ⟨by simpa [List.all_eq_true] using h1, h2, ?_, ?_, h5, ?_, h7, h8⟩
  · intro v hv
    have := h3 v hv
    cases hf : T.fileNameOf v with
    | none => simp [hf] at this
    | some s => exact ⟨s, rfl, by simpa [hf] using this⟩
  · intro p hp
    have := h4 p hp
    exact ⟨this.1.1, this.1.2, this.2⟩
  · intro p hp
    exact h6 p hp

/-- value → file name → value -/
theorem filename_roundtrip {T : VersionTable} (h : T.check = true) (v : Nat) (hv : v ∈ T.values) :
    ∃ s, T.fileNameOf v = some s ∧ T.parse s = some v := (check_parts h).2.2.1 v hv

/-- only the file name of a version parses, and it parses to that version -/
theorem parse_exact {T : VersionTable} (h : T.check = true) (s : List Nat) (v : Nat)
    (hp : T.parse s = some v) : v ∈ T.values ∧ T.fileNameOf v = some s := by
  simp only [parse, Option.map_eq_some_iff] at hp
  obtain ⟨p, hfind, hp2⟩ := hp
  have hmem := List.mem_of_find?_eq_some hfind
  have hkey := List.find?_some hfind
  simp only [beq_iff_eq] at hkey
  obtain ⟨a, b, _⟩ := (check_parts h).2.2.2.1 p hmem
  subst hp2
  rw [← hkey]
  exact ⟨a, b⟩

/-- value → number → value, and `from_u64` accepts exactly the values -/
theorem ofU64_exact {T : VersionTable} (h : T.check = true) :
    (∀ v ∈ T.values, T.ofU64 v = some v) ∧ (∀ n v, T.ofU64 n = some v → n = v ∧ v ∈ T.values) := by
  refine ⟨(check_parts h).2.2.2.2.1, ?_⟩
  intro n v hp
  simp only [ofU64, Option.map_eq_some_iff] at hp
  obtain ⟨p, hfind, hp2⟩ := hp
  have hmem := List.mem_of_find?_eq_some hfind
  have hkey := List.find?_some hfind
  simp only [beq_iff_eq] at hkey
  obtain ⟨a, b⟩ := (check_parts h).2.2.2.2.2.1 p hmem
  subst hp2
  exact ⟨by rw [← hkey, a], b⟩

/-- every value is a single bit of a `u32` -/
theorem value_is_bit {T : VersionTable} (h : T.check = true) (v : Nat) (hv : v ∈ T.values) :
    ∃ k, k < 32 ∧ v = 2 ^ k := by
  have := (check_parts h).1
  simp only [List.all_eq_true] at this
  have := this v hv
  simp only [isBit, List.any_eq_true, List.mem_range, beq_iff_eq] at this
  exact this

theorem pairwiseDistinct_nodup (l : List Nat) (h : pairwiseDistinct l = true) : l.Nodup := by
  induction l with
  | nil => simp
  | cons x xs ih =>
    simp only [pairwiseDistinct, Bool.and_eq_true, Bool.not_eq_true', List.contains_eq_mem,
      decide_eq_false_iff_not] at h
    exact List.nodup_cons.mpr ⟨h.1, ih h.2⟩

theorem values_nodup {T : VersionTable} (h : T.check = true) : T.values.Nodup :=
  pairwiseDistinct_nodup _ (check_parts h).2.1

end AV.VersionTable
