/-
`SepInv` (`Lemmas/IdsSep.lean`: the models share no element ids, the root of a model without a file has the id 0, non-root ids
are positive) for the LARGER alphabet `OpX` of `Model/Step.lean`: `set_item_name`, `sort` and `set_reference_target` edit one
model and create no element — the ids of the edited model stay (rename, sort: up to order) or get fewer (never under the
invariants, but the proof does not need that), `nextId`, the protocol-id flag and the id of the root stay.  With `GInv`
(`Lemmas/StepX.lean`) this gives `SepInv` in every state reachable by a guarded history of the larger alphabet (`runX_sep`) and
the `check_references` theorems of `Lemmas/CheckRefs.lean` there (`runX_mem_checkRefsIds`, …).
-/
import AutosarVerif.Lemmas.IdsSep
import AutosarVerif.Lemmas.StepX

namespace AV.W
open Items

/-- the id of the root and the protocol-id flag stay, the ids below the root are old ones -/
theorem grow_sub (nid : Nat) (m m' : Model) (hhdr : m'.rootHdr.id = m.rootHdr.id)
    (hk : ∀ y ∈ m'.rootKids.ids, y ∈ m.rootKids.ids) (hiss : m'.rootIssued = m.rootIssued) : Grow nid m m' := by
  refine ⟨fun x hx => Or.inl (hk x hx), ?_, fun hi => ⟨hiss ▸ hi, hhdr⟩⟩
  intro x hx
  rw [rootItems_ids] at hx ⊢
  rcases List.mem_cons.mp hx with e | e
  · exact Or.inl (by rw [e, hhdr]; exact List.mem_cons_self)
  · exact Or.inl (List.mem_cons_of_mem _ (hk x e))

/-- a one-element forest with the root header of `m` whose content holds ids of `m` only -/
def RootSub (m : Model) (its : Items) : Prop := ∃ k, its = .elem m.rootHdr k .nil ∧ ∀ y ∈ k.ids, y ∈ m.rootKids.ids

/-- an edit that keeps headers and brings no new ids -/
theorem rootSub_modify (m : Model) (t : Nat) (f : Hdr → Items → Hdr × Items)
    (hf : ∀ h k0, (f h k0).1 = h ∧ ∀ y ∈ (f h k0).2.ids, y ∈ k0.ids) (its : Items) (h : RootSub m its) :
    RootSub m (its.modify t f) := by
  obtain ⟨k, rfl, hk⟩ := h
  by_cases he : m.rootHdr.id = t
  · rw [modify_elem_eq t f _ _ _ he]
    refine ⟨(f m.rootHdr k).2, by rw [(hf m.rootHdr k).1]; rfl, fun y hy => hk y ((hf m.rootHdr k).2 y hy)⟩
  · rw [modify_elem_ne t f _ _ _ he]
    refine ⟨k.modify t f, rfl, fun y hy => hk y ?_⟩
    have := ids_modify_sub (fun _ => False) t f k (fun h k0 => ⟨by rw [(hf h k0).1], fun y hy => Or.inl ((hf h k0).2 y hy)⟩) y hy
    rcases this with a | a
    · exact a
    · exact a.elim

theorem refEdit_ids_sub (txt : Bytes) (h : Hdr) (k0 : Items) : ∀ y ∈ (refEdit txt h k0).2.ids, y ∈ k0.ids := by
  intro y hy
  cases k0 with
  | nil => exact hy
  | text _ r => exact hy
  | elem hd kk r =>
    have : y ∈ r.ids := hy
    simp only [Items.ids, List.mem_cons, List.mem_append]
    exact Or.inr (Or.inr this)

section
variable (S : Spec) (V : Env) (vOk : Nat) (rootAttrs : List (Nat × CDv))

/-! ### `set_item_name` -/

/-- the renamed model (whatever the map holds): root header and flag kept, no new ids -/
theorem renModel_grow (nid : Nat) (m : Model) (c : List (Hdr × Items)) (sh : Hdr) (nm : Bytes) :
    Grow nid m (renModel S m c sh nm) := by
  obtain ⟨r1, r2, _, r4⟩ := renModel_rootItems (S := S) (c := c) (loop_hasRoot m sh nm (pathOfChain S c) (renNew S c nm))
  have hsub : RootSub m (renameRefs m.refs (renRoot1 m sh nm) (pathOfChain S c) (renNew S c nm)).2 := by
    apply renameRefs_pres (RootSub m)
      (fun its t txt hi => rootSub_modify m t _ (fun h k0 => ⟨refEdit_fst txt h k0, refEdit_ids_sub txt h k0⟩) its hi)
    exact rootSub_modify m _ _ (fun h k0 => ⟨rfl, fun y hy => by simp [Items.ids] at hy⟩) _ ⟨m.rootKids, rfl, fun y hy => hy⟩
  obtain ⟨k, hk1, hk2⟩ := hsub
  have hkids : (renModel S m c sh nm).rootKids = k := by
    have := r1.trans hk1
    rw [rootItems_eq] at this
    injection this
  exact grow_sub nid m _ (by rw [r2]) (by rw [hkids]; exact hk2) r4

theorem opRename_sep (w : World) (x : Nat) (nm : Bytes) (hw : WInv S vOk w) (hs : SepInv w) :
    SepInv (opRename S V w x nm).1 := by
  refine opRename_lift S V SepInv w x nm hs ?_
  intro k c ver cur sh sk rest hloc _ _ _ _ _ _ _ _ _
  obtain ⟨m, hm1, hm2, _, _⟩ := locate_chain w x k c hloc
  rw [hm2]
  exact sep_update S vOk w _ k m _ hw hs hm1 rfl (renModel_grow S w.nextId m c sh nm)

/-! ### `sort` -/

theorem opSort_sep (w : World) (x : Nat) (hw : WInv S vOk w) (hs : SepInv w) : SepInv (opSort S V w x).1 := by
  rw [opSort_eq]
  split
  · exact hs
  · rename_i k c hloc
    refine sep_located S vOk w _ x k c hloc _ (sortEditIx S V) hw hs rfl (rootItems_setRoot_modify _ _ _)
      (setRoot_modify_fields _ _ _).2.2.2 ?_
    intro h0 k0
    exact ⟨rfl, fun y hy => Or.inl ((sortNode_ids_perm S V _ h0 k0).mem_iff.mp hy)⟩

/-! ### `set_reference_target` -/

theorem refKids_ids_sub (newRef : Bytes) (k0 : Items) : ∀ y ∈ (refKids newRef k0).ids, y ∈ k0.ids := by
  intro y hy
  cases k0 with
  | nil => simp [refKids, Items.ids] at hy
  | text _ r => exact hy
  | elem hd kk r =>
    have : y ∈ r.ids := hy
    simp only [Items.ids, List.mem_cons, List.mem_append]
    exact Or.inr (Or.inr this)

theorem opSetRef_sep (w : World) (x t : Nat) (hw : WInv S vOk w) (hs : SepInv w) : SepInv (opSetRef S V w x t).1 := by
  rcases opSetRef_cases S V w x t with e | ⟨k, c, h, kids, kt, tc, it, ver, h', r, e⟩
  · rw [e]; exact hs
  · rw [e]
    obtain ⟨m, _, hm2, hmem, _⟩ := r.facts
    have hnk : (w.models[k]!).rootItems.ids.Nodup := by rw [hm2]; exact (hw m hmem).ids
    split
    · refine sep_located S vOk w _ x k c r.locX _ (setRefF S V it ver (pathOfChain S tc)) hw hs rfl ?_ ?_ ?_
      · show ((w.models[k]!).setRoot _).rootItems = _
        rw [rootItems_setRoot_modify, r.modify_ok S V hnk]
      · exact (setRoot_modify_fields _ x _).2.2.2
      · intro h0 k0
        exact ⟨(setRefHdr_keeps S V it ver h0).1, fun y hy => Or.inl (refKids_ids_sub _ k0 y hy)⟩
    · exact hs

/-! ### the step theorem and the lift to histories -/

/-- every step of the larger alphabet keeps `SepInv` (given the index invariant) -/
theorem applyOpX_sep (w : World) (op : OpX) (hw : WInv S vOk w) (hs : SepInv w) :
    SepInv (applyOpX S V rootAttrs w op).1 := by
  cases op with
  | core op => exact applyOp_sep S V vOk rootAttrs w op hw hs
  | rename x nm => exact opRename_sep S V vOk w x nm hw hs
  | sort x => exact opSort_sep S V vOk w x hw hs
  | setref x t => exact opSetRef_sep S V vOk w x t hw hs

/-- **every state reachable by a guarded history of the larger alphabet**: the full invariant and `SepInv` -/
theorem runX_ginv_sep (hH : IdxHyp S V vOk) (hR : RefWF S) (hv32 : vOk &&& 0xFFFFFFFF = vOk) (ops : List OpX)
    (hops : ∀ op ∈ ops, OpXOk S vOk op) : GInv S vOk (runX S V rootAttrs ops) ∧ SepInv (runX S V rootAttrs ops) := by
  unfold runX
  suffices h : ∀ (w : World), GInv S vOk w → SepInv w →
      GInv S vOk (ops.foldl (fun w op => (applyOpX S V rootAttrs w op).1) w) ∧
      SepInv (ops.foldl (fun w op => (applyOpX S V rootAttrs w op).1) w) from
    h _ (ginv_empty S vOk) sepInv_empty
  induction ops with
  | nil => intro w hw hs; exact ⟨hw, hs⟩
  | cons op rest ih =>
    intro w hw hs
    simp only [List.foldl_cons]
    exact ih (fun o ho => hops o (List.mem_cons_of_mem _ ho)) _
      (applyOpX_ginv S V vOk rootAttrs hH hR hv32 w op (hops op List.mem_cons_self) hw)
      (applyOpX_sep S V vOk rootAttrs w op hw.2.1.1.1 hs)

theorem runX_sep (hH : IdxHyp S V vOk) (hR : RefWF S) (hv32 : vOk &&& 0xFFFFFFFF = vOk) (ops : List OpX)
    (hops : ∀ op ∈ ops, OpXOk S vOk op) : SepInv (runX S V rootAttrs ops) :=
  (runX_ginv_sep S V vOk rootAttrs hH hR hv32 ops hops).2

theorem runX_idsSep (hH : IdxHyp S V vOk) (hR : RefWF S) (hv32 : vOk &&& 0xFFFFFFFF = vOk) (ops : List OpX)
    (hops : ∀ op ∈ ops, OpXOk S vOk op) : IdsSep (runX S V rootAttrs ops) :=
  (runX_sep S V vOk rootAttrs hH hR hv32 ops hops).1

theorem runX_cinv (hH : IdxHyp S V vOk) (hR : RefWF S) (hv32 : vOk &&& 0xFFFFFFFF = vOk) (ops : List OpX)
    (hops : ∀ op ∈ ops, OpXOk S vOk op) : CInv S vOk (runX S V rootAttrs ops) :=
  (runX_ginv S V vOk rootAttrs hH hR hv32 ops hops).2.1.1

/-! ### C05, second sentence, in every state reachable by a history of the larger alphabet -/

/-- **the invalid-reference report over all histories of the larger alphabet**: the report of model `k` (`check_references`)
contains precisely the reference elements of model `k` that hold a text and whose `refTarget` (`get_reference_target`) is
`none` -/
theorem runX_mem_checkRefsIds (hH : IdxHyp S V vOk) (hR : RefWF S) (hv32 : vOk &&& 0xFFFFFFFF = vOk) (ops : List OpX)
    (hops : ∀ op ∈ ops, OpXOk S vOk op) (k : Nat) (m : Model) (hm : (runX S V rootAttrs ops).models[k]? = some m) (r : Nat) :
    r ∈ checkRefsIds S V (runX S V rootAttrs ops) k ↔
      (∃ h k0 p, Occ h k0 m.rootItems ∧ h.id = r ∧ S.isRef h.ety.typ = true ∧ charData S h k0 = some (.str p)) ∧
        refTarget S V (runX S V rootAttrs ops) r = none :=
  mem_checkRefsIds S V vOk hR.root_not_ref _ (runX_cinv S V vOk rootAttrs hH hR hv32 ops hops)
    (runX_idsSep S V vOk rootAttrs hH hR hv32 ops hops) k m hm r

/-- … a reference element with a text is absent from the report exactly when resolving it returns its target -/
theorem runX_not_mem_checkRefsIds_iff (hH : IdxHyp S V vOk) (hR : RefWF S) (hv32 : vOk &&& 0xFFFFFFFF = vOk)
    (ops : List OpX) (hops : ∀ op ∈ ops, OpXOk S vOk op) (k : Nat) (m : Model)
    (hm : (runX S V rootAttrs ops).models[k]? = some m)
    (h : Hdr) (k0 : Items) (p : Bytes) (ho : Occ h k0 m.rootItems) (hr : S.isRef h.ety.typ = true)
    (hc : charData S h k0 = some (.str p)) :
    h.id ∉ checkRefsIds S V (runX S V rootAttrs ops) k ↔ ∃ t, refTarget S V (runX S V rootAttrs ops) h.id = some t :=
  not_mem_checkRefsIds_iff S V vOk hR.root_not_ref _ (runX_cinv S V vOk rootAttrs hH hR hv32 ops hops)
    (runX_idsSep S V vOk rootAttrs hH hR hv32 ops hops) k m hm h k0 p ho hr hc

/-- … each reported id is reported once -/
theorem runX_checkRefsIds_count (hH : IdxHyp S V vOk) (hR : RefWF S) (hv32 : vOk &&& 0xFFFFFFFF = vOk) (ops : List OpX)
    (hops : ∀ op ∈ ops, OpXOk S vOk op) (k r : Nat) : (checkRefsIds S V (runX S V rootAttrs ops) k).count r ≤ 1 :=
  checkRefsIds_count S V vOk _ (runX_cinv S V vOk rootAttrs hH hR hv32 ops hops) k r

/-- … in the words of the property (`hrootN`: the root type has no SHORT-NAME) -/
theorem runX_mem_checkRefsIds_words (hH : IdxHyp S V vOk) (hR : RefWF S) (hv32 : vOk &&& 0xFFFFFFFF = vOk)
    (hrootN : S.isNamed (S.defType S.rootDef) = false) (ops : List OpX) (hops : ∀ op ∈ ops, OpXOk S vOk op)
    (k : Nat) (m : Model) (hm : (runX S V rootAttrs ops).models[k]? = some m) (hx : Hdr) (kx : Items) (p : Bytes)
    (ho : Occ hx kx m.rootItems) (hr : S.isRef hx.ety.typ = true) (hc : charData S hx kx = some (.str p)) :
    hx.id ∈ checkRefsIds S V (runX S V rootAttrs ops) k ↔
      ¬ ∃ t ct d, m.rootItems.chain t = some ct ∧ (itemName S (lastOf ct).1 (lastOf ct).2).isSome = true ∧
        pathOfChain S ct = p ∧ attrVal hx V.nmDest = some (.enum d) ∧ S.verifyDest (lastOf ct).1.ety.typ d = true :=
  mem_checkRefsIds_words S V vOk hR.root_not_ref hrootN _ (runX_cinv S V vOk rootAttrs hH hR hv32 ops hops)
    (runX_idsSep S V vOk rootAttrs hH hR hv32 ops hops) k m hm hx kx p ho hr hc

/-- … and `get_reference_target` is sound -/
theorem runX_refTarget_sound (hH : IdxHyp S V vOk) (hR : RefWF S) (hv32 : vOk &&& 0xFFFFFFFF = vOk)
    (hrootN : S.isNamed (S.defType S.rootDef) = false) (ops : List OpX) (hops : ∀ op ∈ ops, OpXOk S vOk op) (x t : Nat)
    (hrt : refTarget S V (runX S V rootAttrs ops) x = some t) :
    ∃ (k : Nat) (m : Model) (hx : Hdr) (kx : Items) (p : Bytes) (ct : List (Hdr × Items)) (d : Nat),
      (runX S V rootAttrs ops).models[k]? = some m ∧
      Occ hx kx m.rootItems ∧ hx.id = x ∧ S.isRef hx.ety.typ = true ∧ charData S hx kx = some (.str p) ∧
      m.rootItems.chain t = some ct ∧ (itemName S (lastOf ct).1 (lastOf ct).2).isSome = true ∧ pathOfChain S ct = p ∧
      attrVal hx V.nmDest = some (.enum d) ∧ S.verifyDest (lastOf ct).1.ety.typ d = true :=
  refTarget_sound S V vOk hrootN _ (runX_cinv S V vOk rootAttrs hH hR hv32 ops hops)
    (runX_idsSep S V vOk rootAttrs hH hR hv32 ops hops) x t hrt

end
end AV.W
