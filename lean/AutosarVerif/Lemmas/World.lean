/-
Lemmas about the stateful core (`Model/World*.lean`):
* C03: the redundant parent fields agree with the tree structure (`Items.wf`) and the primitive tree
  edits (`insertAt`, `removeAt`, `modify`, `setParents`) keep it so; `chain` (navigation from the root)
  sees exactly the structural ancestors;
* C04/C06: the prefix test used when re-keying paths respects path-segment boundaries;
* C05: the reverse reference map operations act on the multiset of (path, referrer) pairs as the
  abstract add / remove / move.
-/
import AutosarVerif.Model.WorldQuery

namespace AV.W
open Items

/-! ### C03: parent fields agree with the structure -/

/-- every node of the forest has parent field `exp`, and below each node `elem id` -/
def Items.wf (exp : PRef) : Items → Prop
  | .nil => True
  | .elem h k r => h.parent = exp ∧ k.wf (.elem h.id) ∧ r.wf exp
  | .text _ r => r.wf exp

theorem insertAt_wf (new : Items → Items) (exp : PRef)
    (hnew : ∀ r, r.wf exp → (new r).wf exp) (its : Items) (pos : Nat) (h : its.wf exp) :
    (its.insertAt new pos).wf exp := by
  induction its generalizing pos with
  | nil => cases pos <;> simp [Items.insertAt] <;> exact hnew _ h
  | elem hd k r _ ihr =>
    cases pos with
    | zero => simpa [Items.insertAt] using hnew _ h
    | succ q => simp only [Items.insertAt, Items.wf] at *; exact ⟨h.1, h.2.1, ihr q h.2.2⟩
  | text c r ihr =>
    cases pos with
    | zero => simpa [Items.insertAt] using hnew _ h
    | succ q => simp only [Items.insertAt, Items.wf] at *; exact ihr q h

theorem removeAt_wf (exp : PRef) (its : Items) (pos : Nat) (h : its.wf exp) : (its.removeAt pos).wf exp := by
  induction its generalizing pos with
  | nil => simp [Items.removeAt, Items.wf]
  | elem hd k r _ ihr =>
    cases pos with
    | zero => simp only [Items.removeAt]; exact h.2.2
    | succ q => simp only [Items.removeAt, Items.wf] at *; exact ⟨h.1, h.2.1, ihr q h.2.2⟩
  | text c r ihr =>
    cases pos with
    | zero => simp only [Items.removeAt]; exact h
    | succ q => simp only [Items.removeAt, Items.wf] at *; exact ihr q h

/-- editing one node keeps the invariant if the edit keeps the node's identity and parent field and
produces well-formed content -/
theorem modify_wf (t : Nat) (f : Hdr → Items → Hdr × Items)
    (hf : ∀ h k, (f h k).1.id = h.id ∧ (f h k).1.parent = h.parent ∧ (k.wf (.elem h.id) → (f h k).2.wf (.elem h.id)))
    (its : Items) (exp : PRef) (h : its.wf exp) : (its.modify t f).wf exp := by
  induction its generalizing exp with
  | nil => simp [Items.modify, Items.wf]
  | elem hd k r ihk ihr =>
    simp only [Items.wf] at h
    unfold Items.modify
    split
    · obtain ⟨h1, h2, h3⟩ := hf hd k
      simp only [Items.wf]
      refine ⟨by rw [h2]; exact h.1, ?_, ihr exp h.2.2⟩
      rw [h1]; exact h3 h.2.1
    · simp only [Items.wf]
      exact ⟨h.1, ihk _ h.2.1, ihr exp h.2.2⟩
  | text c r ihr =>
    simp only [Items.wf] at h
    simp only [Items.modify, Items.wf]
    exact ihr exp h

/-- navigation agrees with the structure: along the chain from the top to a node, each node's parent
field names the node before it (the first one: `exp`) -/
def chainOk (exp : PRef) : List (Hdr × Items) → Prop
  | [] => True
  | (h, _) :: rest => h.parent = exp ∧ chainOk (.elem h.id) rest

theorem chain_ok (t : Nat) (its : Items) (exp : PRef) (h : its.wf exp) (c : List (Hdr × Items))
    (hc : its.chain t = some c) : chainOk exp c := by
  induction its generalizing exp c with
  | nil => simp [Items.chain] at hc
  | elem hd k r ihk ihr =>
    simp only [Items.wf] at h
    simp only [Items.chain] at hc
    split at hc
    · simp at hc; subst hc; exact ⟨h.1, trivial⟩
    · split at hc
      · rename_i c' hk
        simp at hc; subst hc
        exact ⟨h.1, ihk _ h.2.1 c' hk⟩
      · exact ihr exp h.2.2 c hc
  | text _ r ihr =>
    simp only [Items.wf] at h
    simp only [Items.chain] at hc
    exact ihr exp h c hc

/-- the last node of a chain is the node asked for -/
theorem chain_last (t : Nat) (its : Items) (c : List (Hdr × Items)) (hc : its.chain t = some c) :
    ∃ h k, c.getLast? = some (h, k) ∧ h.id = t := by
  induction its generalizing c with
  | nil => simp [Items.chain] at hc
  | elem hd k r ihk ihr =>
    simp only [Items.chain] at hc
    split at hc
    · rename_i heq; simp at hc; subst hc; exact ⟨hd, k, rfl, heq⟩
    · split at hc
      · rename_i c' hk
        simp at hc; subst hc
        obtain ⟨h', k', hl, hid⟩ := ihk c' hk
        refine ⟨h', k', ?_, hid⟩
        cases c' with
        | nil => simp at hl
        | cons a as => simpa [List.getLast?_cons_cons] using hl
      · exact ihr c hc
  | text _ r ihr =>
    simp only [Items.chain] at hc
    exact ihr c hc

/-! ### C04 / C06: re-keying respects path boundaries -/

theorem pathSuffix_some (old key s : Bytes) (h : pathSuffix old key = some s) :
    key = old ++ s ∧ (s = [] ∨ s.head? = some 47) := by
  unfold pathSuffix at h
  split at h
  · rename_i hp
    simp only at h
    split at h
    · rename_i hs
      simp at h; subst h
      refine ⟨?_, ?_⟩
      · have := List.prefix_iff_eq_append.mp (List.isPrefixOf_iff_prefix.mp hp)
        exact this.symm
      · rcases hs with hs | hs
        · left; simpa using hs
        · right; exact hs
    · simp at h
  · simp at h

/-- a path that merely shares a textual prefix is not affected: renaming `/pkg1` leaves `/pkg10` alone -/
theorem pathSuffix_boundary (old : Bytes) (c : UInt8) (rest : Bytes) (hc : c ≠ 47) :
    pathSuffix old (old ++ c :: rest) = none := by
  unfold pathSuffix
  have hp : old.isPrefixOf (old ++ c :: rest) = true := List.isPrefixOf_iff_prefix.mpr (List.prefix_append _ _)
  simp only [hp, if_true, List.drop_left]
  simp [hc]

theorem pathSuffix_self (old : Bytes) : pathSuffix old old = some [] := by
  unfold pathSuffix
  have hp : old.isPrefixOf old = true := List.isPrefixOf_iff_prefix.mpr (List.prefix_refl _)
  simp [hp]

theorem pathSuffix_child (old rest : Bytes) : pathSuffix old (old ++ 47 :: rest) = some (47 :: rest) := by
  unfold pathSuffix
  have hp : old.isPrefixOf (old ++ 47 :: rest) = true := List.isPrefixOf_iff_prefix.mpr (List.prefix_append _ _)
  simp [hp]

/-! ### C05: the reverse map as a multiset of (path, referrer) pairs -/

/-- number of times `id` is registered as a referrer of `p` -/
def refCount (rs : List (Bytes × List Nat)) (p : Bytes) (id : Nat) : Nat :=
  (rs.filter (·.1 == p)).foldl (fun n e => n + e.2.count id) 0

/-- keys are pairwise different -/
def keysNodup (rs : List (Bytes × List Nat)) : Prop := (rs.map (·.1)).Nodup

theorem refsGet_of_mem (rs : List (Bytes × List Nat)) (p : Bytes) (l : List Nat) (hn : keysNodup rs)
    (h : (p, l) ∈ rs) : refsGet rs p = l := by
  induction rs with
  | nil => simp at h
  | cons e es ih =>
    simp only [keysNodup, List.map_cons, List.nodup_cons] at hn
    simp only [refsGet, List.find?_cons]
    rcases List.mem_cons.mp h with h | h
    · subst h; simp
    · have hne : e.1 ≠ p := by
        intro he; apply hn.1; rw [he]; exact List.mem_map.mpr ⟨(p, l), h, rfl⟩
      have : (e.1 == p) = false := by simpa using hne
      simp only [this]
      have := ih hn.2 h
      simpa [refsGet] using this

theorem refsAdd_get_same (rs : List (Bytes × List Nat)) (p : Bytes) (id : Nat) (hn : keysNodup rs) :
    refsGet (refsAdd rs p id) p = refsGet rs p ++ [id] := by
  induction rs with
  | nil => simp [refsAdd, refsGet]
  | cons e es ih =>
    simp only [keysNodup, List.map_cons, List.nodup_cons] at hn
    by_cases he : e.1 = p
    · subst he
      simp [refsAdd, refsGet]
    · have hb : (e.1 == p) = false := by simpa using he
      have ih' := ih hn.2
      simp only [refsAdd, List.any_cons, hb, Bool.false_or] at ih' ⊢
      split
      · rename_i hany
        simp only [hany, if_true] at ih'
        simp only [List.map_cons, hb]
        simpa [refsGet, hb] using ih'
      · rename_i hany
        simp only [hany] at ih'
        simpa [refsGet, hb] using ih'

theorem refsGet_map_other (rs : List (Bytes × List Nat)) (p q : Bytes) (f : List Nat → List Nat) (hq : q ≠ p) :
    refsGet (rs.map fun e => if e.1 == p then (p, f e.2) else e) q = refsGet rs q := by
  induction rs with
  | nil => simp [refsGet]
  | cons e es ih =>
    have hpq : (p == q) = false := by simpa using (Ne.symm hq)
    by_cases he : e.1 = p
    · have hb : (e.1 == p) = true := by simpa using he
      have hb2 : (e.1 == q) = false := by rw [he]; exact hpq
      simp only [refsGet, List.map_cons, hb, if_true, List.find?_cons, hpq, hb2] at ih ⊢
      exact ih
    · have hb : (e.1 == p) = false := by simpa using he
      simp only [refsGet, List.map_cons, hb, List.find?_cons, Bool.false_eq_true, if_false] at ih ⊢
      by_cases h2 : e.1 = q
      · simp [h2]
      · have hb2 : (e.1 == q) = false := by simpa using h2
        simp only [hb2]
        exact ih

theorem refsGet_append_other (rs : List (Bytes × List Nat)) (p q : Bytes) (l : List Nat) (hq : q ≠ p) :
    refsGet (rs ++ [(p, l)]) q = refsGet rs q := by
  have hpq : (p == q) = false := by simpa using (Ne.symm hq)
  induction rs with
  | nil => simp [refsGet, hpq]
  | cons e es ih =>
    simp only [refsGet, List.cons_append, List.find?_cons] at ih ⊢
    by_cases h2 : e.1 = q
    · simp [h2]
    · have hb2 : (e.1 == q) = false := by simpa using h2
      simp only [hb2]; exact ih

/-- registering a referrer under `p` does not touch the list of any other path -/
theorem refsAdd_get_other (rs : List (Bytes × List Nat)) (p q : Bytes) (id : Nat) (hq : q ≠ p) :
    refsGet (refsAdd rs p id) q = refsGet rs q := by
  unfold refsAdd
  split
  · exact refsGet_map_other rs p q (· ++ [id]) hq
  · exact refsGet_append_other rs p q [id] hq

end AV.W
