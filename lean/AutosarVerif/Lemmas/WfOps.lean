/-
C03: the operations of the world model keep the parent fields in step with the tree structure (`World.wf`), operation by
operation; `Lemmas/Reachable.lean` lifts this to every state reachable by a history of these operations.
-/
import AutosarVerif.Lemmas.WorldOps
import AutosarVerif.Lemmas.FileOps
import AutosarVerif.Lemmas.Compat

namespace AV.W
open Items

/-- the invariant of one model -/
def Model.wfM (m : Model) : Prop := m.rootKids.wf (.elem m.rootHdr.id)

theorem World.wf_iff (w : World) : w.wf ↔ ∀ m ∈ w.models, m.wfM := by
  unfold World.wf Model.wfM
  constructor
  · intro h m hm
    obtain ⟨k, hk, rfl⟩ := List.getElem_of_mem hm
    exact h k _ (List.getElem?_eq_getElem hk)
  · intro h k m hk
    exact h m (List.mem_of_getElem? hk)

theorem wfM_getElem! (w : World) (k : Nat) (hw : w.wf) : (w.models[k]!).wfM := by
  by_cases hk : k < w.models.length
  · have : w.models[k]! = w.models[k] := by simp [hk]
    rw [this]
    exact (World.wf_iff w).mp hw _ (List.getElem_mem hk)
  · have : w.models[k]! = default := by simp [hk]
    rw [this]
    show Items.wf _ Items.nil
    trivial

theorem wf_setModel' (w : World) (k : Nat) (m' : Model) (hw : w.wf) (hm : m'.wfM) : (setModel w k m').wf :=
  wf_setModel w k m' hw hm

/-- a world that differs only outside the models -/
theorem wf_congr (w w' : World) (h : w'.models = w.models) (hw : w.wf) : w'.wf := wf_of_models_eq w w' h hw

/-- editing the content of one node (header kept) -/
theorem wfM_modify (m : Model) (x : Nat) (f : Hdr → Items → Hdr × Items)
    (hf : ∀ h k, h.id = x → (f h k).1.id = h.id ∧ (f h k).1.parent = h.parent ∧ (k.wf (.elem h.id) → (f h k).2.wf (.elem h.id)))
    (hm : m.wfM) : (m.setRoot (m.rootItems.modify x f)).wfM :=
  setRoot_modify_wf m x f hf hm

theorem wf_mapKidHdrs (g : Hdr → Hdr) (hg : ∀ h, (g h).id = h.id ∧ (g h).parent = h.parent) (its : Items) :
    ∀ exp, its.wf exp → (its.mapKidHdrs g).wf exp := by
  induction its with
  | nil => intro _ _; trivial
  | text _ r ih => intro exp h; exact ih exp h
  | elem h k r _ ihr =>
    intro exp ⟨h1, h2, h3⟩
    refine ⟨by rw [(hg h).2]; exact h1, by rw [(hg h).1]; exact h2, ihr exp h3⟩

theorem wf_mapHdrs (g : Hdr → Hdr) (hg : ∀ h, (g h).id = h.id ∧ (g h).parent = h.parent) (its : Items) :
    ∀ exp, its.wf exp → (its.mapHdrs g).wf exp := by
  induction its with
  | nil => intro _ _; trivial
  | text _ r ih => intro exp h; exact ih exp h
  | elem h k r ihk ihr =>
    intro exp ⟨h1, h2, h3⟩
    refine ⟨by rw [(hg h).2]; exact h1, by rw [(hg h).1]; exact ihk _ h2, ihr exp h3⟩

/-- a world whose models are those of `w` with model `k` replaced -/
theorem wf_update (w : World) (k : Nat) (m' : Model) (w' : World) (hw : w.wf) (hm : m'.wfM)
    (hmodels : w'.models = w.models.set k m') : w'.wf := by
  have := wf_setModel w k m' hw hm
  exact wf_of_models_eq (setModel w k m') w' hmodels this

theorem wfM_of_eq (m m' : Model) (h1 : m'.rootHdr = m.rootHdr) (h2 : m'.rootKids = m.rootKids) (hm : m.wfM) : m'.wfM := by
  unfold Model.wfM at *
  rw [h1, h2]; exact hm

section
variable (S : Spec) (V : Env)

/-- the new element of `create_sub_element`: its parent field is the element it is created in -/
theorem newHdr_wf (id name : Nat) (ety : ETy) (p : Nat) (kids r : Items) (hk : kids.wf (.elem id)) (hr : r.wf (.elem p)) :
    (Items.elem (newHdr id name ety p) kids r).wf (.elem p) := ⟨rfl, hk, hr⟩

/-- C03 `create_sub_element[_at]` -/
theorem opCreate_wf (w : World) (p name : Nat) (pos : Option Nat) (hw : w.wf) : (opCreate S V w p name pos).1.wf := by
  unfold opCreate
  split
  · exact hw
  · rename_i k c _
    dsimp only
    split
    · exact hw
    · split
      · exact hw
      · split
        · exact hw
        · split
          · exact hw
          · split
            · exact hw
            · apply wf_update w k _ _ hw ?_ rfl
              apply wfM_modify _ _ _ _ (wfM_getElem! w k hw)
              intro h kk hid
              refine ⟨rfl, rfl, fun hk => insertAt_wf _ _ (fun r hr => ?_) kk _ hk⟩
              rw [hid] at hr ⊢
              exact newHdr_wf _ _ _ p .nil r trivial hr

/-- C03 `create_named_sub_element[_at]`: the new element and its SHORT-NAME -/
theorem opNamed_wf (w : World) (p name : Nat) (item : Bytes) (pos : Option Nat) (hw : w.wf) :
    (opNamed S V w p name item pos).1.wf := by
  unfold opNamed
  split
  · exact hw
  · rename_i k c _
    dsimp only
    repeat' (first | exact hw | split)
    all_goals (
      apply wf_update w k _ _ hw ?_ rfl
      apply wfM_of_eq (Model.setRoot _ _) _ rfl rfl
      apply wfM_modify _ _ _ _ (wfM_getElem! w k hw)
      intro h kk hid
      refine ⟨rfl, rfl, fun hk => insertAt_wf _ _ (fun r hr => ?_) kk _ hk⟩
      rw [hid] at hr ⊢
      apply newHdr_wf _ _ _ p _ r _ hr
      -- the SHORT-NAME child (if the type has one in this version)
      first
        | trivial
        | exact ⟨rfl, trivial, trivial⟩
        | (split <;> first | trivial | exact ⟨rfl, trivial, trivial⟩)
        | (split <;> first | trivial | (split <;> first | trivial | exact ⟨rfl, trivial, trivial⟩)))

/-- C03 `remove_sub_element` -/
theorem opRemove_wf (w : World) (p c : Nat) (hw : w.wf) : (opRemove S w p c).1.wf := by
  unfold opRemove
  split
  · exact hw
  · rename_i k ch _
    dsimp only
    split
    · split
      · exact hw
      · apply wf_update w k _ _ hw ?_ rfl
        apply wfM_of_eq (Model.setRoot _ _) _ rfl rfl
        apply wfM_modify _ _ _ _ (wfM_getElem! w k hw)
        intro h kk _
        exact ⟨rfl, rfl, fun hk => removeAt_wf _ kk _ hk⟩
    · exact hw

/-- C03 `set_character_data`: the content becomes one character data item -/
theorem opCData_wf (w : World) (x : Nat) (v : CDv) (hw : w.wf) : (opCData S V w x v).1.wf := by
  unfold opCData
  split
  · exact hw
  · split
    · exact hw
    · split
      · exact hw
      · split
        · exact hw
        · rename_i k c _
          dsimp only
          split
          · exact hw
          · split
            · exact hw
            · split
              · exact hw
              · split
                · exact hw
                · apply wf_update w k _ _ hw ?_ rfl
                  apply wfM_of_eq (Model.setRoot _ _) _ rfl rfl
                  apply wfM_modify _ _ _ _ (wfM_getElem! w k hw)
                  intro h kk _
                  exact ⟨rfl, rfl, fun _ => trivial⟩

/-- C03 `remove_character_data` -/
theorem opRmCData_wf (w : World) (x : Nat) (hw : w.wf) : (opRmCData S w x).1.wf := by
  unfold opRmCData
  split
  · exact hw
  · split
    · exact hw
    · split
      · exact hw
      · split
        · exact hw
        · split
          · exact hw
          · rename_i k c _
            apply wf_update w k _ _ hw ?_ rfl
            apply wfM_of_eq (Model.setRoot _ _) _ rfl rfl
            apply wfM_modify _ _ _ _ (wfM_getElem! w k hw)
            intro h kk _
            exact ⟨rfl, rfl, fun _ => trivial⟩

theorem setAttrHdr_keeps (h : Hdr) (a : Nat) (v : CDv) (ver : Nat) :
    ((setAttrHdr S V h a v ver).getD h).id = h.id ∧ ((setAttrHdr S V h a v ver).getD h).parent = h.parent := by
  unfold setAttrHdr
  split
  · exact ⟨rfl, rfl⟩
  · split
    · exact ⟨rfl, rfl⟩
    · split
      · exact ⟨rfl, rfl⟩
      · split <;> exact ⟨rfl, rfl⟩

/-- C03 `set_attribute` -/
theorem opAttr_wf (w : World) (x a : Nat) (v : CDv) (hw : w.wf) : (opAttr S V w x a v).1.wf := by
  unfold opAttr
  split
  · exact hw
  · rename_i k c _
    dsimp only
    split
    · exact hw
    · split
      · exact hw
      · apply wf_update w k _ _ hw ?_ rfl
        apply wfM_modify _ _ _ _ (wfM_getElem! w k hw)
        intro h kk _
        exact ⟨(setAttrHdr_keeps S V h a v _).1, (setAttrHdr_keeps S V h a v _).2, fun hk => hk⟩

/-- C03 `set_attribute_string` -/
theorem opAttrS_wf (w : World) (x a : Nat) (s : Bytes) (hw : w.wf) : (opAttrS S V w x a s).1.wf := by
  unfold opAttrS
  split
  · exact hw
  · rename_i k c _
    dsimp only
    split
    · exact hw
    · split
      · exact hw
      · split
        · exact hw
        · split
          · exact hw
          · apply wf_update w k _ _ hw ?_ rfl
            apply wfM_modify _ _ _ _ (wfM_getElem! w k hw)
            intro h kk _
            refine ⟨?_, ?_, fun hk => hk⟩ <;> (dsimp only; split <;> rfl)

/-- C03 `remove_attribute` -/
theorem opRmAttr_wf (w : World) (x a : Nat) (hw : w.wf) : (opRmAttr S w x a).1.wf := by
  unfold opRmAttr
  split
  · split
    · exact hw
    · split
      · split
        · split
          · exact hw
          · exact hw
        · exact hw
      · exact hw
  · rename_i k c _
    dsimp only
    split
    · split
      · split
        · exact hw
        · apply wf_update w k _ _ hw ?_ rfl
          apply wfM_modify _ _ _ _ (wfM_getElem! w k hw)
          intro h kk _
          exact ⟨rfl, rfl, fun hk => hk⟩
      · exact hw
    · exact hw

/-! ### file-set operations change only `files` fields -/

theorem addPath_wf (f : Nat) (its : Items) : ∀ (path pe : List Nat) (ps : Bool) (exp : PRef), its.wf exp →
    (addPath S f path pe ps its).1.wf exp := by
  induction its with
  | nil => intro path pe ps exp _; cases path <;> simp [addPath, Items.wf]
  | text c r ih =>
    intro path pe ps exp h
    cases path with
    | nil => simpa [addPath] using h
    | cons id rest => simpa [addPath, Items.wf] using ih (id :: rest) pe ps exp h
  | elem hd k r ihk ihr =>
    intro path pe ps exp h
    obtain ⟨h1, h2, h3⟩ := h
    cases path with
    | nil => exact ⟨h1, h2, h3⟩
    | cons id rest =>
      unfold addPath
      by_cases hid : hd.id = id
      · simp only [if_pos hid]
        cases rest with
        | nil =>
          dsimp only
          split
          · exact ⟨h1, h2, h3⟩
          · exact ⟨h1, h2, h3⟩
        | cons id2 rest2 =>
          dsimp only
          have ih1 := ihk (id2 :: rest2) (effOf pe hd) (splittable S hd) (.elem hd.id) h2
          split
          · unfold restrictStep
            dsimp only
            split
            · exact ⟨h1, ih1, h3⟩
            · dsimp only
              refine ⟨?_, ?_, h3⟩
              · split <;> exact h1
              · have hk' : ((addPath S f (id2 :: rest2) (effOf pe hd) (splittable S hd) k).1).wf (.elem hd.id) := ih1
                have hid' : ∀ (c : Prop) [Decidable c] (X : List Nat), (if c then { hd with files := X } else hd).id = hd.id := by
                  intro c _ X; split <;> rfl
                rw [hid']
                split
                · apply wf_mapKidHdrs _ _ _ _ hk'
                  intro sh; unfold pin; split <;> exact ⟨rfl, rfl⟩
                · exact hk'
          · exact ⟨h1, ih1, h3⟩
      · simp only [if_neg hid]
        exact ⟨h1, h2, ihr (id :: rest) pe ps exp h3⟩

theorem rmAt_wf (f x : Nat) (its : Items) : ∀ (pe : List Nat) (exp : PRef), its.wf exp → (rmAt f x pe its).wf exp := by
  induction its with
  | nil => intro _ _ _; trivial
  | text _ r ih => intro pe exp h; exact ih pe exp h
  | elem hd k r ihk ihr =>
    intro pe exp ⟨h1, h2, h3⟩
    unfold rmAt
    split
    · refine ⟨h1, ?_, ihr pe exp h3⟩
      show Items.wf (.elem hd.id) (k.mapHdrs (dropF f))
      exact wf_mapHdrs (dropF f) (fun _ => ⟨rfl, rfl⟩) k _ h2
    · exact ⟨h1, ihk _ _ h2, ihr pe exp h3⟩

/-- the root forest of a model with the invariant -/
theorem rootItems_wf (m : Model) (hm : m.wfM) : m.rootItems.wf m.rootHdr.parent := ⟨rfl, hm, trivial⟩

/-- a forest `elem h k nil` put back as the root -/
theorem wfM_setRoot (m : Model) (its : Items) (exp : PRef) (hm : m.wfM) (h : its.wf exp) : (m.setRoot its).wfM := by
  unfold Model.setRoot
  cases its with
  | nil => exact hm
  | text _ _ => exact hm
  | elem hd k r => exact h.2.1

/-- C03 `add_to_file` -/
theorem opAddFile_wf (w : World) (x f : Nat) (hw : w.wf) : (opAddFile S w x f).1.wf := by
  unfold opAddFile
  repeat' (first | exact hw | split)
  all_goals (
    rename_i k _ _ _ _ _ _ _ _
    apply wf_update w _ _ _ hw ?_ rfl
    exact wfM_setRoot _ _ _ (wfM_getElem! w _ hw) (addPath_wf S f _ _ _ _ _ (rootItems_wf _ (wfM_getElem! w _ hw))))

theorem removeAll_wf (ids : List Nat) : ∀ w : World, w.wf → (removeAll S w ids).wf := by
  induction ids with
  | nil => intro w hw; exact hw
  | cons id rest ih =>
    intro w hw
    unfold removeAll
    apply ih
    split
    · split
      · exact opRemove_wf S w _ id hw
      · exact hw
    · exact hw

/-- C03 `remove_from_file` -/
theorem opRmFromFile_wf (w : World) (x f : Nat) (hw : w.wf) : (opRmFromFile S w x f).1.wf := by
  unfold opRmFromFile
  split
  · exact hw
  · rename_i k c _
    split
    · exact hw
    · split
      · exact hw
      · split
        · exact hw
        · split
          · exact hw
          · rename_i cur _
            dsimp only
            generalize hw1e : (if (cur.filter (· != f)).isEmpty then
                  match c.dropLast.getLast? with
                  | some (ph, _) => (opRemove S w ph.id x).1
                  | none => w
                else w) = w1
            have hw1 : w1.wf := by
              rw [← hw1e]
              split
              · split
                · exact opRemove_wf S w _ x hw
                · exact hw
              · exact hw
            split
            · exact hw1
            · rename_i k1 _ _
              apply removeAll_wf
              apply wf_update w1 k1 _ _ hw1 ?_ rfl
              exact wfM_setRoot _ _ _ (wfM_getElem! w1 k1 hw1) (rmAt_wf f x _ _ _ (rootItems_wf _ (wfM_getElem! w1 k1 hw1)))

/-- C03 `remove_file` -/
theorem opRmFile_wf (w : World) (k f : Nat) (hw : w.wf) : (opRmFile S w k f).1.wf := by
  unfold opRmFile
  split
  · exact hw
  · rename_i m hm
    split
    · exact hw
    · dsimp only
      split
      · exact hw
      · apply opRmFromFile_wf
        apply wf_update w k _ _ hw ?_ rfl
        have : m ∈ w.models := List.mem_of_getElem? hm
        exact wfM_of_eq m _ rfl rfl ((World.wf_iff w).mp hw m this)

theorem setParents_wf (p : PRef) (its : Items) : ∀ q, its.wf q → (its.setParents p).wf p := by
  induction its with
  | nil => intro _ _; trivial
  | text _ r ih => intro q h; exact ih q h
  | elem h k r _ ihr => intro q ⟨_, h2, h3⟩; exact ⟨rfl, h2, ihr q h3⟩

theorem restrictStep_kids_wf (f : Nat) (h : Hdr) (kids : Items) (pe : List Nat) (ps : Bool) (exp : PRef) (hk : kids.wf exp) :
    (restrictStep S f h kids pe ps).2.1.wf exp := by
  unfold restrictStep
  dsimp only
  split
  · exact hk
  · dsimp only
    split
    · apply wf_mapKidHdrs _ _ _ _ hk
      intro sh; unfold pin; split <;> exact ⟨rfl, rfl⟩
    · exact hk

theorem restrictStep_id (f : Nat) (h : Hdr) (kids : Items) (pe : List Nat) (ps : Bool) :
    (restrictStep S f h kids pe ps).1.id = h.id := by
  unfold restrictStep
  dsimp only
  split
  · rfl
  · dsimp only; split <;> rfl

/-- C03 `create_file` -/
theorem opMkFile_wf (w : World) (k : Nat) (name : Bytes) (ver : Nat) (valid : Bool) (hw : w.wf) :
    (opMkFile S w k name ver valid).1.wf := by
  unfold opMkFile
  split
  · exact hw
  · rename_i m hm
    have hmem : m ∈ w.models := List.mem_of_getElem? hm
    have hmm : m.wfM := (World.wf_iff w).mp hw m hmem
    split
    · exact hw
    · split
      · exact hw
      · dsimp only
        apply wf_update w k _ _ hw ?_ rfl
        cases hiss : m.rootIssued
        · -- the root gets its id now
          show Items.wf _ _
          simp only [Bool.false_eq_true, if_false]
          exact setParents_wf _ _ _ (restrictStep_kids_wf S _ _ _ _ _ _ hmm)
        · show Items.wf _ _
          simp only [if_true]
          rw [restrictStep_id]
          exact restrictStep_kids_wf S _ _ _ _ _ _ hmm

/-- C03 `set_version` -/
theorem opSetVersion_wf (w : World) (f ver : Nat) (hw : w.wf) : (opSetVersion S w f ver).1.wf := by
  unfold opSetVersion
  split
  · exact hw
  · dsimp only
    split
    · exact hw
    · split
      · apply wf_update w _ _ _ hw ?_ rfl
        exact wfM_of_eq _ _ rfl rfl (wfM_getElem! w _ hw)
      · exact hw

end
end AV.W
