/-
`AutosarModel::duplicate` (`Model/Dup.lean`), continuation of `Lemmas/Dup.lean` (property C13; C03/C04/C05/C10 faces):
the copy phase in normal form, faithfulness under one version, the invariants of the new model.
-/
import AutosarVerif.Lemmas.Dup

namespace AV.W
open Items

section
variable (S : Spec) (V : Env) (vOk : Nat)

/-! ### 0. generic steps of the full invariant -/

/-- one model is replaced by a model with the same skeleton (ids, names, types, structure, texts), the same index, reference map and
root flag: the full invariant survives if the new model is well-formed and has consistent file sets -/
theorem ginv_skel_update (w w' : World) (k : Nat) (m m' : Model) (hg : GInv S vOk w) (hm : w.models[k]? = some m)
    (hmodels : w'.models = w.models.set k m') (hle : w.nextId ≤ w'.nextId)
    (hsk : m'.rootItems.skel = m.rootItems.skel) (hidx : m'.index = m.index) (hrefs : m'.refs = m.refs)
    (hiss : m'.rootIssued = m.rootIssued) (hvers : ∀ f ∈ m'.files, f.version &&& vOk = f.version)
    (hfresh : m'.rootIssued = false → m'.rootHdr.files = []) (hwf : m'.wfM) (hfo : m'.filesOk) : GInv S vOk w' := by
  obtain ⟨⟨hwf0, hfo0⟩, ⟨⟨hw, hr, hleaf, hty⟩, hkn⟩, hone⟩ := hg
  have hmem : m ∈ w.models := List.mem_of_getElem? hm
  refine ⟨⟨wf_update w k m' w' hwf0 hwf hmodels, filesOk_update w k m' w' hfo0 hfo hmodels⟩, ⟨⟨?_, ?_, ?_, ?_⟩, ?_⟩, ?_⟩
  · exact winv_update S vOk w w' k m' hw hle (minv_skel S vOk _ m m' ((hw m hmem).mono S vOk hle) hsk hidx hiss hvers hfresh) hmodels
  · exact wrinv_update S w w' k m' hr (refsExact_skel S m m' (hr m hmem) hsk hrefs) hmodels
  · exact wrleaf_update S w w' k m' hleaf ((refLeaf_of_skel S hsk).mpr (hleaf m hmem)) hmodels
  · exact wrootTy_update S w w' k m' hty ((rootTy_skel m m' hsk).trans (hty m hmem)) hmodels
  · exact wkidsKnown_update S w w' k m' hkn ((kidsKnown_of_skel S hsk).mpr (hkn m hmem)) hmodels
  · exact wrone_update S w w' k m' hone ((refOne_of_skel S hsk).mpr (hone m hmem)) hmodels

/-- `opCopy_ginv` with the guard replaced by what its proof uses: the source is a live element that is not a SHORT-NAME, everything in
it is permitted in the version of the destination, and `CopyPathsOk` (the source may have no item name) -/
theorem opCopy_ginv_paths (hH : IdxHyp S V vOk) (hR : RefWF S) (hv32 : vOk &&& 0xFFFFFFFF = vOk) (w : World) (p x : Nat)
    (pos? : Option Nat) (hg : GInv S vOk w) (kx : Nat) (cx : List (Hdr × Items)) (hlx : locate w x = some (kx, cx))
    (hnotSn : (lastOf cx).1.name ≠ S.nmShortName)
    (hallc : ∀ k cp ver, locate w p = some (k, cp) → minVersion V (w.models[k]!) cp = some ver →
      AllCompat S ver (lastOf cx).1 (lastOf cx).2)
    (hpaths : ∀ k cp ver xh xkids q nh nk n' nk1 idx' rs', CopyOk S V w p x pos? k cp ver xh xkids q nh nk n' nk1 idx' rs' →
      CopyPathsOk S (w.models[k]!).index (pathOfChain S cp) nh nk) :
    GInv S vOk (opCopy S V w p x pos?).1 := by
  by_cases hok : (opCopy S V w p x pos?).2 = .err
  · rw [opCopy_err_frame S V w p x pos? hok]; exact hg
  obtain ⟨k, cp, ver, xh, xkids, q, nh, nk, n', nk1, idx', rs', hc, hres⟩ := opCopy_ok S V w p x pos? hok
  have hw : WInv S vOk w := hg.2.1.1.1
  have he : lastOf cx = (xh, xkids) := hdrOf_locate w x kx cx xh xkids hlx hc.src
  have hall : AllCompat S ver xh xkids := by
    have := hallc k cp ver hc.loc hc.minv
    rw [he] at this; exact this
  have hsrc : hdrOf w x = some (lastOf cx) := by simp only [hdrOf, hlx]
  have hwinv' : WInv S vOk (opCopy S V w p x pos?).1 := by
    refine opCopy_inv S V vOk hH w p x pos? hw ?_ hpaths
    intro xh' xk' hh
    rw [hsrc] at hh
    have he' : lastOf cx = (xh', xk') := Option.some.inj hh
    rw [he'] at hnotSn; exact hnotSn
  have hrinv' : WRInv S (opCopy S V w p x pos?).1 := opCopy_rinv S V vOk hR w p x pos? hw hg.2.1.1.2.1 hpaths
  have hwf := opCopy_wf S V w p x pos? hg.1.1
  rw [hres] at hwf hwinv' hrinv' ⊢
  obtain ⟨⟨_, hfo⟩, ⟨⟨_, _, hleaf, hty⟩, hkn⟩, hone⟩ := hg
  -- the copy has the shape of the source
  obtain ⟨h', k', n'', hd, hshape⟩ := deepCopy_faithful_size S xh xkids ver (.elem p) w.nextId hall
  rw [hc.copy] at hd
  simp only [Option.some.injEq, Prod.mk.injEq] at hd
  obtain ⟨rfl, rfl, rfl⟩ := hd
  obtain ⟨_, _, _, _, _, _, _, hnofiles⟩ := deepCopy_ids S _ xh xkids ver _ _ nh nk n' hc.copy
  obtain ⟨_, _, hnname, _, _, hnhf⟩ := deepCopy_head S _ xh xkids ver _ _ nh nk n' hc.copy
  -- the source is a node of a model
  obtain ⟨mx, _, _, hmxmem, hcx⟩ := locate_chain w x kx cx hlx
  obtain ⟨hox, _⟩ := chain_occ x mx.rootItems cx hcx
  rw [he] at hox
  simp only at hox
  -- the destination
  obtain ⟨m, _, hm2, hmem, hcp⟩ := locate_chain w p k cp hc.loc
  have hm := hw m hmem
  obtain ⟨lo, hi, hrange, _, _, _⟩ := hc.range
  have hpeq : ∀ h k0, Occ h k0 m.rootItems → h.id = p → h = (lastOf cp).1 := fun h k0 ho hid =>
    (node_eq S vOk hm p cp hcp h k0 ho hid).1
  have hpref : ∀ h k0, Occ h k0 m.rootItems → h.id = p → S.isRef h.ety.typ = false := by
    intro h k0 ho hid
    rw [hpeq h k0 ho hid]
    exact not_ref_of_insertRange S hR _ _ _ _ _ hrange
  have hvf := ver_full vOk hv32 (minVersion_ok S V vOk hm hH.latest cp ver (hm2 ▸ hc.minv))
  have hpknown : ∀ h k0, Occ h k0 m.rootItems → h.id = p → S.findSub h.ety.typ nh.name 0xFFFFFFFF ≠ none := by
    intro h k0 ho hid
    rw [hpeq h k0 ho hid, hnname]
    obtain ⟨y, hy⟩ := findSub_of_insertRange S _ _ _ _ _ hrange
    exact findSub_full S _ _ ver hvf y hy
  have hnk1 : nk1 = (copyRename S (w.models[k]!).index (pathOfChain S cp) nh nk).1 := by rw [hc.rename]
  -- the inserted subtree
  have hnf1 : noFiles (.elem nh nk1 .nil) = true := by
    have h0 : noFiles (.elem nh nk .nil) = true := noFiles_of_hdrs _ hnofiles
    simp only [noFiles, Bool.and_eq_true] at h0 ⊢
    refine ⟨⟨h0.1.1, ?_⟩, trivial⟩
    rcases copyRename_content S (w.models[k]!).index (pathOfChain S cp) nh nk with e | ⟨nm, e⟩
    · rw [hnk1, e]; exact h0.1.2
    · rw [hnk1, e]; exact noFiles_setShortName nk nm h0.1.2
  have hleaf1 : RefLeaf S (.elem nh nk1 .nil) := by
    have h0 : RefLeaf S (.elem nh nk .nil) := (refLeaf_of_shape S hshape).mpr (refLeaf_of_occ' S _ (hleaf mx hmxmem) xh xkids hox)
    rcases copyRename_content S (w.models[k]!).index (pathOfChain S cp) nh nk with e | ⟨nm, e⟩
    · rw [hnk1, e]; exact h0
    · rw [hnk1, e]; exact refLeaf_setShortName S nh nk nm h0
  have hone1 : RefOne S (.elem nh nk1 .nil) := by
    have h0 : RefOne S (.elem nh nk .nil) := (refOne_of_shape S hshape).mpr (refOne_of_occ' S _ (hone mx hmxmem) xh xkids hox)
    rcases copyRename_content S (w.models[k]!).index (pathOfChain S cp) nh nk with e | ⟨nm, e⟩
    · rw [hnk1, e]; exact h0
    · rw [hnk1, e]; exact refOne_setShortName S nh nk nm h0
  have hkn1 : kidsKnownAt S nh nk1 ∧ KidsKnown S nk1 := by
    have hsrc : KidsKnown S (.elem xh xkids .nil) := by
      obtain ⟨a, b⟩ := kidsKnown_of_occ S _ (hkn mx hmxmem) xh xkids hox
      exact ⟨a, b, trivial⟩
    have h0 : KidsKnown S (.elem nh nk .nil) := (kidsKnown_of_shape S hshape).mpr hsrc
    rcases copyRename_content S (w.models[k]!).index (pathOfChain S cp) nh nk with e | ⟨nm, e⟩
    · rw [hnk1, e]; exact ⟨h0.1, h0.2.1⟩
    · rw [hnk1, e]; exact kidsKnown_setShortName S nh nk nm ⟨h0.1, h0.2.1⟩
  refine ⟨⟨hwf, ?_⟩, ⟨⟨hwinv', hrinv', ?_, ?_⟩, ?_⟩, ?_⟩
  · refine filesOk_update w k _ _ hfo ?_ (copyWorld_models ..)
    rw [hm2]
    exact copyModel_filesOk m p q nh nk1 idx' rs' (hfo m hmem) hnf1
  · refine wrleaf_update S w _ k _ hleaf ?_ (copyWorld_models ..)
    rw [hm2, copyModel_rootItems]
    refine refLeaf_modify S _ _ _ (fun h k0 ho hid a b => ⟨fun hx => ?_, refLeaf_insertAt S nh nk1 k0 q hleaf1 b⟩) (hleaf m hmem)
    rw [hpref h k0 ho hid] at hx; cases hx
  · refine wrootTy_update S w _ k _ hty ?_ (copyWorld_models ..)
    rw [hm2, copyModel_rootHdr]; exact hty m hmem
  · refine wkidsKnown_update S w _ k _ hkn ?_ (copyWorld_models ..)
    rw [hm2, copyModel_rootItems]
    exact kidsKnown_modify S _ _ _ (fun h k0 ho hid => ⟨rfl, fun a b =>
      kidsKnown_insertAt S h nh nk1 k0 q (hpknown h k0 ho hid) hkn1 a b⟩) (hkn m hmem)
  · refine wrone_update S w _ k _ hone ?_ (copyWorld_models ..)
    rw [hm2, copyModel_rootItems]
    refine refOne_modify S _ _ _ (fun h k0 ho hid a b => ⟨fun hx => ?_, refOne_insertAt S nh nk1 k0 q hone1 b⟩) (hone m hmem)
    rw [hpref h k0 ho hid] at hx; cases hx



/-! ### 1. small facts about `locate`, `minVersion`, `insertRange`, `Items.append` -/

theorem findSome?_congr_mem {α β : Type} (f g : α → Option β) (l : List α) (h : ∀ a ∈ l, f a = g a) :
    l.findSome? f = l.findSome? g := by
  induction l with
  | nil => rfl
  | cons a l ih =>
    simp only [List.findSome?_cons, h a List.mem_cons_self]
    rw [ih (fun b hb => h b (List.mem_cons_of_mem _ hb))]

/-- an element that is found in `w` is found at the same place in every world that agrees with `w` on the models of `w` -/
theorem locate_of_prefix (w w' : World) (x kx : Nat) (cx : List (Hdr × Items)) (hx : locate w x = some (kx, cx))
    (hpre : ∀ j, j < w.models.length → w'.models[j]? = w.models[j]?) (hlen : w.models.length ≤ w'.models.length) :
    locate w' x = some (kx, cx) := by
  obtain ⟨d, hd⟩ : ∃ d, w'.models.length = w.models.length + d := ⟨_, (Nat.add_sub_cancel' hlen).symm⟩
  rw [locate_eq] at hx ⊢
  rw [hd, List.range_add, List.findSome?_append]
  have e : (List.range w.models.length).findSome? (locStep w' x) = (List.range w.models.length).findSome? (locStep w x) := by
    apply findSome?_congr_mem
    intro j hj
    simp only [locStep, hpre j (List.mem_range.mp hj)]
  rw [e, hx]
  rfl

/-- the version `duplicate` copies in: the lowest version of the files (`Element::min_version` of the new root) -/
def dupVer (fs : List File) : Nat := fs.foldl (fun v f => if f.version < v then f.version else v) V.latest

theorem dupVer_congr (a b : List File) (h : a.map (·.version) = b.map (·.version)) : dupVer V a = dupVer V b := by
  have e : ∀ l : List File, dupVer V l = (l.map (·.version)).foldl (fun v x => if x < v then x else v) V.latest := by
    intro l; unfold dupVer; rw [List.foldl_map]
  rw [e, e, h]

/-- `min_version` of a root element that lies in all files of its model -/
theorem minVersion_root (m : Model) (hne : m.files ≠ []) (hf : m.rootHdr.files = m.files.map (·.id)) :
    minVersion V m [(m.rootHdr, m.rootKids)] = some (dupVer V m.files) := by
  have h1 : (!m.rootHdr.files.isEmpty) = true := by
    rw [hf]; cases hm : m.files with
    | nil => exact absurd hm hne
    | cons a l => rfl
  have h2 : (m.files.filter fun f => m.rootHdr.files.contains f.id) = m.files := by
    rw [List.filter_eq_self]
    intro a ha
    rw [hf]
    simp only [List.contains_eq_mem, List.mem_map, decide_eq_true_eq]
    exact ⟨a, ha, rfl⟩
  simp only [minVersion, List.reverse_cons, List.reverse_nil, List.nil_append, List.find?_cons, h1, h2, dupVer]

theorem rangeScan_shape (typ ver : Nat) (newIdx : List Nat) (kids : Items) : ∀ i lo hi,
    rangeScan S typ ver newIdx kids.shape i lo hi = rangeScan S typ ver newIdx kids i lo hi := by
  induction kids with
  | nil => intro i lo hi; rfl
  | text c r ih => intro i lo hi; simp only [shape_text, rangeScan, ih]
  | elem h k r _ ihr => intro i lo hi; simp only [shape_elem, rangeScan, shape_name, ihr]

/-- `calc_element_insert_range` looks at the type of the parent and at names and order of the content only -/
theorem insertRange_shape (h h' : Hdr) (kids kids' : Items) (name ver : Nat) (hty : h'.ety = h.ety) (hk : kids'.shape = kids.shape) :
    insertRange S h' kids' name ver = insertRange S h kids name ver := by
  have e1 : ∀ ni, rangeScan S h.ety.typ ver ni kids' 0 0 0 = rangeScan S h.ety.typ ver ni kids 0 0 0 := by
    intro ni; rw [← rangeScan_shape, hk, rangeScan_shape]
  have e2 : kids'.length = kids.length := by rw [← length_shape kids', hk, length_shape]
  unfold insertRange
  simp only [hty, e1, e2]

theorem shape_append (a b : Items) : (a.append b).shape = a.shape.append b.shape := by
  induction a with
  | nil => rfl
  | text c r ih => simp only [Items.append, shape_text, ih]
  | elem h k r _ ih => simp only [Items.append, shape_elem, ih]

theorem ofList_append (a b : List (Hdr × Items)) : Items.ofList (a ++ b) = (Items.ofList a).append (Items.ofList b) := by
  induction a with
  | nil => rfl
  | cons c a ih => simp only [List.cons_append, Items.ofList, Items.append, ih]

theorem insertAt_length (new : Items → Items) (k : Items) : k.insertAt new k.length = k.append (new .nil) := by
  induction k with
  | nil => rfl
  | text c r ih => simp only [Items.length, Items.insertAt, Items.append, ih]
  | elem h kk r _ ih => simp only [Items.length, Items.insertAt, Items.append, ih]

theorem entries_append (a b : Items) (pre : Bytes) : entries S (a.append b) pre = entries S a pre ++ entries S b pre := by
  induction a with
  | nil => rfl
  | text c r ih => simp only [Items.append, entries, ih]
  | elem h k r _ ih =>
    simp only [Items.append, entries, ih]
    split <;> simp

theorem childElems_ofList (l : List (Hdr × Items)) : (Items.ofList l).childElems = l := by
  induction l with
  | nil => rfl
  | cons c l ih => obtain ⟨h, k⟩ := c; simp only [Items.ofList, Items.childElems, ih]

theorem noSnTop_shape (its : Items) : noSnTop S its.shape ↔ noSnTop S its := by
  induction its with
  | nil => exact Iff.rfl
  | text c r ih => simpa only [shape_text, noSnTop] using ih
  | elem h k r _ ih => simp only [shape_elem, noSnTop, shape_name, ih]

/-- an element whose first content item is not a SHORT-NAME element has no item name -/
theorem itemName_none_of_noSnTop (h : Hdr) (k : Items) (hk : noSnTop S k) : itemName S h k = none := by
  unfold itemName
  cases k with
  | nil => simp
  | text _ _ => simp
  | elem sh sk r => simp only [noSnTop] at hk; simp [hk.1]


theorem length_ofList (l : List (Hdr × Items)) : (Items.ofList l).length = l.length := by
  induction l with
  | nil => rfl
  | cons c l ih => obtain ⟨h, k⟩ := c; simp only [Items.ofList, Items.length, List.length_cons, ih]

theorem noSnTop_ofList (l : List (Hdr × Items)) : noSnTop S (Items.ofList l) ↔ ∀ c ∈ l, c.1.name ≠ S.nmShortName := by
  induction l with
  | nil => simp [Items.ofList, noSnTop]
  | cons c l ih => obtain ⟨h, k⟩ := c; simp only [Items.ofList, noSnTop, ih, List.mem_cons, forall_eq_or_imp]

theorem entryKeys_of_shape {a b : Items} (e : a.shape = b.shape) (pre : Bytes) :
    (entries S a pre).map (·.1) = (entries S b pre).map (·.1) := by
  rw [← entryKeys_shape S a pre, e, entryKeys_shape S b pre]

/-! ### 2. one step of the copy phase -/

/-- the hypothesis about the ORDER of the sub-elements of the original root: each one, appended to the ones before it, lands at the
end (`calc_element_insert_range` answers with the upper end = the number of items so far) -/
def AppendOk (h : Hdr) (ver : Nat) : List (Hdr × Items) → List (Hdr × Items) → Prop
  | _, [] => True
  | done, c :: cs =>
    (insertRange S h (Items.ofList done) c.1.name ver).map (·.2) = some done.length ∧ AppendOk h ver (done ++ [c]) cs

def AppendOk.dec (h : Hdr) (ver : Nat) : (done cs : List (Hdr × Items)) → Decidable (AppendOk S h ver done cs)
  | _, [] => isTrue trivial
  | done, c :: cs => @instDecidableAnd _ _ _ (AppendOk.dec h ver (done ++ [c]) cs)

instance (h : Hdr) (ver : Nat) (done cs : List (Hdr × Items)) : Decidable (AppendOk S h ver done cs) := AppendOk.dec S h ver done cs

/-- the state of the copy phase: `w` the world `duplicate` started in, `wi` the world now, `mi` the model under construction,
`done` the sub-elements of the original root that have been copied -/
structure DupSt (w wi : World) (mi : Model) (done : List (Hdr × Items)) : Prop where
  ginv : GInv S vOk wi
  pre : ∀ j, j < w.models.length → wi.models[j]? = w.models[j]?
  len : wi.models.length = w.models.length + 1
  get : wi.models[w.models.length]? = some mi
  rfiles : mi.rootHdr.files = mi.files.map (·.id)
  fne : mi.files ≠ []
  shape : mi.rootKids.shape = (Items.ofList done).shape

/-- what is assumed of the original model `m` (the model `k` of `w`), for one sub-element `c` of its root after the sub-elements
`done` -/
structure DupSrc (w : World) (k : Nat) (m : Model) (ver : Nat) (done : List (Hdr × Items)) (c : Hdr × Items)
    (rest : List (Hdr × Items)) : Prop where
  ginv : GInv S vOk w
  get : w.models[k]? = some m
  kids : m.rootKids = Items.ofList (done ++ c :: rest)
  noSn : ∀ d ∈ done ++ c :: rest, d.1.name ≠ S.nmShortName
  live : ∃ cx, locate w c.1.id = some (k, cx) ∧ lastOf cx = c
  compat : AllCompat S ver c.1 c.2
  app : (insertRange S m.rootHdr (Items.ofList done) c.1.name ver).map (·.2) = some done.length

variable {S V vOk}

/-- everything a successful `opCopy` of the sub-element `c` onto the new root went through, in terms of the original -/
theorem dupCopyOk {w wi : World} {mi : Model} {done : List (Hdr × Items)} {k : Nat} {m : Model} {c : Hdr × Items}
    {rest : List (Hdr × Items)} (st : DupSt S vOk w wi mi done) (src : DupSrc S vOk w k m (dupVer V mi.files) done c rest)
    (hfresh : ∀ m ∈ w.models, mi.rootHdr.id ∉ m.rootItems.ids)
    {kk : Nat} {cp : List (Hdr × Items)} {ver : Nat} {xh : Hdr} {xkids : Items} {q : Nat} {nh : Hdr} {nk : Items} {n' : Nat}
    {nk1 : Items} {idx' : List (Bytes × Nat)} {rs' : List (Bytes × List Nat)}
    (hc : CopyOk S V wi mi.rootHdr.id c.1.id none kk cp ver xh xkids q nh nk n' nk1 idx' rs') :
    kk = w.models.length ∧ cp = [(mi.rootHdr, mi.rootKids)] ∧ ver = dupVer V mi.files ∧ (xh, xkids) = c ∧
      Items.shape (.elem nh nk .nil) = Items.shape (.elem c.1 c.2 .nil) ∧
      keysNodupI (entries S (.elem nh nk .nil) []) ∧
      (∀ e ∈ entries S (.elem nh nk .nil) [], idxGet mi.index e.1 = none) ∧ q = done.length ∧ pathOfChain S cp = [] := by
  have hlt : k < w.models.length := lt_of_getElem?_some _ _ _ src.get
  have hmem : m ∈ w.models := List.mem_of_getElem? src.get
  have hmimem : mi ∈ wi.models := List.mem_of_getElem? st.get
  -- the destination
  obtain ⟨mi', g1, g2, _, hch⟩ := locate_chain wi _ kk cp hc.loc
  have hkk : kk = w.models.length := by
    have h1 : kk < wi.models.length := lt_of_getElem?_some _ _ _ g1
    rcases Nat.lt_or_ge kk w.models.length with h | h
    · exfalso
      rw [st.pre kk h] at g1
      exact hfresh mi' (List.mem_of_getElem? g1) (chain_mem_ids _ _ _ hch)
    · have := st.len; omega
  subst hkk
  have : mi' = mi := Option.some.inj (g1.symm.trans st.get)
  subst this
  have hcp : cp = [(mi'.rootHdr, mi'.rootKids)] := by
    simp only [Model.rootItems, Items.chain, if_true] at hch
    exact (Option.some.inj hch).symm
  subst hcp
  have hver : ver = dupVer V mi'.files := by
    have := hc.minv
    rw [g2, minVersion_root V mi' st.fne st.rfiles] at this
    exact (Option.some.inj this).symm
  subst hver
  -- the source
  obtain ⟨cx, hlx, hlast⟩ := src.live
  have hlx' : locate wi c.1.id = some (k, cx) := locate_of_prefix w wi _ k cx hlx st.pre (by rw [st.len]; omega)
  have hxc : (xh, xkids) = c := by rw [← hdrOf_locate wi _ k cx xh xkids hlx' hc.src, hlast]
  obtain ⟨m0, f1, _, _, hcx⟩ := locate_chain w _ k cx hlx
  have : m0 = m := Option.some.inj (f1.symm.trans src.get)
  subst this
  obtain ⟨ho, _⟩ := chain_occ _ m0.rootItems cx hcx
  rw [hlast] at ho
  have hw : WInv S vOk w := src.ginv.2.1.1.1
  have hwi : WInv S vOk wi := st.ginv.2.1.1.1
  -- the copy
  obtain ⟨h', k', n'', hd, hshape⟩ := deepCopy_faithful_size S c.1 c.2 (dupVer V mi'.files) (.elem mi'.rootHdr.id) wi.nextId src.compat
  have hcopy := hc.copy
  rw [← hxc] at hd hshape
  rw [hcopy] at hd
  simp only [Option.some.injEq, Prod.mk.injEq] at hd
  obtain ⟨rfl, rfl, rfl⟩ := hd
  rw [hxc] at hshape
  have hkn : keysNodupI (entries S (.elem nh nk .nil) []) :=
    keysNodupI_of_shape S _ _ hshape [] (keysNodupI_of_occ S c.1 c.2 _ [] ho (hw m0 hmem).keys)
  -- the paths
  have hsnM : noSnTop S m0.rootKids := by rw [src.kids]; exact (noSnTop_ofList S _).mpr src.noSn
  have hsnD : noSnTop S (Items.ofList done) :=
    (noSnTop_ofList S _).mpr fun d hd => src.noSn d (List.mem_append_left _ hd)
  have hsnI : noSnTop S mi'.rootKids := by rw [← noSnTop_shape, st.shape, noSnTop_shape]; exact hsnD
  have hkeysM : keysNodupI (entries S m0.rootKids []) := by
    have := (hw m0 hmem).keys
    rw [rootItems_eq, entries_elem_none S _ _ _ _ (itemName_none_of_noSnTop S _ _ hsnM)] at this
    simpa [entries] using this
  have hsplit : entries S m0.rootKids [] =
      entries S (Items.ofList done) [] ++ (entries S (.elem c.1 c.2 .nil) [] ++ entries S (Items.ofList rest) []) := by
    rw [src.kids, ofList_append, entries_append]
    obtain ⟨ch, ck⟩ := c
    simp only [Items.ofList]
    rw [entries_elem_split]
  have hdisj : ∀ e ∈ entries S (.elem nh nk .nil) [], e.1 ∉ (entries S mi'.rootKids []).map (·.1) := by
    intro e he hin
    rw [entryKeys_of_shape S st.shape] at hin
    have he' : e.1 ∈ (entries S (.elem c.1 c.2 .nil) []).map (·.1) := by
      rw [← entryKeys_of_shape S hshape]; exact List.mem_map_of_mem he
    unfold keysNodupI at hkeysM
    rw [hsplit, List.map_append, List.map_append] at hkeysM
    exact (List.nodup_append.mp hkeysM).2.2 _ hin _ (List.mem_append_left _ he') rfl
  have hfree : ∀ e ∈ entries S (.elem nh nk .nil) [], idxGet mi'.index e.1 = none := by
    intro e he
    cases hg : idxGet mi'.index e.1 with
    | none => rfl
    | some i =>
      exfalso
      have := ((hwi mi' hmimem).exact e.1 i).mp hg
      rw [rootItems_eq, entries_elem_none S _ _ _ _ (itemName_none_of_noSnTop S _ _ hsnI)] at this
      simp only [entries, List.append_nil] at this
      exact hdisj e he (List.mem_map_of_mem (f := (·.1)) this)
  -- the position
  have hq : q = done.length := by
    obtain ⟨lo, hi, hr, hqq, _, _⟩ := hc.range
    have hty : mi'.rootHdr.ety = m0.rootHdr.ety := (st.ginv.2.1.1.2.2.2 mi' hmimem).trans (src.ginv.2.1.1.2.2.2 m0 hmem).symm
    have hl : lastOf [(mi'.rootHdr, mi'.rootKids)] = (mi'.rootHdr, mi'.rootKids) := rfl
    rw [hl, insertRange_shape S m0.rootHdr mi'.rootHdr (Items.ofList done) mi'.rootKids _ _ hty st.shape] at hr
    have hx : xh = c.1 := congrArg Prod.fst hxc
    have := src.app
    rw [← hx, hr] at this
    simp only [Option.map_some, Option.some.injEq] at this
    rw [hqq]; exact this
  refine ⟨rfl, rfl, rfl, hxc, hshape, hkn, hfree, hq, ?_⟩
  simp only [pathOfChain, List.filterMap_cons, List.filterMap_nil, itemName_none_of_noSnTop S _ _ hsnI]
  rfl


theorem copyModel_root_at (m : Model) (q : Nat) (nh : Hdr) (nk1 : Items) (idx' : List (Bytes × Nat)) (rs' : List (Bytes × List Nat)) :
    (copyModel m m.rootHdr.id q nh nk1 idx' rs').rootHdr = m.rootHdr ∧
    (copyModel m m.rootHdr.id q nh nk1 idx' rs').rootKids = m.rootKids.insertAt (fun r => .elem nh nk1 r) q := by
  simp [copyModel, Model.setRoot, Model.rootItems, Items.modify]

/-- no renaming: a copy all of whose paths are free in the index keeps its name -/
theorem copyRename_free (idx : List (Bytes × Nat)) (nh : Hdr) (nk nk1 : Items)
    (hfree : ∀ e ∈ entries S (.elem nh nk .nil) [], idxGet idx e.1 = none)
    (hr : copyRename S idx [] nh nk = (nk1, false)) : nk1 = nk := by
  unfold copyRename at hr
  split at hr
  · cases hin : itemName S nh nk with
    | none => rw [hin] at hr; simp at hr
    | some orig =>
      rw [hin] at hr
      have h0 : idxGet idx ([] ++ [47] ++ candName orig 0) = none := by
        have := hfree ([] ++ 47 :: orig, nh.id) (by rw [entries_elem_some S nh nk .nil [] orig hin]; exact List.mem_cons_self)
        simpa [candName] using this
      have hu : uniqueName idx [] orig (idx.length + 2) 0 = (orig, 0) := by
        rw [show idx.length + 2 = (idx.length + 1) + 1 from rfl, uniqueName_succ, h0]
        simp [candName]
      simp only [hu] at hr
      simpa using hr.symm
  · simpa using hr.symm

/-- **one step of the copy phase**: a successful `create_copied_sub_element` of the next sub-element `c` of the original root appends
a copy that equals `c` up to identities, parent links and file sets; the full invariant is kept -/
theorem dupCopy_step (hH : IdxHyp S V vOk) (hR : RefWF S) (hv32 : vOk &&& 0xFFFFFFFF = vOk)
    {w wi : World} {mi : Model} {done : List (Hdr × Items)} {k : Nat} {m : Model} {c : Hdr × Items}
    {rest : List (Hdr × Items)} (st : DupSt S vOk w wi mi done) (src : DupSrc S vOk w k m (dupVer V mi.files) done c rest)
    (hfresh : ∀ m ∈ w.models, mi.rootHdr.id ∉ m.rootItems.ids)
    (w1 : World) (pl : String) (hok : opCopy S V wi mi.rootHdr.id c.1.id none = (w1, .ok pl)) :
    ∃ mi', DupSt S vOk w w1 mi' (done ++ [c]) ∧ mi'.rootHdr = mi.rootHdr ∧ mi'.files = mi.files := by
  have hok' : (opCopy S V wi mi.rootHdr.id c.1.id none).2 ≠ .err := by rw [hok]; simp
  have hlen := st.len
  have hlt : w.models.length < wi.models.length := by omega
  have hget! : wi.models[w.models.length]! = mi := by rw [getElem!_def, st.get]
  -- the invariant
  have hg : GInv S vOk (opCopy S V wi mi.rootHdr.id c.1.id none).1 := by
    obtain ⟨cx, hlx, hlast⟩ := src.live
    have hlx' : locate wi c.1.id = some (k, cx) :=
      locate_of_prefix w wi _ k cx hlx st.pre (by omega)
    refine opCopy_ginv_paths S V vOk hH hR hv32 wi _ _ none st.ginv k cx hlx' ?_ ?_ ?_
    · rw [hlast]; exact src.noSn c (List.mem_append_right _ List.mem_cons_self)
    · intro kk cp ver hl hv
      obtain ⟨hext, cp0, hloc0⟩ := opCopy_ext S V wi mi.rootHdr.id c.1.id w.models.length hlen
        (fun j mj hj hmj => hfresh mj (List.mem_of_getElem? ((st.pre j hj) ▸ hmj))) hok'
      rw [hloc0] at hl
      obtain ⟨rfl, rfl⟩ := Prod.mk.inj (Option.some.inj hl)
      obtain ⟨mi0, g1, _, _, hch⟩ := locate_chain wi _ _ _ hloc0
      have : mi0 = mi := Option.some.inj (g1.symm.trans st.get)
      subst this
      have hcp : cp0 = [(mi0.rootHdr, mi0.rootKids)] := by
        simp only [Model.rootItems, Items.chain, if_true] at hch
        exact (Option.some.inj hch).symm
      rw [hget!, hcp, minVersion_root V mi0 st.fne st.rfiles] at hv
      rw [hlast, ← Option.some.inj hv]
      exact src.compat
    · intro kk cp ver xh xkids q nh nk n' nk1 idx' rs' hc2
      obtain ⟨rfl, rfl, rfl, _, _, hkn, hfree, _, hpath⟩ := dupCopyOk st src hfresh hc2
      rw [hget!, hpath]
      refine ⟨hkn, fun hnone e he => hfree e ?_⟩
      rw [entries_elem_none S nh nk .nil [] hnone]
      exact List.mem_append_left _ he
  obtain ⟨kk, cp, ver, xh, xkids, q, nh, nk, n', nk1, idx', rs', hc, hres⟩ := opCopy_ok S V wi _ _ none hok'
  obtain ⟨rfl, rfl, rfl, hxc, hshape, hkn, hfree, rfl, hpath⟩ := dupCopyOk st src hfresh hc
  have hnk1 : nk1 = nk := by
    have := hc.rename
    rw [hpath, hget!] at this
    exact copyRename_free mi.index nh nk nk1 hfree this
  subst hnk1
  have hw1 : w1 = copyWorld wi w.models.length mi.rootHdr.id done.length nh nk1 n' idx' rs' := by
    rw [hres] at hok; exact (Prod.mk.inj hok).1.symm
  rw [hres] at hg
  simp only at hg
  rw [← hw1] at hg
  obtain ⟨r1, r2⟩ := copyModel_root_at mi done.length nh nk1 idx' rs'
  have hql : done.length = mi.rootKids.length := by rw [← length_shape mi.rootKids, st.shape, length_shape, length_ofList]
  refine ⟨copyModel mi mi.rootHdr.id done.length nh nk1 idx' rs', ⟨hg, ?_, ?_, ?_, ?_, ?_, ?_⟩, r1, (copyModel_fields ..).1⟩
  · intro j hj
    rw [hw1, copyWorld_get_other _ _ _ _ _ _ _ _ _ j (by omega)]
    exact st.pre j hj
  · rw [hw1]; simpa [copyWorld, setModel] using hlen
  · rw [hw1, copyWorld_get_self _ _ _ _ _ _ _ _ _ hlt, hget!]
  · rw [r1, (copyModel_fields ..).1]; exact st.rfiles
  · rw [(copyModel_fields ..).1]; exact st.fne
  · rw [r2, hql, insertAt_length, shape_append, st.shape, hshape, ← shape_append, ofList_append]
    obtain ⟨ch, ck⟩ := c
    rfl


/-- **the copy phase in normal form**: if `dupCopies` succeeds on the sub-elements `cs` of the original root (after `done`), the model
under construction has the same root header and files as before, its root content equals `done ++ cs` up to identities, parent
links and file sets, and the full invariant holds -/
theorem dupCopies_inv (hH : IdxHyp S V vOk) (hR : RefWF S) (hv32 : vOk &&& 0xFFFFFFFF = vOk)
    {w : World} {k : Nat} {m : Model} (hgw : GInv S vOk w) (hm : w.models[k]? = some m) (R ver : Nat)
    (hfresh : ∀ m ∈ w.models, R ∉ m.rootItems.ids) (w2 : World) (cs : List (Hdr × Items)) :
    ∀ (done : List (Hdr × Items)) (wi : World) (mi : Model), DupSt S vOk w wi mi done → mi.rootHdr.id = R →
      ver = dupVer V mi.files → m.rootKids = Items.ofList (done ++ cs) →
      (∀ d ∈ done ++ cs, d.1.name ≠ S.nmShortName) →
      (∀ c ∈ cs, ∃ cx, locate w c.1.id = some (k, cx) ∧ lastOf cx = c) →
      (∀ c ∈ cs, AllCompat S ver c.1 c.2) → AppendOk S m.rootHdr ver done cs →
      dupCopies S V R (cs.map (·.1.id)) wi = .ok w2 →
      ∃ m2, DupSt S vOk w w2 m2 (done ++ cs) ∧ m2.rootHdr = mi.rootHdr ∧ m2.files = mi.files := by
  induction cs with
  | nil =>
    intro done wi mi st _ _ _ _ _ _ _ h
    simp only [List.map_nil, dupCopies] at h
    cases h
    exact ⟨mi, by rw [List.append_nil]; exact st, rfl, rfl⟩
  | cons c cs ih =>
    intro done wi mi st hR' hver hkids hnoSn hlive hcompat happ h
    simp only [List.map_cons] at h
    unfold dupCopies at h
    split at h
    · rename_i w1 pl heq
      subst hR'
      have src : DupSrc S vOk w k m (dupVer V mi.files) done c cs :=
        ⟨hgw, hm, hkids, hnoSn, hlive c List.mem_cons_self, hver ▸ hcompat c List.mem_cons_self, hver ▸ happ.1⟩
      obtain ⟨mi', st', e1, e2⟩ := dupCopy_step hH hR hv32 st src hfresh w1 pl heq
      have hassoc : done ++ c :: cs = (done ++ [c]) ++ cs := by simp
      obtain ⟨m2, st2, f1, f2⟩ := ih (done ++ [c]) w1 mi' st' (by rw [e1]) (by rw [e2]; exact hver) (hassoc ▸ hkids)
        (hassoc ▸ hnoSn) (fun d hd => hlive d (List.mem_cons_of_mem _ hd)) (fun d hd => hcompat d (List.mem_cons_of_mem _ hd))
        happ.2 h
      exact ⟨m2, hassoc ▸ st2, f1.trans e1, f2.trans e2⟩
    · cases h

/-! ### 3. the file phase keeps the invariant -/

theorem dupPatch_ginv (k' fid : Nat) (sa : Option Bool) (w : World) (hg : GInv S vOk w) : GInv S vOk (dupPatch k' fid sa w) := by
  unfold dupPatch
  split
  · rename_i m hm
    have hmem : m ∈ w.models := List.mem_of_getElem? hm
    have hw := hg.2.1.1.1 m hmem
    refine ginv_skel_update S vOk w _ k' m _ hg hm rfl (Nat.le_refl _) rfl rfl rfl rfl ?_ (fun hi => (hw.fresh hi).2)
      (hg.1.1 k' m hm) (hg.1.2 m hmem)
    intro f hf
    simp only [List.mem_map] at hf
    obtain ⟨g, hg', rfl⟩ := hf
    split
    · exact hw.vers g hg'
    · exact hw.vers g hg'
  · exact hg

theorem dupFiles_ginv (rootAttrs : List (Nat × CDv)) (hH : IdxHyp S V vOk) (hR : RefWF S) (hv32 : vOk &&& 0xFFFFFFFF = vOk) (k' : Nat)
    (fs : List File) : ∀ (w w1 : World), GInv S vOk w → (∀ f ∈ fs, f.version &&& vOk = f.version) →
      dupFiles S k' fs w = some w1 → GInv S vOk w1 := by
  induction fs with
  | nil => intro w w1 hg _ h; simp only [dupFiles] at h; cases h; exact hg
  | cons f fs ih =>
    intro w w1 hg hv h
    rw [dupFiles_cons] at h
    split at h
    · refine ih _ _ (dupPatch_ginv _ _ _ _ ?_) (fun g hg' => hv g (List.mem_cons_of_mem _ hg')) h
      exact applyOpX_ginv S V vOk rootAttrs hH hR hv32 w (.core (.mkFile k' f.name f.version true)) (hv f List.mem_cons_self) hg
    · cases h

/-! ### 4. the relabelling keeps the file-set invariant (C05) when the iterations run in step -/

theorem filesOk_in_step (mapF : Nat → Option Nat) (its : Items) : ∀ (orig : Items) (rest : List (List Nat)) (pe pe' : List Nat),
    its.shape = orig.shape → FilesOk pe orig → (∀ x ∈ pe.filterMap mapF, x ∈ pe') →
    FilesOk pe' (assignFiles its (orig.hdrs.map (fun h => h.files.filterMap mapF) ++ rest)).1 := by
  induction its with
  | nil => intro orig rest pe pe' _ _ _; simp only [assignFiles]; trivial
  | text c r ih =>
    intro orig rest pe pe' hs ho hsub
    cases orig with
    | nil => cases hs
    | elem _ _ _ => cases hs
    | text c' r' =>
      rw [shape_text, shape_text] at hs
      injection hs with _ hr
      simp only [assignFiles, Items.hdrs]
      exact ih r' rest pe pe' hr ho hsub
  | elem h k r ihk ihr =>
    intro orig rest pe pe' hs ho hsub
    cases orig with
    | nil => cases hs
    | text _ _ => cases hs
    | elem h' k' r' =>
      rw [shape_elem, shape_elem] at hs
      injection hs with _ hk hr
      obtain ⟨o1, o2, o3⟩ := ho
      simp only [Items.hdrs, List.map_cons, List.map_append, List.cons_append, List.append_assoc, assignFiles]
      rw [(assignFiles_in_step (fun l => l.filterMap mapF) k k' hk _).1]
      have h1 : ∀ x ∈ h'.files.filterMap mapF, x ∈ pe' := by
        intro x hx
        obtain ⟨y, hy, hxy⟩ := List.mem_filterMap.mp hx
        exact hsub x (List.mem_filterMap.mpr ⟨y, o1 y hy, hxy⟩)
      refine ⟨h1, ihk k' _ (effOf pe h') _ hk o2 ?_, ihr r' rest pe pe' hr o3 hsub⟩
      intro x hx
      unfold effOf at hx ⊢
      simp only
      by_cases he : (h'.files.filterMap mapF).isEmpty = true
      · rw [if_pos he]
        split at hx
        · exact hsub x hx
        · exact h1 x hx
      · rw [if_neg he]
        split at hx
        · rename_i he'
          have : h'.files = [] := by simpa using he'
          rw [this] at he
          exact absurd rfl he
        · exact hx


/-! ### 5. `duplicate`: faithful, and the result has the full invariant -/

theorem hdr_shape_eq (a b : Hdr) (h1 : a.name = b.name) (h2 : a.ety = b.ety) (h3 : a.attrs = b.attrs) (h4 : a.comment = b.comment) :
    a.shape = b.shape := by
  cases a; cases b
  simp only at h1 h2 h3 h4
  subst h1 h2 h3 h4
  rfl

theorem opDup_faithful_core (rootAttrs : List (Nat × CDv)) (hH : IdxHyp S V vOk) (hR : RefWF S) (hv32 : vOk &&& 0xFFFFFFFF = vOk)
    (w : World) (k : Nat) (m : Model) (hg : GInv S vOk w) (hfresh : ∀ m ∈ w.models, w.nextId ∉ m.rootItems.ids)
    (hm : w.models[k]? = some m) (hne : m.files.isEmpty = false)
    (hroot : m.rootHdr.name = S.defName S.rootDef ∧ m.rootHdr.attrs = rootAttrs ∧ m.rootHdr.comment = none)
    (hnotext : m.rootKids = Items.ofList m.rootKids.childElems)
    (hnoSn : ∀ c ∈ m.rootKids.childElems, c.1.name ≠ S.nmShortName)
    (hlive : ∀ c ∈ m.rootKids.childElems, ∃ cx, locate w c.1.id = some (k, cx) ∧ lastOf cx = c)
    (hcompat : ∀ c ∈ m.rootKids.childElems, AllCompat S (dupVer V m.files) c.1 c.2)
    (happ : AppendOk S m.rootHdr (dupVer V m.files) [] m.rootKids.childElems)
    (p : String) (hok : (opDup S V rootAttrs w k).2 = .ok p) :
    GInv S vOk (opDup S V rootAttrs w k).1 ∧
    ∃ m3, (opDup S V rootAttrs w k).1.models[w.models.length]? = some m3 ∧ m3.rootItems.shape = m.rootItems.shape := by
  revert hok
  fun_cases opDup S V rootAttrs w k
  all_goals try (intro hok; cases hok; done)
  · rename_i m' hm' _ _ hemp _
    rw [hm] at hm'; cases hm'
    rw [hne] at hemp; cases hemp
  · rename_i a herr
    intro hok
    exact absurd hok (dupCopies_error_not_ok S V _ _ _ _ herr p)
  · rename_i m' hm' k' w0 _ w1 hf m1 hm1 w2 hc m2 hm2 newFiles mapF origSets root' m3 ids hids fs es
    rw [hm] at hm'; cases hm'
    intro _
    have hmem : m ∈ w.models := List.mem_of_getElem? hm
    have hg0 : GInv S vOk w0 := applyOpX_ginv S V vOk rootAttrs hH hR hv32 w (.core .newModel) trivial hg
    have hvers : ∀ f ∈ m.files, f.version &&& vOk = f.version := (hg.2.1.1.1 m hmem).vers
    have hg1 := dupFiles_ginv rootAttrs hH hR hv32 k' m.files w0 w1 hg0 hvers hf
    have hfr0 : FreshRoot k' w0 (newModel S rootAttrs) :=
      ⟨by simp [w0, k'], rfl, rfl, fun g hg => by simp [newModel] at hg⟩
    obtain ⟨m1', r⟩ := dupFiles_res S k' m.files w0 w1 _ hfr0 hf
    have : m1' = m1 := Option.some.inj (r.fresh.get.symm.trans hm1)
    subst this
    have hne' : m.files ≠ [] := by intro h; rw [h] at hne; cases hne
    have hid : m1'.rootHdr.id = w.nextId := (r.root0 rfl hne').1
    have e1 : Ext k' w0 w1 := dupFiles_ext S k' m.files w0 w1 hf
    have hdata : m1'.files.map (·.version) = m.files.map (·.version) := by
      have := congrArg (List.map (fun t : Bytes × Nat × Option Bool => t.2.1)) r.data
      simpa [List.map_map, newModel, Function.comp_def] using this
    have st1 : DupSt S vOk w w1 m1' [] := by
      refine ⟨hg1, fun j hj => (e1.1 j hj).trans (by simp only [w0]; exact List.getElem?_append_left hj),
        e1.2.2.trans (by simp [w0]), hm1, r.fresh.rfiles, ?_, by rw [r.fresh.kids]; rfl⟩
      intro h0
      rw [h0] at hdata
      simp only [List.map_nil] at hdata
      exact hne' (List.map_eq_nil_iff.mp hdata.symm)
    rw [hid] at hc
    obtain ⟨m2', st2, f1, f2⟩ := dupCopies_inv hH hR hv32 hg hm w.nextId (dupVer V m.files) hfresh w2 m.rootKids.childElems
      [] w1 m1' st1 hid (dupVer_congr V _ _ hdata.symm) (by simpa using hnotext) (by simpa using hnoSn) hlive hcompat happ hc
    have : m2' = m2 := Option.some.inj (st2.get.symm.trans hm2)
    subst this
    have hmem2 : m2' ∈ w2.models := List.mem_of_getElem? hm2
    have hksh : m2'.rootKids.shape = m.rootKids.shape := by
      rw [st2.shape, List.nil_append, ← hnotext]
    have hsh2 : m2'.rootItems.shape = m.rootItems.shape := by
      rw [rootItems_eq, rootItems_eq, shape_elem, shape_elem, hksh]
      congr 1
      rw [f1]
      obtain ⟨a, b, c, d⟩ := r.hdr
      refine hdr_shape_eq _ _ (a.trans hroot.1.symm) (b.trans (hg.2.1.1.2.2.2 m hmem).symm) (c.trans hroot.2.1.symm)
        (d.trans hroot.2.2.symm)
    have hs := setRoot_of_skel m2' root' (assignFiles_skel _ _)
    have hroot' : root' = .elem { m2'.rootHdr with files := m.rootHdr.files.filterMap mapF }
        (assignFiles m2'.rootKids (m.rootKids.hdrs.map fun h => h.files.filterMap mapF)).1 .nil := by
      simp only [root', origSets, Model.rootItems, List.map_cons, assignFiles]
    have hm3 : m3.rootHdr = { m2'.rootHdr with files := m.rootHdr.files.filterMap mapF } ∧
        m3.rootKids = (assignFiles m2'.rootKids (m.rootKids.hdrs.map fun h => h.files.filterMap mapF)).1 := by
      simp only [m3, hroot', Model.setRoot]
      exact ⟨trivial, trivial⟩
    have hlt : k' < w2.models.length := lt_of_getElem?_some _ _ _ hm2
    refine ⟨ginv_skel_update S vOk w2 (setModel w2 k' m3) k' m2' m3 st2.ginv hm2 rfl (Nat.le_refl _) ?_ hs.2.1 (setRoot_refs _ _)
      hs.2.2.2 ?_ ?_ ?_ ?_, m3, ?_, ?_⟩
    · rw [hs.1]; exact assignFiles_skel _ _
    · rw [hs.2.2.1]; exact (st2.ginv.2.1.1.1 m2' hmem2).vers
    · intro hi
      exfalso
      rw [hs.2.2.2] at hi
      have := ((st2.ginv.2.1.1.1 m2' hmem2).fresh hi).2
      rw [st2.rfiles] at this
      exact st2.fne (List.map_eq_nil_iff.mp this)
    · show Items.wf (.elem m3.rootHdr.id) m3.rootKids
      rw [hm3.2, hm3.1]
      exact (assignFiles_wf _ _ _).mpr (st2.ginv.1.1 k' m2' hm2)
    · show FilesOk m3.rootHdr.files m3.rootKids
      rw [hm3.2, hm3.1]
      have := filesOk_in_step mapF m2'.rootKids m.rootKids [] m.rootHdr.files (m.rootHdr.files.filterMap mapF) hksh
        (hg.1.2 m hmem) (fun x hx => hx)
      rw [List.append_nil] at this
      exact this
    · simp only [setModel]
      exact List.getElem?_set_self hlt
    · rw [hs.1]
      show (assignFiles m2'.rootItems origSets).1.shape = _
      rw [shape_assignFiles]; exact hsh2

/-- **C13 "faithful" with all hypotheses, and C03/C04/C05/C10 for the result**: see the list of hypotheses in the text above -/
theorem opDup_faithful_live (rootAttrs : List (Nat × CDv)) (hH : IdxHyp S V vOk) (hR : RefWF S) (hv32 : vOk &&& 0xFFFFFFFF = vOk)
    (w : World) (k : Nat) (m : Model) (hg : GInv S vOk w) (hfresh : ∀ m ∈ w.models, w.nextId ∉ m.rootItems.ids)
    (hm : w.models[k]? = some m) (hne : m.files.isEmpty = false)
    (hroot : m.rootHdr.name = S.defName S.rootDef ∧ m.rootHdr.attrs = rootAttrs ∧ m.rootHdr.comment = none)
    (hnotext : m.rootKids = Items.ofList m.rootKids.childElems)
    (hnoSn : ∀ c ∈ m.rootKids.childElems, c.1.name ≠ S.nmShortName)
    (hlive : ∀ c ∈ m.rootKids.childElems, ∃ cx, locate w c.1.id = some (k, cx) ∧ lastOf cx = c)
    (hcompat : ∀ c ∈ m.rootKids.childElems, AllCompat S (dupVer V m.files) c.1 c.2)
    (happ : AppendOk S m.rootHdr (dupVer V m.files) [] m.rootKids.childElems)
    (p : String) (hok : (opDup S V rootAttrs w k).2 = .ok p) :
    GInv S vOk (opDup S V rootAttrs w k).1 ∧
    ∃ m3, (opDup S V rootAttrs w k).1.models[w.models.length]? = some m3 ∧ m3.rootItems.shape = m.rootItems.shape ∧
      m3.rootItems.mapHdrs Hdr.anon =
        m.rootItems.mapHdrs (fun h => { h.anon with files := h.files.filterMap (dupMapF m m3) }) := by
  obtain ⟨hG, m3, hget, hsh⟩ := opDup_faithful_core rootAttrs hH hR hv32 w k m hg hfresh hm hne hroot hnotext hnoSn hlive hcompat
    happ p hok
  obtain ⟨m3', hget', himp⟩ := opDup_in_step S V rootAttrs w k m hm hne p hok
  have : m3' = m3 := Option.some.inj (hget'.symm.trans hget)
  subst this
  exact ⟨hG, m3', hget, hsh, himp hsh⟩


/-! ### 6. the hypotheses `hlive`, `hnotext` from decidable / invariant facts -/

theorem occ_of_childElems (k : Items) (c : Hdr × Items) (h : c ∈ k.childElems) : Occ c.1 c.2 k := by
  induction k with
  | nil => simp [Items.childElems] at h
  | text _ r ih => exact ih h
  | elem hd kk r _ ih =>
    simp only [Items.childElems, List.mem_cons] at h
    rcases h with rfl | h
    · exact Or.inl ⟨rfl, rfl⟩
    · exact Or.inr (Or.inr (ih h))

theorem childElems_length_le (k : Items) : k.childElems.length ≤ k.length := by
  induction k with
  | nil => exact Nat.le_refl _
  | text _ r ih => simp only [Items.childElems, Items.length]; omega
  | elem h kk r _ ih => simp only [Items.childElems, Items.length, List.length_cons]; omega

/-- a content list without text items is the list of its elements -/
theorem ofList_childElems (k : Items) (h : k.length = k.childElems.length) : k = Items.ofList k.childElems := by
  induction k with
  | nil => rfl
  | text _ r _ =>
    exfalso
    have := childElems_length_le r
    simp only [Items.childElems, Items.length] at h
    omega
  | elem hd kk r _ ih =>
    simp only [Items.childElems, Items.length, List.length_cons, Nat.add_right_cancel_iff] at h
    simp only [Items.childElems, Items.ofList]
    rw [← ih h]

/-- the sub-elements of the root of a model are live and `locate` finds them in that model (ids are unique in the model and are
not shared with the models in front of it) -/
theorem live_of_inv (w : World) (k : Nat) (m : Model) (hw : WInv S vOk w) (hU : IdsSep w) (hm : w.models[k]? = some m)
    (c : Hdr × Items) (hc : c ∈ m.rootKids.childElems) : ∃ cx, locate w c.1.id = some (k, cx) ∧ lastOf cx = c := by
  have hmem : m ∈ w.models := List.mem_of_getElem? hm
  have ho : Occ c.1 c.2 m.rootKids := occ_of_childElems _ c hc
  have ho' : Occ c.1 c.2 m.rootItems := Or.inr (Or.inl ho)
  have hid : c.1.id ∈ m.rootKids.ids := ho.id_mem
  obtain ⟨cx, hcx⟩ := chain_some_of_mem c.1.id m.rootItems ho'.id_mem
  obtain ⟨e1, e2⟩ := node_eq S vOk (hw m hmem) c.1.id cx hcx c.1 c.2 ho' rfl
  refine ⟨cx, locate_of_chain w k m _ cx hm hcx (notBefore_of_sep w hU k m hm _ hid), ?_⟩
  exact Prod.ext e1.symm e2.symm

/-- **C13 "faithful" under the hypotheses listed, and the full invariant of the resulting world (C03, C04, C05, C10 faces).**
After a successful `duplicate` of the model `k` (which has a file) in a world with the full invariant `GInv` whose element ids are
apart (`IdsSep`) and whose next id is unused (`hfresh`, see `fresh_of_winv`), IF
* `hroot`: the root element of the original has the name, the attributes and the (absent) comment of a new model's root
  [`duplicate` does not copy them],
* `hnotext`: there is no text item directly below the root,
* `hnoSn`: no sub-element of the root is a SHORT-NAME element,
* `hcompat`: every sub-element of the root, with all its content, is permitted in the lowest version `dupVer` of the files,
* `happ`: the sub-elements of the root are in an order in which each one, appended to those before it, lands at the end,
THEN the resulting world has the full invariant, the new model is the last one, its tree equals the original's up to identities,
parent links and file sets, and equals it up to identities and parent links with every file set replaced by its image under
`dupMapF` (the positional map from the files of the original to the files of the copy). -/
theorem opDup_faithful (rootAttrs : List (Nat × CDv)) (hH : IdxHyp S V vOk) (hR : RefWF S) (hv32 : vOk &&& 0xFFFFFFFF = vOk)
    (w : World) (k : Nat) (m : Model) (hg : GInv S vOk w) (hU : IdsSep w) (hfresh : ∀ m ∈ w.models, w.nextId ∉ m.rootItems.ids)
    (hm : w.models[k]? = some m) (hne : m.files.isEmpty = false)
    (hroot : m.rootHdr.name = S.defName S.rootDef ∧ m.rootHdr.attrs = rootAttrs ∧ m.rootHdr.comment = none)
    (hnotext : m.rootKids.length = m.rootKids.childElems.length)
    (hnoSn : ∀ c ∈ m.rootKids.childElems, c.1.name ≠ S.nmShortName)
    (hcompat : ∀ c ∈ m.rootKids.childElems, AllCompat S (dupVer V m.files) c.1 c.2)
    (happ : AppendOk S m.rootHdr (dupVer V m.files) [] m.rootKids.childElems)
    (p : String) (hok : (opDup S V rootAttrs w k).2 = .ok p) :
    GInv S vOk (opDup S V rootAttrs w k).1 ∧
    ∃ m3, (opDup S V rootAttrs w k).1.models[w.models.length]? = some m3 ∧ m3.rootItems.shape = m.rootItems.shape ∧
      m3.rootItems.mapHdrs Hdr.anon =
        m.rootItems.mapHdrs (fun h => { h.anon with files := h.files.filterMap (dupMapF m m3) }) :=
  opDup_faithful_live rootAttrs hH hR hv32 w k m hg hfresh hm hne hroot (ofList_childElems _ hnotext) hnoSn
    (fun c hc => live_of_inv w k m hg.2.1.1.1 hU hm c hc) hcompat happ p hok

/-- one version: if all files of the original have the version `v` (not above `V.latest`), `dupVer` is `v` -/
theorem dupVer_one (fs : List File) (v : Nat) (hv : v ≤ V.latest) (hne : fs ≠ []) (h : ∀ f ∈ fs, f.version = v) : dupVer V fs = v := by
  unfold dupVer
  have : ∀ (l : List File) (a : Nat), (∀ f ∈ l, f.version = v) → v ≤ a →
      l.foldl (fun v f => if f.version < v then f.version else v) a = if l = [] then a else v := by
    intro l
    induction l with
    | nil => intro a _ _; rfl
    | cons f l ih =>
      intro a hl ha
      have hf := hl f List.mem_cons_self
      rw [List.foldl_cons, ih _ (fun g hg => hl g (List.mem_cons_of_mem _ hg)) (by split <;> omega)]
      simp only [reduceCtorEq, if_false]
      split
      · split <;> omega
      · rfl
  rw [this fs _ h hv, if_neg hne]

end
end AV.W
