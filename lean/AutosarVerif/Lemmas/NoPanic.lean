/-
C12: the panic sites of the modelled operations are unreachable in reachable states.

The Rust library contains indexing / `unwrap` expressions whose safety rests on invariants.  The model marks them (it takes a
harmless default branch where the Rust code would panic).  Here the sites are spelled out as predicates and proved
unreachable:

(a) `setRefTexts` (`content[0] = …` of a referrer with EMPTY content) in the reference rewriting loop of `set_item_name`:
    `setRefTextsPanics`, `renameRefsPanics`, `RenamePanics` (`RenamePanics.runs_loop`: it sits on the branch of `opRename` that
    runs the loop), `opRename_never_indexes_empty`; the same for the loop of `move_element_here`: `MovePanics`,
    `MovePanics.runs_loop`, `opMove_never_indexes_empty`;
(b) `DfsStep.oob` (`self.position[depth]`) of the depth-first iterators: `DfsReach.good`, `DfsReach.step_ne_oob`,
    `dfsAll_never_oob`, `dfsFileAll_never_oob`, `qDfs_never_oob`, `qDfsFile_never_oob`;
(c) `opMove`: `src_parent_locked.content.iter().position(..).unwrap()`: `locate_parent_childPos`;
(d) `lastOf`: `locate_lastOf`;
(e) `w.models[k]!`: `locate_index_in_range`;
and the summary over all reachable states `runX_no_modelled_panic`.
-/
import AutosarVerif.Lemmas.StepX
import AutosarVerif.Lemmas.Iter

namespace AV.W
open Items

/-! ## (a) `setRefTexts` never indexes an empty content list -/

/-- the content list is empty -/
def Items.isNil : Items → Bool
  | .nil => true
  | _ => false

theorem Items.isNil_iff (k : Items) : k.isNil = true ↔ k = .nil := by
  cases k <;> simp [Items.isNil]

/-- some LIVE node of the forest with the id `id` has EMPTY content: `content[0] = …` on it panics.  (An id that does not
occur in the forest at all is a dead weak reference: `weak.upgrade()` fails and the Rust loop skips the entry, as `modify`
does.) -/
def emptyAt (id : Nat) : Items → Bool
  | .nil => false
  | .text _ r => emptyAt id r
  | .elem h k r => (h.id == id && k.isNil) || emptyAt id k || emptyAt id r

theorem emptyAt_iff (id : Nat) (its : Items) : emptyAt id its = true ↔ ∃ h, h.id = id ∧ Occ h .nil its := by
  induction its with
  | nil => simp [emptyAt, Occ]
  | text _ r ih => simp only [emptyAt, Occ]; exact ih
  | elem hd k r ihk ihr =>
    simp only [emptyAt, Occ, Bool.or_eq_true, Bool.and_eq_true, beq_iff_eq, Items.isNil_iff, ihk, ihr]
    constructor
    · rintro ((⟨h1, h2⟩ | ⟨h, h1, h2⟩) | ⟨h, h1, h2⟩)
      · exact ⟨hd, h1, Or.inl ⟨rfl, h2⟩⟩
      · exact ⟨h, h1, Or.inr (Or.inl h2)⟩
      · exact ⟨h, h1, Or.inr (Or.inr h2)⟩
    · rintro ⟨h, h1, (⟨rfl, h2⟩ | h2 | h2)⟩
      · exact Or.inl (Or.inl ⟨h1, h2⟩)
      · exact Or.inl (Or.inr ⟨h, h1, h2⟩)
      · exact Or.inr ⟨h, h1, h2⟩

/-- **the panic site of `setRefTexts`**: one of the ids handed to the loop is a live element with empty content -/
def setRefTextsPanics (root : Items) (ids : List Nat) : Prop := ∃ id ∈ ids, emptyAt id root = true

instance (root : Items) (ids : List Nat) : Decidable (setRefTextsPanics root ids) := by
  unfold setRefTextsPanics; infer_instance

/-- an edit of one node that keeps ids, keeps empty content lists empty and non-empty ones non-empty, and creates no new
empty node, creates no empty node -/
theorem emptyAt_modify (t : Nat) (f : Hdr → Items → Hdr × Items) (hf1 : ∀ h k, (f h k).1.id = h.id)
    (hf2 : ∀ h k, (f h k).2.isNil = true → k.isNil = true)
    (hf3 : ∀ h k id, emptyAt id (f h k).2 = true → emptyAt id k = true) (id : Nat) (its : Items) :
    emptyAt id (its.modify t f) = true → emptyAt id its = true := by
  induction its with
  | nil => intro h; exact h
  | text _ r ih => simp only [Items.modify, emptyAt]; exact ih
  | elem hd k r ihk ihr =>
    simp only [Items.modify]
    split
    · simp only [emptyAt, Bool.or_eq_true, Bool.and_eq_true, beq_iff_eq]
      rintro ((⟨h1, h2⟩ | h2) | h2)
      · exact Or.inl (Or.inl ⟨(hf1 hd k).symm.trans h1, hf2 hd k h2⟩)
      · exact Or.inl (Or.inr (hf3 hd k id h2))
      · exact Or.inr (ihr h2)
    · simp only [emptyAt, Bool.or_eq_true, Bool.and_eq_true, beq_iff_eq]
      rintro ((⟨h1, h2⟩ | h2) | h2)
      · refine Or.inl (Or.inl ⟨h1, ?_⟩)
        cases k with
        | nil => rfl
        | text _ _ => simp [Items.modify, Items.isNil] at h2
        | elem h' _ _ =>
          simp only [Items.modify] at h2
          split at h2 <;> simp [Items.isNil] at h2
      · exact Or.inl (Or.inr (ihk h2))
      · exact Or.inr (ihr h2)

/-- one text replacement of the loop creates no empty node -/
theorem emptyAt_refEdit (t : Nat) (txt : Bytes) (id : Nat) (its : Items) :
    emptyAt id (its.modify t (refEdit txt)) = true → emptyAt id its = true := by
  apply emptyAt_modify t (refEdit txt) (fun h k => by rw [refEdit_fst])
  · intro h k; cases k <;> simp [refEdit, Items.isNil]
  · intro h k id
    cases k with
    | nil => exact fun h => h
    | text _ _ => simp only [refEdit, emptyAt]; exact fun h => h
    | elem _ _ _ =>
      simp only [refEdit, emptyAt, Bool.or_eq_true]
      exact fun h => Or.inr h

theorem emptyAt_setRefTexts (l : List Nat) (txt : Bytes) (id : Nat) : ∀ its : Items,
    emptyAt id (setRefTexts its l txt) = true → emptyAt id its = true := by
  induction l with
  | nil => intro its h; exact h
  | cons a l ih => intro its h; rw [setRefTexts_cons] at h; exact emptyAt_refEdit a txt id its (ih _ h)

/-- the loop of `setRefTexts` step by step: at some step the element to be rewritten has empty content IN THE TREE OF THAT
STEP -/
def setRefTextsMeetsEmpty (txt : Bytes) : Items → List Nat → Prop
  | _, [] => False
  | root, id :: rest => emptyAt id root = true ∨ setRefTextsMeetsEmpty txt (root.modify id (refEdit txt)) rest

instance decSetRefTextsMeetsEmpty (txt : Bytes) : ∀ (root : Items) (ids : List Nat), Decidable (setRefTextsMeetsEmpty txt root ids)
  | _, [] => isFalse (fun h => h)
  | root, id :: rest =>
    have := decSetRefTextsMeetsEmpty txt (root.modify id (refEdit txt)) rest
    inferInstanceAs (Decidable (emptyAt id root = true ∨ setRefTextsMeetsEmpty txt (root.modify id (refEdit txt)) rest))

/-- … which `setRefTextsPanics` (about the tree at the start of the loop) covers -/
theorem setRefTextsMeetsEmpty_panics (txt : Bytes) (ids : List Nat) : ∀ root : Items,
    setRefTextsMeetsEmpty txt root ids → setRefTextsPanics root ids := by
  induction ids with
  | nil => intro root h; exact h.elim
  | cons a l ih =>
    intro root h
    rcases h with h | h
    · exact ⟨a, List.mem_cons_self, h⟩
    · obtain ⟨id, hid, he⟩ := ih _ h
      exact ⟨id, List.mem_cons_of_mem _ hid, emptyAt_refEdit a txt id root he⟩

/-! ### the loop of `set_item_name` -/

/-- one step of the fold of `renameRefs` meets the panic site: the entry moves, its key is still in the map, and the list
`cur` handed to `setRefTexts` contains an element with empty content -/
def renStepPanics (old : Bytes) (acc : List (Bytes × List Nat) × Items) (e : Bytes × List Nat) : Prop :=
  match pathSuffix old e.1 with
  | some _ => acc.1.any (·.1 == e.1) = true ∧ setRefTextsPanics acc.2 (refsGet acc.1 e.1)
  | none => False

instance (old : Bytes) (acc : List (Bytes × List Nat) × Items) (e : Bytes × List Nat) : Decidable (renStepPanics old acc e) := by
  unfold renStepPanics; split <;> infer_instance

/-- the loop from the accumulator `acc` over the rest `l` of the snapshot: some step meets the panic site -/
def renameRefsPanicsFrom (old new : Bytes) : List (Bytes × List Nat) × Items → List (Bytes × List Nat) → Prop
  | _, [] => False
  | acc, e :: l => renStepPanics old acc e ∨ renameRefsPanicsFrom old new (renStep old new acc e) l

instance decRenameRefsPanicsFrom (old new : Bytes) : ∀ (acc : List (Bytes × List Nat) × Items) (l : List (Bytes × List Nat)),
    Decidable (renameRefsPanicsFrom old new acc l)
  | _, [] => isFalse (fun h => h)
  | acc, e :: l =>
    have := decRenameRefsPanicsFrom old new (renStep old new acc e) l
    inferInstanceAs (Decidable (renStepPanics old acc e ∨ renameRefsPanicsFrom old new (renStep old new acc e) l))

/-- **the panic site in `renameRefs rs root old new`** (`renameRefs` IS this fold: `renameRefs_eq`) -/
def renameRefsPanics (rs : List (Bytes × List Nat)) (root : Items) (old new : Bytes) : Prop :=
  renameRefsPanicsFrom old new (rs, root) rs

instance (rs : List (Bytes × List Nat)) (root : Items) (old new : Bytes) : Decidable (renameRefsPanics rs root old new) := by
  unfold renameRefsPanics; infer_instance

/-- the id is listed somewhere in the map -/
def Listed (rs : List (Bytes × List Nat)) (id : Nat) : Prop := ∃ e ∈ rs, id ∈ e.2

theorem refsGet_listed (acc : List (Bytes × List Nat)) (q : Bytes) : ∀ id ∈ refsGet acc q, Listed acc id := by
  induction acc with
  | nil => intro id h; simp [refsGet_nil] at h
  | cons e es ih =>
    intro id h
    rw [refsGet_cons] at h
    split at h
    · exact ⟨e, List.mem_cons_self, h⟩
    · obtain ⟨x, hx, hid⟩ := ih id h
      exact ⟨x, List.mem_cons_of_mem _ hx, hid⟩

/-- moving a list to another key lists no new id -/
theorem moveKey_listed (acc : List (Bytes × List Nat)) (k k' : Bytes) (id : Nat) (h : Listed (moveKey acc k k') id) :
    Listed acc id := by
  obtain ⟨e, he, hid⟩ := h
  unfold moveKey at he
  split at he
  · obtain ⟨e0, he0, rfl⟩ := List.mem_map.mp he
    have hm : e0 ∈ acc := (List.mem_filter.mp he0).1
    split at hid
    · rcases List.mem_append.mp hid with h | h
      · exact ⟨e0, hm, h⟩
      · exact refsGet_listed acc k id h
    · exact ⟨e0, hm, hid⟩
  · rcases List.mem_append.mp he with h | h
    · exact ⟨e, (List.mem_filter.mp h).1, hid⟩
    · rw [List.mem_singleton] at h
      subst h
      exact refsGet_listed acc k id hid

section exact
variable (S : Spec)

/-- **in a model with an exact reverse reference map and unique ids, no listed referrer has empty content** (it is a
reference element holding its key as its one text) -/
theorem listed_not_empty {rs : List (Bytes × List Nat)} {t : Items} (hx : RefsExact S rs t) (hn : t.ids.Nodup) (id : Nat)
    (hl : Listed rs id) : emptyAt id t = false := by
  obtain ⟨e, he, hid⟩ := hl
  have hm := exact_mem_of_listed S hx e he id hid
  obtain ⟨h, k, ho, hmem⟩ := (refEntries_mem_iff S t e.1 id).mp hm
  obtain ⟨hhid, _, hcd⟩ := (mem_refOf_iff S h k e.1 id).mp hmem
  have hk := charData_some_shape S h k _ hcd
  cases hb : emptyAt id t with
  | false => rfl
  | true =>
    obtain ⟨h', hid', ho'⟩ := (emptyAt_iff id t).mp hb
    obtain ⟨_, hkk⟩ := occ_unique t hn h h' k .nil ho ho' (hhid.trans hid'.symm)
    rw [hk] at hkk
    cases hkk

end exact

/-- what the loop keeps: the accumulated map lists only ids that the original map `rs` lists, and no id that `rs` lists has
empty content in the accumulated tree -/
def PanicInv (rs : List (Bytes × List Nat)) (acc : List (Bytes × List Nat) × Items) : Prop :=
  (∀ id, Listed acc.1 id → Listed rs id) ∧ ∀ id, Listed rs id → emptyAt id acc.2 = false

theorem not_emptyAt_setRefTexts (l : List Nat) (txt : Bytes) (id : Nat) (its : Items) (h : emptyAt id its = false) :
    emptyAt id (setRefTexts its l txt) = false := by
  cases hb : emptyAt id (setRefTexts its l txt) with
  | false => rfl
  | true => rw [emptyAt_setRefTexts l txt id its hb] at h; cases h

theorem renStep_panicInv (old new : Bytes) (rs : List (Bytes × List Nat))
    (acc : List (Bytes × List Nat) × Items) (e : Bytes × List Nat) (h : PanicInv rs acc) :
    PanicInv rs (renStep old new acc e) := by
  unfold renStep
  split
  · split
    · exact ⟨fun id hl => h.1 id (moveKey_listed _ _ _ id hl), fun id hl => not_emptyAt_setRefTexts _ _ id _ (h.2 id hl)⟩
    · exact h
  · exact h

/-- under the invariant the list handed to `setRefTexts` holds no element with empty content -/
theorem panicInv_cur (rs : List (Bytes × List Nat)) (acc : List (Bytes × List Nat) × Items) (q : Bytes) (h : PanicInv rs acc) :
    ¬ setRefTextsPanics acc.2 (refsGet acc.1 q) := by
  rintro ⟨id, hid, hem⟩
  have h1 := h.2 id (h.1 id (refsGet_listed acc.1 q id hid))
  rw [hem] at h1
  cases h1

theorem panicInv_no_step (old : Bytes) (rs : List (Bytes × List Nat))
    (acc : List (Bytes × List Nat) × Items) (e : Bytes × List Nat) (h : PanicInv rs acc) : ¬ renStepPanics old acc e := by
  unfold renStepPanics
  split
  · rintro ⟨_, hp⟩
    exact panicInv_cur rs acc e.1 h hp
  · exact fun h => h

theorem panicInv_no_panic (old new : Bytes) (rs : List (Bytes × List Nat)) (l : List (Bytes × List Nat)) :
    ∀ acc : List (Bytes × List Nat) × Items, PanicInv rs acc → ¬ renameRefsPanicsFrom old new acc l := by
  induction l with
  | nil => intro acc _ h; exact h
  | cons e l ih =>
    intro acc hinv h
    rcases h with h | h
    · exact panicInv_no_step old rs acc e hinv h
    · exact ih _ (renStep_panicInv old new rs acc e hinv) h

/-- the loop never meets the panic site when no listed id has empty content in the tree it starts from -/
theorem renameRefs_never_panics' (rs : List (Bytes × List Nat)) (root1 : Items)
    (h1 : ∀ id, Listed rs id → emptyAt id root1 = false) (old new : Bytes) : ¬ renameRefsPanics rs root1 old new :=
  panicInv_no_panic old new rs rs (rs, root1) ⟨fun _ h => h, h1⟩

/-- **the loop of `set_item_name` never meets the panic site** when it starts from the exact map `rs` of a tree `t` with
unique ids and a tree `root1` that has no empty node that `t` has not (whatever `old` and `new` are) -/
theorem renameRefs_never_panics (S : Spec) {rs : List (Bytes × List Nat)} {t : Items} (hx : RefsExact S rs t)
    (hn : t.ids.Nodup) (root1 : Items) (h1 : ∀ id, emptyAt id root1 = true → emptyAt id t = true) (old new : Bytes) :
    ¬ renameRefsPanics rs root1 old new := by
  apply renameRefs_never_panics'
  intro id hl
  cases hb : emptyAt id root1 with
  | false => rfl
  | true => have h2 := h1 id hb; rw [listed_not_empty S hx hn id hl] at h2; cases h2

/-! ### `set_item_name` -/

section rename
variable (S : Spec) (V : Env) (vOk : Nat)

/-- **the panic site in `opRename S V w x newName`**: the branch structure of `opRename` copied, with `False` wherever the
operation returns without running the reference rewriting loop and `renameRefsPanics` of the arguments of the loop where it
runs it -/
def RenamePanics (w : World) (x : Nat) (newName : Bytes) : Prop :=
  if newName.isEmpty then False
  else match locate w x with
  | none => False
  | some (k, c) =>
    let m := w.models[k]!
    let (h, kids) := lastOf c
    match minVersion V m c with
    | none => False
    | some ver =>
      match itemName S h kids with
      | none => False
      | some cur =>
        if cur = newName then False
        else
          let oldPath := pathOfChain S c
          let newPath := oldPath.take (oldPath.length - cur.length) ++ newName
          if (m.lookup newPath).isSome then False
          else match kids with
            | .elem sh _ _ =>
              if sh.name = S.nmShortName then
                let okv := (S.mode sh.ety.typ = .characters) &&
                  match S.chardataSpec sh.ety.typ with
                  | some sp => checkValue V (.str newName) sp ver
                  | none => false
                -- `if ¬ okv then (w, .err) else` the loop runs
                okv = true ∧
                  let root1 := m.rootItems.modify sh.id fun h0 _ => (h0, .text (.str newName) .nil)
                  renameRefsPanics m.refs root1 oldPath newPath
              else False
            | _ => False

/-- whenever `opRename` runs the loop, it runs it on the map of a model of the world and on the tree of that model with one
SHORT-NAME text replaced -/
theorem RenamePanics.loop {w : World} {x : Nat} {nm : Bytes} (h : RenamePanics S V w x nm) :
    ∃ k c t old new, locate w x = some (k, c) ∧
      renameRefsPanics (w.models[k]!).refs ((w.models[k]!).rootItems.modify t fun h0 _ => (h0, .text (.str nm) .nil)) old new := by
  unfold RenamePanics at h
  split at h
  · exact h.elim
  · split at h
    · exact h.elim
    · rename_i k c hloc
      dsimp only at h
      split at h
      · exact h.elim
      · split at h
        · exact h.elim
        · split at h
          · exact h.elim
          · split at h
            · exact h.elim
            · split at h
              · split at h
                · exact ⟨k, c, _, _, _, hloc, h.2⟩
                · exact h.elim
              · exact h.elim

/-- the predicate sits exactly on the state-changing branch of `opRename`: where it holds, `opRename` runs the loop on these
very arguments (and answers `ok` with the model `renModel`) -/
theorem RenamePanics.runs_loop {w : World} {x : Nat} {nm : Bytes} : RenamePanics S V w x nm →
    ∃ k c sh, locate w x = some (k, c) ∧
      opRename S V w x nm = (setModel w k (renModel S (w.models[k]!) c sh nm), .ok "") ∧
      renameRefsPanics (w.models[k]!).refs ((w.models[k]!).rootItems.modify sh.id fun h0 _ => (h0, .text (.str nm) .nil))
        (pathOfChain S c) (renNew S c nm) := by
  unfold RenamePanics opRename
  split
  · exact fun h => h.elim
  · split
    · exact fun h => h.elim
    · rename_i k c hloc
      dsimp only
      split
      · exact fun h => h.elim
      · rename_i ver hver
        split
        · exact fun h => h.elim
        · rename_i cur hcur
          split
          · exact fun h => h.elim
          · rename_i hne
            split
            · exact fun h => h.elim
            · rename_i hlook
              split
              · rename_i sh sk rest hk
                split
                · rename_i hsn
                  rintro ⟨hok, hp⟩
                  refine ⟨k, c, sh, hloc, ?_, ?_⟩
                  · rw [hloc]; dsimp only
                    rw [hver]; dsimp only
                    rw [hcur]; dsimp only
                    rw [if_neg hne, if_neg hlook, hk]; dsimp only
                    rw [if_pos hsn, if_neg (fun hnot => hnot hok)]
                    unfold renModel renNew
                    rw [hcur]
                    rfl
                  · unfold renNew
                    rw [hcur]
                    exact hp
                · exact fun h => h.elim
              · exact fun h => h.elim

/-- replacing the content of a node by one text creates no empty node -/
theorem emptyAt_retext (t : Nat) (nm : Bytes) (id : Nat) (its : Items) :
    emptyAt id (its.modify t fun h0 _ => (h0, .text (.str nm) .nil)) = true → emptyAt id its = true := by
  apply emptyAt_modify t _ (fun h k => rfl)
  · intro h k hn; simp [Items.isNil] at hn
  · intro h k id hn; simp [emptyAt] at hn

/-- **(a) `set_item_name` never executes `content[0] = …` on an empty content list**: in a world with the invariant `GInv`
(in fact: unique ids and an exact reverse reference map in every model), for every element handle and every new name -/
theorem opRename_never_indexes_empty (w : World) (hg : GInv S vOk w) (x : Nat) (nm : Bytes) : ¬ RenamePanics S V w x nm := by
  intro h
  obtain ⟨k, c, t, old, new, hloc, hp⟩ := RenamePanics.loop S V h
  have hmem := locate_mem_models w x k c hloc
  obtain ⟨_, ⟨⟨hw, hr, _, _⟩, _⟩, _⟩ := hg
  exact renameRefs_never_panics S (hr _ hmem) (hw _ hmem).ids _ (fun id => emptyAt_retext t nm id _) old new hp

end rename

/-! ## (c) `opMove`: the position of the moved element in its parent's content (`position(..).unwrap()`) -/

/-- a chain of length one leads to a top-level element of the forest -/
theorem chain_single_childPos (t : Nat) (a : Hdr × Items) (k : Items) : ∀ j : Nat, k.chain t = some [a] →
    ∃ i, k.childPos t j = some i := by
  induction k with
  | nil => intro j h; simp [Items.chain] at h
  | text _ r ih => intro j h; simp only [Items.chain] at h; simp only [Items.childPos]; exact ih (j + 1) h
  | elem hd kk r _ ihr =>
    intro j h
    simp only [Items.childPos]
    by_cases he : hd.id = t
    · rw [if_pos he]; exact ⟨j, rfl⟩
    · rw [if_neg he]
      simp only [Items.chain, if_neg he] at h
      split at h
      · rename_i c' hk
        have hne := chain_ne_nil t kk c' hk
        simp only [Option.some.injEq, List.cons.injEq] at h
        exact absurd h.2 hne
      · exact ihr (j + 1) h

/-- the last but one node of a chain holds the node the chain leads to among its content items -/
theorem chain_parent_childPos (t : Nat) (its : Items) : ∀ (c : List (Hdr × Items)) (sph : Hdr) (spk : Items),
    its.chain t = some c → c.dropLast.getLast? = some (sph, spk) → ∃ i, spk.childPos t 0 = some i := by
  induction its with
  | nil => intro c sph spk h; simp [Items.chain] at h
  | text _ r ih => intro c sph spk h; simp only [Items.chain] at h; exact ih c sph spk h
  | elem hd k r ihk ihr =>
    intro c sph spk h hp
    simp only [Items.chain] at h
    split at h
    · simp only [Option.some.injEq] at h; subst h
      simp at hp
    · split at h
      · rename_i c' hk
        simp only [Option.some.injEq] at h; subst h
        have hne := chain_ne_nil t k c' hk
        rw [dropLast_cons_ne _ _ hne] at hp
        by_cases hd0 : c'.dropLast = []
        · rw [hd0] at hp
          simp only [List.getLast?_singleton, Option.some.injEq, Prod.mk.injEq] at hp
          obtain ⟨_, rfl⟩ := hp
          cases c' with
          | nil => exact absurd rfl hne
          | cons a as =>
            cases as with
            | nil => exact chain_single_childPos t a k 0 hk
            | cons b bs => simp at hd0
        · rw [getLast?_cons_ne _ _ hd0] at hp
          exact ihk c' sph spk hk hp
      · exact ihr c sph spk h hp

/-- **the panic site of `opMove`**: `x` is located with the parent `(sph, spk)` (the last but one node of its chain), and
`spk.childPos x 0` — the `position(..)` of the element among the content items of its parent — is `none` (Rust: `unwrap()` on
`None`) -/
def MoveUnwrapFails (w : World) (x : Nat) : Prop :=
  ∃ kx cx sph spk, locate w x = some (kx, cx) ∧ cx.dropLast.getLast? = some (sph, spk) ∧ spk.childPos x 0 = none

/-- (c) the parent's content contains the child: in EVERY world (the fact is structural: the chain was found by descending
through that very content list) -/
theorem locate_parent_childPos (w : World) (x kx : Nat) (cx : List (Hdr × Items)) (sph : Hdr) (spk : Items)
    (h : locate w x = some (kx, cx)) (hp : cx.dropLast.getLast? = some (sph, spk)) : ∃ i, spk.childPos x 0 = some i := by
  obtain ⟨m, _, _, _, hc⟩ := locate_chain w x kx cx h
  exact chain_parent_childPos x m.rootItems cx sph spk hc hp

theorem opMove_unwrap_never_fails (w : World) (x : Nat) : ¬ MoveUnwrapFails w x := by
  rintro ⟨kx, cx, sph, spk, h, hp, hn⟩
  obtain ⟨i, hi⟩ := locate_parent_childPos w x kx cx sph spk h hp
  rw [hn] at hi; cases hi

/-- the other lookup of `opMove` (a move within the same parent, `pkids.childPos x 0`, where the model answers `err`): with
unique ids the destination `p` IS the parent found in the chain of `x`, so this lookup succeeds too -/
theorem opMove_same_parent_childPos (w : World) (hn : WIds w) (p x k : Nat) (cx cp : List (Hdr × Items)) (sph : Hdr) (spk : Items)
    (hx : locate w x = some (k, cx)) (hpl : locate w p = some (k, cp)) (hp : cx.dropLast.getLast? = some (sph, spk))
    (hid : sph.id = p) : ∃ i, (lastOf cp).2.childPos x 0 = some i := by
  obtain ⟨m, hm1, _, hmem, hc⟩ := locate_chain w x k cx hx
  obtain ⟨m', hm1', _, _, hc'⟩ := locate_chain w p k cp hpl
  rw [hm1] at hm1'; cases hm1'
  have hnd := hn m hmem
  obtain ⟨i, hi⟩ := chain_parent_childPos x m.rootItems cx sph spk hc hp
  obtain ⟨ho', hid'⟩ := chain_occ p m.rootItems cp hc'
  rcases chain_parent x m.rootItems cx hc hnd with ⟨hd0, _⟩ | ⟨ph, pk, hgl, ho, _, _⟩
  · rw [hd0] at hp; cases hp
  · rw [hp] at hgl; cases hgl
    obtain ⟨_, hkk⟩ := occ_unique m.rootItems hnd _ _ _ _ ho ho' (hid.trans hid'.symm)
    rw [← hkk]; exact ⟨i, hi⟩

/-! ## (d) `lastOf`, (e) `w.models[k]!` -/

/-- (d) a chain returned by `locate` is never empty, so `lastOf` never takes its default; the last header has the id asked for -/
theorem locate_lastOf (w : World) (x k : Nat) (c : List (Hdr × Items)) (h : locate w x = some (k, c)) :
    c ≠ [] ∧ c.getLast? = some (lastOf c) ∧ (lastOf c).1.id = x := by
  obtain ⟨m, _, _, _, hc⟩ := locate_chain w x k c h
  obtain ⟨h0, k0, hl, _⟩ := chain_last x m.rootItems c hc
  refine ⟨chain_ne_nil x m.rootItems c hc, ?_, (chain_occ x m.rootItems c hc).2⟩
  rw [lastOf_of_getLast? c _ hl]; exact hl

/-- (e) the model index returned by `locate` is in range: `w.models[k]!` does not panic -/
theorem locate_index_in_range (w : World) (x k : Nat) (c : List (Hdr × Items)) (h : locate w x = some (k, c)) :
    k < w.models.length ∧ w.models[k]? = some (w.models[k]!) := by
  obtain ⟨m, hm1, hm2, _, _⟩ := locate_chain w x k c h
  refine ⟨?_, by rw [hm2]; exact hm1⟩
  obtain ⟨hlt, _⟩ := List.getElem?_eq_some_iff.mp hm1
  exact hlt

/-! ## (b) the depth-first iterators never index `position` out of range -/

/-- `next_sibling` keeps the form of the state — from ANY good state (`DfsGood.tail` without its side condition) -/
theorem DfsGood.tail' {it : DfsIt} (hg : DfsGood it) :
    DfsGood { it with elements := it.elements.tail, position := it.position.tail } := by
  rcases hg with ⟨fs, h⟩ | ⟨c, fs, h⟩
  · rw [h]
    cases fs with
    | nil => exact Or.inl ⟨[], rfl⟩
    | cons x fs => exact Or.inl ⟨fs, rfl⟩
  · rw [h]
    cases fs with
    | nil => exact Or.inl ⟨[], rfl⟩
    | cons x fs => exact Or.inr ⟨x.1, fs, rfl⟩

/-- the loop of `next` (run with `fuel` iterations from `it`) meets `self.position[depth]` out of range -/
def DfsIt.nextMeetsOob : Nat → DfsIt → Prop
  | 0, _ => False
  | fuel + 1, it =>
    match it.step with
    | .oob => True
    | .go it' => DfsIt.nextMeetsOob fuel it'
    | _ => False

theorem DfsGood.next_never_oob (fuel : Nat) : ∀ it : DfsIt, DfsGood it → ¬ it.nextMeetsOob fuel := by
  induction fuel with
  | zero => intro it _ h; exact h
  | succ fuel ih =>
    intro it hg h
    unfold DfsIt.nextMeetsOob at h
    split at h
    · rename_i hs; exact hg.step_ne_oob hs
    · rename_i it' hs; exact ih it' (hg.step_go hs) h
    · exact h

/-- `next` leads from good states to good states, whatever the fuel -/
theorem DfsGood.next (fuel : Nat) : ∀ it : DfsIt, DfsGood it → DfsGood (it.next fuel).2 := by
  induction fuel with
  | zero => intro it hg; exact hg
  | succ fuel ih =>
    intro it hg
    unfold DfsIt.next
    split
    · rename_i hs; exact hg.step_out hs
    · rename_i it' hs; exact ih it' (hg.step_go hs)
    · exact hg
    · exact hg

theorem DfsGood.nextSibling (fuel : Nat) (it : DfsIt) (hg : DfsGood it) : DfsGood (it.nextSibling fuel).2 :=
  DfsGood.next fuel _ hg.tail'

/-- the states an iterator on the element `e` can be in: `new`, then any sequence of calls of `next` and `next_sibling` (with
any loop bounds) -/
inductive DfsReach (e : Hdr × Items) (max : Nat) : DfsIt → Prop
  | new : DfsReach e max (DfsIt.new e max)
  | next (fuel : Nat) {it : DfsIt} : DfsReach e max it → DfsReach e max (it.next fuel).2
  | nextSibling (fuel : Nat) {it : DfsIt} : DfsReach e max it → DfsReach e max (it.nextSibling fuel).2

/-- **every state reached from `DfsIt.new` by `next` / `next_sibling` is `DfsGood`** -/
theorem DfsReach.good {e : Hdr × Items} {max : Nat} {it : DfsIt} (h : DfsReach e max it) : DfsGood it := by
  induction h with
  | new => exact DfsGood.new e max
  | next fuel _ ih => exact DfsGood.next fuel _ ih
  | nextSibling fuel _ ih => exact DfsGood.nextSibling fuel _ ih

/-- … so one more iteration of the loop does not index out of range … -/
theorem DfsReach.step_ne_oob {e : Hdr × Items} {max : Nat} {it : DfsIt} (h : DfsReach e max it) : it.step ≠ .oob :=
  h.good.step_ne_oob

/-- … and neither does a whole call of `next` or of `next_sibling` -/
theorem DfsReach.next_never_oob {e : Hdr × Items} {max : Nat} {it : DfsIt} (h : DfsReach e max it) (fuel : Nat) :
    ¬ it.nextMeetsOob fuel ∧
    ¬ DfsIt.nextMeetsOob fuel { it with elements := it.elements.tail, position := it.position.tail } :=
  ⟨h.good.next_never_oob fuel it, h.good.tail'.next_never_oob fuel _⟩

/-- draining (`DfsIt.drain`) meets the panic site in one of its calls of `next` -/
def DfsIt.drainMeetsOob (fuel : Nat) : Nat → DfsIt → Prop
  | 0, _ => False
  | calls + 1, it =>
    it.nextMeetsOob fuel ∨
    match DfsIt.next fuel it with
    | (some _, it') => DfsIt.drainMeetsOob fuel calls it'
    | (none, _) => False

theorem DfsGood.drain_never_oob (fuel : Nat) : ∀ (calls : Nat) (it : DfsIt), DfsGood it → ¬ it.drainMeetsOob fuel calls := by
  intro calls
  induction calls with
  | zero => intro it _ h; exact h
  | succ calls ih =>
    intro it hg h
    unfold DfsIt.drainMeetsOob at h
    rcases h with h | h
    · exact hg.next_never_oob fuel it h
    · split at h
      · rename_i it' hn
        have hg' := DfsGood.next fuel it hg
        rw [hn] at hg'
        exact ih it' hg' h
      · exact h

/-- the skipping loop of the file-scoped iterator (`fileNextLoop`) meets the panic site in one of its `next_sibling` calls -/
def fileLoopMeetsOob (f : Nat) (fuel : Nat) : Nat → Option (Nat × (Hdr × Items)) × DfsIt → Prop
  | 0, _ => False
  | _ + 1, (none, _) => False
  | g + 1, (some (_, e), it) =>
    if e.1.files.isEmpty || e.1.files.contains f then False
    else DfsIt.nextMeetsOob fuel { it with elements := it.elements.tail, position := it.position.tail } ∨
      fileLoopMeetsOob f fuel g (it.nextSibling fuel)

theorem fileLoop_never_oob (f fuel : Nat) : ∀ (g : Nat) (r : Option (Nat × (Hdr × Items)) × DfsIt), DfsGood r.2 →
    ¬ fileLoopMeetsOob f fuel g r ∧ DfsGood (fileNextLoop f fuel g r).2 := by
  intro g
  induction g with
  | zero => intro r hg; exact ⟨fun h => h, hg⟩
  | succ g ih =>
    intro r hg
    obtain ⟨o, it⟩ := r
    cases o with
    | none => exact ⟨fun h => h, hg⟩
    | some de =>
      obtain ⟨d, e⟩ := de
      unfold fileLoopMeetsOob fileNextLoop
      split
      · exact ⟨fun h => h, hg⟩
      · have hg2 : DfsGood (it.nextSibling fuel).2 := DfsGood.nextSibling fuel it hg
        obtain ⟨a, b⟩ := ih (it.nextSibling fuel) hg2
        refine ⟨?_, b⟩
        rintro (h | h)
        · exact DfsGood.next_never_oob fuel _ (DfsGood.tail' hg) h
        · exact a h

/-- `fileNext` meets the panic site -/
def fileNextMeetsOob (f fuel skips : Nat) (it : DfsIt) : Prop :=
  it.nextMeetsOob fuel ∨ fileLoopMeetsOob f fuel skips (it.next fuel)

/-- `fileDrain` meets the panic site in one of its calls of `fileNext` -/
def fileDrainMeetsOob (f fuel skips : Nat) : Nat → DfsIt → Prop
  | 0, _ => False
  | calls + 1, it =>
    fileNextMeetsOob f fuel skips it ∨
    match fileNext f fuel skips it with
    | (some _, it') => fileDrainMeetsOob f fuel skips calls it'
    | (none, _) => False

theorem DfsGood.fileDrain_never_oob (f fuel skips : Nat) : ∀ (calls : Nat) (it : DfsIt), DfsGood it →
    ¬ fileDrainMeetsOob f fuel skips calls it := by
  intro calls
  induction calls with
  | zero => intro it _ h; exact h
  | succ calls ih =>
    intro it hg h
    have hloop := fileLoop_never_oob f fuel skips (it.next fuel) (DfsGood.next fuel it hg)
    unfold fileDrainMeetsOob at h
    rcases h with (h | h) | h
    · exact hg.next_never_oob fuel it h
    · exact hloop.1 h
    · split at h
      · rename_i it' hn
        have hg' := hloop.2
        unfold fileNext at hn
        rw [hn] at hg'
        exact ih it' hg' h
      · exact h

/-- the iteration `dfsAll e max` (what `qDfs` runs) meets the panic site -/
def dfsAllMeetsOob (e : Hdr × Items) (maxDepth : Nat) : Prop :=
  let n := e.2.count + 2
  DfsIt.drainMeetsOob (3 * n) n (DfsIt.new e maxDepth)

/-- the iteration `dfsFileAll f e max` (what `qDfsFile` runs) meets the panic site -/
def dfsFileAllMeetsOob (f : Nat) (e : Hdr × Items) (maxDepth : Nat) : Prop :=
  let n := e.2.count + 2
  fileDrainMeetsOob f (3 * n) n n (DfsIt.new e maxDepth)

theorem dfsAll_never_oob (e : Hdr × Items) (maxDepth : Nat) : ¬ dfsAllMeetsOob e maxDepth :=
  DfsGood.drain_never_oob _ _ _ (DfsGood.new e maxDepth)

theorem dfsFileAll_never_oob (f : Nat) (e : Hdr × Items) (maxDepth : Nat) : ¬ dfsFileAllMeetsOob f e maxDepth :=
  DfsGood.fileDrain_never_oob f _ _ _ _ (DfsGood.new e maxDepth)

/-- **(b) the request `dfs e<x> <max>` never meets `.oob`**: whatever element (live or removed) of whatever world it is run on -/
theorem qDfs_never_oob (w : World) (x maxDepth : Nat) (e : Hdr × Items) (_h : hdrOf w x = some e) :
    ¬ dfsAllMeetsOob e maxDepth := dfsAll_never_oob e maxDepth

/-- **(b) the request `dfsf f<j> <max>` never meets `.oob`**: for the root element of every model of every world -/
theorem qDfsFile_never_oob (w : World) (f k maxDepth : Nat) :
    ¬ dfsFileAllMeetsOob f ((w.models[k]!).rootHdr, (w.models[k]!).rootKids) maxDepth := dfsFileAll_never_oob f _ maxDepth

/-! ## (a′) the reference rewriting loop of `move_element_here` never indexes an empty content list either -/

/-- an edit of one node that keeps ids; `E` collects the exceptions: the ids that may newly have empty content -/
theorem emptyAt_modify_gen (t : Nat) (f : Hdr → Items → Hdr × Items) (E : Nat → Prop) (hf1 : ∀ h k, (f h k).1.id = h.id)
    (hf2 : ∀ h k, h.id = t → (f h k).2.isNil = true → k.isNil = true ∨ E t)
    (hf3 : ∀ h k id, emptyAt id (f h k).2 = true → emptyAt id k = true ∨ E id) (id : Nat) (its : Items) :
    emptyAt id (its.modify t f) = true → emptyAt id its = true ∨ E id := by
  induction its with
  | nil => intro h; exact Or.inl h
  | text _ r ih => simp only [Items.modify, emptyAt]; exact ih
  | elem hd k r ihk ihr =>
    simp only [Items.modify]
    split
    · rename_i heq
      simp only [emptyAt, Bool.or_eq_true, Bool.and_eq_true, beq_iff_eq]
      rintro ((⟨h1, h2⟩ | h2) | h2)
      · have hid : hd.id = id := (hf1 hd k).symm.trans h1
        rcases hf2 hd k heq h2 with h3 | h3
        · exact Or.inl (Or.inl (Or.inl ⟨hid, h3⟩))
        · exact Or.inr (by rw [← hid, heq]; exact h3)
      · rcases hf3 hd k id h2 with h3 | h3
        · exact Or.inl (Or.inl (Or.inr h3))
        · exact Or.inr h3
      · rcases ihr h2 with h3 | h3
        · exact Or.inl (Or.inr h3)
        · exact Or.inr h3
    · simp only [emptyAt, Bool.or_eq_true, Bool.and_eq_true, beq_iff_eq]
      rintro ((⟨h1, h2⟩ | h2) | h2)
      · refine Or.inl (Or.inl (Or.inl ⟨h1, ?_⟩))
        cases k with
        | nil => rfl
        | text _ _ => simp [Items.modify, Items.isNil] at h2
        | elem h' _ _ =>
          simp only [Items.modify] at h2
          split at h2 <;> simp [Items.isNil] at h2
      · rcases ihk h2 with h3 | h3
        · exact Or.inl (Or.inl (Or.inr h3))
        · exact Or.inr h3
      · rcases ihr h2 with h3 | h3
        · exact Or.inl (Or.inr h3)
        · exact Or.inr h3

theorem emptyAt_removeAt (id : Nat) (k : Items) : ∀ i : Nat, emptyAt id (k.removeAt i) = true → emptyAt id k = true := by
  induction k with
  | nil => intro i h; exact h
  | text _ r ih =>
    intro i
    cases i with
    | zero => simp only [Items.removeAt, emptyAt]; exact fun h => h
    | succ q => simp only [Items.removeAt, emptyAt]; exact ih q
  | elem hd kk r _ ihr =>
    intro i
    cases i with
    | zero => simp only [Items.removeAt, emptyAt, Bool.or_eq_true]; exact fun h => Or.inr h
    | succ q =>
      simp only [Items.removeAt, emptyAt, Bool.or_eq_true]
      rintro (h | h)
      · exact Or.inl h
      · exact Or.inr (ihr q h)

theorem emptyAt_insertAt (id : Nat) (nh : Hdr) (nk : Items) (k : Items) : ∀ pos : Nat,
    emptyAt id (k.insertAt (fun r => .elem nh nk r) pos) = true → emptyAt id k = true ∨ emptyAt id (.elem nh nk .nil) = true := by
  have h0 : ∀ r : Items, emptyAt id (.elem nh nk r) = true → emptyAt id r = true ∨ emptyAt id (.elem nh nk .nil) = true := by
    intro r
    simp only [emptyAt, Bool.or_eq_true, Bool.or_false]
    rintro (h | h)
    · exact Or.inr h
    · exact Or.inl h
  induction k with
  | nil =>
    intro pos
    cases pos with
    | zero => exact h0 .nil
    | succ q => exact h0 .nil
  | text c r ih =>
    intro pos
    cases pos with
    | zero => exact h0 _
    | succ q => simp only [Items.insertAt, emptyAt]; exact ih q
  | elem hd kk r _ ihr =>
    intro pos
    cases pos with
    | zero => exact h0 _
    | succ q =>
      simp only [Items.insertAt]
      intro h
      simp only [emptyAt, Bool.or_eq_true] at h
      rcases h with h | h
      · left; simp only [emptyAt, Bool.or_eq_true]; exact Or.inl h
      · rcases ihr q h with h3 | h3
        · left; simp only [emptyAt, Bool.or_eq_true]; exact Or.inr h3
        · exact Or.inr h3

theorem insertAt_not_nil (nh : Hdr) (nk : Items) (k : Items) (pos : Nat) :
    (k.insertAt (fun r => .elem nh nk r) pos).isNil = false := by
  cases k <;> cases pos <;> rfl

theorem emptyAt_setShortName (id : Nat) (h h' : Hdr) (hid : h'.id = h.id) (k : Items) (nm : Bytes) :
    emptyAt id (.elem h' (setShortName k nm) .nil) = true → emptyAt id (.elem h k .nil) = true := by
  cases k with
  | nil => simp only [setShortName, emptyAt, hid]; exact fun h => h
  | text _ _ => simp only [setShortName, emptyAt, hid]; exact fun h => h
  | elem sh sk r =>
    simp only [setShortName, emptyAt, hid, Items.isNil, Bool.and_false, Bool.false_or, Bool.or_false, Bool.or_eq_true,
      Bool.and_eq_true, beq_iff_eq]
    exact fun h => Or.inr h

theorem emptyAt_of_occ (id : Nat) (h : Hdr) (k its : Items) (ho : Occ h k its) :
    emptyAt id (.elem h k .nil) = true → emptyAt id its = true := by
  intro he
  obtain ⟨h1, hid, ho1⟩ := (emptyAt_iff id _).mp he
  apply (emptyAt_iff id its).mpr
  rcases ho1 with ⟨rfl, rfl⟩ | ho1 | ho1
  · exact ⟨_, hid, ho⟩
  · exact ⟨h1, hid, Occ.trans ho ho1⟩
  · exact ho1.elim


/-- one step of the reference rewriting loop of `opMove` (the body of its fold, with the map update written as `moveKey`) -/
def mvStepN (srcPrefix destPath : Bytes) (acc : List (Bytes × List Nat) × Items) (op : Bytes × Nat) :
    List (Bytes × List Nat) × Items :=
  if srcPrefix.isPrefixOf op.1 ∧ acc.1.any (·.1 == op.1) then
    (moveKey acc.1 op.1 (destPath ++ op.1.drop srcPrefix.length),
      setRefTexts acc.2 (refsGet acc.1 op.1) (destPath ++ op.1.drop srcPrefix.length))
  else acc

/-- `mvStepN` IS the body of the fold in `opMove` -/
theorem mvStepN_eq (srcPrefix destPath : Bytes) :
    (fun (acc : List (Bytes × List Nat) × Items) (op : Bytes × Nat) =>
      if srcPrefix.isPrefixOf op.1 ∧ acc.1.any (·.1 == op.1) then
        let lst := refsGet acc.1 op.1
        let refstr := destPath ++ op.1.drop srcPrefix.length
        let rs1 := acc.1.filter (·.1 != op.1)
        let rs2 := if rs1.any (·.1 == refstr) then rs1.map fun e => if e.1 == refstr then (e.1, e.2 ++ lst) else e
          else rs1 ++ [(refstr, lst)]
        (rs2, setRefTexts acc.2 lst refstr)
      else acc) = mvStepN srcPrefix destPath := rfl

/-- one step of the loop of `opMove` meets the panic site of `setRefTexts` -/
def mvStepPanics (srcPrefix : Bytes) (acc : List (Bytes × List Nat) × Items) (op : Bytes × Nat) : Prop :=
  (srcPrefix.isPrefixOf op.1 ∧ acc.1.any (·.1 == op.1)) ∧ setRefTextsPanics acc.2 (refsGet acc.1 op.1)

instance (srcPrefix : Bytes) (acc : List (Bytes × List Nat) × Items) (op : Bytes × Nat) : Decidable (mvStepPanics srcPrefix acc op) := by
  unfold mvStepPanics; infer_instance

/-- the loop of `opMove` from the accumulator `acc` over the rest `l` of the original paths: some step meets the panic site -/
def moveRefsPanicsFrom (srcPrefix destPath : Bytes) : List (Bytes × List Nat) × Items → List (Bytes × Nat) → Prop
  | _, [] => False
  | acc, op :: l => mvStepPanics srcPrefix acc op ∨ moveRefsPanicsFrom srcPrefix destPath (mvStepN srcPrefix destPath acc op) l

instance decMoveRefsPanicsFrom (srcPrefix destPath : Bytes) : ∀ (acc : List (Bytes × List Nat) × Items) (l : List (Bytes × Nat)),
    Decidable (moveRefsPanicsFrom srcPrefix destPath acc l)
  | _, [] => isFalse (fun h => h)
  | acc, op :: l =>
    have := decMoveRefsPanicsFrom srcPrefix destPath (mvStepN srcPrefix destPath acc op) l
    inferInstanceAs (Decidable (mvStepPanics srcPrefix acc op ∨
      moveRefsPanicsFrom srcPrefix destPath (mvStepN srcPrefix destPath acc op) l))

theorem mvStep_panicInv (srcPrefix destPath : Bytes) (rs : List (Bytes × List Nat))
    (acc : List (Bytes × List Nat) × Items) (op : Bytes × Nat) (h : PanicInv rs acc) :
    PanicInv rs (mvStepN srcPrefix destPath acc op) := by
  unfold mvStepN
  split
  · exact ⟨fun id hl => h.1 id (moveKey_listed _ _ _ id hl), fun id hl => not_emptyAt_setRefTexts _ _ id _ (h.2 id hl)⟩
  · exact h

/-- the loop of `opMove` never meets the panic site when no listed id has empty content in the tree it starts from -/
theorem moveRefs_never_panics (srcPrefix destPath : Bytes) (rs : List (Bytes × List Nat)) (l : List (Bytes × Nat)) :
    ∀ acc : List (Bytes × List Nat) × Items, PanicInv rs acc → ¬ moveRefsPanicsFrom srcPrefix destPath acc l := by
  induction l with
  | nil => intro acc _ h; exact h
  | cons op l ih =>
    intro acc hinv h
    rcases h with h | h
    · exact panicInv_cur rs acc op.1 hinv h.2
    · exact ih _ (mvStep_panicInv srcPrefix destPath rs acc op hinv) h

section moveTree
variable (S : Spec)

/-- the tree `opMove` hands to its loop: `x` taken out of its parent `sph` and put (with the content `xk1`, which is its old
content, possibly with a new SHORT-NAME text) into `p`.  No listed referrer has empty content there: the only element that
can have lost its last content item is the old parent, which is not a reference element. -/
theorem move_tree_listed_not_empty {rs : List (Bytes × List Nat)} {t : Items} (hx : RefsExact S rs t) (hn : t.ids.Nodup)
    (x p : Nat) (cx : List (Hdr × Items)) (sph : Hdr) (spk : Items) (hc : t.chain x = some cx)
    (hp : cx.dropLast.getLast? = some (sph, spk)) (xh1 : Hdr) (hid1 : xh1.id = (lastOf cx).1.id) (xk1 : Items)
    (hk1 : xk1 = (lastOf cx).2 ∨ ∃ nm, xk1 = setShortName (lastOf cx).2 nm) (pos : Nat) (id : Nat) (hl : Listed rs id) :
    emptyAt id ((match spk.childPos x 0 with
        | some i => t.modify sph.id fun h0 k0 => (h0, k0.removeAt i)
        | none => t).modify p fun h0 k0 => (h0, k0.insertAt (fun r => .elem xh1 xk1 r) pos)) = false := by
  have hgood := listed_not_empty S hx hn id hl
  -- the listed id is a reference leaf, so it is not the old parent
  have hne : id ≠ sph.id := by
    intro e
    obtain ⟨en, hen, hidn⟩ := hl
    have hm := exact_mem_of_listed S hx en hen id hidn
    obtain ⟨h, k, ho, hmem⟩ := (refEntries_mem_iff S t en.1 id).mp hm
    obtain ⟨hhid, _, hcd⟩ := (mem_refOf_iff S h k en.1 id).mp hmem
    have hk := charData_some_shape S h k _ hcd
    rcases chain_parent x t cx hc hn with ⟨hd0, _⟩ | ⟨ph, pk, hgl, hop, _, _⟩
    · rw [hd0] at hp; cases hp
    · rw [hp] at hgl; cases hgl
      obtain ⟨_, hkk⟩ := occ_unique t hn _ _ _ _ ho hop (hhid.trans e)
      obtain ⟨i, hi⟩ := chain_parent_childPos x t cx sph spk hc hp
      rw [← hkk, hk] at hi
      simp [Items.childPos] at hi
  cases hb : emptyAt id _ with
  | false => rfl
  | true =>
    exfalso
    have h2 := emptyAt_modify_gen p _ (fun id => emptyAt id (.elem xh1 xk1 .nil) = true) (fun _ _ => rfl)
      (fun h k _ hnil => by rw [insertAt_not_nil] at hnil; cases hnil)
      (fun h k id he => emptyAt_insertAt id xh1 xk1 k pos he) id _ hb
    have hocc := (chain_occ x t cx hc).1
    rcases h2 with h2 | h2
    · -- the node was empty after the removal already
      have h3 : emptyAt id t = true ∨ id = sph.id := by
        split at h2
        · exact emptyAt_modify_gen sph.id _ (fun id => id = sph.id) (fun _ _ => rfl) (fun _ _ _ _ => Or.inr rfl)
            (fun h k id he => Or.inl (emptyAt_removeAt id k _ he)) id t h2
        · exact Or.inl h2
      rcases h3 with h3 | h3
      · rw [hgood] at h3; cases h3
      · exact hne h3
    · -- the node is the moved element or lies inside it
      have h3 : emptyAt id (.elem (lastOf cx).1 (lastOf cx).2 .nil) = true := by
        rcases hk1 with rfl | ⟨nm, rfl⟩
        · simp only [emptyAt, hid1] at h2 ⊢; exact h2
        · exact emptyAt_setShortName id _ xh1 hid1 _ nm h2
      have h4 := emptyAt_of_occ id _ _ t hocc h3
      rw [hgood] at h4; cases h4

end moveTree


section move
variable (S : Spec) (V : Env) (vOk : Nat)

/-- **the panic site of `setRefTexts` in `opMove S V w p x pos?`**: the branch structure of `opMove` copied, with `False`
wherever the operation returns without running its reference rewriting loop and `moveRefsPanicsFrom` of the arguments of the
loop where it runs it -/
def MovePanics (w : World) (p x : Nat) (pos? : Option Nat) : Prop :=
  if p = x then False
  else match locate w x, locate w p with
  | some (kx, cx), some (kp, cp) =>
    let m := w.models[kp]!
    let mx := w.models[kx]!
    match minVersion V mx cx, minVersion V m cp with
    | some vx, some ver =>
      if vx ≠ ver then False
      else
        let (ph, pkids) := lastOf cp
        let (xh, xkids) := lastOf cx
        match insertRange S ph pkids xh.name ver with
        | none => False
        | some (lo, hi) =>
          let pos := pos?.getD hi
          if ¬ (lo ≤ pos ∧ pos ≤ hi) then False
          else if kx ≠ kp then False
          else match cx.dropLast.getLast? with
            | none => False
            | some (sph, spk) =>
              if sph.id = p then False
              else if (cp.any fun (h, _) => h.id = x) then False
              else
                let srcPrefix := pathOfChain S cx
                let destPrefix := pathOfChain S cp
                let origPaths := subtreePaths S (xkids.size + 2) xh xkids (namesOfChain S cx.dropLast)
                let root1 := match spk.childPos x 0 with
                  | some i => m.rootItems.modify sph.id fun h0 k0 => (h0, k0.removeAt i)
                  | none => m.rootItems
                let xh1 := { xh with parent := .elem p, files := [] }
                let (xk1, destPath, nameFail) :=
                  if isIdentifiable S xh xkids then
                    match itemName S xh xkids with
                    | some orig =>
                      let (nm, cnt) := uniqueName m.index destPrefix orig (m.index.length + 2) 0
                      ((if cnt > 0 then setShortName xkids nm else xkids), destPrefix ++ [47] ++ nm, false)
                    | none => (xkids, destPrefix, true)
                  else (xkids, destPrefix, false)
                -- `if nameFail then (…, .err) else` the loop runs
                nameFail = false ∧
                  let root2 := root1.modify p fun h0 k0 => (h0, k0.insertAt (fun r => .elem xh1 xk1 r) pos)
                  moveRefsPanicsFrom srcPrefix destPath (m.refs, root2) origPaths
    | _, _ => False
  | _, _ => False

/-- whenever `opMove` runs the loop, it runs it on the map of the model of `x` and on the tree of that model with `x` moved -/
theorem MovePanics.loop {w : World} {p x : Nat} {pos? : Option Nat} (h : MovePanics S V w p x pos?) :
    ∃ k cx sph spk xh1 xk1 pos src dest paths, locate w x = some (k, cx) ∧ cx.dropLast.getLast? = some (sph, spk) ∧
      xh1.id = (lastOf cx).1.id ∧ (xk1 = (lastOf cx).2 ∨ ∃ nm, xk1 = setShortName (lastOf cx).2 nm) ∧
      moveRefsPanicsFrom src dest ((w.models[k]!).refs,
        (match spk.childPos x 0 with
          | some i => (w.models[k]!).rootItems.modify sph.id fun h0 k0 => (h0, k0.removeAt i)
          | none => (w.models[k]!).rootItems).modify p fun h0 k0 => (h0, k0.insertAt (fun r => .elem xh1 xk1 r) pos)) paths := by
  unfold MovePanics at h
  split at h
  · exact h.elim
  · split at h
    · rename_i kx cx kp cp hlx hlp
      dsimp only at h
      split at h
      · split at h
        · exact h.elim
        · split at h
          · exact h.elim
          · split at h
            · exact h.elim
            · split at h
              · exact h.elim
              · rename_i hk
                have hk' : kx = kp := Decidable.of_not_not hk
                subst hk'
                split at h
                · exact h.elim
                · rename_i sph spk hpar
                  split at h
                  · exact h.elim
                  · split at h
                    · exact h.elim
                    · refine ⟨kx, cx, sph, spk, _, _, _, _, _, _, hlx, hpar, ?_, ?_, h.2⟩
                      · rfl
                      split
                      · split
                        · split
                          · exact Or.inr ⟨_, rfl⟩
                          · exact Or.inl rfl
                        · exact Or.inl rfl
                      · exact Or.inl rfl
      · exact h.elim
    · exact h.elim

/-- **`move_element_here` never executes `content[0] = …` on an empty content list** in a world with the invariant `GInv` -/
theorem opMove_never_indexes_empty (w : World) (hg : GInv S vOk w) (p x : Nat) (pos? : Option Nat) :
    ¬ MovePanics S V w p x pos? := by
  intro h
  obtain ⟨k, cx, sph, spk, xh1, xk1, pos, src, dest, paths, hloc, hpar, hid1, hk1, hp⟩ := MovePanics.loop S V h
  obtain ⟨m, _, hm2, hmem, hc⟩ := locate_chain w x k cx hloc
  rw [hm2] at hp
  obtain ⟨_, ⟨⟨hw, hr, _, _⟩, _⟩, _⟩ := hg
  exact moveRefs_never_panics src dest m.refs paths _
    ⟨fun _ h => h, fun id hl => move_tree_listed_not_empty S (hr m hmem) (hw m hmem).ids x p cx sph spk hc hpar xh1 hid1 xk1 hk1
      pos id hl⟩ hp


/-- the predicate sits exactly on the branch of `opMove` that runs the loop: where it holds, `opMove` answers `ok` with the
result of the fold of `mvStepN` over these very arguments -/
theorem MovePanics.runs_loop {w : World} {p x : Nat} {pos? : Option Nat} : MovePanics S V w p x pos? →
    ∃ k src dest root2 paths idx1, moveRefsPanicsFrom src dest ((w.models[k]!).refs, root2) paths ∧
      opMove S V w p x pos? =
        (setModel w k { (w.models[k]!).setRoot (paths.foldl (mvStepN src dest) ((w.models[k]!).refs, root2)).2 with
          index := idx1, refs := (paths.foldl (mvStepN src dest) ((w.models[k]!).refs, root2)).1 }, .ok "") := by
  unfold MovePanics opMove
  by_cases hpx : p = x
  · rw [if_pos hpx]; exact fun h => h.elim
  · rw [if_neg hpx, if_neg hpx]
    cases hlx : locate w x with
    | none => exact fun h => h.elim
    | some a =>
      obtain ⟨kx, cx⟩ := a
      cases hlp : locate w p with
      | none => exact fun h => h.elim
      | some b =>
        obtain ⟨kp, cp⟩ := b
        dsimp only
        cases hvx : minVersion V (w.models[kx]!) cx with
        | none => exact fun h => h.elim
        | some vx =>
          cases hver : minVersion V (w.models[kp]!) cp with
          | none => exact fun h => h.elim
          | some ver =>
            dsimp only
            by_cases hvv : vx ≠ ver
            · rw [if_pos hvv]; exact fun h => h.elim
            · rw [if_neg hvv, if_neg hvv]
              cases hins : insertRange S (lastOf cp).1 (lastOf cp).2 (lastOf cx).1.name ver with
              | none => exact fun h => h.elim
              | some lh =>
                obtain ⟨lo, hi⟩ := lh
                dsimp only
                by_cases hrange : ¬ (lo ≤ pos?.getD hi ∧ pos?.getD hi ≤ hi)
                · rw [if_pos hrange]; exact fun h => h.elim
                · rw [if_neg hrange, if_neg hrange]
                  by_cases hk : kx ≠ kp
                  · rw [if_pos hk]; exact fun h => h.elim
                  · rw [if_neg hk, if_neg hk]
                    cases hpar : cx.dropLast.getLast? with
                    | none => exact fun h => h.elim
                    | some sp =>
                      obtain ⟨sph, spk⟩ := sp
                      dsimp only
                      by_cases hsp : sph.id = p
                      · rw [if_pos hsp]; exact fun h => h.elim
                      · rw [if_neg hsp, if_neg hsp]
                        by_cases hany : (cp.any fun (h, _) => h.id = x) = true
                        · rw [if_pos hany]; exact fun h => h.elim
                        · rw [if_neg hany, if_neg hany]
                          rintro ⟨hnf, hp⟩
                          refine ⟨kp, _, _, _, _, ?idx, hp, ?eq⟩
                          case eq =>
                            refine (if_neg (fun hc => Bool.noConfusion (hnf.symm.trans hc))).trans ?_
                            rfl

end move

/-! ## summary over all reachable states -/

section summary
variable (S : Spec) (V : Env) (vOk : Nat) (rootAttrs : List (Nat × CDv))

/-- **C12, modelled panic sites**: in every state reachable by a guarded history of the larger alphabet, for arbitrary
arguments of the next request:
(a) `set_item_name` never executes `content[0] = …` on an empty content list, and neither does `move_element_here`;
(c) `move_element_here` finds the moved element among the content items of its parent (both lookups);
(d) the chain of a located element is not empty (`lastOf` never takes its default) and ends in the element asked for;
(e) the model index of a located element is in range (`w.models[k]!`). -/
theorem runX_no_modelled_panic (hH : IdxHyp S V vOk) (hR : RefWF S) (hv32 : vOk &&& 0xFFFFFFFF = vOk) (ops : List OpX)
    (hops : ∀ op ∈ ops, OpXOk S vOk op) :
    (∀ x nm, ¬ RenamePanics S V (runX S V rootAttrs ops) x nm) ∧
    (∀ p x pos?, ¬ MovePanics S V (runX S V rootAttrs ops) p x pos?) ∧
    (∀ x, ¬ MoveUnwrapFails (runX S V rootAttrs ops) x) ∧
    (∀ p x k cx cp sph spk, locate (runX S V rootAttrs ops) x = some (k, cx) → locate (runX S V rootAttrs ops) p = some (k, cp) →
      cx.dropLast.getLast? = some (sph, spk) → sph.id = p → ∃ i, (lastOf cp).2.childPos x 0 = some i) ∧
    (∀ x k c, locate (runX S V rootAttrs ops) x = some (k, c) →
      c ≠ [] ∧ c.getLast? = some (lastOf c) ∧ (lastOf c).1.id = x ∧
      k < (runX S V rootAttrs ops).models.length ∧
      (runX S V rootAttrs ops).models[k]? = some ((runX S V rootAttrs ops).models[k]!)) := by
  have hg := runX_ginv S V vOk rootAttrs hH hR hv32 ops hops
  refine ⟨fun x nm => opRename_never_indexes_empty S V vOk _ hg x nm,
    fun p x pos? => opMove_never_indexes_empty S V vOk _ hg p x pos?, fun x => opMove_unwrap_never_fails _ x, ?_, ?_⟩
  · intro p x k cx cp sph spk h1 h2 h3 h4
    exact opMove_same_parent_childPos _ (WIds.of_winv S vOk hg.2.1.1.1) p x k cx cp sph spk h1 h2 h3 h4
  · intro x k c h
    obtain ⟨a, b, c'⟩ := locate_lastOf _ x k c h
    obtain ⟨d, e⟩ := locate_index_in_range _ x k c h
    exact ⟨a, b, c', d, e⟩

end summary

/-! ## non-vacuity: the sites are real, and what excludes them is needed -/

namespace NoPanicEx

def hdr (id : Nat) : Hdr :=
  { id := id, name := 0, ety := default, parent := .none, attrs := [], files := [], comment := none }

/-- an element 1 with EMPTY content next to an element 2 holding the text "/a" -/
def tree : Items := .elem (hdr 1) .nil (.elem (hdr 2) (.text (.str [47, 97]) .nil) .nil)

/-- a map that lists the element with empty content under "/a": the loop of `set_item_name` "/a" → "/b" WOULD execute
`content[0] = …` on an empty list -/
example : renameRefsPanics [([47, 97], [1])] tree [47, 97] [47, 98] := by decide

/-- … also when the bad list only comes second in the snapshot, and when it is reached through a key below the old path -/
example : renameRefsPanics [([47, 97], [2]), ([47, 97, 47, 120], [2, 1])] tree [47, 97] [47, 98] := by decide

/-- the step-by-step reading of `setRefTexts` agrees on the example -/
example : setRefTextsMeetsEmpty [47, 98] tree [2, 1] := by decide

/-- a map that lists only the element holding a text does not: -/
example : ¬ renameRefsPanics [([47, 97], [2])] tree [47, 97] [47, 98] := by decide

/-- … nor does a DEAD referrer (id 7 does not occur: `weak.upgrade()` fails, the entry is skipped), nor a key that does not move -/
example : ¬ renameRefsPanics [([47, 97], [7, 2]), ([47, 99], [1])] tree [47, 97] [47, 98] := by decide

/-- the loop of `move_element_here` on the same bad map ("/a" is the path of the moved element, "/c/a" its new path) -/
example : moveRefsPanicsFrom [47, 97] [47, 99, 47, 97] ([([47, 97], [1])], tree) [([47, 97], 9)] ∧
    ¬ moveRefsPanicsFrom [47, 97] [47, 99, 47, 97] ([([47, 97], [2])], tree) [([47, 97], 9)] := by decide

/-- `RefsExact` excludes the bad map, for every specification: an element with empty content holds no reference text, so
it is not registered -/
example (S : Spec) : ¬ RefsExact S [([47, 97], [1])] tree := by
  rintro ⟨_, _, h⟩
  have h1 := h [47, 97] 1
  have hl : (refsGet [([47, 97], [1])] [47, 97]).count 1 = 1 := by decide
  rw [hl] at h1
  have hm : (([47, 97] : Bytes), 1) ∈ refEntries S tree := List.count_pos_iff.mp (by rw [← h1]; exact Nat.one_pos)
  obtain ⟨h0, k0, ho, hmem⟩ := (refEntries_mem_iff S tree _ 1).mp hm
  obtain ⟨hid, _, hcd⟩ := (mem_refOf_iff S h0 k0 _ 1).mp hmem
  have hk := charData_some_shape S h0 k0 _ hcd
  subst hk
  rcases ho with ⟨_, hk⟩ | ho | ⟨rfl, _⟩ | ho | ho
  · cases hk
  · exact ho
  · cases hid
  · exact ho
  · exact ho

/-- (b) the `.oob` site is real: a state with two stacked elements and no position is not `DfsGood` and indexes out of range -/
example : (match ({ elements := [(hdr 1, .nil), (hdr 2, .nil)], position := [], maxDepth := 0 } : DfsIt).step with
    | .oob => true | _ => false) = true := by decide

/-- (c) the lookup answers `none` for a content list that does not hold the element (what `unwrap()` would panic on) -/
example : Items.childPos 3 tree 0 = none ∧ Items.childPos 2 tree 0 = some 1 := by decide

/-- (d) `lastOf` of an empty chain is the default pair (Rust: `unwrap()` of `last()`): never met after `locate` -/
example : (lastOf []).1.id = 0 ∧ (lastOf [(hdr 5, .nil)]).1.id = 5 := by decide

end NoPanicEx

end AV.W
