/-
The history invariants for the LARGER alphabet `OpX` of `Model/Step.lean`: the 17 core operations, `set_item_name`
(`opRename`) and `sort` (`opSort`).  In every state reachable from the empty world by any guarded history of these operations:

* `Inv`  — the forest is well-formed (parent fields = structure) and every local file set lies within the effective set of the
  parent (`runX_inv`, no guard needed);
* `FInv` — `CInv` (path index exact, reverse reference map exact, references are leaves, root type) together with `WKidsKnown`
  (every child's name is known to its parent's type in the all-version lookup — what `sort` needs to keep a SHORT-NAME in
  front, `Lemmas/SortIndex.lean`) (`runX_finv`);
* a refusal leaves the world unchanged (`applyOpX_err_frame`).

The per-operation lemmas are in `RenameOp.lean` (rename), `SortTree.lean` / `SortIndex.lean` (sort), `KidsKnownReach.lean`
(`WKidsKnown` through the core operations).  Here: `sort` keeps the file-set invariant, `set_item_name` keeps `WKidsKnown`,
and the lift to histories.
-/
import AutosarVerif.Lemmas.RenameOp
import AutosarVerif.Lemmas.SortTree
import AutosarVerif.Lemmas.SortIndex
import AutosarVerif.Lemmas.KidsKnownReach
import AutosarVerif.Lemmas.StepFrame

namespace AV.W
open Items

/-! ### `sort` keeps the file-set invariant -/

theorem filesOk_ofList (pe : List Nat) (l : List (Hdr × Items)) :
    FilesOk pe (Items.ofList l) ↔ ∀ c ∈ l, (∀ g ∈ c.1.files, g ∈ pe) ∧ FilesOk (effOf pe c.1) c.2 := by
  induction l with
  | nil => simp [Items.ofList, FilesOk]
  | cons c l ih =>
    obtain ⟨h, k⟩ := c
    simp only [Items.ofList, FilesOk, List.mem_cons, forall_eq_or_imp, ih]
    constructor
    · rintro ⟨a, b, c⟩; exact ⟨⟨a, b⟩, c⟩
    · rintro ⟨⟨a, b⟩, c⟩; exact ⟨a, b, c⟩

/-- a permutation of siblings at any depth (also one that drops text items) keeps "every local file set lies within the
effective set of the parent": headers are untouched and every element keeps its parent -/
theorem filesOk_sibPermG {d : Bool} {a b : Items} (h : SibPermG d a b) : ∀ pe : List Nat, FilesOk pe a → FilesOk pe b := by
  induction h with
  | nil => intro pe h; exact h
  | elem h _ _ ihk ihr => intro pe hf; exact ⟨hf.1, ihk _ hf.2.1, ihr _ hf.2.2⟩
  | text c _ ih => intro pe hf; exact ih pe hf
  | perm hp =>
    intro pe hf
    rw [filesOk_ofList] at hf ⊢
    exact fun c hc => hf c (hp.symm.subset hc)
  | drop c r => intro pe hf; exact hf
  | trans _ _ ih1 ih2 => intro pe hf; exact ih2 pe (ih1 pe hf)

section
variable (S : Spec) (V : Env) (vOk : Nat) (rootAttrs : List (Nat × CDv))

theorem effOf_files_self (h : Hdr) : effOf h.files h = h.files := by
  unfold effOf
  split <;> rfl

theorem opSort_filesOk (w : World) (x : Nat) (hw : w.filesOk) : (opSort S V w x).1.filesOk := by
  intro m' hm'
  obtain ⟨j, hj, rfl⟩ := List.getElem_of_mem hm'
  have hlen : (opSort S V w x).1.models.length = w.models.length := (opSort_frame S V w x).2.2.2.2
  have hj' : j < w.models.length := hlen ▸ hj
  obtain ⟨m2, hm2, hs⟩ := opSort_models S V w x j w.models[j] (List.getElem?_eq_getElem hj')
  have he : (opSort S V w x).1.models[j] = m2 := by
    have := List.getElem?_eq_getElem hj
    rw [hm2] at this
    exact (Option.some.inj this).symm
  rw [he]
  have hold : (w.models[j]).filesOk := hw _ (List.getElem_mem hj')
  unfold Model.filesOk at hold ⊢
  have ht : SibPermG true (.elem (w.models[j]).rootHdr (w.models[j]).rootKids .nil) (.elem m2.rootHdr m2.rootKids .nil) := hs.tree
  have h0 : FilesOk (w.models[j]).rootHdr.files (.elem (w.models[j]).rootHdr (w.models[j]).rootKids .nil) :=
    ⟨fun g hg => hg, by rw [effOf_files_self]; exact hold, trivial⟩
  have hfo := filesOk_sibPermG ht _ h0
  rw [hs.rootHdr] at hfo ⊢
  have h1 := hfo.2.1
  rw [effOf_files_self] at h1
  exact h1

theorem opSort_inv (w : World) (x : Nat) (h : Inv w) : Inv (opSort S V w x).1 :=
  ⟨opSort_wf S V w x h.1, opSort_filesOk S V w x h.2⟩

/-! ### `set_item_name` keeps `WKidsKnown` -/

theorem kidsKnown_refEdit (its : Items) (t : Nat) (txt : Bytes) (h : KidsKnown S its) : KidsKnown S (its.modify t (refEdit txt)) := by
  refine kidsKnown_modify S t _ its (fun h0 k0 _ _ => ?_) h
  cases k0 with
  | nil => exact ⟨rfl, fun a b => ⟨a, b⟩⟩
  | text c r =>
    refine ⟨rfl, fun a b => ⟨?_, ?_⟩⟩
    · intro c' hc'; exact a c' (by simpa [refEdit, Items.childElems] using hc')
    · simpa [refEdit, KidsKnown] using b
  | elem sh sk r =>
    refine ⟨rfl, fun a b => ⟨?_, ?_⟩⟩
    · intro c' hc'
      refine a c' ?_
      have : c' ∈ r.childElems := by simpa [refEdit, Items.childElems] using hc'
      simp [Items.childElems, this]
    · have hb : KidsKnown S r := by
        simp only [KidsKnown] at b
        exact b.2.2
      simpa [refEdit, KidsKnown] using hb

theorem renModel_known (m : Model) (c : List (Hdr × Items)) (sh : Hdr) (nm : Bytes) (hl : KidsKnown S m.rootItems) :
    KidsKnown S (renModel S m c sh nm).rootItems := by
  rw [(renModel_rootItems (S := S) (c := c) (loop_hasRoot m sh nm (pathOfChain S c) (renNew S c nm))).1]
  apply renameRefs_pres (KidsKnown S) (fun its t txt hi => kidsKnown_refEdit S its t txt hi)
  refine kidsKnown_modify S _ _ _ (fun h k _ _ => ⟨rfl, fun _ _ => ⟨kidsKnownAt_textNil S _ _, trivial⟩⟩) hl

theorem opRename_known (w : World) (x : Nat) (nm : Bytes) (hl : WKidsKnown S w) : WKidsKnown S (opRename S V w x nm).1 := by
  refine opRename_lift S V (WKidsKnown S) w x nm hl ?_
  intro k c ver cur sh sk rest hloc _ _ _ _ _ _ _ _ _
  exact wkidsKnown_update S w _ k _ hl (renModel_known S _ c sh nm (hl _ (locate_mem_models w x k c hloc))) rfl

/-! ### the full invariant over all histories of the larger alphabet -/

/-- path index exact, reverse reference map exact, references are leaves, root type, every child known to its parent's type -/
def FInv (w : World) : Prop := CInv S vOk w ∧ WKidsKnown S w

/-- the guard of the index invariant (`OpOk`) applies to the core operations; renames and sorts are not restricted -/
def OpXOk : OpX → Prop
  | .core op => OpOk S vOk op
  | .rename _ _ => True
  | .sort _ => True

instance (op : OpX) : Decidable (OpXOk S vOk op) := by
  cases op <;> simp only [OpXOk] <;> infer_instance

theorem finv_empty : FInv S vOk emptyWorld := ⟨cinv_empty S vOk, wkidsKnown_empty S⟩

theorem applyOpX_inv (w : World) (op : OpX) (h : Inv w) : Inv (applyOpX S V rootAttrs w op).1 := by
  cases op with
  | core op => exact applyOp_inv S V rootAttrs w op h
  | rename x nm => exact opRename_inv S V w x nm h
  | sort x => exact opSort_inv S V w x h

/-- one guarded step of the larger alphabet keeps the full invariant -/
theorem applyOpX_finv (hH : IdxHyp S V vOk) (hR : RefWF S) (hv32 : vOk &&& 0xFFFFFFFF = vOk) (w : World) (op : OpX)
    (hop : OpXOk S vOk op) (h : FInv S vOk w) : FInv S vOk (applyOpX S V rootAttrs w op).1 := by
  cases op with
  | core op =>
    exact ⟨applyOp_cinv S V vOk rootAttrs hH hR w op hop h.1, applyOp_wkidsKnown S V vOk rootAttrs hH hv32 w op h.1.1 h.2⟩
  | rename x nm => exact ⟨opRename_cinv S V vOk hH hR w x nm h.1, opRename_known S V w x nm h.2⟩
  | sort x =>
    exact ⟨opSort_cinv S V vOk hH w x h.1 (wsibsKnown_of_wkidsKnown S w h.2), opSort_wkidsKnown S V w x h.2⟩

/-- `Inv` in every state reachable by any history of the larger alphabet -/
theorem runX_inv (ops : List OpX) : Inv (runX S V rootAttrs ops) := by
  unfold runX
  suffices h : ∀ (w : World), Inv w → Inv (ops.foldl (fun w op => (applyOpX S V rootAttrs w op).1) w) from h _ inv_empty
  induction ops with
  | nil => intro w hw; exact hw
  | cons op rest ih => intro w hw; exact ih _ (applyOpX_inv S V rootAttrs w op hw)

/-- the full invariant in every state reachable by any guarded history of the larger alphabet -/
theorem runX_finv (hH : IdxHyp S V vOk) (hR : RefWF S) (hv32 : vOk &&& 0xFFFFFFFF = vOk) (ops : List OpX)
    (hops : ∀ op ∈ ops, OpXOk S vOk op) : FInv S vOk (runX S V rootAttrs ops) := by
  unfold runX
  suffices h : ∀ (w : World), FInv S vOk w → FInv S vOk (ops.foldl (fun w op => (applyOpX S V rootAttrs w op).1) w) from
    h _ (finv_empty S vOk)
  induction ops with
  | nil => intro w hw; exact hw
  | cons op rest ih =>
    intro w hw
    exact ih (fun o ho => hops o (List.mem_cons_of_mem _ ho)) _
      (applyOpX_finv S V vOk rootAttrs hH hR hv32 w op (hops op List.mem_cons_self) hw)

/-! ### failed operations have no effect, for the larger step function -/

/-- the operation refuses -/
def opXRefuses (w : World) : OpX → Prop
  | .core op => opRefuses S V w op
  | .rename x nm => (opRename S V w x nm).2 = .err
  | .sort _ => False

theorem applyOpX_err_frame (w : World) (op : OpX) (h : opXRefuses S V w op) : (applyOpX S V rootAttrs w op).1 = w := by
  cases op with
  | core op => exact applyOp_err_frame S V rootAttrs w op h
  | rename x nm => exact opRename_err_frame S V w x nm h
  | sort x => exact h.elim

theorem applyOpX_answer_err (w : World) (op : OpX) (h : opXRefuses S V w op) : (applyOpX S V rootAttrs w op).2 = "err" := by
  cases op with
  | core op => exact applyOp_answer_err S V rootAttrs w op h
  | rename x nm => show (opRename S V w x nm).2.show = "err"; rw [h]; rfl
  | sort x => exact h.elim

/-- `sort` never refuses -/
theorem applyOpX_sort_ok (w : World) (x : Nat) : (applyOpX S V rootAttrs w (.sort x)).2 = "ok" := by
  show (opSort S V w x).2.show = "ok"
  rw [opSort_ok]
  rfl

end
end AV.W
