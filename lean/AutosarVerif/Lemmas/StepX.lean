/-
The history invariants for the LARGER alphabet `OpX` of `Model/Step.lean`: the 17 core operations, `set_item_name`
(`opRename`), `sort` (`opSort`) and `set_reference_target` (`opSetRef`).  In every state reachable from the empty world by any
guarded history of these operations the full invariant `GInv` holds (`runX_ginv`):

* `Inv`  — the forest is well-formed (parent fields = structure) and every local file set lies within the effective set of the
  parent (`runX_inv`; for histories WITHOUT `set_reference_target` no guard is needed: `runX_inv_noSetRef`.
  `set_reference_target` keeps `Inv` only in a world with unique element ids, `opSetRef_inv_needs_ids` in `SetRefWitness.lean`,
  so for the whole alphabet `Inv` is proved together with the index invariant);
* `FInv` — `CInv` (path index exact, reverse reference map exact, references are leaves, root type) together with `WKidsKnown`
  (every child's name is known to its parent's type in the all-version lookup — what `sort` needs to keep a SHORT-NAME in
  front, `Lemmas/SortIndex.lean`) (`runX_finv`);
* `WROne` — a reference element holds at most one content item (`Lemmas/RefOne.lean`; what `set_reference_target` needs to
  keep the reverse reference map exact);
* a refusal leaves the world unchanged (`applyOpX_err_frame`).

The per-operation lemmas are in `RenameOp.lean` (rename), `SortTree.lean` / `SortIndex.lean` (sort), `SetRefOp.lean`
(set_reference_target), `KidsKnownReach.lean` (`WKidsKnown` through the core operations), `RefOne.lean` (`WROne` through the
core operations).  Here: `sort` keeps the file-set invariant, `set_item_name` keeps `WKidsKnown`, `WROne` through rename and
sort, `WKidsKnown` through `set_reference_target`, and the lift to histories.
-/
import AutosarVerif.Lemmas.RenameOp
import AutosarVerif.Lemmas.SortTree
import AutosarVerif.Lemmas.SortIndex
import AutosarVerif.Lemmas.KidsKnownReach
import AutosarVerif.Lemmas.StepFrame
import AutosarVerif.Lemmas.SetRefOp

namespace AV.W
open Items

/-! ### `sort` keeps the file-set invariant -/

theorem filesOk_ofList (pe : List Nat) (l : List (Hdr × Items)) :
    FilesOk pe (Items.ofList l) ↔ ∀ c ∈ l, (∀ g ∈ c.1.files, g ∈ pe) ∧ FilesOk (effOf pe c.1) c.2 := by
  induction l with
  | nil => simp [Items.ofList, FilesOk]
  | cons c l ih =>
    obtain ⟨h, k⟩ := c
    simp only [Items.ofList, FilesOk, List.mem_cons, forall_eq_or_imp, ih]
    constructor
    · rintro ⟨a, b, c⟩; exact ⟨⟨a, b⟩, c⟩
    · rintro ⟨⟨a, b⟩, c⟩; exact ⟨a, b, c⟩

/-- a permutation of siblings at any depth (also one that drops text items) keeps "every local file set lies within the
effective set of the parent": headers are untouched and every element keeps its parent -/
theorem filesOk_sibPermG {d : Bool} {a b : Items} (h : SibPermG d a b) : ∀ pe : List Nat, FilesOk pe a → FilesOk pe b := by
  induction h with
  | nil => intro pe h; exact h
  | elem h _ _ ihk ihr => intro pe hf; exact ⟨hf.1, ihk _ hf.2.1, ihr _ hf.2.2⟩
  | text c _ ih => intro pe hf; exact ih pe hf
  | perm hp =>
    intro pe hf
    rw [filesOk_ofList] at hf ⊢
    exact fun c hc => hf c (hp.symm.subset hc)
  | drop c r => intro pe hf; exact hf
  | trans _ _ ih1 ih2 => intro pe hf; exact ih2 pe (ih1 pe hf)

section
variable (S : Spec) (V : Env) (vOk : Nat) (rootAttrs : List (Nat × CDv))

theorem effOf_files_self (h : Hdr) : effOf h.files h = h.files := by
  unfold effOf
  split <;> rfl

theorem opSort_filesOk (w : World) (x : Nat) (hw : w.filesOk) : (opSort S V w x).1.filesOk := by
  intro m' hm'
  obtain ⟨j, hj, rfl⟩ := List.getElem_of_mem hm'
  have hlen : (opSort S V w x).1.models.length = w.models.length := (opSort_frame S V w x).2.2.2.2
  have hj' : j < w.models.length := hlen ▸ hj
  obtain ⟨m2, hm2, hs⟩ := opSort_models S V w x j w.models[j] (List.getElem?_eq_getElem hj')
  have he : (opSort S V w x).1.models[j] = m2 := by
    have := List.getElem?_eq_getElem hj
    rw [hm2] at this
    exact (Option.some.inj this).symm
  rw [he]
  have hold : (w.models[j]).filesOk := hw _ (List.getElem_mem hj')
  unfold Model.filesOk at hold ⊢
  have ht : SibPermG true (.elem (w.models[j]).rootHdr (w.models[j]).rootKids .nil) (.elem m2.rootHdr m2.rootKids .nil) := hs.tree
  have h0 : FilesOk (w.models[j]).rootHdr.files (.elem (w.models[j]).rootHdr (w.models[j]).rootKids .nil) :=
    ⟨fun g hg => hg, by rw [effOf_files_self]; exact hold, trivial⟩
  have hfo := filesOk_sibPermG ht _ h0
  rw [hs.rootHdr] at hfo ⊢
  have h1 := hfo.2.1
  rw [effOf_files_self] at h1
  exact h1

theorem opSort_inv (w : World) (x : Nat) (h : Inv w) : Inv (opSort S V w x).1 :=
  ⟨opSort_wf S V w x h.1, opSort_filesOk S V w x h.2⟩

/-! ### `set_item_name` keeps `WKidsKnown` -/

theorem kidsKnown_refEdit (its : Items) (t : Nat) (txt : Bytes) (h : KidsKnown S its) : KidsKnown S (its.modify t (refEdit txt)) := by
  refine kidsKnown_modify S t _ its (fun h0 k0 _ _ => ?_) h
  cases k0 with
  | nil => exact ⟨rfl, fun a b => ⟨a, b⟩⟩
  | text c r =>
    refine ⟨rfl, fun a b => ⟨?_, ?_⟩⟩
    · intro c' hc'; exact a c' (by simpa [refEdit, Items.childElems] using hc')
    · simpa [refEdit, KidsKnown] using b
  | elem sh sk r =>
    refine ⟨rfl, fun a b => ⟨?_, ?_⟩⟩
    · intro c' hc'
      refine a c' ?_
      have : c' ∈ r.childElems := by simpa [refEdit, Items.childElems] using hc'
      simp [Items.childElems, this]
    · have hb : KidsKnown S r := by
        simp only [KidsKnown] at b
        exact b.2.2
      simpa [refEdit, KidsKnown] using hb

theorem renModel_known (m : Model) (c : List (Hdr × Items)) (sh : Hdr) (nm : Bytes) (hl : KidsKnown S m.rootItems) :
    KidsKnown S (renModel S m c sh nm).rootItems := by
  rw [(renModel_rootItems (S := S) (c := c) (loop_hasRoot m sh nm (pathOfChain S c) (renNew S c nm))).1]
  apply renameRefs_pres (KidsKnown S) (fun its t txt hi => kidsKnown_refEdit S its t txt hi)
  refine kidsKnown_modify S _ _ _ (fun h k _ _ => ⟨rfl, fun _ _ => ⟨kidsKnownAt_textNil S _ _, trivial⟩⟩) hl

theorem opRename_known (w : World) (x : Nat) (nm : Bytes) (hl : WKidsKnown S w) : WKidsKnown S (opRename S V w x nm).1 := by
  refine opRename_lift S V (WKidsKnown S) w x nm hl ?_
  intro k c ver cur sh sk rest hloc _ _ _ _ _ _ _ _ _
  exact wkidsKnown_update S w _ k _ hl (renModel_known S _ c sh nm (hl _ (locate_mem_models w x k c hloc))) rfl

/-! ### `WROne` (a reference element holds at most one content item) through rename and sort -/

theorem refOne_iff (its : Items) :
    RefOne S its ↔ ∀ c ∈ its.childElems, (S.isRef c.1.ety.typ = true → c.2.length ≤ 1) ∧ RefOne S c.2 := by
  induction its with
  | nil => simp [refOne_nil, Items.childElems]
  | text c r ih => rw [refOne_text]; simpa only [Items.childElems] using ih
  | elem h k r _ ih => rw [refOne_elem]; simp only [Items.childElems, List.forall_mem_cons, ih, and_assoc]

/-- one text replacement of the rename loop: the first item of the content is replaced -/
theorem refOne_refEdit (its : Items) (t : Nat) (txt : Bytes) (hl : RefOne S its) : RefOne S (its.modify t (refEdit txt)) := by
  apply refOne_modify S t _ its ?_ hl
  intro h k _ _ a b
  cases k with
  | nil => exact ⟨a, b⟩
  | text cc r => exact ⟨a, b⟩
  | elem hx kx r => exact ⟨a, (refOne_text S _ r).mpr ((refOne_elem S hx kx r).mp b).2.2⟩

/-- the renamed model (whatever the map holds): the SHORT-NAME gets one text, the loop replaces first items -/
theorem renModel_one (m : Model) (c : List (Hdr × Items)) (sh : Hdr) (nm : Bytes) (hl : RefOne S m.rootItems) :
    RefOne S (renModel S m c sh nm).rootItems := by
  rw [(renModel_rootItems (S := S) (c := c) (loop_hasRoot m sh nm (pathOfChain S c) (renNew S c nm))).1]
  apply renameRefs_pres (RefOne S) (fun its t txt hi => refOne_refEdit S its t txt hi)
  apply refOne_modify S _ _ _ ?_ hl
  intro h k _ _ _ _
  exact ⟨fun _ => Nat.le_refl _, (refOne_text S _ _).mpr (refOne_nil S)⟩

theorem opRename_one (w : World) (x : Nat) (nm : Bytes) (hl : WROne S w) : WROne S (opRename S V w x nm).1 := by
  refine opRename_lift S V (WROne S) w x nm hl ?_
  intro k c ver cur sh sk rest hloc _ _ _ _ _ _ _ _ _
  exact wrone_update S w _ k _ hl (renModel_one S _ c sh nm (hl _ (locate_mem_models w x k c hloc))) rfl

/-- `sortNode` re-orders content of more than one item only: the content of a reference element (at most one item) stays -/
theorem sortNode_one (fuel : Nat) : ∀ (h : Hdr) (k : Items), (S.isRef h.ety.typ = true → k.length ≤ 1) → RefOne S k →
    (S.isRef h.ety.typ = true → (sortNode S V fuel h k).length ≤ 1) ∧ RefOne S (sortNode S V fuel h k) := by
  induction fuel with
  | zero => intro h k h1 h2; rw [sortNode]; exact ⟨h1, h2⟩
  | succ fuel ih =>
    intro h k h1 h2
    have hmk : RefOne S (mapKids (sortNode S V fuel) k) := by
      rw [refOne_iff, childElems_mapKids]
      intro c' hc'
      obtain ⟨c0, hc0, rfl⟩ := List.mem_map.mp hc'
      have := (refOne_iff S k).mp h2 c0 hc0
      exact ih c0.1 c0.2 this.1 this.2
    rcases sortNode_succIx S V fuel h k with e | ⟨hlen, e⟩ | e
    · rw [e]; exact ⟨h1, h2⟩
    · rw [e]
      refine ⟨fun hr => ?_, ?_⟩
      · have := h1 hr
        omega
      · rw [refOne_iff, childElems_ofListIx]
        intro c hc
        rw [List.mem_mergeSort] at hc
        exact (refOne_iff S _).mp hmk c hc
    · rw [e]
      exact ⟨fun hr => by rw [length_mapKids]; exact h1 hr, hmk⟩

theorem opSort_one (w : World) (x : Nat) (hl : WROne S w) : WROne S (opSort S V w x).1 := by
  rw [opSort_eq]
  split
  · exact hl
  · rename_i k c hloc
    obtain ⟨m, _, hm2, hmem, _⟩ := locate_chain w x k c hloc
    rw [hm2]
    refine wrone_update S w _ k _ hl ?_ rfl
    rw [rootItems_setRoot_modify]
    refine refOne_modify S x (sortEditIx S V) _ (fun h k0 _ _ a b => ?_) (hl m hmem)
    exact sortNode_one S V _ h k0 a b

/-! ### `set_reference_target` keeps `WKidsKnown`: the child elements of the reference element only get fewer -/

theorem refKids_childElems_sub (newRef : Bytes) (k : Items) : ∀ c ∈ (refKids newRef k).childElems, c ∈ k.childElems := by
  intro c hc
  cases k with
  | nil => simp [refKids, Items.childElems] at hc
  | text _ r => exact hc
  | elem hd kk r => exact List.mem_cons_of_mem _ (by simpa [refKids, Items.childElems] using hc)

theorem kidsKnown_refKids (newRef : Bytes) (k : Items) (hk : KidsKnown S k) : KidsKnown S (refKids newRef k) := by
  cases k with
  | nil => trivial
  | text _ r => exact hk
  | elem hd kk r => exact hk.2.2

/-- (`WIds`: unique element ids, a part of `WInv`; without them the call renames the other elements that share the id) -/
theorem opSetRef_known (w : World) (x t : Nat) (hn : WIds w) (hK : WKidsKnown S w) : WKidsKnown S (opSetRef S V w x t).1 := by
  rcases opSetRef_cases S V w x t with e | ⟨k, c, h, kids, kt, tc, it, ver, h', r, e⟩
  · rw [e]; exact hK
  · rw [e]
    obtain ⟨m, _, hm2, hmem, _⟩ := r.facts
    have hnk : (w.models[k]!).rootItems.ids.Nodup := by rw [hm2]; exact hn m hmem
    split
    · refine wkidsKnown_update S w _ k _ hK ?_ rfl
      show KidsKnown S ((w.models[k]!).setRoot _).rootItems
      rw [rootItems_setRoot_modify, r.modify_ok S V hnk, hm2]
      refine kidsKnown_modify S x _ _ (fun h0 k0 _ _ => ⟨(setRefHdr_keeps S V it ver h0).2.1, fun a b => ⟨?_, ?_⟩⟩) (hK m hmem)
      · intro c' hc'
        have := a c' (refKids_childElems_sub _ k0 c' hc')
        rw [show (setRefF S V it ver (pathOfChain S tc) h0 k0).1.ety = h0.ety from (setRefHdr_keeps S V it ver h0).2.2.1]
        exact this
      · exact kidsKnown_refKids S _ k0 b
    · exact hK

/-! ### the full invariant over all histories of the larger alphabet -/

/-- path index exact, reverse reference map exact, references are leaves, root type, every child known to its parent's type -/
def FInv (w : World) : Prop := CInv S vOk w ∧ WKidsKnown S w

/-- everything: tree well-formed and file sets consistent, `FInv`, a reference element holds at most one content item -/
def GInv (w : World) : Prop := Inv w ∧ FInv S vOk w ∧ WROne S w

/-- the guard of the index invariant (`OpOk`) applies to the core operations; renames, sorts and `set_reference_target` are
not restricted -/
def OpXOk : OpX → Prop
  | .core op => OpOk S vOk op
  | .rename _ _ => True
  | .sort _ => True
  | .setref _ _ => True

instance (op : OpX) : Decidable (OpXOk S vOk op) := by
  cases op <;> simp only [OpXOk] <;> infer_instance

/-- the operation is not `set_reference_target` -/
def OpX.noSetRef : OpX → Prop
  | .setref _ _ => False
  | _ => True

instance (op : OpX) : Decidable op.noSetRef := by
  cases op <;> simp only [OpX.noSetRef] <;> infer_instance

theorem finv_empty : FInv S vOk emptyWorld := ⟨cinv_empty S vOk, wkidsKnown_empty S⟩

theorem ginv_empty : GInv S vOk emptyWorld := ⟨inv_empty, finv_empty S vOk, wrone_empty S⟩

/-- `Inv` through one step that is not `set_reference_target`: no guard, no other invariant needed -/
theorem applyOpX_inv_noSetRef (w : World) (op : OpX) (hop : op.noSetRef) (h : Inv w) : Inv (applyOpX S V rootAttrs w op).1 := by
  cases op with
  | core op => exact applyOp_inv S V rootAttrs w op h
  | rename x nm => exact opRename_inv S V w x nm h
  | sort x => exact opSort_inv S V w x h
  | setref x t => exact hop.elim

/-- `Inv` through one step of the larger alphabet, in a world with the index invariant (`set_reference_target` needs unique
element ids) -/
theorem applyOpX_inv (w : World) (op : OpX) (hw : WInv S vOk w) (h : Inv w) : Inv (applyOpX S V rootAttrs w op).1 := by
  cases op with
  | core op => exact applyOp_inv S V rootAttrs w op h
  | rename x nm => exact opRename_inv S V w x nm h
  | sort x => exact opSort_inv S V w x h
  | setref x t => exact opSetRef_inv' S V vOk w x t hw h

/-- one guarded step of the larger alphabet keeps the full invariant -/
theorem applyOpX_ginv (hH : IdxHyp S V vOk) (hR : RefWF S) (hv32 : vOk &&& 0xFFFFFFFF = vOk) (w : World) (op : OpX)
    (hop : OpXOk S vOk op) (h : GInv S vOk w) : GInv S vOk (applyOpX S V rootAttrs w op).1 := by
  obtain ⟨hi, ⟨hc, hk⟩, h1⟩ := h
  refine ⟨applyOpX_inv S V vOk rootAttrs w op hc.1 hi, ?_⟩
  cases op with
  | core op =>
    exact ⟨⟨applyOp_cinv S V vOk rootAttrs hH hR w op hop hc, applyOp_wkidsKnown S V vOk rootAttrs hH hv32 w op hc.1 hk⟩,
      applyOp_wrone S V vOk rootAttrs hH hR w op hc.1 h1⟩
  | rename x nm =>
    exact ⟨⟨opRename_cinv S V vOk hH hR w x nm hc, opRename_known S V w x nm hk⟩, opRename_one S V w x nm h1⟩
  | sort x =>
    exact ⟨⟨opSort_cinv S V vOk hH w x hc (wsibsKnown_of_wkidsKnown S w hk), opSort_wkidsKnown S V w x hk⟩,
      opSort_one S V w x h1⟩
  | setref x t =>
    obtain ⟨a, b⟩ := opSetRef_cinv S V vOk hR w x t hc h1
    exact ⟨⟨a, opSetRef_known S V w x t (WIds.of_winv S vOk hc.1) hk⟩, b⟩

/-- one guarded step of the larger alphabet keeps `FInv` — given `WROne` before the step (`set_reference_target` needs it) -/
theorem applyOpX_finv (hH : IdxHyp S V vOk) (hR : RefWF S) (hv32 : vOk &&& 0xFFFFFFFF = vOk) (w : World) (op : OpX)
    (hop : OpXOk S vOk op) (hi : Inv w) (h1 : WROne S w) (h : FInv S vOk w) : FInv S vOk (applyOpX S V rootAttrs w op).1 :=
  (applyOpX_ginv S V vOk rootAttrs hH hR hv32 w op hop ⟨hi, h, h1⟩).2.1

/-- **the full invariant in every state reachable by any guarded history of the larger alphabet** -/
theorem runX_ginv (hH : IdxHyp S V vOk) (hR : RefWF S) (hv32 : vOk &&& 0xFFFFFFFF = vOk) (ops : List OpX)
    (hops : ∀ op ∈ ops, OpXOk S vOk op) : GInv S vOk (runX S V rootAttrs ops) := by
  unfold runX
  suffices h : ∀ (w : World), GInv S vOk w → GInv S vOk (ops.foldl (fun w op => (applyOpX S V rootAttrs w op).1) w) from
    h _ (ginv_empty S vOk)
  induction ops with
  | nil => intro w hw; exact hw
  | cons op rest ih =>
    intro w hw
    exact ih (fun o ho => hops o (List.mem_cons_of_mem _ ho)) _
      (applyOpX_ginv S V vOk rootAttrs hH hR hv32 w op (hops op List.mem_cons_self) hw)

/-- `FInv` in every state reachable by any guarded history of the larger alphabet -/
theorem runX_finv (hH : IdxHyp S V vOk) (hR : RefWF S) (hv32 : vOk &&& 0xFFFFFFFF = vOk) (ops : List OpX)
    (hops : ∀ op ∈ ops, OpXOk S vOk op) : FInv S vOk (runX S V rootAttrs ops) :=
  (runX_ginv S V vOk rootAttrs hH hR hv32 ops hops).2.1

/-- `WROne` in every state reachable by any guarded history of the larger alphabet -/
theorem runX_wrone (hH : IdxHyp S V vOk) (hR : RefWF S) (hv32 : vOk &&& 0xFFFFFFFF = vOk) (ops : List OpX)
    (hops : ∀ op ∈ ops, OpXOk S vOk op) : WROne S (runX S V rootAttrs ops) :=
  (runX_ginv S V vOk rootAttrs hH hR hv32 ops hops).2.2

/-- `Inv` in every state reachable by any GUARDED history of the larger alphabet (a corollary of `runX_ginv`:
`set_reference_target` keeps `Inv` only together with the index invariant) -/
theorem runX_inv (hH : IdxHyp S V vOk) (hR : RefWF S) (hv32 : vOk &&& 0xFFFFFFFF = vOk) (ops : List OpX)
    (hops : ∀ op ∈ ops, OpXOk S vOk op) : Inv (runX S V rootAttrs ops) :=
  (runX_ginv S V vOk rootAttrs hH hR hv32 ops hops).1

/-- `Inv` in every state reachable by ANY history of the larger alphabet without `set_reference_target` (no guard) -/
theorem runX_inv_noSetRef (ops : List OpX) (hops : ∀ op ∈ ops, op.noSetRef) : Inv (runX S V rootAttrs ops) := by
  unfold runX
  suffices h : ∀ (w : World), Inv w → Inv (ops.foldl (fun w op => (applyOpX S V rootAttrs w op).1) w) from h _ inv_empty
  induction ops with
  | nil => intro w hw; exact hw
  | cons op rest ih =>
    intro w hw
    exact ih (fun o ho => hops o (List.mem_cons_of_mem _ ho)) _
      (applyOpX_inv_noSetRef S V rootAttrs w op (hops op List.mem_cons_self) hw)

/-! ### failed operations have no effect, for the larger step function -/

/-- the operation refuses -/
def opXRefuses (w : World) : OpX → Prop
  | .core op => opRefuses S V w op
  | .rename x nm => (opRename S V w x nm).2 = .err
  | .sort _ => False
  | .setref x t => (opSetRef S V w x t).2 = .err

theorem applyOpX_err_frame (w : World) (op : OpX) (h : opXRefuses S V w op) : (applyOpX S V rootAttrs w op).1 = w := by
  cases op with
  | core op => exact applyOp_err_frame S V rootAttrs w op h
  | rename x nm => exact opRename_err_frame S V w x nm h
  | sort x => exact h.elim
  | setref x t => exact opSetRef_err_frame S V w x t h

theorem applyOpX_answer_err (w : World) (op : OpX) (h : opXRefuses S V w op) : (applyOpX S V rootAttrs w op).2 = "err" := by
  cases op with
  | core op => exact applyOp_answer_err S V rootAttrs w op h
  | rename x nm => show (opRename S V w x nm).2.show = "err"; rw [h]; rfl
  | sort x => exact h.elim
  | setref x t => show (opSetRef S V w x t).2.show = "err"; rw [h]; rfl

/-- `sort` never refuses -/
theorem applyOpX_sort_ok (w : World) (x : Nat) : (applyOpX S V rootAttrs w (.sort x)).2 = "ok" := by
  show (opSort S V w x).2.show = "ok"
  rw [opSort_ok]
  rfl

/-- `set_reference_target` is answered with "ok" or "err" -/
theorem applyOpX_setref_answer (w : World) (x t : Nat) :
    (applyOpX S V rootAttrs w (.setref x t)).2 = "ok" ∨ (applyOpX S V rootAttrs w (.setref x t)).2 = "err" := by
  show (opSetRef S V w x t).2.show = "ok" ∨ (opSetRef S V w x t).2.show = "err"
  rcases opSetRef_ans S V w x t with h | h
  · rw [h]; exact Or.inl rfl
  · rw [h]; exact Or.inr rfl

/-! ### C05 / C06 over histories: after a successful `set_reference_target` the reference resolves to the target -/

/-- `opSetRef_target` with the full invariant of the state as the hypothesis -/
theorem opSetRef_target_ginv (hR : RefWF S) (w : World) (x t : Nat) (hg : GInv S vOk w)
    (hne : (opSetRef S V w x t).2 ≠ .err)
    (hsame : ∀ k c kt tc, locate w x = some (k, c) → locate w t = some (kt, tc) → kt = k)
    (hdest : ∀ k c kt tc it, locate w x = some (k, c) → locate w t = some (kt, tc) →
      setRefItem S V (lastOf c).1 (lastOf tc).1 = some it → S.verifyDest (lastOf tc).1.ety.typ it = true) :
    refTarget S V (opSetRef S V w x t).1 x = some t :=
  opSetRef_target S V vOk hR w x t hg.2.1.1 hg.2.2 hne hsame hdest

theorem runX_snoc (ops : List OpX) (op : OpX) :
    runX S V rootAttrs (ops ++ [op]) = (applyOpX S V rootAttrs (runX S V rootAttrs ops) op).1 := by
  unfold runX
  rw [List.foldl_append]
  rfl

/-- **in every state reachable by a guarded history of the larger alphabet**: a `set_reference_target x t` that is not
refused, with the target in the model of the reference element (`hsame`) and of a type that accepts the DEST item the call
chooses (`hdest`, the `verify_reference_dest` fact), leads to a state in which `get_reference_target x` answers `t` -/
theorem runX_setref_target (hH : IdxHyp S V vOk) (hR : RefWF S) (hv32 : vOk &&& 0xFFFFFFFF = vOk) (ops : List OpX)
    (hops : ∀ op ∈ ops, OpXOk S vOk op) (x t : Nat)
    (hne : (opSetRef S V (runX S V rootAttrs ops) x t).2 ≠ .err)
    (hsame : ∀ k c kt tc, locate (runX S V rootAttrs ops) x = some (k, c) → locate (runX S V rootAttrs ops) t = some (kt, tc) →
      kt = k)
    (hdest : ∀ k c kt tc it, locate (runX S V rootAttrs ops) x = some (k, c) →
      locate (runX S V rootAttrs ops) t = some (kt, tc) →
      setRefItem S V (lastOf c).1 (lastOf tc).1 = some it → S.verifyDest (lastOf tc).1.ety.typ it = true) :
    refTarget S V (runX S V rootAttrs (ops ++ [.setref x t])) x = some t := by
  rw [runX_snoc]
  exact opSetRef_target_ginv S V vOk hR _ x t (runX_ginv S V vOk rootAttrs hH hR hv32 ops hops) hne hsame hdest

/-- … and the postcondition in full (`SetRefPost`, `Lemmas/SetRefOp.lean`) -/
theorem runX_setref_post (hH : IdxHyp S V vOk) (hR : RefWF S) (hv32 : vOk &&& 0xFFFFFFFF = vOk) (ops : List OpX)
    (hops : ∀ op ∈ ops, OpXOk S vOk op) (x t : Nat)
    (hne : (opSetRef S V (runX S V rootAttrs ops) x t).2 ≠ .err) :
    ∃ k c kt tc it c' tc', SetRefPost S V (runX S V rootAttrs ops) (runX S V rootAttrs (ops ++ [.setref x t])) x t k c kt tc it
      c' tc' := by
  rw [runX_snoc]
  have hg := runX_ginv S V vOk rootAttrs hH hR hv32 ops hops
  exact opSetRef_post S V vOk hR _ x t hg.2.1.1 hg.2.2 hne

end
end AV.W
