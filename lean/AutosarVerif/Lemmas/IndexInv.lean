/-
C04, the history invariant: in every model the path index is exactly the set of (path, element) pairs of the named
elements of the tree, no two elements have the same path, element ids are unique, and the SHORT-NAME discipline holds.
This file: the invariant, the bridge between `locate` (navigation by chain) and the structural functions, and the generic
"one model is edited" step.
-/
import AutosarVerif.Lemmas.IndexTree
import AutosarVerif.Lemmas.IdxFix
import AutosarVerif.Lemmas.RemoveInternal
import AutosarVerif.Lemmas.RangeSn
import AutosarVerif.Lemmas.Reachable

namespace AV.W
open Items

section
variable (S : Spec) (vOk : Nat)

/-- the invariant of one model; `nid` = the next element id of the world, `vOk` = the versions files may have -/
structure MInv (nid : Nat) (m : Model) : Prop where
  vers : ∀ f ∈ m.files, f.version &&& vOk = f.version
  ids : m.rootItems.ids.Nodup
  bound : m.rootIssued = true → ∀ i ∈ m.rootItems.ids, i < nid
  fresh : m.rootIssued = false → m.rootKids.ids = [] ∧ m.rootHdr.files = []
  rootName : m.rootHdr.name ≠ S.nmShortName
  sn : SnOk S m.rootItems
  keys : keysNodupI (entries S m.rootItems [])
  idxKeys : keysNodupI m.index
  exact : ∀ q i, idxGet m.index q = some i ↔ (q, i) ∈ entries S m.rootItems []

/-- the invariant of the world -/
def WInv (w : World) : Prop := ∀ m ∈ w.models, MInv S vOk w.nextId m

theorem MInv.mono {nid nid' : Nat} {m : Model} (h : MInv S vOk nid m) (hle : nid ≤ nid') : MInv S vOk nid' m :=
  { h with bound := fun hr i hi => Nat.lt_of_lt_of_le (h.bound hr i hi) hle }

/-! ### bridge: chains, occurrences, prefixes -/

theorem chain_occ (t : Nat) (its : Items) (c : List (Hdr × Items)) (hc : its.chain t = some c) :
    Occ (lastOf c).1 (lastOf c).2 its ∧ (lastOf c).1.id = t := by
  induction its generalizing c with
  | nil => simp [Items.chain] at hc
  | text _ r ih => exact ih c hc
  | elem hd k r ihk ihr =>
    simp only [Items.chain] at hc
    split at hc
    · rename_i heq
      simp at hc; subst hc
      exact ⟨Or.inl ⟨rfl, rfl⟩, heq⟩
    · split at hc
      · rename_i c' hk
        simp at hc; subst hc
        obtain ⟨h1, h2⟩ := ihk c' hk
        have hl : lastOf ((hd, k) :: c') = lastOf c' := by
          cases c' with
          | nil =>
            obtain ⟨_, _, hl, _⟩ := chain_last t k [] hk
            simp at hl
          | cons a as => simp [lastOf, List.getLast?_cons_cons]
        rw [hl]
        exact ⟨Or.inr (Or.inl h1), h2⟩
      · obtain ⟨h1, h2⟩ := ihr c hc
        exact ⟨Or.inr (Or.inr h1), h2⟩


/-- with unique ids a node is determined by its id -/
theorem occ_unique (its : Items) (hn : its.ids.Nodup) (h1 h2 : Hdr) (k1 k2 : Items) (o1 : Occ h1 k1 its) (o2 : Occ h2 k2 its)
    (he : h1.id = h2.id) : h1 = h2 ∧ k1 = k2 := by
  induction its with
  | nil => exact o1.elim
  | text _ r ih => exact ih (by simpa [Items.ids] using hn) o1 o2
  | elem hd k r ihk ihr =>
    simp only [Items.ids, List.nodup_cons, List.nodup_append, List.mem_append, not_or] at hn
    obtain ⟨hn1, hnk, hnr, hdis⟩ := hn
    rcases o1 with ⟨rfl, rfl⟩ | o1 | o1 <;> rcases o2 with ⟨rfl, rfl⟩ | o2 | o2
    · exact ⟨rfl, rfl⟩
    · exact absurd (he ▸ o2.id_mem) hn1.1
    · exact absurd (he ▸ o2.id_mem) hn1.2
    · exact absurd (he ▸ o1.id_mem) hn1.1
    · exact ihk hnk o1 o2
    · exact absurd he (hdis _ o1.id_mem _ o2.id_mem)
    · exact absurd (he ▸ o1.id_mem) hn1.2
    · exact absurd he.symm (hdis _ o2.id_mem _ o1.id_mem)
    · exact ihr hnr o1 o2

/-- the prefix handed to the content of the last node of a chain -/
def chainPre : List (Hdr × Items) → Bytes → Bytes
  | [], pre => pre
  | (h, k) :: rest, pre =>
    chainPre rest (match itemName S h k with
      | some n => pre ++ [47] ++ n
      | none => pre)

theorem chain_some_of_mem (t : Nat) (its : Items) (h : t ∈ its.ids) : ∃ c, its.chain t = some c := by
  induction its with
  | nil => simp [Items.ids] at h
  | text _ r ih => simp only [Items.chain]; exact ih (by simpa [Items.ids] using h)
  | elem hd k r ihk ihr =>
    simp only [Items.chain]
    split
    · exact ⟨_, rfl⟩
    · rename_i hne
      simp only [Items.ids, List.mem_cons, List.mem_append] at h
      rcases h with e | e | e
      · exact absurd e.symm hne
      · obtain ⟨c, hc⟩ := ihk e
        simp only [hc]; exact ⟨_, rfl⟩
      · cases hk : chain t k with
        | some c => exact ⟨_, rfl⟩
        | none => exact ihr e

theorem kpre_chain (t : Nat) (its : Items) (c : List (Hdr × Items)) (hc : its.chain t = some c) (pre : Bytes) :
    kpre S its pre t = some (chainPre S c pre) := by
  induction its generalizing c pre with
  | nil => simp [Items.chain] at hc
  | text _ r ih => simp only [kpre]; exact ih c hc pre
  | elem hd k r ihk ihr =>
    simp only [Items.chain] at hc
    simp only [kpre]
    split at hc
    · rename_i heq
      simp at hc; subst hc
      simp only [heq, if_true, chainPre]
      rfl
    · rename_i hne
      rw [if_neg hne]
      split at hc
      · rename_i c' hk
        simp at hc; subst hc
        rw [ihk c' hk]
        simp only [chainPre]
        rfl
      · rename_i hk
        have hnot : t ∉ k.ids := by
          intro hx
          obtain ⟨c', hc'⟩ := chain_some_of_mem t k hx
          rw [hc'] at hk
          cases hk
        rw [kpre_none_of_not_mem S k _ t hnot]
        exact ihr c hc pre

theorem chainPre_eq (c : List (Hdr × Items)) (pre : Bytes) :
    chainPre S c pre = (c.filterMap fun (h, k) => itemName S h k).foldl (fun acc n => acc ++ [47] ++ n) pre := by
  induction c generalizing pre with
  | nil => rfl
  | cons a rest ih =>
    obtain ⟨h, k⟩ := a
    simp only [chainPre, List.filterMap_cons]
    cases itemName S h k with
    | none => simp only []; exact ih pre
    | some n => simp only [List.foldl_cons]; exact ih _

theorem chainPre_nil (c : List (Hdr × Items)) : chainPre S c [] = pathOfChain S c := by
  rw [chainPre_eq]; rfl

theorem chain_mem_ids (t : Nat) (its : Items) (c : List (Hdr × Items)) (hc : its.chain t = some c) : t ∈ its.ids := by
  obtain ⟨ho, he⟩ := chain_occ t its c hc
  exact he ▸ ho.id_mem

theorem locate_chain (w : World) (x k : Nat) (c : List (Hdr × Items)) (h : locate w x = some (k, c)) :
    ∃ m, w.models[k]? = some m ∧ w.models[k]! = m ∧ m ∈ w.models ∧ m.rootItems.chain x = some c := by
  unfold locate at h
  obtain ⟨j, _, hj⟩ := List.exists_of_findSome?_eq_some h
  cases hm : w.models[j]? with
  | none => simp [hm] at hj
  | some m =>
    simp only [hm, Option.map_eq_some_iff] at hj
    obtain ⟨c', hc1, hc'⟩ := hj
    cases hc'
    exact ⟨m, hm, by simp [getElem!_def, hm], List.mem_of_getElem? hm, hc1⟩

theorem rootItems_setRoot_modify (m : Model) (x : Nat) (f : Hdr → Items → Hdr × Items) :
    (m.setRoot (m.rootItems.modify x f)).rootItems = m.rootItems.modify x f := by
  simp only [Model.rootItems, Items.modify]
  split <;> rfl

theorem setRoot_modify_fields (m : Model) (x : Nat) (f : Hdr → Items → Hdr × Items) :
    (m.setRoot (m.rootItems.modify x f)).index = m.index ∧ (m.setRoot (m.rootItems.modify x f)).refs = m.refs ∧
    (m.setRoot (m.rootItems.modify x f)).files = m.files ∧ (m.setRoot (m.rootItems.modify x f)).rootIssued = m.rootIssued := by
  simp only [Model.rootItems, Items.modify]
  split <;> exact ⟨rfl, rfl, rfl, rfl⟩


/-! ### one model is edited -/

theorem winv_update (w w' : World) (k : Nat) (m' : Model) (hw : WInv S vOk w) (hle : w.nextId ≤ w'.nextId)
    (hm : MInv S vOk w'.nextId m') (hmodels : w'.models = w.models.set k m') : WInv S vOk w' := by
  intro m hmem
  rw [hmodels] at hmem
  rcases List.mem_or_eq_of_mem_set hmem with h | h
  · exact (hw m h).mono S vOk hle
  · rw [h]; exact hm

theorem winv_congr (w w' : World) (hw : WInv S vOk w) (hle : w.nextId ≤ w'.nextId) (hmodels : w'.models = w.models) : WInv S vOk w' := by
  intro m hmem
  rw [hmodels] at hmem
  exact (hw m hmem).mono S vOk hle

theorem ids_modify_same (t : Nat) (f : Hdr → Items → Hdr × Items) (its : Items)
    (hf : ∀ h k, Occ h k its → h.id = t → (f h k).1.id = h.id ∧ (f h k).2.ids = k.ids) : (its.modify t f).ids = its.ids := by
  induction its with
  | nil => rfl
  | text c r ih => simp only [Items.modify, Items.ids]; exact ih hf
  | elem hd k r ihk ihr =>
    have ihk := ihk (fun h0 k0 ho => hf h0 k0 (Or.inr (Or.inl ho)))
    have ihr := ihr (fun h0 k0 ho => hf h0 k0 (Or.inr (Or.inr ho)))
    simp only [Items.modify]
    split
    · rename_i heq
      obtain ⟨h1, h2⟩ := hf hd k (Or.inl ⟨rfl, rfl⟩) heq
      simp only [Items.ids, h1, h2, ihr]
    · simp only [Items.ids, ihk, ihr]

/-- the top-level elements called SHORT-NAME are proper -/
def topOk : Items → Prop
  | .nil => True
  | .text _ r => topOk r
  | .elem h k r => (h.name = S.nmShortName → properSn S h k) ∧ topOk r

theorem topOk_of_noSnTop (its : Items) (h : noSnTop S its) : topOk S its := by
  induction its with
  | nil => trivial
  | text _ r ih => exact ih h
  | elem hd k r _ ih => exact ⟨fun e => absurd e h.1, ih h.2⟩

theorem topOk_of_kidsOk (h : Hdr) (k : Items) (hk : kidsOk S h k) : topOk S k := by
  cases k with
  | nil => trivial
  | text _ r => exact topOk_of_noSnTop S r hk
  | elem sh sk r => exact ⟨fun e => (hk.1 e).2, topOk_of_noSnTop S r hk.2⟩

/-- under the discipline every element called SHORT-NAME is a proper one -/
theorem sn_proper_of_occ (its : Items) (hS : SnOk S its) (ht : topOk S its) (h : Hdr) (k : Items) (ho : Occ h k its)
    (hn : h.name = S.nmShortName) : properSn S h k := by
  induction its with
  | nil => exact ho.elim
  | text _ r ih => exact ih hS ht ho
  | elem hd kk r ihk ihr =>
    rcases ho with ⟨rfl, rfl⟩ | ho | ho
    · exact ht.1 hn
    · exact ihk hS.2.1 (topOk_of_kidsOk S hd kk hS.1) ho
    · exact ihr hS.2.2 ht.2 ho

theorem kidsOk_of_occ (its : Items) (hS : SnOk S its) (h : Hdr) (k : Items) (ho : Occ h k its) : kidsOk S h k ∧ SnOk S k := by
  induction its with
  | nil => exact ho.elim
  | text _ r ih => exact ih hS ho
  | elem hd kk r ihk ihr =>
    rcases ho with ⟨rfl, rfl⟩ | ho | ho
    · exact ⟨hS.1, hS.2.1⟩
    · exact ihk hS.2.1 ho
    · exact ihr hS.2.2 ho

theorem MInv.topOk {nid : Nat} {m : Model} (hm : MInv S vOk nid m) : topOk S m.rootItems :=
  ⟨fun e => absurd e hm.rootName, trivial⟩

theorem rootItems_eq (m : Model) : m.rootItems = .elem m.rootHdr m.rootKids .nil := rfl

/-- an edit of node `x` that changes neither ids, names, file sets nor the entries below `x`: the invariant survives with
the same index.  (`m'` is the edited model: root as edited, index and files kept, anything else free.) -/
theorem minv_modify_same (nid : Nat) (m m' : Model) (x : Nat) (f : Hdr → Items → Hdr × Items) (hm : MInv S vOk nid m)
    (hroot : m'.rootItems = m.rootItems.modify x f) (hidx : m'.index = m.index) (hiss : m'.rootIssued = m.rootIssued)
    (hfiles : m'.files = m.files)
    (hv : KeepsView S x f m.rootItems) (hs : KeepsSn S x f m.rootItems)
    (hf : ∀ h k, Occ h k m.rootItems → h.id = x → (f h k).2.ids = k.ids ∧ (f h k).1.files = h.files ∧
      itemName S (f h k).1 (f h k).2 = itemName S h k ∧ ∀ pre, entries S (f h k).2 pre = entries S k pre) :
    MInv S vOk nid m' := by
  have hids : (m.rootItems.modify x f).ids = m.rootItems.ids :=
    ids_modify_same x f _ (fun h k ho e => ⟨(hv h k ho e).2.2.1, (hf h k ho e).1⟩)
  have hent : ∀ pre, entries S (m.rootItems.modify x f) pre = entries S m.rootItems pre :=
    entries_modify_same S x f _ hv (fun h k ho e => (hf h k ho e).2.2)
  have hr' : m'.rootItems = if m.rootHdr.id = x then .elem (f m.rootHdr m.rootKids).1 (f m.rootHdr m.rootKids).2 .nil
      else .elem m.rootHdr (m.rootKids.modify x f) .nil := by
    rw [hroot]; simp only [Model.rootItems, Items.modify]
  have hocc : Occ m.rootHdr m.rootKids m.rootItems := Or.inl ⟨rfl, rfl⟩
  refine ⟨?_, ?_, ?_, ?_, ?_, ?_, ?_, ?_, ?_⟩
  · rw [hfiles]; exact hm.vers
  · rw [hroot, hids]; exact hm.ids
  · intro hi; rw [hroot, hids]; exact hm.bound (hiss ▸ hi)
  · intro hi
    obtain ⟨hk, hfl⟩ := hm.fresh (hiss ▸ hi)
    have hids' : m'.rootItems.ids = m.rootItems.ids := by rw [hroot, hids]
    rw [rootItems_eq m'] at hr'
    split at hr'
    · rename_i he
      injection hr' with a b _
      have h2 := hf m.rootHdr m.rootKids hocc he
      rw [a, b]
      exact ⟨h2.1.trans hk, h2.2.1.trans hfl⟩
    · injection hr' with a b _
      simp only [rootItems_eq, Items.ids, a, List.append_nil, List.cons.injEq, true_and] at hids'
      rw [a]
      exact ⟨hids'.trans hk, hfl⟩
  · have hr2 := hr'
    rw [rootItems_eq m'] at hr2
    split at hr2
    · rename_i he
      injection hr2 with a _ _
      rw [a, (hv m.rootHdr m.rootKids hocc he).1]; exact hm.rootName
    · injection hr2 with a _ _
      rw [a]; exact hm.rootName
  · rw [hroot]; exact snOk_modify S x f _ hs hm.sn
  · rw [hroot, hent]; exact hm.keys
  · rw [hidx]; exact hm.idxKeys
  · intro q i; rw [hidx, hroot, hent]; exact hm.exact q i

end
end AV.W
