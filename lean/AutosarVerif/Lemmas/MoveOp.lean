/-
`move_element_here[_at]` inside one model (`opMove`), part 1: the normal form of the function (`opMove_cases`), the tree stays
well-formed (`opMove_wf`), the error frame (`opMove_err_frame`: unconditional since the repair of
c11:move-fails-without-item-name; `NameFail` is kept for the statements that name it).
Part 2 (the real move of an identifiable element: index, reverse reference map, C06, witness) is `MoveOpC06.lean`.
-/
import AutosarVerif.Lemmas.StepX
import AutosarVerif.Lemmas.DeepCopy

namespace AV.W
open Items

section defs
variable (S : Spec) (V : Env)

/-- the tree after `x` was taken out of the content of its parent `sph` -/
def mvRoot1 (m : Model) (sph : Hdr) (spk : Items) (x : Nat) : Items :=
  match spk.childPos x 0 with
  | some i => m.rootItems.modify sph.id fun h0 k0 => (h0, k0.removeAt i)
  | none => m.rootItems

/-- the renaming step of `opMove`: content of the moved element, its new path (`destPath`), and the flag "identifiable by type
but no item name" -/
def mvName (idx : List (Bytes × Nat)) (destPrefix : Bytes) (xh : Hdr) (xkids : Items) : Items × Bytes × Bool :=
  if isIdentifiable S xh xkids then
    match itemName S xh xkids with
    | some orig =>
      let (nm, cnt) := uniqueName idx destPrefix orig (idx.length + 2) 0
      ((if cnt > 0 then setShortName xkids nm else xkids), destPrefix ++ [47] ++ nm, false)
    | none => (xkids, destPrefix, true)
  else (xkids, destPrefix, false)

/-- the index after the move -/
def mvIdx (idx : List (Bytes × Nat)) (origPaths : List (Bytes × Nat)) (src dest : Bytes) (xh : Hdr) (xkids : Items) :
    List (Bytes × Nat) :=
  if isIdentifiable S xh xkids then idxFix idx src dest
  else origPaths.foldl (fun ix (op : Bytes × Nat) =>
    if src.isPrefixOf op.1 then idxFix ix op.1 (dest ++ op.1.drop src.length) else ix) idx

/-- one step of the reference rewriting loop of `opMove` -/
def mvStep (src dest : Bytes) (acc : List (Bytes × List Nat) × Items) (op : Bytes × Nat) :
    List (Bytes × List Nat) × Items :=
  if src.isPrefixOf op.1 ∧ acc.1.any (·.1 == op.1) then
    (moveKey acc.1 op.1 (dest ++ op.1.drop src.length),
      setRefTexts acc.2 (refsGet acc.1 op.1) (dest ++ op.1.drop src.length))
  else acc

/-- the header the moved element gets -/
def mvHdr (xh : Hdr) (p : Nat) : Hdr := { xh with parent := .elem p, files := [] }

/-- the tree after `x` was inserted at its destination -/
def mvRoot2 (m : Model) (sph : Hdr) (spk : Items) (x p pos : Nat) (xh : Hdr) (xk1 : Items) : Items :=
  (mvRoot1 m sph spk x).modify p fun h0 k0 => (h0, k0.insertAt (fun r => .elem (mvHdr xh p) xk1 r) pos)

/-- the model after the real move -/
def moveModel (m : Model) (sph : Hdr) (spk : Items) (x p pos : Nat) (xh : Hdr) (xkids : Items) (src destPrefix : Bytes)
    (origPaths : List (Bytes × Nat)) : Model :=
  { m.setRoot (origPaths.foldl (mvStep src (mvName S m.index destPrefix xh xkids).2.1)
        (m.refs, mvRoot2 m sph spk x p pos xh (mvName S m.index destPrefix xh xkids).1)).2 with
    index := mvIdx S m.index origPaths src (mvName S m.index destPrefix xh xkids).2.1 xh xkids
    refs := (origPaths.foldl (mvStep src (mvName S m.index destPrefix xh xkids).2.1)
        (m.refs, mvRoot2 m sph spk x p pos xh (mvName S m.index destPrefix xh xkids).1)).1 }

/-- the model after a position change inside the parent `p` -/
def posModel (m : Model) (p cur q : Nat) : Model :=
  m.setRoot (m.rootItems.modify p fun h0 k0 => (h0, movePos k0 cur q))

/-- what every branch of `opMove` that looks at the parent of `x` has established -/
structure MoveRun (w : World) (p x : Nat) (pos? : Option Nat) (k : Nat) (cx cp : List (Hdr × Items)) (ver lo hi : Nat)
    (sph : Hdr) (spk : Items) : Prop where
  ne : p ≠ x
  locx : locate w x = some (k, cx)
  locp : locate w p = some (k, cp)
  verx : minVersion V (w.models[k]!) cx = some ver
  verp : minVersion V (w.models[k]!) cp = some ver
  range : insertRange S (lastOf cp).1 (lastOf cp).2 (lastOf cx).1.name ver = some (lo, hi)
  pos : lo ≤ pos?.getD hi ∧ pos?.getD hi ≤ hi
  par : cx.dropLast.getLast? = some (sph, spk)

theorem opMove_cases (w : World) (p x : Nat) (pos? : Option Nat) :
    ((opMove S V w p x pos?).1 = w) ∨
    (∃ k cx cp ver lo hi sph spk q cur, MoveRun S V w p x pos? k cx cp ver lo hi sph spk ∧ sph.id = p ∧ pos? = some q ∧
      q < (lastOf cp).2.length ∧ (lastOf cp).2.childPos x 0 = some cur ∧
      opMove S V w p x pos? = (setModel w k (posModel (w.models[k]!) p cur q), .ok "")) ∨
    (∃ k cx cp ver lo hi sph spk, MoveRun S V w p x pos? k cx cp ver lo hi sph spk ∧ sph.id ≠ p ∧
      (cp.any fun (h, _) => h.id = x) = false ∧
      (mvName S (w.models[k]!).index (pathOfChain S cp) (lastOf cx).1 (lastOf cx).2).2.2 = false ∧
      opMove S V w p x pos? = (setModel w k (moveModel S (w.models[k]!) sph spk x p (pos?.getD hi) (lastOf cx).1 (lastOf cx).2
        (pathOfChain S cx) (pathOfChain S cp)
        (subtreePaths S ((lastOf cx).2.size + 2) (lastOf cx).1 (lastOf cx).2 (namesOfChain S cx.dropLast))), .ok "")) := by
  fun_cases opMove S V w p x pos?
  all_goals try exact Or.inl rfl
  case case8 =>
    rename_i hne kx cx kp cp hlp hlx m mx vx ver hvp hvx hv ph pk hlastp xh xk hlastx lo hi hr hk sph spk hpar hsp q hq cur hcur
      pos hpos
    obtain rfl : kx = kp := Decidable.not_not.mp hk
    obtain rfl : vx = ver := Decidable.not_not.mp hv
    have e1 : (lastOf cp).2 = pk := by rw [hlastp]
    have e2 : (lastOf cp).1 = ph := by rw [hlastp]
    have e3 : (lastOf cx).1 = xh := by rw [hlastx]
    refine Or.inr (Or.inl ⟨kx, cx, cp, vx, lo, hi, sph, spk, q, cur,
      ⟨hne, hlx, hlp, hvx, hvp, by rw [e1, e2, e3]; exact hr, Decidable.not_not.mp hpos, hpar⟩, hsp, rfl, by rw [e1]; exact hq,
      by rw [e1]; exact hcur, rfl⟩)
  case case13 =>
    rename_i hne kx cx kp cp hlp hlx m mx vx ver hvp hvx hv ph pk hlastp xh xk hlastx lo hi hr hk sph spk hpar hsp hany
      srcPrefix destPrefix origPaths root1 xh1 xk1 destPath nameFail hname hnf idx1 rs' root3 pos hpos root2 hloop
    obtain rfl : kx = kp := Decidable.not_not.mp hk
    obtain rfl : vx = ver := Decidable.not_not.mp hv
    have e1 : (lastOf cp).2 = pk := by rw [hlastp]
    have e2 : (lastOf cp).1 = ph := by rw [hlastp]
    have e3 : (lastOf cx).1 = xh := by rw [hlastx]
    have e4 : (lastOf cx).2 = xk := by rw [hlastx]
    have h1 : mvName S (w.models[kx]!).index (pathOfChain S cp) xh xk = (xk1, destPath, nameFail) := hname
    have hnf' : nameFail = false := by simpa using hnf
    have h2 : origPaths.foldl (mvStep (pathOfChain S cx) destPath)
        ((w.models[kx]!).refs, mvRoot2 (w.models[kx]!) sph spk x p (pos?.getD hi) xh xk1) = (rs', root3) := hloop
    refine Or.inr (Or.inr ⟨kx, cx, cp, vx, lo, hi, sph, spk,
      ⟨hne, hlx, hlp, hvx, hvp, by rw [e1, e2, e3]; exact hr, Decidable.not_not.mp hpos, hpar⟩, hsp, by simpa using hany,
      by rw [e3, e4, h1, hnf'], ?_⟩)
    unfold moveModel
    rw [e3, e4, h1, h2]
    rfl

/-! ### the pieces -/

theorem mvName_cases (idx : List (Bytes × Nat)) (destPrefix : Bytes) (xh : Hdr) (xkids : Items) :
    (isIdentifiable S xh xkids = false ∧ mvName S idx destPrefix xh xkids = (xkids, destPrefix, false)) ∨
    (isIdentifiable S xh xkids = true ∧ itemName S xh xkids = none ∧ mvName S idx destPrefix xh xkids = (xkids, destPrefix, true)) ∨
    (∃ orig, isIdentifiable S xh xkids = true ∧ itemName S xh xkids = some orig ∧
      mvName S idx destPrefix xh xkids =
        ((if (uniqueName idx destPrefix orig (idx.length + 2) 0).2 > 0
            then setShortName xkids (uniqueName idx destPrefix orig (idx.length + 2) 0).1 else xkids),
          destPrefix ++ [47] ++ (uniqueName idx destPrefix orig (idx.length + 2) 0).1, false)) := by
  unfold mvName
  cases hi : isIdentifiable S xh xkids with
  | false => exact Or.inl ⟨rfl, by simp⟩
  | true =>
    right
    cases hn : itemName S xh xkids with
    | none => exact Or.inl ⟨rfl, rfl, by simp⟩
    | some orig => exact Or.inr ⟨orig, rfl, rfl, by simp⟩

theorem mvName_wf (idx : List (Bytes × Nat)) (destPrefix : Bytes) (xh : Hdr) (xkids : Items) (e : PRef) (h : xkids.wf e) :
    (mvName S idx destPrefix xh xkids).1.wf e := by
  rcases mvName_cases S idx destPrefix xh xkids with ⟨_, h1⟩ | ⟨_, _, h1⟩ | ⟨orig, _, _, h1⟩
  · rw [h1]; exact h
  · rw [h1]; exact h
  · rw [h1]
    dsimp only
    split
    · exact setShortName_wf xkids _ e h
    · exact h

/-- a property of forests that every single text replacement keeps is kept by the reference rewriting loop of `opMove` -/
theorem mvLoop_pres (P : Items → Prop) (hP : ∀ its t txt, P its → P (its.modify t (refEdit txt))) (src dest : Bytes)
    (l : List (Bytes × Nat)) : ∀ (acc : List (Bytes × List Nat) × Items), P acc.2 → P (l.foldl (mvStep src dest) acc).2 := by
  induction l with
  | nil => intro acc ha; exact ha
  | cons e l ih =>
    intro acc ha
    rw [List.foldl_cons]
    apply ih
    unfold mvStep
    split
    · exact setRefTexts_pres P hP _ _ _ ha
    · exact ha

/-! ### C03: the tree stays well-formed -/

theorem occ_wf {h0 : Hdr} {k0 : Items} (its : Items) (exp : PRef) (hw : its.wf exp) (ho : Occ h0 k0 its) :
    k0.wf (.elem h0.id) ∧ ∃ e, h0.parent = e := by
  induction its generalizing exp with
  | nil => exact ho.elim
  | text c r ih => exact ih exp hw ho
  | elem hd k r ihk ihr =>
    rcases ho with ⟨rfl, rfl⟩ | ho | ho
    · exact ⟨hw.2.1, _, rfl⟩
    · exact ihk _ hw.2.1 ho
    · exact ihr _ hw.2.2 ho

theorem rootWf_modify' (t : Nat) (f : Hdr → Items → Hdr × Items)
    (hf : ∀ h k, h.id = t → (f h k).1.id = h.id ∧ (f h k).1.parent = h.parent ∧ (k.wf (.elem h.id) → (f h k).2.wf (.elem h.id)))
    (its : Items) (h : rootWf its) : rootWf (its.modify t f) := by
  cases its with
  | nil => trivial
  | text c r => trivial
  | elem hd k r =>
    simp only [Items.modify]
    split
    · rename_i heq
      obtain ⟨h1, _, h3⟩ := hf hd k heq
      show Items.wf (.elem (f hd k).1.id) (f hd k).2
      rw [h1]; exact h3 h
    · exact modify_wf' t f hf k _ h

theorem movePos_eq (k : Items) (cur q : Nat) :
    movePos k cur q = match movePos.item k cur with
      | some mk => (k.removeAt cur).insertAt mk q
      | none => k := rfl

theorem movePos_item (k : Items) (cur : Nat) :
    (movePos.item k cur = none ∧ k.length ≤ cur) ∨
    (∃ h kk, movePos.item k cur = some (fun r => .elem h kk r) ∧ itemAt k cur = .elem h kk .nil) ∨
    (∃ c, movePos.item k cur = some (fun r => .text c r) ∧ itemAt k cur = .text c .nil) := by
  induction k generalizing cur with
  | nil => exact Or.inl ⟨rfl, Nat.zero_le _⟩
  | text c r ih =>
    cases cur with
    | zero => exact Or.inr (Or.inr ⟨c, rfl, rfl⟩)
    | succ n =>
      rcases ih n with ⟨a, b⟩ | h | h
      · exact Or.inl ⟨a, by simp only [Items.length]; omega⟩
      · exact Or.inr (Or.inl h)
      · exact Or.inr (Or.inr h)
  | elem hd kk r _ ih =>
    cases cur with
    | zero => exact Or.inr (Or.inl ⟨hd, kk, rfl, rfl⟩)
    | succ n =>
      rcases ih n with ⟨a, b⟩ | h | h
      · exact Or.inl ⟨a, by simp only [Items.length]; omega⟩
      · exact Or.inr (Or.inl h)
      · exact Or.inr (Or.inr h)

theorem itemAt_wf (k : Items) (cur : Nat) (exp : PRef) (h : k.wf exp) : (itemAt k cur).wf exp := by
  induction k generalizing cur with
  | nil => trivial
  | text c r ih =>
    cases cur with
    | zero => trivial
    | succ n => exact ih n h
  | elem hd kk r _ ih =>
    cases cur with
    | zero => exact ⟨h.1, h.2.1, trivial⟩
    | succ n => exact ih n h.2.2

theorem movePos_wf (k : Items) (cur q : Nat) (exp : PRef) (h : k.wf exp) : (movePos k cur q).wf exp := by
  rw [movePos_eq]
  have hi := itemAt_wf k cur exp h
  rcases movePos_item k cur with ⟨a, _⟩ | ⟨hd, kk, a, b⟩ | ⟨c, a, b⟩
  · rw [a]; exact h
  · rw [a]
    rw [b] at hi
    exact insertAt_wf (fun r => .elem hd kk r) exp (fun r hr => ⟨hi.1, hi.2.1, hr⟩) _ q (removeAt_wf exp k cur h)
  · rw [a]
    exact insertAt_wf (fun r => .text c r) exp (fun r hr => hr) _ q (removeAt_wf exp k cur h)

theorem mvRoot1_rootWf (m : Model) (sph : Hdr) (spk : Items) (x : Nat) (hm : m.wfM) : rootWf (mvRoot1 m sph spk x) := by
  unfold mvRoot1
  split
  · exact rootWf_modify _ _ (fun h k => ⟨rfl, rfl, fun hk => removeAt_wf _ k _ hk⟩) _ hm
  · exact hm

theorem setRoot_rootItems_of_hasRoot (m : Model) (H : Hdr) (its : Items) (h : HasRoot H its) : (m.setRoot its).rootItems = its :=
  (setRoot_hasRoot m H its h).1

/-- 2. `move_element_here` keeps the parent fields in step with the structure — in every branch -/
theorem opMove_wf (w : World) (p x : Nat) (pos? : Option Nat) (hw : w.wf) : (opMove S V w p x pos?).1.wf := by
  rcases opMove_cases S V w p x pos? with h | ⟨k, cx, cp, ver, lo, hi, sph, spk, q, cur, hr, hsp, hq, hlen, hcur, he⟩ |
    ⟨k, cx, cp, ver, lo, hi, sph, spk, hr, hsp, hany, hf, he⟩
  · rw [h]; exact hw
  · rw [he]
    apply wf_setModel' w k _ hw
    exact wfM_modify _ _ _ (fun h kk _ => ⟨rfl, rfl, fun hk => movePos_wf kk cur q _ hk⟩) (wfM_getElem! w k hw)
  · rw [he]
    apply wf_setModel' w k _ hw
    obtain ⟨m, _, hm2, hmem, hc⟩ := locate_chain w x k cx hr.locx
    rw [hm2]
    have hm : m.wfM := (World.wf_iff w).mp hw m hmem
    apply wfM_of_eq (Model.setRoot _ _) _ rfl rfl
    apply setRoot_wfM _ _ hm
    apply mvLoop_pres rootWf (fun its t txt hi => rootWf_modify t _ (refEdit_wf txt) its hi)
    show rootWf (mvRoot2 m sph spk x p (pos?.getD hi) _ _)
    unfold mvRoot2
    refine rootWf_modify' p _ ?_ _ (mvRoot1_rootWf m sph spk x hm)
    intro h kk hid
    refine ⟨rfl, rfl, fun hk => insertAt_wf _ _ (fun r hr' => ?_) kk _ hk⟩
    rw [hid] at hr' ⊢
    refine ⟨rfl, ?_, hr'⟩
    apply mvName_wf
    exact (occ_wf m.rootItems _ (rootItems_wf m hm) (chain_occ x m.rootItems cx hc).1).1

/-! ### 5. the error frame -/

/-- the former partial failure of `move_element_here` (finding c11:move-fails-without-item-name, repaired): the element to
move is identifiable by type (its type is named and its first content item is called SHORT-NAME) but has no item name; the Rust
code used to notice after it had unlinked the element, now it refuses before anything changes (`opMove_err_frame`) -/
def NameFail (w : World) (p x : Nat) : Prop :=
  ∃ k cx cp, locate w x = some (k, cx) ∧ locate w p = some (k, cp) ∧
    isIdentifiable S (lastOf cx).1 (lastOf cx).2 = true ∧ itemName S (lastOf cx).1 (lastOf cx).2 = none

theorem mvName_fail (idx : List (Bytes × Nat)) (destPrefix : Bytes) (xh : Hdr) (xkids : Items) :
    (mvName S idx destPrefix xh xkids).2.2 = true ↔ isIdentifiable S xh xkids = true ∧ itemName S xh xkids = none := by
  rcases mvName_cases S idx destPrefix xh xkids with ⟨h0, h1⟩ | ⟨h0, h2, h1⟩ | ⟨orig, h0, h2, h1⟩
  · rw [h1, h0]; simp
  · rw [h1, h0, h2]; simp
  · rw [h1, h0, h2]; simp

/-- an error answer: nothing has changed (unconditionally, since the repair of c11:move-fails-without-item-name) -/
theorem opMove_err_frame (w : World) (p x : Nat) (pos? : Option Nat) (h : (opMove S V w p x pos?).2 = .err) :
    (opMove S V w p x pos?).1 = w := by
  rcases opMove_cases S V w p x pos? with h0 | ⟨k, cx, cp, ver, lo, hi, sph, spk, q, cur, hr, hsp, hq, hlen, hcur, he⟩ |
    ⟨k, cx, cp, ver, lo, hi, sph, spk, hr, hsp, hany, hf, he⟩
  · exact h0
  · rw [he] at h; cases h
  · rw [he] at h; cases h

/-- under the index invariant (SHORT-NAME discipline) the situation `NameFail` does not occur: a first content item called
SHORT-NAME of an element of a named type is a proper SHORT-NAME (`create_named_sub_element` creates it together with the
element), so an element that is identifiable by type has an item name -/
theorem nameFail_impossible (vOk : Nat) (w : World) (hw : WInv S vOk w) (p x : Nat) : ¬ NameFail S w p x := by
  rintro ⟨k, cx, cp, hlx, _, hi, hn⟩
  obtain ⟨m, _, _, hmem, hc⟩ := locate_chain w x k cx hlx
  obtain ⟨ho, _⟩ := chain_occ x m.rootItems cx hc
  obtain ⟨n, hn'⟩ := itemName_of_identifiable S _ _ (kidsOk_of_occ S _ (hw m hmem).sn _ _ ho).1 hi
  rw [hn] at hn'; cases hn'

/-- in a world with the index invariant a refused `move_element_here` changes nothing (a corollary of the unconditional
`opMove_err_frame`; the hypothesis is no longer needed) -/
theorem opMove_err_frame_winv (vOk : Nat) (w : World) (hw : WInv S vOk w) (p x : Nat) (pos? : Option Nat)
    (h : (opMove S V w p x pos?).2 = .err) : (opMove S V w p x pos?).1 = w :=
  have _ := hw
  opMove_err_frame S V w p x pos? h

/-- a move between models is answered with `unsupported` and changes nothing -/
theorem opMove_unsupported_frame (w : World) (p x : Nat) (pos? : Option Nat) (h : (opMove S V w p x pos?).2 = .unsupported) :
    (opMove S V w p x pos?).1 = w := by
  rcases opMove_cases S V w p x pos? with h0 | ⟨k, cx, cp, ver, lo, hi, sph, spk, q, cur, hr, hsp, hq, hlen, hcur, he⟩ |
    ⟨k, cx, cp, ver, lo, hi, sph, spk, hr, hsp, hany, hf, he⟩
  · exact h0
  · rw [he] at h; cases h
  · rw [he] at h; cases h

end defs
end AV.W
