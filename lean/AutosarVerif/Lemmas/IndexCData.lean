/-
C04, the history invariant, part 4: `set_character_data` (`opCData`), including the SHORT-NAME case = renaming the parent
through the text of its SHORT-NAME.
-/
import AutosarVerif.Lemmas.IndexOps3

namespace AV.W
open Items

section
variable (S : Spec) (V : Env) (vOk : Nat)

/-! ### small list facts -/

theorem dropLast_cons_ne {α : Type} (a : α) (l : List α) (h : l ≠ []) : (a :: l).dropLast = a :: l.dropLast := by
  cases l with
  | nil => exact absurd rfl h
  | cons b bs => rfl

theorem getLast?_cons_ne {α : Type} (a : α) (l : List α) (h : l ≠ []) : (a :: l).getLast? = l.getLast? := by
  cases l with
  | nil => exact absurd rfl h
  | cons b bs => exact List.getLast?_cons_cons

theorem lastOf_cons (a : Hdr × Items) (c : List (Hdr × Items)) (hc : c ≠ []) : lastOf (a :: c) = lastOf c := by
  unfold lastOf
  rw [getLast?_cons_ne a c hc]

theorem lastOf_of_getLast? (c : List (Hdr × Items)) (a : Hdr × Items) (h : c.getLast? = some a) : lastOf c = a := by
  unfold lastOf
  rw [h]; rfl

theorem chain_ne_nil (t : Nat) (its : Items) (c : List (Hdr × Items)) (hc : its.chain t = some c) : c ≠ [] := by
  obtain ⟨h, k, hl, _⟩ := chain_last t its c hc
  intro e
  rw [e] at hl
  cases hl

theorem chain_none_of_not_mem (t : Nat) (its : Items) (h : t ∉ its.ids) : its.chain t = none := by
  cases hc : its.chain t with
  | none => rfl
  | some c => exact absurd (chain_mem_ids t its c hc) h

theorem eq_of_nodup_map_snd (l : List (Bytes × Nat)) (hn : (l.map (·.2)).Nodup) (a b : Bytes × Nat)
    (ha : a ∈ l) (hb : b ∈ l) (e : a.2 = b.2) : a = b := by
  induction l with
  | nil => cases ha
  | cons x xs ih =>
    rw [List.map_cons, List.nodup_cons] at hn
    rcases List.mem_cons.mp ha with ha | ha <;> rcases List.mem_cons.mp hb with hb | hb
    · rw [ha, hb]
    · exfalso; apply hn.1; rw [← ha, e]; exact List.mem_map.mpr ⟨b, hb, rfl⟩
    · exfalso; apply hn.1; rw [← hb, ← e]; exact List.mem_map.mpr ⟨a, ha, rfl⟩
    · exact ih hn.2 ha hb

/-- pairwise different values and at most one value per key: pairwise different keys -/
theorem keysNodup_of_functional (l : List (Bytes × Nat)) (hids : (l.map (·.2)).Nodup)
    (hfun : ∀ q i j, (q, i) ∈ l → (q, j) ∈ l → i = j) : keysNodupI l := by
  unfold keysNodupI
  induction l with
  | nil => exact List.nodup_nil
  | cons e es ih =>
    rw [List.map_cons, List.nodup_cons] at hids ⊢
    refine ⟨?_, ih hids.2 (fun q i j hi hj => hfun q i j (List.mem_cons_of_mem _ hi) (List.mem_cons_of_mem _ hj))⟩
    intro hmem
    obtain ⟨y, hy, hye⟩ := List.mem_map.mp hmem
    apply hids.1
    have hy' : (e.1, y.2) ∈ e :: es := by
      apply List.mem_cons_of_mem
      have : y = (e.1, y.2) := by rw [← hye]
      rw [← this]; exact hy
    have := hfun e.1 e.2 y.2 List.mem_cons_self hy'
    rw [this]
    exact List.mem_map.mpr ⟨y, hy, rfl⟩

/-! ### chains: the parent of a node -/

/-- top-level element of a forest -/
def TopEl (h0 : Hdr) (k0 : Items) : Items → Prop
  | .nil => False
  | .text _ r => TopEl h0 k0 r
  | .elem h k r => (h = h0 ∧ k = k0) ∨ TopEl h0 k0 r

/-- the node a chain leads to is a top-level node of the forest, or a top-level node of the content of the last but one node
of the chain, whose chain is the chain without its last node -/
theorem chain_parent (t : Nat) (its : Items) (c : List (Hdr × Items)) (hc : its.chain t = some c) (hn : its.ids.Nodup) :
    (c.dropLast = [] ∧ TopEl (lastOf c).1 (lastOf c).2 its) ∨
    (∃ ph pk, c.dropLast.getLast? = some (ph, pk) ∧ Occ ph pk its ∧ TopEl (lastOf c).1 (lastOf c).2 pk ∧
      its.chain ph.id = some c.dropLast) := by
  induction its generalizing c with
  | nil => simp [Items.chain] at hc
  | text _ r ih => exact ih c hc (by simpa [Items.ids] using hn)
  | elem hd k r ihk ihr =>
    simp only [Items.ids, List.nodup_cons, List.nodup_append, List.mem_append, not_or] at hn
    obtain ⟨hn1, hnk, hnr, hdis⟩ := hn
    simp only [Items.chain] at hc
    split at hc
    · rename_i heq
      simp at hc; subst hc
      exact Or.inl ⟨rfl, Or.inl ⟨rfl, rfl⟩⟩
    · rename_i hne
      split at hc
      · rename_i c' hk
        simp at hc; subst hc
        have hne' : c' ≠ [] := chain_ne_nil t k c' hk
        right
        rw [lastOf_cons _ _ hne', dropLast_cons_ne _ _ hne']
        rcases ihk c' hk hnk with ⟨hd0, htop⟩ | ⟨ph, pk, hgl, ho, htop, hch⟩
        · refine ⟨hd, k, by rw [hd0]; rfl, Or.inl ⟨rfl, rfl⟩, htop, ?_⟩
          rw [hd0]
          simp only [Items.chain, if_true]
        · have hdl : c'.dropLast ≠ [] := by
            intro e; rw [e] at hgl; cases hgl
          refine ⟨ph, pk, by rw [getLast?_cons_ne _ _ hdl]; exact hgl, Or.inr (Or.inl ho), htop, ?_⟩
          have hpid : hd.id ≠ ph.id := fun e => hn1.1 (e ▸ ho.id_mem)
          simp only [Items.chain, if_neg hpid, hch]
      · rename_i hk
        rcases ihr c hc hnr with ⟨hd0, htop⟩ | ⟨ph, pk, hgl, ho, htop, hch⟩
        · exact Or.inl ⟨hd0, Or.inr htop⟩
        · right
          refine ⟨ph, pk, hgl, Or.inr (Or.inr ho), htop, ?_⟩
          have hpid : hd.id ≠ ph.id := fun e => hn1.2 (e ▸ ho.id_mem)
          have hpk : ph.id ∉ k.ids := fun hx => hdis _ hx _ ho.id_mem rfl
          simp only [Items.chain, if_neg hpid, chain_none_of_not_mem _ k hpk, hch]

theorem findNamed_none_of_not_mem (its : Items) (pre : Bytes) (t : Nat) (h : t ∉ its.ids) : findNamed S its pre t = none := by
  induction its generalizing pre with
  | nil => rfl
  | text c r ih => simp only [findNamed]; exact ih pre (by simpa [Items.ids] using h)
  | elem hd k r ihk ihr =>
    simp only [Items.ids, List.mem_cons, List.mem_append, not_or] at h
    have hne : hd.id ≠ t := fun e => h.1 e.symm
    simp only [findNamed]
    cases itemName S hd k with
    | none => simp only [if_neg hne, ihk _ h.2.1, ihr _ h.2.2]
    | some n => simp only [if_neg hne, ihk _ h.2.1, ihr _ h.2.2]

/-- the named element a chain leads to is found by `findNamed`, with the path of the chain -/
theorem findNamed_chain (t : Nat) (its : Items) (c : List (Hdr × Items)) (hc : its.chain t = some c) (pre n : Bytes)
    (hn : itemName S (lastOf c).1 (lastOf c).2 = some n) :
    findNamed S its pre t = some (chainPre S c pre, n, (lastOf c).2) := by
  induction its generalizing c pre with
  | nil => simp [Items.chain] at hc
  | text _ r ih => simp only [findNamed]; exact ih c hc pre hn
  | elem hd k r ihk ihr =>
    simp only [Items.chain] at hc
    split at hc
    · rename_i heq
      simp at hc; subst hc
      have hl : lastOf [(hd, k)] = (hd, k) := rfl
      rw [hl] at hn ⊢
      simp only [findNamed, hn, heq, if_true, chainPre]
    · rename_i hne
      split at hc
      · rename_i c' hk
        simp at hc; subst hc
        have hne' : c' ≠ [] := chain_ne_nil t k c' hk
        rw [lastOf_cons _ _ hne'] at hn ⊢
        simp only [findNamed, chainPre]
        cases hin : itemName S hd k with
        | none => simp only [if_neg hne, ihk c' hk pre hn]
        | some m => simp only [if_neg hne, ihk c' hk _ hn]
      · rename_i hk
        have hnot : t ∉ k.ids := by
          intro hx
          obtain ⟨c', hc'⟩ := chain_some_of_mem t k hx
          rw [hc'] at hk
          cases hk
        simp only [findNamed]
        cases hin : itemName S hd k with
        | none => simp only [if_neg hne, findNamed_none_of_not_mem S k _ t hnot, ihr c hc pre hn]
        | some m => simp only [if_neg hne, findNamed_none_of_not_mem S k _ t hnot, ihr c hc pre hn]

/-- the ids of the entries, in order, are among the ids of the forest, in order -/
theorem entries_ids_sublist (its : Items) (pre : Bytes) : ((entries S its pre).map (·.2)).Sublist its.ids := by
  induction its generalizing pre with
  | nil => exact List.Sublist.refl _
  | text c r ih => exact ih pre
  | elem hd k r ihk ihr =>
    simp only [entries, Items.ids]
    cases itemName S hd k with
    | none =>
      simp only [List.map_append]
      exact List.Sublist.cons _ (List.Sublist.append (ihk _) (ihr _))
    | some m =>
      simp only [List.map_cons, List.map_append]
      exact List.Sublist.cons_cons _ (List.Sublist.append (ihk _) (ihr _))

theorem entries_ids_nodup (its : Items) (hn : its.ids.Nodup) (pre : Bytes) : ((entries S its pre).map (·.2)).Nodup :=
  List.Nodup.sublist (entries_ids_sublist S its pre) hn

theorem entries_id_mem (its : Items) (pre q : Bytes) (i : Nat) (h : (q, i) ∈ entries S its pre) : i ∈ its.ids :=
  (entries_ids_sublist S its pre).subset (List.mem_map.mpr ⟨(q, i), h, rfl⟩)

/-- the key of the entry of an element is the prefix the element hands down to its content -/
theorem kpre_of_entry (its : Items) (hn : its.ids.Nodup) (pre q : Bytes) (i : Nat) (h : (q, i) ∈ entries S its pre) :
    kpre S its pre i = some q := by
  induction its generalizing pre with
  | nil => cases h
  | text c r ih => simp only [kpre]; exact ih (by simpa [Items.ids] using hn) pre h
  | elem hd k r ihk ihr =>
    simp only [Items.ids, List.nodup_cons, List.nodup_append, List.mem_append, not_or] at hn
    obtain ⟨hn1, hnk, hnr, hdis⟩ := hn
    simp only [entries] at h
    simp only [kpre]
    cases hin : itemName S hd k with
    | none =>
      rw [hin] at h
      simp only [List.mem_append] at h
      rcases h with h | h
      · have hi := entries_id_mem S k _ q i h
        have hne : hd.id ≠ i := fun e => hn1.1 (e ▸ hi)
        simp only [if_neg hne, ihk hnk _ h]
      · have hi := entries_id_mem S r _ q i h
        have hne : hd.id ≠ i := fun e => hn1.2 (e ▸ hi)
        have hk : i ∉ k.ids := fun hx => hdis _ hx _ hi rfl
        simp only [if_neg hne, kpre_none_of_not_mem S k _ i hk, ihr hnr _ h]
    | some m =>
      rw [hin] at h
      simp only [List.mem_cons, List.mem_append] at h
      rcases h with h | h | h
      · obtain ⟨rfl, rfl⟩ := Prod.mk.inj h
        simp only [if_true]
      · have hi := entries_id_mem S k _ q i h
        have hne : hd.id ≠ i := fun e => hn1.1 (e ▸ hi)
        simp only [if_neg hne, ihk hnk _ h]
      · have hi := entries_id_mem S r _ q i h
        have hne : hd.id ≠ i := fun e => hn1.2 (e ▸ hi)
        have hk : i ∉ k.ids := fun hx => hdis _ hx _ hi rfl
        simp only [if_neg hne, kpre_none_of_not_mem S k _ i hk, ihr hnr _ h]

/-! ### replacing the content of a node that has no sub-elements -/

/-- what the replacement does to a node of a chain -/
def retextG (t : Nat) (nk : Items) (hk : Hdr × Items) : Hdr × Items :=
  if hk.1.id = t then (hk.1, nk) else (hk.1, hk.2.modify t fun h0 _ => (h0, nk))

theorem chain_modify_retext (t y : Nat) (nk : Items) (hnk : nk.ids = []) (its : Items)
    (hold : ∀ h k, Occ h k its → h.id = t → k.ids = []) :
    (its.modify t fun h0 _ => (h0, nk)).chain y = (its.chain y).map (List.map (retextG t nk)) := by
  induction its with
  | nil => rfl
  | text c r ih => simp only [Items.modify, Items.chain]; exact ih hold
  | elem hd k r ihk ihr =>
    have ihk := ihk (fun h0 k0 ho => hold h0 k0 (Or.inr (Or.inl ho)))
    have ihr := ihr (fun h0 k0 ho => hold h0 k0 (Or.inr (Or.inr ho)))
    by_cases heq : hd.id = t
    · have hk0 : k.ids = [] := hold hd k (Or.inl ⟨rfl, rfl⟩) heq
      have h1 : nk.chain y = none := chain_none_of_not_mem y nk (by rw [hnk]; exact List.not_mem_nil)
      have h2 : k.chain y = none := chain_none_of_not_mem y k (by rw [hk0]; exact List.not_mem_nil)
      rw [modify_elem_eq t _ hd k r heq]
      simp only [Items.chain]
      by_cases hy : hd.id = y
      · simp only [if_pos hy, Option.map_some, List.map_cons, List.map_nil, retextG, if_pos heq]
      · simp only [if_neg hy, h1, h2, ihr]
    · rw [modify_elem_ne t _ hd k r heq]
      simp only [Items.chain]
      by_cases hy : hd.id = y
      · simp only [if_pos hy, Option.map_some, List.map_cons, List.map_nil, retextG, if_neg heq]
      · simp only [if_neg hy, ihk]
        cases k.chain y with
        | none => simp only [Option.map_none, ihr]
        | some c => simp only [Option.map_some, List.map_cons, retextG, if_neg heq]

/-- an edit that gives every node what it has already changes nothing -/
theorem modify_id (t : Nat) (f : Hdr → Items → Hdr × Items) (its : Items)
    (hf : ∀ h k, Occ h k its → h.id = t → f h k = (h, k)) : its.modify t f = its := by
  induction its with
  | nil => rfl
  | text c r ih => simp only [Items.modify]; rw [ih hf]
  | elem hd k r ihk ihr =>
    have ihk := ihk (fun h0 k0 ho => hf h0 k0 (Or.inr (Or.inl ho)))
    have ihr := ihr (fun h0 k0 ho => hf h0 k0 (Or.inr (Or.inr ho)))
    by_cases heq : hd.id = t
    · rw [modify_elem_eq t f hd k r heq, hf hd k (Or.inl ⟨rfl, rfl⟩) heq, ihr]
    · rw [modify_elem_ne t f hd k r heq, ihk, ihr]

/-! ### the situation of a SHORT-NAME element -/

theorem noSnTop_topEl (r : Items) (hr : noSnTop S r) (h : Hdr) (k : Items) (ht : TopEl h k r) : h.name ≠ S.nmShortName := by
  induction r with
  | nil => exact ht.elim
  | text _ r' ih => exact ih hr ht
  | elem hd kk r' _ ih =>
    rcases ht with ⟨rfl, _⟩ | ht
    · exact hr.1
    · exact ih hr.2 ht

/-- a top-level element called SHORT-NAME is the first content item -/
theorem topEl_sn_first (ph h : Hdr) (kids pk : Items) (hk : kidsOk S ph pk) (ht : TopEl h kids pk)
    (hn : h.name = S.nmShortName) : ∃ rest, pk = .elem h kids rest := by
  cases pk with
  | nil => exact ht.elim
  | text _ r => exact absurd hn (noSnTop_topEl S r hk h kids ht)
  | elem sh sk rest =>
    rcases ht with ⟨rfl, rfl⟩ | ht
    · exact ⟨rest, rfl⟩
    · exact absurd hn (noSnTop_topEl S rest hk.2 h kids ht)

/-- the element called SHORT-NAME that navigation found: it is a proper SHORT-NAME, the first content item of its parent, the
parent is a named element whose path is the path of the chain without its last node -/
theorem sn_context {nid : Nat} {m : Model} (hm : MInv S vOk nid m) (x : Nat) (c : List (Hdr × Items))
    (hc : m.rootItems.chain x = some c) (hname : (lastOf c).1.name = S.nmShortName) :
    ∃ ph rest oldName,
      (lastOf c).2 = .text (.str oldName) .nil ∧
      c.dropLast.getLast? = some (ph, .elem (lastOf c).1 (.text (.str oldName) .nil) rest) ∧
      properSn S (lastOf c).1 (lastOf c).2 ∧
      S.isNamed ph.ety.typ = true ∧ S.subAt ph.ety.typ 0 = .elem (lastOf c).1.ety.defId ∧
      (lastOf c).1.ety.typ = S.defType (lastOf c).1.ety.defId ∧
      m.rootItems.chain ph.id = some c.dropLast ∧
      findNamed S m.rootItems [] ph.id =
        some (pathOfChain S c.dropLast, oldName, .elem (lastOf c).1 (.text (.str oldName) .nil) rest) := by
  obtain ⟨ho, hid⟩ := chain_occ x m.rootItems c hc
  have hp := sn_proper_of_occ S _ hm.sn (hm.topOk S vOk) _ _ ho hname
  have hp' := hp
  obtain ⟨_, _, _, oldName, hkids, _⟩ := hp'
  rcases chain_parent x m.rootItems c hc hm.ids with ⟨_, htop⟩ | ⟨ph, pk, hgl, hop, htop, hch⟩
  · exfalso
    rcases htop with ⟨e, _⟩ | htop
    · exact hm.rootName (e ▸ hname)
    · exact htop
  · obtain ⟨hko, _⟩ := kidsOk_of_occ S _ hm.sn ph pk hop
    obtain ⟨rest, hpk⟩ := topEl_sn_first S ph _ _ pk hko htop hname
    subst hpk
    obtain ⟨⟨hnamed, _, hsub, htyp⟩, _⟩ := hko.1 hname
    obtain ⟨_, n, _, hshape, _, hin, _⟩ := (itemName_of_kidsOk S ph _ hko).1 hname
    have hn : n = oldName := by
      injection hshape with _ h2 _
      rw [hkids] at h2
      injection h2 with h3 _
      injection h3 with h4
      exact h4.symm
    subst hn
    have hl : lastOf c.dropLast = (ph, .elem (lastOf c).1 (lastOf c).2 rest) := lastOf_of_getLast? _ _ hgl
    have hfn := findNamed_chain S ph.id m.rootItems c.dropLast hch [] n (by rw [hl]; exact hin)
    rw [hl, chainPre_nil] at hfn
    refine ⟨ph, rest, n, hkids, ?_, hp, hnamed, hsub, htyp, hch, ?_⟩
    · rw [hgl, hkids]
    · rw [hfn, hkids]

/-! ### the model after the edit -/

/-- an edit of node `x` that keeps the ids and the SHORT-NAME discipline; the new index is given with its facts -/
theorem minv_modify_idx (nid : Nat) (m m' : Model) (x : Nat) (f : Hdr → Items → Hdr × Items) (hm : MInv S vOk nid m)
    (hroot : m'.rootItems = m.rootItems.modify x f) (hhdr : m'.rootHdr = m.rootHdr)
    (hiss : m'.rootIssued = m.rootIssued) (hfiles : m'.files = m.files)
    (hs : KeepsSn S x f m.rootItems)
    (hf : ∀ h k, Occ h k m.rootItems → h.id = x → (f h k).1.id = h.id ∧ (f h k).2.ids = k.ids)
    (hkeys : keysNodupI (entries S (m.rootItems.modify x f) []))
    (hidxKeys : keysNodupI m'.index)
    (hexact : ∀ q i, idxGet m'.index q = some i ↔ (q, i) ∈ entries S (m.rootItems.modify x f) []) :
    MInv S vOk nid m' := by
  have hids : (m.rootItems.modify x f).ids = m.rootItems.ids := ids_modify_same x f _ hf
  refine ⟨?_, ?_, ?_, ?_, ?_, ?_, ?_, ?_, ?_⟩
  · rw [hfiles]; exact hm.vers
  · rw [hroot, hids]; exact hm.ids
  · intro hi; rw [hroot, hids]; exact hm.bound (hiss ▸ hi)
  · intro hi
    obtain ⟨hk, hfl⟩ := hm.fresh (hiss ▸ hi)
    have hids' : m'.rootItems.ids = m.rootItems.ids := by rw [hroot, hids]
    simp only [rootItems_eq, Items.ids, hhdr, List.append_nil, List.cons.injEq, true_and] at hids'
    exact ⟨hids'.trans hk, hhdr ▸ hfl⟩
  · rw [hhdr]; exact hm.rootName
  · rw [hroot]; exact snOk_modify S x f _ hs hm.sn
  · rw [hroot]; exact hkeys
  · exact hidxKeys
  · intro q i; rw [hroot]; exact hexact q i

/-- the text of a SHORT-NAME is replaced by a new name under which the parent has no sibling: the index with the keys at or
below the parent's path moved is exact for the new tree -/
theorem minv_sn_rename (nid : Nat) (m m' : Model) (x : Nat) (c : List (Hdr × Items)) (hm : MInv S vOk nid m)
    (hc : m.rootItems.chain x = some c) (hname : (lastOf c).1.name = S.nmShortName)
    (ph : Hdr) (rest : Items) (oldName : Bytes)
    (hch : m.rootItems.chain ph.id = some c.dropLast)
    (hfn : findNamed S m.rootItems [] ph.id =
      some (pathOfChain S c.dropLast, oldName, .elem (lastOf c).1 (.text (.str oldName) .nil) rest))
    (newName : Bytes) (hslash : 47 ∉ newName)
    (hlook : idxGet m.index
      ((pathOfChain S c.dropLast).take ((pathOfChain S c.dropLast).length - oldName.length) ++ newName) = none)
    (hroot : m'.rootItems = m.rootItems.modify x fun h0 _ => (h0, .text (.str newName) .nil))
    (hhdr : m'.rootHdr = m.rootHdr) (hiss : m'.rootIssued = m.rootIssued) (hfiles : m'.files = m.files)
    (c1 : List (Hdr × Items))
    (hc1 : (m.rootItems.modify x fun h0 _ => (h0, .text (.str newName) .nil)).chain x = some c1)
    (hidx : m'.index = idxFix m.index (pathOfChain S c.dropLast) (pathOfChain S c1.dropLast)) : MInv S vOk nid m' := by
  obtain ⟨ho, hid⟩ := chain_occ x m.rootItems c hc
  generalize pathOfChain S c.dropLast = P at hfn hlook hidx
  generalize hP' : P.take (P.length - oldName.length) ++ newName = P' at hlook
  -- the edited node is the SHORT-NAME
  have key : ∀ h k, Occ h k m.rootItems → h.id = x → h.name = S.nmShortName ∧ properSn S h k := by
    intro h k ho' he
    obtain ⟨e1, _⟩ := node_eq S vOk hm x c hc h k ho' he
    have hn : h.name = S.nmShortName := e1 ▸ hname
    exact ⟨hn, sn_proper_of_occ S _ hm.sn (hm.topOk S vOk) h k ho' hn⟩
  have hold : ∀ h k, Occ h k m.rootItems → h.id = x → k.ids = [] := by
    intro h k ho' he
    obtain ⟨_, _, _, _, n, hk, _⟩ := key h k ho' he
    rw [hk]; rfl
  have hf : ∀ h k, Occ h k m.rootItems → h.id = x →
      ((fun (h0 : Hdr) (_ : Items) => (h0, Items.text (.str newName) .nil)) h k).1.id = h.id ∧
      ((fun (h0 : Hdr) (_ : Items) => (h0, Items.text (.str newName) .nil)) h k).2.ids = k.ids := by
    intro h k ho' he
    exact ⟨rfl, (hold h k ho' he).symm⟩
  have hids : (m.rootItems.modify x fun h0 _ => (h0, .text (.str newName) .nil)).ids = m.rootItems.ids :=
    ids_modify_same x _ _ hf
  -- the entries of the new tree
  have hent := entries_rename S m.rootItems hm.sn hm.ids [] hm.keys ph.id P oldName (lastOf c).1 rest hfn newName hslash
  rw [hid, hP'] at hent
  have hPmem : (P, ph.id) ∈ entries S m.rootItems [] := findNamed_mem S _ [] ph.id _ hfn
  have hP'mem : (P', ph.id) ∈ entries S (m.rootItems.modify x fun h0 _ => (h0, .text (.str newName) .nil)) [] := by
    rw [hent]
    refine List.mem_map.mpr ⟨(P, ph.id), hPmem, ?_⟩
    simp only [rekey_some P P' P [] (pathSuffix_self P), List.append_nil]
  -- the path the model computes in the new tree is the new path of the parent
  have hnewp : pathOfChain S c1.dropLast = P' := by
    have h1 := chain_modify_retext x x (.text (.str newName) .nil) rfl m.rootItems hold
    rw [hc, hc1] at h1
    have h2 := chain_modify_retext x ph.id (.text (.str newName) .nil) rfl m.rootItems hold
    rw [hch, Option.map_some] at h2
    have e1 : c1 = c.map (retextG x (.text (.str newName) .nil)) := by simpa using h1
    have e2 : c1.dropLast = c.dropLast.map (retextG x (.text (.str newName) .nil)) := by
      rw [e1, List.map_dropLast]
    rw [← e2] at h2
    have h3 := kpre_chain S ph.id _ c1.dropLast h2 []
    have h4 := kpre_of_entry S _ (hids ▸ hm.ids) [] P' ph.id hP'mem
    rw [h3, chainPre_nil] at h4
    exact Option.some.inj h4
  rw [hnewp] at hidx
  -- shape of the new path
  have hP'shape : P' = [] ∨ P'.head? = some 47 := by
    right
    obtain ⟨s, hs⟩ := entries_key_shape S _ [] P ph.id hPmem
    obtain ⟨c0, hc0⟩ := findNamed_path S _ [] ph.id P oldName _ hfn
    rw [← hP', hc0, take_name]
    cases c0 with
    | nil => rfl
    | cons a c0' =>
      rw [hc0] at hs
      simp only [List.nil_append, List.cons_append, List.cons.injEq] at hs
      simp only [List.nil_append, List.cons_append, List.head?_cons, hs.1]
  have hfree : ∀ e ∈ m.index, pathSuffix P' e.1 = none := by
    intro e he
    cases hs : pathSuffix P' e.1 with
    | none => rfl
    | some s =>
      exfalso
      have hmem : (e.1, e.2) ∈ entries S m.rootItems [] :=
        (hm.exact e.1 e.2).mp ((idxGet_iff_mem m.index hm.idxKeys e.1 e.2).mpr he)
      have hpre : pathSuffix [] P' = some P' := by
        have := pathSuffix_append [] P' hP'shape
        rwa [List.nil_append] at this
      have hne : P' ≠ [] := by
        intro e0
        obtain ⟨s0, hs0⟩ := entries_key_shape S _ [] P' ph.id hP'mem
        rw [e0] at hs0
        cases hs0
      obtain ⟨j, hj⟩ := entries_prefix_closed S m.rootItems hm.sn [] P' e.1 e.2 hmem s hs P' hpre hne
      rw [(hm.exact P' j).mpr hj] at hlook
      cases hlook
  have hexact : ∀ q i, idxGet m'.index q = some i ↔
      (q, i) ∈ entries S (m.rootItems.modify x fun h0 _ => (h0, .text (.str newName) .nil)) [] := by
    intro q i
    rw [hidx, idxFix_get m.index P P' hm.idxKeys hfree q i, hent, List.mem_map]
    constructor
    · rintro ⟨q0, h1, h2⟩
      exact ⟨(q0, i), (hm.exact q0 i).mp h1, by rw [← h2]⟩
    · rintro ⟨⟨q0, i0⟩, h1, h2⟩
      obtain ⟨h3, h4⟩ := Prod.mk.inj h2
      simp only at h3 h4
      subst h4
      exact ⟨q0, (hm.exact q0 i0).mpr h1, h3⟩
  refine minv_modify_idx S vOk nid m m' x _ hm hroot hhdr hiss hfiles ?_ hf ?_ ?_ hexact
  · intro h k ho' he
    refine ⟨rfl, rfl, ?_, fun _ _ => ⟨trivial, trivial⟩⟩
    intro _ hp
    obtain ⟨p1, p2, p3, _⟩ := hp
    exact ⟨p1, p2, p3, newName, rfl, hslash⟩
  · refine keysNodup_of_functional _ (entries_ids_nodup S _ (hids ▸ hm.ids) []) ?_
    intro q i j hi hj
    have h1 := (hexact q i).mpr hi
    have h2 := (hexact q j).mpr hj
    rw [h1] at h2
    exact Option.some.inj h2
  · rw [hidx]; exact idxFix_keysNodup m.index P P' hm.idxKeys hfree

/-- the node navigation found is the only node with its id; if it is called SHORT-NAME it is a proper one -/
theorem sn_key {nid : Nat} {m : Model} (hm : MInv S vOk nid m) (x : Nat) (c : List (Hdr × Items))
    (hc : m.rootItems.chain x = some c) (hname : (lastOf c).1.name = S.nmShortName) :
    ∀ h k, Occ h k m.rootItems → h.id = x → h = (lastOf c).1 ∧ k = (lastOf c).2 ∧ properSn S h k := by
  intro h k ho' he
  obtain ⟨e1, e2⟩ := node_eq S vOk hm x c hc h k ho' he
  exact ⟨e1, e2, sn_proper_of_occ S _ hm.sn (hm.topOk S vOk) h k ho' (e1 ▸ hname)⟩

/-- after the text of a SHORT-NAME was replaced the element is still found -/
theorem chain_after_retext {nid : Nat} {m : Model} (hm : MInv S vOk nid m) (x : Nat) (c : List (Hdr × Items))
    (hc : m.rootItems.chain x = some c) (hname : (lastOf c).1.name = S.nmShortName) (nk : Items) (hnk : nk.ids = []) :
    ∃ c1, (m.rootItems.modify x fun h0 _ => (h0, nk)).chain x = some c1 := by
  have hold : ∀ h k, Occ h k m.rootItems → h.id = x → k.ids = [] := by
    intro h k ho' he
    obtain ⟨_, _, _, _, _, n, hk, _⟩ := sn_key S vOk hm x c hc hname h k ho' he
    rw [hk]; rfl
  rw [chain_modify_retext x x nk hnk m.rootItems hold, hc]
  exact ⟨_, rfl⟩

/-- the tree stays, the index is fixed from a path to itself -/
theorem minv_sn_same (nid : Nat) (m m' : Model) (hm : MInv S vOk nid m) (hroot : m'.rootItems = m.rootItems)
    (hiss : m'.rootIssued = m.rootIssued) (hfiles : m'.files = m.files) (P : Bytes)
    (hidx : m'.index = idxFix m.index P P) : MInv S vOk nid m' := by
  obtain ⟨hk, hx⟩ := idxFix_self m.index P hm.idxKeys
  have hr := hroot
  simp only [Model.rootItems] at hr
  injection hr with hhdr hkids _
  refine ⟨?_, ?_, ?_, ?_, ?_, ?_, ?_, ?_, ?_⟩
  · rw [hfiles]; exact hm.vers
  · rw [hroot]; exact hm.ids
  · intro hi; rw [hroot]; exact hm.bound (hiss ▸ hi)
  · intro hi
    obtain ⟨a, b⟩ := hm.fresh (hiss ▸ hi)
    exact ⟨hkids ▸ a, hhdr ▸ b⟩
  · rw [hhdr]; exact hm.rootName
  · rw [hroot]; exact hm.sn
  · rw [hroot]; exact hm.keys
  · rw [hidx]; exact hk
  · intro q i; rw [hidx, hx, hroot]; exact hm.exact q i

/-- the value `set_character_data` stores in an element with a string-like specification is a string that the
specification accepts -/
theorem cdata_val_str (sp : CSpec) (hsl : sp.stringLike = true) (v : CDv) (ver : Nat)
    (hcv : checkValue V v sp ver = true) : ∃ s, v = .str s := by
  cases sp with
  | enum _ => simp [CSpec.stringLike] at hsl
  | uint => simp [CSpec.stringLike] at hsl
  | float => simp [CSpec.stringLike] at hsl
  | pattern a b =>
    cases v with
    | str s => exact ⟨s, rfl⟩
    | enum _ => simp [checkValue] at hcv
    | uint _ => simp [checkValue] at hcv
    | float _ => simp [checkValue] at hcv
  | string a b =>
    cases v with
    | str s => exact ⟨s, rfl⟩
    | enum _ => simp [checkValue] at hcv
    | uint _ => simp [checkValue] at hcv
    | float _ => simp [checkValue] at hcv

/-- `Element::set_character_data` keeps the invariant -/
theorem opCData_inv (hH : IdxHyp S V vOk) (w : World) (x : Nat) (v : CDv) (hw : WInv S vOk w) :
    WInv S vOk (opCData S V w x v).1 := by
  unfold opCData
  split
  · exact hw
  · rename_i h kids hh
    split
    · exact hw
    · rename_i hmode
      split
      · exact hw
      · rename_i sp hsp
        split
        · exact hw
        · rename_i k c hloc
          obtain ⟨m, _, hm2, hmem, hc⟩ := locate_chain w x k c hloc
          have hl := hdrOf_locate w x k c h kids hloc hh
          have hm := hw m hmem
          dsimp only
          rw [hm2]
          split
          · exact hw
          · rename_i ver hver
            split
            · exact hw
            · rename_i val hval
              split
              · exact hw
              · rename_i hkids
                split
                · exact hw
                · rename_i prevPath hprev
                  have hce : kids.childElems = [] := by
                    cases hx : kids.childElems with
                    | nil => rfl
                    | cons a as => simp [hx] at hkids
                  refine winv_update S vOk w _ k _ hw (Nat.le_refl _) ?_ rfl
                  by_cases hsn : h.name = S.nmShortName
                  · -- a SHORT-NAME: the parent is renamed
                    have hname : (lastOf c).1.name = S.nmShortName := by rw [hl]; exact hsn
                    obtain ⟨ph, rest, oldName, hk, hgl, hp, hnamed, hsub, htyp, hch, hfn⟩ :=
                      sn_context S vOk hm x c hc hname
                    simp only [hl] at hk hgl hp hsub htyp hfn
                    subst hk
                    obtain ⟨hchars, _, ⟨sp', hsp', hsl⟩, _⟩ := hp
                    rw [hsp] at hsp'
                    cases hsp'
                    -- the value stored is a string without '/'
                    have hvs : ∃ s, val = .str s ∧ checkValue V (.str s) sp ver = true := by
                      by_cases hcv : checkValue V v sp ver = true
                      · rw [if_pos hcv] at hval
                        have hv := Option.some.inj hval
                        subst hv
                        obtain ⟨s, hs⟩ := cdata_val_str V sp hsl v ver hcv
                        exact ⟨s, hs, hs ▸ hcv⟩
                      · rw [if_neg hcv] at hval
                        cases sp <;> first
                          | (exfalso; simp [CSpec.stringLike] at hsl; done)
                          | (simp only [eq_self, if_true] at hval
                             split at hval
                             · split at hval
                               · rename_i hcv2
                                 exact ⟨_, (Option.some.inj hval).symm, hcv2⟩
                               · cases hval
                             · cases hval)
                    obtain ⟨newName, rfl, hcv⟩ := hvs
                    have hslash : 47 ∉ newName :=
                      hH.noSlash ph.ety.typ h.ety.defId sp newName ver hnamed hsub (htyp ▸ hsp) hcv
                    have hcd : charData S h (.text (.str oldName) .nil) = some (.str oldName) := by
                      simp only [charData, hchars, true_or, if_true]
                    rw [if_pos hsn, hcd, hgl] at hprev
                    simp only [] at hprev
                    obtain ⟨c1, hc1⟩ := chain_after_retext S vOk hm x c hc hname (.text (.str newName) .nil) rfl
                    by_cases hident : ¬isIdentifiable S ph (.elem h (.text (.str oldName) .nil) rest) = true
                    · rw [if_pos hident] at hprev
                      cases hprev
                    · rw [if_neg hident] at hprev
                      by_cases hne : newName ≠ oldName
                      · have hsuf : List.isSuffixOf oldName (pathOfChain S c.dropLast) = true := by
                          obtain ⟨c0, hc0⟩ := findNamed_path S _ [] ph.id _ oldName _ hfn
                          rw [List.isSuffixOf_iff_suffix, hc0]
                          exact ⟨[] ++ c0 ++ [47], by simp⟩
                        rw [if_pos hne, if_pos hsuf] at hprev
                        split at hprev
                        · cases hprev
                        · rename_i hlk
                          cases hprev
                          have hlook : idxGet m.index
                              ((pathOfChain S c.dropLast).take ((pathOfChain S c.dropLast).length - oldName.length) ++
                                newName) = none := by
                            cases hx : idxGet m.index
                              ((pathOfChain S c.dropLast).take ((pathOfChain S c.dropLast).length - oldName.length) ++
                                newName) with
                            | none => rfl
                            | some j => simp [Model.lookup, hx] at hlk
                          simp only [hc1]
                          exact minv_sn_rename S vOk _ m _ x c hm hc hname ph rest oldName hch (by rw [hl]; exact hfn)
                            newName hslash hlook (rootItems_setRoot_modify m x _)
                            (setRoot_modify_rootHdr m x _ (fun _ _ => rfl)) (setRoot_modify_fields m x _).2.2.2
                            (setRoot_modify_fields m x _).2.2.1 c1 hc1 rfl
                      · rw [if_neg hne] at hprev
                        have hnn : newName = oldName := Decidable.of_not_not hne
                        subst hnn
                        cases hprev
                        have hmodid : m.rootItems.modify x (fun h0 _ => (h0, .text (.str newName) .nil)) = m.rootItems := by
                          apply modify_id
                          intro h0 k0 ho' he
                          obtain ⟨_, e2, _⟩ := sn_key S vOk hm x c hc hname h0 k0 ho' he
                          rw [e2, hl]
                        simp only [hmodid, hc]
                        exact minv_sn_same S vOk _ m _ hm rfl rfl rfl _ rfl
                  · -- not a SHORT-NAME: the index stays
                    rw [if_neg hsn] at hprev
                    cases hprev
                    refine minv_set_content S vOk _ m _ x c (.text val .nil) hm hc (by rw [hl]; exact hsn)
                      (by rw [hl]; exact hce) rfl ?_ rfl ?_ ?_
                    · exact rootItems_setRoot_modify m x _
                    · exact (setRoot_modify_fields m x _).2.2.2
                    · exact (setRoot_modify_fields m x _).2.2.1

end
end AV.W

