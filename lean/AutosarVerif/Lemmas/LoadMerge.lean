/-
C03 / C09 / C10 for a MERGING load (`opLoad` into a model that already has files).

* Part 2 (renumbering): `renumItems base (newIds base root1) root1` is an injective renaming of the ids of `root1`; parent
  fields, file sets and uniqueness of ids are kept; the new ids are `base, base+1, …` in document order.
* Part 1 (tree level): `mergeElement` keeps the parent fields in step with the structure (`Items.wf`), the ids of the result
  are ids of one of the two sides, nothing of the model is lost, elements of the model keep name, type, attributes and text.
* Part 3 (operation level): a merging load keeps `Inv` (`wf ∧ filesOk`), touches no other model, keeps `SepInv`.
-/
import AutosarVerif.Lemmas.LoadInv
import AutosarVerif.Lemmas.Merge

namespace AV.W
open Items

/-! ## Part 2: renumbering -/

section Renum
variable (base : Nat) (order : List Nat)

theorem renum_lt (id : Nat) (h : id < base) : renum base order id = id := by
  unfold renum; rw [if_pos h]

/-- an id of `order` at position `i` goes to `base + i` -/
theorem renum_getElem (hn : order.Nodup) (hb : ∀ x ∈ order, base ≤ x) (i : Nat) (hi : i < order.length) :
    renum base order order[i] = base + i := by
  unfold renum
  have hge : ¬ order[i] < base := Nat.not_lt.mpr (hb _ (List.getElem_mem hi))
  rw [if_neg hge]
  have : order.findIdx? (· == order[i]) = some i := by
    rw [List.findIdx?_eq_some_iff_getElem]
    refine ⟨hi, by simp, ?_⟩
    intro j hji hp
    have hj : j < order.length := Nat.lt_trans hji hi
    have : order[j] = order[i] := by simpa using hp
    have := (List.getElem_inj (h₀ := hj) (h₁ := hi) hn).mp this
    omega
  rw [this]

theorem renum_mem (hn : order.Nodup) (hb : ∀ x ∈ order, base ≤ x) (x : Nat) (hx : x ∈ order) :
    ∃ i, i < order.length ∧ order[i]? = some x ∧ renum base order x = base + i := by
  obtain ⟨i, hi, e⟩ := List.mem_iff_getElem.mp hx
  refine ⟨i, hi, by rw [List.getElem?_eq_getElem hi, e], ?_⟩
  rw [← e]; exact renum_getElem base order hn hb i hi

/-- the ids of `order` go to `base, base+1, …` in the order of the list -/
theorem map_renum_order (hn : order.Nodup) (hb : ∀ x ∈ order, base ≤ x) :
    order.map (renum base order) = List.range' base order.length := by
  apply List.ext_getElem
  · simp
  · intro i h1 h2
    rw [List.getElem_map, List.getElem_range', Nat.one_mul]
    exact renum_getElem base order hn hb i (by simpa using h1)

/-- `renum` is injective on the ids below `base` together with the ids of `order` -/
theorem renum_inj (hn : order.Nodup) (hb : ∀ x ∈ order, base ≤ x) (x y : Nat)
    (hx : x < base ∨ x ∈ order) (hy : y < base ∨ y ∈ order) (e : renum base order x = renum base order y) : x = y := by
  have norm : ∀ z, z < base ∨ z ∈ order → (z < base ∧ renum base order z = z) ∨
      (∃ i, i < order.length ∧ order[i]? = some z ∧ renum base order z = base + i) := by
    intro z hz
    by_cases hlt : z < base
    · exact Or.inl ⟨hlt, renum_lt base order z hlt⟩
    · rcases hz with hz | hz
      · exact absurd hz hlt
      · exact Or.inr (renum_mem base order hn hb z hz)
  rcases norm x hx with ⟨hx1, hx2⟩ | ⟨i, hi, hxi, hx2⟩ <;> rcases norm y hy with ⟨hy1, hy2⟩ | ⟨j, hj, hyj, hy2⟩
  · rw [hx2, hy2] at e; exact e
  · rw [hx2, hy2] at e; omega
  · rw [hx2, hy2] at e; omega
  · rw [hx2, hy2] at e
    have : i = j := by omega
    subst this
    rw [hxi] at hyj
    injection hyj

/-- every id below `base` or in `order` goes below `base + order.length` -/
theorem renum_bound (hn : order.Nodup) (hb : ∀ x ∈ order, base ≤ x) (x : Nat) (hx : x < base ∨ x ∈ order) :
    renum base order x < base + order.length := by
  by_cases hlt : x < base
  · rw [renum_lt base order x hlt]; omega
  · rcases hx with hx | hx
    · exact absurd hx hlt
    · obtain ⟨i, hi, _, e⟩ := renum_mem base order hn hb x hx
      rw [e]; omega

/-- ids at or above `base` stay at or above `base` -/
theorem renum_ge (x : Nat) (hx : base ≤ x) : base ≤ renum base order x := by
  unfold renum
  rw [if_neg (Nat.not_lt.mpr hx)]
  split
  · omega
  · exact hx

theorem ids_renumItems (its : Items) : (renumItems base order its).ids = its.ids.map (renum base order) := by
  unfold renumItems
  induction its with
  | nil => rfl
  | text c r ih => simpa [Items.mapHdrs, Items.ids] using ih
  | elem h k r ihk ihr =>
    simp only [Items.mapHdrs, Items.ids, List.map_cons, List.map_append, ihk, ihr]

/-- the parent fields stay in step with the structure (for ANY renaming function) -/
theorem renumItems_wf (its : Items) : ∀ exp : PRef, its.wf exp → (renumItems base order its).wf (renumRef base order exp) := by
  unfold renumItems
  induction its with
  | nil => intro _ _; trivial
  | text c r ih => intro exp h; exact ih exp h
  | elem h k r ihk ihr =>
    intro exp hw
    obtain ⟨h1, h2, h3⟩ := hw
    refine ⟨?_, ?_, ihr exp h3⟩
    · show renumRef base order h.parent = _; rw [h1]
    · exact ihk _ h2

/-- the file sets are not touched -/
theorem renumItems_filesOk (its : Items) : ∀ pe : List Nat, FilesOk pe its → FilesOk pe (renumItems base order its) := by
  unfold renumItems
  induction its with
  | nil => intro _ _; trivial
  | text c r ih => intro pe h; exact ih pe h
  | elem h k r ihk ihr =>
    intro pe hw
    obtain ⟨h1, h2, h3⟩ := hw
    exact ⟨h1, ihk _ h2, ihr pe h3⟩

/-- name, type, attributes, files, comment of every header are kept, in document order -/
theorem renumItems_hdrs (its : Items) :
    (renumItems base order its).hdrs.map (fun h => (h.name, h.ety, h.attrs, h.files, h.comment)) =
      its.hdrs.map (fun h => (h.name, h.ety, h.attrs, h.files, h.comment)) := by
  unfold renumItems
  induction its with
  | nil => rfl
  | text c r ih => simpa [Items.mapHdrs, Items.hdrs] using ih
  | elem h k r ihk ihr =>
    simp only [Items.mapHdrs, Items.hdrs, List.map_cons, List.map_append, ihk, ihr]

end Renum

section RenumTree
variable (base : Nat) (root1 : Items)

theorem newIds_nodup (hn : root1.ids.Nodup) : (newIds base root1).Nodup := List.Pairwise.filter _ hn

theorem newIds_ge : ∀ x ∈ newIds base root1, base ≤ x := by
  intro x hx
  have := (List.mem_filter.mp hx).2
  simpa using this

theorem mem_ids_cases (x : Nat) (hx : x ∈ root1.ids) : x < base ∨ x ∈ newIds base root1 := by
  by_cases h : x < base
  · exact Or.inl h
  · exact Or.inr (List.mem_filter.mpr ⟨hx, by simpa using Nat.not_lt.mp h⟩)

/-- **the renumbering is injective on the ids of the tree** -/
theorem renum_newIds_inj (hn : root1.ids.Nodup) (x y : Nat) (hx : x ∈ root1.ids) (hy : y ∈ root1.ids)
    (e : renum base (newIds base root1) x = renum base (newIds base root1) y) : x = y :=
  renum_inj base _ (newIds_nodup base root1 hn) (newIds_ge base root1) x y
    (mem_ids_cases base root1 x hx) (mem_ids_cases base root1 y hy) e

/-- **uniqueness of ids is kept** -/
theorem renumItems_nodup (hn : root1.ids.Nodup) : (renumItems base (newIds base root1) root1).ids.Nodup := by
  rw [ids_renumItems]
  rw [List.Nodup, List.pairwise_map]
  exact List.Pairwise.imp_of_mem (fun {a b} ha hb hne e => hne (renum_newIds_inj base root1 hn a b ha hb e)) hn

/-- **the ids added by the load are `base, base+1, …` in document order of the merged tree**; the others are fixed -/
theorem newIds_renumItems (hn : root1.ids.Nodup) :
    newIds base (renumItems base (newIds base root1) root1) = List.range' base (newIds base root1).length := by
  unfold newIds
  rw [ids_renumItems, List.filter_map]
  have : root1.ids.filter ((fun x => decide (x ≥ base)) ∘ renum base (root1.ids.filter (· ≥ base))) = root1.ids.filter (· ≥ base) := by
    apply List.filter_congr
    intro x _
    simp only [Function.comp]
    by_cases h : x < base
    · rw [renum_lt _ _ _ h]
    · have h' := Nat.not_lt.mp h
      have := renum_ge base (root1.ids.filter (· ≥ base)) x h'
      simp [this, h']
  rw [this]
  exact map_renum_order base _ (newIds_nodup base root1 hn) (newIds_ge base root1)

/-- **every id of the renumbered tree is below the new `nextId`** (ids of the model before the load are below `base`) -/
theorem renumItems_bound (hn : root1.ids.Nodup) :
    ∀ x ∈ (renumItems base (newIds base root1) root1).ids, x < base + (newIds base root1).length := by
  intro x hx
  rw [ids_renumItems] at hx
  obtain ⟨y, hy, rfl⟩ := List.mem_map.mp hx
  exact renum_bound base _ (newIds_nodup base root1 hn) (newIds_ge base root1) y (mem_ids_cases base root1 y hy)

/-- ids below `base` are fixed: an id of the old tree that is below `base` is still there -/
theorem renumItems_keeps (x : Nat) (hx : x ∈ root1.ids) (hlt : x < base) (order : List Nat) :
    x ∈ (renumItems base order root1).ids := by
  rw [ids_renumItems]
  exact List.mem_map.mpr ⟨x, hx, renum_lt base order x hlt⟩

end RenumTree

/-! ## Part 1: `mergeElement`, tree level -/

section Kids

theorem wf_iff_kids (exp : PRef) (its : Items) :
    its.wf exp ↔ ∀ c ∈ its.childElems, c.1.parent = exp ∧ c.2.wf (.elem c.1.id) := by
  induction its with
  | nil => simp [Items.wf, Items.childElems]
  | text c r ih => simpa [Items.wf, Items.childElems] using ih
  | elem h k r _ ih => simp only [Items.wf, Items.childElems, List.mem_cons, forall_eq_or_imp, ih, and_assoc]

theorem filesOk_iff_kids (pe : List Nat) (its : Items) :
    FilesOk pe its ↔ ∀ c ∈ its.childElems, (∀ g ∈ c.1.files, g ∈ pe) ∧ FilesOk (effOf pe c.1) c.2 := by
  induction its with
  | nil => simp [FilesOk, Items.childElems]
  | text c r ih => simpa [FilesOk, Items.childElems] using ih
  | elem h k r _ ih => simp only [FilesOk, Items.childElems, List.mem_cons, forall_eq_or_imp, ih, and_assoc]

theorem childElems_mapKidHdrs (f : Hdr → Hdr) (its : Items) :
    (its.mapKidHdrs f).childElems = its.childElems.map (fun c => (f c.1, c.2)) := by
  induction its with
  | nil => rfl
  | text c r ih => simpa [Items.mapKidHdrs, Items.childElems] using ih
  | elem h k r _ ih => simp [Items.mapKidHdrs, Items.childElems, ih]

theorem child_mem (cid : Nat) (its : Items) (c : Hdr × Items) (h : its.child cid = some c) :
    c ∈ its.childElems ∧ c.1.id = cid := by
  induction its with
  | nil => simp [Items.child] at h
  | text _ r ih => exact ih h
  | elem hd k r _ ih =>
    simp only [Items.child] at h
    split at h
    · rename_i e
      injection h with h; subst h
      exact ⟨List.mem_cons_self, e⟩
    · obtain ⟨a, b⟩ := ih h
      exact ⟨List.mem_cons_of_mem _ a, b⟩

/-- the children after `setChild`: the old ones, and the new one if a child with the id was there -/
theorem mem_childElems_setChild (cid : Nat) (h' : Hdr) (k' : Items) (its : Items) (c : Hdr × Items)
    (h : c ∈ (setChild cid h' k' its).childElems) :
    c ∈ its.childElems ∨ (c = (h', k') ∧ ∃ old, its.child cid = some old) := by
  induction its with
  | nil => simp [setChild, Items.childElems] at h
  | text _ r ih => exact ih h
  | elem hd k r _ ih =>
    unfold setChild at h
    by_cases e : hd.id = cid
    · rw [if_pos e] at h
      simp only [Items.childElems, List.mem_cons] at h ⊢
      rcases h with h | h
      · exact Or.inr ⟨h, (hd, k), by simp [Items.child, e]⟩
      · exact Or.inl (Or.inr h)
    · rw [if_neg e] at h
      simp only [Items.childElems, List.mem_cons] at h ⊢
      rcases h with h | h
      · exact Or.inl (Or.inl h)
      · rcases ih h with h | ⟨h1, old, h2⟩
        · exact Or.inl (Or.inr h)
        · exact Or.inr ⟨h1, old, by simp [Items.child, e, h2]⟩

/-- the old children that are still there after `setChild`: all but those with the id -/
theorem mem_setChild_of_ne (cid : Nat) (h' : Hdr) (k' : Items) (its : Items) (c : Hdr × Items)
    (h : c ∈ its.childElems) (hne : c.1.id ≠ cid) : c ∈ (setChild cid h' k' its).childElems := by
  induction its with
  | nil => simp [Items.childElems] at h
  | text _ r ih => exact ih h
  | elem hd k r _ ih =>
    unfold setChild
    simp only [Items.childElems, List.mem_cons] at h
    by_cases e : hd.id = cid
    · rw [if_pos e]
      simp only [Items.childElems, List.mem_cons]
      rcases h with h | h
      · subst h; exact absurd e hne
      · exact Or.inr h
    · rw [if_neg e]
      simp only [Items.childElems, List.mem_cons]
      rcases h with h | h
      · exact Or.inl h
      · exact Or.inr (ih h)

end Kids

section
variable (S : Spec) (V : Env)

/-- what the positional walk returns: the new elements and the partners of the pairs are sub-elements of the new file's
element, the ids of the model's elements in the pairs are a sublist of the ids of the model's sub-elements -/
theorem walk_spec (typ : Nat) (splitable : Bool) (allB : List (Hdr × Items)) :
    ∀ (fuel : Nat) (as : List (Nat × (Hdr × Items))) (bs : List (Hdr × Items)) (w w' : Walk)
      (ra : List (Nat × (Hdr × Items))) (rb : List (Hdr × Items)),
      walk S V typ splitable allB fuel as bs w = .ok (w', ra, rb) →
      (∀ e ∈ w'.bOnly, e ∈ w.bOnly ∨ e.1 ∈ bs) ∧
      (∀ p ∈ w'.pairs, p ∈ w.pairs ∨ (p.2 ∈ bs ∨ p.2 ∈ allB)) ∧
      (∀ c ∈ rb, c ∈ bs) ∧
      (∃ l, w'.pairs.map (·.1) = w.pairs.map (·.1) ++ l ∧ l.Sublist (as.map (·.2.1.id))) := by
  intro fuel as bs w
  fun_induction walk S V typ splitable allB fuel as bs w
  all_goals intro w' ra rb hr
  case case1 | case2 | case3 =>
    cases hr
    exact ⟨fun e he => Or.inl he, fun p hp => Or.inl hp, fun c hc => hc, [], by simp, by simp⟩
  case case7 | case13 => cases hr
  case case4 fuel pa ah ak as bh bk bs w _ _ _ ih | case8 fuel pa ah ak as bh bk bs w _ _ _ ih =>
    obtain ⟨h1, h2, h3, l, h4, h5⟩ := ih w' ra rb hr
    refine ⟨?_, ?_, ?_, ah.id :: l, ?a, ?b⟩
    · intro e he; rcases h1 e he with h | h
      · exact Or.inl h
      · exact Or.inr (List.mem_cons_of_mem _ h)
    · intro p hp; rcases h2 p hp with h | h | h
      · rcases List.mem_append.mp h with h | h
        · exact Or.inl h
        · simp only [List.mem_singleton] at h; subst h; exact Or.inr (Or.inl List.mem_cons_self)
      · exact Or.inr (Or.inl (List.mem_cons_of_mem _ h))
      · exact Or.inr (Or.inr h)
    · intro c hc; exact List.mem_cons_of_mem _ (h3 c hc)
    case a => rw [h4]; simp only [List.map_append, List.map_cons, List.map_nil, List.append_assoc, List.singleton_append]
    case b => simp only [List.map_cons]; exact List.Sublist.cons_cons _ h5
  case case5 fuel pa ah ak as bh bk bs w _ _ _ sib hsib ih | case9 fuel pa ah ak as bh bk bs w _ _ _ sib hsib ih =>
    obtain ⟨h1, h2, h3, l, h4, h5⟩ := ih w' ra rb hr
    refine ⟨h1, ?_, h3, ah.id :: l, ?a, ?b⟩
    · intro p hp; rcases h2 p hp with h | h | h
      · rcases List.mem_append.mp h with h | h
        · exact Or.inl h
        · simp only [List.mem_singleton] at h; subst h; exact Or.inr (Or.inr (List.mem_of_find?_eq_some hsib))
      · exact Or.inr (Or.inl h)
      · exact Or.inr (Or.inr h)
    case a => rw [h4]; simp only [List.map_append, List.map_cons, List.map_nil, List.append_assoc, List.singleton_append]
    case b => simp only [List.map_cons]; exact List.Sublist.cons_cons _ h5
  case case6 ih | case10 ih | case11 ih =>
    obtain ⟨h1, h2, h3, l, h4, h5⟩ := ih w' ra rb hr
    exact ⟨h1, h2, h3, l, h4, by simp only [List.map_cons]; exact List.Sublist.cons _ h5⟩
  case case12 fuel pa ah ak as bh bk bs w _ _ _ _ _ _ _ _ w0 ih =>
    obtain ⟨h1, h2, h3, l, h4, h5⟩ := ih w' ra rb hr
    refine ⟨?_, ?_, ?_, l, ?_, h5⟩
    · intro e he; rcases h1 e he with h | h
      · simp only [w0] at h
        split at h
        · exact Or.inl h
        · rcases List.mem_append.mp h with h | h
          · exact Or.inl h
          · simp only [List.mem_singleton] at h; subst h; exact Or.inr List.mem_cons_self
      · exact Or.inr (List.mem_cons_of_mem _ h)
    · intro p hp; rcases h2 p hp with h | h | h
      · simp only [w0] at h
        split at h <;> exact Or.inl h
      · exact Or.inr (Or.inl (List.mem_cons_of_mem _ h))
      · exact Or.inr (Or.inr h)
    · intro c hc; exact List.mem_cons_of_mem _ (h3 c hc)
    · rw [h4]; simp only [w0]; split <;> rfl

/-- the children after `import_new_items`: the old ones and imported ones (parent set, file set `++ [newFile]`) -/
theorem importNew_kids (ha : Hdr) (newFile minVerB : Nat) (l : List ((Hdr × Items) × Nat)) :
    ∀ (idx : Nat) (ka : Items) (c : Hdr × Items), c ∈ (importNew S ha newFile minVerB l idx ka).1.childElems →
      c ∈ ka.childElems ∨
        ∃ e ∈ l, c = ({ e.1.1 with parent := .elem ha.id, files := e.1.1.files ++ [newFile] }, e.1.2) := by
  induction l with
  | nil => intro idx ka c hc; exact Or.inl hc
  | cons e rest ih =>
    intro idx ka c hc
    obtain ⟨⟨bh, bk⟩, pos⟩ := e
    unfold importNew at hc
    split at hc
    · exact Or.inl hc
    · rcases ih _ _ c hc with h | ⟨e', he', h⟩
      · rcases mem_childElems_insertAt _ _ c ka _ h with h | h
        · exact Or.inr ⟨((bh, bk), pos), List.mem_cons_self, h⟩
        · exact Or.inl h
      · exact Or.inr ⟨e', List.mem_cons_of_mem _ he', h⟩

end

theorem foldl_inv {α β : Type} (P : List α → β → Prop) (f : β → α → β)
    (hstep : ∀ a rest b, P (a :: rest) b → P rest (f b a)) : ∀ (l : List α) (b : β), P l b → P [] (l.foldl f b) := by
  intro l
  induction l with
  | nil => intro b h; exact h
  | cons a rest ih => intro b h; exact ih _ (hstep a rest b h)

section
variable (S : Spec) (V : Env)

/-- the restricted header of an element that is only in the model keeps id and parent -/
theorem restrictHdr_keeps (ids files : List Nat) (h : Hdr) :
    (if ids.contains h.id ∧ h.files.isEmpty then { h with files := files } else h).id = h.id ∧
    (if ids.contains h.id ∧ h.files.isEmpty then { h with files := files } else h).parent = h.parent := by
  split <;> exact ⟨rfl, rfl⟩

theorem mergeElement_wf (fver : Nat → Option Nat) (newFile minVerB : Nat) (fuel : Nat) :
    ∀ (ha : Hdr) (ka : Items) (files : List Nat) (kb : Items) (expB : PRef),
      ka.wf (.elem ha.id) → kb.wf expB →
      (mergeElement S V fver newFile minVerB fuel ha ka files kb).1.wf (.elem ha.id) := by
  induction fuel with
  | zero => intro ha ka files kb expB hka _; exact hka
  | succ n ih =>
    intro ha ka files kb expB hka hkb
    have hB := (wf_iff_kids expB kb).mp hkb
    unfold mergeElement
    dsimp only
    split
    · exact hka
    · rename_i w0 restA restB hwalk
      obtain ⟨hb1, hb2, hb3, -⟩ := walk_spec S V _ _ _ _ _ _ _ _ _ _ hwalk
      have hka1 := wf_mapKidHdrs _ (restrictHdr_keeps (w0.aOnly ++ restA.map (·.2.1.id)) files) ka _ hka
      have hka2 : (importNew S ha newFile minVerB
          (w0.bOnly ++ (restB.filter fun b => !inPairs w0 b.1.id).map fun b => (b, ka.length)) 0
          (ka.mapKidHdrs fun h => if (w0.aOnly ++ restA.map (·.2.1.id)).contains h.id ∧ h.files.isEmpty then { h with files := files } else h)).1.wf (.elem ha.id) := by
        rw [wf_iff_kids]
        intro c hc
        rcases importNew_kids S ha newFile minVerB _ _ _ c hc with h | ⟨e, he, rfl⟩
        · exact (wf_iff_kids _ _).mp hka1 c h
        · refine ⟨rfl, ?_⟩
          have : e.1 ∈ kb.childElems := by
            rcases List.mem_append.mp he with h | h
            · rcases hb1 e h with h | h
              · simp at h
              · exact h
            · obtain ⟨b, hb, rfl⟩ := List.mem_map.mp h
              exact hb3 b (List.mem_filter.mp hb).1
          exact (hB e.1 this).2
      split
      · rename_i ka2 e heq
        have key := congrArg (fun r => r.1) heq
        dsimp only at key
        rw [← key]; exact hka2
      · rename_i ka2 heq
        have key := congrArg (fun r => r.1) heq
        dsimp only at key
        rw [← key] 
        have hp : ∀ p ∈ w0.pairs, p.2 ∈ kb.childElems := by
          intro p hp
          rcases hb2 p hp with h | h | h
          · simp at h
          · exact h
          · exact h
        refine (foldl_inv (fun (l : List (Nat × (Hdr × Items))) (acc : Items × Option MergeErr) => (∀ p ∈ l, p.2 ∈ kb.childElems) ∧ acc.1.wf (.elem ha.id)) _ ?_ _ (_, none) ⟨hp, hka2⟩).2
        intro p rest acc ⟨hq, hacc⟩
        refine ⟨fun q hq' => hq q (List.mem_cons_of_mem _ hq'), ?_⟩
        split
        · exact hacc
        · split
          · exact hacc
          · rename_i ah ak hchild
            dsimp only
            obtain ⟨hmem, hid⟩ := child_mem _ _ _ hchild
            obtain ⟨hpar, hak⟩ := (wf_iff_kids _ _).mp hacc _ hmem
            rw [wf_iff_kids]
            intro c hc
            rcases mem_childElems_setChild _ _ _ _ c hc with h | ⟨rfl, -⟩
            · exact (wf_iff_kids _ _).mp hacc c h
            · have hkeep : ∀ (c : Prop) [Decidable c] (X : List Nat),
                  (if c then { ah with files := X } else ah).id = ah.id ∧ (if c then { ah with files := X } else ah).parent = ah.parent := by
                intro c _ X; split <;> exact ⟨rfl, rfl⟩
              dsimp only
              rw [(hkeep _ _).1, (hkeep _ _).2]
              exact ⟨hpar, ih ah ak _ _ _ hak (hB _ (hq p List.mem_cons_self)).2⟩
end

theorem nodup_kid (its : Items) (hn : its.ids.Nodup) (c : Hdr × Items) (hc : c ∈ its.childElems) : c.2.ids.Nodup := by
  induction its with
  | nil => simp [Items.childElems] at hc
  | text _ r ih => exact ih hn hc
  | elem h k r _ ih =>
    simp only [Items.ids, List.nodup_cons, List.nodup_append] at hn
    simp only [Items.childElems, List.mem_cons] at hc
    rcases hc with rfl | hc
    · exact hn.2.1
    · exact ih hn.2.2.1 hc

theorem kid_ids_sublist (its : Items) : (its.childElems.map (·.1.id)).Sublist its.ids := by
  induction its with
  | nil => exact List.Sublist.refl _
  | text c r ih => exact ih
  | elem h k r _ ih => exact List.Sublist.cons_cons _ (ih.trans (List.sublist_append_right _ _))

theorem enumerate_map_sndLM {α : Type} (l : List α) : ∀ i, (enumerate l i).map (·.2) = l := by
  induction l with
  | nil => intro _; rfl
  | cons x r ih => intro i; simp [enumerate, ih]

/-- all file sets empty -/
theorem filesOk_nil_kid (kb : Items) (h : FilesOk [] kb) (c : Hdr × Items) (hc : c ∈ kb.childElems) :
    c.1.files = [] ∧ FilesOk [] c.2 := by
  obtain ⟨h1, h2⟩ := (filesOk_iff_kids [] kb).mp h c hc
  have : c.1.files = [] := by
    cases hf : c.1.files with
    | nil => rfl
    | cons g _ => exact absurd (h1 g (by rw [hf]; exact List.mem_cons_self)) (by simp)
  refine ⟨this, ?_⟩
  rw [effOf_nil, this] at h2
  exact h2

theorem effOf_monoLM (a b : List Nat) (h : Hdr) (hab : ∀ g ∈ a, g ∈ b) : ∀ g ∈ effOf a h, g ∈ effOf b h := by
  unfold effOf
  split
  · exact hab
  · exact fun g hg => hg

section
variable (S : Spec) (V : Env)

theorem mergeElement_filesOk (fver : Nat → Option Nat) (newFile minVerB : Nat) (fuel : Nat) :
    ∀ (ha : Hdr) (ka : Items) (files : List Nat) (kb : Items) (E' : List Nat),
      ka.ids.Nodup → kb.ids.Nodup → FilesOk files ka → FilesOk [] kb → (∀ g ∈ files, g ∈ E') → newFile ∈ E' →
      (mergeElement S V fver newFile minVerB fuel ha ka files kb).2 = none →
      FilesOk E' (mergeElement S V fver newFile minVerB fuel ha ka files kb).1 := by
  induction fuel with
  | zero => intro ha ka files kb E' _ _ _ _ _ _ h; simp [mergeElement] at h
  | succ n ih =>
    intro ha ka files kb E' hna hnb hka hkb hsub hnf
    unfold mergeElement
    dsimp only
    split
    · intro h; cases h
    · rename_i w0 restA restB hwalk
      obtain ⟨hb1, hb2, hb3, l, hl1, hl2⟩ := walk_spec S V _ _ _ _ _ _ _ _ _ _ hwalk
      split
      · intro h; cases h
      · rename_i ka2 heq
        have key := congrArg (fun r => r.1) heq
        dsimp only at key
        rw [← key]
        -- the children before `merge_sub_elements`
        have hkids : ∀ c ∈ (importNew S ha newFile minVerB
            (w0.bOnly ++ (restB.filter fun b => !inPairs w0 b.1.id).map fun b => (b, ka.length)) 0
            (ka.mapKidHdrs fun h => if (w0.aOnly ++ restA.map (·.2.1.id)).contains h.id ∧ h.files.isEmpty then { h with files := files } else h)).1.childElems,
            ((∀ g ∈ c.1.files, g ∈ E') ∧ FilesOk (effOf E' c.1) c.2) ∧ (FilesOk (effOf files c.1) c.2 ∧ c.2.ids.Nodup) := by
          intro c hc
          rcases importNew_kids S ha newFile minVerB _ _ _ c hc with h | ⟨e, he, rfl⟩
          · rw [childElems_mapKidHdrs] at h
            obtain ⟨c0, hc0, rfl⟩ := List.mem_map.mp h
            obtain ⟨f1, f2⟩ := (filesOk_iff_kids files ka).mp hka c0 hc0
            have hn0 := nodup_kid ka hna c0 hc0
            dsimp only
            split
            · rename_i hcond
              have hemp : c0.1.files.isEmpty = true := hcond.2
              have e1 : effOf files c0.1 = files := by unfold effOf; rw [if_pos hemp]
              rw [e1] at f2
              refine ⟨⟨hsub, ?_⟩, ?_, hn0⟩
              · apply FilesOk_mono _ files _ _ f2
                unfold effOf
                dsimp only
                split
                · exact hsub
                · exact fun g hg => hg
              · have : effOf files { c0.1 with files := files } = files := by
                  unfold effOf
                  dsimp only
                  split
                  · rfl
                  · rfl
                rw [this]; exact f2
            · exact ⟨⟨fun g hg => hsub g (f1 g hg), FilesOk_mono _ _ _ (effOf_monoLM files E' c0.1 hsub) f2⟩, f2, hn0⟩
          · have hmem : e.1 ∈ kb.childElems := by
              rcases List.mem_append.mp he with h | h
              · rcases hb1 e h with h | h
                · simp at h
                · exact h
              · obtain ⟨b, hb, rfl⟩ := List.mem_map.mp h
                exact hb3 b (List.mem_filter.mp hb).1
            obtain ⟨g1, g2⟩ := filesOk_nil_kid kb hkb e.1 hmem
            have hn0 := nodup_kid kb hnb e.1 hmem
            dsimp only
            rw [g1]
            refine ⟨⟨?_, FilesOk_mono _ [] _ (by simp) g2⟩, FilesOk_mono _ [] _ (by simp) g2, hn0⟩
            intro g hg
            simp only [List.nil_append, List.mem_singleton] at hg
            rw [hg]; exact hnf
        have hp : ∀ p ∈ w0.pairs, p.2 ∈ kb.childElems := by
          intro p hp
          rcases hb2 p hp with h | h | h
          · simp at h
          · exact h
          · exact h
        have hpn : (w0.pairs.map (·.1)).Nodup := by
          rw [hl1]
          simp only [List.map_nil, List.nil_append]
          have h1 : (l.Sublist ka.ids) := by
            refine hl2.trans ?_
            have : (enumerate ka.childElems 0).map (fun x => x.2.1.id) = ka.childElems.map (·.1.id) := by
              have h0 := congrArg (List.map fun (c : Hdr × Items) => c.1.id) (enumerate_map_sndLM ka.childElems 0)
              rw [List.map_map] at h0
              exact h0
            rw [this]; exact kid_ids_sublist ka
          exact hna.sublist h1
        intro hres
        rw [filesOk_iff_kids]
        refine (foldl_inv (fun (l : List (Nat × (Hdr × Items))) (acc : Items × Option MergeErr) =>
            (∀ p ∈ l, p.2 ∈ kb.childElems) ∧ (l.map (·.1)).Nodup ∧
            (acc.2 = none → ∀ c ∈ acc.1.childElems, (∀ g ∈ c.1.files, g ∈ E') ∧ FilesOk (effOf E' c.1) c.2) ∧
            (∀ c ∈ acc.1.childElems, c.1.id ∈ l.map (·.1) → FilesOk (effOf files c.1) c.2 ∧ c.2.ids.Nodup)) _ ?_ w0.pairs (_, none)
            ⟨hp, hpn, fun _ c hc => (hkids c hc).1, fun c hc _ => (hkids c hc).2⟩).2.2.1 hres
        · intro p rest acc ⟨hq, hnd, hnew, hpre⟩
          have hq' : ∀ q ∈ rest, q.2 ∈ kb.childElems := fun q hq' => hq q (List.mem_cons_of_mem _ hq')
          have hnd' : (rest.map (·.1)).Nodup := by
            simp only [List.map_cons, List.nodup_cons] at hnd; exact hnd.2
          have hpre' : ∀ c ∈ acc.1.childElems, c.1.id ∈ rest.map (·.1) → FilesOk (effOf files c.1) c.2 ∧ c.2.ids.Nodup :=
            fun c hc hin => hpre c hc (by simp only [List.map_cons]; exact List.mem_cons_of_mem _ hin)
          split
          · exact ⟨hq', hnd', hnew, hpre'⟩
          · rename_i hnone
            split
            · exact ⟨hq', hnd', hnew, hpre'⟩
            · rename_i ah ak hchild
              dsimp only
              obtain ⟨hmem, hid⟩ := child_mem _ _ _ hchild
              obtain ⟨hpa, hna'⟩ := hpre _ hmem (by simp only [List.map_cons]; rw [hid]; exact List.mem_cons_self)
              obtain ⟨hnw, -⟩ := hnew hnone _ hmem
              obtain ⟨gb1, gb2⟩ := filesOk_nil_kid kb hkb p.2 (hq p List.mem_cons_self)
              have hnb' := nodup_kid kb hnb p.2 (hq p List.mem_cons_self)
              have hfiles : (if ah.files.isEmpty then files else ah.files) = effOf files ah := rfl
              refine ⟨hq', hnd', ?_, ?_⟩
              · intro hr2 c hc
                rcases mem_childElems_setChild _ _ _ _ c hc with h | ⟨rfl, -⟩
                · exact hnew hnone c h
                · dsimp only
                  rw [hr2]
                  by_cases hemp : ah.files.isEmpty = true
                  · simp only [hemp, Bool.not_true, Bool.false_eq_true, false_and, and_false, if_false]
                    refine ⟨hnw, ?_⟩
                    have e1 : effOf E' ah = E' := by unfold effOf; rw [if_pos hemp]
                    rw [e1]
                    have hp0 : FilesOk files ak := by
                      have : effOf files ah = files := by unfold effOf; rw [if_pos hemp]
                      rw [this] at hpa; exact hpa
                    have := ih ah ak files p.2.2 E' hna' hnb' hp0 gb2 hsub hnf
                    simp only [hemp, if_true] at hr2
                    exact this hr2
                  · have hemp' : ah.files.isEmpty = false := by simpa using hemp
                    have hp0 : FilesOk ah.files ak := by
                      have : effOf files ah = ah.files := by unfold effOf; rw [if_neg hemp]
                      rw [this] at hpa; exact hpa
                    simp only [hemp', if_false, Bool.false_eq_true] at hr2
                    by_cases hcon : ah.files.contains newFile = true
                    · simp only [hemp', hcon, Bool.not_true, Bool.false_eq_true, and_false, if_false]
                      refine ⟨hnw, ?_⟩
                      have e1 : effOf E' ah = ah.files := by unfold effOf; rw [if_neg hemp]
                      rw [e1]
                      have := ih ah ak ah.files p.2.2 ah.files hna' hnb' hp0 gb2 (fun g hg => hg) (by simpa using hcon)
                      exact this hr2
                    · have hcon' : ah.files.contains newFile = false := by simpa using hcon
                      simp only [hemp', hcon', Bool.not_false, Option.isNone_none, and_self, if_true]
                      refine ⟨?_, ?_⟩
                      · intro g hg
                        rcases List.mem_append.mp hg with hg | hg
                        · exact hnw g hg
                        · simp only [List.mem_singleton] at hg; rw [hg]; exact hnf
                      · have e1 : effOf E' { ah with files := ah.files ++ [newFile] } = ah.files ++ [newFile] := by
                          unfold effOf; simp
                        rw [e1]
                        have := ih ah ak ah.files p.2.2 (ah.files ++ [newFile]) hna' hnb' hp0 gb2
                          (fun g hg => List.mem_append_left _ hg) (by simp)
                        simp only [if_false, Bool.false_eq_true]
                        exact this hr2
              · intro c hc hin
                rcases mem_childElems_setChild _ _ _ _ c hc with h | ⟨rfl, -⟩
                · exact hpre' c h hin
                · exfalso
                  have hidc : ∀ (c : Prop) [Decidable c] (X : List Nat), (if c then { ah with files := X } else ah).id = ah.id := by
                    intro c _ X; split <;> rfl
                  dsimp only at hin
                  rw [hidc, hid] at hin
                  simp only [List.map_cons, List.nodup_cons] at hnd
                  exact hnd.1 hin
end

theorem mem_ids_iff_kids (its : Items) (x : Nat) : x ∈ its.ids ↔ ∃ c ∈ its.childElems, x = c.1.id ∨ x ∈ c.2.ids := by
  induction its with
  | nil => simp [Items.ids, Items.childElems]
  | text _ r ih => simpa [Items.ids, Items.childElems] using ih
  | elem h k r _ ih =>
    simp only [Items.ids, Items.childElems, List.mem_cons, List.mem_append, ih, exists_eq_or_imp]
    constructor
    · rintro (h | h | h)
      · exact Or.inl (Or.inl h)
      · exact Or.inl (Or.inr h)
      · exact Or.inr h
    · rintro ((h | h) | h)
      · exact Or.inl h
      · exact Or.inr (Or.inl h)
      · exact Or.inr (Or.inr h)

section
variable (S : Spec) (V : Env)

/-- **every id of the merged content is an id of one of the two sides** (also when the merge stops with an error) -/
theorem mergeElement_ids_sub (fver : Nat → Option Nat) (newFile minVerB : Nat) (fuel : Nat) :
    ∀ (ha : Hdr) (ka : Items) (files : List Nat) (kb : Items) (x : Nat),
      x ∈ (mergeElement S V fver newFile minVerB fuel ha ka files kb).1.ids → x ∈ ka.ids ∨ x ∈ kb.ids := by
  induction fuel with
  | zero => intro ha ka files kb x hx; exact Or.inl hx
  | succ n ih =>
    intro ha ka files kb x
    have hkbsub : ∀ c ∈ kb.childElems, ∀ y, (y = c.1.id ∨ y ∈ c.2.ids) → y ∈ kb.ids :=
      fun c hc y hy => (mem_ids_iff_kids kb y).mpr ⟨c, hc, hy⟩
    unfold mergeElement
    dsimp only
    split
    · exact fun hx => Or.inl hx
    · rename_i w0 restA restB hwalk
      obtain ⟨hb1, hb2, hb3, -⟩ := walk_spec S V _ _ _ _ _ _ _ _ _ _ hwalk
      have hkids : ∀ c ∈ (importNew S ha newFile minVerB
            (w0.bOnly ++ (restB.filter fun b => !inPairs w0 b.1.id).map fun b => (b, ka.length)) 0
            (ka.mapKidHdrs fun h => if (w0.aOnly ++ restA.map (·.2.1.id)).contains h.id ∧ h.files.isEmpty then { h with files := files } else h)).1.childElems,
            ∀ y, (y = c.1.id ∨ y ∈ c.2.ids) → y ∈ ka.ids ∨ y ∈ kb.ids := by
        intro c hc y hy
        rcases importNew_kids S ha newFile minVerB _ _ _ c hc with h | ⟨e, he, rfl⟩
        · rw [childElems_mapKidHdrs] at h
          obtain ⟨c0, hc0, rfl⟩ := List.mem_map.mp h
          refine Or.inl ((mem_ids_iff_kids ka y).mpr ⟨c0, hc0, ?_⟩)
          rw [(restrictHdr_keeps _ files c0.1).1] at hy
          exact hy
        · have hmem : e.1 ∈ kb.childElems := by
            rcases List.mem_append.mp he with h | h
            · rcases hb1 e h with h | h
              · simp at h
              · exact h
            · obtain ⟨b, hb, rfl⟩ := List.mem_map.mp h
              exact hb3 b (List.mem_filter.mp hb).1
          exact Or.inr (hkbsub e.1 hmem y hy)
      have hp : ∀ p ∈ w0.pairs, p.2 ∈ kb.childElems := by
        intro p hp
        rcases hb2 p hp with h | h | h
        · simp at h
        · exact h
        · exact h
      have hend : ∀ (its : Items), (∀ c ∈ its.childElems, ∀ y, (y = c.1.id ∨ y ∈ c.2.ids) → y ∈ ka.ids ∨ y ∈ kb.ids) →
          x ∈ its.ids → x ∈ ka.ids ∨ x ∈ kb.ids := by
        intro its h hx
        obtain ⟨c, hc, hy⟩ := (mem_ids_iff_kids its x).mp hx
        exact h c hc x hy
      split
      · rename_i ka2 e heq
        have key := congrArg (fun r => r.1) heq
        dsimp only at key
        rw [← key]; exact hend _ hkids
      · rename_i ka2 heq
        have key := congrArg (fun r => r.1) heq
        dsimp only at key
        rw [← key]
        refine hend _ (foldl_inv (fun (l : List (Nat × (Hdr × Items))) (acc : Items × Option MergeErr) =>
          (∀ p ∈ l, p.2 ∈ kb.childElems) ∧
          (∀ c ∈ acc.1.childElems, ∀ y, (y = c.1.id ∨ y ∈ c.2.ids) → y ∈ ka.ids ∨ y ∈ kb.ids)) _ ?_ _ (_, none) ⟨hp, hkids⟩).2
        intro p rest acc ⟨hq, hacc⟩
        refine ⟨fun q hq' => hq q (List.mem_cons_of_mem _ hq'), ?_⟩
        split
        · exact hacc
        · split
          · exact hacc
          · rename_i ah ak hchild
            dsimp only
            obtain ⟨hmem, hid⟩ := child_mem _ _ _ hchild
            intro c hc y hy
            rcases mem_childElems_setChild _ _ _ _ c hc with h | ⟨rfl, -⟩
            · exact hacc c h y hy
            · have hidc : ∀ (c : Prop) [Decidable c] (X : List Nat), (if c then { ah with files := X } else ah).id = ah.id := by
                intro c _ X; split <;> rfl
              dsimp only at hy
              rw [hidc] at hy
              rcases hy with hy | hy
              · exact hacc _ hmem y (Or.inl hy)
              · rcases ih ah ak _ _ y hy with h | h
                · exact hacc _ hmem y (Or.inr h)
                · exact Or.inr (hkbsub p.2 (hq p List.mem_cons_self) y (Or.inr h))
end

/-! ## Part 3: operation level -/

open AV.PM AV.LoadInv

section Op
variable (S : Spec) (V : Env) (nmAutosar : Nat)

/-- `merge_element` on the roots, as `load_buffer` calls it (`fid` = id of the new file) -/
def mergeRes (m : Model) (fid : Nat) (name : Bytes) (kids : Items) (st : PState) : Items × Option MergeErr :=
  mergeElement S V (fun g => ((m.files ++ [({ id := fid, name := name, version := st.ver, standalone := st.standalone } : File)]).find?
      (·.id == g)).map (·.version)) fid st.ver (kids.size + m.rootKids.size + 2) m.rootHdr m.rootKids m.rootHdr.files kids

/-- the merged root before the renumbering -/
def mergeRoot1 (m : Model) (fid : Nat) (r : Items) : Items :=
  .elem { m.rootHdr with files := if m.rootHdr.files.contains fid then m.rootHdr.files else m.rootHdr.files ++ [fid] } r .nil

/-- the tree of the model after an accepted merging load -/
def mergeRoot2 (w : World) (m : Model) (name : Bytes) (kids : Items) (st : PState) : Items :=
  renumItems w.nextId (newIds w.nextId (mergeRoot1 m w.nextFile (mergeRes S V m w.nextFile name kids st).1))
    (mergeRoot1 m w.nextFile (mergeRes S V m w.nextFile name kids st).1)

/-- what a load into a model that has files does: nothing, or the model `k` gets the merged and renumbered tree -/
theorem opLoad_merge_cases (w : World) (k : Nat) (m : Model) (name : Bytes) (strict : Bool) (buf : Bytes)
    (hm : w.models[k]? = some m) (hne : m.files.isEmpty = false) :
    (opLoad S V nmAutosar w k name strict buf).1 = w ∨
    ∃ h kids st m', runParser S V strict buf w.nextId nmAutosar = (.ok (h, kids), st) ∧
      (mergeRes S V m w.nextFile name kids st).2 = none ∧
      m'.rootHdr = (m.setRoot (mergeRoot2 S V w m name kids st)).rootHdr ∧
      m'.rootKids = (m.setRoot (mergeRoot2 S V w m name kids st)).rootKids ∧
      m'.rootIssued = m.rootIssued ∧
      m'.files = m.files ++ [{ id := w.nextFile, name := name, version := st.ver, standalone := st.standalone }] ∧
      (opLoad S V nmAutosar w k name strict buf).1.models = w.models.set k m' ∧
      (opLoad S V nmAutosar w k name strict buf).1.nextId =
        w.nextId + (newIds w.nextId (mergeRoot1 m w.nextFile (mergeRes S V m w.nextFile name kids st).1)).length := by
  unfold opLoad
  simp only [hm]
  split
  · exact Or.inl rfl
  · split
    · exact Or.inl rfl
    · rename_i h kids heq
      simp only [hne, Bool.false_eq_true, if_false]
      split
      · exact Or.inl rfl
      · split
        · exact Or.inl rfl
        · rename_i hnone
          refine Or.inr ⟨h, kids, (runParser S V strict buf w.nextId nmAutosar).2, _, ?_, hnone, ?_, ?_, ?_, ?_, rfl, rfl⟩
          · rw [← heq]
          · rfl
          · rfl
          · unfold Model.setRoot; rfl
          · unfold Model.setRoot; rfl

theorem nodup_of_lab {par : PRef} {n : Nat} {its : Items} (hl : Lab par n its) : its.ids.Nodup := by
  rw [hl.ids, List.Nodup, List.pairwise_map]
  exact List.Pairwise.imp (fun {a b} (h : a ≠ b) => by omega) List.nodup_range

theorem lab_ids_ge {par : PRef} {n : Nat} {its : Items} (hl : Lab par n its) : ∀ x ∈ its.ids, n ≤ x := by
  intro x hx
  rw [hl.ids] at hx
  obtain ⟨i, _, rfl⟩ := List.mem_map.mp hx
  omega

theorem mergeRoot2_eq (w : World) (m : Model) (name : Bytes) (kids : Items) (st : PState) :
    ∃ h2 : Hdr, h2.files = (if m.rootHdr.files.contains w.nextFile then m.rootHdr.files else m.rootHdr.files ++ [w.nextFile]) ∧
      h2.id = renum w.nextId (newIds w.nextId (mergeRoot1 m w.nextFile (mergeRes S V m w.nextFile name kids st).1)) m.rootHdr.id ∧
      mergeRoot2 S V w m name kids st = .elem h2 (renumItems w.nextId
        (newIds w.nextId (mergeRoot1 m w.nextFile (mergeRes S V m w.nextFile name kids st).1)) (mergeRes S V m w.nextFile name kids st).1) .nil :=
  ⟨_, rfl, rfl, rfl⟩

section
variable (w : World) (k : Nat) (m : Model) (name : Bytes) (strict : Bool) (buf : Bytes) (h : Hdr) (kids : Items) (st : PState)
  (hr : runParser S V strict buf w.nextId nmAutosar = (.ok (h, kids), st))
include hr

theorem mergeRoot2_wfM (hm : m.wfM) : (m.setRoot (mergeRoot2 S V w m name kids st)).wfM := by
  obtain ⟨_, _, _, hlab, _, _, _⟩ := runParser_track S V strict buf w.nextId nmAutosar h kids st hr
  apply wfM_setRoot m _ (renumRef w.nextId (newIds w.nextId (mergeRoot1 m w.nextFile (mergeRes S V m w.nextFile name kids st).1)) m.rootHdr.parent) hm
  unfold mergeRoot2
  apply renumItems_wf
  exact ⟨rfl, mergeElement_wf S V _ _ _ _ _ _ _ _ _ hm hlab.wf, trivial⟩

/-- C10 for the merged tree: `merge_element` is called with the file set of the ROOT ELEMENT (since the repair of
c10:merge-restricts-to-all-model-files; before it was called with all files of the model and the statement needed the
extra hypothesis that the root carries every file of the model), so `m.filesOk` is all that is needed of the file sets -/
theorem mergeRoot2_filesOk (hm : m.filesOk) (hn : m.rootKids.ids.Nodup)
    (hnone : (mergeRes S V m w.nextFile name kids st).2 = none) : (m.setRoot (mergeRoot2 S V w m name kids st)).filesOk := by
  obtain ⟨_, _, _, hlab, _, _, _⟩ := runParser_track S V strict buf w.nextId nmAutosar h kids st hr
  apply setRoot_ok m _ hm
  obtain ⟨h2, hf2, _, e⟩ := mergeRoot2_eq S V w m name kids st
  rw [e]
  show FilesOk h2.files _
  apply renumItems_filesOk
  rw [hf2]
  apply mergeElement_filesOk S V _ _ _ _ _ _ _ _ _ hn (nodup_of_lab hlab) hm (hlab.filesOk []) _ _ hnone
  · intro g hg
    split
    · exact hg
    · exact List.mem_append_left _ hg
  · split
    · rename_i hc; simpa using hc
    · simp
end

/-- **a merging load keeps `Inv`** (parent fields in step with the structure, local file sets within the effective set of the
parent): for a model whose element ids are pairwise different.  Nothing is asked of the file ids (the new file `w.nextFile`
need not be fresh: if the root already has it in its set, the set stays as it is) -/
theorem opLoad_merge_inv (w : World) (k : Nat) (m : Model) (name : Bytes) (strict : Bool) (buf : Bytes)
    (hm : w.models[k]? = some m) (hne : m.files.isEmpty = false) (hn : m.rootKids.ids.Nodup)
    (hi : Inv w) : Inv (opLoad S V nmAutosar w k name strict buf).1 := by
  rcases opLoad_merge_cases S V nmAutosar w k m name strict buf hm hne with e | ⟨h, kids, st, m', hr, hnone, h1, h2, _, _, hmod, _⟩
  · rw [e]; exact hi
  · have hmem : m ∈ w.models := List.mem_of_getElem? hm
    exact ⟨wf_update w k m' _ hi.1 (wfM_of_eq _ m' h1 h2 (mergeRoot2_wfM S V nmAutosar w m name strict buf h kids st hr (hi.1 k m hm))) hmod,
      filesOk_update w k m' _ hi.2 (filesOk_of_eq _ m' h1 h2
        (mergeRoot2_filesOk S V nmAutosar w m name strict buf h kids st hr (hi.2 m hmem) hn hnone)) hmod⟩

/-- the other models are untouched -/
theorem opLoad_merge_others (w : World) (k : Nat) (m : Model) (name : Bytes) (strict : Bool) (buf : Bytes)
    (hm : w.models[k]? = some m) (hne : m.files.isEmpty = false) (j : Nat) (hj : j ≠ k) :
    (opLoad S V nmAutosar w k name strict buf).1.models[j]? = w.models[j]? := by
  rcases opLoad_merge_cases S V nmAutosar w k m name strict buf hm hne with e | ⟨h, kids, st, m', _, _, _, _, _, _, hmod, _⟩
  · rw [e]
  · rw [hmod, List.getElem?_set_ne (Ne.symm hj)]

/-- the ids of the tree after an accepted merging load: ids of the model before (below `nextId`, unchanged) or new ones (at
or above the old `nextId`) -/
theorem mergeRoot2_ids (w : World) (m : Model) (name : Bytes) (strict : Bool) (buf : Bytes) (h : Hdr) (kids : Items) (st : PState)
    (hr : runParser S V strict buf w.nextId nmAutosar = (.ok (h, kids), st)) (hroot : m.rootHdr.id < w.nextId) :
    (m.setRoot (mergeRoot2 S V w m name kids st)).rootHdr.id = m.rootHdr.id ∧
    ∀ x ∈ (m.setRoot (mergeRoot2 S V w m name kids st)).rootKids.ids, (x ∈ m.rootKids.ids ∧ x < w.nextId) ∨ w.nextId ≤ x := by
  obtain ⟨_, _, _, hlab, _, _, _⟩ := runParser_track S V strict buf w.nextId nmAutosar h kids st hr
  obtain ⟨h2, _, hid, e⟩ := mergeRoot2_eq S V w m name kids st
  rw [e]
  refine ⟨?_, ?_⟩
  · show h2.id = _
    rw [hid, renum_lt _ _ _ hroot]
  · intro x hx
    have hx : x ∈ (renumItems w.nextId (newIds w.nextId (mergeRoot1 m w.nextFile (mergeRes S V m w.nextFile name kids st).1))
        (mergeRes S V m w.nextFile name kids st).1).ids := hx
    rw [ids_renumItems] at hx
    obtain ⟨y, hy, rfl⟩ := List.mem_map.mp hx
    by_cases hlt : y < w.nextId
    · rw [renum_lt _ _ _ hlt]
      rcases mergeElement_ids_sub S V _ _ _ _ _ _ _ _ y hy with h1 | h1
      · exact Or.inl ⟨h1, hlt⟩
      · have := lab_ids_ge hlab y h1; omega
    · exact Or.inr (renum_ge _ _ _ (Nat.not_lt.mp hlt))

/-- **a merging load keeps `SepInv`** (the element ids of different models are apart), in a world whose element ids are below
`nextId` -/
theorem opLoad_merge_sep (w : World) (k : Nat) (m : Model) (name : Bytes) (strict : Bool) (buf : Bytes)
    (hm : w.models[k]? = some m) (hne : m.files.isEmpty = false)
    (hb : ∀ mj ∈ w.models, ∀ i ∈ mj.rootItems.ids, i < w.nextId) (hs : SepInv w) :
    SepInv (opLoad S V nmAutosar w k name strict buf).1 := by
  rcases opLoad_merge_cases S V nmAutosar w k m name strict buf hm hne with e | ⟨h, kids, st, m', hr, _, h1, h2, h3, _, hmod, _⟩
  · rw [e]; exact hs
  · obtain ⟨hsep, h0, hpos⟩ := hs
    have hmem : m ∈ w.models := List.mem_of_getElem? hm
    have hroot : m.rootHdr.id < w.nextId := hb m hmem _ (by rw [rootItems_ids]; exact List.mem_cons_self)
    obtain ⟨hid, hkids⟩ := mergeRoot2_ids S V nmAutosar w m name strict buf h kids st hr hroot
    rw [← h1] at hid
    rw [← h2] at hkids
    have hk : k < w.models.length := by
      rcases Nat.lt_or_ge k w.models.length with h | h
      · exact h
      · rw [List.getElem?_eq_none h] at hm; cases hm
    have hget : ∀ j mj, (opLoad S V nmAutosar w k name strict buf).1.models[j]? = some mj →
        (j = k ∧ mj = m') ∨ (j ≠ k ∧ w.models[j]? = some mj) := by
      intro j mj hj
      rw [hmod] at hj
      by_cases hjk : j = k
      · subst hjk
        rw [List.getElem?_set_self hk] at hj
        injection hj with hj
        exact Or.inl ⟨rfl, hj.symm⟩
      · rw [List.getElem?_set_ne (Ne.symm hjk)] at hj
        exact Or.inr ⟨hjk, hj⟩
    have hmem' : ∀ mj ∈ (opLoad S V nmAutosar w k name strict buf).1.models, mj = m' ∨ mj ∈ w.models := by
      intro mj hmj
      rw [hmod] at hmj
      rcases List.mem_or_eq_of_mem_set hmj with h | h
      · exact Or.inr h
      · exact Or.inl h
    refine ⟨?_, ?_, ?_⟩
    · intro i j mi mj hij hi hj x hx hxi
      rcases hget i mi hi with ⟨rfl, rfl⟩ | ⟨hik, hi'⟩ <;> rcases hget j mj hj with ⟨rfl, rfl⟩ | ⟨hjk, hj'⟩
      · exact hij rfl
      · -- `x` in another model and in the merged one
        have hxlt : x < w.nextId := hb mj (List.mem_of_getElem? hj') x (by rw [rootItems_ids]; exact List.mem_cons_of_mem _ hx)
        rw [rootItems_ids, List.mem_cons] at hxi
        have : x ∈ m.rootItems.ids := by
          rw [rootItems_ids, List.mem_cons]
          rcases hxi with h | h
          · exact Or.inl (by rw [h, hid])
          · rcases hkids x h with ⟨a, _⟩ | a
            · exact Or.inr a
            · omega
        exact hsep _ _ m mj hij hm hj' x hx this
      · rcases hkids x hx with ⟨a, _⟩ | a
        · exact hsep _ _ mi m hij hi' hm x a hxi
        · have := hb mi (List.mem_of_getElem? hi') x hxi; omega
      · exact hsep i j mi mj hij hi' hj' x hx hxi
    · intro mj hmj hiss
      rcases hmem' mj hmj with rfl | h
      · rw [hid]; exact h0 m hmem (by rw [← h3]; exact hiss)
      · exact h0 mj h hiss
    · intro mj hmj x hx
      rcases hmem' mj hmj with rfl | h
      · rcases hkids x hx with ⟨a, _⟩ | a
        · exact hpos m hmem x a
        · omega
      · exact hpos mj h x hx
end Op

/-- the bound without uniqueness of the ids -/
theorem renum_bound' (base : Nat) (order : List Nat) (x : Nat) (hx : x < base ∨ x ∈ order) :
    renum base order x < base + order.length := by
  unfold renum
  split
  · omega
  · rcases hx with hx | hx
    · omega
    · split
      · rename_i i hi
        obtain ⟨hlt, _⟩ := List.findIdx?_eq_some_iff_getElem.mp hi
        omega
      · rename_i hnone
        have := List.findIdx?_eq_none_iff.mp hnone x hx
        simp at this

section Op
variable (S : Spec) (V : Env) (nmAutosar : Nat)

/-- **after a merging load every element id is below the new `nextId`** -/
theorem opLoad_merge_bound (w : World) (k : Nat) (m : Model) (name : Bytes) (strict : Bool) (buf : Bytes)
    (hm : w.models[k]? = some m) (hne : m.files.isEmpty = false)
    (hb : ∀ mj ∈ w.models, ∀ i ∈ mj.rootItems.ids, i < w.nextId) :
    ∀ mj ∈ (opLoad S V nmAutosar w k name strict buf).1.models, ∀ i ∈ mj.rootItems.ids,
      i < (opLoad S V nmAutosar w k name strict buf).1.nextId := by
  rcases opLoad_merge_cases S V nmAutosar w k m name strict buf hm hne with e | ⟨h, kids, st, m', hr, _, h1, h2, _, _, hmod, hnid⟩
  · rw [e]; exact hb
  · intro mj hmj i hi
    rw [hnid]
    rw [hmod] at hmj
    rcases List.mem_or_eq_of_mem_set hmj with hmj | rfl
    · have := hb mj hmj i hi; omega
    · have : mj.rootItems.ids = (mergeRoot2 S V w m name kids st).ids := by
        obtain ⟨h2', _, _, e⟩ := mergeRoot2_eq S V w m name kids st
        rw [rootItems_ids, h1, h2, e]
        simp [Model.setRoot, Items.ids]
      rw [this] at hi
      unfold mergeRoot2 at hi
      rw [ids_renumItems] at hi
      obtain ⟨y, hy, rfl⟩ := List.mem_map.mp hi
      exact renum_bound' _ _ y (mem_ids_cases _ _ y hy)

end Op
end AV.W
