/-
C05 / C04, `setRefTexts` (the rewriting of the referrers of a renamed element by `set_item_name`): what it does to the ids,
the registrations (`refEntries`), the path index (`entries`), the SHORT-NAME discipline and the nodes (`Occ`) of a forest,
when every listed id is a plain reference node (content = one text) that is not called SHORT-NAME.
Everything is proved for ONE `modify` step first and lifted to the list by induction.
-/
import AutosarVerif.Lemmas.RefsTree
import AutosarVerif.Lemmas.IndexOps

namespace AV.W
open Items

/-- the edit `setRefTexts` applies to every listed node -/
def refEdit (txt : Bytes) : Hdr → Items → Hdr × Items := fun h0 k0 =>
  match k0 with
  | .nil => (h0, k0)
  | .elem _ _ rest => (h0, .text (.str txt) rest)
  | .text _ rest => (h0, .text (.str txt) rest)

theorem setRefTexts_nil (its : Items) (txt : Bytes) : setRefTexts its [] txt = its := rfl

theorem setRefTexts_cons (its : Items) (a : Nat) (l : List Nat) (txt : Bytes) :
    setRefTexts its (a :: l) txt = setRefTexts (its.modify a (refEdit txt)) l txt := rfl

theorem refEdit_fst (txt : Bytes) (h : Hdr) (k : Items) : (refEdit txt h k).1 = h := by
  cases k <;> rfl

theorem refEdit_text (txt : Bytes) (h : Hdr) (c : CDv) (r : Items) : refEdit txt h (.text c r) = (h, .text (.str txt) r) := rfl

theorem modify_text_nil (t : Nat) (f : Hdr → Items → Hdr × Items) (c : CDv) :
    (Items.text c .nil).modify t f = .text c .nil := by
  simp only [Items.modify]

theorem setRefTexts_text_nil (c : CDv) (l : List Nat) (txt : Bytes) : setRefTexts (.text c .nil) l txt = .text c .nil := by
  induction l with
  | nil => rfl
  | cons a l ih => rw [setRefTexts_cons, modify_text_nil, ih]

theorem not_occ_text_nil (h : Hdr) (k : Items) (c : CDv) : ¬ Occ h k (.text c .nil) := by
  simp only [Occ, not_false_eq_true]

section
variable (S : Spec)

/-- every id of the list is a plain reference node (content = one string) that is not called SHORT-NAME -/
abbrev RefLeaves (its : Items) (l : List Nat) : Prop :=
  ∀ id ∈ l, ∃ h p, Occ h (.text (.str p) .nil) its ∧ h.id = id ∧ S.isRef h.ety.typ = true ∧ h.name ≠ S.nmShortName

/-- the node with id `t`, if there is one, holds one string and is not called SHORT-NAME -/
def LeafAt (t : Nat) (its : Items) : Prop :=
  ∀ h k, Occ h k its → h.id = t → h.name ≠ S.nmShortName ∧ ∃ p, k = .text (.str p) .nil

theorem leafAt_of_refLeaves {its : Items} (hn : its.ids.Nodup) {l : List Nat} (hl : RefLeaves S its l) {a : Nat} (ha : a ∈ l) :
    LeafAt S a its := by
  intro h k ho he
  obtain ⟨h', p, ho', he', _, hnm⟩ := hl a ha
  obtain ⟨rfl, rfl⟩ := occ_unique its hn h h' k _ ho ho' (he.trans he'.symm)
  exact ⟨hnm, p, rfl⟩

theorem LeafAt.kids {t : Nat} {hd : Hdr} {k r : Items} (h : LeafAt S t (.elem hd k r)) : LeafAt S t k :=
  fun h0 k0 ho => h h0 k0 (Or.inr (Or.inl ho))
theorem LeafAt.rest {t : Nat} {hd : Hdr} {k r : Items} (h : LeafAt S t (.elem hd k r)) : LeafAt S t r :=
  fun h0 k0 ho => h h0 k0 (Or.inr (Or.inr ho))

/-! ### one step -/

/-- the nodes after one step (no uniqueness of ids needed) -/
theorem occ_modify_refEdit (t : Nat) (txt : Bytes) (its : Items)
    (hleaf : ∀ h k, Occ h k its → h.id = t → ∃ c, k = .text c .nil) (h : Hdr) (k : Items) :
    Occ h k (its.modify t (refEdit txt)) ↔
      ∃ k0, Occ h k0 its ∧ ((h.id = t ∧ k = .text (.str txt) .nil) ∨ (h.id ≠ t ∧ k = k0.modify t (refEdit txt))) := by
  induction its with
  | nil => simp only [Items.modify, Occ, false_and, exists_false]
  | text c r ih => simp only [Items.modify, Occ]; exact ih hleaf
  | elem hd kk r ihk ihr =>
    have ihk := ihk (fun h0 k0 ho => hleaf h0 k0 (Or.inr (Or.inl ho)))
    have ihr := ihr (fun h0 k0 ho => hleaf h0 k0 (Or.inr (Or.inr ho)))
    simp only [Items.modify]
    split
    · rename_i heq
      obtain ⟨c, rfl⟩ := hleaf hd kk (Or.inl ⟨rfl, rfl⟩) heq
      show Occ h k (.elem hd (.text (.str txt) .nil) (r.modify t (refEdit txt))) ↔ _
      constructor
      · rintro (⟨rfl, rfl⟩ | hfalse | ho)
        · exact ⟨.text c .nil, Or.inl ⟨rfl, rfl⟩, Or.inl ⟨heq, rfl⟩⟩
        · exact absurd hfalse (not_occ_text_nil _ _ _)
        · obtain ⟨k0, ho0, hc⟩ := ihr.mp ho
          exact ⟨k0, Or.inr (Or.inr ho0), hc⟩
      · rintro ⟨k0, (⟨rfl, rfl⟩ | hfalse | ho0), hc⟩
        · rcases hc with ⟨_, rfl⟩ | ⟨hne, _⟩
          · exact Or.inl ⟨rfl, rfl⟩
          · exact absurd heq hne
        · exact absurd hfalse (not_occ_text_nil _ _ _)
        · exact Or.inr (Or.inr (ihr.mpr ⟨k0, ho0, hc⟩))
    · rename_i hne
      constructor
      · rintro (⟨rfl, rfl⟩ | ho | ho)
        · exact ⟨kk, Or.inl ⟨rfl, rfl⟩, Or.inr ⟨hne, rfl⟩⟩
        · obtain ⟨k0, ho0, hc⟩ := ihk.mp ho
          exact ⟨k0, Or.inr (Or.inl ho0), hc⟩
        · obtain ⟨k0, ho0, hc⟩ := ihr.mp ho
          exact ⟨k0, Or.inr (Or.inr ho0), hc⟩
      · rintro ⟨k0, (⟨rfl, rfl⟩ | ho0 | ho0), hc⟩
        · rcases hc with ⟨he, _⟩ | ⟨_, rfl⟩
          · exact absurd he hne
          · exact Or.inl ⟨rfl, rfl⟩
        · exact Or.inr (Or.inl (ihk.mpr ⟨k0, ho0, hc⟩))
        · exact Or.inr (Or.inr (ihr.mpr ⟨k0, ho0, hc⟩))

theorem LeafAt.shape {t : Nat} {its : Items} (hleaf : LeafAt S t its) :
    ∀ h k, Occ h k its → h.id = t → ∃ c, k = .text c .nil := fun h k ho he => by
  obtain ⟨_, p, hp⟩ := hleaf h k ho he
  exact ⟨_, hp⟩

theorem ids_modify_refEdit (t : Nat) (txt : Bytes) (its : Items) (hleaf : LeafAt S t its) :
    (its.modify t (refEdit txt)).ids = its.ids := by
  refine ids_modify_same t _ its (fun h k ho he => ⟨by rw [refEdit_fst], ?_⟩)
  obtain ⟨_, p, rfl⟩ := hleaf h k ho he
  rfl

/-- the hypothesis survives one step, for any list -/
theorem refLeaves_modify (t : Nat) (txt : Bytes) (its : Items) (hleaf : LeafAt S t its) (l : List Nat)
    (hl : RefLeaves S its l) : RefLeaves S (its.modify t (refEdit txt)) l := by
  intro id hid
  obtain ⟨h, p, ho, he, hr, hnm⟩ := hl id hid
  by_cases hc : h.id = t
  · exact ⟨h, txt, (occ_modify_refEdit t txt its (hleaf.shape S) h _).mpr ⟨_, ho, Or.inl ⟨hc, rfl⟩⟩, he, hr, hnm⟩
  · exact ⟨h, p, (occ_modify_refEdit t txt its (hleaf.shape S) h _).mpr
      ⟨_, ho, Or.inr ⟨hc, (modify_text_nil t _ _).symm⟩⟩, he, hr, hnm⟩

theorem refEntries_snd_mem (its : Items) (e : Bytes × Nat) (he : e ∈ refEntries S its) : e.2 ∈ its.ids := by
  induction its with
  | nil => simp only [refEntries, List.not_mem_nil] at he
  | text c r ih => exact ih he
  | elem hd k r ihk ihr =>
    simp only [refEntries, List.mem_append] at he
    simp only [Items.ids, List.mem_cons, List.mem_append]
    rcases he with (he | he) | he
    · left
      unfold refOf at he
      split at he
      · split at he
        · simp only [List.mem_singleton] at he; rw [he]
        · simp only [List.not_mem_nil] at he
      · simp only [List.not_mem_nil] at he
    · exact Or.inr (Or.inl (ihk he))
    · exact Or.inr (Or.inr (ihr he))

theorem map_ite_id_of_not_mem (t : Nat) (txt : Bytes) (es : List (Bytes × Nat)) (h : ∀ e ∈ es, e.2 ≠ t) :
    es.map (fun e => if e.2 = t then (txt, e.2) else e) = es := by
  induction es with
  | nil => rfl
  | cons e es ih =>
    simp only [List.map_cons, if_neg (h e List.mem_cons_self)]
    rw [ih (fun e' he' => h e' (List.mem_cons_of_mem _ he'))]

theorem refOf_snd (h : Hdr) (k : Items) (e : Bytes × Nat) (he : e ∈ refOf S h k) : e.2 = h.id := by
  unfold refOf at he
  split at he
  · split at he
    · simp only [List.mem_singleton] at he; rw [he]
    · simp only [List.not_mem_nil] at he
  · simp only [List.not_mem_nil] at he

theorem refOf_text (h : Hdr) (p q : Bytes) :
    (refOf S h (.text (.str p) .nil)).map (fun e => if e.2 = h.id then (q, e.2) else e) = refOf S h (.text (.str q) .nil) := by
  have hc : ∀ x : Bytes, charData S h (.text (.str x) .nil) =
      if S.mode h.ety.typ = .characters ∨ S.mode h.ety.typ = .mixed then some (.str x) else none := fun _ => rfl
  unfold refOf
  rw [hc, hc]
  cases S.isRef h.ety.typ with
  | false => rfl
  | true =>
    by_cases hm : S.mode h.ety.typ = .characters ∨ S.mode h.ety.typ = .mixed
    · simp only [if_pos hm, if_true, List.map_cons, List.map_nil]
    · simp only [if_neg hm, if_true, List.map_nil]

/-- the registrations after one step -/
theorem refEntries_modify_refEdit (t : Nat) (txt : Bytes) (its : Items) (hn : its.ids.Nodup) (hleaf : LeafAt S t its) :
    refEntries S (its.modify t (refEdit txt)) = (refEntries S its).map fun e => if e.2 = t then (txt, e.2) else e := by
  induction its with
  | nil => rfl
  | text c r ih => simp only [Items.modify, refEntries]; exact ih (by simpa [Items.ids] using hn) hleaf
  | elem hd kk r ihk ihr =>
    simp only [Items.ids, List.nodup_cons, List.nodup_append, List.mem_append, not_or] at hn
    obtain ⟨hn1, hnk, hnr, hdis⟩ := hn
    have ihk := ihk hnk (hleaf.kids S)
    have ihr := ihr hnr (hleaf.rest S)
    simp only [Items.modify]
    split
    · rename_i heq
      obtain ⟨_, p, rfl⟩ := hleaf hd kk (Or.inl ⟨rfl, rfl⟩) heq
      have hr : t ∉ r.ids := by rw [← heq]; exact hn1.2
      rw [modify_not_mem t _ r hr]
      show refEntries S (.elem hd (.text (.str txt) .nil) r) = _
      simp only [refEntries, List.append_nil, List.map_append]
      rw [map_ite_id_of_not_mem t txt (refEntries S r)
        (fun e he hc => hr (hc ▸ refEntries_snd_mem S r e he)), ← heq, refOf_text]
    · rename_i hne
      simp only [refEntries, refOf_modify, List.map_append, ihk, ihr]
      rw [map_ite_id_of_not_mem t txt (refOf S hd kk) (fun e he hc => hne ((refOf_snd S hd kk e he).symm.trans hc))]

theorem keepsView_refEdit (t : Nat) (txt : Bytes) (its : Items) (hleaf : LeafAt S t its) : KeepsView S t (refEdit txt) its := by
  intro h k ho he
  obtain ⟨hnm, _⟩ := hleaf h k ho he
  rw [refEdit_fst]
  exact ⟨rfl, rfl, rfl, fun e => absurd e hnm⟩

theorem keepsSn_refEdit (t : Nat) (txt : Bytes) (its : Items) (hleaf : LeafAt S t its) : KeepsSn S t (refEdit txt) its := by
  intro h k ho he
  obtain ⟨hnm, p, rfl⟩ := hleaf h k ho he
  rw [refEdit_text]
  exact ⟨rfl, rfl, fun e => absurd e hnm, fun _ _ => ⟨trivial, trivial⟩⟩

/-- the path index after one step -/
theorem entries_modify_refEdit (t : Nat) (txt : Bytes) (its : Items) (hleaf : LeafAt S t its) (pre : Bytes) :
    entries S (its.modify t (refEdit txt)) pre = entries S its pre := by
  refine entries_modify_same S t _ its (keepsView_refEdit S t txt its hleaf) (fun h k ho he => ?_) pre
  obtain ⟨_, p, rfl⟩ := hleaf h k ho he
  rw [refEdit_text]
  exact ⟨by rw [itemName_none_of_not_sn S h _ id, itemName_none_of_not_sn S h _ id], fun _ => rfl⟩

theorem topOk_modify (t : Nat) (f : Hdr → Items → Hdr × Items) (its : Items) (hf : KeepsSn S t f its) (h : topOk S its) :
    topOk S (its.modify t f) := by
  induction its with
  | nil => trivial
  | text c r ih => simp only [Items.modify, topOk] at *; exact ih hf h
  | elem hd k r _ ihr =>
    have ihr := ihr (fun h0 k0 ho => hf h0 k0 (Or.inr (Or.inr ho))) h.2
    simp only [Items.modify]
    split
    · rename_i heq
      obtain ⟨h1, _, h3, _⟩ := hf hd k (Or.inl ⟨rfl, rfl⟩) heq
      exact ⟨fun e => h3 (h1 ▸ e) (h.1 (h1 ▸ e)), ihr⟩
    · refine ⟨fun e => ?_, ihr⟩
      obtain ⟨p1, p2, p3, n, hn, hs⟩ := h.1 e
      subst hn
      exact ⟨p1, p2, p3, n, modify_text_nil t f _, hs⟩

/-! ### the whole list -/

variable {its : Items} (hn : its.ids.Nodup) {l : List Nat} (txt : Bytes)
  (hl : ∀ id ∈ l, ∃ h p, Occ h (.text (.str p) .nil) its ∧ h.id = id ∧ S.isRef h.ety.typ = true ∧ h.name ≠ S.nmShortName)

include hn hl

theorem setRefTexts_ids : (setRefTexts its l txt).ids = its.ids := by
  induction l generalizing its with
  | nil => rfl
  | cons a l ih =>
    have hleaf := leafAt_of_refLeaves S hn hl List.mem_cons_self
    have hids := ids_modify_refEdit S a txt its hleaf
    rw [setRefTexts_cons, ih (hids ▸ hn)
      (refLeaves_modify S a txt its hleaf l (fun id hid => hl id (List.mem_cons_of_mem _ hid))), hids]

/-- the hypothesis `hl` survives, for any further list `l'` (so the lemmas can be iterated over several lists) -/
theorem setRefTexts_refLeaves (l' : List Nat)
    (hl' : ∀ id ∈ l', ∃ h p, Occ h (.text (.str p) .nil) its ∧ h.id = id ∧ S.isRef h.ety.typ = true ∧ h.name ≠ S.nmShortName) :
    ∀ id ∈ l', ∃ h p, Occ h (.text (.str p) .nil) (setRefTexts its l txt) ∧ h.id = id ∧ S.isRef h.ety.typ = true ∧
      h.name ≠ S.nmShortName := by
  induction l generalizing its with
  | nil => exact hl'
  | cons a l ih =>
    have hleaf := leafAt_of_refLeaves S hn hl List.mem_cons_self
    have hids := ids_modify_refEdit S a txt its hleaf
    rw [setRefTexts_cons]
    exact ih (hids ▸ hn) (refLeaves_modify S a txt its hleaf l (fun id hid => hl id (List.mem_cons_of_mem _ hid)))
      (refLeaves_modify S a txt its hleaf l' hl')

/-- the registrations afterwards: the listed referrers are registered under `txt`, all others as before -/
theorem setRefTexts_refEntries :
    refEntries S (setRefTexts its l txt) = (refEntries S its).map fun e => if e.2 ∈ l then (txt, e.2) else e := by
  induction l generalizing its with
  | nil => simp only [setRefTexts_nil, List.not_mem_nil, if_false, List.map_id']
  | cons a l ih =>
    have hleaf := leafAt_of_refLeaves S hn hl List.mem_cons_self
    have hids := ids_modify_refEdit S a txt its hleaf
    rw [setRefTexts_cons, ih (hids ▸ hn)
      (refLeaves_modify S a txt its hleaf l (fun id hid => hl id (List.mem_cons_of_mem _ hid))),
      refEntries_modify_refEdit S a txt its hn hleaf, List.map_map]
    apply List.map_congr_left
    intro e _
    simp only [Function.comp, List.mem_cons]
    by_cases h1 : e.2 = a
    · by_cases h2 : e.2 ∈ l
      · simp only [h1, if_true, true_or]
        rw [if_pos (h1 ▸ h2)]
      · simp only [h1, if_true, true_or]
        rw [if_neg (fun hx => h2 (h1 ▸ hx))]
    · by_cases h2 : e.2 ∈ l <;> simp only [h1, h2, if_true, if_false, or_true, or_false]

/-- the path index is not concerned -/
theorem setRefTexts_entries' (pre : Bytes) : entries S (setRefTexts its l txt) pre = entries S its pre := by
  induction l generalizing its with
  | nil => rfl
  | cons a l ih =>
    have hleaf := leafAt_of_refLeaves S hn hl List.mem_cons_self
    have hids := ids_modify_refEdit S a txt its hleaf
    rw [setRefTexts_cons, ih (hids ▸ hn)
      (refLeaves_modify S a txt its hleaf l (fun id hid => hl id (List.mem_cons_of_mem _ hid))),
      entries_modify_refEdit S a txt its hleaf]

/-- the path index is not concerned (signature as used downstream; the discipline is not needed) -/
theorem setRefTexts_entries (_hS : SnOk S its) (_ht : topOk S its) (pre : Bytes) :
    entries S (setRefTexts its l txt) pre = entries S its pre :=
  setRefTexts_entries' S hn txt hl pre

theorem setRefTexts_snOk (hS : SnOk S its) (ht : topOk S its) :
    SnOk S (setRefTexts its l txt) ∧ topOk S (setRefTexts its l txt) := by
  induction l generalizing its with
  | nil => exact ⟨hS, ht⟩
  | cons a l ih =>
    have hleaf := leafAt_of_refLeaves S hn hl List.mem_cons_self
    have hids := ids_modify_refEdit S a txt its hleaf
    have hk := keepsSn_refEdit S a txt its hleaf
    rw [setRefTexts_cons]
    exact ih (hids ▸ hn) (refLeaves_modify S a txt its hleaf l (fun id hid => hl id (List.mem_cons_of_mem _ hid)))
      (snOk_modify S a _ its hk hS) (topOk_modify S a _ its hk ht)

/-- the nodes afterwards: a listed node holds `txt`, every other node keeps its header, and its content is its old content
with the same rewriting applied below it (for a node without sub-elements, e.g. a reference, that is its old content) -/
theorem setRefTexts_occ (h : Hdr) (k : Items) :
    Occ h k (setRefTexts its l txt) ↔
      ∃ k0, Occ h k0 its ∧ ((h.id ∈ l ∧ k = .text (.str txt) .nil) ∨ (h.id ∉ l ∧ k = setRefTexts k0 l txt)) := by
  induction l generalizing its with
  | nil =>
    constructor
    · intro ho; exact ⟨k, ho, Or.inr ⟨List.not_mem_nil, rfl⟩⟩
    · rintro ⟨k0, ho, (⟨hm, _⟩ | ⟨_, rfl⟩)⟩
      · cases hm
      · exact ho
  | cons a l ih =>
    have hleaf := leafAt_of_refLeaves S hn hl List.mem_cons_self
    have hids := ids_modify_refEdit S a txt its hleaf
    have hstep := occ_modify_refEdit a txt its (hleaf.shape S) h
    rw [setRefTexts_cons, ih (hids ▸ hn)
      (refLeaves_modify S a txt its hleaf l (fun id hid => hl id (List.mem_cons_of_mem _ hid)))]
    constructor
    · rintro ⟨k1, ho1, hc⟩
      obtain ⟨k0, ho0, hc0⟩ := (hstep k1).mp ho1
      refine ⟨k0, ho0, ?_⟩
      rcases hc0 with ⟨he, rfl⟩ | ⟨hne, rfl⟩
      · refine Or.inl ⟨List.mem_cons.mpr (Or.inl he), ?_⟩
        rcases hc with ⟨_, rfl⟩ | ⟨_, rfl⟩
        · rfl
        · exact setRefTexts_text_nil _ _ _
      · rcases hc with ⟨hm, rfl⟩ | ⟨hnm, rfl⟩
        · exact Or.inl ⟨List.mem_cons_of_mem _ hm, rfl⟩
        · exact Or.inr ⟨fun hx => (List.mem_cons.mp hx).elim hne hnm, rfl⟩
    · rintro ⟨k0, ho0, hc⟩
      by_cases he : h.id = a
      · have hk : k = .text (.str txt) .nil := by
          rcases hc with ⟨_, hk⟩ | ⟨hnm, _⟩
          · exact hk
          · exact absurd (List.mem_cons.mpr (Or.inl he)) hnm
        refine ⟨.text (.str txt) .nil, (hstep _).mpr ⟨k0, ho0, Or.inl ⟨he, rfl⟩⟩, ?_⟩
        by_cases hm : h.id ∈ l
        · exact Or.inl ⟨hm, hk⟩
        · exact Or.inr ⟨hm, hk.trans (setRefTexts_text_nil _ _ _).symm⟩
      · refine ⟨k0.modify a (refEdit txt), (hstep _).mpr ⟨k0, ho0, Or.inr ⟨he, rfl⟩⟩, ?_⟩
        rcases hc with ⟨hm, hk⟩ | ⟨hnm, hk⟩
        · exact Or.inl ⟨(List.mem_cons.mp hm).resolve_left he, hk⟩
        · exact Or.inr ⟨fun hx => hnm (List.mem_cons_of_mem _ hx), hk⟩

/-- (a) a node that is not listed and holds one content text is unchanged -/
theorem setRefTexts_occ_not_mem (h : Hdr) (c : CDv) (ho : Occ h (.text c .nil) its) (hm : h.id ∉ l) :
    Occ h (.text c .nil) (setRefTexts its l txt) :=
  (setRefTexts_occ S hn txt hl h _).mpr ⟨_, ho, Or.inr ⟨hm, (setRefTexts_text_nil _ _ _).symm⟩⟩

/-- (a'), any node that is not listed: same header, content rewritten below -/
theorem setRefTexts_occ_not_mem' (h : Hdr) (k0 : Items) (ho : Occ h k0 its) (hm : h.id ∉ l) :
    Occ h (setRefTexts k0 l txt) (setRefTexts its l txt) :=
  (setRefTexts_occ S hn txt hl h _).mpr ⟨_, ho, Or.inr ⟨hm, rfl⟩⟩

/-- (b) a listed node holds `txt` afterwards -/
theorem setRefTexts_occ_mem (h : Hdr) (k0 : Items) (ho : Occ h k0 its) (hm : h.id ∈ l) :
    Occ h (.text (.str txt) .nil) (setRefTexts its l txt) :=
  (setRefTexts_occ S hn txt hl h _).mpr ⟨_, ho, Or.inl ⟨hm, rfl⟩⟩

end
end AV.W
