/-
C05, non-vacuity of the reference invariant: the hypotheses of `run_cinv` (`Lemmas/RefsReach.lean`) are met by a concrete
specification with a REFERENCE type and by a concrete guarded history whose intermediate states have a non-trivial reverse
reference map.

`refSpec` = `nameSpec` (`Lemmas/IndexWitness.lean`) extended by
  * the data type 5 (mode CHARACTERS, character data 1 = `REFERENCE_TYPE_IDX`, `cspec 1 = .string false none`), and
  * the definition 5 "X-REF" (name 105, type 5, multiplicity `any`), the only sub-element of Q (type 3; sub-entry 5, version
    mask 7).
The other rows are those of `nameSpec`:  R (type 0): P (def 1), M (def 4);  P (type 1): SHORT-NAME (def 2, version 2 only), Q (def 3);
SHORT-NAME (type 2, characters, pattern 8);  M (type 4, MIXED): SHORT-NAME (def 2, version 1 only).
-/
import AutosarVerif.Lemmas.RefsReach
import AutosarVerif.Lemmas.IndexWitness

namespace AV.W
open AV

def refSpec : Spec where
  nTypes := 6
  nDefs := 6
  nSubs := 6
  nAttrs := 0
  nVer := 6
  nCData := 2
  nRefItems := 0
  subStart := fun t => if t = 0 then 0 else if t = 1 then 2 else if t = 4 then 4 else if t = 3 then 5 else 6
  subEnd := fun t => if t = 0 then 2 else if t = 1 then 4 else if t = 4 then 5 else 6
  subVer := fun t => if t = 0 then 0 else if t = 1 then 2 else if t = 3 then 5 else 4
  attrStart := fun _ => 0
  attrEnd := fun _ => 0
  attrVer := fun _ => 0
  cdataOf := fun t => if t = 2 then some 0 else if t = 5 then some 1 else none
  mode := fun t => if t = 2 then .characters else if t = 5 then .characters else if t = 4 then .mixed else .sequence
  refStart := fun _ => 0
  refEnd := fun _ => 0
  subEntry := fun i =>
    if i = 0 then .elem 1 else if i = 1 then .elem 4 else if i = 2 then .elem 2 else if i = 3 then .elem 3
    else if i = 4 then .elem 2 else .elem 5
  verInfo := fun i => if i = 2 then 2 else if i = 4 then 1 else 7
  attrName := fun _ => 0
  attrCData := fun _ => 0
  attrRequired := fun _ => false
  refItem := fun _ => 0
  defName := fun d => if d = 2 then 999 else 100 + d
  defType := fun d => d
  defMult := fun d => if d = 1 then .any else if d = 5 then .any else .zeroOrOne
  defOrdered := fun _ => false
  defSplit := fun d => if d = 0 then 1 else 0
  cspec := fun i => if i = 1 then .string false none else .pattern 8 none
  refTypeIdx := 1
  rootDef := 0
  depth := 1
  nmShortName := 999
  atDest := 998

/-! ### the specification meets the hypotheses -/

theorem refSpec_named (t : Nat) (h : refSpec.isNamed t = true) : t = 1 ∨ t = 4 := by
  by_cases h1 : t = 1
  · exact Or.inl h1
  · by_cases h4 : t = 4
    · exact Or.inr h4
    · exfalso
      by_cases h0 : t = 0
      · subst h0; revert h; decide
      · by_cases h3 : t = 3
        · subst h3; revert h; decide
        · have : refSpec.subCount t = 0 := by
            simp only [Spec.subCount, refSpec, h0, h1, h3, h4, if_false]
          simp [Spec.isNamed, Spec.shortNameMask, this] at h

/-- the SHORT-NAME definition of both named types is the definition 2 -/
theorem refSpec_snDef (t d : Nat) (h : refSpec.isNamed t = true) (hd : refSpec.subAt t 0 = .elem d) : d = 2 := by
  rcases refSpec_named t h with rfl | rfl
  · have : refSpec.subAt 1 0 = .elem 2 := by decide
    rw [this] at hd; injection hd with e; exact e.symm
  · have : refSpec.subAt 4 0 = .elem 2 := by decide
    rw [this] at hd; injection hd with e; exact e.symm

/-- the only reference type is the type 5 -/
theorem refSpec_isRef (t : Nat) (h : refSpec.isRef t = true) : t = 5 := by
  by_cases h5 : t = 5
  · exact h5
  · exfalso
    by_cases h2 : t = 2
    · subst h2; revert h; decide
    · have : refSpec.cdataOf t = none := by
        simp only [refSpec, h2, h5, if_false]
      simp [Spec.isRef, this] at h

/-- the type 5 IS a reference type -/
theorem refSpec_isRef_5 : refSpec.isRef 5 = true := by decide

/-- the hypotheses of the index invariant, for the versions `vOk = 6` -/
theorem refSpec_hyp : IdxHyp refSpec nameEnv 6 where
  wf := {
    named_seq := by
      intro t h hm
      rcases refSpec_named t h with rfl | rfl
      · rfl
      · exact absurd (by decide) hm
    sn_mask := by
      intro t h
      rcases refSpec_named t h with rfl | rfl <;> decide
    sn_mult := by
      intro t d h hd
      have := refSpec_snDef t d h hd
      subst this
      decide
    sn_type := by
      intro t d h hd
      have := refSpec_snDef t d h hd
      subst this
      exact ⟨by decide, by decide, .pattern 8 none, rfl, rfl⟩ }
  only := by
    intro t nm e m idx h hmem hnm
    rcases refSpec_named t h with rfl | rfl
    · have hl : refSpec.listSub 1 = [(999, ⟨2, 2⟩, 2, [0]), (103, ⟨3, 3⟩, 7, [1])] := by decide
      rw [hl] at hmem
      simp only [List.mem_cons, List.mem_nil_iff, or_false, Prod.mk.injEq] at hmem
      rcases hmem with ⟨_, _, _, h4⟩ | ⟨h1, _, _, _⟩
      · exact h4
      · subst h1; exact absurd hnm (by decide)
    · have hl : refSpec.listSub 4 = [(999, ⟨2, 2⟩, 1, [0])] := by decide
      rw [hl] at hmem
      simp only [List.mem_cons, List.mem_nil_iff, or_false, Prod.mk.injEq] at hmem
      exact hmem.2.2.2
  noSlash := by
    intro t d sp s ver h hd hsp hcv
    have := refSpec_snDef t d h hd
    subst this
    have h2 : refSpec.chardataSpec (refSpec.defType 2) = some (.pattern 8 none) := rfl
    rw [h2] at hsp
    injection hsp with hsp
    subst hsp
    intro h47
    simp only [checkValue, nameEnv, Bool.true_and] at hcv
    have : s.contains 47 = true := List.contains_iff_mem.mpr h47
    rw [this] at hcv
    cases hcv
  latest := by decide
  rootName := by decide

/-- the hypotheses of the reference invariant -/
theorem refSpec_refWF : RefWF refSpec where
  ref_chars := by
    intro t h
    have := refSpec_isRef t h
    subst this
    rfl
  ref_spec := by
    intro t h
    have := refSpec_isRef t h
    subst this
    exact ⟨.string false none, rfl, rfl⟩
  sn_not_ref := by
    intro t d h hd
    have := refSpec_snDef t d h hd
    subst this
    decide
  root_not_ref := by decide

/-! ### a guarded history with a non-trivial reverse reference map -/

/-- a file of version 2; the package P "a" (e1, SHORT-NAME e2) with a Q (e3) inside; two X-REF elements (e4, e5) in Q; e4 gets
the text "/a", e5 the text "/zz", then e5 is changed to "/a"; the text of e4 is removed; a second P "c" (e6); Q (with e5 in it)
is removed -/
def refOps : List Op :=
  [.newModel, .mkFile 0 [102] 2 true, .named 0 101 [97] none, .create 1 103 none,
   .create 3 105 none, .create 3 105 none,
   .cdata 4 (.str [47, 97]), .cdata 5 (.str [47, 122, 122]), .cdata 5 (.str [47, 97]),
   .rmcdata 4, .named 0 101 [99] none, .remove 1 3]

theorem refOps_ok : ∀ op ∈ refOps, OpOk refSpec 6 op := by decide

/-- the combined invariant (index exact, reverse reference map exact, reference elements are leaves, root type) holds after
the history, by the theorem … -/
theorem refOps_cinv : CInv refSpec 6 (run refSpec nameEnv [] refOps) :=
  run_cinv refSpec nameEnv 6 [] refSpec_hyp refSpec_refWF refOps refOps_ok

/-- … and after each of its prefixes -/
theorem refOps_cinv_take (k : Nat) : CInv refSpec 6 (run refSpec nameEnv [] (refOps.take k)) :=
  run_cinv refSpec nameEnv 6 [] refSpec_hyp refSpec_refWF (refOps.take k) fun op h => refOps_ok op (List.mem_of_mem_take h)

/-! The invariant is not vacuous on the way: the reverse reference map (`refs`) and the list of registrations it must hold
(`refEntries`) in the intermediate states. -/

/-- every operation of the history is answered with success (no state is kept by an error) -/
example : (refOps.foldl (fun (ws : World × List String) op =>
      let r := applyOp refSpec nameEnv [] ws.1 op; (r.1, ws.2 ++ [r.2])) (emptyWorld, [])).2 =
    ["ok m0", "ok f0 e0", "ok e1 e2", "ok e3", "ok e4", "ok e5", "ok", "ok", "ok", "ok", "ok e6 e7", "ok"] := by decide

/-- two reference elements without text: nothing registered -/
example : ((run refSpec nameEnv [] (refOps.take 6)).models.map fun m => (m.refs, refEntries refSpec m.rootItems)) =
    [([], [])] := by decide

/-- e4 := "/a" -/
example : ((run refSpec nameEnv [] (refOps.take 7)).models.map fun m => (m.refs, refEntries refSpec m.rootItems)) =
    [([([47, 97], [4])], [([47, 97], 4)])] := by decide

/-- e5 := "/zz": two keys -/
example : ((run refSpec nameEnv [] (refOps.take 8)).models.map fun m => (m.refs, refEntries refSpec m.rootItems)) =
    [([([47, 97], [4]), ([47, 122, 122], [5])], [([47, 97], 4), ([47, 122, 122], 5)])] := by decide

/-- e5 := "/a": the key "/zz" is dropped, "/a" has two referrers -/
example : ((run refSpec nameEnv [] (refOps.take 9)).models.map fun m => (m.refs, refEntries refSpec m.rootItems)) =
    [([([47, 97], [4, 5])], [([47, 97], 4), ([47, 97], 5)])] := by decide

/-- the text of e4 removed: one referrer left; the referenced element is in the index under that very path -/
example : ((run refSpec nameEnv [] (refOps.take 10)).models.map fun m => (m.refs, refEntries refSpec m.rootItems, m.index)) =
    [([([47, 97], [5])], [([47, 97], 5)], [([47, 97], 1)])] := by decide

/-- a second package: the map stays -/
example : ((run refSpec nameEnv [] (refOps.take 11)).models.map fun m => (m.refs, refEntries refSpec m.rootItems, m.index)) =
    [([([47, 97], [5])], [([47, 97], 5)], [([47, 97], 1), ([47, 99], 6)])] := by decide

/-- Q removed with the reference element e5 in it: the map is empty again -/
example : ((run refSpec nameEnv [] refOps).models.map fun m => (m.refs, refEntries refSpec m.rootItems, m.index)) =
    [([], [], [([47, 97], 1), ([47, 99], 6)])] := by decide

end AV.W
