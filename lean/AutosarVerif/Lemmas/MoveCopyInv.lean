/-
`move_element_here[_at]` (`opMove`) and `create_copied_sub_element[_at]` (`opCopy`) as GUARDED operations: the components of the
full invariant `GInv` (`Lemmas/StepX.lean`) that `MoveOpC06.lean` / `DeepCopy.lean` leave open —

* move (real move of a named element): the file-set invariant (`filesOk`), `WRLeaf`, `WROne`, `WKidsKnown`, `WRootTy`
  → `opMove_ginv : GInv S vOk w → MoveGuard S w p x → GInv S vOk (opMove S V w p x pos?).1`;
* copy: `filesOk`, `WRLeaf`, `WROne`, `WKidsKnown`, `WRootTy`
  → `opCopy_ginv : GInv S vOk w → CopyGuard S V w p x → GInv S vOk (opCopy S V w p x pos?).1`.

`MoveGuard S w p x` and `CopyGuard S V w p x` are decidable predicates on the state and the arguments (Boolean checks
`moveGuardB`, `copyGuardB`); every clause is commented with the finding or model fact that makes it necessary (the clause about
local file sets has a concrete counterexample in `Lemmas/StepYWitness.lean`).  Also here: `SepInv` (element ids of different models
are apart) through move and copy (`opMove_sep`, `opCopy_sep`), and the normal form of a move that is answered with `ok`
(`opMove_ok_cases`).  The lift to histories is `Lemmas/StepY.lean`.
-/
import AutosarVerif.Lemmas.MoveOpC06
import AutosarVerif.Lemmas.IdsSepX

namespace AV.W
open Items

/-! ### forests without local file sets -/

/-- no element of the forest has a local file set -/
def noFiles : Items → Bool
  | .nil => true
  | .text _ r => noFiles r
  | .elem h k r => h.files.isEmpty && noFiles k && noFiles r

theorem effOf_empty (pe : List Nat) (h : Hdr) (hf : h.files.isEmpty = true) : effOf pe h = pe := by
  unfold effOf
  rw [if_pos hf]

/-- a forest without local file sets fits below every parent -/
theorem filesOk_of_noFiles (its : Items) (h : noFiles its = true) : ∀ pe, FilesOk pe its := by
  induction its with
  | nil => intro _; trivial
  | text _ r ih => intro pe; exact ih h pe
  | elem hd k r ihk ihr =>
    intro pe
    simp only [noFiles, Bool.and_eq_true] at h
    obtain ⟨⟨h1, h2⟩, h3⟩ := h
    refine ⟨fun g hg => ?_, ?_, ihr h3 pe⟩
    · have : hd.files = [] := by simpa using h1
      rw [this] at hg; cases hg
    · rw [effOf_empty pe hd h1]; exact ihk h2 pe

theorem noFiles_of_hdrs (its : Items) (h : ∀ hd ∈ its.hdrs, hd.files = []) : noFiles its = true := by
  induction its with
  | nil => rfl
  | text _ r ih => exact ih h
  | elem hd k r ihk ihr =>
    simp only [Items.hdrs, List.mem_cons, List.mem_append] at h
    simp only [noFiles, Bool.and_eq_true]
    refine ⟨⟨?_, ihk fun a ha => h a (Or.inr (Or.inl ha))⟩, ihr fun a ha => h a (Or.inr (Or.inr ha))⟩
    rw [h hd (Or.inl rfl)]; rfl

theorem noFiles_setShortName (k : Items) (nm : Bytes) (h : noFiles k = true) : noFiles (setShortName k nm) = true := by
  cases k with
  | nil => exact h
  | text _ _ => exact h
  | elem sh sk r =>
    simp only [noFiles, Bool.and_eq_true] at h
    simp only [setShortName, noFiles, Bool.and_eq_true]
    exact ⟨⟨h.1.1, trivial⟩, h.2⟩

section move
variable (S : Spec) (V : Env)

theorem noFiles_mvName (idx : List (Bytes × Nat)) (dp : Bytes) (xh : Hdr) (xk : Items) (h : noFiles xk = true) :
    noFiles (mvName S idx dp xh xk).1 = true := by
  rcases mvName_cases S idx dp xh xk with ⟨_, h1⟩ | ⟨_, _, h1⟩ | ⟨orig, _, _, h1⟩
  · rw [h1]; exact h
  · rw [h1]; exact h
  · rw [h1]
    dsimp only
    split
    · exact noFiles_setShortName xk _ h
    · exact h

/-! ### the model after the real move: what does not depend on the index -/

theorem mvRoot1_hasRoot (m : Model) (sph : Hdr) (spk : Items) (x : Nat) : HasRoot m.rootHdr (mvRoot1 m sph spk x) := by
  unfold mvRoot1
  split
  · exact hasRoot_modify _ _ _ (fun _ _ => rfl) _ ⟨m.rootKids, rfl⟩
  · exact ⟨m.rootKids, rfl⟩

theorem mvRoot2_hasRoot (m : Model) (sph : Hdr) (spk : Items) (x p pos : Nat) (xh : Hdr) (xk1 : Items) :
    HasRoot m.rootHdr (mvRoot2 m sph spk x p pos xh xk1) :=
  hasRoot_modify _ _ _ (fun _ _ => rfl) _ (mvRoot1_hasRoot m sph spk x)

/-- root header and tree of the model after the real move -/
theorem moveModel_root (m : Model) (sph : Hdr) (spk : Items) (x p pos : Nat) (xh : Hdr) (xk : Items) (src dp : Bytes)
    (op : List (Bytes × Nat)) :
    (moveModel S m sph spk x p pos xh xk src dp op).rootHdr = m.rootHdr ∧
    (moveModel S m sph spk x p pos xh xk src dp op).rootItems =
      (op.foldl (mvStep src (mvName S m.index dp xh xk).2.1)
        (m.refs, mvRoot2 m sph spk x p pos xh (mvName S m.index dp xh xk).1)).2 := by
  have hhas : HasRoot m.rootHdr (op.foldl (mvStep src (mvName S m.index dp xh xk).2.1)
      (m.refs, mvRoot2 m sph spk x p pos xh (mvName S m.index dp xh xk).1)).2 :=
    mvLoop_pres (HasRoot m.rootHdr) (fun its t txt hi => hasRoot_modify _ t _ (refEdit_fst txt) its hi) _ _ _ _
      (mvRoot2_hasRoot m sph spk x p pos xh _)
  obtain ⟨a1, a2, _⟩ := setRoot_hasRoot m m.rootHdr _ hhas
  exact ⟨a2, a1⟩

/-- a property of forests that every single text replacement keeps holds in the model after the real move if it holds in the
tree after `x` was taken out and put in again -/
theorem moveModel_pres (P : Items → Prop) (hP : ∀ its t txt, P its → P (its.modify t (refEdit txt)))
    (m : Model) (sph : Hdr) (spk : Items) (x p pos : Nat) (xh : Hdr) (xk : Items) (src dp : Bytes) (op : List (Bytes × Nat))
    (h : P (mvRoot2 m sph spk x p pos xh (mvName S m.index dp xh xk).1)) :
    P (moveModel S m sph spk x p pos xh xk src dp op).rootItems := by
  rw [(moveModel_root S m sph spk x p pos xh xk src dp op).2]
  exact mvLoop_pres P hP _ _ _ _ h

/-! ### the file-set invariant: the moved subtree must not carry local file sets (finding c10:move-keeps-descendant-file-sets) -/

theorem mvRoot1_rootOk (m : Model) (sph : Hdr) (spk : Items) (x : Nat) (hm : m.filesOk) : rootOk (mvRoot1 m sph spk x) := by
  unfold mvRoot1
  split
  · exact rootOk_modify' _ _ (fun h k pe hk => ⟨rfl, FilesOk_removeAt k pe _ hk⟩) _ hm
  · exact hm

theorem mvRoot2_rootOk (m : Model) (sph : Hdr) (spk : Items) (x p pos : Nat) (xh : Hdr) (xk1 : Items) (hm : m.filesOk)
    (hnf : noFiles xk1 = true) : rootOk (mvRoot2 m sph spk x p pos xh xk1) := by
  unfold mvRoot2
  refine rootOk_modify' _ _ (fun h k pe hk => ⟨rfl, ?_⟩) _ (mvRoot1_rootOk m sph spk x hm)
  refine FilesOk_insertAt _ k pe pos (fun r hr => ⟨fun g hg => ?_, ?_, hr⟩) hk
  · cases hg
  · exact filesOk_of_noFiles xk1 hnf _

/-- the model after the real move of a subtree without local file sets obeys the file-set invariant -/
theorem moveModel_filesOk (m : Model) (sph : Hdr) (spk : Items) (x p pos : Nat) (xh : Hdr) (xk : Items) (src dp : Bytes)
    (op : List (Bytes × Nat)) (hm : m.filesOk) (hnf : noFiles xk = true) :
    (moveModel S m sph spk x p pos xh xk src dp op).filesOk := by
  refine filesOk_of_eq (m.setRoot _) _ rfl rfl (setRoot_ok m _ hm ?_)
  exact mvLoop_pres rootOk (fun its t txt hi => rootOk_modify' t _ (refEdit_filesOk txt) its hi) _ _ _ _
    (mvRoot2_rootOk m sph spk x p pos xh _ hm (noFiles_mvName S _ _ xh xk hnf))

/-! ### the tree after `x` was taken out and put in again: reference elements are leaves with at most one item, children known -/

/-- a node of the tree without `x` that is not the old parent of `x` is a node of the old tree (same header) -/
theorem mvRoot1_occ_back (m : Model) (sph : Hdr) (spk : Items) (x : Nat) {h : Hdr} {k0 : Items}
    (ho : Occ h k0 (mvRoot1 m sph spk x)) (hne : h.id ≠ sph.id) : ∃ k, Occ h k m.rootItems := by
  unfold mvRoot1 at ho
  split at ho
  · obtain ⟨k, h1, _⟩ := occ_detach_back sph.id _ m.rootItems ho hne
    exact ⟨k, h1⟩
  · exact ⟨k0, ho⟩

theorem mvRoot1_refLeaf (m : Model) (sph : Hdr) (spk : Items) (x : Nat) (hl : RefLeaf S m.rootItems) :
    RefLeaf S (mvRoot1 m sph spk x) := by
  unfold mvRoot1
  split
  · exact refLeaf_modify S _ _ _ (fun h k _ _ a b =>
      ⟨fun hx => childElems_removeAt_nil k _ (a hx), refLeaf_removeAt S k _ b⟩) hl
  · exact hl

theorem mvRoot1_refOne (m : Model) (sph : Hdr) (spk : Items) (x : Nat) (hl : RefOne S m.rootItems) :
    RefOne S (mvRoot1 m sph spk x) := by
  unfold mvRoot1
  split
  · exact refOne_modify S _ _ _ (fun h k _ _ a b =>
      ⟨fun hx => Nat.le_trans (length_removeAt_le k _) (a hx), refOne_removeAt S k _ b⟩) hl
  · exact hl

theorem mvRoot1_kidsKnown (m : Model) (sph : Hdr) (spk : Items) (x : Nat) (hl : KidsKnown S m.rootItems) :
    KidsKnown S (mvRoot1 m sph spk x) := by
  unfold mvRoot1
  split
  · exact kidsKnown_modify S _ _ _ (fun h k _ _ => ⟨rfl, fun a b => kidsKnown_removeAt S h k _ a b⟩) hl
  · exact hl

/-- the content of the moved element after the renaming step: the text of the leading SHORT-NAME may have changed -/
theorem mvName_content (idx : List (Bytes × Nat)) (dp : Bytes) (xh : Hdr) (xk : Items) :
    (mvName S idx dp xh xk).1 = xk ∨ ∃ nm, (mvName S idx dp xh xk).1 = setShortName xk nm := by
  rcases mvName_cases S idx dp xh xk with ⟨_, h1⟩ | ⟨_, _, h1⟩ | ⟨orig, _, _, h1⟩
  · rw [h1]; exact Or.inl rfl
  · rw [h1]; exact Or.inl rfl
  · rw [h1]
    dsimp only
    split
    · exact Or.inr ⟨_, rfl⟩
    · exact Or.inl rfl

theorem refLeaf_setShortName (xh : Hdr) (xk : Items) (nm : Bytes)
    (h : RefLeaf S (.elem xh xk .nil)) : RefLeaf S (.elem xh (setShortName xk nm) .nil) := by
  cases xk with
  | nil => exact h
  | text _ _ => exact h
  | elem sh sk r =>
    obtain ⟨a, b, c⟩ := (refLeaf_elem S _ _ _).mp h
    obtain ⟨_, _, b3⟩ := (refLeaf_elem S _ _ _).mp b
    refine (refLeaf_elem S _ _ _).mpr ⟨fun hx => ?_, ?_, c⟩
    · have := a hx
      simp [Items.childElems] at this
    · exact (refLeaf_elem S _ _ _).mpr ⟨fun _ => rfl, (refLeaf_text S _ _).mpr (refLeaf_nil S), b3⟩

theorem refOne_setShortName (xh : Hdr) (xk : Items) (nm : Bytes)
    (h : RefOne S (.elem xh xk .nil)) : RefOne S (.elem xh (setShortName xk nm) .nil) := by
  cases xk with
  | nil => exact h
  | text _ _ => exact h
  | elem sh sk r =>
    obtain ⟨a, b, c⟩ := (refOne_elem S _ _ _).mp h
    obtain ⟨_, _, b3⟩ := (refOne_elem S _ _ _).mp b
    refine (refOne_elem S _ _ _).mpr ⟨fun hx => a hx, ?_, c⟩
    exact (refOne_elem S _ _ _).mpr ⟨fun _ => Nat.le_refl _, (refOne_text S _ _).mpr (refOne_nil S), b3⟩

theorem kidsKnown_setShortName (xh : Hdr) (xk : Items) (nm : Bytes)
    (h : kidsKnownAt S xh xk ∧ KidsKnown S xk) : kidsKnownAt S xh (setShortName xk nm) ∧ KidsKnown S (setShortName xk nm) := by
  cases xk with
  | nil => exact h
  | text _ _ => exact h
  | elem sh sk r =>
    obtain ⟨a, b⟩ := h
    refine ⟨fun c hc => ?_, ?_⟩
    · simp only [setShortName, Items.childElems, List.mem_cons] at hc
      rcases hc with rfl | hc
      · exact a (sh, sk) (by simp [Items.childElems])
      · exact a c (by simp [Items.childElems, hc])
    · exact ⟨fun c hc => by simp [Items.childElems] at hc, trivial, b.2.2⟩

/-- header `mvHdr xh p` instead of `xh`: type and name are the same -/
theorem refLeaf_mvHdr (xh : Hdr) (p : Nat) (k : Items) (h : RefLeaf S (.elem xh k .nil)) : RefLeaf S (.elem (mvHdr xh p) k .nil) :=
  (refLeaf_elem S (mvHdr xh p) k .nil).mpr ((refLeaf_elem S xh k .nil).mp h)

theorem refOne_mvHdr (xh : Hdr) (p : Nat) (k : Items) (h : RefOne S (.elem xh k .nil)) : RefOne S (.elem (mvHdr xh p) k .nil) :=
  (refOne_elem S (mvHdr xh p) k .nil).mpr ((refOne_elem S xh k .nil).mp h)

theorem refLeaf_of_occ' (its : Items) (hl : RefLeaf S its) (h : Hdr) (k : Items) (ho : Occ h k its) : RefLeaf S (.elem h k .nil) :=
  (refLeaf_elem S _ _ _).mpr ⟨fun hx => hl h k ho hx, fun h0 k0 ho0 => hl h0 k0 (ho.trans ho0), refLeaf_nil S⟩

theorem refOne_of_occ' (its : Items) (hl : RefOne S its) (h : Hdr) (k : Items) (ho : Occ h k its) : RefOne S (.elem h k .nil) :=
  (refOne_elem S _ _ _).mpr ⟨fun hx => hl h k ho hx, fun h0 k0 ho0 => hl h0 k0 (ho.trans ho0), refOne_nil S⟩

/-- `hp`: the destination is not a reference element -/
theorem mvRoot2_refLeaf (m : Model) (sph : Hdr) (spk : Items) (x p pos : Nat) (xh : Hdr) (xk : Items) (idx : List (Bytes × Nat))
    (dp : Bytes) (hl : RefLeaf S m.rootItems) (hox : Occ xh xk m.rootItems) (hsp : sph.id ≠ p)
    (hp : ∀ h k, Occ h k m.rootItems → h.id = p → S.isRef h.ety.typ = false) :
    RefLeaf S (mvRoot2 m sph spk x p pos xh (mvName S idx dp xh xk).1) := by
  unfold mvRoot2
  refine refLeaf_modify S _ _ _ (fun h k ho he a b => ⟨fun hx => ?_, ?_⟩) (mvRoot1_refLeaf S m sph spk x hl)
  · obtain ⟨k', hk'⟩ := mvRoot1_occ_back m sph spk x ho (by rw [he]; exact fun e => hsp e.symm)
    have := hp h k' hk' he
    rw [this] at hx; cases hx
  · refine refLeaf_insertAt S _ _ k pos (refLeaf_mvHdr S xh p _ ?_) b
    rcases mvName_content S idx dp xh xk with e | ⟨nm, e⟩
    · rw [e]; exact refLeaf_of_occ' S _ hl xh xk hox
    · rw [e]; exact refLeaf_setShortName S xh xk nm (refLeaf_of_occ' S _ hl xh xk hox)

theorem mvRoot2_refOne (m : Model) (sph : Hdr) (spk : Items) (x p pos : Nat) (xh : Hdr) (xk : Items) (idx : List (Bytes × Nat))
    (dp : Bytes) (hl : RefOne S m.rootItems) (hox : Occ xh xk m.rootItems) (hsp : sph.id ≠ p)
    (hp : ∀ h k, Occ h k m.rootItems → h.id = p → S.isRef h.ety.typ = false) :
    RefOne S (mvRoot2 m sph spk x p pos xh (mvName S idx dp xh xk).1) := by
  unfold mvRoot2
  refine refOne_modify S _ _ _ (fun h k ho he a b => ⟨fun hx => ?_, ?_⟩) (mvRoot1_refOne S m sph spk x hl)
  · obtain ⟨k', hk'⟩ := mvRoot1_occ_back m sph spk x ho (by rw [he]; exact fun e => hsp e.symm)
    have := hp h k' hk' he
    rw [this] at hx; cases hx
  · refine refOne_insertAt S _ _ k pos (refOne_mvHdr S xh p _ ?_) b
    rcases mvName_content S idx dp xh xk with e | ⟨nm, e⟩
    · rw [e]; exact refOne_of_occ' S _ hl xh xk hox
    · rw [e]; exact refOne_setShortName S xh xk nm (refOne_of_occ' S _ hl xh xk hox)

/-- `hp`: the type of the destination knows the name of the moved element (all-version lookup) -/
theorem mvRoot2_kidsKnown (m : Model) (sph : Hdr) (spk : Items) (x p pos : Nat) (xh : Hdr) (xk : Items) (idx : List (Bytes × Nat))
    (dp : Bytes) (hl : KidsKnown S m.rootItems) (hox : Occ xh xk m.rootItems) (hsp : sph.id ≠ p)
    (hp : ∀ h k, Occ h k m.rootItems → h.id = p → S.findSub h.ety.typ xh.name 0xFFFFFFFF ≠ none) :
    KidsKnown S (mvRoot2 m sph spk x p pos xh (mvName S idx dp xh xk).1) := by
  unfold mvRoot2
  refine kidsKnown_modify S _ _ _ (fun h k ho he => ⟨rfl, fun a b => ?_⟩) (mvRoot1_kidsKnown S m sph spk x hl)
  obtain ⟨k', hk'⟩ := mvRoot1_occ_back m sph spk x ho (by rw [he]; exact fun e => hsp e.symm)
  refine kidsKnown_insertAt S h (mvHdr xh p) _ k pos (hp h k' hk' he) ?_ a b
  have h0 : kidsKnownAt S xh xk ∧ KidsKnown S xk := kidsKnown_of_occ S _ hl xh xk hox
  rcases mvName_content S idx dp xh xk with e | ⟨nm, e⟩
  · rw [e]; exact h0
  · rw [e]; exact kidsKnown_setShortName S xh xk nm h0

/-! ### the guard and the full invariant -/

theorem findSub_of_insertRange (h : Hdr) (k : Items) (name ver : Nat) (r : Nat × Nat)
    (hr : insertRange S h k name ver = some r) : ∃ y, S.findSub h.ety.typ name ver = some y := by
  cases hf : S.findSub h.ety.typ name ver with
  | some y => exact ⟨y, rfl⟩
  | none =>
    unfold insertRange at hr
    rw [hf] at hr
    split at hr <;> cases hr

/-- THE GUARD of `move_element_here[_at] (p ← x)`, a decidable predicate on the state.  Nothing is asked of a call the
operation refuses anyway (`x` or `p` not live, `x` the root element, different models — answered `unsupported` without a
change —, different versions, no place for `x` in `p`, `p` below `x`).  Otherwise, with `sph` the parent of `x`:

* `sph = p` (the call only changes the position of `x` among its siblings): `x` is not a SHORT-NAME element.  [Model fact: the
  SHORT-NAME discipline `SnOk` of the index invariant — a SHORT-NAME is the FIRST item of its parent; the position-change
  branch of `opMove` would rotate it away, `opMove_pos_cinv`.]
* `sph ≠ p` (the real move):
  - `x` has an item name.  [Model fact: for an element without an item name the index is re-keyed path by path
    (`mvIdx`, second branch) and only the moved element's own name is made unique in the destination; named children of an
    unnamed container can collide with existing paths — the move analogue of `copy_unnamed_collision` in
    `DeepCopyWitness.lean`; `opMove_real` covers the named case.  Under the index invariant an element with an item name is
    not a SHORT-NAME element (`not_sn_of_named`), so "`x` is not SHORT-NAME" needs no clause of its own here.]
  - no element strictly below `x` carries a local file set.  [Known finding c10:move-keeps-descendant-file-sets: the moved
    element's header gets `files := []`, its descendants keep their local file sets, which need not lie within the effective
    set of the new parent; `filesOk` would be lost.]

NOT needed: "no alien type" (the type recorded in `x` is the type `findSub` of the destination gives).  `GInv` speaks about
NAMES known to the parent's type (`WKidsKnown`) and about the types recorded in the elements themselves (`SnOk`, `WRLeaf`,
`WROne`), never about the agreement of a recorded type with the parent's specification; `insertRange … = some` already gives
"the destination's type knows the name of `x` in the version", which is all `WKidsKnown` needs. -/
def MoveGuard (w : World) (p x : Nat) : Prop :=
  match locate w x with
  | none => True
  | some (_, cx) =>
    match cx.dropLast.getLast? with
    | none => True
    | some (sph, _) =>
      if sph.id = p then (lastOf cx).1.name ≠ S.nmShortName
      else itemName S (lastOf cx).1 (lastOf cx).2 ≠ none ∧ noFiles (lastOf cx).2 = true

/-- `MoveGuard` as a Boolean check (this is what `decide` evaluates) -/
def moveGuardB (w : World) (p x : Nat) : Bool :=
  match locate w x with
  | none => true
  | some (_, cx) =>
    match cx.dropLast.getLast? with
    | none => true
    | some (sph, _) =>
      if sph.id = p then (lastOf cx).1.name != S.nmShortName
      else (itemName S (lastOf cx).1 (lastOf cx).2).isSome && noFiles (lastOf cx).2

theorem moveGuardB_iff (w : World) (p x : Nat) : moveGuardB S w p x = true ↔ MoveGuard S w p x := by
  unfold moveGuardB MoveGuard
  split
  · simp
  · split
    · simp
    · split
      · simp
      · simp [Option.isSome_iff_ne_none]

instance (w : World) (p x : Nat) : Decidable (MoveGuard S w p x) := decidable_of_iff _ (moveGuardB_iff S w p x)

variable (vOk : Nat)

/-- **`move_element_here[_at]` inside one model keeps the full invariant, under `MoveGuard`** -/
theorem opMove_ginv (hH : IdxHyp S V vOk) (hR : RefWF S) (hv32 : vOk &&& 0xFFFFFFFF = vOk) (w : World) (p x : Nat)
    (pos? : Option Nat) (hg : GInv S vOk w) (hgd : MoveGuard S w p x) : GInv S vOk (opMove S V w p x pos?).1 := by
  have hw : WInv S vOk w := hg.2.1.1.1
  rcases opMove_cases S V w p x pos? with h0 | ⟨k, cx, cp, ver, lo, hi, sph, spk, q, cur, hr, hsp, hq, hlen, hcur, he⟩ |
    ⟨k, cx, cp, ver, lo, hi, sph, spk, hr, hsp, hany, hf, he⟩
  · rw [h0]; exact hg
  · have hname : (lastOf cx).1.name ≠ S.nmShortName := by
      unfold MoveGuard at hgd
      rw [hr.locx] at hgd
      simp only [hr.par, if_pos hsp] at hgd
      exact hgd
    exact opMove_pos_ginv' S V vOk hH w p x pos? hg k cx cp ver lo hi sph spk q cur hr hq hcur he hname
  · obtain ⟨hnamed, hnf⟩ : itemName S (lastOf cx).1 (lastOf cx).2 ≠ none ∧ noFiles (lastOf cx).2 = true := by
      unfold MoveGuard at hgd
      rw [hr.locx] at hgd
      simp only [hr.par, if_neg hsp] at hgd
      exact hgd
    cases hn : itemName S (lastOf cx).1 (lastOf cx).2 with
    | none => exact absurd hn hnamed
    | some orig =>
      obtain ⟨dest, _, h1, h2, _⟩ := opMove_real S V vOk hH hR w p x pos? hg hr hsp hany orig hn _ rfl
      have hwf := opMove_wf S V w p x pos? hg.1.1
      rw [he] at hwf ⊢
      obtain ⟨⟨_, hfo⟩, ⟨⟨_, _, hleaf, hty⟩, hkn⟩, hone⟩ := hg
      obtain ⟨m, hm1, hm2, hmem, hcx⟩ := locate_chain w x k cx hr.locx
      obtain ⟨m0, hm1', _, _, hcp⟩ := locate_chain w p k cp hr.locp
      obtain rfl : m = m0 := by rw [hm1] at hm1'; exact Option.some.inj hm1'
      have hm := hw m hmem
      obtain ⟨hox, _⟩ := chain_occ x m.rootItems cx hcx
      have hpeq : ∀ h k0, Occ h k0 m.rootItems → h.id = p → h = (lastOf cp).1 := fun h k0 ho hid =>
        (node_eq S vOk hm p cp hcp h k0 ho hid).1
      have hpref : ∀ h k0, Occ h k0 m.rootItems → h.id = p → S.isRef h.ety.typ = false := by
        intro h k0 ho hid
        rw [hpeq h k0 ho hid]
        exact not_ref_of_insertRange S hR _ _ _ _ _ hr.range
      have hvf := ver_full vOk hv32 (minVersion_ok S V vOk hm hH.latest cp ver (hm2 ▸ hr.verp))
      have hpknown : ∀ h k0, Occ h k0 m.rootItems → h.id = p → S.findSub h.ety.typ (lastOf cx).1.name 0xFFFFFFFF ≠ none := by
        intro h k0 ho hid
        rw [hpeq h k0 ho hid]
        obtain ⟨y, hy⟩ := findSub_of_insertRange S _ _ _ _ _ hr.range
        exact findSub_full S _ _ ver hvf y hy
      rw [hm2] at h1 h2 hwf ⊢
      refine ⟨⟨hwf, ?_⟩, ⟨⟨h1, h2, ?_, ?_⟩, ?_⟩, ?_⟩
      · exact filesOk_update w k _ _ hfo (moveModel_filesOk S m sph spk x p _ _ _ _ _ _ (hfo m hmem) hnf) rfl
      · refine wrleaf_update S w _ k _ hleaf ?_ rfl
        exact moveModel_pres S (RefLeaf S) (fun its t txt hi => refLeaf_refEdit S its t txt hi) m sph spk x p _ _ _ _ _ _
          (mvRoot2_refLeaf S m sph spk x p _ _ _ _ _ (hleaf m hmem) hox hsp hpref)
      · exact wrootTy_update S w _ k _ hty (by rw [(moveModel_root S m sph spk x p _ _ _ _ _ _).1]; exact hty m hmem) rfl
      · refine wkidsKnown_update S w _ k _ hkn ?_ rfl
        exact moveModel_pres S (KidsKnown S) (fun its t txt hi => kidsKnown_refEdit S its t txt hi) m sph spk x p _ _ _ _ _ _
          (mvRoot2_kidsKnown S m sph spk x p _ _ _ _ _ (hkn m hmem) hox hsp hpknown)
      · refine wrone_update S w _ k _ hone ?_ rfl
        exact moveModel_pres S (RefOne S) (fun its t txt hi => refOne_refEdit S its t txt hi) m sph spk x p _ _ _ _ _ _
          (mvRoot2_refOne S m sph spk x p _ _ _ _ _ (hone m hmem) hox hsp hpref)

end move

/-! ## copy -/

section copy
variable (S : Spec) (V : Env) (vOk : Nat)

/-! ### `RefLeaf`, `RefOne`, `KidsKnown` are functions of the shape (identities, parent links and file sets do not matter) -/

theorem shape_ety (h : Hdr) : h.shape.ety = h.ety := rfl
theorem shape_name (h : Hdr) : h.shape.name = h.name := rfl

theorem childElems_shape_nil (k : Items) : k.shape.childElems = [] ↔ k.childElems = [] := by
  induction k with
  | nil => exact Iff.rfl
  | text c r ih => simp only [shape_text, Items.childElems]; exact ih
  | elem h kk r _ _ => simp [shape_elem, Items.childElems]

theorem length_shape (k : Items) : k.shape.length = k.length := by
  induction k with
  | nil => rfl
  | text c r ih => simp only [shape_text, Items.length, ih]
  | elem h kk r _ ih => simp only [shape_elem, Items.length, ih]

theorem childNames_shape (k : Items) : k.shape.childElems.map (·.1.name) = k.childElems.map (·.1.name) := by
  induction k with
  | nil => rfl
  | text c r ih => simpa only [shape_text, Items.childElems] using ih
  | elem h kk r _ ih => simp only [shape_elem, Items.childElems, List.map_cons, ih, shape_name]

theorem refLeaf_shape (its : Items) : RefLeaf S its.shape ↔ RefLeaf S its := by
  induction its with
  | nil => exact Iff.rfl
  | text c r ih => rw [shape_text, refLeaf_text, refLeaf_text]; exact ih
  | elem h k r ihk ihr => rw [shape_elem, refLeaf_elem, refLeaf_elem, ihk, ihr, shape_ety, childElems_shape_nil]

theorem refOne_shape (its : Items) : RefOne S its.shape ↔ RefOne S its := by
  induction its with
  | nil => exact Iff.rfl
  | text c r ih => rw [shape_text, refOne_text, refOne_text]; exact ih
  | elem h k r ihk ihr => rw [shape_elem, refOne_elem, refOne_elem, ihk, ihr, shape_ety, length_shape]

theorem kidsKnown_shape (its : Items) : KidsKnown S its.shape ↔ KidsKnown S its := by
  induction its with
  | nil => exact Iff.rfl
  | text c r ih => rw [shape_text]; exact ih
  | elem h k r ihk ihr =>
    rw [shape_elem, kidsKnown_elem, kidsKnown_elem, ihk, ihr]
    refine and_congr_left (fun _ => ⟨fun a => ?_, fun a => ?_⟩)
    · exact kidsKnownAt_names S h.shape h k.shape k rfl (childNames_shape k).symm a
    · exact kidsKnownAt_names S h h.shape k k.shape rfl (childNames_shape k) a

theorem refLeaf_of_shape {its its' : Items} (h : its'.shape = its.shape) : RefLeaf S its' ↔ RefLeaf S its := by
  rw [← refLeaf_shape S its', h, refLeaf_shape]

theorem refOne_of_shape {its its' : Items} (h : its'.shape = its.shape) : RefOne S its' ↔ RefOne S its := by
  rw [← refOne_shape S its', h, refOne_shape]

theorem kidsKnown_of_shape {its its' : Items} (h : its'.shape = its.shape) : KidsKnown S its' ↔ KidsKnown S its := by
  rw [← kidsKnown_shape S its', h, kidsKnown_shape]

/-- the content of the copy after the renaming step: the text of the leading SHORT-NAME may have changed -/
theorem copyRename_content (idx : List (Bytes × Nat)) (path : Bytes) (nh : Hdr) (nk : Items) :
    (copyRename S idx path nh nk).1 = nk ∨ ∃ nm, (copyRename S idx path nh nk).1 = setShortName nk nm := by
  unfold copyRename
  split
  · split
    · dsimp only
      split
      · exact Or.inr ⟨_, rfl⟩
      · exact Or.inl rfl
    · exact Or.inl rfl
  · exact Or.inl rfl

theorem copyModel_rootHdr (m : Model) (p q : Nat) (nh : Hdr) (nk1 : Items) (idx' : List (Bytes × Nat)) (rs' : List (Bytes × List Nat)) :
    (copyModel m p q nh nk1 idx' rs').rootHdr = m.rootHdr :=
  (setRoot_hasRoot m m.rootHdr _ (hasRoot_modify _ p _ (fun _ _ => rfl) _ ⟨m.rootKids, rfl⟩)).2.1

/-- the model with a subtree without local file sets inserted obeys the file-set invariant -/
theorem copyModel_filesOk (m : Model) (p q : Nat) (nh : Hdr) (nk1 : Items) (idx' : List (Bytes × Nat)) (rs' : List (Bytes × List Nat))
    (hm : m.filesOk) (hnf : noFiles (.elem nh nk1 .nil) = true) : (copyModel m p q nh nk1 idx' rs').filesOk := by
  refine filesOk_of_eq (m.setRoot _) _ rfl rfl (setRoot_ok m _ hm ?_)
  refine rootOk_modify m p _ (fun h k pe hk => ⟨rfl, ?_⟩) hm
  refine FilesOk_insertAt _ k pe q (fun r hr => ?_) hk
  have := filesOk_of_noFiles (.elem nh nk1 .nil) hnf pe
  exact ⟨this.1, this.2.1, hr⟩

/-- THE GUARD of `create_copied_sub_element[_at] (p ← copy of x)`, a decidable predicate on the state: what
`opCopy_inv_same_version` asks for.

* `x` is live (not a stale handle), or it names nothing at all (then the call is refused).  [Model fact: `hdrOf` also answers
  for removed elements (`World.dead`); the theorems about the paths of the copy (`copyPathsOk_same_version`) are about a live
  source.]
* `x` has an item name.  [`copy_unnamed_collision` (`DeepCopyWitness.lean`): only the copied element's own name is made unique;
  the named children of an unnamed container keep their paths and collide with the originals — the index is no longer exact.
  Under the index invariant a named element is not a SHORT-NAME element (`not_sn_of_named`), which `opCopy_inv` needs.]
* if the call gets as far as the destination version `ver` (the minimal version of the files of `p`): everything in the
  subtree of `x` is permitted in `ver` (`allCompatB`, the same-version case).  [`copy_merges_paths`: a copy into a version in
  which a nested element loses its SHORT-NAME merges two paths.]

NOT needed: a clause about local file sets (a copy has none: `deepCopy_ids`), "no alien type" (see `MoveGuard`). -/
def CopyGuard (w : World) (p x : Nat) : Prop :=
  match locate w x with
  | none => (hdrOf w x).isNone = true
  | some (_, cx) =>
    itemName S (lastOf cx).1 (lastOf cx).2 ≠ none ∧
    match locate w p with
    | none => True
    | some (k, cp) =>
      match minVersion V (w.models[k]!) cp with
      | none => True
      | some ver => allCompatB S ver (lastOf cx).1 (lastOf cx).2 = true

/-- `CopyGuard` as a Boolean check (this is what `decide` evaluates) -/
def copyGuardB (w : World) (p x : Nat) : Bool :=
  match locate w x with
  | none => (hdrOf w x).isNone
  | some (_, cx) =>
    (itemName S (lastOf cx).1 (lastOf cx).2).isSome &&
    match locate w p with
    | none => true
    | some (k, cp) =>
      match minVersion V (w.models[k]!) cp with
      | none => true
      | some ver => allCompatB S ver (lastOf cx).1 (lastOf cx).2

theorem copyGuardB_iff (w : World) (p x : Nat) : copyGuardB S V w p x = true ↔ CopyGuard S V w p x := by
  unfold copyGuardB CopyGuard
  split
  · simp
  · simp only [Bool.and_eq_true, Option.isSome_iff_ne_none]
    refine and_congr_right (fun _ => ?_)
    split
    · simp
    · split <;> simp

instance (w : World) (p x : Nat) : Decidable (CopyGuard S V w p x) := decidable_of_iff _ (copyGuardB_iff S V w p x)

/-- **`create_copied_sub_element[_at]` keeps the full invariant, under `CopyGuard`** -/
theorem opCopy_ginv (hH : IdxHyp S V vOk) (hR : RefWF S) (hv32 : vOk &&& 0xFFFFFFFF = vOk) (w : World) (p x : Nat)
    (pos? : Option Nat) (hg : GInv S vOk w) (hgd : CopyGuard S V w p x) : GInv S vOk (opCopy S V w p x pos?).1 := by
  by_cases hok : (opCopy S V w p x pos?).2 = .err
  · rw [opCopy_err_frame S V w p x pos? hok]; exact hg
  obtain ⟨k, cp, ver, xh, xkids, q, nh, nk, n', nk1, idx', rs', hc, hres⟩ := opCopy_ok S V w p x pos? hok
  have hw : WInv S vOk w := hg.2.1.1.1
  cases hlx : locate w x with
  | none =>
    exfalso
    unfold CopyGuard at hgd
    rw [hlx] at hgd
    simp only [hc.src] at hgd
    cases hgd
  | some r =>
    obtain ⟨kx, cx⟩ := r
    have he : lastOf cx = (xh, xkids) := hdrOf_locate w x kx cx xh xkids hlx hc.src
    obtain ⟨hnamed, hallB⟩ : itemName S xh xkids ≠ none ∧ allCompatB S ver xh xkids = true := by
      unfold CopyGuard at hgd
      rw [hlx] at hgd
      simp only [hc.loc, hc.minv, he] at hgd
      exact hgd
    have hall := allCompatB_sound S ver xh xkids hallB
    obtain ⟨hwinv', hrinv'⟩ := opCopy_inv_same_version S V vOk hH hR w p x pos? hw hg.2.1.1.2.1 kx cx hlx
      (by rw [he]; exact hnamed) (by
        intro k' cp' ver' hl hv
        rw [hc.loc] at hl
        obtain ⟨rfl, rfl⟩ := Prod.mk.inj (Option.some.inj hl)
        rw [hc.minv] at hv
        obtain rfl := Option.some.inj hv
        rw [he]; exact hall)
    have hwf := opCopy_wf S V w p x pos? hg.1.1
    rw [hres] at hwf hwinv' hrinv' ⊢
    obtain ⟨⟨_, hfo⟩, ⟨⟨_, _, hleaf, hty⟩, hkn⟩, hone⟩ := hg
    -- the copy has the shape of the source
    obtain ⟨h', k', n'', hd, hshape⟩ := deepCopy_faithful_size S xh xkids ver (.elem p) w.nextId hall
    rw [hc.copy] at hd
    simp only [Option.some.injEq, Prod.mk.injEq] at hd
    obtain ⟨rfl, rfl, rfl⟩ := hd
    obtain ⟨_, _, _, _, _, _, _, hnofiles⟩ := deepCopy_ids S _ xh xkids ver _ _ nh nk n' hc.copy
    obtain ⟨_, _, hnname, _, _, hnhf⟩ := deepCopy_head S _ xh xkids ver _ _ nh nk n' hc.copy
    -- the source is a node of a model
    obtain ⟨mx, _, _, hmxmem, hcx⟩ := locate_chain w x kx cx hlx
    obtain ⟨hox, _⟩ := chain_occ x mx.rootItems cx hcx
    rw [he] at hox
    simp only at hox
    -- the destination
    obtain ⟨m, _, hm2, hmem, hcp⟩ := locate_chain w p k cp hc.loc
    have hm := hw m hmem
    obtain ⟨lo, hi, hrange, _, _, _⟩ := hc.range
    have hpeq : ∀ h k0, Occ h k0 m.rootItems → h.id = p → h = (lastOf cp).1 := fun h k0 ho hid =>
      (node_eq S vOk hm p cp hcp h k0 ho hid).1
    have hpref : ∀ h k0, Occ h k0 m.rootItems → h.id = p → S.isRef h.ety.typ = false := by
      intro h k0 ho hid
      rw [hpeq h k0 ho hid]
      exact not_ref_of_insertRange S hR _ _ _ _ _ hrange
    have hvf := ver_full vOk hv32 (minVersion_ok S V vOk hm hH.latest cp ver (hm2 ▸ hc.minv))
    have hpknown : ∀ h k0, Occ h k0 m.rootItems → h.id = p → S.findSub h.ety.typ nh.name 0xFFFFFFFF ≠ none := by
      intro h k0 ho hid
      rw [hpeq h k0 ho hid, hnname]
      obtain ⟨y, hy⟩ := findSub_of_insertRange S _ _ _ _ _ hrange
      exact findSub_full S _ _ ver hvf y hy
    have hnk1 : nk1 = (copyRename S (w.models[k]!).index (pathOfChain S cp) nh nk).1 := by rw [hc.rename]
    -- the inserted subtree
    have hnf1 : noFiles (.elem nh nk1 .nil) = true := by
      have h0 : noFiles (.elem nh nk .nil) = true := noFiles_of_hdrs _ hnofiles
      simp only [noFiles, Bool.and_eq_true] at h0 ⊢
      refine ⟨⟨h0.1.1, ?_⟩, trivial⟩
      rcases copyRename_content S (w.models[k]!).index (pathOfChain S cp) nh nk with e | ⟨nm, e⟩
      · rw [hnk1, e]; exact h0.1.2
      · rw [hnk1, e]; exact noFiles_setShortName nk nm h0.1.2
    have hleaf1 : RefLeaf S (.elem nh nk1 .nil) := by
      have h0 : RefLeaf S (.elem nh nk .nil) := (refLeaf_of_shape S hshape).mpr (refLeaf_of_occ' S _ (hleaf mx hmxmem) xh xkids hox)
      rcases copyRename_content S (w.models[k]!).index (pathOfChain S cp) nh nk with e | ⟨nm, e⟩
      · rw [hnk1, e]; exact h0
      · rw [hnk1, e]; exact refLeaf_setShortName S nh nk nm h0
    have hone1 : RefOne S (.elem nh nk1 .nil) := by
      have h0 : RefOne S (.elem nh nk .nil) := (refOne_of_shape S hshape).mpr (refOne_of_occ' S _ (hone mx hmxmem) xh xkids hox)
      rcases copyRename_content S (w.models[k]!).index (pathOfChain S cp) nh nk with e | ⟨nm, e⟩
      · rw [hnk1, e]; exact h0
      · rw [hnk1, e]; exact refOne_setShortName S nh nk nm h0
    have hkn1 : kidsKnownAt S nh nk1 ∧ KidsKnown S nk1 := by
      have hsrc : KidsKnown S (.elem xh xkids .nil) := by
        obtain ⟨a, b⟩ := kidsKnown_of_occ S _ (hkn mx hmxmem) xh xkids hox
        exact ⟨a, b, trivial⟩
      have h0 : KidsKnown S (.elem nh nk .nil) := (kidsKnown_of_shape S hshape).mpr hsrc
      rcases copyRename_content S (w.models[k]!).index (pathOfChain S cp) nh nk with e | ⟨nm, e⟩
      · rw [hnk1, e]; exact ⟨h0.1, h0.2.1⟩
      · rw [hnk1, e]; exact kidsKnown_setShortName S nh nk nm ⟨h0.1, h0.2.1⟩
    refine ⟨⟨hwf, ?_⟩, ⟨⟨hwinv', hrinv', ?_, ?_⟩, ?_⟩, ?_⟩
    · refine filesOk_update w k _ _ hfo ?_ (copyWorld_models ..)
      rw [hm2]
      exact copyModel_filesOk m p q nh nk1 idx' rs' (hfo m hmem) hnf1
    · refine wrleaf_update S w _ k _ hleaf ?_ (copyWorld_models ..)
      rw [hm2, copyModel_rootItems]
      refine refLeaf_modify S _ _ _ (fun h k0 ho hid a b => ⟨fun hx => ?_, refLeaf_insertAt S nh nk1 k0 q hleaf1 b⟩) (hleaf m hmem)
      rw [hpref h k0 ho hid] at hx; cases hx
    · refine wrootTy_update S w _ k _ hty ?_ (copyWorld_models ..)
      rw [hm2, copyModel_rootHdr]; exact hty m hmem
    · refine wkidsKnown_update S w _ k _ hkn ?_ (copyWorld_models ..)
      rw [hm2, copyModel_rootItems]
      exact kidsKnown_modify S _ _ _ (fun h k0 ho hid => ⟨rfl, fun a b =>
        kidsKnown_insertAt S h nh nk1 k0 q (hpknown h k0 ho hid) hkn1 a b⟩) (hkn m hmem)
    · refine wrone_update S w _ k _ hone ?_ (copyWorld_models ..)
      rw [hm2, copyModel_rootItems]
      refine refOne_modify S _ _ _ (fun h k0 ho hid a b => ⟨fun hx => ?_, refOne_insertAt S nh nk1 k0 q hone1 b⟩) (hone m hmem)
      rw [hpref h k0 ho hid] at hx; cases hx

end copy

/-! ## `SepInv` (element ids of different models are apart) through move and copy -/

section sep
variable (S : Spec) (V : Env) (vOk : Nat)

/-- an edited model with the root id and the flag of the old one and pairwise different ids, all of them old -/
theorem grow_of_sub (nid : Nat) (m m' : Model) (hhdr : m'.rootHdr.id = m.rootHdr.id) (hiss : m'.rootIssued = m.rootIssued)
    (hsub : ∀ y ∈ m'.rootItems.ids, y ∈ m.rootItems.ids) (hnd : m'.rootItems.ids.Nodup) : Grow nid m m' := by
  refine grow_sub nid m m' hhdr (fun y hy => ?_) hiss
  have h1 := hsub y (by rw [rootItems_ids]; exact List.mem_cons_of_mem _ hy)
  rw [rootItems_ids] at h1 hnd
  rcases List.mem_cons.mp h1 with e | e
  · exfalso
    rw [e, ← hhdr] at hy
    exact (List.nodup_cons.mp hnd).1 hy
  · exact e

theorem sep_of_sub (w : World) (k : Nat) (m m' : Model) (hw : WInv S vOk w) (hs : SepInv w) (hm : w.models[k]? = some m)
    (hw' : WInv S vOk (setModel w k m')) (hhdr : m'.rootHdr.id = m.rootHdr.id) (hiss : m'.rootIssued = m.rootIssued)
    (hsub : ∀ y ∈ m'.rootItems.ids, y ∈ m.rootItems.ids) : SepInv (setModel w k m') := by
  have hk : k < w.models.length := lt_of_getElem?_some _ _ _ hm
  have hmem : m' ∈ (setModel w k m').models := by
    show m' ∈ w.models.set k m'
    exact List.mem_iff_getElem.mpr ⟨k, by rw [List.length_set]; exact hk, List.getElem_set_self _⟩
  exact sep_update S vOk w _ k m m' hw hs hm rfl (grow_of_sub w.nextId m m' hhdr hiss hsub (hw' m' hmem).ids)

theorem setShortName_ids_sub (k : Items) (nm : Bytes) : ∀ y ∈ (setShortName k nm).ids, y ∈ k.ids := by
  intro y hy
  cases k with
  | nil => exact hy
  | text _ _ => exact hy
  | elem sh sk r =>
    simp only [setShortName, Items.ids, List.mem_cons, List.mem_append, List.not_mem_nil, false_or] at hy ⊢
    rcases hy with e | e
    · exact Or.inl e
    · exact Or.inr (Or.inr e)

theorem movePos_ids_sub (k : Items) (cur q : Nat) : ∀ y ∈ (movePos k cur q).ids, y ∈ k.ids := by
  intro y hy
  rw [movePos_eq] at hy
  rcases movePos_item k cur with ⟨a, _⟩ | ⟨hd, kk, a, b⟩ | ⟨c, a, b⟩
  · rw [a] at hy; exact hy
  · rw [a] at hy
    have h1 := (List.Perm.mem_iff (ids_insertAt hd kk (k.removeAt cur) q)).mp hy
    have h2 := ids_removeAt k cur
    rw [b, ids_elem_nil] at h2
    exact (List.Perm.mem_iff h2).mpr h1
  · rw [a, ids_insertAt_text] at hy
    exact mem_ids_removeAt k cur y hy

theorem mvRoot1_ids_sub (m : Model) (sph : Hdr) (spk : Items) (x : Nat) : ∀ y ∈ (mvRoot1 m sph spk x).ids, y ∈ m.rootItems.ids := by
  intro y hy
  unfold mvRoot1 at hy
  split at hy
  · rcases ids_modify_sub (fun _ => False) _ _ m.rootItems
      (fun h k0 => ⟨rfl, fun y hy => Or.inl (mem_ids_removeAt k0 _ y hy)⟩) y hy with a | a
    · exact a
    · exact a.elim
  · exact hy

theorem mvRoot2_ids_sub (m : Model) (sph : Hdr) (spk : Items) (x p pos : Nat) (xh : Hdr) (xk : Items) (idx : List (Bytes × Nat))
    (dp : Bytes) (hox : Occ xh xk m.rootItems) :
    ∀ y ∈ (mvRoot2 m sph spk x p pos xh (mvName S idx dp xh xk).1).ids, y ∈ m.rootItems.ids := by
  intro y hy
  unfold mvRoot2 at hy
  have hx1 : ∀ y ∈ (mvName S idx dp xh xk).1.ids, y ∈ xk.ids := by
    rcases mvName_content S idx dp xh xk with e | ⟨nm, e⟩
    · rw [e]; exact fun y hy => hy
    · rw [e]; exact setShortName_ids_sub xk nm
  rcases ids_modify_sub (fun y => y ∈ xh.id :: xk.ids) p _ (mvRoot1 m sph spk x) (fun h k0 => ⟨rfl, fun y hy => by
      have h1 := (List.Perm.mem_iff (ids_insertAt (mvHdr xh p) (mvName S idx dp xh xk).1 k0 pos)).mp hy
      rcases List.mem_append.mp h1 with h1 | h1
      · rcases List.mem_cons.mp h1 with h1 | h1
        · exact Or.inr (h1 ▸ List.mem_cons_self)
        · exact Or.inr (List.mem_cons_of_mem _ (hx1 y h1))
      · exact Or.inl h1⟩) y hy with a | a
  · exact mvRoot1_ids_sub m sph spk x y a
  · exact hox.ids_sublist.subset a

theorem moveModel_issued (m : Model) (sph : Hdr) (spk : Items) (x p pos : Nat) (xh : Hdr) (xk : Items) (src dp : Bytes)
    (op : List (Bytes × Nat)) : (moveModel S m sph spk x p pos xh xk src dp op).rootIssued = m.rootIssued := by
  have hhas : HasRoot m.rootHdr (op.foldl (mvStep src (mvName S m.index dp xh xk).2.1)
      (m.refs, mvRoot2 m sph spk x p pos xh (mvName S m.index dp xh xk).1)).2 :=
    mvLoop_pres (HasRoot m.rootHdr) (fun its t txt hi => hasRoot_modify _ t _ (refEdit_fst txt) its hi) _ _ _ _
      (mvRoot2_hasRoot m sph spk x p pos xh _)
  exact (setRoot_hasRoot m m.rootHdr _ hhas).2.2.2.2.2

/-- `move_element_here[_at]` keeps `SepInv` (no new ids), under `MoveGuard` in a world with the full invariant -/
theorem opMove_sep (hH : IdxHyp S V vOk) (hR : RefWF S) (hv32 : vOk &&& 0xFFFFFFFF = vOk) (w : World) (p x : Nat)
    (pos? : Option Nat) (hg : GInv S vOk w) (hgd : MoveGuard S w p x) (hs : SepInv w) : SepInv (opMove S V w p x pos?).1 := by
  have hw : WInv S vOk w := hg.2.1.1.1
  have hw' : WInv S vOk (opMove S V w p x pos?).1 := (opMove_ginv S V vOk hH hR hv32 w p x pos? hg hgd).2.1.1.1
  rcases opMove_cases S V w p x pos? with h0 | ⟨k, cx, cp, ver, lo, hi, sph, spk, q, cur, hr, hsp, hq, hlen, hcur, he⟩ |
    ⟨k, cx, cp, ver, lo, hi, sph, spk, hr, hsp, hany, hf, he⟩
  · rw [h0]; exact hs
  · rw [he] at hw' ⊢
    obtain ⟨m, hm1, hm2, _, _⟩ := locate_chain w p k cp hr.locp
    rw [hm2] at hw' ⊢
    refine sep_of_sub S vOk w k m _ hw hs hm1 hw' ?_ (setRoot_modify_fields _ _ _).2.2.2 ?_
    · exact congrArg Hdr.id (setRoot_hasRoot m m.rootHdr _ (hasRoot_modify _ p _ (fun _ _ => rfl) _ ⟨m.rootKids, rfl⟩)).2.1
    · intro y hy
      rw [posModel_eq, rootItems_setRoot_modify] at hy
      rcases ids_modify_sub (fun _ => False) _ _ m.rootItems
        (fun h k0 => ⟨rfl, fun y hy => Or.inl (movePos_ids_sub k0 cur q y hy)⟩) y hy with a | a
      · exact a
      · exact a.elim
  · rw [he] at hw' ⊢
    obtain ⟨m, hm1, hm2, _, hcx⟩ := locate_chain w x k cx hr.locx
    obtain ⟨hox, _⟩ := chain_occ x m.rootItems cx hcx
    rw [hm2] at hw' ⊢
    refine sep_of_sub S vOk w k m _ hw hs hm1 hw' ?_ (moveModel_issued S m sph spk x p _ _ _ _ _ _) ?_
    · exact congrArg Hdr.id (moveModel_root S m sph spk x p _ _ _ _ _ _).1
    · rw [(moveModel_root S m sph spk x p _ _ _ _ _ _).2]
      refine mvLoop_pres (fun its => ∀ y ∈ its.ids, y ∈ m.rootItems.ids) (fun its t txt hi y hy => ?_) _ _ _ _
        (mvRoot2_ids_sub S m sph spk x p _ _ _ _ _ hox)
      rcases ids_modify_sub (fun _ => False) t (refEdit txt) its
        (fun h k0 => ⟨by rw [refEdit_fst], fun y hy => Or.inl (refEdit_ids_sub txt h k0 y hy)⟩) y hy with a | a
      · exact hi y a
      · exact a.elim

/-- `create_copied_sub_element[_at]` keeps `SepInv`: the ids of the copy are new (`≥ nextId`, `deepCopy_ids`) and the
destination has a file (its root has its protocol id) -/
theorem opCopy_sep (w : World) (p x : Nat) (pos? : Option Nat) (hw : WInv S vOk w) (hs : SepInv w) :
    SepInv (opCopy S V w p x pos?).1 := by
  by_cases hok : (opCopy S V w p x pos?).2 = .err
  · rw [opCopy_err_frame S V w p x pos? hok]; exact hs
  obtain ⟨k, cp, ver, xh, xkids, q, nh, nk, n', nk1, idx', rs', hc, hres⟩ := opCopy_ok S V w p x pos? hok
  obtain ⟨m, hm1, hm2, hmem, hcp⟩ := locate_chain w p k cp hc.loc
  have hm := hw m hmem
  have hiss : m.rootIssued = true := issued_of_minVersion S V vOk hm p cp hcp ver (hm2 ▸ hc.minv)
  obtain ⟨_, _, _, hbound, _⟩ := deepCopy_ids S _ xh xkids ver _ _ nh nk n' hc.copy
  have hnk1 : nk1 = (copyRename S (w.models[k]!).index (pathOfChain S cp) nh nk).1 := by rw [hc.rename]
  have hsub1 : ∀ y ∈ nk1.ids, y ∈ nk.ids := by
    rcases copyRename_content S (w.models[k]!).index (pathOfChain S cp) nh nk with e | ⟨nm, e⟩
    · rw [hnk1, e]; exact fun y hy => hy
    · rw [hnk1, e]; exact setShortName_ids_sub nk nm
  rw [hres]
  refine sep_update S vOk w _ k m (copyModel m p q nh nk1 idx' rs') hw hs hm1 (by rw [← hm2]; exact copyWorld_models ..) ?_
  refine grow_modify w.nextId m _ p _ (copyModel_rootItems ..) (copyModel_fields ..).2.1 (fun h k0 => ⟨rfl, fun y hy => ?_⟩)
  have h1 := (List.Perm.mem_iff (ids_insertAt nh nk1 k0 q)).mp hy
  rcases List.mem_append.mp h1 with h1 | h1
  · refine Or.inr ⟨(hbound y ?_).1, hiss⟩
    rw [ids_elem_nil]
    rcases List.mem_cons.mp h1 with h1 | h1
    · exact h1 ▸ List.mem_cons_self
    · exact List.mem_cons_of_mem _ (hsub1 y h1)
  · exact Or.inl h1

end sep

/-! ## a move that is answered with success -/

section okcases
variable (S : Spec) (V : Env)

/-- a `move_element_here[_at]` that is answered with `ok` went through all the checks (`MoveRun`); either `x` was a child of
`p` already (nothing or only its position changes), or it is the real move -/
theorem opMove_ok_cases (w : World) (p x : Nat) (pos? : Option Nat) (hok : (opMove S V w p x pos?).2 = .ok "") :
    ∃ k cx cp ver lo hi sph spk, MoveRun S V w p x pos? k cx cp ver lo hi sph spk ∧
      (sph.id = p ∨ (sph.id ≠ p ∧ (cp.any fun (h, _) => h.id = x) = false ∧
        opMove S V w p x pos? = (setModel w k (moveModel S (w.models[k]!) sph spk x p (pos?.getD hi) (lastOf cx).1 (lastOf cx).2
          (pathOfChain S cx) (pathOfChain S cp)
          (subtreePaths S ((lastOf cx).2.size + 2) (lastOf cx).1 (lastOf cx).2 (namesOfChain S cx.dropLast))), .ok ""))) := by
  · revert hok
    fun_cases opMove S V w p x pos?
    all_goals try (intro h; cases h; done)
    case case7 =>
      rename_i hne kx cx kp cp hlp hlx m mx vx ver hvp hvx hv ph pk hlastp xh xk hlastx lo hi hr hk sph spk hpar hsp pos hpos
      intro _
      obtain rfl : kx = kp := Decidable.not_not.mp hk
      obtain rfl : vx = ver := Decidable.not_not.mp hv
      have e1 : (lastOf cp).2 = pk := by rw [hlastp]
      have e2 : (lastOf cp).1 = ph := by rw [hlastp]
      have e3 : (lastOf cx).1 = xh := by rw [hlastx]
      exact ⟨kx, cx, cp, vx, lo, hi, sph, spk,
        ⟨hne, hlx, hlp, hvx, hvp, by rw [e1, e2, e3]; exact hr, Decidable.not_not.mp hpos, hpar⟩, Or.inl hsp⟩
    case case8 =>
      rename_i hne kx cx kp cp hlp hlx m mx vx ver hvp hvx hv ph pk hlastp xh xk hlastx lo hi hr hk sph spk hpar hsp q hq cur hcur
        pos hpos
      intro _
      obtain rfl : kx = kp := Decidable.not_not.mp hk
      obtain rfl : vx = ver := Decidable.not_not.mp hv
      have e1 : (lastOf cp).2 = pk := by rw [hlastp]
      have e2 : (lastOf cp).1 = ph := by rw [hlastp]
      have e3 : (lastOf cx).1 = xh := by rw [hlastx]
      exact ⟨kx, cx, cp, vx, lo, hi, sph, spk,
        ⟨hne, hlx, hlp, hvx, hvp, by rw [e1, e2, e3]; exact hr, Decidable.not_not.mp hpos, hpar⟩, Or.inl hsp⟩
    case case13 =>
      rename_i hne kx cx kp cp hlp hlx m mx vx ver hvp hvx hv ph pk hlastp xh xk hlastx lo hi hr hk sph spk hpar hsp hany
        srcPrefix destPrefix origPaths root1 xh1 xk1 destPath nameFail hname hnf idx1 rs' root3 pos hpos root2 hloop
      intro _
      obtain rfl : kx = kp := Decidable.not_not.mp hk
      obtain rfl : vx = ver := Decidable.not_not.mp hv
      have e1 : (lastOf cp).2 = pk := by rw [hlastp]
      have e2 : (lastOf cp).1 = ph := by rw [hlastp]
      have e3 : (lastOf cx).1 = xh := by rw [hlastx]
      have e4 : (lastOf cx).2 = xk := by rw [hlastx]
      have h1 : mvName S (w.models[kx]!).index (pathOfChain S cp) xh xk = (xk1, destPath, nameFail) := hname
      have h2 : origPaths.foldl (mvStep (pathOfChain S cx) destPath)
          ((w.models[kx]!).refs, mvRoot2 (w.models[kx]!) sph spk x p (pos?.getD hi) xh xk1) = (rs', root3) := hloop
      refine ⟨kx, cx, cp, vx, lo, hi, sph, spk,
        ⟨hne, hlx, hlp, hvx, hvp, by rw [e1, e2, e3]; exact hr, Decidable.not_not.mp hpos, hpar⟩,
        Or.inr ⟨hsp, by simpa using hany, ?_⟩⟩
      unfold moveModel
      rw [e3, e4, h1, h2]
      rfl

end okcases
end AV.W
