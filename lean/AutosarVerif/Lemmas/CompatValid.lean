/-
C17 / C13: the compatibility check (`compatKids`, `compatFile` of `Model/Compat.lean`) against a DECLARATIVE validity
predicate.

`ValidIn S file ver typ kids` ("the content `kids` of an element of type `typ` is permitted in version `ver`"): every child
element that belongs to the file is found by `S.findSub typ name ver`, the type recorded for it is the type `recalcType`
computes in `ver`, every attribute is known to that type with a mask containing `ver` and a value that `valueCompat`
accepts, every character data item is compatible — recursively.  `NodeValid` adds the attributes of the element itself.
(`ValidInG P` is the same predicate over an arbitrary value check `P`; `ValidInStrict` takes `checkValue`.)

1. `validIn_compat_nil`, `nodeValid_compat_nil`, `validIn_no_panic`: valid ⇒ the check lists nothing and does not panic — for
   every specification whose enumerations list each item once (`EnumKeysNodup`; needed: `CompatValidWitness.dup_needed`; true
   of the real tables: `Lemmas/CompatValidReal.lean`).  `validInStrict_validIn`: the strict value check implies the one of the walk.
2. `compat_nil_validIn`, `compat_nil_nodeValid`: the check lists nothing ⇒ valid, under the gap hypotheses
   `KnownKids` (every child is known to the type of its parent in SOME version), `KnownAttrs` (every attribute is known to
   the type of its element) and `TypesAgree` (no element has an "alien" recorded type).  Each hypothesis is needed
   (`CompatValidWitness.gap_unknown_child`, `gap_unknown_attr`, `gap_alien_type`: `decide`-checked on `toySpec`; `gap_order`,
   `gap_multiplicity`, `gap_value_kind`, `gap_pattern`: what neither the check nor `ValidIn` looks at).
   `compatNode_nil_iff_valid`: both directions together.
3. C13: `AllCompat` (of `Lemmas/DeepCopy.lean`) + `TypesAgreeAll` ⇒ the check lists nothing on a copy (`allCompat_compat_nil`,
   `deepCopy_compat_nil`); `TypesAgreeAll` passes from the source to the copy (`deepCopy_typesAgree`,
   `deepCopy_same_version_compat_nil`); needed (`CompatValidWitness.copy_alien_needed`).
4. `set_version`: succeeds iff nothing is listed (`opSetVersion_ok_iff`), keeps `GInv` (`opSetVersion_ginv`), the content is
   `NodeValid` for the new version afterwards (`opSetVersion_valid`; in a state with `GInv` the first gap is closed by the
   invariant: `opSetVersion_history`); valid content may be relabelled (`opSetVersion_of_valid`).
-/
import AutosarVerif.Lemmas.Compat
import AutosarVerif.Lemmas.Spec
import AutosarVerif.Lemmas.DeepCopy
import AutosarVerif.Lemmas.StepX
import AutosarVerif.Model.ToySpec

namespace AV.W
open Items

/-! ### values -/

/-- an enumeration specification lists every item once -/
def _root_.AV.CSpec.KeysNodup : CSpec → Prop
  | .enum items => items.Pairwise fun a b => a.1 ≠ b.1
  | _ => True

/-- what the check accepts, `valueCompat` accepts -/
theorem valueCompat_of_mask (v : CDv) (sp : CSpec) (ver : Nat) (h : (valueCompatMask v sp ver).1 = true) :
    valueCompat v sp ver = true := by
  cases sp with
  | enum items =>
    cases v with
    | enum i =>
      simp only [valueCompatMask] at h
      simp only [valueCompat]
      split at h
      · rename_i it hf
        have h1 := List.find?_some hf
        have h2 := List.mem_of_find?_eq_some hf
        simp only [List.any_eq_true]
        exact ⟨it, h2, by simp only [Bool.and_eq_true]; exact ⟨h1, h⟩⟩
      · simp at h
    | _ => simp [valueCompatMask] at h
  | _ => rfl

theorem find?_of_pairwise (items : List (Nat × Nat)) (i : Nat) (it : Nat × Nat)
    (hp : items.Pairwise fun a b => a.1 ≠ b.1) (hm : it ∈ items) (hi : it.1 = i) :
    items.find? (fun x => x.1 == i) = some it := by
  induction items with
  | nil => cases hm
  | cons a rest ih =>
    rw [List.pairwise_cons] at hp
    rcases List.mem_cons.mp hm with rfl | hm
    · simp [hi]
    · have hne : a.1 ≠ it.1 := hp.1 it hm
      rw [hi] at hne
      simp only [List.find?_cons]
      have : (a.1 == i) = false := by simpa using hne
      rw [this]
      exact ih hp.2 hm

/-- what `valueCompat` accepts, the check accepts — where the enumeration lists every item once -/
theorem mask_of_valueCompat (v : CDv) (sp : CSpec) (ver : Nat) (hn : sp.KeysNodup) (h : valueCompat v sp ver = true) :
    (valueCompatMask v sp ver).1 = true := by
  cases sp with
  | enum items =>
    cases v with
    | enum i =>
      simp only [valueCompat, List.any_eq_true, Bool.and_eq_true] at h
      obtain ⟨it, hm, h1, h2⟩ := h
      have := find?_of_pairwise items i it hn hm (by simpa using h1)
      simp only [valueCompatMask, this]
      exact h2
    | _ => simp [valueCompat] at h
  | _ => rfl

theorem checkValue_valueCompat (V : Env) (v : CDv) (sp : CSpec) (ver : Nat) (h : checkValue V v sp ver = true) :
    valueCompat v sp ver = true := by
  cases sp with
  | enum items =>
    cases v with
    | enum i => exact h
    | _ => simp [checkValue] at h
  | _ => rfl

section
variable (S : Spec)

/-! ### the index path of a name lookup read back by `subMaskChecked` -/

theorem subMaskChecked_single (f t i : Nat) :
    subMaskChecked S f t [i] = if i < S.subCount t then some (S.subMask t i) else none := by
  cases f <;> simp [subMaskChecked]

theorem subMaskChecked_cons (f t i j : Nat) (rest : List Nat) :
    subMaskChecked S (f + 1) t (i :: j :: rest) =
      if i < S.subCount t then
        match S.subAt t i with
        | .elem _ => none
        | .group g => subMaskChecked S f g (j :: rest)
      else none := by
  rw [subMaskChecked]
  · split
    · cases S.subAt t i <;> rfl
    · rfl
  · simp

/-- the index path `find_sub_element` returns is in bounds for `get_sub_element_version_mask` on the SAME type, the mask
read there is the mask of the listed entry that was found, and it intersects the requested versions -/
theorem findSubT_checked (nm v : Nat) : ∀ (n t f : Nat) (e : ETy) (idx : List Nat), n ≤ f →
    S.findSubT nm v n t = some (e, idx) →
    ∃ m, subMaskChecked S f t idx = some m ∧ (nm, e, m, idx) ∈ S.listSubT n t ∧ (v &&& m) ≠ 0 := by
  intro n
  induction n with
  | zero => intro t f e idx _ h; simp [Spec.findSubT] at h
  | succ n ih =>
    intro t f e idx hf h
    simp only [Spec.findSubT] at h
    obtain ⟨pos, hpos, hp⟩ := List.exists_of_findSome?_eq_some h
    have hlt : pos < S.subCount t := List.mem_range.mp hpos
    simp only [Spec.listSubT, List.mem_flatMap]
    cases hs : S.subAt t pos with
    | elem d =>
      rw [hs] at hp
      simp only at hp
      split at hp
      · rename_i hc
        simp only [Option.some.injEq, Prod.mk.injEq] at hp
        obtain ⟨he, hi⟩ := hp
        subst he hi
        refine ⟨S.subMask t pos, ?_, ⟨pos, hpos, ?_⟩, hc.2⟩
        · rw [subMaskChecked_single, if_pos hlt]
        · rw [hs]; simp [hc.1]
      · simp at hp
    | group g =>
      rw [hs] at hp
      simp only at hp
      split at hp
      · rename_i e' idx' hg
        simp only [Option.some.injEq, Prod.mk.injEq] at hp
        obtain ⟨he, hi⟩ := hp
        subst he hi
        obtain ⟨f', rfl⟩ : ∃ f', f = f' + 1 := ⟨f - 1, by omega⟩
        obtain ⟨m, hm, hl, hv⟩ := ih g f' e' idx' (by omega) hg
        refine ⟨m, ?_, ⟨pos, hpos, ?_⟩, hv⟩
        · cases idx' with
          | nil => simp [subMaskChecked] at hm
          | cons j rest => rw [subMaskChecked_cons, if_pos hlt, hs]; exact hm
        · rw [hs]
          simp only [List.mem_map]
          exact ⟨(nm, e', m, idx'), hl, rfl⟩
      · simp at hp

/-- the same for `findSub` and the fuel `compatKids` passes -/
theorem findSub_checked (t nm v : Nat) (e : ETy) (idx : List Nat) (h : S.findSub t nm v = some (e, idx)) :
    ∃ m, subMaskChecked S (S.depth + 2) t idx = some m ∧ (nm, e, m, idx) ∈ S.listSub t ∧ (v &&& m) ≠ 0 :=
  findSubT_checked S nm v (S.depth + 1) t (S.depth + 2) e idx (by omega) h

/-- `find_sub_element(name, version)` finds nothing, `find_sub_element(name, u32::MAX)` finds an entry: the mask of that
entry (read on the same type) excludes the version -/
theorem findSub_fallback_excl (t nm ver : Nat) (e : ETy) (idx : List Nat) (hn : S.findSub t nm ver = none)
    (h : S.findSub t nm 0xFFFFFFFF = some (e, idx)) :
    ∃ m, subMaskChecked S (S.depth + 2) t idx = some m ∧ (m &&& ver) = 0 := by
  obtain ⟨m, hm, hl, _⟩ := findSub_checked S t nm _ e idx h
  refine ⟨m, hm, ?_⟩
  apply Classical.byContradiction
  intro hne
  have := Spec.findSubT_complete S nm ver (S.depth + 1) t e m idx hl (by rw [Nat.and_comm]; exact hne)
  unfold Spec.findSub at hn
  rw [hn] at this
  cases this

end


/-! ### the declarative predicates -/

section
variable (S : Spec)

/-- every attribute is known to the type, exists in `ver`, and its value passes the value check `P` -/
def AttrsValidG (P : CDv → CSpec → Nat → Bool) (typ ver : Nat) (attrs : List (Nat × CDv)) : Prop :=
  ∀ a ∈ attrs, ∃ cd req vm, S.findAttr typ a.1 = some (cd, req, vm) ∧ (vm &&& ver) ≠ 0 ∧ P a.2 (S.cspec cd) ver = true

/-- a character data item of an element of type `typ` passes the value check `P` -/
def TextOkG (P : CDv → CSpec → Nat → Bool) (typ ver : Nat) (c : CDv) : Prop :=
  ∀ sp, S.chardataSpec typ = some sp → P c sp ver = true

/-- **the content of an element of type `typ` is permitted in version `ver`** (value check `P`; only the children that belong
to `file` are looked at): every character data item passes, every child is found by `find_sub_element(name, ver)`, the type
recorded for it is the type `recalc_element_type` computes in `ver`, its attributes are valid, and so on recursively -/
def ValidInG (P : CDv → CSpec → Nat → Bool) (file ver : Nat) : Nat → Items → Prop
  | _, .nil => True
  | typ, .text c r => TextOkG S P typ ver c ∧ ValidInG P file ver typ r
  | typ, .elem h k r =>
    ValidInG P file ver typ r ∧
    ((h.files.isEmpty ∨ h.files.contains file) →
      (S.findSub typ h.name ver).isSome = true ∧ recalcType S (some typ) h ver = h.ety.typ ∧
      AttrsValidG S P h.ety.typ ver h.attrs ∧ ValidInG P file ver h.ety.typ k)

/-- the element `(h, kids)` (type as recorded) with everything in it is permitted in version `ver` -/
def NodeValidG (P : CDv → CSpec → Nat → Bool) (file ver : Nat) (h : Hdr) (kids : Items) : Prop :=
  AttrsValidG S P h.ety.typ ver h.attrs ∧ ValidInG S P file ver h.ety.typ kids

/-- validity with the value check of the compatibility walk (`check_version_compatibility` of a value) -/
abbrev ValidIn := ValidInG S valueCompat
abbrev NodeValid := NodeValidG S valueCompat
/-- validity with the strict value check (`CharacterData::check_value`: kind, pattern, length, enumeration item) -/
abbrev ValidInStrict (V : Env) := ValidInG S (checkValue V)
abbrev NodeValidStrict (V : Env) := NodeValidG S (checkValue V)

/-- gap hypothesis 1: every child (that belongs to the file) is known to the type of its parent in SOME version -/
def KnownKids (file : Nat) : Nat → Items → Prop
  | _, .nil => True
  | typ, .text _ r => KnownKids file typ r
  | typ, .elem h k r =>
    KnownKids file typ r ∧
    ((h.files.isEmpty ∨ h.files.contains file) →
      (S.findSub typ h.name 0xFFFFFFFF).isSome = true ∧ KnownKids file h.ety.typ k)

/-- gap hypothesis 2: every attribute of every element below (that belongs to the file) is known to the type of its element -/
def KnownAttrs (file : Nat) : Items → Prop
  | .nil => True
  | .text _ r => KnownAttrs file r
  | .elem h k r =>
    KnownAttrs file r ∧
    ((h.files.isEmpty ∨ h.files.contains file) →
      (∀ a ∈ h.attrs, (S.findAttr h.ety.typ a.1).isSome = true) ∧ KnownAttrs file k)

/-- gap hypothesis 3 (no "alien type"): the type recorded for every element (that belongs to the file) is the type
`recalc_element_type` computes for it in `ver` from the recorded type of its parent -/
def TypesAgree (file ver : Nat) : Nat → Items → Prop
  | _, .nil => True
  | typ, .text _ r => TypesAgree file ver typ r
  | typ, .elem h k r =>
    TypesAgree file ver typ r ∧
    ((h.files.isEmpty ∨ h.files.contains file) →
      recalcType S (some typ) h ver = h.ety.typ ∧ TypesAgree file ver h.ety.typ k)

/-- no "alien type" anywhere (all children, whatever file they belong to) -/
def TypesAgreeAll (ver : Nat) : Nat → Items → Prop
  | _, .nil => True
  | typ, .text _ r => TypesAgreeAll ver typ r
  | typ, .elem h k r =>
    TypesAgreeAll ver typ r ∧ recalcType S (some typ) h ver = h.ety.typ ∧ TypesAgreeAll ver h.ety.typ k

/-! #### the predicates are decidable (used by the `decide`-checked witnesses) -/

instance (P : CDv → CSpec → Nat → Bool) (typ ver : Nat) (attrs : List (Nat × CDv)) : Decidable (AttrsValidG S P typ ver attrs) :=
  decidable_of_iff
    ((attrs.all fun a =>
      match S.findAttr typ a.1 with
      | some (cd, _, vm) => (vm &&& ver) != 0 && P a.2 (S.cspec cd) ver
      | none => false) = true) (by
    unfold AttrsValidG
    rw [List.all_eq_true]
    constructor
    · intro h a ha
      have := h a ha
      split at this
      · rename_i cd req vm hf
        simp only [Bool.and_eq_true, bne_iff_ne, ne_eq] at this
        exact ⟨cd, req, vm, hf, this.1, this.2⟩
      · cases this
    · intro h a ha
      obtain ⟨cd, req, vm, hf, h1, h2⟩ := h a ha
      rw [hf]
      simp only [Bool.and_eq_true, bne_iff_ne, ne_eq]
      exact ⟨h1, h2⟩)

instance (P : CDv → CSpec → Nat → Bool) (typ ver : Nat) (c : CDv) : Decidable (TextOkG S P typ ver c) :=
  match h : S.chardataSpec typ with
  | some sp => decidable_of_iff (P c sp ver = true)
      ⟨fun hp sp' hs => by rw [h] at hs; cases hs; exact hp, fun hh => hh sp h⟩
  | none => isTrue (fun sp hs => by rw [h] at hs; cases hs)

def ValidInG.dec (P : CDv → CSpec → Nat → Bool) (file ver : Nat) : ∀ (typ : Nat) (its : Items), Decidable (ValidInG S P file ver typ its)
  | _, .nil => isTrue trivial
  | typ, .text c r =>
    haveI := ValidInG.dec P file ver typ r
    (inferInstance : Decidable (TextOkG S P typ ver c ∧ ValidInG S P file ver typ r))
  | typ, .elem h k r =>
    haveI := ValidInG.dec P file ver typ r
    haveI := ValidInG.dec P file ver h.ety.typ k
    (inferInstance : Decidable (ValidInG S P file ver typ r ∧
      ((h.files.isEmpty ∨ h.files.contains file) →
        (S.findSub typ h.name ver).isSome = true ∧ recalcType S (some typ) h ver = h.ety.typ ∧
        AttrsValidG S P h.ety.typ ver h.attrs ∧ ValidInG S P file ver h.ety.typ k)))

instance (P : CDv → CSpec → Nat → Bool) (file ver typ : Nat) (its : Items) : Decidable (ValidInG S P file ver typ its) :=
  ValidInG.dec S P file ver typ its

instance (P : CDv → CSpec → Nat → Bool) (file ver : Nat) (h : Hdr) (k : Items) : Decidable (NodeValidG S P file ver h k) := by
  unfold NodeValidG; infer_instance

def KnownKids.dec (file : Nat) : ∀ (typ : Nat) (its : Items), Decidable (KnownKids S file typ its)
  | _, .nil => isTrue trivial
  | typ, .text _ r => KnownKids.dec file typ r
  | typ, .elem h k r =>
    haveI := KnownKids.dec file typ r
    haveI := KnownKids.dec file h.ety.typ k
    (inferInstance : Decidable (KnownKids S file typ r ∧
      ((h.files.isEmpty ∨ h.files.contains file) →
        (S.findSub typ h.name 0xFFFFFFFF).isSome = true ∧ KnownKids S file h.ety.typ k)))

instance (file typ : Nat) (its : Items) : Decidable (KnownKids S file typ its) := KnownKids.dec S file typ its

def KnownAttrs.dec (file : Nat) : ∀ (its : Items), Decidable (KnownAttrs S file its)
  | .nil => isTrue trivial
  | .text _ r => KnownAttrs.dec file r
  | .elem h k r =>
    haveI := KnownAttrs.dec file r
    haveI := KnownAttrs.dec file k
    (inferInstance : Decidable (KnownAttrs S file r ∧
      ((h.files.isEmpty ∨ h.files.contains file) →
        (∀ a ∈ h.attrs, (S.findAttr h.ety.typ a.1).isSome = true) ∧ KnownAttrs S file k)))

instance (file : Nat) (its : Items) : Decidable (KnownAttrs S file its) := KnownAttrs.dec S file its

def TypesAgree.dec (file ver : Nat) : ∀ (typ : Nat) (its : Items), Decidable (TypesAgree S file ver typ its)
  | _, .nil => isTrue trivial
  | typ, .text _ r => TypesAgree.dec file ver typ r
  | typ, .elem h k r =>
    haveI := TypesAgree.dec file ver typ r
    haveI := TypesAgree.dec file ver h.ety.typ k
    (inferInstance : Decidable (TypesAgree S file ver typ r ∧
      ((h.files.isEmpty ∨ h.files.contains file) →
        recalcType S (some typ) h ver = h.ety.typ ∧ TypesAgree S file ver h.ety.typ k)))

instance (file ver typ : Nat) (its : Items) : Decidable (TypesAgree S file ver typ its) := TypesAgree.dec S file ver typ its

def TypesAgreeAll.dec (ver : Nat) : ∀ (typ : Nat) (its : Items), Decidable (TypesAgreeAll S ver typ its)
  | _, .nil => isTrue trivial
  | typ, .text _ r => TypesAgreeAll.dec ver typ r
  | typ, .elem h k r =>
    haveI := TypesAgreeAll.dec ver typ r
    haveI := TypesAgreeAll.dec ver h.ety.typ k
    (inferInstance : Decidable (TypesAgreeAll S ver typ r ∧ recalcType S (some typ) h ver = h.ety.typ ∧
      TypesAgreeAll S ver h.ety.typ k))

instance (ver typ : Nat) (its : Items) : Decidable (TypesAgreeAll S ver typ its) := TypesAgreeAll.dec S ver typ its

end


/-! ### Goal A: the check against `ValidIn` -/

section
variable (S : Spec)

/-- `Element::check_version_compatibility` on the element `(h, kids)` with its recorded type (what `compatFile` runs on the
root element) -/
def compatNode (file ver : Nat) (h : Hdr) (kids : Items) : CRes :=
  let ra := compatAttrs S h.ety.typ h.id ver h.attrs
  let rt := match S.chardataSpec h.ety.typ with
    | some sp => compatTexts sp h.id ver kids
    | none => ([], maxMask)
  let sub := compatKids S file ver h.ety.typ h.ety.typ kids
  ⟨ra.1 ++ (rt.1 ++ sub.errs), ra.2 &&& (rt.2 &&& sub.mask), sub.panic⟩

theorem compatFile_eq_node (m : Model) (file ver : Nat) :
    compatFile S m file ver = compatNode S file ver m.rootHdr m.rootKids := rfl

/-- every enumeration of the specification lists each item once -/
def EnumKeysNodup : Prop := ∀ cd, (S.cspec cd).KeysNodup

theorem chardataSpec_keys (hE : EnumKeysNodup S) (typ : Nat) (sp : CSpec) (h : S.chardataSpec typ = some sp) : sp.KeysNodup := by
  unfold Spec.chardataSpec at h
  cases hc : S.cdataOf typ with
  | none => rw [hc] at h; cases h
  | some cd => rw [hc] at h; cases h; exact hE cd

theorem attrsOk_of_valid (hE : EnumKeysNodup S) (typ ver : Nat) (attrs : List (Nat × CDv))
    (h : AttrsValidG S valueCompat typ ver attrs) : AttrsOk S typ ver attrs := by
  intro a ha cd req vm hf
  obtain ⟨cd', req', vm', hf', h1, h2⟩ := h a ha
  rw [hf] at hf'
  cases hf'
  exact ⟨h1, mask_of_valueCompat _ _ _ (hE cd) h2⟩

theorem attrsValid_of_ok (typ ver : Nat) (attrs : List (Nat × CDv))
    (hk : ∀ a ∈ attrs, (S.findAttr typ a.1).isSome = true) (h : AttrsOk S typ ver attrs) :
    AttrsValidG S valueCompat typ ver attrs := by
  intro a ha
  cases hf : S.findAttr typ a.1 with
  | none => have := hk a ha; rw [hf] at this; cases this
  | some x =>
    obtain ⟨cd, req, vm⟩ := x
    obtain ⟨h1, h2⟩ := h a ha cd req vm hf
    exact ⟨cd, req, vm, rfl, h1, valueCompat_of_mask _ _ _ h2⟩

theorem findSubOr_of_findSub (t nm ver : Nat) (x : ETy × List Nat) (h : S.findSub t nm ver = some x) :
    S.findSubOr t nm ver = some x := by
  unfold Spec.findSubOr; rw [h]

theorem findSubOr_of_none (t nm ver : Nat) (h : S.findSub t nm ver = none) :
    S.findSubOr t nm ver = S.findSub t nm 0xFFFFFFFF := by
  unfold Spec.findSubOr; rw [h]

/-- (1), the walk: valid content meets the recursive condition of the check, and its character data is compatible -/
theorem validIn_kidsOk (hE : EnumKeysNodup S) (file ver : Nat) (its : Items) : ∀ typ, ValidIn S file ver typ its →
    KidsOk S file ver typ typ its ∧ (∀ sp, S.chardataSpec typ = some sp → TextsOk sp ver its) := by
  induction its with
  | nil => intro typ _; exact ⟨trivial, fun _ _ => trivial⟩
  | text c r ih =>
    intro typ hv
    obtain ⟨a, b⟩ := ih typ hv.2
    exact ⟨a, fun sp hs => ⟨mask_of_valueCompat c sp ver (chardataSpec_keys S hE typ sp hs) (hv.1 sp hs), b sp hs⟩⟩
  | elem h k r ihk ihr =>
    intro typ hv
    obtain ⟨a, b⟩ := ihr typ hv.1
    refine ⟨⟨a, fun hf e idx hor vm hvm => ?_⟩, b⟩
    obtain ⟨hs, hty, hat, hk⟩ := hv.2 hf
    cases hfs : S.findSub typ h.name ver with
    | none => rw [hfs] at hs; cases hs
    | some x =>
      obtain ⟨e', idx'⟩ := x
      rw [findSubOr_of_findSub S _ _ _ _ hfs] at hor
      cases hor
      obtain ⟨m, hm, _, hv'⟩ := findSub_checked S typ h.name ver e idx hfs
      rw [hm] at hvm
      cases hvm
      rw [hty]
      obtain ⟨ka, kt⟩ := ihk h.ety.typ hk
      exact ⟨by rw [Nat.and_comm]; exact hv', attrsOk_of_valid S hE _ _ _ hat, kt, ka⟩

/-- **(1) valid ⇒ the check lists nothing** (content of an element whose type is the same in both versions) -/
theorem validIn_compat_nil (hE : EnumKeysNodup S) (file ver typ : Nat) (its : Items) (hv : ValidIn S file ver typ its) :
    (compatKids S file ver typ typ its).errs = [] :=
  (compatKids_nil_iff S file ver its typ typ).mpr (validIn_kidsOk S hE file ver its typ hv).1

/-- on valid content the check does not hit the unwrap / slice index of `get_sub_element_version_mask` -/
theorem validIn_no_panic (file ver : Nat) (its : Items) : ∀ typ, ValidIn S file ver typ its →
    (compatKids S file ver typ typ its).panic = false := by
  induction its with
  | nil => intro typ _; rfl
  | text c r ih => intro typ hv; unfold compatKids; exact ih typ hv.2
  | elem h k r ihk ihr =>
    intro typ hv
    unfold compatKids
    by_cases hf : h.files.isEmpty ∨ h.files.contains file
    · rw [if_pos hf]
      obtain ⟨hs, hty, _, hk⟩ := hv.2 hf
      cases hfs : S.findSub typ h.name ver with
      | none => rw [hfs] at hs; cases hs
      | some x =>
        obtain ⟨e, idx⟩ := x
        rw [findSubOr_of_findSub S _ _ _ _ hfs]
        obtain ⟨m, hm, _, hv'⟩ := findSub_checked S typ h.name ver e idx hfs
        dsimp only
        rw [hm]
        dsimp only
        rw [if_neg (by rw [Nat.and_comm]; exact hv'), hty]
        dsimp only
        rw [ihk _ hk, ihr _ hv.1]
        rfl
    · rw [if_neg hf]; exact ihr typ hv.1

theorem nodeValid_compat_nil (hE : EnumKeysNodup S) (file ver : Nat) (h : Hdr) (k : Items) (hv : NodeValid S file ver h k) :
    (compatNode S file ver h k).errs = [] ∧ (compatNode S file ver h k).panic = false := by
  obtain ⟨ka, kt⟩ := validIn_kidsOk S hE file ver k h.ety.typ hv.2
  refine ⟨?_, validIn_no_panic S file ver k h.ety.typ hv.2⟩
  unfold compatNode
  dsimp only
  rw [List.append_eq_nil_iff, List.append_eq_nil_iff, compatAttrs_nil_iff, compatKids_nil_iff]
  refine ⟨attrsOk_of_valid S hE _ _ _ hv.1, ?_, ka⟩
  cases hsp : S.chardataSpec h.ety.typ with
  | none => rfl
  | some sp => exact (compatTexts_nil_iff sp h.id ver k).mpr (kt sp hsp)

/-- validity is monotone in the value check -/
theorem validInG_mono (P Q : CDv → CSpec → Nat → Bool) (hPQ : ∀ v sp ver, P v sp ver = true → Q v sp ver = true)
    (file ver : Nat) (its : Items) : ∀ typ, ValidInG S P file ver typ its → ValidInG S Q file ver typ its := by
  induction its with
  | nil => intro _ _; trivial
  | text c r ih => intro typ hv; exact ⟨fun sp hs => hPQ _ _ _ (hv.1 sp hs), ih typ hv.2⟩
  | elem h k r ihk ihr =>
    intro typ hv
    refine ⟨ihr typ hv.1, fun hf => ?_⟩
    obtain ⟨a, b, c, d⟩ := hv.2 hf
    refine ⟨a, b, fun x hx => ?_, ihk _ d⟩
    obtain ⟨cd, req, vm, h1, h2, h3⟩ := c x hx
    exact ⟨cd, req, vm, h1, h2, hPQ _ _ _ h3⟩

/-- content that is valid with the strict value check (`check_value`) is valid, so the check lists nothing on it -/
theorem validInStrict_validIn (V : Env) (file ver typ : Nat) (its : Items) (hv : ValidInStrict S V file ver typ its) :
    ValidIn S file ver typ its :=
  validInG_mono S _ _ (fun v sp ver h => checkValue_valueCompat V v sp ver h) file ver its typ hv

/-- (2), the walk: what the check requires is validity, once every child and attribute is known and no type is alien -/
theorem kidsOk_validIn (file ver : Nat) (its : Items) : ∀ typ, KnownKids S file typ its → KnownAttrs S file its →
    TypesAgree S file ver typ its → KidsOk S file ver typ typ its →
    (∀ sp, S.chardataSpec typ = some sp → TextsOk sp ver its) → ValidIn S file ver typ its := by
  induction its with
  | nil => intro _ _ _ _ _ _; trivial
  | text c r ih =>
    intro typ h1 h2 h3 h4 h5
    exact ⟨fun sp hs => valueCompat_of_mask c sp ver (h5 sp hs).1, ih typ h1 h2 h3 h4 (fun sp hs => (h5 sp hs).2)⟩
  | elem h k r ihk ihr =>
    intro typ h1 h2 h3 h4 h5
    refine ⟨ihr typ h1.1 h2.1 h3.1 h4.1 h5, fun hf => ?_⟩
    obtain ⟨hkn, hkk⟩ := h1.2 hf
    obtain ⟨han, hka⟩ := h2.2 hf
    obtain ⟨hty, hta⟩ := h3.2 hf
    cases hfs : S.findSub typ h.name ver with
    | none =>
      exfalso
      cases hfm : S.findSub typ h.name 0xFFFFFFFF with
      | none => rw [hfm] at hkn; cases hkn
      | some x =>
        obtain ⟨e, idx⟩ := x
        obtain ⟨m, hm, hz⟩ := findSub_fallback_excl S typ h.name ver e idx hfs hfm
        have hor : S.findSubOr typ h.name ver = some (e, idx) := by rw [findSubOr_of_none S _ _ _ hfs, hfm]
        exact (h4.2 hf e idx hor m hm).1 hz
    | some x =>
      obtain ⟨e, idx⟩ := x
      obtain ⟨m, hm, _, _⟩ := findSub_checked S typ h.name ver e idx hfs
      obtain ⟨_, ha, ht, hk⟩ := h4.2 hf e idx (findSubOr_of_findSub S _ _ _ _ hfs) m hm
      rw [hty] at ha ht hk
      exact ⟨rfl, hty, attrsValid_of_ok S _ _ _ han ha, ihk h.ety.typ hkk hka hta hk ht⟩

/-- **(2) the check lists nothing ⇒ valid**, under the three gap hypotheses (content of an element; the character data items
directly in `its` are the business of the element that holds them, see `compat_nil_nodeValid`) -/
theorem compat_nil_validIn (file ver typ : Nat) (its : Items) (hK : KnownKids S file typ its) (hA : KnownAttrs S file its)
    (hT : TypesAgree S file ver typ its) (hc : (compatKids S file ver typ typ its).errs = [])
    (ht : ∀ sp, S.chardataSpec typ = some sp → TextsOk sp ver its) : ValidIn S file ver typ its :=
  kidsOk_validIn S file ver its typ hK hA hT ((compatKids_nil_iff S file ver its typ typ).mp hc) ht

theorem compat_nil_nodeValid (file ver : Nat) (h : Hdr) (k : Items) (hK : KnownKids S file h.ety.typ k)
    (hA0 : ∀ a ∈ h.attrs, (S.findAttr h.ety.typ a.1).isSome = true) (hA : KnownAttrs S file k)
    (hT : TypesAgree S file ver h.ety.typ k) (hc : (compatNode S file ver h k).errs = []) : NodeValid S file ver h k := by
  unfold compatNode at hc
  dsimp only at hc
  rw [List.append_eq_nil_iff, List.append_eq_nil_iff, compatAttrs_nil_iff, compatKids_nil_iff] at hc
  obtain ⟨ha, ht, hk⟩ := hc
  refine ⟨attrsValid_of_ok S _ _ _ hA0 ha, kidsOk_validIn S file ver k _ hK hA hT hk ?_⟩
  intro sp hsp
  rw [hsp] at ht
  exact (compatTexts_nil_iff sp h.id ver k).mp ht

/-- **C17, both directions**: in a specification whose enumerations list each item once, for a tree in which every child and
every attribute is known to its type (in some version) and no recorded type is alien to `ver`, the check lists nothing
exactly when the content is valid in `ver` -/
theorem compatNode_nil_iff_valid (hE : EnumKeysNodup S) (file ver : Nat) (h : Hdr) (k : Items)
    (hK : KnownKids S file h.ety.typ k) (hA0 : ∀ a ∈ h.attrs, (S.findAttr h.ety.typ a.1).isSome = true)
    (hA : KnownAttrs S file k) (hT : TypesAgree S file ver h.ety.typ k) :
    (compatNode S file ver h k).errs = [] ↔ NodeValid S file ver h k :=
  ⟨compat_nil_nodeValid S file ver h k hK hA0 hA hT, fun hv => (nodeValid_compat_nil S hE file ver h k hv).1⟩

/-- valid content has no alien type, and every child and attribute of it is known -/
theorem validIn_typesAgree (P : CDv → CSpec → Nat → Bool) (file ver : Nat) (its : Items) : ∀ typ,
    ValidInG S P file ver typ its → TypesAgree S file ver typ its := by
  induction its with
  | nil => intro _ _; trivial
  | text c r ih => intro typ hv; exact ih typ hv.2
  | elem h k r ihk ihr =>
    intro typ hv
    exact ⟨ihr typ hv.1, fun hf => ⟨(hv.2 hf).2.1, ihk _ (hv.2 hf).2.2.2⟩⟩

theorem validIn_knownAttrs (P : CDv → CSpec → Nat → Bool) (file ver : Nat) (its : Items) : ∀ typ,
    ValidInG S P file ver typ its → KnownAttrs S file its := by
  induction its with
  | nil => intro _ _; trivial
  | text c r ih => intro typ hv; exact ih typ hv.2
  | elem h k r ihk ihr =>
    intro typ hv
    refine ⟨ihr typ hv.1, fun hf => ⟨fun a ha => ?_, ihk _ (hv.2 hf).2.2.2⟩⟩
    obtain ⟨cd, req, vm, h1, _⟩ := (hv.2 hf).2.2.1 a ha
    rw [h1]; rfl

end


/-! ### Goal B (C13): a copy and the check -/

section
variable (S : Spec)

theorem typesAgreeAll_typesAgree (file ver : Nat) (its : Items) : ∀ typ, TypesAgreeAll S ver typ its →
    TypesAgree S file ver typ its := by
  induction its with
  | nil => intro _ _; trivial
  | text c r ih => intro typ h; exact ih typ h
  | elem h k r ihk ihr => intro typ hh; exact ⟨ihr typ hh.1, fun _ => ⟨hh.2.1, ihk _ hh.2.2⟩⟩

/-- `ItemsCompat` (the condition `deepCopy` establishes, types as recorded) is `ValidIn` once no recorded type is alien -/
theorem itemsCompat_validIn (file ver : Nat) (its : Items) : ∀ typ, ItemsCompat S ver typ its → TypesAgree S file ver typ its →
    ValidIn S file ver typ its := by
  induction its with
  | nil => intro _ _ _; trivial
  | text c r ih =>
    intro typ hc ht
    refine ⟨fun sp hs => ?_, ih typ hc.2 ht⟩
    have := hc.1
    unfold keepText at this
    rw [hs] at this
    exact this
  | elem h k r ihk ihr =>
    intro typ hc ht
    obtain ⟨h1, h2, h3, h4⟩ := hc
    exact ⟨ihr typ h4 ht.1, fun hf => ⟨h1, (ht.2 hf).1, h2, ihk _ h3 (ht.2 hf).2⟩⟩

/-- conversely, valid content in which every element belongs to the file is `ItemsCompat` -/
theorem validIn_itemsCompat (file ver : Nat) (its : Items) (hall : ∀ h ∈ its.hdrs, h.files.isEmpty ∨ h.files.contains file) :
    ∀ typ, ValidIn S file ver typ its → ItemsCompat S ver typ its := by
  induction its with
  | nil => intro _ _; trivial
  | text c r ih =>
    intro typ hv
    refine ⟨?_, ih hall typ hv.2⟩
    unfold keepText
    cases hs : S.chardataSpec typ with
    | none => rfl
    | some sp => exact hv.1 sp hs
  | elem h k r ihk ihr =>
    intro typ hv
    simp only [Items.hdrs, List.mem_cons, List.mem_append] at hall
    obtain ⟨h1, _, h3, h4⟩ := hv.2 (hall h (Or.inl rfl))
    exact ⟨h1, h3, ihk (fun x hx => hall x (Or.inr (Or.inl hx))) _ h4, ihr (fun x hx => hall x (Or.inr (Or.inr hx))) typ hv.1⟩

theorem allCompat_nodeValid (file ver : Nat) (h : Hdr) (k : Items) (hc : AllCompat S ver h k)
    (ht : TypesAgree S file ver h.ety.typ k) : NodeValid S file ver h k :=
  ⟨hc.1, itemsCompat_validIn S file ver k _ hc.2 ht⟩

/-- `AllCompat` + no alien type ⇒ the check with target `ver` lists nothing (for every file) and does not panic -/
theorem allCompat_compat_nil (hE : EnumKeysNodup S) (file ver : Nat) (h : Hdr) (k : Items) (hc : AllCompat S ver h k)
    (ht : TypesAgreeAll S ver h.ety.typ k) :
    (compatNode S file ver h k).errs = [] ∧ (compatNode S file ver h k).panic = false :=
  nodeValid_compat_nil S hE file ver h k (allCompat_nodeValid S file ver h k hc (typesAgreeAll_typesAgree S file ver k _ ht))

theorem recalcType_shape (pt : Option Nat) (h : Hdr) (ver : Nat) : recalcType S pt h.shape ver = recalcType S pt h ver := rfl

theorem typesAgreeAll_shape (ver : Nat) (its : Items) : ∀ typ, TypesAgreeAll S ver typ its.shape ↔ TypesAgreeAll S ver typ its := by
  induction its with
  | nil => intro _; exact Iff.rfl
  | text c r ih => intro typ; simp only [shape_text, TypesAgreeAll]; exact ih typ
  | elem h k r ihk ihr =>
    intro typ
    simp only [shape_elem, TypesAgreeAll, ihr typ, recalcType_shape]
    have : h.shape.ety.typ = h.ety.typ := rfl
    rw [this, ihk]

/-- the version filter keeps `TypesAgreeAll`: it only drops items and attributes -/
theorem typesAgreeAll_filterItems (ver : Nat) (its : Items) : ∀ typ, TypesAgreeAll S ver typ its →
    TypesAgreeAll S ver typ (filterItems S ver typ its) := by
  induction its with
  | nil => intro _ _; trivial
  | text c r ih =>
    intro typ h
    simp only [filterItems]
    split
    · exact ih typ h
    · exact ih typ h
  | elem sh sk r ihk ihr =>
    intro typ h
    simp only [filterItems]
    split
    · split
      · exact ⟨ihr typ h.1, h.2.1, ihk _ h.2.2⟩
      · exact ihr typ h.1
    · exact ihr typ h.1

/-- **`TypesAgree` passes from the source to the copy**: if the source subtree has no alien type for `ver` (it lives in a
file of version `ver` — source and destination file have the same version), neither has the copy made for `ver` -/
theorem deepCopy_typesAgree (fuel : Nat) (h : Hdr) (kids : Items) (ver : Nat) (parent : PRef) (nid : Nat) (h' : Hdr) (k' : Items) (n' : Nat)
    (hf : kids.depth < fuel) (hc : deepCopy S fuel h kids ver parent nid = some (h', k', n'))
    (ht : TypesAgreeAll S ver h.ety.typ kids) : h'.ety = h.ety ∧ TypesAgreeAll S ver h'.ety.typ k' := by
  obtain ⟨fh, fk, h1, h2⟩ := deepCopy_shape S fuel h kids ver parent nid h' k' n' hc
  rw [compatFilter_eq_T S fuel h kids ver hf] at h1
  simp only [compatFilterT] at h1
  split at h1
  · cases h1
  · rename_i attrs ha
    simp only [Option.some.injEq, Prod.mk.injEq] at h1
    obtain ⟨rfl, rfl⟩ := h1
    simp only [shape_elem, Items.elem.injEq] at h2
    obtain ⟨e1, e2, _⟩ := h2
    have a1 : h'.ety = h.ety := (congrArg Hdr.ety e1 : h'.shape.ety = _)
    refine ⟨a1, ?_⟩
    rw [a1, ← typesAgreeAll_shape S ver k', e2, typesAgreeAll_shape]
    exact typesAgreeAll_filterItems S ver kids _ ht

/-- **C13 "… and still validates", as the library's own check**: a successful `deepCopy` into version `ver` yields a subtree
on which the compatibility check with target `ver` lists nothing — provided no recorded type of the copy is alien to `ver` -/
theorem deepCopy_compat_nil (hE : EnumKeysNodup S) (fuel : Nat) (h : Hdr) (kids : Items) (ver : Nat) (parent : PRef) (nid : Nat)
    (h' : Hdr) (k' : Items) (n' : Nat) (hf : kids.depth < fuel) (hc : deepCopy S fuel h kids ver parent nid = some (h', k', n'))
    (ht : TypesAgreeAll S ver h'.ety.typ k') (file : Nat) :
    (compatNode S file ver h' k').errs = [] ∧ (compatNode S file ver h' k').panic = false ∧ NodeValid S file ver h' k' :=
  have hv := allCompat_nodeValid S file ver h' k' (deepCopy_allCompat S fuel h kids ver parent nid h' k' n' hf hc)
    (typesAgreeAll_typesAgree S file ver k' _ ht)
  ⟨(nodeValid_compat_nil S hE file ver h' k' hv).1, (nodeValid_compat_nil S hE file ver h' k' hv).2, hv⟩

/-- … in particular for a copy between files of the same version, when the source has no alien type -/
theorem deepCopy_same_version_compat_nil (hE : EnumKeysNodup S) (fuel : Nat) (h : Hdr) (kids : Items) (ver : Nat) (parent : PRef)
    (nid : Nat) (h' : Hdr) (k' : Items) (n' : Nat) (hf : kids.depth < fuel)
    (hc : deepCopy S fuel h kids ver parent nid = some (h', k', n')) (ht : TypesAgreeAll S ver h.ety.typ kids) (file : Nat) :
    (compatNode S file ver h' k').errs = [] ∧ (compatNode S file ver h' k').panic = false ∧ NodeValid S file ver h' k' :=
  deepCopy_compat_nil S hE fuel h kids ver parent nid h' k' n' hf hc
    (deepCopy_typesAgree S fuel h kids ver parent nid h' k' n' hf hc ht).2 file

end


/-! ### Goal C: `set_version` over histories -/

section
variable (S : Spec)

theorem fileModel_lt (w : World) (f k : Nat) (hk : fileModel w f = some k) : k < w.models.length := by
  unfold fileModel at hk
  exact List.mem_range.mp (List.mem_of_find?_eq_some hk)

/-- `set_version` succeeds exactly when the check lists nothing (and does not panic) -/
theorem opSetVersion_ok_iff (w : World) (f ver k : Nat) (hk : fileModel w f = some k) :
    (opSetVersion S w f ver).2 = .ok "" ↔
      (compatFile S (w.models[k]!) f ver).errs = [] ∧ (compatFile S (w.models[k]!) f ver).panic = false := by
  unfold opSetVersion
  simp only [hk]
  cases hp : (compatFile S (w.models[k]!) f ver).panic with
  | true => simp
  | false =>
    cases he : (compatFile S (w.models[k]!) f ver).errs with
    | nil => simp
    | cons e es => simp

/-- `set_version` is a core operation: the full history invariant survives it (target version among the versions `vOk`) -/
theorem opSetVersion_ginv (vOk : Nat) (w : World) (f ver : Nat) (hver : ver &&& vOk = ver) (h : GInv S vOk w) :
    GInv S vOk (opSetVersion S w f ver).1 := by
  obtain ⟨⟨h1, h2⟩, ⟨⟨h3, h4, h5, h6⟩, h7⟩, h8⟩ := h
  exact ⟨⟨opSetVersion_wf S w f ver h1, opSetVersion_ok S w f ver h2⟩,
    ⟨⟨opSetVersion_inv S vOk w f ver hver h3, opSetVersion_rinv S w f ver h4, opSetVersion_leaf S w f ver h5,
      opSetVersion_rootTy S w f ver h6⟩, opSetVersion_known S w f ver h7⟩, opSetVersion_one S w f ver h8⟩

/-- the same through the step function: `applyOpX … (.core (.setver f ver))` -/
theorem applyOpX_setver_ginv (V : Env) (rootAttrs : List (Nat × CDv)) (vOk : Nat) (w : World) (f ver : Nat)
    (hver : ver &&& vOk = ver) (h : GInv S vOk w) : GInv S vOk (applyOpX S V rootAttrs w (.core (.setver f ver))).1 :=
  opSetVersion_ginv S vOk w f ver hver h

/-- the invariant "every child is known to the type of its parent" (a part of `GInv`) closes the first gap -/
theorem knownKids_of_kidsKnown (file : Nat) (its : Items) : ∀ typ,
    (∀ c ∈ its.childElems, S.findSub typ c.1.name 0xFFFFFFFF ≠ none) → KidsKnown S its → KnownKids S file typ its := by
  induction its with
  | nil => intro _ _ _; trivial
  | text c r ih => intro typ h1 h2; exact ih typ h1 h2
  | elem h k r ihk ihr =>
    intro typ h1 h2
    refine ⟨ihr typ (fun c hc => h1 c (List.mem_cons_of_mem _ hc)) h2.2.2, fun _ => ⟨?_, ihk _ h2.1 h2.2.1⟩⟩
    have := h1 (h, k) (List.mem_cons_self ..)
    cases hf : S.findSub typ h.name 0xFFFFFFFF with
    | none => exact absurd hf this
    | some x => rfl

theorem knownKids_of_ginv (vOk : Nat) (w : World) (k : Nat) (hlt : k < w.models.length) (h : GInv S vOk w) (file : Nat) :
    KnownKids S file (w.models[k]!).rootHdr.ety.typ (w.models[k]!).rootKids := by
  have hm : w.models[k]! ∈ w.models := by
    rw [getElem!_pos w.models k hlt]; exact List.getElem_mem hlt
  have := h.2.1.2 _ hm
  exact knownKids_of_kidsKnown S file _ _ this.1 this.2.1

/-- what a successful `set_version` leaves behind: the tree is untouched, every file with that id has the new version -/
theorem opSetVersion_ok_files (w : World) (f ver k : Nat) (hk : fileModel w f = some k)
    (hok : (opSetVersion S w f ver).2 = .ok "") :
    ∀ fl ∈ ((opSetVersion S w f ver).1.models[k]!).files, fl.id = f → fl.version = ver := by
  rw [opSetVersion_ok_eq S w f ver k hk hok]
  unfold setModel
  rw [getElem!_set_self _ _ _ (fileModel_lt w f k hk)]
  intro fl hfl hid
  simp only [List.mem_map] at hfl
  obtain ⟨g, _, rfl⟩ := hfl
  split
  · rfl
  · rename_i hne
    split at hid
    · rename_i hg; exact absurd hg hne
    · exact absurd (by simpa using hid) hne

/-- **after a successful `set_version` the content of the model is valid for the new version** (as seen from that file) — under
the gap hypotheses on the (unchanged) tree -/
theorem opSetVersion_valid (w : World) (f ver k : Nat) (hk : fileModel w f = some k)
    (hok : (opSetVersion S w f ver).2 = .ok "")
    (hK : KnownKids S f (w.models[k]!).rootHdr.ety.typ (w.models[k]!).rootKids)
    (hA0 : ∀ a ∈ (w.models[k]!).rootHdr.attrs, (S.findAttr (w.models[k]!).rootHdr.ety.typ a.1).isSome = true)
    (hA : KnownAttrs S f (w.models[k]!).rootKids)
    (hT : TypesAgree S f ver (w.models[k]!).rootHdr.ety.typ (w.models[k]!).rootKids) :
    NodeValid S f ver ((opSetVersion S w f ver).1.models[k]!).rootHdr ((opSetVersion S w f ver).1.models[k]!).rootKids := by
  obtain ⟨e1, e2, _⟩ := opSetVersion_ok_content S w f ver k hk (fileModel_lt w f k hk) hok
  rw [e1, e2]
  have hc := ((opSetVersion_ok_iff S w f ver k hk).mp hok).1
  rw [compatFile_eq_node] at hc
  exact compat_nil_nodeValid S f ver _ _ hK hA0 hA hT hc

/-- … in a state with the history invariant (any state reachable by a guarded history of the larger alphabet, `runX_ginv`): the
invariant survives, and the content is valid for the new version as soon as every attribute is known and no type is alien -/
theorem opSetVersion_history (vOk : Nat) (w : World) (f ver k : Nat) (hg : GInv S vOk w) (hver : ver &&& vOk = ver)
    (hk : fileModel w f = some k) (hok : (opSetVersion S w f ver).2 = .ok "")
    (hA0 : ∀ a ∈ (w.models[k]!).rootHdr.attrs, (S.findAttr (w.models[k]!).rootHdr.ety.typ a.1).isSome = true)
    (hA : KnownAttrs S f (w.models[k]!).rootKids)
    (hT : TypesAgree S f ver (w.models[k]!).rootHdr.ety.typ (w.models[k]!).rootKids) :
    GInv S vOk (opSetVersion S w f ver).1 ∧
    NodeValid S f ver ((opSetVersion S w f ver).1.models[k]!).rootHdr ((opSetVersion S w f ver).1.models[k]!).rootKids ∧
    (∀ fl ∈ ((opSetVersion S w f ver).1.models[k]!).files, fl.id = f → fl.version = ver) :=
  ⟨opSetVersion_ginv S vOk w f ver hver hg,
    opSetVersion_valid S w f ver k hk hok (knownKids_of_ginv S vOk w k (fileModel_lt w f k hk) hg f) hA0 hA hT,
    opSetVersion_ok_files S w f ver k hk hok⟩

/-- and conversely: content that is valid for `ver` may be relabelled — `set_version` succeeds -/
theorem opSetVersion_of_valid (hE : EnumKeysNodup S) (w : World) (f ver k : Nat) (hk : fileModel w f = some k)
    (hv : NodeValid S f ver (w.models[k]!).rootHdr (w.models[k]!).rootKids) : (opSetVersion S w f ver).2 = .ok "" := by
  rw [opSetVersion_ok_iff S w f ver k hk, compatFile_eq_node]
  exact nodeValid_compat_nil S hE f ver _ _ hv

end


/-! ### every hypothesis is needed: `decide`-checked witnesses

`toySpec`: the root type 0 has the sub-elements `<A>` (name 101, type 1, version v0 = mask 1 only) and `<B>` (name 102, type 2,
versions v0 + v1 = mask 3); type 1 holds an enumeration value and knows the attribute 5 in v0; type 2 holds a string and knows
no attribute. -/

namespace CompatValidWitness

def hd (id name typ : Nat) (attrs : List (Nat × CDv)) : Hdr :=
  { id := id, name := name, ety := ⟨name - 100, typ⟩, parent := .elem 0, attrs := attrs, files := [], comment := none }

/-- `<A T="x">8</A><B/>`: valid in v0, and the check lists nothing; not valid in v1, and the check lists `<A>` -/
def okKids : Items := .elem (hd 1 101 1 [(5, .str [120])]) (.text (.enum 8) .nil) (.elem (hd 2 102 2 []) .nil .nil)

theorem ok_valid_v0 : ValidIn toySpec 0 1 0 okKids ∧ (compatKids toySpec 0 1 0 0 okKids).errs = [] := by decide
theorem ok_invalid_v1 : ¬ ValidIn toySpec 0 2 0 okKids ∧ (compatKids toySpec 0 2 0 0 okKids).errs = [.elem 1 1] := by decide
theorem toySpec_enumKeysNodup : EnumKeysNodup toySpec := by
  intro cd
  by_cases h : cd = 0
  · subst h; simp [toySpec, CSpec.KeysNodup]
  · simp [toySpec, h, CSpec.KeysNodup]

/-- gap 1 (finding c17: a child the target type does not know is skipped): `<X/>` (name 150) below the root.  Everything else
holds — the attributes are known, no type is alien — and the check lists nothing, but the content is not valid. -/
def unknownChild : Items := .elem (hd 1 150 2 []) .nil .nil

theorem gap_unknown_child :
    (compatKids toySpec 0 1 0 0 unknownChild).errs = [] ∧ ¬ ValidIn toySpec 0 1 0 unknownChild ∧
    ¬ KnownKids toySpec 0 0 unknownChild ∧ KnownAttrs toySpec 0 unknownChild ∧ TypesAgree toySpec 0 1 0 unknownChild := by
  decide

/-- gap 2 (finding c17: an attribute the target type does not know is skipped): `<B Q="x"/>` (attribute 77) -/
def unknownAttr : Items := .elem (hd 2 102 2 [(77, .str [120])]) .nil .nil

theorem gap_unknown_attr :
    (compatKids toySpec 0 1 0 0 unknownAttr).errs = [] ∧ ¬ ValidIn toySpec 0 1 0 unknownAttr ∧
    KnownKids toySpec 0 0 unknownAttr ∧ ¬ KnownAttrs toySpec 0 unknownAttr ∧ TypesAgree toySpec 0 1 0 unknownAttr := by
  decide

/-- gap 3 (alien type): a `<B>` whose recorded type is 1 although the root type says 2.  The check recomputes the type (2) and
finds nothing to list; with the type as recorded the content is not valid (and stays recorded after `set_version`). -/
def alienType : Items := .elem { hd 2 102 2 [] with ety := ⟨2, 1⟩ } .nil .nil

theorem gap_alien_type :
    (compatKids toySpec 0 1 0 0 alienType).errs = [] ∧ ¬ ValidIn toySpec 0 1 0 alienType ∧
    KnownKids toySpec 0 0 alienType ∧ KnownAttrs toySpec 0 alienType ∧ ¬ TypesAgree toySpec 0 1 0 alienType := by
  decide

/-- direction (1) needs `EnumKeysNodup`: in a specification whose enumeration lists the item 7 twice (v0, then v1) the value 7
is valid in v1 (`valueCompat` looks at all entries) but the check reads the first entry only and lists it -/
def dupSpec : Spec :=
  { toySpec with verInfo := fun _ => 3, cspec := fun i => if i = 0 then .enum [(7, 1), (7, 2)] else .string false none }

def dupKids : Items := .elem (hd 1 101 1 []) (.text (.enum 7) .nil) .nil

theorem dup_needed :
    ValidIn dupSpec 0 2 0 dupKids ∧ (compatKids dupSpec 0 2 0 0 dupKids).errs = [.elem 1 1] := by decide

theorem dupSpec_not_nodup : ¬ EnumKeysNodup dupSpec := by
  intro h
  have := h 0
  simp [dupSpec, CSpec.KeysNodup] at this

/-- what neither the check nor `ValidIn` looks at (findings c17: order, multiplicity, kind / pattern of a value): `<B/><A/>` in
the wrong order, `<A/><A/>` although `<A>` may occur once, an integer where a string is expected — valid, nothing listed -/
def wrongOrder : Items := .elem (hd 2 102 2 []) .nil (.elem (hd 1 101 1 []) .nil .nil)
def twice : Items := .elem (hd 1 101 1 []) .nil (.elem (hd 3 101 1 []) .nil .nil)
def wrongKind : Items := .elem (hd 2 102 2 []) (.text (.uint 5) .nil) .nil

theorem gap_order : ValidIn toySpec 0 1 0 wrongOrder ∧ (compatKids toySpec 0 1 0 0 wrongOrder).errs = [] := by decide
theorem gap_multiplicity : ValidIn toySpec 0 1 0 twice ∧ (compatKids toySpec 0 1 0 0 twice).errs = [] ∧
    toySpec.subMult 0 [0] = some .zeroOrOne := by decide

def strictEnv : Env :=
  { validate := fun _ _ => false, enumText := fun _ => [], enumOf := fun _ => none, elemText := fun _ => [],
    attrText := fun _ => [], nmIndex := 900, nmDefinitionRef := 901, latest := 1, nmDest := 998 }

/-- the strict value check separates: `ValidInStrict` ⇒ `ValidIn` (`validInStrict_validIn`), not conversely -/
theorem gap_value_kind : ValidIn toySpec 0 1 0 wrongKind ∧ (compatKids toySpec 0 1 0 0 wrongKind).errs = [] ∧
    ¬ ValidInStrict toySpec strictEnv 0 1 0 wrongKind := by decide

/-- a pattern: the type 2 of `<B>` holds a string with a pattern that nothing matches -/
def patSpec : Spec := { toySpec with cspec := fun i => if i = 0 then .enum [(7, 1), (8, 3)] else .pattern 0 none }
def patKids : Items := .elem (hd 2 102 2 []) (.text (.str [120]) .nil) .nil

theorem gap_pattern : ValidIn patSpec 0 1 0 patKids ∧ (compatKids patSpec 0 1 0 0 patKids).errs = [] ∧
    ¬ ValidInStrict patSpec strictEnv 0 1 0 patKids := by decide

/-- C13: `AllCompat` alone does not make the check silent — an `<A>` recorded with the (alien) string type 2 holding a string
is `AllCompat` in v0, the check recomputes the enumeration type 1 and lists the value -/
def alienCopy : Hdr × Items := ({ hd 0 100 0 [] with parent := .none }, .elem { hd 1 101 1 [] with ety := ⟨1, 2⟩ } (.text (.str [120]) .nil) .nil)

theorem copy_alien_needed :
    allCompatB toySpec 1 alienCopy.1 alienCopy.2 = true ∧
    (compatNode toySpec 0 1 alienCopy.1 alienCopy.2).errs = [.elem 1 maxMask] ∧
    ¬ TypesAgreeAll toySpec 1 alienCopy.1.ety.typ alienCopy.2 := by decide

end CompatValidWitness

end AV.W
