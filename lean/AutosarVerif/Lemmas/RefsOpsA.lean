/-
C05, the reference-map invariant, operation by operation, part A: the operations that change the set of content items
(create, named create, remove, insert / remove a text item) keep `WRInv`.
-/
import AutosarVerif.Lemmas.RefsInv

namespace AV.W
open Items

section
variable (S : Spec) (V : Env) (vOk : Nat)

/-! ### small facts about `refOf` -/

theorem refOf_not_ref (h : Hdr) (k : Items) (hr : S.isRef h.ety.typ = false) : refOf S h k = [] := by
  unfold refOf
  rw [hr]
  rfl

theorem refOf_no_cdata (h : Hdr) (k : Items) (hc : charData S h k = none) : refOf S h k = [] := by
  unfold refOf
  rw [hc]
  split <;> rfl

theorem not_ref_of_mode (hR : RefWF S) (t : Nat) (hm : S.mode t ≠ .characters) : S.isRef t = false := by
  cases hx : S.isRef t with
  | false => rfl
  | true => exact absurd (hR.ref_chars t hx) hm

theorem charData_elem (h sh : Hdr) (sk r : Items) : charData S h (.elem sh sk r) = none := rfl

theorem charData_nil (h : Hdr) : charData S h .nil = none := rfl

/-! ### one node is edited, the map stays -/

/-- an edit of node `x` that keeps (up to order) the registrations at and below `x`, with the same map -/
theorem rexact_modify_perm (m m' : Model) (x : Nat) (f : Hdr → Items → Hdr × Items)
    (hn : m.rootItems.ids.Nodup) (hx : x ∈ m.rootItems.ids) (h : RefsExact S m.refs m.rootItems)
    (hroot : m'.rootItems = m.rootItems.modify x f) (hrefs : m'.refs = m.refs)
    (hf : ∀ h k, Occ h k m.rootItems → h.id = x → (f h k).1.id = h.id ∧
      (refOf S (f h k).1 (f h k).2 ++ refEntries S (f h k).2).Perm (refOf S h k ++ refEntries S k)) :
    RefsExact S m'.refs m'.rootItems := by
  rw [hroot, hrefs]
  refine refsExact_perm S _ _ _ h ?_
  have := refEntries_modify_located S x f [] [] m.rootItems
    (fun h0 k0 ho he => ⟨(hf h0 k0 ho he).1, by rw [List.append_nil, List.append_nil]; exact (hf h0 k0 ho he).2⟩) hn hx
  rw [List.append_nil, List.append_nil] at this
  exact this

/-! ### insert / remove a text item -/

theorem opInsText_rinv (hR : RefWF S) (w : World) (x pos : Nat) (s : Bytes) (hw : WInv S vOk w) (hr : WRInv S w) :
    WRInv S (opInsText S w x pos s).1 := by
  unfold opInsText
  split
  · exact hr
  · rename_i k c hloc
    obtain ⟨m, _, hm2, hmem, hc⟩ := locate_chain w x k c hloc
    have hm := hw m hmem
    dsimp only
    split
    · exact hr
    · rename_i hmode
      split
      · exact hr
      · refine wrinv_update S w _ k _ hr ?_ rfl
        rw [hm2]
        have hmixed : S.mode (lastOf c).1.ety.typ = .mixed := by
          cases hmd : S.mode (lastOf c).1.ety.typ <;> simp_all
        refine rexact_modify_perm S m _ x _ hm.ids (chain_mem_ids x _ c hc) (hr m hmem)
          (rootItems_setRoot_modify m x _) (setRoot_modify_fields m x _).2.1 ?_
        intro h k0 ho he
        obtain ⟨e1, _⟩ := node_eq S vOk hm x c hc h k0 ho he
        have hnr : S.isRef h.ety.typ = false :=
          not_ref_of_mode S hR _ (by rw [e1, hmixed]; exact fun hx => by cases hx)
        refine ⟨rfl, ?_⟩
        rw [refOf_not_ref S h _ hnr, refOf_not_ref S h _ hnr, refEntries_insertText]

theorem opRmText_rinv (hR : RefWF S) (w : World) (x pos : Nat) (hw : WInv S vOk w) (hr : WRInv S w) :
    WRInv S (opRmText S w x pos).1 := by
  unfold opRmText
  split
  · exact hr
  · rename_i k c hloc
    obtain ⟨m, _, hm2, hmem, hc⟩ := locate_chain w x k c hloc
    have hm := hw m hmem
    dsimp only
    split
    · exact hr
    · rename_i hmode
      split
      · rename_i htext
        refine wrinv_update S w _ k _ hr ?_ rfl
        rw [hm2]
        have hmixed : S.mode (lastOf c).1.ety.typ = .mixed := by
          cases hmd : S.mode (lastOf c).1.ety.typ <;> simp_all
        refine rexact_modify_perm S m _ x _ hm.ids (chain_mem_ids x _ c hc) (hr m hmem)
          (rootItems_setRoot_modify m x _) (setRoot_modify_fields m x _).2.1 ?_
        intro h k0 ho he
        obtain ⟨e1, e2⟩ := node_eq S vOk hm x c hc h k0 ho he
        have hnr : S.isRef h.ety.typ = false :=
          not_ref_of_mode S hR _ (by rw [e1, hmixed]; exact fun hx => by cases hx)
        refine ⟨rfl, ?_⟩
        rw [refOf_not_ref S h _ hnr, refOf_not_ref S h _ hnr, refEntries_removeAt_text S k0 pos (e2 ▸ htext)]
      · exact hr

/-! ### create -/

/-- the element that receives a new sub-element is not a reference: `calc_element_insert_range` refuses CHARACTERS types -/
theorem not_ref_of_insertRange (hR : RefWF S) (h : Hdr) (k : Items) (name ver : Nat) (r : Nat × Nat)
    (hr : insertRange S h k name ver = some r) : S.isRef h.ety.typ = false := by
  apply not_ref_of_mode S hR
  intro hm
  unfold insertRange at hr
  rw [if_pos hm] at hr
  cases hr

/-- a new element whose own registration and whose content's registrations are empty goes into a non-reference parent -/
theorem insert_new_perm (h nh : Hdr) (nk k0 : Items) (pos : Nat) (hnr : S.isRef h.ety.typ = false)
    (hnew : refEntries S (.elem nh nk .nil) = []) :
    (refOf S h (k0.insertAt (fun r => .elem nh nk r) pos) ++ refEntries S (k0.insertAt (fun r => .elem nh nk r) pos)).Perm
      (refOf S h k0 ++ refEntries S k0) := by
  rw [refOf_not_ref S h _ hnr, refOf_not_ref S h _ hnr, List.nil_append, List.nil_append]
  have := refEntries_insertAt S nh nk k0 pos
  rw [hnew, List.nil_append] at this
  exact this

theorem opCreate_rinv (hH : IdxHyp S V vOk) (hR : RefWF S) (w : World) (p name : Nat) (pos? : Option Nat)
    (hw : WInv S vOk w) (hr : WRInv S w) : WRInv S (opCreate S V w p name pos?).1 := by
  have _ := hH
  unfold opCreate
  split
  · exact hr
  · rename_i k c hloc
    obtain ⟨m, _, hm2, hmem, hc⟩ := locate_chain w p k c hloc
    have hm := hw m hmem
    dsimp only
    rw [hm2]
    split
    · exact hr
    · rename_i ver hver
      split
      · exact hr
      · rename_i lo hi hrange
        split
        · exact hr
        · split
          · exact hr
          · rename_i ety _ hfs
            split
            · exact hr
            · refine wrinv_update S w _ k _ hr ?_ rfl
              refine rexact_modify_perm S m _ p _ hm.ids (chain_mem_ids p _ c hc) (hr m hmem)
                (rootItems_setRoot_modify m p _) (setRoot_modify_fields m p _).2.1 ?_
              intro h k0 ho he
              obtain ⟨e1, e2⟩ := node_eq S vOk hm p c hc h k0 ho he
              have hnr : S.isRef h.ety.typ = false :=
                not_ref_of_insertRange S hR h k0 name ver (lo, hi) (by rw [e1, e2]; exact hrange)
              refine ⟨rfl, insert_new_perm S h _ .nil k0 _ hnr ?_⟩
              simp only [refEntries, refOf_no_cdata S _ .nil (charData_nil S _), List.append_nil]

/-! ### named create -/

/-- a new named element with its SHORT-NAME contributes no registration -/
theorem refEntries_new_named (nh sh : Hdr) (item : Bytes) (hsn : S.isRef sh.ety.typ = false) :
    refEntries S (.elem nh (.elem sh (.text (.str item) .nil) .nil) .nil) = [] := by
  simp only [refEntries, refOf_no_cdata S nh _ (charData_elem S nh sh _ .nil), refOf_not_ref S sh _ hsn, List.append_nil]

theorem opNamed_rinv (hH : IdxHyp S V vOk) (hR : RefWF S) (w : World) (p name : Nat) (item : Bytes) (pos? : Option Nat)
    (hw : WInv S vOk w) (hr : WRInv S w) : WRInv S (opNamed S V w p name item pos?).1 := by
  unfold opNamed
  split
  · exact hr
  · rename_i k c hloc
    obtain ⟨m, _, hm2, hmem, hc⟩ := locate_chain w p k c hloc
    have hm := hw m hmem
    dsimp only
    rw [hm2]
    split
    · exact hr
    · rename_i ver hver
      split
      · exact hr
      · rename_i lo hi hrange
        split
        · exact hr
        · split
          · exact hr
          · split
            · exact hr
            · rename_i ety _ hfs
              split
              · exact hr
              · rename_i hnin
                have hin : S.isNamedIn ety.typ ver = true := by
                  cases hx : S.isNamedIn ety.typ ver with
                  | true => rfl
                  | false => exact absurd hx (by simpa using hnin)
                have hvok := minVersion_ok S V vOk hm hH.latest c ver hver
                obtain ⟨d, hsn, hd, hnamed, _, _, hunnamed, sp, hsp, _⟩ := named_facts S V vOk hH ety.typ ver hin hvok
                have hsnIn : S.isNamedIn (S.ety d).typ ver = false := by
                  have : S.isNamed (S.defType d) = false := hunnamed
                  unfold Spec.isNamed at this
                  unfold Spec.isNamedIn
                  show (match S.shortNameMask (S.defType d) with | some m => (m &&& ver) != 0 | none => false) = false
                  cases hmk : S.shortNameMask (S.defType d) with
                  | none => rfl
                  | some _ => rw [hmk] at this; simp at this
                have hspec : S.chardataSpec (S.ety d).typ = some sp := hsp
                simp only [hsn, hsnIn, hspec, Bool.false_eq_true, if_false]
                split
                · exact hr
                · split
                  · exact hr
                  · refine wrinv_update S w _ k _ hr ?_ rfl
                    refine rexact_modify_perm S m _ p _ hm.ids (chain_mem_ids p _ c hc) (hr m hmem)
                      (rootItems_setRoot_modify m p _) (setRoot_modify_fields m p _).2.1 ?_
                    intro h k0 ho he
                    obtain ⟨e1, e2⟩ := node_eq S vOk hm p c hc h k0 ho he
                    have hnr : S.isRef h.ety.typ = false :=
                      not_ref_of_insertRange S hR h k0 name ver (lo, hi) (by rw [e1, e2]; exact hrange)
                    refine ⟨rfl, insert_new_perm S h _ _ k0 _ hnr ?_⟩
                    exact refEntries_new_named S _ _ item (hR.sn_not_ref ety.typ d hnamed hd)

/-! ### remove -/

/-- a reference element has no sub-elements.  NOT part of `WInv`; every core operation keeps it (see the end of the file) -/
def RefLeaf (its : Items) : Prop := ∀ h k, Occ h k its → S.isRef h.ety.typ = true → k.childElems = []

def WRLeaf (w : World) : Prop := ∀ m ∈ w.models, RefLeaf S m.rootItems

theorem count_cons_pair (e : Bytes × Nat) (A : List (Bytes × Nat)) (p : Bytes) (id : Nat) :
    (e :: A).count (p, id) = A.count (p, id) + (if p = e.1 ∧ id = e.2 then 1 else 0) := by
  rw [List.count_cons]
  congr 1
  by_cases hx : p = e.1 ∧ id = e.2
  · obtain ⟨rfl, rfl⟩ := hx
    simp
  · rw [if_neg hx]
    have : e ≠ (p, id) := fun he => hx (by subst he; exact ⟨rfl, rfl⟩)
    simp [this]

/-- un-registering a batch of registrations that are all in the map (with their multiplicities) -/
theorem refsRemoveAll_spec (A : List (Bytes × Nat)) : ∀ (rs : List (Bytes × List Nat)), keysNodup rs → refsNonempty rs →
    (∀ p id, A.count (p, id) ≤ (refsGet rs p).count id) →
    keysNodup (refsRemoveAll rs A) ∧ refsNonempty (refsRemoveAll rs A) ∧
      ∀ p id, (refsGet (refsRemoveAll rs A) p).count id + A.count (p, id) = (refsGet rs p).count id := by
  induction A with
  | nil =>
    intro rs hn hne _
    exact ⟨hn, hne, fun p id => by simp [refsRemoveAll]⟩
  | cons e A ih =>
    intro rs hn hne hle
    have hn1 := refsRemove_keysNodup rs e.1 e.2 hn
    have hne1 := refsRemove_nonempty rs e.1 e.2 hn hne
    have hle1 : ∀ p id, A.count (p, id) ≤ (refsGet (refsRemove rs e.1 e.2) p).count id := by
      intro p id
      have h1 := hle p id
      rw [count_cons_pair] at h1
      rw [refsRemove_count rs e.1 p e.2 id hn]
      omega
    obtain ⟨a, b, c⟩ := ih (refsRemove rs e.1 e.2) hn1 hne1 hle1
    have hfold : refsRemoveAll rs (e :: A) = refsRemoveAll (refsRemove rs e.1 e.2) A := rfl
    rw [hfold]
    refine ⟨a, b, fun p id => ?_⟩
    have h1 := hle p id
    have h2 := c p id
    rw [count_cons_pair] at h1 ⊢
    rw [refsRemove_count rs e.1 p e.2 id hn] at h2
    omega

theorem childElems_of_itemAt (k : Items) (pos : Nat) (ch : Hdr) (ck : Items) (h : itemAt k pos = .elem ch ck .nil) :
    k.childElems ≠ [] := by
  induction k generalizing pos with
  | nil => simp [itemAt] at h
  | elem hd kk r _ => simp [Items.childElems]
  | text c r ih =>
    cases pos with
    | zero => simp [itemAt] at h
    | succ q =>
      simp only [itemAt] at h
      simp only [Items.childElems]
      exact ih q h

/-- `remove_sub_element`, given that the element the child is removed from is not a reference element -/
theorem opRemove_rinv_of (w : World) (p cid : Nat) (hw : WInv S vOk w) (hr : WRInv S w)
    (hpar : ∀ k c, locate w p = some (k, c) → (lastOf c).2.child cid ≠ none → S.isRef (lastOf c).1.ety.typ = false) :
    WRInv S (opRemove S w p cid).1 := by
  unfold opRemove
  split
  · exact hr
  · rename_i k c hloc
    obtain ⟨m, _, hm2, hmem, hc⟩ := locate_chain w p k c hloc
    have hm := hw m hmem
    dsimp only
    rw [hm2]
    split
    · rename_i pos ch ck hpos hchild
      split
      · exact hr
      · have hnr0 := hpar k c hloc (by rw [hchild]; exact fun hx => by cases hx)
        obtain ⟨_, hitem, _⟩ := child_itemAt cid (lastOf c).2 0 pos ch ck hpos hchild
        rw [Nat.sub_zero] at hitem
        let f : Hdr → Items → Hdr × Items := fun h0 k0 => (h0, k0.removeAt pos)
        have htree : (refEntries S (m.rootItems.modify p f) ++ refEntries S (.elem ch ck .nil)).Perm
            (refEntries S m.rootItems ++ []) := by
          refine refEntries_modify_located S p f _ [] m.rootItems ?_ hm.ids (chain_mem_ids p _ c hc)
          intro h k0 ho he
          obtain ⟨e1, e2⟩ := node_eq S vOk hm p c hc h k0 ho he
          have hnr : S.isRef h.ety.typ = false := e1 ▸ hnr0
          have hit : itemAt k0 pos = .elem ch ck .nil := e2 ▸ hitem
          refine ⟨rfl, ?_⟩
          show ((refOf S h (k0.removeAt pos) ++ refEntries S (k0.removeAt pos)) ++ refEntries S (.elem ch ck .nil)).Perm _
          rw [refOf_not_ref S h _ hnr, refOf_not_ref S h _ hnr, List.nil_append, List.nil_append, List.append_nil]
          have := refEntries_removeAt S k0 pos
          rw [hit] at this
          exact (this.trans List.perm_append_comm).symm
        have hex := hr m hmem
        have hle : ∀ q id, (refEntries S (.elem ch ck .nil)).count (q, id) ≤ (refsGet m.refs q).count id := by
          intro q id
          have h1 := htree.count_eq (q, id)
          rw [List.count_append, List.append_nil] at h1
          rw [hex.2.2 q id]
          omega
        obtain ⟨a, b, cnt⟩ := refsRemoveAll_spec (refEntries S (.elem ch ck .nil)) m.refs hex.1 hex.2.1 hle
        have hrefs := removeInternal_refs S (ck.size + 2) ch ck (pathOfChain S c) m.index m.refs (by omega)
        refine wrinv_update S w _ k _ hr ?_ rfl
        show RefsExact S (removeInternal S (ck.size + 2) ch ck (pathOfChain S c) m.index m.refs).2.1
          (m.setRoot (m.rootItems.modify p f)).rootItems
        rw [rootItems_setRoot_modify m p f, hrefs]
        refine refsExact_transfer S m.refs _ m.rootItems _ (refEntries S (.elem ch ck .nil)) [] hex a b htree ?_
        intro q id
        rw [List.count_nil, Nat.add_zero]
        exact cnt q id
    · exact hr

theorem opRemove_rinv (w : World) (p cid : Nat) (hw : WInv S vOk w) (hr : WRInv S w) (hl : WRLeaf S w) :
    WRInv S (opRemove S w p cid).1 := by
  refine opRemove_rinv_of S vOk w p cid hw hr ?_
  intro k c hloc hchild
  obtain ⟨m, _, _, hmem, hc⟩ := locate_chain w p k c hloc
  obtain ⟨ho, _⟩ := chain_occ p m.rootItems c hc
  cases hx : S.isRef (lastOf c).1.ety.typ with
  | false => rfl
  | true =>
    exfalso
    have hk := hl m hmem _ _ ho hx
    cases hch : (lastOf c).2.child cid with
    | none => exact hchild hch
    | some x =>
      clear hchild ho
      revert hk hch
      generalize (lastOf c).2 = kk
      intro hk hch
      induction kk with
      | nil => simp [Items.child] at hch
      | elem hd k1 r _ _ => simp [Items.childElems] at hk
      | text _ r ih => exact ih (by simpa [Items.childElems] using hk) (by simpa [Items.child] using hch)

/-! ### the extra invariant `WRLeaf` (a reference element has no sub-elements) is kept by these operations

How every core operation keeps it: an element never changes its type; sub-elements are added by create / named create only,
and `calc_element_insert_range` refuses a CHARACTERS parent (`RefWF.ref_chars`); the new element is empty or (named create)
of a named type, which is a SEQUENCE (`named_facts`), with a SHORT-NAME that holds one text.  All other operations leave
the set of sub-elements of every element as it is or make it smaller. -/

theorem refLeaf_nil : RefLeaf S .nil := fun _ _ ho => ho.elim

theorem refLeaf_elem (hd : Hdr) (k r : Items) :
    RefLeaf S (.elem hd k r) ↔ (S.isRef hd.ety.typ = true → k.childElems = []) ∧ RefLeaf S k ∧ RefLeaf S r := by
  constructor
  · intro h
    exact ⟨fun hx => h hd k (Or.inl ⟨rfl, rfl⟩) hx, fun h0 k0 ho => h h0 k0 (Or.inr (Or.inl ho)),
      fun h0 k0 ho => h h0 k0 (Or.inr (Or.inr ho))⟩
  · rintro ⟨a, b, c⟩ h0 k0 ho hx
    rcases ho with ⟨rfl, rfl⟩ | ho | ho
    · exact a hx
    · exact b h0 k0 ho hx
    · exact c h0 k0 ho hx

theorem refLeaf_text (c : CDv) (r : Items) : RefLeaf S (.text c r) ↔ RefLeaf S r := Iff.rfl

theorem ids_of_childElems_nil (k : Items) (h : k.childElems = []) : k.ids = [] := by
  induction k with
  | nil => rfl
  | text c r ih => exact ih (by simpa [Items.childElems] using h)
  | elem hd kk r _ _ => simp [Items.childElems] at h

theorem modify_of_childElems_nil (t : Nat) (f : Hdr → Items → Hdr × Items) (k : Items) (h : k.childElems = []) :
    k.modify t f = k :=
  modify_not_mem t f k (by rw [ids_of_childElems_nil k h]; exact List.not_mem_nil)

/-- an edit of node `t` that keeps the property at `t` and in the new content of `t` -/
theorem refLeaf_modify (t : Nat) (f : Hdr → Items → Hdr × Items) (its : Items)
    (hf : ∀ h k, Occ h k its → h.id = t → (S.isRef h.ety.typ = true → k.childElems = []) → RefLeaf S k →
      (S.isRef (f h k).1.ety.typ = true → (f h k).2.childElems = []) ∧ RefLeaf S (f h k).2)
    (hl : RefLeaf S its) : RefLeaf S (its.modify t f) := by
  induction its with
  | nil => exact hl
  | text c r ih =>
    simp only [Items.modify]
    exact (refLeaf_text S c _).mpr (ih hf ((refLeaf_text S c r).mp hl))
  | elem hd k r ihk ihr =>
    obtain ⟨a, b, c⟩ := (refLeaf_elem S hd k r).mp hl
    have ihk' := ihk (fun h0 k0 ho => hf h0 k0 (Or.inr (Or.inl ho))) b
    have ihr' := ihr (fun h0 k0 ho => hf h0 k0 (Or.inr (Or.inr ho))) c
    simp only [Items.modify]
    split
    · rename_i heq
      obtain ⟨h1, h2⟩ := hf hd k (Or.inl ⟨rfl, rfl⟩) heq a b
      exact (refLeaf_elem S _ _ _).mpr ⟨h1, h2, ihr'⟩
    · refine (refLeaf_elem S _ _ _).mpr ⟨fun hx => ?_, ihk', ihr'⟩
      rw [modify_of_childElems_nil t f k (a hx)]
      exact a hx

theorem refLeaf_insertAt (nh : Hdr) (nk : Items) (k : Items) (pos : Nat) (hn : RefLeaf S (.elem nh nk .nil))
    (hk : RefLeaf S k) : RefLeaf S (k.insertAt (fun r => .elem nh nk r) pos) := by
  obtain ⟨n1, n2, _⟩ := (refLeaf_elem S nh nk .nil).mp hn
  induction k generalizing pos with
  | nil => cases pos <;> exact hn
  | text c r ih =>
    cases pos with
    | zero => exact (refLeaf_elem S _ _ _).mpr ⟨n1, n2, hk⟩
    | succ q => exact (refLeaf_text S c _).mpr (ih q ((refLeaf_text S c r).mp hk))
  | elem h kk r _ ih =>
    cases pos with
    | zero => exact (refLeaf_elem S _ _ _).mpr ⟨n1, n2, hk⟩
    | succ q =>
      obtain ⟨a, b, c⟩ := (refLeaf_elem S h kk r).mp hk
      exact (refLeaf_elem S _ _ _).mpr ⟨a, b, ih q c⟩

theorem refLeaf_insertText (cd : CDv) (k : Items) (pos : Nat) (hk : RefLeaf S k) :
    RefLeaf S (k.insertAt (fun r => .text cd r) pos) := by
  induction k generalizing pos with
  | nil => cases pos <;> exact (refLeaf_text S cd _).mpr hk
  | text c r ih =>
    cases pos with
    | zero => exact (refLeaf_text S cd _).mpr hk
    | succ q => exact (refLeaf_text S c _).mpr (ih q ((refLeaf_text S c r).mp hk))
  | elem h kk r _ ih =>
    cases pos with
    | zero => exact (refLeaf_text S cd _).mpr hk
    | succ q =>
      obtain ⟨a, b, c⟩ := (refLeaf_elem S h kk r).mp hk
      exact (refLeaf_elem S _ _ _).mpr ⟨a, b, ih q c⟩

theorem refLeaf_removeAt (k : Items) (pos : Nat) (hk : RefLeaf S k) : RefLeaf S (k.removeAt pos) := by
  induction k generalizing pos with
  | nil => exact hk
  | text c r ih =>
    cases pos with
    | zero => exact (refLeaf_text S c r).mp hk
    | succ q => exact (refLeaf_text S c _).mpr (ih q ((refLeaf_text S c r).mp hk))
  | elem h kk r _ ih =>
    obtain ⟨a, b, c⟩ := (refLeaf_elem S h kk r).mp hk
    cases pos with
    | zero => exact c
    | succ q => exact (refLeaf_elem S _ _ _).mpr ⟨a, b, ih q c⟩

theorem childElems_insertText (cd : CDv) (k : Items) (pos : Nat) :
    (k.insertAt (fun r => .text cd r) pos).childElems = k.childElems := by
  induction k generalizing pos with
  | nil => cases pos <;> rfl
  | text c r ih =>
    cases pos with
    | zero => rfl
    | succ q => simp only [Items.insertAt, Items.childElems]; exact ih q
  | elem h kk r _ ih =>
    cases pos with
    | zero => rfl
    | succ q => simp only [Items.insertAt, Items.childElems, ih q]

theorem childElems_removeAt_nil (k : Items) (pos : Nat) (h : k.childElems = []) : (k.removeAt pos).childElems = [] := by
  induction k generalizing pos with
  | nil => rfl
  | text c r ih =>
    simp only [Items.childElems] at h
    cases pos with
    | zero => exact h
    | succ q => simp only [Items.removeAt, Items.childElems]; exact ih q h
  | elem hd kk r _ _ => simp [Items.childElems] at h

theorem wrleaf_update (w w' : World) (k : Nat) (m' : Model) (hl : WRLeaf S w) (hm : RefLeaf S m'.rootItems)
    (hmodels : w'.models = w.models.set k m') : WRLeaf S w' := by
  intro m hmem
  rw [hmodels] at hmem
  rcases List.mem_or_eq_of_mem_set hmem with h | h
  · exact hl m h
  · rw [h]; exact hm

theorem opInsText_leaf (w : World) (x pos : Nat) (s : Bytes) (hl : WRLeaf S w) : WRLeaf S (opInsText S w x pos s).1 := by
  unfold opInsText
  split
  · exact hl
  · rename_i k c hloc
    obtain ⟨m, _, hm2, hmem, _⟩ := locate_chain w x k c hloc
    dsimp only
    split
    · exact hl
    · split
      · exact hl
      · refine wrleaf_update S w _ k _ hl ?_ rfl
        rw [hm2, rootItems_setRoot_modify m x _]
        refine refLeaf_modify S x _ _ ?_ (hl m hmem)
        intro h k0 _ _ a b
        exact ⟨fun hx => (childElems_insertText _ k0 pos).trans (a hx), refLeaf_insertText S _ k0 pos b⟩

theorem opRmText_leaf (w : World) (x pos : Nat) (hl : WRLeaf S w) : WRLeaf S (opRmText S w x pos).1 := by
  unfold opRmText
  split
  · exact hl
  · rename_i k c hloc
    obtain ⟨m, _, hm2, hmem, _⟩ := locate_chain w x k c hloc
    dsimp only
    split
    · exact hl
    · split
      · refine wrleaf_update S w _ k _ hl ?_ rfl
        rw [hm2, rootItems_setRoot_modify m x _]
        refine refLeaf_modify S x _ _ ?_ (hl m hmem)
        intro h k0 _ _ a b
        exact ⟨fun hx => childElems_removeAt_nil k0 pos (a hx), refLeaf_removeAt S k0 pos b⟩
      · exact hl

theorem opRemove_leaf (w : World) (p cid : Nat) (hl : WRLeaf S w) : WRLeaf S (opRemove S w p cid).1 := by
  unfold opRemove
  split
  · exact hl
  · rename_i k c hloc
    obtain ⟨m, _, hm2, hmem, _⟩ := locate_chain w p k c hloc
    dsimp only
    rw [hm2]
    split
    · rename_i pos ch ck _ _
      split
      · exact hl
      · refine wrleaf_update S w _ k _ hl ?_ rfl
        show RefLeaf S (m.setRoot (m.rootItems.modify p fun h0 k0 => (h0, k0.removeAt pos))).rootItems
        rw [rootItems_setRoot_modify m p _]
        refine refLeaf_modify S p _ _ ?_ (hl m hmem)
        intro h k0 _ _ a b
        exact ⟨fun hx => childElems_removeAt_nil k0 pos (a hx), refLeaf_removeAt S k0 pos b⟩
    · exact hl

theorem opCreate_leaf (hR : RefWF S) (w : World) (p name : Nat) (pos? : Option Nat)
    (hw : WInv S vOk w) (hl : WRLeaf S w) : WRLeaf S (opCreate S V w p name pos?).1 := by
  unfold opCreate
  split
  · exact hl
  · rename_i k c hloc
    obtain ⟨m, _, hm2, hmem, hc⟩ := locate_chain w p k c hloc
    have hm := hw m hmem
    dsimp only
    rw [hm2]
    split
    · exact hl
    · rename_i ver hver
      split
      · exact hl
      · rename_i lo hi hrange
        split
        · exact hl
        · split
          · exact hl
          · split
            · exact hl
            · refine wrleaf_update S w _ k _ hl ?_ rfl
              show RefLeaf S (m.setRoot _).rootItems
              rw [rootItems_setRoot_modify m p _]
              refine refLeaf_modify S p _ _ ?_ (hl m hmem)
              intro h k0 ho he _ b
              obtain ⟨e1, e2⟩ := node_eq S vOk hm p c hc h k0 ho he
              have hnr : S.isRef h.ety.typ = false :=
                not_ref_of_insertRange S hR h k0 name ver (lo, hi) (by rw [e1, e2]; exact hrange)
              refine ⟨fun hx => ?_, refLeaf_insertAt S _ .nil k0 _ ?_ b⟩
              · rw [hnr] at hx; cases hx
              · exact (refLeaf_elem S _ _ _).mpr ⟨fun _ => rfl, refLeaf_nil S, refLeaf_nil S⟩

theorem opNamed_leaf (hH : IdxHyp S V vOk) (hR : RefWF S) (w : World) (p name : Nat) (item : Bytes) (pos? : Option Nat)
    (hw : WInv S vOk w) (hl : WRLeaf S w) : WRLeaf S (opNamed S V w p name item pos?).1 := by
  unfold opNamed
  split
  · exact hl
  · rename_i k c hloc
    obtain ⟨m, _, hm2, hmem, hc⟩ := locate_chain w p k c hloc
    have hm := hw m hmem
    dsimp only
    rw [hm2]
    split
    · exact hl
    · rename_i ver hver
      split
      · exact hl
      · rename_i lo hi hrange
        split
        · exact hl
        · split
          · exact hl
          · split
            · exact hl
            · rename_i ety _ hfs
              split
              · exact hl
              · rename_i hnin
                have hin : S.isNamedIn ety.typ ver = true := by
                  cases hx : S.isNamedIn ety.typ ver with
                  | true => rfl
                  | false => exact absurd hx (by simpa using hnin)
                have hvok := minVersion_ok S V vOk hm hH.latest c ver hver
                obtain ⟨d, hsn, hd, hnamed, hseq, _, hunnamed, sp, hsp, _⟩ := named_facts S V vOk hH ety.typ ver hin hvok
                have hsnIn : S.isNamedIn (S.ety d).typ ver = false := by
                  have : S.isNamed (S.defType d) = false := hunnamed
                  unfold Spec.isNamed at this
                  unfold Spec.isNamedIn
                  show (match S.shortNameMask (S.defType d) with | some m => (m &&& ver) != 0 | none => false) = false
                  cases hmk : S.shortNameMask (S.defType d) with
                  | none => rfl
                  | some _ => rw [hmk] at this; simp at this
                have hspec : S.chardataSpec (S.ety d).typ = some sp := hsp
                simp only [hsn, hsnIn, hspec, Bool.false_eq_true, if_false]
                split
                · exact hl
                · split
                  · exact hl
                  · refine wrleaf_update S w _ k _ hl ?_ rfl
                    show RefLeaf S (m.setRoot _).rootItems
                    rw [rootItems_setRoot_modify m p _]
                    refine refLeaf_modify S p _ _ ?_ (hl m hmem)
                    intro h k0 ho he _ b
                    obtain ⟨e1, e2⟩ := node_eq S vOk hm p c hc h k0 ho he
                    have hnr : S.isRef h.ety.typ = false :=
                      not_ref_of_insertRange S hR h k0 name ver (lo, hi) (by rw [e1, e2]; exact hrange)
                    have hnew : S.isRef ety.typ = false :=
                      not_ref_of_mode S hR _ (by rw [hseq]; exact fun hx => by cases hx)
                    refine ⟨fun hx => ?_, refLeaf_insertAt S _ _ k0 _ ?_ b⟩
                    · rw [hnr] at hx; cases hx
                    · refine (refLeaf_elem S _ _ _).mpr ⟨fun hx => ?_, ?_, refLeaf_nil S⟩
                      · rw [show (newHdr w.nextId name ety p).ety.typ = ety.typ from rfl, hnew] at hx; cases hx
                      · exact (refLeaf_elem S _ _ _).mpr ⟨fun _ => rfl, refLeaf_nil S, refLeaf_nil S⟩

end
end AV.W
