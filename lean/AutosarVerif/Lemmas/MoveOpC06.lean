/-
`move_element_here[_at]` inside one model (`opMove`), part 2: the real move of an IDENTIFIABLE element (it has an item name) to
another parent of the same model.  The index is re-keyed from the old path to `destPath` (`idxFix`), the references that
designate the moved element or a named element below it are rewritten.
-/
import AutosarVerif.Lemmas.MoveOp
import AutosarVerif.Lemmas.MoveOpPos
import AutosarVerif.Lemmas.RenameOpC06

namespace AV.W
open Items

section tree
variable (S : Spec)

/-! ### `subtreePaths` = the index entries of the subtree -/

def SubSpec (fuel : Nat) : Prop :=
  ∀ (h : Hdr) (kids : Items) (pre : List Bytes), kidsOk S h kids → SnOk S kids → kids.size + 1 ≤ fuel →
    subtreePaths S fuel h kids pre = entries S (.elem h kids .nil) (joinPath pre)

theorem subtreePaths_succ (fuel : Nat) (h : Hdr) (kids : Items) (pre : List Bytes) (hk : kidsOk S h kids) :
    subtreePaths S (fuel + 1) h kids pre =
      ownEntry S h kids (joinPath pre) ++ kids.childElems.flatMap fun ch => subtreePaths S fuel ch.1 ch.2 (regPre S h kids pre) := by
  rw [subtreePaths]
  cases hn : itemName S h kids with
  | some n =>
    have hi := itemName_some_identifiable S h kids n hn
    have hnamed : S.isNamed h.ety.typ = true := by
      unfold itemName at hn
      split at hn
      · assumption
      · cases hn
    simp only [ownEntry, regPre, hn, hi, hnamed, and_self, if_true, joinPath_snoc]
  | none =>
    have : ¬ (S.isNamed h.ety.typ = true ∧ isIdentifiable S h kids = true) := by
      rintro ⟨_, hi⟩
      obtain ⟨n, hn'⟩ := itemName_of_identifiable S h kids hk hi
      rw [hn] at hn'; cases hn'
    simp only [ownEntry, regPre, hn, this, if_false]

theorem subFold (fuel : Nat) (IH : SubSpec S fuel) (pre' : List Bytes) (ks : Items) : SnOk S ks → ks.size ≤ fuel →
    (ks.childElems.flatMap fun ch => subtreePaths S fuel ch.1 ch.2 pre') = entries S ks (joinPath pre') := by
  induction ks with
  | nil => intro _ _; rfl
  | text c r ih =>
    intro hs hf
    simp only [Items.size] at hf
    exact ih hs (by omega)
  | elem h k r _ ihr =>
    intro hs hf
    simp only [Items.size] at hf
    have hr := size_pos r
    obtain ⟨hko, hsk, hsr⟩ := hs
    simp only [Items.childElems, List.flatMap_cons]
    rw [IH h k pre' hko hsk (by omega), ihr hsr (by omega), entries_elem_split S h k r]

theorem subSpec_all (fuel : Nat) : SubSpec S fuel := by
  induction fuel with
  | zero => intro h kids pre _ _ hf; have := size_pos kids; omega
  | succ fuel ih =>
    intro h kids pre hk hs hf
    rw [subtreePaths_succ S fuel h kids pre hk, subFold S fuel ih _ kids hs (by omega), joinPath_regPre, entries_elem_nil]

/-- with the fuel `opMove` passes, `subtreePaths` lists the index entries of the subtree, in document order -/
theorem subtreePaths_eq (h : Hdr) (kids : Items) (pre : List Bytes) (hk : kidsOk S h kids) (hs : SnOk S kids) :
    subtreePaths S (kids.size + 2) h kids pre = entries S (.elem h kids .nil) (joinPath pre) :=
  subSpec_all S _ h kids pre hk hs (by omega)

/-! ### chains -/

theorem namesOfChain_path (c : List (Hdr × Items)) : joinPath (namesOfChain S c) = pathOfChain S c := rfl

theorem pathOfChain_snoc (c : List (Hdr × Items)) (a : Hdr × Items) :
    pathOfChain S (c ++ [a]) = kidPre S a.1 a.2 (pathOfChain S c) := by
  unfold pathOfChain kidPre
  rw [List.filterMap_append]
  cases hn : itemName S a.1 a.2 with
  | none => simp [hn]
  | some n =>
    have : List.filterMap (fun x : Hdr × Items => itemName S x.1 x.2) [a] = [n] := by simp [hn]
    rw [this, joinPath_snoc]

theorem pathOfChain_dropLast (c : List (Hdr × Items)) (hc : c ≠ []) :
    pathOfChain S c = kidPre S (lastOf c).1 (lastOf c).2 (pathOfChain S c.dropLast) := by
  have h1 : c = c.dropLast ++ [c.getLast hc] := (List.dropLast_concat_getLast hc).symm
  have h2 : lastOf c = c.getLast hc := by
    unfold lastOf
    rw [List.getLast?_eq_some_getLast hc]; rfl
  rw [h2]
  conv => lhs; rw [h1]
  exact pathOfChain_snoc S _ _

theorem TopEl.occ {h0 : Hdr} {k0 : Items} {its : Items} (h : TopEl h0 k0 its) : Occ h0 k0 its := by
  induction its with
  | nil => exact h.elim
  | text c r ih => exact ih h
  | elem hd k r _ ihr =>
    rcases h with h | h
    · exact Or.inl h
    · exact Or.inr (Or.inr (ihr h))

theorem topEl_childPos (its : Items) (h : Hdr) (k : Items) (hn : its.ids.Nodup) (ht : TopEl h k its) (j : Nat) :
    ∃ i, its.childPos h.id j = some (j + i) ∧ itemAt its i = .elem h k .nil := by
  induction its generalizing j with
  | nil => exact ht.elim
  | text c r ih =>
    obtain ⟨i, h1, h2⟩ := ih (by simpa [Items.ids] using hn) ht (j + 1)
    exact ⟨i + 1, by simp only [Items.childPos]; rw [h1]; congr 1; omega, h2⟩
  | elem hd kk r _ ihr =>
    simp only [Items.ids, List.nodup_cons, List.nodup_append, List.mem_append, not_or] at hn
    rcases ht with ⟨rfl, rfl⟩ | ht
    · exact ⟨0, by simp [Items.childPos], rfl⟩
    · have hne : ¬ hd.id = h.id := fun e => hn.1.2 (e ▸ (TopEl.occ ht).id_mem)
      obtain ⟨i, h1, h2⟩ := ihr hn.2.2.1 ht (j + 1)
      exact ⟨i + 1, by simp only [Items.childPos, if_neg hne]; rw [h1]; congr 1; omega, h2⟩

/-! ### a node of the tree after a child was taken out elsewhere -/

theorem occ_removeAt_back {h : Hdr} {k0 : Items} (k : Items) (i : Nat) (ho : Occ h k0 (k.removeAt i)) : Occ h k0 k := by
  induction k generalizing i with
  | nil => exact ho
  | text c r ih =>
    cases i with
    | zero => exact ho
    | succ n => exact ih n ho
  | elem hd kk r _ ihr =>
    cases i with
    | zero => exact Or.inr (Or.inr ho)
    | succ n =>
      rcases ho with ho | ho | ho
      · exact Or.inl ho
      · exact Or.inr (Or.inl ho)
      · exact Or.inr (Or.inr (ihr n ho))

/-- a node other than `t` of the tree after the edit `removeAt i` of node `t`: it is a node of the old tree, with the same
content, or with the content edited in the same way -/
theorem occ_detach_back (t i : Nat) {h : Hdr} {k0 : Items} (its : Items)
    (ho : Occ h k0 (its.modify t fun h0 kk => (h0, kk.removeAt i))) (hne : h.id ≠ t) :
    ∃ k, Occ h k its ∧ (k0 = k ∨ k0 = k.modify t fun h0 kk => (h0, kk.removeAt i)) := by
  induction its with
  | nil => exact ho.elim
  | text c r ih =>
    obtain ⟨k, h1, h2⟩ := ih ho
    exact ⟨k, h1, h2⟩
  | elem hd kk r ihk ihr =>
    simp only [Items.modify] at ho
    split at ho
    · rename_i heq
      rcases ho with ⟨rfl, _⟩ | ho | ho
      · exact absurd heq hne
      · exact ⟨k0, Or.inr (Or.inl (occ_removeAt_back kk i ho)), Or.inl rfl⟩
      · obtain ⟨k, h1, h2⟩ := ihr ho
        exact ⟨k, Or.inr (Or.inr h1), h2⟩
    · rcases ho with ⟨rfl, rfl⟩ | ho | ho
      · exact ⟨kk, Or.inl ⟨rfl, rfl⟩, Or.inr rfl⟩
      · obtain ⟨k, h1, h2⟩ := ihk ho
        exact ⟨k, Or.inr (Or.inl h1), h2⟩
      · obtain ⟨k, h1, h2⟩ := ihr ho
        exact ⟨k, Or.inr (Or.inr h1), h2⟩

/-! ### the prefix handed to the content of a node, after an edit elsewhere -/

theorem kpre_removeAt (k : Items) (i : Nat) (pre : Bytes) (p : Nat) (hp : p ∉ (itemAt k i).ids) :
    kpre S (k.removeAt i) pre p = kpre S k pre p := by
  induction k generalizing i with
  | nil => rfl
  | text c r ih =>
    cases i with
    | zero => rfl
    | succ n => simp only [Items.removeAt, kpre]; exact ih n hp
  | elem hd kk r _ ihr =>
    cases i with
    | zero =>
      simp only [itemAt, Items.ids, List.append_nil, List.mem_cons, not_or] at hp
      simp only [Items.removeAt, kpre]
      rw [if_neg (fun e => hp.1 e.symm), kpre_none_of_not_mem S kk _ p hp.2]
    | succ n =>
      simp only [Items.removeAt, kpre]
      rw [ihr n hp]

theorem kpre_modify (t p : Nat) (f : Hdr → Items → Hdr × Items) (its : Items) (hv : KeepsView S t f its)
    (hf : ∀ h k, Occ h k its → h.id = t → itemName S (f h k).1 (f h k).2 = itemName S h k ∧
      ∀ pre, kpre S (f h k).2 pre p = kpre S k pre p) (pre : Bytes) :
    kpre S (its.modify t f) pre p = kpre S its pre p := by
  induction its generalizing pre with
  | nil => rfl
  | text c r ih => simp only [Items.modify, kpre]; exact ih hv hf pre
  | elem hd k r ihk ihr =>
    have ihk := ihk hv.kids (fun h0 k0 ho => hf h0 k0 (Or.inr (Or.inl ho)))
    have ihr := ihr hv.rest (fun h0 k0 ho => hf h0 k0 (Or.inr (Or.inr ho)))
    simp only [Items.modify]
    split
    · rename_i heq
      obtain ⟨h1, h2⟩ := hf hd k (Or.inl ⟨rfl, rfl⟩) heq
      obtain ⟨_, _, h5, _⟩ := hv.here S heq
      simp only [kpre, h1, h5, h2, ihr]
    · have hin : itemName S hd (k.modify t f) = itemName S hd k := itemName_modify S hd t f k hv.kids
      simp only [kpre, hin, ihk, ihr]

theorem Occ.ids_sublist {h0 : Hdr} {k0 : Items} {its : Items} (h : Occ h0 k0 its) : (h0.id :: k0.ids).Sublist its.ids := by
  induction its with
  | nil => exact h.elim
  | text c r ih => exact ih h
  | elem hd k r ihk ihr =>
    simp only [Items.ids]
    rcases h with ⟨rfl, rfl⟩ | h | h
    · exact List.Sublist.cons_cons _ (List.sublist_append_left _ _)
    · exact List.Sublist.cons _ ((ihk h).trans (List.sublist_append_left _ _))
    · exact List.Sublist.cons _ ((ihr h).trans (List.sublist_append_right _ _))

end tree

/-! ### the situation of the real move of a named element, at the level of one model -/

section sit
variable (S : Spec) (vOk : Nat)

/-- the element `x` (chain `cx`, header `xh`, content `xk`, item name `orig`) is moved out of its parent `sph` to position `pos`
of the content of `p` (chain `cp`, header `ph`, content `pk`), where it gets the name `nm` -/
structure MvSit (nid : Nat) (m : Model) (x p pos : Nat) (cx cp : List (Hdr × Items)) (sph : Hdr) (spk : Items)
    (xh : Hdr) (xk : Items) (ph : Hdr) (pk : Items) (orig nm : Bytes) : Prop where
  minv : MInv S vOk nid m
  iss : m.rootIssued = true
  hcx : m.rootItems.chain x = some cx
  hcp : m.rootItems.chain p = some cp
  lastx : lastOf cx = (xh, xk)
  lastp : lastOf cp = (ph, pk)
  par : cx.dropLast.getLast? = some (sph, spk)
  hsp : sph.id ≠ p
  hne : p ≠ x
  notBelow : (cp.any fun (h, _) => h.id = x) = false
  named : itemName S xh xk = some orig
  pname : ph.name ≠ S.nmShortName
  ppos : firstIsSn S pk → 1 ≤ pos
  nmSlash : 47 ∉ nm
  free : idxGet m.index (pathOfChain S cp ++ [47] ++ nm) = none

/-- what is known about the tree after the element was taken out and put in again (before the references are rewritten) -/
structure MvTree (m : Model) (x p pos : Nat) (cx cp : List (Hdr × Items)) (sph : Hdr) (spk : Items)
    (xh : Hdr) (xk : Items) (ph : Hdr) (orig nm : Bytes) (sh : Hdr) (rest : Items) : Prop where
  shape : xk = .elem sh (.text (.str orig) .nil) rest
  hsn : sh.name = S.nmShortName
  xid : xh.id = x
  kx : kidsOk S xh xk
  sx : SnOk S xk
  occx : Occ xh xk m.rootItems
  src : pathOfChain S cx = pathOfChain S cx.dropLast ++ 47 :: orig
  sub : entries S (.elem xh xk .nil) (pathOfChain S cx.dropLast) = (pathOfChain S cx, x) :: entries S rest (pathOfChain S cx)
  under : ∀ e ∈ entries S m.rootItems [], ∀ s, pathSuffix (pathOfChain S cx) e.1 = some s →
    e ∈ entries S (.elem xh xk .nil) (pathOfChain S cx.dropLast)
  subIn : ∀ e ∈ entries S (.elem xh xk .nil) (pathOfChain S cx.dropLast), e ∈ entries S m.rootItems []
  free : ∀ e ∈ m.index, pathSuffix (pathOfChain S cp ++ 47 :: nm) e.1 = none
  ids : (mvRoot2 m sph spk x p pos xh (.elem sh (.text (.str nm) .nil) rest)).ids.Perm m.rootItems.ids
  ents : (entries S (mvRoot2 m sph spk x p pos xh (.elem sh (.text (.str nm) .nil) rest)) []).Perm
    ((entries S m.rootItems []).map fun e => (rekey (pathOfChain S cx) (pathOfChain S cp ++ 47 :: nm) e.1, e.2))
  refs : S.isRef sph.ety.typ = false → S.isRef ph.ety.typ = false → S.isRef sh.ety.typ = false →
    (refEntries S (mvRoot2 m sph spk x p pos xh (.elem sh (.text (.str nm) .nil) rest))).Perm (refEntries S m.rootItems)
  sn : SnOk S (mvRoot2 m sph spk x p pos xh (.elem sh (.text (.str nm) .nil) rest))
  root : HasRoot m.rootHdr (mvRoot2 m sph spk x p pos xh (.elem sh (.text (.str nm) .nil) rest))

variable {S vOk}
variable {nid : Nat} {m : Model} {x p pos : Nat} {cx cp : List (Hdr × Items)} {sph : Hdr} {spk : Items}
  {xh : Hdr} {xk : Items} {ph : Hdr} {pk : Items} {orig nm : Bytes}

theorem mem_of_mem_dropLast {α : Type} (l : List α) (a : α) (h : a ∈ l.dropLast) : a ∈ l :=
  (List.dropLast_sublist l).subset h

theorem MvSit.tree (hs : MvSit S vOk nid m x p pos cx cp sph spk xh xk ph pk orig nm) :
    ∃ sh rest, MvTree S m x p pos cx cp sph spk xh xk ph orig nm sh rest := by
  have hm := hs.minv
  obtain ⟨hox, hidx⟩ := chain_occ x m.rootItems cx hs.hcx
  obtain ⟨hop, hidp⟩ := chain_occ p m.rootItems cp hs.hcp
  rw [hs.lastx] at hox hidx
  rw [hs.lastp] at hop hidp
  simp only at hox hidx hop hidp
  obtain ⟨hkx, hsx⟩ := kidsOk_of_occ S _ hm.sn _ _ hox
  have hfx : firstIsSn S xk := by
    apply Classical.byContradiction
    intro hf
    have := (itemName_of_kidsOk S _ _ hkx).2 hf
    rw [hs.named] at this; cases this
  obtain ⟨sh, n, rest, hxk, hsn, hin, hslash⟩ := (itemName_of_kidsOk S _ _ hkx).1 hfx
  have hno : n = orig := by rw [hs.named] at hin; exact (Option.some.inj hin).symm
  subst hno
  subst hxk
  have hxnamed : S.isNamed xh.ety.typ = true := (hkx.1 hsn).1.1
  have hxname : xh.name ≠ S.nmShortName := by
    intro e
    have := (sn_proper_of_occ S _ hm.sn (hm.topOk S vOk) _ _ hox e).2.1
    rw [hxnamed] at this; cases this
  -- the parent
  have hcne : cx ≠ [] := chain_ne_nil x _ cx hs.hcx
  rcases chain_parent x m.rootItems cx hs.hcx hm.ids with ⟨hd0, _⟩ | ⟨ph', pk', hgl, hosp, htop, hchsp⟩
  · have := hs.par
    rw [hd0] at this; cases this
  rw [hs.par] at hgl
  obtain ⟨rfl, rfl⟩ := Prod.mk.inj (Option.some.inj hgl)
  rw [hs.lastx] at htop
  simp only at htop
  have hspknd : spk.ids.Nodup := (List.nodup_cons.mp (List.Nodup.sublist hosp.ids_sublist hm.ids)).2
  obtain ⟨i, hcpos, hitem⟩ := topEl_childPos spk xh _ hspknd htop 0
  rw [hidx, Nat.zero_add] at hcpos
  have hpath : pathOfChain S cx = pathOfChain S cx.dropLast ++ 47 :: n := by
    rw [pathOfChain_dropLast S cx hcne, hs.lastx]
    unfold kidPre
    rw [hs.named]
  have hxids : (Items.elem xh (.elem sh (.text (.str n) .nil) rest) .nil).ids = x :: sh.id :: rest.ids := by
    simp [Items.ids, hidx]
  -- p is not inside the moved subtree
  have hpnot : p ∉ (Items.elem xh (.elem sh (.text (.str n) .nil) rest) .nil).ids := by
    rw [ids_elem_nil, hidx]
    intro hp
    rcases List.mem_cons.mp hp with hp | hp
    · exact hs.hne hp
    · have := chain_through _ _ p m.rootItems hm.ids hox hp cp hs.hcp
      obtain ⟨a, ha, hb⟩ := List.any_eq_true.mp this
      have : (cp.any fun (h, _) => decide (h.id = x)) = true :=
        List.any_eq_true.mpr ⟨a, mem_of_mem_dropLast _ _ ha, by rw [← hidx]; exact hb⟩
      rw [hs.notBelow] at this; cases this
  -- first edit: take x out
  let f1 : Hdr → Items → Hdr × Items := fun h0 kk => (h0, kk.removeAt i)
  have hr1 : mvRoot1 m sph spk x = m.rootItems.modify sph.id f1 := by
    simp only [mvRoot1, hcpos]
    rfl
  have hksp := (kidsOk_of_occ S _ hm.sn _ _ hosp).1
  have hspname : sph.name ≠ S.nmShortName := by
    intro e
    obtain ⟨_, _, _, n', hsk, _⟩ := sn_proper_of_occ S _ hm.sn (hm.topOk S vOk) _ _ hosp e
    rw [hsk] at htop
    exact htop
  have hpos1 : firstIsSn S spk → 1 ≤ i := by
    intro hf
    cases i with
    | succ q => omega
    | zero =>
      exfalso
      cases spk with
      | nil => exact hf
      | text _ _ => exact hf
      | elem sh0 sk0 rest0 =>
        simp only [itemAt] at hitem
        injection hitem with a _ _
        exact hxname (a ▸ hf)
  have key1 : ∀ h k0, Occ h k0 m.rootItems → h.id = sph.id → h = sph ∧ k0 = spk :=
    fun h k0 ho he => occ_unique m.rootItems hm.ids h sph k0 spk ho hosp he
  have hv1 : KeepsView S sph.id f1 m.rootItems := fun h k0 ho he =>
    ⟨rfl, rfl, rfl, fun hn => absurd ((key1 h k0 ho he).1 ▸ hn) hspname⟩
  have hin1 : ∀ h k0, Occ h k0 m.rootItems → h.id = sph.id → itemName S h (k0.removeAt i) = itemName S h k0 := by
    intro h k0 ho he
    obtain ⟨rfl, rfl⟩ := key1 h k0 ho he
    exact itemName_removeAt S _ _ i hksp hpos1
  obtain ⟨pfx, hpfx, hperm1⟩ := entries_modify_located S sph.id f1
    (fun pre => entries S (.elem xh (.elem sh (.text (.str n) .nil) rest) .nil) pre) (fun _ => [])
    m.rootItems hv1 (fun h k0 ho he => by
      refine ⟨hin1 h k0 ho he, fun pre => ?_⟩
      obtain ⟨rfl, rfl⟩ := key1 h k0 ho he
      rw [List.append_nil]
      have := entries_removeAt S k0 i pre
      rw [hitem] at this
      exact (this.trans List.perm_append_comm).symm) hm.ids hosp.id_mem []
  rw [kpre_chain S sph.id _ _ hchsp, chainPre_nil] at hpfx
  cases hpfx
  rw [List.append_nil] at hperm1
  have hids1 : ((m.rootItems.modify sph.id f1).ids ++ (Items.elem xh (.elem sh (.text (.str n) .nil) rest) .nil).ids).Perm
      m.rootItems.ids := by
    have := ids_modify_rel sph.id f1 (Items.elem xh (.elem sh (.text (.str n) .nil) rest) .nil).ids [] m.rootItems
      (fun h k0 ho he => ⟨rfl, by
        obtain ⟨rfl, rfl⟩ := key1 h k0 ho he
        rw [List.append_nil]
        have := ids_removeAt k0 i
        rw [hitem] at this
        exact (this.trans List.perm_append_comm).symm⟩) hm.ids hosp.id_mem
    rwa [List.append_nil] at this
  have hsn1 : SnOk S (m.rootItems.modify sph.id f1) :=
    snOk_modify S sph.id f1 _ (fun h k0 ho he => by
      obtain ⟨rfl, rfl⟩ := key1 h k0 ho he
      exact ⟨rfl, rfl, fun hn _ => absurd hn hspname, fun hk hs0 =>
        ⟨kidsOk_removeAt S _ _ i hpos1 hk, snOk_removeAt S _ i hs0⟩⟩) hm.sn
  have hnd1a := (List.Perm.nodup_iff hids1).mpr hm.ids
  have hnd1 : (m.rootItems.modify sph.id f1).ids.Nodup := (List.nodup_append.mp hnd1a).1
  have hp_in1 : p ∈ (m.rootItems.modify sph.id f1).ids := by
    have h0 : p ∈ m.rootItems.ids := hidp ▸ hop.id_mem
    rcases List.mem_append.mp ((List.Perm.mem_iff hids1).mpr h0) with h1 | h1
    · exact h1
    · exact absurd h1 hpnot
  -- the destination node in the tree without x
  have key2 : ∀ h k0, Occ h k0 (m.rootItems.modify sph.id f1) → h.id = p →
      h = ph ∧ (firstIsSn S k0 → 1 ≤ pos) := by
    intro h k0 ho he
    obtain ⟨k, hok, hk0⟩ := occ_detach_back sph.id i m.rootItems ho (by rw [he]; exact fun e => hs.hsp e.symm)
    obtain ⟨e1, e2⟩ := node_eq S vOk hm p cp hs.hcp h k hok he
    rw [hs.lastp] at e1 e2
    simp only at e1 e2
    refine ⟨e1, fun hf => hs.ppos ?_⟩
    rcases hk0 with rfl | rfl
    · exact e2 ▸ hf
    · exact e2 ▸ (firstIsSn_modify S sph.id _ k (fun _ _ _ _ => rfl)).mp hf
  let xk1 : Items := .elem sh (.text (.str nm) .nil) rest
  let f2 : Hdr → Items → Hdr × Items := fun h0 k0 => (h0, k0.insertAt (fun r => .elem (mvHdr xh p) xk1 r) pos)
  have hr2 : mvRoot2 m sph spk x p pos xh xk1 = (m.rootItems.modify sph.id f1).modify p f2 := by
    unfold mvRoot2; rw [hr1]
  have hx1name : (mvHdr xh p).name ≠ S.nmShortName := hxname
  have hv2 : KeepsView S p f2 (m.rootItems.modify sph.id f1) := fun h k0 ho he =>
    ⟨rfl, rfl, rfl, fun hn => absurd ((key2 h k0 ho he).1 ▸ hn) hs.pname⟩
  obtain ⟨pfx2, hpfx2, hperm2⟩ := entries_modify_located S p f2 (fun _ => [])
    (fun pre => entries S (.elem (mvHdr xh p) xk1 .nil) pre) (m.rootItems.modify sph.id f1) hv2
    (fun h k0 ho he => ⟨itemName_insertAt S h _ xk1 hx1name k0 _ (key2 h k0 ho he).2, fun pre => by
      rw [List.append_nil]
      exact (entries_insertAt S _ xk1 k0 _ pre).trans List.perm_append_comm⟩) hnd1 hp_in1 []
  have hk1 : kpre S (m.rootItems.modify sph.id f1) [] p = kpre S m.rootItems [] p :=
    kpre_modify S sph.id p f1 m.rootItems hv1 (fun h k0 ho he => by
      refine ⟨hin1 h k0 ho he, fun pre => ?_⟩
      obtain ⟨rfl, rfl⟩ := key1 h k0 ho he
      exact kpre_removeAt S _ i pre p (by rw [hitem]; exact hpnot)) []
  rw [hk1, kpre_chain S p _ cp hs.hcp, chainPre_nil] at hpfx2
  cases hpfx2
  rw [List.append_nil] at hperm2
  have hids2 : ((m.rootItems.modify sph.id f1).modify p f2).ids.Perm
      ((m.rootItems.modify sph.id f1).ids ++ (Items.elem (mvHdr xh p) xk1 .nil).ids) :=
    ids_modify_add p f2 _ _ (fun h k0 _ _ => ⟨rfl, by
      have := ids_insertAt (mvHdr xh p) xk1 k0 pos
      rw [ids_elem_nil]
      exact this.trans List.perm_append_comm⟩) hnd1 hp_in1
  have hkx1 : kidsOk S (mvHdr xh p) xk1 :=
    (kidsOk_hdr S xh (mvHdr xh p) xk1 rfl).mpr (kidsOk_retext S xh sh n nm rest hkx hs.nmSlash)
  have hsx1 : SnOk S xk1 := snOk_retext S sh n nm rest hsx
  have hsn2 : SnOk S ((m.rootItems.modify sph.id f1).modify p f2) :=
    snOk_modify S p f2 _ (fun h k0 ho he => ⟨rfl, rfl, fun hn _ => absurd ((key2 h k0 ho he).1 ▸ hn) hs.pname, fun hk0 hs0 =>
      ⟨kidsOk_insertAt S h _ xk1 hx1name k0 _ (key2 h k0 ho he).2 hk0, snOk_insertAt S _ xk1 ⟨hkx1, hsx1⟩ k0 _ hs0⟩⟩) hsn1
  -- the entries of the moved subtree, before and after
  have hsub : entries S (.elem xh (.elem sh (.text (.str n) .nil) rest) .nil) (pathOfChain S cx.dropLast) =
      (pathOfChain S cx, x) :: entries S rest (pathOfChain S cx) := by
    rw [entries_named S xh sh n rest hkx hsn, hpath, hidx]
  have hsub1 : entries S (.elem (mvHdr xh p) xk1 .nil) (pathOfChain S cp) =
      (pathOfChain S cp ++ 47 :: nm, x) :: entries S rest (pathOfChain S cp ++ 47 :: nm) := by
    rw [entries_named S (mvHdr xh p) sh nm rest hkx1 hsn]
    show (_, xh.id) :: _ = _
    rw [hidx]
  have hmap : (entries S (.elem xh (.elem sh (.text (.str n) .nil) rest) .nil) (pathOfChain S cx.dropLast)).map
      (fun e => (rekey (pathOfChain S cx) (pathOfChain S cp ++ 47 :: nm) e.1, e.2)) =
      entries S (.elem (mvHdr xh p) xk1 .nil) (pathOfChain S cp) := by
    rw [hsub, hsub1, List.map_cons, map_rekey_under S _ _ rest,
      rekey_some _ _ _ [] (pathSuffix_self _), List.append_nil]
  -- keys at or below the old path belong to the moved subtree
  have hfn := findNamed_chain S x m.rootItems cx hs.hcx [] n (by rw [hs.lastx]; exact hs.named)
  rw [chainPre_nil, hs.lastx] at hfn
  simp only at hfn
  have hunder : ∀ e ∈ entries S m.rootItems [], ∀ s, pathSuffix (pathOfChain S cx) e.1 = some s →
      e ∈ entries S (.elem xh (.elem sh (.text (.str n) .nil) rest) .nil) (pathOfChain S cx.dropLast) := by
    intro e he s hse
    rw [hsub]
    rcases entries_under S m.rootItems hm.sn [] hm.keys x _ n _ hfn e.1 e.2 he s hse with h | h
    · exact List.mem_cons.mpr (Or.inl h)
    · refine List.mem_cons_of_mem _ ?_
      have hsh : itemName S sh (.text (.str n) .nil) = none := itemName_none_of_not_sn S sh _ id
      rw [entries_elem_none S sh _ rest _ hsh] at h
      simpa only [entries, List.nil_append] using h
  have hkeys1 : keysNodupI (entries S (m.rootItems.modify sph.id f1) [] ++
      entries S (.elem xh (.elem sh (.text (.str n) .nil) rest) .nil) (pathOfChain S cx.dropLast)) := by
    unfold keysNodupI
    exact (List.Perm.nodup_iff (hperm1.map (fun e : Bytes × Nat => e.1))).mpr hm.keys
  have hrest : ∀ e ∈ entries S (m.rootItems.modify sph.id f1) [], pathSuffix (pathOfChain S cx) e.1 = none := by
    intro e he
    cases hse : pathSuffix (pathOfChain S cx) e.1 with
    | none => rfl
    | some s =>
      exfalso
      have h1 : e ∈ entries S m.rootItems [] := (List.Perm.mem_iff hperm1).mp (List.mem_append_left _ he)
      have h2 := hunder e h1 s hse
      exact (keysNodupI_append _ _ hkeys1).2.2 e he e h2 rfl
  have hdesthead : (pathOfChain S cp ++ 47 :: nm).head? = some 47 := head_path_name _ nm (pathOfChain_head S cp)
  have hfree : ∀ e ∈ m.index, pathSuffix (pathOfChain S cp ++ 47 :: nm) e.1 = none := by
    intro e he
    cases hse : pathSuffix (pathOfChain S cp ++ 47 :: nm) e.1 with
    | none => rfl
    | some s =>
      exfalso
      have := idxGet_none_under S vOk hm _ hdesthead (by rw [← path_norm]; exact hs.free) e.1 s hse
      rw [(idxGet_iff_mem m.index hm.idxKeys e.1 e.2).mpr he] at this
      cases this
  refine ⟨sh, rest, rfl, hsn, hidx, hkx, hsx, hox, hpath, hsub, hunder, ?_, hfree, ?_, ?_, ?_, ?_, ?_⟩
  · intro e he
    exact (List.Perm.mem_iff hperm1).mp (List.mem_append_right _ he)
  · show (mvRoot2 m sph spk x p pos xh xk1).ids.Perm _
    rw [hr2]
    refine hids2.trans (List.Perm.trans ?_ hids1)
    exact List.Perm.append_left _ (List.Perm.of_eq (by simp [Items.ids, mvHdr, xk1]))
  · show (entries S (mvRoot2 m sph spk x p pos xh xk1) []).Perm _
    rw [hr2]
    refine hperm2.trans ?_
    refine List.Perm.trans ?_ ((hperm1.map _))
    rw [List.map_append, hmap, map_rekey_id _ _ _ hrest]
  · intro hr1' hr2' hr3'
    show (refEntries S (mvRoot2 m sph spk x p pos xh xk1)).Perm _
    rw [hr2]
    have href1 : (refEntries S (m.rootItems.modify sph.id f1) ++
        refEntries S (.elem xh (.elem sh (.text (.str n) .nil) rest) .nil)).Perm (refEntries S m.rootItems) := by
      have := refEntries_modify_located S sph.id f1
        (refEntries S (.elem xh (.elem sh (.text (.str n) .nil) rest) .nil)) [] m.rootItems
        (fun h k0 ho he => ⟨rfl, by
          obtain ⟨rfl, rfl⟩ := key1 h k0 ho he
          rw [refOf_not_ref S _ _ hr1', refOf_not_ref S _ _ hr1', List.append_nil, List.nil_append, List.nil_append]
          have := refEntries_removeAt S k0 i
          rw [hitem] at this
          exact (this.trans List.perm_append_comm).symm⟩) hm.ids hosp.id_mem
      rwa [List.append_nil] at this
    have href2 : (refEntries S ((m.rootItems.modify sph.id f1).modify p f2)).Perm
        (refEntries S (m.rootItems.modify sph.id f1) ++ refEntries S (.elem (mvHdr xh p) xk1 .nil)) := by
      have := refEntries_modify_located S p f2 [] (refEntries S (.elem (mvHdr xh p) xk1 .nil)) (m.rootItems.modify sph.id f1)
        (fun h k0 ho he => ⟨rfl, by
          obtain ⟨rfl, _⟩ := key2 h k0 ho he
          rw [refOf_not_ref S _ _ hr2', refOf_not_ref S _ _ hr2', List.append_nil, List.nil_append, List.nil_append]
          exact (refEntries_insertAt S _ xk1 k0 pos).trans List.perm_append_comm⟩) hnd1 hp_in1
      rwa [List.append_nil] at this
    refine href2.trans (List.Perm.trans ?_ href1)
    apply List.Perm.append_left
    apply List.Perm.of_eq
    have e1 : refOf S (mvHdr xh p) xk1 = refOf S xh (.elem sh (.text (.str n) .nil) rest) := by
      unfold refOf charData
      rfl
    simp only [refEntries, xk1, e1, refOf_not_ref S sh _ hr3']
  · show SnOk S (mvRoot2 m sph spk x p pos xh xk1)
    rw [hr2]; exact hsn2
  · show HasRoot m.rootHdr (mvRoot2 m sph spk x p pos xh xk1)
    rw [hr2]
    exact hasRoot_modify _ _ _ (fun _ _ => rfl) _ (hasRoot_modify _ _ _ (fun _ _ => rfl) _ ⟨m.rootKids, rfl⟩)

end sit

/-! ### the reference rewriting loop of `opMove` as a fold over a list of keys -/

section loop
variable (g : Bytes → Bytes)

/-- one step: if `k` is a key of the map, its list is moved to the key `g k` and the listed elements get the text `g k` -/
def kStep (acc : List (Bytes × List Nat) × Items) (k : Bytes) : List (Bytes × List Nat) × Items :=
  if acc.1.any (·.1 == k) then (moveKey acc.1 k (g k), setRefTexts acc.2 (refsGet acc.1 k) (g k)) else acc

theorem any_key_iff (acc : List (Bytes × List Nat)) (hn : keysNodup acc) (hne : refsNonempty acc) (k : Bytes) :
    acc.any (·.1 == k) = true ↔ refsGet acc k ≠ [] := by
  constructor
  · intro h
    obtain ⟨e, he, hk⟩ := List.any_eq_true.mp h
    have hk' : e.1 = k := by simpa using hk
    have : (k, e.2) ∈ acc := by rw [← hk']; exact he
    rw [refsGet_of_mem acc k e.2 hn this]
    exact hne e he
  · intro h
    obtain ⟨e, he, hk⟩ := List.mem_map.mp (key_of_refsGet_ne acc k h)
    exact List.any_eq_true.mpr ⟨e, he, by simpa using hk⟩

/-- changing a key predicate at the one key `k` changes the sum by the list under `k` -/
theorem csum_key_change (rs : List (Bytes × List Nat)) (hn : keysNodup rs) (k : Bytes) (π π' : Bytes → Bool)
    (h : ∀ q, q ≠ k → π' q = π q) (id : Nat) :
    csum (fun e => π' e.1) rs id + (if π k = true then (refsGet rs k).count id else 0) =
      csum (fun e => π e.1) rs id + (if π' k = true then (refsGet rs k).count id else 0) := by
  induction rs with
  | nil => simp [csum_nil, refsGet_nil]
  | cons e es ih =>
    have hn' := hn
    simp only [keysNodup, List.map_cons, List.nodup_cons] at hn'
    have ih' := ih hn'.2
    rw [csum_cons, csum_cons, refsGet_cons]
    by_cases he : e.1 = k
    · have h0 := refsGet_of_not_key es k (he ▸ hn'.1)
      rw [h0] at ih'
      simp only [List.count_nil, ite_self, Nat.add_zero] at ih'
      rw [if_pos he, ih', he]
      cases π k <;> cases π' k <;> simp <;> omega
    · rw [if_neg he, h e.1 he]
      omega

/-- the accumulator after the keys `done` have been processed and the keys `todo` are still to come -/
structure KInv (rs : List (Bytes × List Nat)) (root : Items) (done todo : List Bytes)
    (acc : List (Bytes × List Nat) × Items) : Prop where
  nd : keysNodup acc.1
  ne : refsNonempty acc.1
  keep : ∀ k ∈ todo, refsGet acc.1 k = refsGet rs k
  cnt : ∀ q id, (refsGet acc.1 q).count id = csum (fun e => (if e.1 ∈ done then g e.1 else e.1) == q) rs id
  tree : acc.2 = done.foldl (fun t k => setRefTexts t (refsGet rs k) (g k)) root

theorem kStep_inv (rs : List (Bytes × List Nat)) (hrs : keysNodup rs) (root : Items) (done todo : List Bytes) (k : Bytes)
    (acc : List (Bytes × List Nat) × Items) (hnd : (done ++ k :: todo).Nodup)
    (hg : g k ∉ done ++ k :: todo) (hgd : ∀ k' ∈ done, g k' ≠ k)
    (inv : KInv g rs root done (k :: todo) acc) : KInv g rs root (done ++ [k]) todo (kStep g acc k) := by
  have hkeep := inv.keep k List.mem_cons_self
  have hkd : k ∉ done := fun h => (List.nodup_append.mp hnd).2.2 k h k List.mem_cons_self rfl
  have hkt : k ∉ todo := (List.nodup_cons.mp (List.nodup_append.mp hnd).2.1).1
  have hgk : g k ≠ k := fun e => hg (by rw [e]; exact List.mem_append_right _ List.mem_cons_self)
  have hgd' : g k ∉ done := fun h => hg (List.mem_append_left _ h)
  have hgt : g k ∉ todo := fun h => hg (List.mem_append_right _ (List.mem_cons_of_mem _ h))
  -- the change of the sums
  have hsum : ∀ q id, csum (fun e => (if e.1 ∈ done ++ [k] then g e.1 else e.1) == q) rs id +
      (if (k == q) = true then (refsGet rs k).count id else 0) =
      csum (fun e => (if e.1 ∈ done then g e.1 else e.1) == q) rs id +
      (if (g k == q) = true then (refsGet rs k).count id else 0) := by
    intro q id
    have := csum_key_change rs hrs k (fun a => (if a ∈ done then g a else a) == q)
      (fun a => (if a ∈ done ++ [k] then g a else a) == q) (fun a ha => by
        have : a ∈ done ++ [k] ↔ a ∈ done := by simp [ha]
        simp only [this]) id
    simpa only [hkd, if_false, List.mem_append, List.mem_singleton, or_true, if_true] using this
  have htree : (done ++ [k]).foldl (fun t k => setRefTexts t (refsGet rs k) (g k)) root =
      setRefTexts acc.2 (refsGet rs k) (g k) := by
    rw [List.foldl_append, List.foldl_cons, List.foldl_nil, ← inv.tree]
  by_cases hany : acc.1.any (·.1 == k) = true
  · have hstep : kStep g acc k = (moveKey acc.1 k (g k), setRefTexts acc.2 (refsGet acc.1 k) (g k)) := by
      unfold kStep; rw [if_pos hany]
    have hcur : refsGet acc.1 k ≠ [] := (any_key_iff acc.1 inv.nd inv.ne k).mp hany
    rw [hstep]
    refine ⟨moveKey_keysNodup _ _ _ inv.nd, moveKey_nonempty _ _ _ inv.ne hcur, ?_, ?_, ?_⟩
    · intro k' hk'
      show refsGet (moveKey acc.1 k (g k)) k' = _
      have h1 : k' ≠ g k := fun e => hgt (e ▸ hk')
      have h2 : k' ≠ k := fun e => hkt (e ▸ hk')
      rw [moveKey_get _ _ _ _ (Ne.symm hgk), if_neg h1, if_neg h2]
      exact inv.keep k' (List.mem_cons_of_mem _ hk')
    · intro q id
      show (refsGet (moveKey acc.1 k (g k)) q).count id = _
      rw [moveKey_get _ _ _ _ (Ne.symm hgk)]
      have hs := hsum q id
      have hc := inv.cnt q id
      have hck := inv.cnt k id
      rw [hkeep] at hck
      by_cases hq1 : q = g k
      · subst hq1
        rw [if_pos rfl, List.count_append, hc, hkeep]
        have e1 : (k == g k) = false := by simpa using (Ne.symm hgk)
        simp only [e1, Bool.false_eq_true, if_false, beq_self_eq_true, if_true, Nat.add_zero] at hs
        omega
      · rw [if_neg hq1]
        have e1 : (g k == q) = false := by simpa using (fun e : g k = q => hq1 e.symm)
        by_cases hq2 : q = k
        · subst hq2
          rw [if_pos rfl, List.count_nil]
          simp only [e1, Bool.false_eq_true, if_false, beq_self_eq_true, if_true, Nat.add_zero] at hs
          omega
        · rw [if_neg hq2, hc]
          have e2 : (k == q) = false := by simpa using (fun e : k = q => hq2 e.symm)
          simp only [e1, e2, Bool.false_eq_true, if_false, Nat.add_zero] at hs
          omega
    · show setRefTexts acc.2 (refsGet acc.1 k) (g k) = _
      rw [htree, hkeep]
  · have hstep : kStep g acc k = acc := by unfold kStep; rw [if_neg hany]
    have hnil : refsGet rs k = [] := by
      rw [← hkeep]
      apply Classical.byContradiction
      intro h
      exact hany ((any_key_iff acc.1 inv.nd inv.ne k).mpr h)
    rw [hstep]
    refine ⟨inv.nd, inv.ne, fun k' hk' => inv.keep k' (List.mem_cons_of_mem _ hk'), ?_, ?_⟩
    · intro q id
      have hs := hsum q id
      rw [hnil] at hs
      simp only [List.count_nil, ite_self, Nat.add_zero] at hs
      rw [inv.cnt q id, hs]
    · rw [htree, hnil]
      rfl

theorem foldl_kStep_inv (rs : List (Bytes × List Nat)) (hrs : keysNodup rs) (root : Items) (todo done : List Bytes)
    (acc : List (Bytes × List Nat) × Items) (hnd : (done ++ todo).Nodup) (hg : ∀ k ∈ done ++ todo, g k ∉ done ++ todo)
    (inv : KInv g rs root done todo acc) : KInv g rs root (done ++ todo) [] (todo.foldl (kStep g) acc) := by
  induction todo generalizing done acc with
  | nil => rw [List.foldl_nil, List.append_nil]; exact inv
  | cons k l ih =>
    rw [List.foldl_cons]
    have hassoc : done ++ [k] ++ l = done ++ k :: l := by rw [List.append_assoc]; rfl
    have key := ih (done ++ [k]) (kStep g acc k) (by rw [hassoc]; exact hnd) (by rw [hassoc]; exact hg)
      (kStep_inv g rs hrs root done l k acc hnd (hg k (List.mem_append_right _ List.mem_cons_self))
        (fun k' hk' e => hg k' (List.mem_append_left _ hk') (e ▸ List.mem_append_right _ List.mem_cons_self)) inv)
    rw [hassoc] at key
    exact key

/-- the loop over the keys `ks` (pairwise different, no rewritten key among them) on an exact map -/
theorem kLoop_inv (rs : List (Bytes × List Nat)) (hrs : keysNodup rs) (hne : refsNonempty rs) (root : Items) (ks : List Bytes)
    (hnd : ks.Nodup) (hg : ∀ k ∈ ks, g k ∉ ks) : KInv g rs root ks [] (ks.foldl (kStep g) (rs, root)) := by
  have := foldl_kStep_inv g rs hrs root ks [] (rs, root) (by simpa using hnd) (by simpa using hg)
    ⟨hrs, hne, fun _ _ => rfl, fun q id => by
      simp only [List.not_mem_nil, if_false]
      exact refsGet_count_csum rs hrs q id, rfl⟩
  simpa using this

/-- the loop of `opMove` is this loop, if every listed path continues `src` and `g` rewrites it as the loop does -/
theorem mvLoop_eq (src dest : Bytes) (l : List (Bytes × Nat))
    (h : ∀ e ∈ l, src.isPrefixOf e.1 = true ∧ dest ++ e.1.drop src.length = g e.1) :
    ∀ acc, l.foldl (mvStep src dest) acc = (l.map (·.1)).foldl (kStep g) acc := by
  induction l with
  | nil => intro acc; rfl
  | cons e l ih =>
    intro acc
    rw [List.map_cons, List.foldl_cons, List.foldl_cons, ih (fun e' he' => h e' (List.mem_cons_of_mem _ he'))]
    congr 1
    obtain ⟨h1, h2⟩ := h e List.mem_cons_self
    unfold mvStep kStep
    simp only [h1, true_and, h2]

end loop

/-! ### the model after the move -/

section model
variable (S : Spec) (vOk : Nat)

/-- the text a reference with text `t` has after the move: re-keyed if it designates an element -/
def mvText (idx : List (Bytes × Nat)) (src dest t : Bytes) : Bytes :=
  if (idxGet idx t).isSome then rekey src dest t else t

/-- the hypotheses of the text rewriting (`MovedOk`) for the entries of an exact map under a list of keys -/
theorem movedOk_keys (hR : RefWF S) (g : Bytes → Bytes) (rs : List (Bytes × List Nat)) (t : Items)
    (hn : t.ids.Nodup) (hS : SnOk S t)
    (ht : ∀ h k, TopEl h k t → h.name = S.nmShortName → S.isRef h.ety.typ = false)
    (hx : RefsExact S rs t) (ks : List Bytes) (hks : ks.Nodup) (hfresh : ∀ k ∈ ks, g k ∉ ks) :
    MovedOk S g (ks.map fun k => (k, refsGet rs k)) t := by
  have hmapk : (ks.map fun k => (k, refsGet rs k)).map (·.1) = ks := by
    rw [List.map_map]; exact List.map_id' _
  have hlisted : ∀ k id, id ∈ refsGet rs k → (k, id) ∈ refEntries S t := by
    intro k id hid
    have hc : 1 ≤ (refsGet rs k).count id := List.count_pos_iff.mpr hid
    rw [hx.2.2 k id] at hc
    exact List.count_pos_iff.mp hc
  refine ⟨hn, ?_, ?_, ?_, ?_⟩
  · intro x hxm id hid
    obtain ⟨k, _, rfl⟩ := List.mem_map.mp hxm
    have hm := hlisted k id hid
    obtain ⟨h, kk, ho, hmem⟩ := (refEntries_mem_iff S t k id).mp hm
    obtain ⟨he, href, hcd⟩ := (mem_refOf_iff S h kk k id).mp hmem
    have hk := charData_some_shape S h kk _ hcd
    subst hk
    refine ⟨h, k, ho, he, href, ?_⟩
    intro hname
    rw [occ_sn_not_ref S hR t hS ht h _ ho hname] at href
    cases href
  · unfold keysNodup; rw [hmapk]; exact hks
  · intro x hxm e he
    obtain ⟨k, _, rfl⟩ := List.mem_map.mp hxm
    constructor
    · intro hid
      have hm := hlisted k e.2 hid
      have hnd2 : ((refEntries S t).map (·.2)).Nodup := List.Nodup.sublist (refEntries_ids_sublist S t) hn
      have := eq_of_nodup_map_snd (refEntries S t) hnd2 e (k, e.2) he hm rfl
      rw [this]
    · intro he1
      have he1' : e.1 = k := he1
      have hm : (k, e.2) ∈ refEntries S t := by rw [← he1']; exact he
      exact exact_listed_of_mem S hx k e.2 hm
  · intro x hxm hmem
    obtain ⟨k, hk, rfl⟩ := List.mem_map.mp hxm
    rw [hmapk] at hmem
    exact hfresh k hk hmem

variable {S vOk}
variable {nid : Nat} {m : Model} {x p pos : Nat} {cx cp : List (Hdr × Items)} {sph : Hdr} {spk : Items}
  {xh : Hdr} {xk : Items} {ph : Hdr} {pk : Items} {orig nm : Bytes} {sh : Hdr} {rest : Items}

/-- MAIN (one model): after the real move of a named element the path index is exact again, the reverse reference map is exact
again, every reference element has the text `mvText … t` where it had the text `t`, and a path that designated an element
designates, re-keyed, the same element -/
theorem MvSit.out (hR : RefWF S) (hs : MvSit S vOk nid m x p pos cx cp sph spk xh xk ph pk orig nm)
    (hrex : RefsExact S m.refs m.rootItems) (hr1 : S.isRef sph.ety.typ = false) (hr2 : S.isRef ph.ety.typ = false)
    (tr : MvTree S m x p pos cx cp sph spk xh xk ph orig nm sh rest) (m' : Model)
    (hroot : m'.rootItems = ((entries S (.elem xh xk .nil) (pathOfChain S cx.dropLast)).foldl
      (mvStep (pathOfChain S cx) (pathOfChain S cp ++ 47 :: nm))
      (m.refs, mvRoot2 m sph spk x p pos xh (.elem sh (.text (.str nm) .nil) rest))).2)
    (hrefs : m'.refs = ((entries S (.elem xh xk .nil) (pathOfChain S cx.dropLast)).foldl
      (mvStep (pathOfChain S cx) (pathOfChain S cp ++ 47 :: nm))
      (m.refs, mvRoot2 m sph spk x p pos xh (.elem sh (.text (.str nm) .nil) rest))).1)
    (hidx : m'.index = idxFix m.index (pathOfChain S cx) (pathOfChain S cp ++ 47 :: nm))
    (hhdr : m'.rootHdr = m.rootHdr) (hiss : m'.rootIssued = m.rootIssued) (hfiles : m'.files = m.files) :
    MInv S vOk nid m' ∧ RefsExact S m'.refs m'.rootItems ∧
    (refEntries S m'.rootItems).Perm ((refEntries S m.rootItems).map fun e =>
      (mvText m.index (pathOfChain S cx) (pathOfChain S cp ++ 47 :: nm) e.1, e.2)) ∧
    (∀ t e, idxGet m.index t = some e →
      idxGet m'.index (rekey (pathOfChain S cx) (pathOfChain S cp ++ 47 :: nm) t) = some e) := by
  have hm := hs.minv
  -- the SHORT-NAME of the moved element is not a reference
  have hshref : S.isRef sh.ety.typ = false := by
    have hk := tr.kx
    rw [tr.shape] at hk
    obtain ⟨⟨hnamed, _, hsub, htyp⟩, _⟩ := hk.1 tr.hsn
    rw [htyp]; exact hR.sn_not_ref _ _ hnamed hsub
  have hrefs2 := tr.refs hr1 hr2 hshref
  have hL0k : keysNodupI (entries S (.elem xh xk .nil) (pathOfChain S cx.dropLast)) :=
    (keysNodupI_entries_prefix S _ _).mpr (keysNodupI_of_occ S xh xk m.rootItems [] tr.occx hm.keys)
  have t_ids := tr.ids
  have t_ents := tr.ents
  have t_sn := tr.sn
  have t_root := tr.root
  have t_sub := tr.sub
  have t_under := tr.under
  have t_subIn := tr.subIn
  have t_free := tr.free
  clear tr
  generalize hsrc : pathOfChain S cx = src at *
  generalize hdest : pathOfChain S cp ++ 47 :: nm = dest at *
  generalize hL0 : entries S (.elem xh xk .nil) (pathOfChain S cx.dropLast) = L0 at *
  generalize hroot2 : mvRoot2 m sph spk x p pos xh (.elem sh (.text (.str nm) .nil) rest) = root2 at *
  let g := rekey src dest
  let ks := L0.map (·.1)
  have hx2 : RefsExact S m.refs root2 := refsExact_perm S m.refs _ _ hrex hrefs2
  have hnd2 : root2.ids.Nodup := (List.Perm.nodup_iff t_ids).mpr hm.ids
  -- the listed paths
  have hksnd : ks.Nodup := hL0k
  have hpre : ∀ e ∈ L0, ∃ s, pathSuffix src e.1 = some s := by
    intro e he
    rw [t_sub] at he
    rcases List.mem_cons.mp he with rfl | he
    · exact ⟨[], pathSuffix_self _⟩
    · obtain ⟨u, hu⟩ := entries_key_shape S rest _ e.1 e.2 he
      exact ⟨47 :: u, by rw [hu]; exact pathSuffix_child _ u⟩
  have hgfresh : ∀ k ∈ ks, g k ∉ ks := by
    intro k hk hmem
    obtain ⟨e, he, rfl⟩ := List.mem_map.mp hk
    obtain ⟨e', he', hee⟩ := List.mem_map.mp hmem
    obtain ⟨s, hsuf⟩ := hpre e he
    have h1 : (e'.1, e'.2) ∈ entries S m.rootItems [] := t_subIn e' he'
    have h2 := (idxGet_iff_mem m.index hm.idxKeys e'.1 e'.2).mp ((hm.exact e'.1 e'.2).mpr h1)
    have h3 := t_free _ h2
    simp only at h3
    rw [hee] at h3
    show False
    have h4 : g e.1 = dest ++ s := rekey_some src dest e.1 s hsuf
    rw [h4, pathSuffix_append dest s (pathSuffix_some _ _ _ hsuf).2] at h3
    cases h3
  -- the loop
  have hloop : L0.foldl (mvStep src dest) (m.refs, root2) = ks.foldl (kStep g) (m.refs, root2) := by
    apply mvLoop_eq g src dest L0
    intro e he
    obtain ⟨s, hsuf⟩ := hpre e he
    obtain ⟨h1, _⟩ := pathSuffix_some _ _ _ hsuf
    refine ⟨?_, ?_⟩
    · rw [h1]; exact List.isPrefixOf_iff_prefix.mpr (List.prefix_append _ _)
    · show _ = rekey src dest e.1
      rw [rekey_some src dest e.1 s hsuf]
      conv => lhs; rw [h1, List.drop_left]
  have hinv := kLoop_inv g m.refs hrex.1 hrex.2.1 root2 ks hksnd hgfresh
  rw [← hloop] at hinv
  have htop2 : ∀ h k, TopEl h k root2 → h.name = S.nmShortName → S.isRef h.ety.typ = false := by
    obtain ⟨k1, hk1⟩ := t_root
    rw [hk1]
    intro h k htop hn
    rcases htop with ⟨rfl, _⟩ | htop
    · exact absurd hn hm.rootName
    · exact htop.elim
  have hmoved := movedOk_keys S hR g m.refs root2 hnd2 t_sn htop2 hx2 ks hksnd hgfresh
  have htree : m'.rootItems = foldTexts g (ks.map fun k => (k, refsGet m.refs k)) root2 := by
    rw [hroot, hinv.tree]
    unfold foldTexts
    show List.foldl _ root2 (L0.map (·.1)) = _
    rw [List.foldl_map, List.foldl_map, List.foldl_map]
  have hmapk : (ks.map fun k => (k, refsGet m.refs k)).map (·.1) = ks := by
    rw [List.map_map]; exact List.map_id' _
  have htopOk2 : topOk S root2 := by
    obtain ⟨k1, hk1⟩ := t_root
    rw [hk1]
    exact ⟨fun e => absurd e hm.rootName, trivial⟩
  have hids3 : m'.rootItems.ids = root2.ids := by rw [htree, foldTexts_ids hmoved]
  have hent3 : entries S m'.rootItems [] = entries S root2 [] := by rw [htree, foldTexts_entries hmoved]
  have hsn3 : SnOk S m'.rootItems := by rw [htree]; exact (foldTexts_snOk hmoved t_sn htopOk2).1
  have hexact : ∀ q i, idxGet m'.index q = some i ↔ (q, i) ∈ entries S m'.rootItems [] := by
    intro q i
    rw [hidx, idxFix_get m.index src dest hm.idxKeys t_free q i, hent3, List.Perm.mem_iff t_ents, List.mem_map]
    constructor
    · rintro ⟨q0, h1, h2⟩
      exact ⟨(q0, i), (hm.exact q0 i).mp h1, by rw [← h2]⟩
    · rintro ⟨⟨q0, i0⟩, h1, h2⟩
      obtain ⟨h3, h4⟩ := Prod.mk.inj h2
      simp only at h3 h4
      subst h4
      exact ⟨q0, (hm.exact q0 i0).mpr h1, h3⟩
  -- the texts
  have hphi : ∀ t, (if t ∈ ks then g t else t) = mvText m.index src dest t := by
    intro t
    unfold mvText
    by_cases ht : t ∈ ks
    · rw [if_pos ht]
      obtain ⟨e, he, rfl⟩ := List.mem_map.mp ht
      have h1 : (e.1, e.2) ∈ entries S m.rootItems [] := t_subIn e he
      rw [(hm.exact e.1 e.2).mpr h1]
      rfl
    · rw [if_neg ht]
      cases hg : idxGet m.index t with
      | none => rfl
      | some j =>
        show t = rekey src dest t
        cases hps : pathSuffix src t with
        | none => rw [rekey_none _ _ _ hps]
        | some s0 =>
          exfalso
          apply ht
          have := t_under (t, j) ((hm.exact t j).mp hg) s0 hps
          exact List.mem_map.mpr ⟨(t, j), this, rfl⟩
  have href3 : refEntries S m'.rootItems = (refEntries S root2).map fun e => (mvText m.index src dest e.1, e.2) := by
    rw [htree, foldTexts_refEntries hmoved, hmapk]
    apply List.map_congr_left
    intro e _
    rw [← hphi e.1]
    split <;> rfl
  refine ⟨⟨?_, ?_, ?_, ?_, ?_, hsn3, ?_, ?_, hexact⟩, ?_, ?_, ?_⟩
  · rw [hfiles]; exact hm.vers
  · rw [hids3]; exact hnd2
  · intro _ i hi
    rw [hids3] at hi
    exact hm.bound hs.iss i ((List.Perm.mem_iff t_ids).mp hi)
  · intro hi; rw [hiss, hs.iss] at hi; cases hi
  · rw [hhdr]; exact hm.rootName
  · refine keysNodup_of_functional _ (entries_ids_nodup S _ (hids3 ▸ hnd2) []) ?_
    intro q i j hi hj
    have h1 := (hexact q i).mpr hi
    have h2 := (hexact q j).mpr hj
    rw [h1] at h2
    exact Option.some.inj h2
  · rw [hidx]; exact idxFix_keysNodup m.index src dest hm.idxKeys t_free
  · refine ⟨?_, ?_, ?_⟩
    · rw [hrefs]; exact hinv.nd
    · rw [hrefs]; exact hinv.ne
    · intro q id
      rw [hrefs, hinv.cnt q id, href3]
      have h1 : csum (fun e => (if e.1 ∈ ks then g e.1 else e.1) == q) m.refs id =
          ((flatRefs m.refs).map fun y => (mvText m.index src dest y.1, y.2)).count (q, id) := by
        rw [flatRefs_count_map (mvText m.index src dest) m.refs q id]
        unfold csum
        congr 2
        apply List.filter_congr
        intro e _
        rw [hphi e.1]
      rw [h1]
      exact ((flatRefs_perm S hx2).map _).count_eq _
  · rw [href3]
    exact hrefs2.map _
  · intro t e ht
    rw [hidx, idxFix_get m.index src dest hm.idxKeys t_free]
    exact ⟨t, ht, rfl⟩

end model

/-! ### the world -/

section world
variable (S : Spec) (V : Env) (vOk : Nat)

theorem topEl_childElems_ne {h : Hdr} {k : Items} {its : Items} (ht : TopEl h k its) : its.childElems ≠ [] := by
  induction its with
  | nil => exact ht.elim
  | text c r ih => exact ih ht
  | elem hd kk r _ _ => simp [Items.childElems]

theorem setShortName_named (sh : Hdr) (a : Items) (rest : Items) (nm : Bytes) :
    setShortName (.elem sh a rest) nm = .elem sh (.text (.str nm) .nil) rest := rfl

/-- 4. THE REAL MOVE of an identifiable element (it has the item name `orig`) to another parent `p` of the same model, in a
world with the full invariant.  The hypotheses `hr`, `hsp`, `hany`, `he` are the facts `opMove_cases` provides for the branch.
The new world satisfies the index invariant `WInv` and the reference invariant `WRInv`; the index of the model is the old
index re-keyed from the old path to `dest` = path of `p` / first free name; every reference element that had the text `t` has
the text `mvText … t` (re-keyed if `t` designated an element, unchanged otherwise) — C06 —; and a path that designated the
element `e` designates `e`, re-keyed, afterwards. -/
theorem opMove_real (hH : IdxHyp S V vOk) (hR : RefWF S) (w : World) (p x : Nat) (pos? : Option Nat) (hg : GInv S vOk w)
    {k : Nat} {cx cp : List (Hdr × Items)} {ver lo hi : Nat} {sph : Hdr} {spk : Items}
    (hr : MoveRun S V w p x pos? k cx cp ver lo hi sph spk) (hsp : sph.id ≠ p)
    (hany : (cp.any fun (h, _) => h.id = x) = false)
    (orig : Bytes) (hnamed : itemName S (lastOf cx).1 (lastOf cx).2 = some orig) (m' : Model)
    (hm' : m' = moveModel S (w.models[k]!) sph spk x p (pos?.getD hi) (lastOf cx).1 (lastOf cx).2
          (pathOfChain S cx) (pathOfChain S cp)
          (subtreePaths S ((lastOf cx).2.size + 2) (lastOf cx).1 (lastOf cx).2 (namesOfChain S cx.dropLast))) :
    ∃ dest,
      dest = pathOfChain S cp ++ 47 :: (uniqueName (w.models[k]!).index (pathOfChain S cp) orig ((w.models[k]!).index.length + 2) 0).1 ∧
      WInv S vOk (setModel w k m') ∧ WRInv S (setModel w k m') ∧
      m'.index = idxFix (w.models[k]!).index (pathOfChain S cx) dest ∧
      (refEntries S m'.rootItems).Perm ((refEntries S (w.models[k]!).rootItems).map fun e =>
        (mvText (w.models[k]!).index (pathOfChain S cx) dest e.1, e.2)) ∧
      (∀ t e, idxGet (w.models[k]!).index t = some e → idxGet m'.index (rekey (pathOfChain S cx) dest t) = some e) := by
  obtain ⟨hinv, ⟨⟨hw, hrinv, hleaf, _⟩, _⟩, _⟩ := hg
  obtain ⟨m, hm1, hm2, hmem, hcx⟩ := locate_chain w x k cx hr.locx
  obtain ⟨m0, hm1', _, _, hcp⟩ := locate_chain w p k cp hr.locp
  obtain rfl : m = m0 := by rw [hm1] at hm1'; exact Option.some.inj hm1'
  have hverx := hr.verx
  rw [hm2] at hm' hverx ⊢
  have hm := hw m hmem
  obtain ⟨hox, hidx⟩ := chain_occ x m.rootItems cx hcx
  obtain ⟨hop, hidp⟩ := chain_occ p m.rootItems cp hcp
  obtain ⟨hkx, hsx⟩ := kidsOk_of_occ S _ hm.sn _ _ hox
  have hident : isIdentifiable S (lastOf cx).1 (lastOf cx).2 = true := itemName_some_identifiable S _ _ orig hnamed
  have hslash : 47 ∉ orig := itemName_no_slash S _ _ hkx orig hnamed
  obtain ⟨hfresh, hcand⟩ := uniqueName_fresh m.index (pathOfChain S cp) orig
  obtain ⟨nm, hnm⟩ : ∃ nm, (uniqueName m.index (pathOfChain S cp) orig (m.index.length + 2) 0).1 = nm := ⟨_, rfl⟩
  rw [hnm] at hfresh
  have hnmslash : 47 ∉ nm := by rw [← hnm, hcand]; exact candName_no_slash orig _ hslash
  -- the parent of x holds an element, the destination accepts elements: neither is a reference element
  have hpmode : S.mode (lastOf cp).1.ety.typ ≠ .characters := by
    intro e
    have := hr.range
    unfold insertRange at this
    rw [if_pos e] at this; cases this
  have hr2 : S.isRef (lastOf cp).1.ety.typ = false := by
    cases h : S.isRef (lastOf cp).1.ety.typ with
    | false => rfl
    | true => exact absurd (hR.ref_chars _ h) hpmode
  have hpname : (lastOf cp).1.name ≠ S.nmShortName := by
    intro hn
    exact hpmode (properSn_mode S (sn_proper_of_occ S _ hm.sn (hm.topOk S vOk) _ _ hop hn))
  have hr1 : S.isRef sph.ety.typ = false := by
    rcases chain_parent x m.rootItems cx hcx hm.ids with ⟨hd0, _⟩ | ⟨ph', pk', hgl, hosp, htop, _⟩
    · have := hr.par
      rw [hd0] at this; cases this
    · rw [hr.par] at hgl
      obtain ⟨rfl, rfl⟩ := Prod.mk.inj (Option.some.inj hgl)
      cases h : S.isRef sph.ety.typ with
      | false => rfl
      | true => exact absurd (hleaf m hmem _ _ hosp h) (topEl_childElems_ne htop)
  have hsit : MvSit S vOk w.nextId m x p (pos?.getD hi) cx cp sph spk (lastOf cx).1 (lastOf cx).2 (lastOf cp).1 (lastOf cp).2
      orig nm :=
    ⟨hm, issued_of_minVersion S V vOk hm x cx hcx ver hverx, hcx, hcp, rfl, rfl, hr.par, hsp, hr.ne, hany, hnamed, hpname,
      fun hf => moveRun_pos S V vOk hH hw hr hf, hnmslash, hfresh⟩
  obtain ⟨sh, rest, tr⟩ := hsit.tree
  -- the renaming step
  have hmv : mvName S m.index (pathOfChain S cp) (lastOf cx).1 (lastOf cx).2 =
      (.elem sh (.text (.str nm) .nil) rest, pathOfChain S cp ++ 47 :: nm, false) := by
    rcases mvName_cases S m.index (pathOfChain S cp) (lastOf cx).1 (lastOf cx).2 with ⟨h0, _⟩ | ⟨_, h2, _⟩ | ⟨o, _, h2, h3⟩
    · rw [hident] at h0; cases h0
    · rw [hnamed] at h2; cases h2
    · rw [hnamed] at h2
      obtain rfl := Option.some.inj h2
      rw [h3, hnm, path_norm]
      congr 1
      rw [tr.shape]
      split
      · rfl
      · rename_i hc
        have hc0 : (uniqueName m.index (pathOfChain S cp) orig (m.index.length + 2) 0).2 = 0 := by omega
        have : nm = orig := by rw [← hnm, hcand, hc0]; rfl
        rw [this]
  have hL0 : subtreePaths S ((lastOf cx).2.size + 2) (lastOf cx).1 (lastOf cx).2 (namesOfChain S cx.dropLast) =
      entries S (.elem (lastOf cx).1 (lastOf cx).2 .nil) (pathOfChain S cx.dropLast) := by
    rw [subtreePaths_eq S _ _ _ hkx hsx, namesOfChain_path]
  have hhas : HasRoot m.rootHdr ((entries S (.elem (lastOf cx).1 (lastOf cx).2 .nil) (pathOfChain S cx.dropLast)).foldl
      (mvStep (pathOfChain S cx) (pathOfChain S cp ++ 47 :: nm))
      (m.refs, mvRoot2 m sph spk x p (pos?.getD hi) (lastOf cx).1 (.elem sh (.text (.str nm) .nil) rest))).2 :=
    mvLoop_pres (HasRoot m.rootHdr) (fun its t txt hi => hasRoot_modify _ t _ (refEdit_fst txt) its hi) _ _ _ _ tr.root
  obtain ⟨a1, a2, _, _, a5, a6⟩ := setRoot_hasRoot m m.rootHdr _ hhas
  have hmeq : m' = { m.setRoot ((entries S (.elem (lastOf cx).1 (lastOf cx).2 .nil) (pathOfChain S cx.dropLast)).foldl
        (mvStep (pathOfChain S cx) (pathOfChain S cp ++ 47 :: nm))
        (m.refs, mvRoot2 m sph spk x p (pos?.getD hi) (lastOf cx).1 (.elem sh (.text (.str nm) .nil) rest))).2 with
      index := idxFix m.index (pathOfChain S cx) (pathOfChain S cp ++ 47 :: nm)
      refs := ((entries S (.elem (lastOf cx).1 (lastOf cx).2 .nil) (pathOfChain S cx.dropLast)).foldl
        (mvStep (pathOfChain S cx) (pathOfChain S cp ++ 47 :: nm))
        (m.refs, mvRoot2 m sph spk x p (pos?.getD hi) (lastOf cx).1 (.elem sh (.text (.str nm) .nil) rest))).1 } := by
    rw [hm']
    unfold moveModel mvIdx
    rw [hmv, hL0, if_pos hident]
  obtain ⟨o1, o2, o3, o4⟩ := hsit.out hR (hrinv m hmem) hr1 hr2 tr m' (by rw [hmeq]; exact a1) (by rw [hmeq]) (by rw [hmeq])
    (by rw [hmeq]; exact a2) (by rw [hmeq]; exact a6) (by rw [hmeq]; exact a5)
  refine ⟨pathOfChain S cp ++ 47 :: nm, by rw [hnm], winv_update S vOk w _ k _ hw (Nat.le_refl _) o1 rfl,
    wrinv_update S w _ k _ hrinv o2 rfl, by rw [hmeq], o3, o4⟩

/-- `move_element_here` of an element that has an item name keeps the index invariant and the reference invariant — in every
branch (unchanged world, position change, real move) -/
theorem opMove_winv_rinv_named (hH : IdxHyp S V vOk) (hR : RefWF S) (w : World) (p x : Nat) (pos? : Option Nat)
    (hg : GInv S vOk w) (hnamed : ∀ k cx, locate w x = some (k, cx) → itemName S (lastOf cx).1 (lastOf cx).2 ≠ none) :
    WInv S vOk (opMove S V w p x pos?).1 ∧ WRInv S (opMove S V w p x pos?).1 := by
  have hw : WInv S vOk w := hg.2.1.1.1
  rcases opMove_cases S V w p x pos? with h0 | ⟨k, cx, cp, ver, lo, hi, sph, spk, q, cur, hr, hsp, hq, hlen, hcur, he⟩ |
    ⟨k, cx, cp, ver, lo, hi, sph, spk, hr, hsp, hany, hf, he⟩
  · rw [h0]; exact ⟨hw, hg.2.1.1.2.1⟩
  · have := opMove_pos_ginv' S V vOk hH w p x pos? hg k cx cp ver lo hi sph spk q cur hr hq hcur he
      (not_sn_of_named S vOk w hw x k cx hr.locx (hnamed k cx hr.locx))
    exact ⟨this.2.1.1.1, this.2.1.1.2.1⟩
  · cases hn : itemName S (lastOf cx).1 (lastOf cx).2 with
    | none => exact absurd hn (hnamed k cx hr.locx)
    | some orig =>
      obtain ⟨dest, _, h1, h2, _⟩ := opMove_real S V vOk hH hR w p x pos? hg hr hsp hany orig hn _ rfl
      rw [he]
      exact ⟨h1, h2⟩

end world
end AV.W
