/-
C14: sorting with a comparison that is a total preorder is a content-preserving, idempotent
canonicalisation, and — where no two different elements tie — independent of the order before.
Stated for an arbitrary comparison `le`; the instance used by the model is `childLe`
(index path in the parent's type, then `impl Ord for Element`).
-/
import AutosarVerif.Model.Sort

namespace AV.W

variable {α : Type}

/-- sorting only permutes: every element is kept, none is added -/
theorem sort_perm (le : α → α → Bool) (l : List α) : (l.mergeSort le).Perm l := List.mergeSort_perm l le

theorem sort_sorted (le : α → α → Bool) (htrans : ∀ a b c, le a b = true → le b c = true → le a c = true)
    (htotal : ∀ a b, (le a b || le b a) = true) (l : List α) : (l.mergeSort le).Pairwise (fun a b => le a b = true) :=
  List.pairwise_mergeSort htrans htotal l

/-- sorting twice = sorting once -/
theorem sort_idem (le : α → α → Bool) (htrans : ∀ a b c, le a b = true → le b c = true → le a c = true)
    (htotal : ∀ a b, (le a b || le b a) = true) (l : List α) : (l.mergeSort le).mergeSort le = l.mergeSort le :=
  List.mergeSort_of_pairwise (sort_sorted le htrans htotal l)

/-- the result does not depend on the order before, when different elements never tie -/
theorem sort_order_independent (le : α → α → Bool) (htrans : ∀ a b c, le a b = true → le b c = true → le a c = true)
    (htotal : ∀ a b, (le a b || le b a) = true) (hanti : ∀ a b, le a b = true → le b a = true → a = b)
    (l1 l2 : List α) (hp : l1.Perm l2) : l1.mergeSort le = l2.mergeSort le := by
  apply List.Perm.eq_of_pairwise (le := fun a b => le a b = true)
  · intro a b _ _ h1 h2; exact hanti a b h1 h2
  · exact sort_sorted le htrans htotal l1
  · exact sort_sorted le htrans htotal l2
  · exact (sort_perm le l1).trans (hp.trans (sort_perm le l2).symm)

/-- an already sorted list is left alone (so an ordered result is a fixed point) -/
theorem sort_of_sorted (le : α → α → Bool) (l : List α) (h : l.Pairwise (fun a b => le a b = true)) : l.mergeSort le = l :=
  List.mergeSort_of_pairwise h

/-! the index-path part of the sort key is a total order -/

theorem cmpIdx_refl (a : List Nat) : cmpIdx a a = .eq := by
  induction a with
  | nil => rfl
  | cons x xs ih => simp [cmpIdx, ih]

theorem cmpIdx_total (a b : List Nat) : cmpIdx a b ≠ .gt ∨ cmpIdx b a ≠ .gt := by
  induction a generalizing b with
  | nil => cases b <;> simp [cmpIdx]
  | cons x xs ih =>
    cases b with
    | nil => simp [cmpIdx]
    | cons y ys =>
      simp only [cmpIdx]
      by_cases h1 : x < y
      · simp [h1]
      · by_cases h2 : x > y
        · have : ¬ y > x := by omega
          have : y < x := by omega
          simp [h1, h2, this]
        · have hxy : x = y := by omega
          subst hxy
          simp only [Nat.lt_irrefl, if_false, gt_iff_lt]
          exact ih ys

/-- on a node whose content is sorted, the multiset of child elements is unchanged:
the sorted children are a permutation of the (recursively sorted) children -/
theorem sortNode_children_perm (S : Spec) (V : Env) (typ fuel : Nat) (kids : List (Hdr × Items)) :
    (kids.mergeSort (childLe S V typ fuel)).Perm kids := List.mergeSort_perm _ _

end AV.W
