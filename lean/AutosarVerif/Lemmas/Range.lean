/-
C07: the insertion range of `calc_element_insert_range` for a parent whose existing children and the new element lie
in one SEQUENCE group ("flat sequence").  The scan is abstracted to a scan over the list of the children's index
paths (`seqScan`); `rangeScan_eq_seqScan` ties the abstraction to the model function that the driver runs.

Main results, for keys compared by any comparison with a transitive `≤` and `cmp a b = lt ↔ cmp b a = gt`
(`cmpIdx`, the lexicographic comparison of index paths, is one: `cmpIdx_laws`), and children in specification order:

* `seqScan_range_exact`: with repetition allowed the scan answers `(lo, hi)` and a position `p` lies in `[lo, hi]`
  exactly when inserting the new key at `p` leaves the list in order;
* `seqScan_none_iff`: without repetition the scan refuses exactly when an equal key is present, and otherwise the same
  characterisation holds (`seqScan_range_exact_norep`).
-/
import AutosarVerif.Model.WorldOps

namespace AV.W

/-- the laws of the comparison that the proofs use -/
structure CmpLaws {K : Type} (cmp : K → K → Ordering) : Prop where
  le_trans : ∀ a b c, cmp a b ≠ .gt → cmp b c ≠ .gt → cmp a c ≠ .gt
  swap : ∀ a b, cmp a b = .lt ↔ cmp b a = .gt

section abstract
variable {K : Type} (cmp : K → K → Ordering)

/-- the loop of `calc_element_insert_range` over a flat sequence: `i` = index of the head of the list -/
def seqScan (rep : Bool) (new : K) : List K → Nat → Nat → Nat → Option (Nat × Nat)
  | [], _, lo, hi => some (lo, hi)
  | x :: r, i, lo, hi =>
    match cmp new x with
    | .lt => some (lo, hi)
    | .eq => if rep then seqScan rep new r (i + 1) lo (i + 1) else none
    | .gt => seqScan rep new r (i + 1) (i + 1) (i + 1)

/-- in specification order -/
def InOrder (l : List K) : Prop := l.Pairwise fun a b => cmp a b ≠ .gt

/-- inserting `new` at position `p` leaves the list in order -/
def Fits (l : List K) (p : Nat) (new : K) : Prop := InOrder cmp (l.take p ++ new :: l.drop p)

/-- number of leading keys that are smaller than `new` -/
def nBefore (new : K) (l : List K) : Nat := (l.takeWhile fun x => cmp new x == .gt).length
/-- number of leading keys that are not greater than `new` -/
def nUpTo (new : K) (l : List K) : Nat := (l.takeWhile fun x => cmp new x != .lt).length

variable {cmp}

theorem nBefore_le_nUpTo (new : K) (l : List K) : nBefore cmp new l ≤ nUpTo cmp new l := by
  induction l with
  | nil => simp [nBefore, nUpTo]
  | cons x r ih =>
    unfold nBefore nUpTo at *
    simp only [List.takeWhile_cons]
    cases h : cmp new x <;> simp <;> omega

/-- the scan over an ordered list, with repetition allowed -/
theorem seqScan_rep (L : CmpLaws cmp) (new : K) (l : List K) (hs : InOrder cmp l) (i lo : Nat) :
    seqScan cmp true new l i lo i =
      some (if nBefore cmp new l = 0 then lo else i + nBefore cmp new l, i + nUpTo cmp new l) := by
  induction l generalizing i lo with
  | nil => simp [seqScan, nBefore, nUpTo]
  | cons x r ih =>
    have hr : InOrder cmp r := (List.pairwise_cons.mp hs).2
    have hx : ∀ y ∈ r, cmp x y ≠ .gt := (List.pairwise_cons.mp hs).1
    unfold seqScan
    cases h : cmp new x with
    | lt => simp [nBefore, nUpTo, h]
    | gt =>
      simp only [ih hr (i + 1) (i + 1)]
      have h1 : nBefore cmp new (x :: r) = nBefore cmp new r + 1 := by simp [nBefore, h]
      have h2 : nUpTo cmp new (x :: r) = nUpTo cmp new r + 1 := by simp [nUpTo, h]
      rw [h1, h2]
      congr 1
      ext1
      · split <;> simp <;> omega
      · simp; omega
    | eq =>
      simp only [if_true, ih hr (i + 1) lo]
      have hb : nBefore cmp new r = 0 := by
        cases r with
        | nil => simp [nBefore]
        | cons y r' =>
          have : cmp new y ≠ .gt := L.le_trans new x y (by rw [h]; simp) (hx y (List.mem_cons_self ..))
          unfold nBefore
          simp only [List.takeWhile_cons]
          cases hy : cmp new y <;> simp_all
      have h1 : nBefore cmp new (x :: r) = 0 := by simp [nBefore, h]
      have h2 : nUpTo cmp new (x :: r) = nUpTo cmp new r + 1 := by simp [nUpTo, h]
      rw [h1, h2, hb]
      simp
      omega

/-- `∀ x ∈ take p l, P x` exactly when `p` is at most the length of the longest prefix satisfying `P` -/
theorem all_take_iff (P : K → Bool) (l : List K) (p : Nat) (hp : p ≤ l.length) :
    (∀ x ∈ l.take p, P x = true) ↔ p ≤ (l.takeWhile P).length := by
  induction l generalizing p with
  | nil => simp at hp; subst hp; simp
  | cons x r ih =>
    cases p with
    | zero => simp
    | succ q =>
      have hq : q ≤ r.length := by simpa using hp
      simp only [List.take_succ_cons, List.mem_cons, forall_eq_or_imp, List.takeWhile_cons]
      cases hx : P x
      · simp
      · simp only [true_and, if_true, List.length_cons, Nat.add_le_add_iff_right]
        exact ih q hq

/-- in an ordered list the keys smaller than `new` are exactly the first `nBefore` ones -/
theorem all_drop_iff (L : CmpLaws cmp) (new : K) (l : List K) (hs : InOrder cmp l) (p : Nat) :
    (∀ x ∈ l.drop p, cmp new x ≠ .gt) ↔ nBefore cmp new l ≤ p := by
  induction l generalizing p with
  | nil => simp [nBefore]
  | cons x r ih =>
    have hr : InOrder cmp r := (List.pairwise_cons.mp hs).2
    have hx : ∀ y ∈ r, cmp x y ≠ .gt := (List.pairwise_cons.mp hs).1
    by_cases hg : cmp new x = .gt
    · have h1 : nBefore cmp new (x :: r) = nBefore cmp new r + 1 := by simp [nBefore, hg]
      rw [h1]
      cases p with
      | zero =>
        simp only [List.drop_zero, List.mem_cons, forall_eq_or_imp]
        constructor
        · intro h; exact absurd hg h.1
        · intro h; omega
      | succ q =>
        simp only [List.drop_succ_cons, Nat.add_le_add_iff_right]
        exact ih hr q
    · have h1 : nBefore cmp new (x :: r) = 0 := by
        unfold nBefore; simp only [List.takeWhile_cons]
        cases hc : cmp new x <;> simp_all
      rw [h1]
      simp only [Nat.zero_le, iff_true]
      intro y hy
      have hy' : y ∈ x :: r := List.mem_of_mem_drop hy
      rcases List.mem_cons.mp hy' with rfl | hyr
      · exact hg
      · exact L.le_trans new x y hg (hx y hyr)

/-- inserting at `p` keeps an ordered list in order exactly when everything before is `≤ new` and everything after `≥ new` -/
theorem fits_iff (L : CmpLaws cmp) (new : K) (l : List K) (hs : InOrder cmp l) (p : Nat) :
    Fits cmp l p new ↔ (∀ x ∈ l.take p, (cmp new x != .lt) = true) ∧ (∀ x ∈ l.drop p, cmp new x ≠ .gt) := by
  unfold Fits InOrder
  rw [List.pairwise_append, List.pairwise_cons]
  have htake : (l.take p).Pairwise fun a b => cmp a b ≠ .gt := List.Pairwise.sublist (List.take_sublist p l) hs
  have hdrop : (l.drop p).Pairwise fun a b => cmp a b ≠ .gt := List.Pairwise.sublist (List.drop_sublist p l) hs
  constructor
  · rintro ⟨_, ⟨h2, _⟩, h3⟩
    refine ⟨?_, h2⟩
    intro x hx
    have := h3 x hx new (List.mem_cons_self ..)
    simp only [bne_iff_ne, ne_eq]
    intro hlt
    exact this ((L.swap new x).mp hlt)
  · rintro ⟨h1, h2⟩
    refine ⟨htake, ⟨h2, hdrop⟩, ?_⟩
    intro a ha b hb
    have hanew : cmp a new ≠ .gt := by
      intro hgt
      have := h1 a ha
      simp only [bne_iff_ne, ne_eq] at this
      exact this ((L.swap new a).mpr hgt)
    rcases List.mem_cons.mp hb with rfl | hb
    · exact hanew
    · exact L.le_trans a new b hanew (h2 b hb)

/-- C07 for a flat sequence, repetition allowed: the scan answers a range, and the range is exactly the set of
positions that keep the children in specification order -/
theorem seqScan_range_exact (L : CmpLaws cmp) (new : K) (l : List K) (hs : InOrder cmp l) :
    ∃ lo hi, seqScan cmp true new l 0 0 0 = some (lo, hi) ∧
      ∀ p, p ≤ l.length → ((lo ≤ p ∧ p ≤ hi) ↔ Fits cmp l p new) := by
  refine ⟨nBefore cmp new l, nUpTo cmp new l, ?_, ?_⟩
  · rw [seqScan_rep L new l hs 0 0]
    by_cases h0 : nBefore cmp new l = 0 <;> simp [h0]
  · intro p hp
    rw [fits_iff L new l hs p, all_take_iff (fun x => cmp new x != .lt) l p hp, all_drop_iff L new l hs p]
    unfold nUpTo
    constructor <;> (rintro ⟨a, b⟩; exact ⟨b, a⟩)

/-- without repetition: the scan of an ordered list refuses exactly when an equal key is present -/
theorem seqScan_none_iff (L : CmpLaws cmp) (new : K) (l : List K) (hs : InOrder cmp l) (i lo hi : Nat) :
    seqScan cmp false new l i lo hi = none ↔ ∃ x ∈ l, cmp new x = .eq := by
  induction l generalizing i lo hi with
  | nil => simp [seqScan]
  | cons x r ih =>
    have hr : InOrder cmp r := (List.pairwise_cons.mp hs).2
    have hx : ∀ y ∈ r, cmp x y ≠ .gt := (List.pairwise_cons.mp hs).1
    unfold seqScan
    cases h : cmp new x with
    | eq => simp [h]
    | gt =>
      simp only [ih hr]
      constructor
      · rintro ⟨y, hy, he⟩; exact ⟨y, List.mem_cons_of_mem _ hy, he⟩
      · rintro ⟨y, hy, he⟩
        rcases List.mem_cons.mp hy with rfl | hy
        · rw [h] at he; cases he
        · exact ⟨y, hy, he⟩
    | lt =>
      simp only [reduceCtorEq, false_iff]
      rintro ⟨y, hy, he⟩
      rcases List.mem_cons.mp hy with rfl | hy
      · rw [h] at he; cases he
      · -- new < x ≤ y, so new = y is impossible
        have hxn : cmp x new = .gt := (L.swap new x).mp h
        have : cmp x new ≠ .gt := L.le_trans x y new (hx y hy) (by
          intro hgt
          have := (L.swap new y).mpr hgt
          rw [he] at this; cases this)
        exact this hxn

/-- with or without repetition the scans agree whenever the one without repetition answers -/
theorem seqScan_norep_eq (new : K) (l : List K) (i lo hi : Nat) (r : Nat × Nat)
    (h : seqScan cmp false new l i lo hi = some r) : seqScan cmp true new l i lo hi = some r := by
  induction l generalizing i lo hi with
  | nil => simpa [seqScan] using h
  | cons x rest ih =>
    unfold seqScan at h ⊢
    cases hc : cmp new x with
    | lt => simpa [hc] using h
    | eq => simp [hc] at h
    | gt => simp only [hc] at h ⊢; exact ih _ _ _ h

theorem seqScan_range_exact_norep (L : CmpLaws cmp) (new : K) (l : List K) (hs : InOrder cmp l) (lo hi : Nat)
    (h : seqScan cmp false new l 0 0 0 = some (lo, hi)) :
    ∀ p, p ≤ l.length → ((lo ≤ p ∧ p ≤ hi) ↔ Fits cmp l p new) := by
  obtain ⟨lo', hi', h1, h2⟩ := seqScan_range_exact L new l hs
  have := seqScan_norep_eq new l 0 0 0 (lo, hi) h
  rw [h1] at this
  cases this
  exact h2

end abstract

/-! ### `cmpIdx` (the `Ord` of `Vec<usize>`) satisfies the laws -/

theorem cmpIdx_swap : ∀ a b : List Nat, cmpIdx a b = .lt ↔ cmpIdx b a = .gt
  | [], [] => by simp [cmpIdx]
  | [], _ :: _ => by simp [cmpIdx]
  | _ :: _, [] => by simp [cmpIdx]
  | a :: as, b :: bs => by
    unfold cmpIdx
    by_cases h1 : a < b
    · have : ¬ b < a := by omega
      simp [h1, this]
    · by_cases h2 : a > b
      · have h3 : b < a := h2
        simp [h1, h2]
      · have h3 : ¬ b < a := h2
        have h4 : ¬ b > a := h1
        simp only [h1, h2, if_false]
        exact cmpIdx_swap as bs

theorem cmpIdx_le_trans : ∀ a b c : List Nat, cmpIdx a b ≠ .gt → cmpIdx b c ≠ .gt → cmpIdx a c ≠ .gt
  | [], _, [] => by simp [cmpIdx]
  | [], _, _ :: _ => by simp [cmpIdx]
  | _ :: _, [], _ => by simp [cmpIdx]
  | _ :: _, _ :: _, [] => by simp [cmpIdx]
  | a :: as, b :: bs, c :: cs => by
    unfold cmpIdx
    intro h1 h2
    by_cases hab : a < b
    · by_cases hbc : b < c
      · have : a < c := by omega
        simp [this]
      · by_cases hcb : b > c
        · simp [hbc, hcb] at h2
        · have : a < c := by omega
          simp [this]
    · by_cases hba : a > b
      · simp [hab, hba] at h1
      · have hab' : a = b := by omega
        subst hab'
        by_cases hbc : a < c
        · simp [hbc]
        · by_cases hcb : a > c
          · simp [hbc, hcb] at h2
          · simp only [hab, hbc, hcb, if_false] at h1 h2 ⊢
            exact cmpIdx_le_trans as bs cs h1 h2

theorem cmpIdx_laws : CmpLaws cmpIdx := ⟨cmpIdx_le_trans, cmpIdx_swap⟩

/-! ### the model's scan over the content of a flat sequence is `seqScan` over the children's index paths -/

section tie
variable (S : Spec)

/-- `kids` holds only elements, each known to the parent type (in the version or at all), each in a common SEQUENCE
group with the new element; `keys` are their index paths -/
inductive FlatSeq (typ ver : Nat) (newIdx : List Nat) : Items → List (List Nat) → Prop
  | nil : FlatSeq typ ver newIdx .nil []
  | cons (sh : Hdr) (sk r : Items) (e : ETy) (exIdx : List Nat) (keys : List (List Nat))
      (hfind : S.findSubOr typ sh.name ver = some (e, exIdx))
      (hmode : S.mode (S.commonGroup typ newIdx exIdx) = .sequence)
      (hr : FlatSeq typ ver newIdx r keys) : FlatSeq typ ver newIdx (.elem sh sk r) (exIdx :: keys)

/-- repetition of the new element is allowed (`get_sub_element_multiplicity` is `Any`, or unknown) -/
def repAllowed (typ : Nat) (newIdx : List Nat) : Bool :=
  match S.subMult typ newIdx with
  | some .any => true
  | some _ => false
  | none => true

theorem rangeScan_eq_seqScan (typ ver : Nat) (newIdx : List Nat) (kids : Items) (keys : List (List Nat))
    (hf : FlatSeq S typ ver newIdx kids keys) (i lo hi : Nat) :
    rangeScan S typ ver newIdx kids i lo hi = seqScan cmpIdx (repAllowed S typ newIdx) newIdx keys i lo hi := by
  induction hf generalizing i lo hi with
  | nil => simp [rangeScan, seqScan]
  | cons sh sk r e exIdx keys hfind hmode _ ih =>
    unfold rangeScan seqScan
    simp only [hfind, hmode]
    cases hc : cmpIdx newIdx exIdx with
    | lt => rfl
    | gt => simp only [ih]
    | eq =>
      unfold repAllowed
      cases hm : S.subMult typ newIdx with
      | none => simp only [ih]; simp [repAllowed, hm]
      | some mu =>
        cases mu <;> simp [ih, repAllowed, hm]

end tie

end AV.W
