/-
C04: `fix_identifiables` (`idxFix`) as a key rewriting of the path index.

The index is an association list; `idxFix idx old new` folds over a snapshot of the list and moves every key at or below `old`
to the corresponding key at or below `new`.  With pairwise different keys and no key at or below `new`, the result is the
index whose keys are rewritten by `rekey old new` (`idxFix_get`), and its keys are again pairwise different
(`idxFix_keysNodup`).
-/
import AutosarVerif.Lemmas.IndexDefs

namespace AV.W

/-! ### the index as a finite map: insert, remove, lookup -/

/-- lookup after insert, other key -/
theorem idxGet_insert_other (idx : List (Bytes × Nat)) (p q : Bytes) (id : Nat) (hq : q ≠ p) :
    idxGet (idxInsert idx p id) q = idxGet idx q := by
  have hpq : (p == q) = false := by simpa using (Ne.symm hq)
  unfold idxInsert
  split
  · rename_i hany; clear hany
    induction idx with
    | nil => rfl
    | cons e es ih =>
      by_cases he : e.1 = p
      · have h1 : (e.1 == p) = true := by simpa using he
        have h2 : (e.1 == q) = false := by rw [he]; exact hpq
        simp only [idxGet, List.map_cons, h1, if_true, List.find?_cons, hpq, h2] at ih ⊢
        exact ih
      · have h1 : (e.1 == p) = false := by simpa using he
        simp only [idxGet, List.map_cons, h1, Bool.false_eq_true, if_false, List.find?_cons] at ih ⊢
        cases (e.1 == q) with
        | true => rfl
        | false => exact ih
  · rename_i hany; clear hany
    induction idx with
    | nil => simp only [idxGet, List.nil_append, List.find?_cons, hpq, List.find?_nil]
    | cons e es ih =>
      simp only [idxGet, List.cons_append, List.find?_cons] at ih ⊢
      cases (e.1 == q) with
      | true => rfl
      | false => exact ih

/-- `idxInsert` does not change the keys when the key is present -/
theorem idxInsert_map_keys (idx : List (Bytes × Nat)) (p : Bytes) (id : Nat) :
    (idx.map fun e => if e.1 == p then (p, id) else e).map (·.1) = idx.map (·.1) := by
  induction idx with
  | nil => rfl
  | cons e es ih =>
    simp only [List.map_cons, List.cons.injEq]
    refine ⟨?_, ih⟩
    by_cases he : e.1 = p
    · have h1 : (e.1 == p) = true := by simpa using he
      rw [if_pos h1]; exact he.symm
    · have h1 : (e.1 == p) = false := by simpa using he
      simp only [h1, Bool.false_eq_true, if_false]

theorem idxInsert_keysNodup (idx : List (Bytes × Nat)) (p : Bytes) (id : Nat) (hn : keysNodupI idx) :
    keysNodupI (idxInsert idx p id) := by
  unfold idxInsert
  split
  · unfold keysNodupI
    rw [idxInsert_map_keys]
    exact hn
  · rename_i hany
    unfold keysNodupI at hn ⊢
    rw [List.map_append, List.nodup_append]
    refine ⟨hn, List.nodup_cons.mpr ⟨List.not_mem_nil, List.nodup_nil⟩, ?_⟩
    intro a ha b hb hab
    simp only [List.map_cons, List.map_nil, List.mem_singleton] at hb
    subst hb
    subst hab
    apply hany
    obtain ⟨e, he, hea⟩ := List.mem_map.mp ha
    rw [List.any_eq_true]
    exact ⟨e, he, by simpa using hea⟩

theorem idxRemove_keysNodup (idx : List (Bytes × Nat)) (p : Bytes) (hn : keysNodupI idx) :
    keysNodupI (idxRemove idx p) := by
  unfold keysNodupI idxRemove at *
  exact List.Nodup.sublist (List.Sublist.map _ List.filter_sublist) hn

/-- with pairwise different keys, `idxGet` is membership -/
theorem idxGet_iff_mem (idx : List (Bytes × Nat)) (hn : keysNodupI idx) (q : Bytes) (i : Nat) :
    idxGet idx q = some i ↔ (q, i) ∈ idx := by
  induction idx with
  | nil => simp [idxGet]
  | cons e es ih =>
    unfold keysNodupI at hn
    rw [List.map_cons, List.nodup_cons] at hn
    have ih' := ih hn.2
    by_cases he : e.1 = q
    · have h1 : (e.1 == q) = true := by simpa using he
      have hget : idxGet (e :: es) q = some e.2 := by
        simp only [idxGet, List.find?_cons, h1, Option.map_some]
      rw [hget]
      constructor
      · intro h
        have h2 : e.2 = i := by simpa using h
        have : e = (q, i) := by rw [← he, ← h2]
        rw [this]; exact List.mem_cons_self
      · intro h
        rcases List.mem_cons.mp h with h | h
        · rw [← h]
        · exfalso
          apply hn.1
          rw [he]
          exact List.mem_map.mpr ⟨(q, i), h, rfl⟩
    · have h1 : (e.1 == q) = false := by simpa using he
      have hget : idxGet (e :: es) q = idxGet es q := by
        simp only [idxGet, List.find?_cons, h1]
      rw [hget, ih']
      constructor
      · intro h; exact List.mem_cons_of_mem _ h
      · intro h
        rcases List.mem_cons.mp h with h | h
        · exfalso; apply he; rw [← h]
        · exact h

/-! ### `fix_identifiables` -/

/-- one step of the fold of `idxFix` -/
def fixStep (old new : Bytes) (acc : List (Bytes × Nat)) (e : Bytes × Nat) : List (Bytes × Nat) :=
  match pathSuffix old e.1 with
  | some s => idxInsert (idxRemove acc e.1) (new ++ s) e.2
  | none => acc

theorem idxFix_eq (idx : List (Bytes × Nat)) (old new : Bytes) : idxFix idx old new = idx.foldl (fixStep old new) idx := rfl

theorem fixStep_keysNodup (old new : Bytes) (acc : List (Bytes × Nat)) (e : Bytes × Nat) (hn : keysNodupI acc) :
    keysNodupI (fixStep old new acc e) := by
  unfold fixStep
  split
  · exact idxInsert_keysNodup _ _ _ (idxRemove_keysNodup _ _ hn)
  · exact hn

theorem foldl_fixStep_keysNodup (old new : Bytes) (l acc : List (Bytes × Nat)) (hn : keysNodupI acc) :
    keysNodupI (l.foldl (fixStep old new) acc) := by
  induction l generalizing acc with
  | nil => exact hn
  | cons e es ih => exact ih _ (fixStep_keysNodup old new acc e hn)

/-- a key `new ++ s` with `s` empty or starting with '/' lies at or below `new` -/
theorem pathSuffix_append (new s : Bytes) (hs : s = [] ∨ s.head? = some 47) : pathSuffix new (new ++ s) = some s := by
  cases s with
  | nil => rw [List.append_nil]; exact pathSuffix_self new
  | cons c rest =>
    rcases hs with hs | hs
    · cases hs
    · have : c = 47 := by simpa using hs
      subst this
      exact pathSuffix_child new rest

/-- the two cases of `rekey` -/
theorem rekey_cases (old new q q' : Bytes) (h : rekey old new q = q') :
    (∃ s, pathSuffix old q = some s ∧ q = old ++ s ∧ q' = new ++ s ∧ (s = [] ∨ s.head? = some 47)) ∨
    (pathSuffix old q = none ∧ q' = q) := by
  unfold rekey at h
  split at h
  · rename_i s hs
    have := pathSuffix_some old q s hs
    exact Or.inl ⟨s, hs, this.1, h.symm, this.2⟩
  · rename_i hs
    exact Or.inr ⟨hs, h.symm⟩

theorem rekey_some (old new q s : Bytes) (h : pathSuffix old q = some s) : rekey old new q = new ++ s := by
  unfold rekey; rw [h]

theorem rekey_none (old new q : Bytes) (h : pathSuffix old q = none) : rekey old new q = q := by
  unfold rekey; rw [h]

/-- the keys of the snapshot before and after an entry differ from the key of the entry -/
theorem keysNodupI_mid (done l : List (Bytes × Nat)) (e : Bytes × Nat) (hn : keysNodupI (done ++ e :: l)) :
    (∀ x ∈ done, x.1 ≠ e.1) ∧ (∀ x ∈ l, x.1 ≠ e.1) := by
  unfold keysNodupI at hn
  rw [List.map_append, List.map_cons, List.nodup_append, List.nodup_cons] at hn
  obtain ⟨_, ⟨hnot, _⟩, hdis⟩ := hn
  refine ⟨?_, ?_⟩
  · intro x hx hxe
    exact hdis x.1 (List.mem_map.mpr ⟨x, hx, rfl⟩) e.1 List.mem_cons_self hxe
  · intro x hx hxe
    apply hnot
    rw [← hxe]
    exact List.mem_map.mpr ⟨x, hx, rfl⟩

/-- the invariant of the fold: the accumulator holds the rewritten entries of the processed part `done` of the snapshot and
the entries of the part `l` still to be processed -/
theorem foldl_fixStep_get (old new : Bytes) (l done acc : List (Bytes × Nat))
    (hn : keysNodupI (done ++ l))
    (hfree : ∀ e ∈ done ++ l, pathSuffix new e.1 = none)
    (hinv : ∀ q' i, idxGet acc q' = some i ↔ (∃ q, (q, i) ∈ done ∧ rekey old new q = q') ∨ (q', i) ∈ l)
    (q' : Bytes) (i : Nat) :
    idxGet (l.foldl (fixStep old new) acc) q' = some i ↔ ∃ q, (q, i) ∈ done ++ l ∧ rekey old new q = q' := by
  induction l generalizing done acc q' i with
  | nil =>
    rw [List.foldl_nil, hinv, List.append_nil]
    constructor
    · intro h
      rcases h with h | h
      · exact h
      · cases h
    · intro h; exact Or.inl h
  | cons e l' ih =>
    rw [List.foldl_cons]
    have hassoc : done ++ [e] ++ l' = done ++ e :: l' := by
      rw [List.append_assoc]; rfl
    have key := ih (done ++ [e]) (fixStep old new acc e) (by rw [hassoc]; exact hn) (by rw [hassoc]; exact hfree)
    rw [hassoc] at key
    apply key
    clear key ih
    intro q' i
    obtain ⟨hdone, hrest⟩ := keysNodupI_mid done l' e hn
    have hfe : pathSuffix new e.1 = none := hfree e (List.mem_append_right _ List.mem_cons_self)
    have hfdone : ∀ x ∈ done, pathSuffix new x.1 = none := fun x hx => hfree x (List.mem_append_left _ hx)
    have hfrest : ∀ x ∈ l', pathSuffix new x.1 = none :=
      fun x hx => hfree x (List.mem_append_right _ (List.mem_cons_of_mem _ hx))
    cases hps : pathSuffix old e.1 with
    | none =>
      have hstep : fixStep old new acc e = acc := by unfold fixStep; rw [hps]
      rw [hstep, hinv]
      constructor
      · intro h
        rcases h with ⟨q, hq, hr⟩ | h
        · exact Or.inl ⟨q, List.mem_append_left _ hq, hr⟩
        · rcases List.mem_cons.mp h with h | h
          · refine Or.inl ⟨e.1, ?_, ?_⟩
            · rw [List.mem_append]; right
              rw [List.mem_singleton]
              have : e = (q', i) := h.symm
              rw [this]
            · rw [rekey_none old new e.1 hps, ← h]
          · exact Or.inr h
      · intro h
        rcases h with ⟨q, hq, hr⟩ | h
        · rcases List.mem_append.mp hq with hq | hq
          · exact Or.inl ⟨q, hq, hr⟩
          · rw [List.mem_singleton] at hq
            right
            rw [← hq] at hps
            rw [rekey_none old new q hps] at hr
            rw [← hr, hq]
            exact List.mem_cons_self
        · exact Or.inr (List.mem_cons_of_mem _ h)
    | some s =>
      have hstep : fixStep old new acc e = idxInsert (idxRemove acc e.1) (new ++ s) e.2 := by
        unfold fixStep; rw [hps]
      have hs := pathSuffix_some old e.1 s hps
      have hnews : pathSuffix new (new ++ s) = some s := pathSuffix_append new s hs.2
      have hne : e.1 ≠ new ++ s := by
        intro h; rw [h, hnews] at hfe; cases hfe
      rw [hstep]
      by_cases hq1 : q' = new ++ s
      · -- the new key
        subst hq1
        rw [idxGet_insert_same]
        constructor
        · intro h
          have h2 : e.2 = i := by simpa using h
          refine Or.inl ⟨e.1, ?_, rekey_some old new e.1 s hps⟩
          rw [List.mem_append]; right
          rw [List.mem_singleton, ← h2]
        · intro h
          rcases h with ⟨q, hq, hr⟩ | h
          · rcases List.mem_append.mp hq with hq | hq
            · exfalso
              rcases rekey_cases old new q _ hr with ⟨s', _, hqs, hns, _⟩ | ⟨_, hqq⟩
              · have : s = s' := List.append_cancel_left hns
                subst this
                exact hdone (q, i) hq (by rw [hqs, hs.1])
              · have := hfdone (q, i) hq
                simp only [← hqq] at this
                rw [hnews] at this; cases this
            · rw [List.mem_singleton] at hq
              rw [← hq]
          · exfalso
            have := hfrest (new ++ s, i) h
            simp only at this
            rw [hnews] at this; cases this
      · rw [idxGet_insert_other _ _ _ _ hq1]
        by_cases hq2 : q' = e.1
        · -- the old key
          subst hq2
          rw [idxGet_remove_same]
          constructor
          · intro h; cases h
          · intro h
            exfalso
            rcases h with ⟨q, hq, hr⟩ | h
            · rcases List.mem_append.mp hq with hq | hq
              · rcases rekey_cases old new q _ hr with ⟨s', _, _, hns, hs'⟩ | ⟨_, hqq⟩
                · rw [hns, pathSuffix_append new s' hs'] at hfe; cases hfe
                · exact hdone (q, i) hq hqq.symm
              · rw [List.mem_singleton] at hq
                have : q = e.1 := by rw [← hq]
                rw [this, rekey_some old new e.1 s hps] at hr
                exact hq1 hr.symm
            · exact hrest (e.1, i) h rfl
        · -- any other key
          rw [idxGet_remove_other _ _ _ hq2, hinv]
          constructor
          · intro h
            rcases h with ⟨q, hq, hr⟩ | h
            · exact Or.inl ⟨q, List.mem_append_left _ hq, hr⟩
            · rcases List.mem_cons.mp h with h | h
              · exfalso; apply hq2; rw [← h]
              · exact Or.inr h
          · intro h
            rcases h with ⟨q, hq, hr⟩ | h
            · rcases List.mem_append.mp hq with hq | hq
              · exact Or.inl ⟨q, hq, hr⟩
              · exfalso
                rw [List.mem_singleton] at hq
                have : q = e.1 := by rw [← hq]
                rw [this, rekey_some old new e.1 s hps] at hr
                exact hq1 hr.symm
            · exact Or.inr (List.mem_cons_of_mem _ h)

/-- MAIN: `fix_identifiables` is the key rewriting `rekey old new`, provided the keys are pairwise different and no key lies
at or below `new` already -/
theorem idxFix_get (idx : List (Bytes × Nat)) (old new : Bytes) (hn : keysNodupI idx)
    (hfree : ∀ e ∈ idx, pathSuffix new e.1 = none) (q' : Bytes) (i : Nat) :
    idxGet (idxFix idx old new) q' = some i ↔ ∃ q, idxGet idx q = some i ∧ rekey old new q = q' := by
  rw [idxFix_eq]
  have h := foldl_fixStep_get old new idx [] idx (by rw [List.nil_append]; exact hn)
    (by rw [List.nil_append]; exact hfree)
    (by
      intro q' i
      rw [idxGet_iff_mem idx hn]
      constructor
      · intro h; exact Or.inr h
      · intro h
        rcases h with ⟨q, hq, _⟩ | h
        · cases hq
        · exact h) q' i
  rw [h, List.nil_append]
  constructor
  · rintro ⟨q, hq, hr⟩; exact ⟨q, (idxGet_iff_mem idx hn q i).mpr hq, hr⟩
  · rintro ⟨q, hq, hr⟩; exact ⟨q, (idxGet_iff_mem idx hn q i).mp hq, hr⟩

/-- the keys stay pairwise different (`hfree` is not needed for this; it is kept so that the statement has the same
hypotheses as `idxFix_get`) -/
theorem idxFix_keysNodup (idx : List (Bytes × Nat)) (old new : Bytes) (hn : keysNodupI idx)
    (hfree : ∀ e ∈ idx, pathSuffix new e.1 = none) : keysNodupI (idxFix idx old new) := by
  have _ := hfree
  rw [idxFix_eq]
  exact foldl_fixStep_keysNodup old new idx idx hn

/-! ### the hypotheses are satisfiable and the statement is meaningful

keys "/pkg1", "/pkg10", "/pkg1/x"; old = "/pkg1", new = "/q" ('/' = 47, 'p' = 112, 'k' = 107, 'g' = 103, '1' = 49, '0' = 48,
'x' = 120, 'q' = 113): "/pkg1" and "/pkg1/x" move, "/pkg10" (which continues "/pkg1" without a '/') stays -/

/-- the hypotheses of `idxFix_get` hold for the example -/
example :
    keysNodupI [([47, 112, 107, 103, 49], 1), ([47, 112, 107, 103, 49, 48], 2), ([47, 112, 107, 103, 49, 47, 120], 3)] ∧
    ∀ e ∈ ([([47, 112, 107, 103, 49], 1), ([47, 112, 107, 103, 49, 48], 2), ([47, 112, 107, 103, 49, 47, 120], 3)] :
      List (Bytes × Nat)), pathSuffix [47, 113] e.1 = none := by
  unfold keysNodupI
  decide

/-- the result for the example: "/q" ↦ 1, "/q/x" ↦ 3, "/pkg10" ↦ 2 and nothing at "/pkg1", "/pkg1/x"; `rekey` agrees -/
example :
    let idx : List (Bytes × Nat) :=
      [([47, 112, 107, 103, 49], 1), ([47, 112, 107, 103, 49, 48], 2), ([47, 112, 107, 103, 49, 47, 120], 3)]
    let r := idxFix idx [47, 112, 107, 103, 49] [47, 113]
    idxGet r [47, 113] = some 1 ∧ idxGet r [47, 113, 47, 120] = some 3 ∧ idxGet r [47, 112, 107, 103, 49, 48] = some 2 ∧
    idxGet r [47, 112, 107, 103, 49] = none ∧ idxGet r [47, 112, 107, 103, 49, 47, 120] = none ∧
    rekey [47, 112, 107, 103, 49] [47, 113] [47, 112, 107, 103, 49] = [47, 113] ∧
    rekey [47, 112, 107, 103, 49] [47, 113] [47, 112, 107, 103, 49, 47, 120] = [47, 113, 47, 120] ∧
    rekey [47, 112, 107, 103, 49] [47, 113] [47, 112, 107, 103, 49, 48] = [47, 112, 107, 103, 49, 48] := by
  decide

end AV.W
