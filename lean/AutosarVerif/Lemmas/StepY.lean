/-
The third alphabet `OpY`: the larger alphabet `OpX` of `Model/Step.lean` (17 core operations, `set_item_name`, `sort`,
`set_reference_target`) together with `move_element_here[_at]` (inside one model) and `create_copied_sub_element[_at]`, as GUARDED
operations.  The guard of a step may depend on the STATE (`StepOkY`: `OpXOk` for the old alphabet, `MoveGuard` / `CopyGuard` of
`Lemmas/MoveCopyInv.lean` for the new operations), so the histories are given by a reachability relation `ReachY` instead of a
list of operations.

* `reachY_ginv`: in every reachable state the full invariant `GInv` holds;
* `reachY_sep`: … and the element ids of different models are apart (`SepInv`);
* `applyOpY_err_frame` / `reachY_err_frame`: a refused operation leaves the state unchanged;
* `reachY_move_refs`: C06 for a move issued in any reachable state (`opMove_real` with the invariant discharged);
* `runX_reachY`: the guarded histories of the larger alphabet are histories of the third alphabet.
-/
import AutosarVerif.Lemmas.MoveCopyInv

namespace AV.W
open Items

inductive OpY
  | x (op : OpX)
  | move (p x : Nat) (pos : Option Nat)
  | copy (p x : Nat) (pos : Option Nat)

section
variable (S : Spec) (V : Env) (vOk : Nat) (rootAttrs : List (Nat × CDv))

def applyOpY (w : World) : OpY → World × String
  | .x op => applyOpX S V rootAttrs w op
  | .move p x pos => shAns (opMove S V w p x pos)
  | .copy p x pos => shAns (opCopy S V w p x pos)

/-- the guard of one step, in the state `w` -/
def StepOkY (w : World) : OpY → Prop
  | .x op => OpXOk S vOk op
  | .move p x _ => MoveGuard S w p x
  | .copy p x _ => CopyGuard S V w p x

instance (w : World) (op : OpY) : Decidable (StepOkY S V vOk w op) := by
  cases op <;> simp only [StepOkY] <;> infer_instance

/-- the states reachable from the empty world by guarded steps -/
inductive ReachY : World → Prop
  | empty : ReachY emptyWorld
  | step (w : World) (op : OpY) : ReachY w → StepOkY S V vOk w op → ReachY (applyOpY S V rootAttrs w op).1

variable {S V vOk rootAttrs}

/-- one guarded step keeps the full invariant -/
theorem applyOpY_ginv (hH : IdxHyp S V vOk) (hR : RefWF S) (hv32 : vOk &&& 0xFFFFFFFF = vOk) (w : World) (op : OpY)
    (hop : StepOkY S V vOk w op) (h : GInv S vOk w) : GInv S vOk (applyOpY S V rootAttrs w op).1 := by
  cases op with
  | x op => exact applyOpX_ginv S V vOk rootAttrs hH hR hv32 w op hop h
  | move p x pos => exact opMove_ginv S V vOk hH hR hv32 w p x pos h hop
  | copy p x pos => exact opCopy_ginv S V vOk hH hR hv32 w p x pos h hop

/-- one guarded step keeps `SepInv`, in a world with the full invariant -/
theorem applyOpY_sep (hH : IdxHyp S V vOk) (hR : RefWF S) (hv32 : vOk &&& 0xFFFFFFFF = vOk) (w : World) (op : OpY)
    (hop : StepOkY S V vOk w op) (h : GInv S vOk w) (hs : SepInv w) : SepInv (applyOpY S V rootAttrs w op).1 := by
  cases op with
  | x op => exact applyOpX_sep S V vOk rootAttrs w op h.2.1.1.1 hs
  | move p x pos => exact opMove_sep S V vOk hH hR hv32 w p x pos h hop hs
  | copy p x pos => exact opCopy_sep S V vOk w p x pos h.2.1.1.1 hs

/-- the full invariant and `SepInv` in every reachable state -/
theorem reachY_ginv_sep (hH : IdxHyp S V vOk) (hR : RefWF S) (hv32 : vOk &&& 0xFFFFFFFF = vOk) {w : World}
    (h : ReachY S V vOk rootAttrs w) : GInv S vOk w ∧ SepInv w := by
  induction h with
  | empty => exact ⟨ginv_empty S vOk, sepInv_empty⟩
  | step w op _ hop ih => exact ⟨applyOpY_ginv hH hR hv32 w op hop ih.1, applyOpY_sep hH hR hv32 w op hop ih.1 ih.2⟩

/-- **the full invariant in every state reachable by guarded steps of the third alphabet** (core operations, rename, sort,
set_reference_target, move, copy) -/
theorem reachY_ginv (hH : IdxHyp S V vOk) (hR : RefWF S) (hv32 : vOk &&& 0xFFFFFFFF = vOk) {w : World}
    (h : ReachY S V vOk rootAttrs w) : GInv S vOk w :=
  (reachY_ginv_sep hH hR hv32 h).1

/-- … and the element ids of different models are apart -/
theorem reachY_sep (hH : IdxHyp S V vOk) (hR : RefWF S) (hv32 : vOk &&& 0xFFFFFFFF = vOk) {w : World}
    (h : ReachY S V vOk rootAttrs w) : SepInv w :=
  (reachY_ginv_sep hH hR hv32 h).2

theorem reachY_idsSep (hH : IdxHyp S V vOk) (hR : RefWF S) (hv32 : vOk &&& 0xFFFFFFFF = vOk) {w : World}
    (h : ReachY S V vOk rootAttrs w) : IdsSep w :=
  (reachY_sep hH hR hv32 h).1

/-! ### the guarded histories of the larger alphabet are histories of the third alphabet -/

theorem runX_reachY (ops : List OpX) (hops : ∀ op ∈ ops, OpXOk S vOk op) : ReachY S V vOk rootAttrs (runX S V rootAttrs ops) := by
  unfold runX
  suffices h : ∀ (w : World), ReachY S V vOk rootAttrs w →
      ReachY S V vOk rootAttrs (ops.foldl (fun w op => (applyOpX S V rootAttrs w op).1) w) from h _ ReachY.empty
  induction ops with
  | nil => intro w hw; exact hw
  | cons op rest ih =>
    intro w hw
    exact ih (fun o ho => hops o (List.mem_cons_of_mem _ ho)) _ (ReachY.step w (.x op) hw (hops op List.mem_cons_self))

/-! ### failed operations have no effect -/

variable (S V)

/-- the operation refuses -/
def opYRefuses (w : World) : OpY → Prop
  | .x op => opXRefuses S V w op
  | .move p x pos => (opMove S V w p x pos).2 = .err
  | .copy p x pos => (opCopy S V w p x pos).2 = .err

variable {S V}

/-- a refused operation leaves the world unchanged (for `move` this holds unconditionally since the repair of
c11:move-fails-without-item-name, `opMove_err_frame`; the hypothesis `hw` is kept so that the statement stays as it was) -/
theorem applyOpY_err_frame (w : World) (hw : WInv S vOk w) (op : OpY) (h : opYRefuses S V w op) :
    (applyOpY S V rootAttrs w op).1 = w := by
  cases op with
  | x op => exact applyOpX_err_frame S V rootAttrs w op h
  | move p x pos => exact opMove_err_frame_winv S V vOk w hw p x pos h
  | copy p x pos => exact opCopy_err_frame S V w p x pos h

theorem applyOpY_answer_err (w : World) (op : OpY) (h : opYRefuses S V w op) : (applyOpY S V rootAttrs w op).2 = "err" := by
  cases op with
  | x op => exact applyOpX_answer_err S V rootAttrs w op h
  | move p x pos => show (opMove S V w p x pos).2.show = "err"; rw [h]; rfl
  | copy p x pos => show (opCopy S V w p x pos).2.show = "err"; rw [h]; rfl

/-- **in every reachable state a refused operation of the third alphabet has no effect** -/
theorem reachY_err_frame (hH : IdxHyp S V vOk) (hR : RefWF S) (hv32 : vOk &&& 0xFFFFFFFF = vOk) {w : World}
    (hr : ReachY S V vOk rootAttrs w) (op : OpY) (h : opYRefuses S V w op) : (applyOpY S V rootAttrs w op).1 = w :=
  applyOpY_err_frame w (reachY_ginv hH hR hv32 hr).2.1.1.1 op h

/-- a move between two models is answered with `unsupported` and has no effect -/
theorem applyOpY_move_unsupported (w : World) (p x : Nat) (pos : Option Nat) (h : (opMove S V w p x pos).2 = .unsupported) :
    (applyOpY S V rootAttrs w (.move p x pos)).1 = w :=
  opMove_unsupported_frame S V w p x pos h

/-! ### C06 over histories: references follow a moved element -/

theorem getElem!_setModel (w : World) (k : Nat) (m' : Model) (hk : k < w.models.length) : (setModel w k m').models[k]! = m' := by
  show (w.models.set k m')[k]! = m'
  rw [getElem!_def, List.getElem?_set_self hk]

/-- **C06 in every reachable state**: `move_element_here[_at] (p ← x)` is issued in a state reachable by guarded steps and is
answered with `ok`; `x` has the item name `orig` and is not a child of `p` already (the real move).  Then, with `dest` = path of
`p` / first free name among `orig`, `orig_1`, …: the index of the model is the old index re-keyed from the old path of `x` to
`dest`; every reference element that had the text `t` has the text `mvText … t` (re-keyed if `t` designated an element,
unchanged otherwise); and a path that designated the element `e` designates `e`, re-keyed, afterwards.
(No guard is needed for this step: the statement is about index and references, not about file sets.) -/
theorem reachY_move_refs (hH : IdxHyp S V vOk) (hR : RefWF S) (hv32 : vOk &&& 0xFFFFFFFF = vOk) {w : World}
    (hreach : ReachY S V vOk rootAttrs w) (p x : Nat) (pos? : Option Nat) (hok : (opMove S V w p x pos?).2 = .ok "")
    (k : Nat) (cx : List (Hdr × Items)) (hlx : locate w x = some (k, cx))
    (hpar : ∀ sph spk, cx.dropLast.getLast? = some (sph, spk) → sph.id ≠ p)
    (orig : Bytes) (hnamed : itemName S (lastOf cx).1 (lastOf cx).2 = some orig) :
    ∃ cp dest, locate w p = some (k, cp) ∧
      dest = pathOfChain S cp ++ 47 :: (uniqueName (w.models[k]!).index (pathOfChain S cp) orig ((w.models[k]!).index.length + 2) 0).1 ∧
      WInv S vOk (applyOpY S V rootAttrs w (.move p x pos?)).1 ∧ WRInv S (applyOpY S V rootAttrs w (.move p x pos?)).1 ∧
      ((applyOpY S V rootAttrs w (.move p x pos?)).1.models[k]!).index = idxFix (w.models[k]!).index (pathOfChain S cx) dest ∧
      (refEntries S ((applyOpY S V rootAttrs w (.move p x pos?)).1.models[k]!).rootItems).Perm
        ((refEntries S (w.models[k]!).rootItems).map fun e => (mvText (w.models[k]!).index (pathOfChain S cx) dest e.1, e.2)) ∧
      (∀ t e, idxGet (w.models[k]!).index t = some e →
        idxGet ((applyOpY S V rootAttrs w (.move p x pos?)).1.models[k]!).index (rekey (pathOfChain S cx) dest t) = some e) := by
  have hg := reachY_ginv hH hR hv32 hreach
  obtain ⟨k', cx', cp, ver, lo, hi, sph, spk, hr, halt⟩ := opMove_ok_cases S V w p x pos? hok
  have hl := hr.locx
  rw [hlx] at hl
  obtain ⟨rfl, rfl⟩ := Prod.mk.inj (Option.some.inj hl)
  rcases halt with hsp | ⟨hsp, hany, he⟩
  · exact absurd hsp (hpar sph spk hr.par)
  · obtain ⟨dest, hd, h1, h2, h3, h4, h5⟩ := opMove_real S V vOk hH hR w p x pos? hg hr hsp hany orig hnamed _ rfl
    obtain ⟨m, hm1, _, _, _⟩ := locate_chain w x k cx hlx
    have hk : k < w.models.length := lt_of_getElem?_some _ _ _ hm1
    have hw' : (applyOpY S V rootAttrs w (.move p x pos?)).1 = setModel w k (moveModel S (w.models[k]!) sph spk x p (pos?.getD hi)
        (lastOf cx).1 (lastOf cx).2 (pathOfChain S cx) (pathOfChain S cp)
        (subtreePaths S ((lastOf cx).2.size + 2) (lastOf cx).1 (lastOf cx).2 (namesOfChain S cx.dropLast))) := by
      show (opMove S V w p x pos?).1 = _
      rw [he]
    rw [hw', getElem!_setModel w k _ hk]
    exact ⟨cp, dest, hr.locp, hd, h1, h2, h3, h4, h5⟩

end
end AV.W
