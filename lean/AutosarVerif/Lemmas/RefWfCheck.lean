/-
Boolean table check for `RefWF` (`Lemmas/RefsDefs.lean`) on a packed specification, and its soundness.

`refWfB P` scans the data types `t < P.nTypes`: a reference type (`isRef t`) has mode CHARACTERS and a string-like character
data specification; the SHORT-NAME definition `d` of a named type (sub-entry 0 = `.elem d`) has a type that is no reference;
the type of the root definition is no reference.  Together with `P.datatypes < 2 ^ (176 * P.nTypes)` (every record beyond the
table reads as zeros, so no `t ≥ P.nTypes` has character data, hence none is a reference, and none is named) this gives the
four facts of `RefWF` for ALL natural numbers `t` (`refWfB_sound`).
-/
import AutosarVerif.Lemmas.NameWfCheck
import AutosarVerif.Lemmas.RefsDefs

namespace AV
open AV.W

namespace PackedSpec

/-- a data type index beyond the table has no character data, hence is no reference type -/
theorem cdataOf_of_ge (P : PackedSpec) (h : P.datatypes < 2 ^ (176 * P.nTypes)) (t : Nat) (ht : P.nTypes ≤ t) :
    P.toSpec.cdataOf t = none := by
  show (if fld P.datatypes 176 t 96 32 = 0 then none else some (fld P.datatypes 176 t 96 32 - 1)) = none
  rw [if_pos (fld_eq_zero 96 32 h ht)]

theorem isRef_of_ge (P : PackedSpec) (h : P.datatypes < 2 ^ (176 * P.nTypes)) (t : Nat) (ht : P.nTypes ≤ t) :
    P.toSpec.isRef t = false := by
  unfold Spec.isRef
  rw [cdataOf_of_ge P h t ht]
  rfl

/-- the facts of `RefWF` that concern the reference type `t` -/
def refOkB (P : PackedSpec) (t : Nat) : Bool :=
  let S := P.toSpec
  !S.isRef t ||
  ((S.mode t).isChars &&
    (match S.chardataSpec t with
      | some sp => sp.stringLike
      | none => false))

/-- the fact of `RefWF` that concerns the named type `t` -/
def snNotRefB (P : PackedSpec) (t : Nat) : Bool :=
  let S := P.toSpec
  !S.isNamed t ||
  (match S.subAt t 0 with
    | .group _ => true
    | .elem d => !S.isRef (S.defType d))

/-- the check for `RefWF` -/
def refWfB (P : PackedSpec) : Bool :=
  decide (P.datatypes < 2 ^ (176 * P.nTypes)) &&
  (List.range P.nTypes).all (fun t => P.refOkB t && P.snNotRefB t) &&
  !P.toSpec.isRef (P.toSpec.defType P.toSpec.rootDef)

theorem refWfB_sound (P : PackedSpec) (h : P.refWfB = true) : RefWF P.toSpec := by
  unfold refWfB at h
  rw [Bool.and_eq_true, Bool.and_eq_true, decide_eq_true_eq, List.all_eq_true, Bool.not_eq_true'] at h
  obtain ⟨⟨hlt, hall⟩, hroot⟩ := h
  have href : ∀ t, P.toSpec.isRef t = true →
      (P.toSpec.mode t).isChars = true ∧ ∃ sp, P.toSpec.chardataSpec t = some sp ∧ sp.stringLike = true := by
    intro t hr
    by_cases ht : t < P.nTypes
    · have h1 := hall t (List.mem_range.mpr ht)
      rw [Bool.and_eq_true] at h1
      have h2 := h1.1
      unfold refOkB at h2
      simp only [hr, Bool.not_true, Bool.false_or, Bool.and_eq_true] at h2
      refine ⟨h2.1, ?_⟩
      have he := h2.2
      cases hs : P.toSpec.chardataSpec t with
      | none => rw [hs] at he; cases he
      | some sp => rw [hs] at he; exact ⟨sp, rfl, he⟩
    · have := isRef_of_ge P hlt t (Nat.le_of_not_lt ht)
      rw [hr] at this
      cases this
  refine ⟨?_, ?_, ?_, hroot⟩
  · intro t hr
    exact Mode.eq_of_isChars (href t hr).1
  · intro t hr
    exact (href t hr).2
  · intro t d hn hd
    by_cases ht : t < P.nTypes
    · have h1 := hall t (List.mem_range.mpr ht)
      rw [Bool.and_eq_true] at h1
      have h2 := h1.2
      unfold snNotRefB at h2
      simp only [hn, Bool.not_true, Bool.false_or] at h2
      rw [hd] at h2
      simp only [Bool.not_eq_true'] at h2
      exact h2
    · have := isNamed_of_ge P hlt t (Nat.le_of_not_lt ht)
      rw [hn] at this
      cases this

end PackedSpec
end AV
