/-
C04, invariant by induction over operations: in EVERY state reachable from the empty world by ANY history of the core
operations (`Model/Step.lean`) that stays inside the two explicit guards below, every model's path index is exactly the set
of (path, element) pairs of its named elements, and no two elements have the same path.

The guards (`OpOk`) exclude exactly the two points at which the statement is FALSE of the model AND of the library (both
found by attempting this proof, both listed in KNOWN_FINDINGS.txt with replays):
 * creating an element called SHORT-NAME through `create_sub_element` / `create_named_sub_element`
   (c04:short-name-added-later-not-indexed; Lean witness `C04_witness_short_name_added_later`);
 * files of a version outside `vOk` (for the real tables: AUTOSAR 4.0.1, where two named types are not SEQUENCEs;
   c04:content-before-short-name-in-mixed-named-element; Lean witness `C04_witness_content_before_short_name`).
-/
import AutosarVerif.Lemmas.IndexCData

namespace AV.W

/-- the guard on single operations -/
def OpOk (S : Spec) (vOk : Nat) : Op → Prop
  | .create _ name _ => name ≠ S.nmShortName
  | .named _ name _ _ => name ≠ S.nmShortName
  | .mkFile _ _ ver _ => ver &&& vOk = ver
  | .setver _ ver => ver &&& vOk = ver
  | _ => True

instance (S : Spec) (vOk : Nat) (op : Op) : Decidable (OpOk S vOk op) := by
  cases op <;> simp only [OpOk] <;> infer_instance

section
variable (S : Spec) (V : Env) (vOk : Nat) (rootAttrs : List (Nat × CDv))

theorem winv_empty : WInv S vOk emptyWorld := by
  intro m hm; simp [emptyWorld] at hm

/-- every guarded core operation keeps the invariant -/
theorem applyOp_winv (hH : IdxHyp S V vOk) (w : World) (op : Op) (hop : OpOk S vOk op) (hw : WInv S vOk w) :
    WInv S vOk (applyOp S V rootAttrs w op).1 := by
  cases op with
  | newModel => exact newModel_inv S vOk rootAttrs hH.rootName w hw
  | mkFile k name ver valid => exact opMkFile_inv S vOk w k name ver valid hop hw
  | create p name pos => exact opCreate_inv S V vOk hH w p name pos hop hw
  | named p name item pos => exact opNamed_inv S V vOk hH w p name item pos hop hw
  | remove p c => exact opRemove_inv S vOk w p c hw
  | cdata x v => exact opCData_inv S V vOk hH w x v hw
  | rmcdata x => exact opRmCData_inv S vOk w x hw
  | attr x a v => exact opAttr_inv S V vOk w x a v hw
  | attrs x a s => exact opAttrS_inv S V vOk w x a s hw
  | rmattr x a => exact opRmAttr_inv S vOk w x a hw
  | comment x cm => exact opComment_inv S vOk w x cm hw
  | instext x pos s => exact opInsText_inv S vOk w x pos s hw
  | rmtext x pos => exact opRmText_inv S vOk w x pos hw
  | addfile x f => exact opAddFile_inv S vOk w x f hw
  | rmfromfile x f => exact opRmFromFile_inv S vOk w x f hw
  | rmfile k f => exact opRmFile_inv S vOk w k f hw
  | setver f ver => exact opSetVersion_inv S vOk w f ver hop hw

/-- **every reachable state** of a guarded history -/
theorem run_winv (hH : IdxHyp S V vOk) (ops : List Op) (hops : ∀ op ∈ ops, OpOk S vOk op) :
    WInv S vOk (run S V rootAttrs ops) := by
  unfold run
  suffices h : ∀ (w : World), WInv S vOk w → WInv S vOk (ops.foldl (fun w op => (applyOp S V rootAttrs w op).1) w) from
    h _ (winv_empty S vOk)
  induction ops with
  | nil => intro w hw; exact hw
  | cons op rest ih =>
    intro w hw
    simp only [List.foldl_cons]
    exact ih (fun o ho => hops o (List.mem_cons_of_mem _ ho)) _
      (applyOp_winv S V vOk rootAttrs hH w op (hops op List.mem_cons_self) hw)

end
end AV.W
