/-
`RefWF` on the real specification tables, by kernel evaluation of the scan of `Lemmas/RefWfCheck.lean`.
-/
import AutosarVerif.Gen.SpecData
import AutosarVerif.Lemmas.RefWfCheck

namespace AV.Gen
open AV.W

theorem realSpec_refWfOk : SpecData.packed.refWfB = true := by decide +kernel

/-- the real tables meet what the reference invariant asks of the specification -/
theorem realSpec_refWF : RefWF realSpec :=
  PackedSpec.refWfB_sound SpecData.packed realSpec_refWfOk

end AV.Gen
