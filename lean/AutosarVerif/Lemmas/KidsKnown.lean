/-
Towards `KidsKnown` as a history invariant (the extra hypothesis of the sort theorems, `Lemmas/SortIndex.lean`): every child
element of every element is known to the all-version lookup `S.findSub typ name 0xFFFFFFFF` of the type of its parent.

* the lookup is monotone in the version mask: what is found for `ver` is found for every mask that contains `ver`
  (no well-formedness fact about the specification is needed);
* `create_sub_element` and `create_named_sub_element` — the only core operations that add a child element — keep
  `KidsKnown`, given that the versions of files are 32-bit masks (`vOk &&& 0xFFFFFFFF = vOk`).
-/
import AutosarVerif.Lemmas.SortIndex

namespace AV.W
open Items

/-! ### the lookup is monotone in the version mask -/

theorem findSubT_mono (S : Spec) (name v v' : Nat) (hv : ∀ m, (v &&& m) ≠ 0 → (v' &&& m) ≠ 0) :
    ∀ (fuel t : Nat), S.findSubT name v fuel t ≠ none → S.findSubT name v' fuel t ≠ none := by
  intro fuel
  induction fuel with
  | zero => intro t h; exact absurd rfl h
  | succ fuel ih =>
    intro t h
    simp only [Spec.findSubT] at h ⊢
    intro hnone
    cases hx : (List.range (S.subCount t)).findSome? (fun pos =>
        match S.subAt t pos with
        | .elem d => if S.defName d = name ∧ (v &&& S.subMask t pos) ≠ 0 then some (S.ety d, [pos]) else none
        | .group g =>
          match S.findSubT name v fuel g with
          | some (e, idx) => some (e, pos :: idx)
          | none => none) with
    | none => exact h hx
    | some x =>
      obtain ⟨pos, hpos, hf⟩ := List.exists_of_findSome?_eq_some hx
      have h' := List.findSome?_eq_none_iff.mp hnone pos hpos
      cases hs : S.subAt t pos with
      | elem d =>
        rw [hs] at hf h'
        simp only at hf h'
        split at hf
        · rename_i hc
          rw [if_pos ⟨hc.1, hv _ hc.2⟩] at h'
          cases h'
        · cases hf
      | group g =>
        rw [hs] at hf h'
        simp only at hf h'
        have h1 : S.findSubT name v fuel g ≠ none := by
          intro h0; rw [h0] at hf; cases hf
        have h2 := ih g h1
        cases h3 : S.findSubT name v' fuel g with
        | none => exact h2 h3
        | some y => rw [h3] at h'; cases h'

/-- what `find_sub_element(name, ver)` finds, `find_sub_element(name, ver')` finds (possibly elsewhere) for every mask `ver'`
that contains `ver` -/
theorem findSub_mono (S : Spec) (t name ver ver' : Nat) (hv : ver &&& ver' = ver) (h : S.findSub t name ver ≠ none) :
    S.findSub t name ver' ≠ none :=
  findSubT_mono S name ver ver' (fun m hm => land_sub m ver ver' (by rw [Nat.and_comm]; exact hm) hv) _ t h

theorem findSub_full (S : Spec) (t name ver : Nat) (hv : ver &&& 0xFFFFFFFF = ver) (x : ETy × List Nat)
    (h : S.findSub t name ver = some x) : S.findSub t name 0xFFFFFFFF ≠ none :=
  findSub_mono S t name ver 0xFFFFFFFF hv (by rw [h]; exact fun e => by cases e)

/-! ### inserting a known child -/

theorem mem_childElems_insertAt (nh : Hdr) (nk : Items) (c : Hdr × Items) (k : Items) (pos : Nat)
    (h : c ∈ (k.insertAt (fun r => .elem nh nk r) pos).childElems) : c = (nh, nk) ∨ c ∈ k.childElems := by
  induction k generalizing pos with
  | nil => cases pos <;> simpa [Items.insertAt, Items.childElems] using h
  | text c' r ih =>
    cases pos with
    | zero => simpa [Items.insertAt, Items.childElems] using h
    | succ q => simp only [Items.insertAt, Items.childElems] at h ⊢; exact ih q h
  | elem hd kk r _ ih =>
    cases pos with
    | zero => simpa [Items.insertAt, Items.childElems] using h
    | succ q =>
      simp only [Items.insertAt, Items.childElems, List.mem_cons] at h ⊢
      rcases h with e | e
      · exact Or.inr (Or.inl e)
      · rcases ih q e with e' | e'
        · exact Or.inl e'
        · exact Or.inr (Or.inr e')

section
variable (S : Spec) (V : Env) (vOk : Nat)

theorem kidsKnown_insertAt (h nh : Hdr) (nk : Items) (k0 : Items) (pos : Nat)
    (hname : S.findSub h.ety.typ nh.name 0xFFFFFFFF ≠ none) (hnk : kidsKnownAt S nh nk ∧ KidsKnown S nk)
    (a : kidsKnownAt S h k0) (b : KidsKnown S k0) :
    kidsKnownAt S h (k0.insertAt (fun r => .elem nh nk r) pos) ∧ KidsKnown S (k0.insertAt (fun r => .elem nh nk r) pos) := by
  refine ⟨fun c hc => ?_, ?_⟩
  · rcases mem_childElems_insertAt nh nk c k0 pos hc with e | e
    · rw [e]; exact hname
    · exact a c e
  · rw [kidsKnown_iff]
    intro c hc
    rcases mem_childElems_insertAt nh nk c k0 pos hc with e | e
    · rw [e]; exact hnk
    · exact (kidsKnown_iff S k0).mp b c e

theorem ver_full {ver : Nat} (hv32 : vOk &&& 0xFFFFFFFF = vOk) (hver : ver &&& vOk = ver) : ver &&& 0xFFFFFFFF = ver := by
  calc ver &&& 0xFFFFFFFF = (ver &&& vOk) &&& 0xFFFFFFFF := by rw [hver]
    _ = ver &&& (vOk &&& 0xFFFFFFFF) := Nat.and_assoc _ _ _
    _ = ver &&& vOk := by rw [hv32]
    _ = ver := hver

/-- `create_sub_element[_at]` keeps `KidsKnown` -/
theorem opCreate_wkidsKnown (hH : IdxHyp S V vOk) (hv32 : vOk &&& 0xFFFFFFFF = vOk) (w : World) (p name : Nat)
    (pos? : Option Nat) (hw : WInv S vOk w) (hK : WKidsKnown S w) : WKidsKnown S (opCreate S V w p name pos?).1 := by
  unfold opCreate
  split
  · exact hK
  · rename_i k c hloc
    obtain ⟨m, _, hm2, hmem, hc⟩ := locate_chain w p k c hloc
    have hm := hw m hmem
    dsimp only
    rw [hm2]
    split
    · exact hK
    · rename_i ver hver
      split
      · exact hK
      · split
        · exact hK
        · split
          · exact hK
          · rename_i ety _ hfs
            split
            · exact hK
            · have hvf := ver_full vOk hv32 (minVersion_ok S V vOk hm hH.latest c ver hver)
              refine wkidsKnown_update S w _ k _ hK ?_ rfl
              rw [rootItems_setRoot_modify]
              refine kidsKnown_modify S p _ _ (fun h k0 ho he => ⟨rfl, fun a b => ?_⟩) (hK m hmem)
              obtain ⟨e1, _⟩ := node_eq S vOk hm p c hc h k0 ho he
              refine kidsKnown_insertAt S h _ .nil k0 _ ?_ ⟨fun c hc => by simp [Items.childElems] at hc, trivial⟩ a b
              rw [e1]
              exact findSub_full S _ name ver hvf _ hfs

/-- `create_named_sub_element[_at]` keeps `KidsKnown` -/
theorem opNamed_wkidsKnown (hH : IdxHyp S V vOk) (hv32 : vOk &&& 0xFFFFFFFF = vOk) (w : World) (p name : Nat) (item : Bytes)
    (pos? : Option Nat) (hw : WInv S vOk w) (hK : WKidsKnown S w) : WKidsKnown S (opNamed S V w p name item pos?).1 := by
  unfold opNamed
  split
  · exact hK
  · rename_i k c hloc
    obtain ⟨m, _, hm2, hmem, hc⟩ := locate_chain w p k c hloc
    have hm := hw m hmem
    dsimp only
    rw [hm2]
    split
    · exact hK
    · rename_i ver hver
      split
      · exact hK
      · split
        · exact hK
        · split
          · exact hK
          · split
            · exact hK
            · rename_i ety _ hfs
              split
              · exact hK
              · have hvf := ver_full vOk hv32 (minVersion_ok S V vOk hm hH.latest c ver hver)
                cases hsn : S.findSub ety.typ S.nmShortName ver with
                | none => simp only [Bool.not_false, if_true]; exact hK
                | some x =>
                  obtain ⟨sty, sidx⟩ := x
                  simp only
                  cases hsp : S.chardataSpec sty.typ with
                  | none => simp only [Bool.not_false, if_true]; exact hK
                  | some sp =>
                    simp only
                    split
                    · exact hK
                    · split
                      · exact hK
                      · refine wkidsKnown_update S w _ k _ hK ?_ rfl
                        show KidsKnown S (Model.setRoot m _).rootItems
                        rw [rootItems_setRoot_modify]
                        refine kidsKnown_modify S p _ _ (fun h k0 ho he => ⟨rfl, fun a b => ?_⟩) (hK m hmem)
                        obtain ⟨e1, _⟩ := node_eq S vOk hm p c hc h k0 ho he
                        refine kidsKnown_insertAt S h _ _ k0 _ ?_ ?_ a b
                        · rw [e1]
                          exact findSub_full S _ name ver hvf _ hfs
                        · split
                          · exact ⟨fun c hc => by simp [Items.childElems] at hc, trivial⟩
                          · refine ⟨fun c hc => ?_, ⟨fun c hc => by simp [Items.childElems] at hc, trivial, trivial⟩⟩
                            simp only [Items.childElems, List.mem_singleton] at hc
                            rw [hc]
                            exact findSub_full S _ S.nmShortName ver hvf _ hsn

end
end AV.W
