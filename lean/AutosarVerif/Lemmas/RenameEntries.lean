/-
C04: the effect of renaming a named element on `entries` (what the path index must hold) is the key rewriting `rekey`
of `fix_identifiables`; the SHORT-NAME discipline survives edits.
-/
import AutosarVerif.Lemmas.IdxFix
import AutosarVerif.Lemmas.IndexTree

namespace AV.W
open Items

section
variable (S : Spec)

/-! ### basic shape of `entries` -/

theorem path_norm (pre n : Bytes) : pre ++ [47] ++ n = pre ++ 47 :: n := by
  rw [List.append_assoc]; rfl

theorem entries_elem_some (h : Hdr) (k r : Items) (pre n : Bytes) (hn : itemName S h k = some n) :
    entries S (.elem h k r) pre = (pre ++ 47 :: n, h.id) :: (entries S k (pre ++ 47 :: n) ++ entries S r pre) := by
  simp only [entries, hn, path_norm]

theorem entries_elem_none (h : Hdr) (k r : Items) (pre : Bytes) (hn : itemName S h k = none) :
    entries S (.elem h k r) pre = entries S k pre ++ entries S r pre := by
  simp only [entries, hn]

/-- under the SHORT-NAME discipline an element has an item name exactly when its first content item is a SHORT-NAME, and
names contain no '/' -/
theorem itemName_of_kidsOk (h : Hdr) (k : Items) (hk : kidsOk S h k) :
    (firstIsSn S k → ∃ sh n rest, k = .elem sh (.text (.str n) .nil) rest ∧ sh.name = S.nmShortName ∧
      itemName S h k = some n ∧ 47 ∉ n) ∧
    (¬ firstIsSn S k → itemName S h k = none) := by
  refine ⟨?_, itemName_none_of_not_sn S h k⟩
  intro hf
  cases k with
  | nil => exact hf.elim
  | text _ _ => exact hf.elim
  | elem sh sk rest =>
    simp only [firstIsSn] at hf
    simp only [kidsOk] at hk
    obtain ⟨⟨hnamed, _⟩, hmode, _, _, n, hsk, hn⟩ := hk.1 hf
    subst hsk
    refine ⟨sh, n, rest, rfl, hf, ?_, hn⟩
    simp only [itemName, hnamed, if_true, hf, charData, hmode, true_or]

/-- an item name under the discipline contains no '/' -/
theorem itemName_no_slash (h : Hdr) (k : Items) (hk : kidsOk S h k) (n : Bytes) (hn : itemName S h k = some n) : 47 ∉ n := by
  by_cases hf : firstIsSn S k
  · obtain ⟨_, n0, _, _, _, h1, h2⟩ := (itemName_of_kidsOk S h k hk).1 hf
    rw [h1] at hn
    cases hn
    exact h2
  · rw [(itemName_of_kidsOk S h k hk).2 hf] at hn
    cases hn

/-- prefix homogeneity: the entries under prefix `pre` are the entries under the empty prefix with `pre` put in front -/
theorem entries_prefix (its : Items) (pre : Bytes) :
    entries S its pre = (entries S its []).map fun e => (pre ++ e.1, e.2) := by
  induction its generalizing pre with
  | nil => rfl
  | text c r ih => simp only [entries]; exact ih pre
  | elem h k r ihk ihr =>
    cases hn : itemName S h k with
    | none =>
      rw [entries_elem_none S h k r pre hn, entries_elem_none S h k r [] hn, List.map_append, ← ihk pre, ← ihr pre]
    | some n =>
      rw [entries_elem_some S h k r pre n hn, entries_elem_some S h k r [] n hn, List.map_cons, List.map_append,
        ← ihr pre, ihk (pre ++ 47 :: n), ihk ([] ++ 47 :: n), List.map_map]
      simp only [List.nil_append, List.append_assoc, Function.comp_def]

/-- every key continues the prefix with '/' -/
theorem entries_key_shape (its : Items) (pre : Bytes) (q : Bytes) (i : Nat) (h : (q, i) ∈ entries S its pre) :
    ∃ s, q = pre ++ 47 :: s := by
  induction its generalizing pre with
  | nil => cases h
  | text c r ih => exact ih pre h
  | elem hd k r ihk ihr =>
    cases hn : itemName S hd k with
    | none =>
      rw [entries_elem_none S hd k r pre hn, List.mem_append] at h
      rcases h with h | h
      · exact ihk pre h
      · exact ihr pre h
    | some n =>
      rw [entries_elem_some S hd k r pre n hn, List.mem_cons, List.mem_append] at h
      rcases h with h | h | h
      · exact ⟨n, (Prod.mk.inj h).1⟩
      · obtain ⟨s, hs⟩ := ihk _ h
        exact ⟨n ++ 47 :: s, by rw [hs, List.append_assoc]; rfl⟩
      · exact ihr pre h

/-! ### segment boundaries -/

/-- splitting "/" ++ n ++ x (`n` without '/') into `s' ++ s` with `s'` non-empty and `s` empty or starting with '/': the
split point is a segment boundary at or after the end of `n` -/
theorem seg_split (n x s' s : Bytes) (hn : 47 ∉ n) (hx : x = [] ∨ x.head? = some 47)
    (hs : s = [] ∨ s.head? = some 47) (hs' : s' ≠ []) (h : 47 :: n ++ x = s' ++ s) :
    ∃ c, s' = 47 :: n ++ c ∧ x = c ++ s ∧ (c = [] ∨ c.head? = some 47) := by
  cases s' with
  | nil => exact absurd rfl hs'
  | cons a s'' =>
    rw [List.cons_append, List.cons_append, List.cons.injEq] at h
    obtain ⟨ha, h⟩ := h
    subst ha
    rcases List.append_eq_append_iff.mp h with ⟨a', h1, h2⟩ | ⟨c', h1, h2⟩
    · refine ⟨a', by rw [h1, List.cons_append], h2, ?_⟩
      cases a' with
      | nil => exact Or.inl rfl
      | cons b a'' =>
        right
        rcases hx with hx | hx
        · rw [hx] at h2; cases h2
        · rw [h2] at hx; exact hx
    · cases c' with
      | nil =>
        rw [List.append_nil] at h1
        rw [List.nil_append] at h2
        exact ⟨[], by rw [h1, List.append_nil], by rw [h2, List.nil_append], Or.inl rfl⟩
      | cons b c'' =>
        exfalso
        rcases hs with hs | hs
        · rw [hs] at h2; cases h2
        · rw [h2] at hs
          have hb : b = 47 := by simpa using hs
          subst hb
          apply hn
          rw [h1]
          exact List.mem_append_right _ List.mem_cons_self

/-- prefix closure: a key's proper boundary-prefix that properly continues `pre` is itself a key -/
theorem entries_prefix_closed (its : Items) (hS : SnOk S its) (pre P q : Bytes) (i : Nat) (h : (q, i) ∈ entries S its pre)
    (s : Bytes) (hs : pathSuffix P q = some s) (s' : Bytes) (hs' : pathSuffix pre P = some s') (hne : s' ≠ []) :
    ∃ j, (P, j) ∈ entries S its pre := by
  induction its generalizing pre s' with
  | nil => cases h
  | text c r ih => exact ih hS pre h s' hs' hne
  | elem hd k r ihk ihr =>
    obtain ⟨hko, hSk, hSr⟩ := hS
    cases hn : itemName S hd k with
    | none =>
      rw [entries_elem_none S hd k r pre hn, List.mem_append] at h
      rw [entries_elem_none S hd k r pre hn]
      rcases h with h | h
      · obtain ⟨j, hj⟩ := ihk hSk pre h s' hs' hne
        exact ⟨j, List.mem_append_left _ hj⟩
      · obtain ⟨j, hj⟩ := ihr hSr pre h s' hs' hne
        exact ⟨j, List.mem_append_right _ hj⟩
    | some n =>
      have hnn := itemName_no_slash S hd k hko n hn
      obtain ⟨hP, hs'2⟩ := pathSuffix_some pre P s' hs'
      obtain ⟨hq, hs2⟩ := pathSuffix_some P q s hs
      rw [entries_elem_some S hd k r pre n hn, List.mem_cons, List.mem_append] at h
      rw [entries_elem_some S hd k r pre n hn]
      rcases h with h | h | h
      · have hq1 : q = pre ++ 47 :: n := (Prod.mk.inj h).1
        have hsplit : 47 :: n ++ [] = s' ++ s := by
          apply List.append_cancel_left (as := pre)
          rw [List.append_nil, ← hq1, hq, hP, List.append_assoc]
        obtain ⟨c, hc1, hc2, _⟩ := seg_split n [] s' s hnn (Or.inl rfl) hs2 hne hsplit
        have hc : c = [] := (List.append_eq_nil_iff.mp hc2.symm).1
        subst hc
        refine ⟨hd.id, ?_⟩
        rw [hP, hc1, List.append_nil]
        exact List.mem_cons_self
      · obtain ⟨u, hu⟩ := entries_key_shape S k _ q i h
        have hsplit : 47 :: n ++ 47 :: u = s' ++ s := by
          apply List.append_cancel_left (as := pre)
          rw [← List.append_assoc, ← List.append_assoc, ← hP, ← hq, hu]
        obtain ⟨c, hc1, hc2, hc3⟩ := seg_split n (47 :: u) s' s hnn (Or.inr rfl) hs2 hne hsplit
        cases c with
        | nil =>
          refine ⟨hd.id, ?_⟩
          rw [hP, hc1, List.append_nil]
          exact List.mem_cons_self
        | cons b c' =>
          have hPk : pathSuffix (pre ++ 47 :: n) P = some (b :: c') := by
            rw [hP, hc1, ← List.append_assoc]
            exact pathSuffix_append _ _ hc3
          obtain ⟨j, hj⟩ := ihk hSk _ h (b :: c') hPk (List.cons_ne_nil _ _)
          exact ⟨j, List.mem_cons_of_mem _ (List.mem_append_left _ hj)⟩
      · obtain ⟨j, hj⟩ := ihr hSr pre h s' hs' hne
        exact ⟨j, List.mem_cons_of_mem _ (List.mem_append_right _ hj)⟩

/-! ### one element: its own entry, the prefix it hands down -/

/-- the prefix an element hands down to its content -/
def kidPre (hd : Hdr) (k : Items) (pre : Bytes) : Bytes :=
  match itemName S hd k with
  | some m => pre ++ 47 :: m
  | none => pre

/-- the entry of the element itself -/
def ownEntry (hd : Hdr) (k : Items) (pre : Bytes) : List (Bytes × Nat) :=
  match itemName S hd k with
  | some m => [(pre ++ 47 :: m, hd.id)]
  | none => []

theorem entries_elem (hd : Hdr) (k r : Items) (pre : Bytes) :
    entries S (.elem hd k r) pre = ownEntry S hd k pre ++ (entries S k (kidPre S hd k pre) ++ entries S r pre) := by
  unfold ownEntry kidPre
  cases hn : itemName S hd k with
  | none => simp only [entries_elem_none S hd k r pre hn, List.nil_append]
  | some m => simp only [entries_elem_some S hd k r pre m hn, List.cons_append, List.nil_append]

theorem entries_elem_nil (hd : Hdr) (k : Items) (pre : Bytes) :
    entries S (.elem hd k .nil) pre = ownEntry S hd k pre ++ entries S k (kidPre S hd k pre) := by
  rw [entries_elem]
  simp only [entries, List.append_nil]

theorem ownEntry_key (hd : Hdr) (k : Items) (pre : Bytes) (y : Bytes × Nat) (hy : y ∈ ownEntry S hd k pre) :
    y = (kidPre S hd k pre, hd.id) ∧ ∃ m, itemName S hd k = some m ∧ kidPre S hd k pre = pre ++ 47 :: m := by
  unfold ownEntry at hy
  unfold kidPre
  cases hn : itemName S hd k with
  | none => rw [hn] at hy; cases hy
  | some m =>
    rw [hn] at hy
    exact ⟨List.mem_singleton.mp hy, m, rfl, rfl⟩

theorem findNamed_elem_cases (hd : Hdr) (k r : Items) (pre : Bytes) (t : Nat) (x : Bytes × Bytes × Items)
    (hf : findNamed S (.elem hd k r) pre t = some x) :
    (hd.id = t ∧ ∃ m, itemName S hd k = some m ∧ x = (pre ++ 47 :: m, m, k)) ∨
    (hd.id ≠ t ∧ findNamed S k (kidPre S hd k pre) t = some x) ∨
    (hd.id ≠ t ∧ findNamed S r pre t = some x) := by
  unfold kidPre
  cases hn : itemName S hd k with
  | none =>
    simp only [findNamed, hn] at hf
    split at hf
    · cases hf
    · rename_i hne
      split at hf
      · rename_i y hy
        cases hf
        exact Or.inr (Or.inl ⟨hne, hy⟩)
      · exact Or.inr (Or.inr ⟨hne, hf⟩)
  | some m =>
    simp only [findNamed, hn, path_norm] at hf
    split at hf
    · rename_i heq
      cases hf
      exact Or.inl ⟨heq, m, rfl, rfl⟩
    · rename_i hne
      split at hf
      · rename_i y hy
        cases hf
        exact Or.inr (Or.inl ⟨hne, hy⟩)
      · exact Or.inr (Or.inr ⟨hne, hf⟩)

/-- the named element found has its entry -/
theorem findNamed_mem (its : Items) (pre : Bytes) (t : Nat) (x : Bytes × Bytes × Items)
    (hf : findNamed S its pre t = some x) : (x.1, t) ∈ entries S its pre := by
  induction its generalizing pre with
  | nil => cases hf
  | text c r ih => exact ih pre hf
  | elem hd k r ihk ihr =>
    rw [entries_elem]
    rcases findNamed_elem_cases S hd k r pre t x hf with ⟨hid, m, hm, hx⟩ | ⟨_, hfk⟩ | ⟨_, hfr⟩
    · apply List.mem_append_left
      unfold ownEntry
      rw [hm, hx, hid]
      exact List.mem_singleton.mpr rfl
    · exact List.mem_append_right _ (List.mem_append_left _ (ihk _ hfk))
    · exact List.mem_append_right _ (List.mem_append_right _ (ihr _ hfr))

/-- the path of the named element found is the handed-down prefix, '/' and its name -/
theorem findNamed_path (its : Items) (pre : Bytes) (t : Nat) (P n : Bytes) (pk : Items)
    (hf : findNamed S its pre t = some (P, n, pk)) : ∃ c, P = pre ++ c ++ 47 :: n := by
  induction its generalizing pre with
  | nil => cases hf
  | text c r ih => exact ih pre hf
  | elem hd k r ihk ihr =>
    rcases findNamed_elem_cases S hd k r pre t _ hf with ⟨_, m, _, hx⟩ | ⟨_, hfk⟩ | ⟨_, hfr⟩
    · cases hx
      exact ⟨[], by rw [List.append_nil]⟩
    · obtain ⟨c, hc⟩ := ihk _ hfk
      unfold kidPre at hc
      cases hn : itemName S hd k with
      | none => rw [hn] at hc; exact ⟨c, hc⟩
      | some m => rw [hn] at hc; exact ⟨47 :: m ++ c, by rw [hc, List.append_assoc pre]⟩
    · exact ihr _ hfr

/-! ### keys -/

theorem keysNodupI_append (l1 l2 : List (Bytes × Nat)) (hn : keysNodupI (l1 ++ l2)) :
    keysNodupI l1 ∧ keysNodupI l2 ∧ ∀ x ∈ l1, ∀ y ∈ l2, x.1 ≠ y.1 := by
  unfold keysNodupI at *
  rw [List.map_append, List.nodup_append] at hn
  refine ⟨hn.1, hn.2.1, ?_⟩
  intro x hx y hy
  exact hn.2.2 x.1 (List.mem_map.mpr ⟨x, hx, rfl⟩) y.1 (List.mem_map.mpr ⟨y, hy, rfl⟩)

theorem pathSuffix_longer (a u : Bytes) (c : UInt8) : pathSuffix (a ++ c :: u) a = none := by
  cases h : pathSuffix (a ++ c :: u) a with
  | none => rfl
  | some s =>
    have h1 := (pathSuffix_some _ _ _ h).1
    have hl := congrArg List.length h1
    simp only [List.length_append, List.length_cons] at hl
    omega

/-- entries of two forests under the same prefix whose keys are disjoint: no key of the one lies at or below a key of the
other (`/pkg1` vs `/pkg10`, and vs `/pkg1/x`) -/
theorem entries_cross (a : Items) (hSa : SnOk S a) (pre : Bytes) (lb : List (Bytes × Nat))
    (hdis : ∀ x ∈ entries S a pre, ∀ y ∈ lb, x.1 ≠ y.1)
    (P : Bytes) (t : Nat) (hP : (P, t) ∈ lb) (u : Bytes) (hPu : P = pre ++ 47 :: u)
    (q : Bytes) (i : Nat) (hq : (q, i) ∈ entries S a pre) : pathSuffix P q = none := by
  cases hs : pathSuffix P q with
  | none => rfl
  | some s =>
    exfalso
    have hpre : pathSuffix pre P = some (47 :: u) := by rw [hPu]; exact pathSuffix_child pre u
    obtain ⟨j, hj⟩ := entries_prefix_closed S a hSa pre P q i hq s hs (47 :: u) hpre (List.cons_ne_nil _ _)
    exact hdis (P, j) hj (P, t) hP rfl

/-- the situation at one element of a forest with pairwise different keys: the pieces of `entries` and their disjointness -/
theorem elem_pieces (hd : Hdr) (k r : Items) (pre : Bytes) (hnd : keysNodupI (entries S (.elem hd k r) pre)) :
    keysNodupI (entries S k (kidPre S hd k pre)) ∧ keysNodupI (entries S r pre) ∧
    ∀ x ∈ entries S (.elem hd k .nil) pre, ∀ y ∈ entries S r pre, x.1 ≠ y.1 := by
  rw [entries_elem] at hnd
  obtain ⟨_, hnKR, hdO⟩ := keysNodupI_append _ _ hnd
  obtain ⟨hnK, hnR, hdKR⟩ := keysNodupI_append _ _ hnKR
  refine ⟨hnK, hnR, ?_⟩
  intro x hx y hy
  rw [entries_elem_nil] at hx
  rcases List.mem_append.mp hx with hx | hx
  · exact hdO x hx y (List.mem_append_right _ hy)
  · exact hdKR x hx y hy

/-- the entries at or below the path of the named element `t` are exactly `t` itself and the entries of its content -/
theorem entries_under (its : Items) (hS : SnOk S its) (pre : Bytes) (hnd : keysNodupI (entries S its pre))
    (t : Nat) (P n : Bytes) (pk : Items) (hf : findNamed S its pre t = some (P, n, pk))
    (q : Bytes) (i : Nat) (h : (q, i) ∈ entries S its pre) (s : Bytes) (hs : pathSuffix P q = some s) :
    (q, i) = (P, t) ∨ (q, i) ∈ entries S pk P := by
  induction its generalizing pre with
  | nil => cases h
  | text c r ih => exact ih hS pre hnd hf h
  | elem hd k r ihk ihr =>
    obtain ⟨hko, hSk, hSr⟩ := hS
    have hSa : SnOk S (.elem hd k .nil) := ⟨hko, hSk, trivial⟩
    obtain ⟨u, hu⟩ := entries_key_shape S _ pre P t (findNamed_mem S _ pre t _ hf)
    obtain ⟨hnK, hnR, hdAB⟩ := elem_pieces S hd k r pre hnd
    have hdBA : ∀ x ∈ entries S r pre, ∀ y ∈ entries S (.elem hd k .nil) pre, x.1 ≠ y.1 :=
      fun x hx y hy e => hdAB y hy x hx e.symm
    rw [entries_elem, ← List.append_assoc, ← entries_elem_nil, List.mem_append] at h
    rcases findNamed_elem_cases S hd k r pre t _ hf with ⟨hid, m, hm, hx⟩ | ⟨hid, hfk⟩ | ⟨hid, hfr⟩
    · have hP : P = pre ++ 47 :: m := (Prod.mk.inj hx).1
      have hpk : pk = k := (Prod.mk.inj (Prod.mk.inj hx).2).2
      have hA : entries S (.elem hd k .nil) pre = (P, t) :: entries S pk P := by
        rw [entries_elem_some S hd k .nil pre m hm, hP, hpk, hid]; simp only [entries, List.append_nil]
      rcases h with h | h
      · rw [hA] at h
        exact List.mem_cons.mp h
      · exfalso
        have hPA : (P, t) ∈ entries S (.elem hd k .nil) pre := by
          rw [hA]; exact List.mem_cons_self
        have := entries_cross S r hSr pre _ hdBA P t hPA u hu q i h
        rw [this] at hs; cases hs
    · have hPk := findNamed_mem S k _ t _ hfk
      have hPA : (P, t) ∈ entries S (.elem hd k .nil) pre := by
        rw [entries_elem_nil]; exact List.mem_append_right _ hPk
      rcases h with h | h
      · rw [entries_elem_nil, List.mem_append] at h
        rcases h with h | h
        · exfalso
          obtain ⟨u', hu'⟩ := entries_key_shape S k _ P t hPk
          have hq : q = kidPre S hd k pre := (Prod.mk.inj (ownEntry_key S hd k pre _ h).1).1
          rw [hq, hu', pathSuffix_longer] at hs
          cases hs
        · exact ihk hSk _ hnK hfk h
      · exfalso
        have := entries_cross S r hSr pre _ hdBA P t hPA u hu q i h
        rw [this] at hs; cases hs
    · have hPr := findNamed_mem S r _ t _ hfr
      rcases h with h | h
      · exfalso
        have := entries_cross S _ hSa pre _ hdAB P t hPr u hu q i h
        rw [this] at hs; cases hs
      · exact ihr hSr _ hnR hfr h

/-! ### `modify` and ids -/

theorem modify_elem_ne (x : Nat) (f : Hdr → Items → Hdr × Items) (hd : Hdr) (k r : Items) (h : hd.id ≠ x) :
    (Items.elem hd k r).modify x f = .elem hd (k.modify x f) (r.modify x f) := by
  simp only [Items.modify, if_neg h]

theorem modify_elem_eq (x : Nat) (f : Hdr → Items → Hdr × Items) (hd : Hdr) (k r : Items) (h : hd.id = x) :
    (Items.elem hd k r).modify x f = .elem (f hd k).1 (f hd k).2 (r.modify x f) := by
  simp only [Items.modify, if_pos h]

/-- the content of the named element found lies inside the forest -/
theorem findNamed_ids (its : Items) (pre : Bytes) (t : Nat) (x : Bytes × Bytes × Items)
    (hf : findNamed S its pre t = some x) : ∀ y ∈ x.2.2.ids, y ∈ its.ids := by
  induction its generalizing pre with
  | nil => cases hf
  | text c r ih => exact ih pre hf
  | elem hd k r ihk ihr =>
    intro y hy
    simp only [Items.ids, List.mem_cons, List.mem_append]
    rcases findNamed_elem_cases S hd k r pre t x hf with ⟨_, m, _, hx⟩ | ⟨_, hfk⟩ | ⟨_, hfr⟩
    · rw [hx] at hy; exact Or.inr (Or.inl hy)
    · exact Or.inr (Or.inl (ihk _ hfk y hy))
    · exact Or.inr (Or.inr (ihr _ hfr y hy))

/-- … strictly below the top-level element the search starts at -/
theorem findNamed_ids_top (hd : Hdr) (k r : Items) (pre : Bytes) (t : Nat) (x : Bytes × Bytes × Items)
    (hf : findNamed S (.elem hd k r) pre t = some x) (hids : (Items.elem hd k r).ids.Nodup) : hd.id ∉ x.2.2.ids := by
  simp only [Items.ids, List.nodup_cons, List.mem_append, not_or] at hids
  intro hy
  rcases findNamed_elem_cases S hd k r pre t x hf with ⟨_, m, _, hx⟩ | ⟨_, hfk⟩ | ⟨_, hfr⟩
  · rw [hx] at hy; exact hids.1.1 hy
  · exact hids.1.1 (findNamed_ids S k _ t x hfk _ hy)
  · exact hids.1.2 (findNamed_ids S r _ t x hfr _ hy)

/-- the item name does not change when the edited node is not the first content item -/
theorem itemName_modify_top (h : Hdr) (x : Nat) (f : Hdr → Items → Hdr × Items) (k : Items)
    (hk : ∀ sh0 sk0 r0, k = .elem sh0 sk0 r0 → sh0.id ≠ x) : itemName S h (k.modify x f) = itemName S h k := by
  cases k with
  | nil => rfl
  | text c r => simp only [Items.modify, itemName]
  | elem sh0 sk0 r0 =>
    rw [modify_elem_ne x f sh0 sk0 r0 (hk sh0 sk0 r0 rfl)]
    simp only [itemName, charData_modify]

/-- replacing the text of the SHORT-NAME replaces the item name -/
theorem itemName_retext (hd sh : Hdr) (n n' m : Bytes) (rest rest' : Items)
    (h : itemName S hd (.elem sh (.text (.str n) .nil) rest) = some m) :
    itemName S hd (.elem sh (.text (.str n') .nil) rest') = some n' := by
  simp only [itemName, charData] at h ⊢
  split at h
  · rename_i h1
    split at h
    · rename_i h2
      split at h
      · rename_i c hc
        split at hc
        · rename_i h3
          simp only [h1, h2, h3, if_true]
        · cases hc
      · cases h
    · cases h
  · cases h

/-! ### the rename -/

theorem map_rekey_id (P P' : Bytes) (l : List (Bytes × Nat)) (h : ∀ e ∈ l, pathSuffix P e.1 = none) :
    l.map (fun e => (rekey P P' e.1, e.2)) = l := by
  induction l with
  | nil => rfl
  | cons e es ih =>
    rw [List.map_cons, ih (fun e he => h e (List.mem_cons_of_mem _ he)), rekey_none P P' e.1 (h e List.mem_cons_self)]

theorem map_rekey_under (P P' : Bytes) (rest : Items) :
    (entries S rest P).map (fun e => (rekey P P' e.1, e.2)) = entries S rest P' := by
  rw [entries_prefix S rest P, entries_prefix S rest P', List.map_map]
  apply List.map_congr_left
  intro e he
  obtain ⟨s, hs⟩ := entries_key_shape S rest [] e.1 e.2 he
  simp only [Function.comp]
  rw [hs, List.nil_append, rekey_some P P' _ _ (pathSuffix_child P s)]

theorem entries_elem_split (hd : Hdr) (k r : Items) (pre : Bytes) :
    entries S (.elem hd k r) pre = entries S (.elem hd k .nil) pre ++ entries S r pre := by
  rw [entries_elem, entries_elem_nil, List.append_assoc]

/-- MAIN: the effect of a rename on `entries` is the key rewriting -/
theorem entries_rename (its : Items) (hS : SnOk S its) (hids : its.ids.Nodup) (pre : Bytes)
    (hnd : keysNodupI (entries S its pre))
    (t : Nat) (P n : Bytes) (sh : Hdr) (rest : Items)
    (hf : findNamed S its pre t = some (P, n, .elem sh (.text (.str n) .nil) rest))
    (n' : Bytes) (hn' : 47 ∉ n') :
    entries S (its.modify sh.id fun h0 _ => (h0, .text (.str n') .nil)) pre =
      (entries S its pre).map fun e => (rekey P (P.take (P.length - n.length) ++ n') e.1, e.2) := by
  have _ := hn'
  generalize hP' : P.take (P.length - n.length) ++ n' = P'
  induction its generalizing pre with
  | nil => cases hf
  | text c r ih => simp only [Items.modify, entries]; exact ih hS hids pre hnd hf
  | elem hd k r ihk ihr =>
    obtain ⟨hko, hSk, hSr⟩ := hS
    have hSa : SnOk S (.elem hd k .nil) := ⟨hko, hSk, trivial⟩
    obtain ⟨u, hu⟩ := entries_key_shape S _ pre P t (findNamed_mem S _ pre t _ hf)
    obtain ⟨hnK, hnR, hdAB⟩ := elem_pieces S hd k r pre hnd
    have hdBA : ∀ x ∈ entries S r pre, ∀ y ∈ entries S (.elem hd k .nil) pre, x.1 ≠ y.1 :=
      fun x hx y hy e => hdAB y hy x hx e.symm
    have hne : hd.id ≠ sh.id := fun e =>
      findNamed_ids_top S hd k r pre t _ hf hids (by rw [e]; exact List.mem_cons_self)
    simp only [Items.ids, List.nodup_cons, List.nodup_append, List.mem_append, not_or] at hids
    obtain ⟨_, hnk, hnr, hdis⟩ := hids
    rw [modify_elem_ne _ _ hd k r hne]
    rcases findNamed_elem_cases S hd k r pre t _ hf with ⟨hid, m, hm, hx⟩ | ⟨hid, hfk⟩ | ⟨hid, hfr⟩
    · -- the renamed element itself
      have hP : P = pre ++ 47 :: m := (Prod.mk.inj hx).1
      have hnm : n = m := (Prod.mk.inj (Prod.mk.inj hx).2).1
      have hk : Items.elem sh (.text (.str n) .nil) rest = k := (Prod.mk.inj (Prod.mk.inj hx).2).2
      subst hk
      subst hnm
      have hshrest : sh.id ∉ rest.ids := by
        simp only [Items.ids, List.nil_append, List.nodup_cons] at hnk
        exact hnk.1
      have hshr : sh.id ∉ r.ids := fun h => hdis sh.id List.mem_cons_self sh.id h rfl
      have hP'2 : P' = pre ++ 47 :: n' := by
        rw [← hP', hP]
        have : (pre ++ 47 :: n).length - n.length = (pre ++ [47]).length := by
          simp only [List.length_append, List.length_cons, List.length_nil]; omega
        rw [this]
        have e : pre ++ 47 :: n = (pre ++ [47]) ++ n := by rw [List.append_assoc]; rfl
        rw [e, List.take_left' rfl, List.append_assoc]; rfl
      rw [modify_elem_eq _ _ sh _ rest rfl, modify_not_mem _ _ rest hshrest, modify_not_mem _ _ r hshr]
      have hm' := itemName_retext S hd sh n n' n rest rest hm
      have hsn : ∀ c : CDv, itemName S sh (.text c .nil) = none := fun c => itemName_none_of_not_sn S sh _ (fun h => h)
      rw [entries_elem_some S hd _ r pre n' hm', entries_elem_some S hd _ r pre n hm,
        entries_elem_none S sh _ rest _ (hsn _), entries_elem_none S sh _ rest _ (hsn _)]
      simp only [entries, List.nil_append, List.map_cons, List.map_append]
      rw [← hP, ← hP'2, map_rekey_under S P P' rest, rekey_some P P' P [] (pathSuffix_self P), List.append_nil]
      congr 2
      symm
      apply map_rekey_id
      intro e he
      have hPA : (P, t) ∈ entries S (.elem hd (.elem sh (.text (.str n) .nil) rest) .nil) pre := by
        rw [entries_elem_some S hd _ .nil pre n hm, hP, hid]; exact List.mem_cons_self
      exact entries_cross S r hSr pre _ hdBA P t hPA u hu e.1 e.2 he
    · -- the renamed element lies inside the content of `hd`
      have hPk := findNamed_mem S k _ t _ hfk
      have hshk : sh.id ∈ k.ids := findNamed_ids S k _ t _ hfk sh.id List.mem_cons_self
      have hshr : sh.id ∉ r.ids := fun h => hdis sh.id hshk sh.id h rfl
      have hin : ∀ f, itemName S hd (k.modify sh.id f) = itemName S hd k := by
        intro f
        apply itemName_modify_top
        intro sh0 sk0 r0 hk0 e
        subst hk0
        exact findNamed_ids_top S sh0 sk0 r0 _ t _ hfk hnk (by rw [e]; exact List.mem_cons_self)
      have hO : ∀ f, ownEntry S hd (k.modify sh.id f) pre = ownEntry S hd k pre := by
        intro f; unfold ownEntry; rw [hin]
      have hK : ∀ f, kidPre S hd (k.modify sh.id f) pre = kidPre S hd k pre := by
        intro f; unfold kidPre; rw [hin]
      have hPA : (P, t) ∈ entries S (.elem hd k .nil) pre := by
        rw [entries_elem_nil]; exact List.mem_append_right _ hPk
      have h1 : (ownEntry S hd k pre).map (fun e => (rekey P P' e.1, e.2)) = ownEntry S hd k pre := by
        apply map_rekey_id
        intro e he
        obtain ⟨u', hu'⟩ := entries_key_shape S k _ P t hPk
        rw [(ownEntry_key S hd k pre e he).1, hu']
        exact pathSuffix_longer _ _ _
      have h2 : (entries S r pre).map (fun e => (rekey P P' e.1, e.2)) = entries S r pre := by
        apply map_rekey_id
        intro e he
        exact entries_cross S r hSr pre _ hdBA P t hPA u hu e.1 e.2 he
      rw [modify_not_mem _ _ r hshr, entries_elem, entries_elem, hO, hK, ihk hSk hnk _ hnK hfk, List.map_append,
        List.map_append, h1, h2]
    · -- the renamed element lies in a later sibling
      have hshr : sh.id ∈ r.ids := findNamed_ids S r _ t _ hfr sh.id List.mem_cons_self
      have hshk : sh.id ∉ k.ids := fun h => hdis sh.id h sh.id hshr rfl
      rw [modify_not_mem _ _ k hshk, entries_elem_split S hd k _ pre, entries_elem_split S hd k r pre, List.map_append,
        ihr hSr hnr pre hnR hfr]
      congr 1
      symm
      apply map_rekey_id
      intro e he
      exact entries_cross S _ hSa pre _ hdAB P t (findNamed_mem S r _ t _ hfr) u hu e.1 e.2 he

/-- the new key of a renamed element: the name is replaced, the handed-down prefix `b` stays (with `findNamed_path`:
`P = pre ++ c ++ 47 :: n`) -/
theorem take_name (b n n' : Bytes) :
    (b ++ 47 :: n).take ((b ++ 47 :: n).length - n.length) ++ n' = b ++ 47 :: n' := by
  have hl : (b ++ 47 :: n).length - n.length = (b ++ [47]).length := by
    simp only [List.length_append, List.length_cons, List.length_nil]; omega
  have e : b ++ 47 :: n = (b ++ [47]) ++ n := by rw [List.append_assoc]; rfl
  rw [hl, e, List.take_left' rfl, List.append_assoc]; rfl

end
end AV.W
