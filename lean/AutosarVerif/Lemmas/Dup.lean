/-
`AutosarModel::duplicate` (`Model/Dup.lean`, property C13 with C11 and C03/C04 faces).
-/
import AutosarVerif.Model.Dup
import AutosarVerif.Lemmas.StepY
import AutosarVerif.Lemmas.DeepCopy

namespace AV.W
open Items

/-! ### 2. `assignFiles` is a pure relabelling -/

/-- a header with its file set erased: everything `assignFiles` does not touch -/
def Hdr.noFiles (h : Hdr) : Hdr := { h with files := [] }

/-- the list-level relabelling: the i-th header takes the i-th set, headers beyond the list keep theirs -/
def relabel : List Hdr → List (List Nat) → List Hdr
  | [], _ => []
  | hs, [] => hs
  | h :: hs, f :: fs => { h with files := f } :: relabel hs fs

theorem relabel_nil_right (hs : List Hdr) : relabel hs [] = hs := by
  cases hs <;> rfl

theorem relabel_length (hs : List Hdr) (fs : List (List Nat)) : (relabel hs fs).length = hs.length := by
  induction hs generalizing fs with
  | nil => rfl
  | cons h hs ih => cases fs with
    | nil => rfl
    | cons f fs => simp [relabel, ih]

theorem relabel_append (a b : List Hdr) (fs : List (List Nat)) :
    relabel (a ++ b) fs = relabel a fs ++ relabel b (fs.drop a.length) := by
  induction a generalizing fs with
  | nil => simp [relabel]
  | cons h a ih =>
    cases fs with
    | nil => simp [relabel_nil_right]
    | cons f fs => simp [relabel, ih]

/-- position-wise: the i-th header gets `fs[i]` if there is one and keeps its own set otherwise -/
theorem relabel_getElem? (hs : List Hdr) (fs : List (List Nat)) (i : Nat) :
    (relabel hs fs)[i]? = hs[i]?.map fun h => match fs[i]? with
      | some f => { h with files := f }
      | none => h := by
  induction hs generalizing fs i with
  | nil => simp [relabel]
  | cons h hs ih =>
    cases fs with
    | nil => simp [relabel]
    | cons f fs =>
      cases i with
      | zero => simp [relabel]
      | succ i => simp [relabel, ih]

/-- **the headers after `assignFiles`**, in document order: the relabelling of the headers before; the sets that are left -/
theorem assignFiles_hdrs (its : Items) (fs : List (List Nat)) :
    (assignFiles its fs).1.hdrs = relabel its.hdrs fs ∧ (assignFiles its fs).2 = fs.drop its.hdrs.length := by
  fun_induction assignFiles its fs with
  | case1 fs => simp [Items.hdrs, relabel]
  | case2 c r fs r' ih => simpa [Items.hdrs] using ih
  | case3 h k r => simp [Items.hdrs, relabel]
  | case4 h k r f fs k' r' ihk ihr =>
    simp only [Items.hdrs, relabel, relabel_append, List.length_cons, List.drop_succ_cons, List.length_append]
    rw [ihr.1, ihr.2, ihk.1, ihk.2, List.drop_drop]
    exact ⟨rfl, by rw [Nat.add_comm]⟩

/-- `assignFiles` changes only `files` fields: same shape, texts, ids, names, types, attributes, parents, comments -/
theorem assignFiles_noFiles (its : Items) (fs : List (List Nat)) :
    (assignFiles its fs).1.mapHdrs Hdr.noFiles = its.mapHdrs Hdr.noFiles := by
  induction its generalizing fs with
  | nil => rfl
  | text c r ih => simp only [assignFiles, Items.mapHdrs, ih]
  | elem h k r ihk ihr =>
    cases fs with
    | nil => rfl
    | cons f fs => simp only [assignFiles, Items.mapHdrs, ihk, ihr]; rfl

theorem noFiles_core (h : Hdr) : h.noFiles.core = h.core := rfl

theorem mapHdrs_mapHdrs (f g : Hdr → Hdr) (its : Items) : (its.mapHdrs f).mapHdrs g = its.mapHdrs (g ∘ f) := by
  induction its with
  | nil => rfl
  | text c r ih => simp only [Items.mapHdrs, ih]
  | elem h k r ihk ihr => simp only [Items.mapHdrs, ihk, ihr, Function.comp]

theorem assignFiles_skel (its : Items) (fs : List (List Nat)) : (assignFiles its fs).1.skel = its.skel := by
  have h := congrArg (Items.mapHdrs Hdr.core) (assignFiles_noFiles its fs)
  rw [mapHdrs_mapHdrs, mapHdrs_mapHdrs] at h
  exact h

theorem ids_mapHdrs_noFiles (its : Items) : (its.mapHdrs Hdr.noFiles).ids = its.ids := by
  induction its with
  | nil => rfl
  | text c r ih => simp only [Items.mapHdrs, Items.ids, ih]
  | elem h k r ihk ihr => simp only [Items.mapHdrs, Items.ids, ihk, ihr]; rfl

theorem assignFiles_ids (its : Items) (fs : List (List Nat)) : (assignFiles its fs).1.ids = its.ids := by
  rw [← ids_mapHdrs_noFiles, assignFiles_noFiles, ids_mapHdrs_noFiles]

theorem wf_mapHdrs_noFiles (its : Items) (exp : PRef) : (its.mapHdrs Hdr.noFiles).wf exp ↔ its.wf exp := by
  induction its generalizing exp with
  | nil => exact Iff.rfl
  | text c r ih => simp only [Items.mapHdrs, Items.wf, ih]
  | elem h k r ihk ihr =>
    simp only [Items.mapHdrs, Items.wf, ihr]
    rw [show (Hdr.noFiles h).id = h.id from rfl, ihk]
    rfl

/-- `assignFiles` keeps the parent fields in step with the structure (C03) -/
theorem assignFiles_wf (its : Items) (fs : List (List Nat)) (exp : PRef) : (assignFiles its fs).1.wf exp ↔ its.wf exp := by
  rw [← wf_mapHdrs_noFiles, assignFiles_noFiles, wf_mapHdrs_noFiles]

theorem assignFiles_length (its : Items) (fs : List (List Nat)) : (assignFiles its fs).1.hdrs.length = its.hdrs.length := by
  rw [(assignFiles_hdrs its fs).1, relabel_length]

/-- **position-wise statement**: the i-th element in document order gets `fs[i]` if `i < fs.length`, keeps its own set otherwise;
all other fields are kept -/
theorem assignFiles_getElem? (its : Items) (fs : List (List Nat)) (i : Nat) :
    (assignFiles its fs).1.hdrs[i]? = its.hdrs[i]?.map fun h => match fs[i]? with
      | some f => { h with files := f }
      | none => h := by
  rw [(assignFiles_hdrs its fs).1, relabel_getElem?]

/-! ### 1. independence / frame -/

/-- the models below `n` and the dead headers are the same, no model appears or disappears -/
def Ext (n : Nat) (w w' : World) : Prop :=
  (∀ j, j < n → w'.models[j]? = w.models[j]?) ∧ w'.dead = w.dead ∧ w'.models.length = w.models.length

theorem Ext.refl (n : Nat) (w : World) : Ext n w w := ⟨fun _ _ => rfl, rfl, rfl⟩

theorem Ext.trans {n : Nat} {a b c : World} (h1 : Ext n a b) (h2 : Ext n b c) : Ext n a c :=
  ⟨fun j hj => (h2.1 j hj).trans (h1.1 j hj), h2.2.1.trans h1.2.1, h2.2.2.trans h1.2.2⟩

section
variable (S : Spec) (V : Env) (rootAttrs : List (Nat × CDv))

/-- `create_file` on the model `k` changes only the model `k` (and the counters, the file owners) -/
theorem opMkFile_ext (w : World) (k : Nat) (name : Bytes) (ver : Nat) (valid : Bool) (n : Nat) (hn : n ≤ k) :
    Ext n w (opMkFile S w k name ver valid).1 := by
  fun_cases opMkFile S w k name ver valid
  · exact Ext.refl _ _
  · exact Ext.refl _ _
  · exact Ext.refl _ _
  · refine ⟨fun j hj => ?_, rfl, ?_⟩
    · simp only []
      rw [List.getElem?_set_ne (by omega)]
    · simp

/-- the `xml_standalone` patch of one step of `dupFiles` -/
def dupPatch (k' fid : Nat) (sa : Option Bool) (w : World) : World :=
  match w.models[k']? with
  | some m =>
    let m' : Model := { m with files := m.files.map fun g => if g.id = fid then { g with standalone := sa } else g }
    { w with models := w.models.set k' m' }
  | none => w

theorem dupFiles_cons (k' : Nat) (f : File) (fs : List File) (w : World) :
    dupFiles S k' (f :: fs) w =
      if (opMkFile S w k' f.name f.version true).1.nextFile = w.nextFile + 1 then
        dupFiles S k' fs (dupPatch k' w.nextFile f.standalone (opMkFile S w k' f.name f.version true).1)
      else none := rfl

theorem dupPatch_ext (k' fid : Nat) (sa : Option Bool) (w : World) (n : Nat) (hn : n ≤ k') : Ext n w (dupPatch k' fid sa w) := by
  unfold dupPatch
  split
  · refine ⟨fun j hj => ?_, rfl, by simp⟩
    simp only []
    rw [List.getElem?_set_ne (by omega)]
  · exact Ext.refl _ _

theorem dupFiles_ext (k' : Nat) (fs : List File) (w w1 : World) (h : dupFiles S k' fs w = some w1) : Ext k' w w1 := by
  induction fs generalizing w with
  | nil => simp only [dupFiles] at h; cases h; exact Ext.refl _ _
  | cons f fs ih =>
    rw [dupFiles_cons] at h
    split at h
    · exact ((opMkFile_ext S w k' f.name f.version true k' (Nat.le_refl _)).trans (dupPatch_ext k' _ _ _ k' (Nat.le_refl _))).trans
        (ih _ h)
    · cases h

/-- one copy into the element `root'` that no model below `k'` holds, in a world of `k' + 1` models: only the model `k'` changes -/
theorem opCopy_ext (w : World) (root' c : Nat) (k' : Nat) (hlen : w.models.length = k' + 1)
    (hfresh : ∀ j m, j < k' → w.models[j]? = some m → root' ∉ m.rootItems.ids)
    (hok : (opCopy S V w root' c none).2 ≠ .err) :
    Ext k' w (opCopy S V w root' c none).1 ∧ ∃ cp, locate w root' = some (k', cp) := by
  obtain ⟨k, cp, m, m', q, nh, nk1, hloc, hm, hm', hoth, hl, hdead, _⟩ := opCopy_frame S V w root' c none hok
  obtain ⟨m0, hm0, _, _, hch⟩ := locate_chain w root' k cp hloc
  have hk : k = k' := by
    have h1 : k < w.models.length := lt_of_getElem?_some _ _ _ hm
    rcases Nat.lt_or_ge k k' with h | h
    · exact absurd (chain_mem_ids _ _ _ hch) (hfresh k m0 h hm0)
    · omega
  subst hk
  exact ⟨⟨fun j hj => hoth j (by omega), hdead, hl⟩, cp, hloc⟩

theorem dupCopies_ext (root' : Nat) (k' : Nat) (cs : List Nat) (w w2 : World) (hlen : w.models.length = k' + 1)
    (hfresh : ∀ j m, j < k' → w.models[j]? = some m → root' ∉ m.rootItems.ids)
    (h : dupCopies S V root' cs w = .ok w2) : Ext k' w w2 := by
  induction cs generalizing w with
  | nil => simp only [dupCopies] at h; cases h; exact Ext.refl _ _
  | cons c cs ih =>
    unfold dupCopies at h
    split at h
    · rename_i w1 pl heq
      have hok : (opCopy S V w root' c none).2 ≠ .err := by rw [heq]; simp
      have he := (opCopy_ext S V w root' c k' hlen hfresh hok).1
      rw [heq] at he
      refine he.trans (ih w1 (he.2.2.trans hlen) (fun j m hj hm => hfresh j m hj ((he.1 j hj) ▸ hm)) h)
    · cases h

/-- the model under construction while `dupFiles` runs: no content yet, the root lies in all files created so far -/
structure FreshRoot (k' : Nat) (w : World) (m : Model) : Prop where
  get : w.models[k']? = some m
  kids : m.rootKids = .nil
  rfiles : m.rootHdr.files = m.files.map (·.id)
  below : ∀ g ∈ m.files, g.id < w.nextFile

/-- the model `k'` after one step of `dupFiles` -/
def dupStepModel (k' : Nat) (w : World) (m : Model) (f : File) : Model :=
  { m with
    files := m.files ++ [{ id := w.nextFile, name := f.name, version := f.version, standalone := f.standalone }]
    rootHdr := if m.rootIssued then { m.rootHdr with files := m.rootHdr.files ++ [w.nextFile] }
      else { m.rootHdr with files := m.rootHdr.files ++ [w.nextFile], id := w.nextId, parent := .model k' }
    rootIssued := true }

theorem restrictStep_fresh (fid : Nat) (h : Hdr) (hnc : h.files.contains fid = false) :
    restrictStep S fid h .nil [] true = ({ h with files := h.files ++ [fid] }, .nil, true) := by
  unfold restrictStep
  simp only [effOf_nil, hnc, Bool.false_eq_true, if_false, Bool.true_or, if_true, Items.mapKidHdrs, ite_self]

theorem opMkFile_fresh (k' : Nat) (w : World) (m : Model) (f : File) (hm : FreshRoot k' w m)
    (hs : (opMkFile S w k' f.name f.version true).1.nextFile = w.nextFile + 1) :
    (opMkFile S w k' f.name f.version true).1 =
      { w with models := w.models.set k' { dupStepModel k' w m f with files := m.files ++ [{ id := w.nextFile, name := f.name, version := f.version }] }
               nextFile := w.nextFile + 1
               nextId := if m.rootIssued then w.nextId else w.nextId + 1
               fileOwner := w.fileOwner ++ [(w.nextFile, k')] } := by
  have hnc : (m.rootHdr.files.contains w.nextFile) = false := by
    rw [hm.rfiles]
    simp only [List.contains_eq_mem, List.mem_map, decide_eq_false_iff_not, not_exists, not_and]
    intro g hg he
    have := hm.below g hg
    omega
  unfold opMkFile at hs ⊢
  simp only [hm.get] at hs ⊢
  split at hs
  · simp at hs
  split at hs
  · simp at hs
  rename_i h1 h2
  simp only [h1, h2, if_false, hm.kids, restrictStep_fresh S _ _ hnc, dupStepModel]
  cases m.rootIssued <;> simp [Items.setParents]

/-- one step of `dupFiles` on the model under construction, as an explicit world -/
theorem dupStep_eq (k' : Nat) (w : World) (m : Model) (f : File) (hm : FreshRoot k' w m)
    (hs : (opMkFile S w k' f.name f.version true).1.nextFile = w.nextFile + 1) :
    dupPatch k' w.nextFile f.standalone (opMkFile S w k' f.name f.version true).1 =
      { w with models := w.models.set k' (dupStepModel k' w m f)
               nextFile := w.nextFile + 1
               nextId := if m.rootIssued then w.nextId else w.nextId + 1
               fileOwner := w.fileOwner ++ [(w.nextFile, k')] } := by
  have hlt : k' < w.models.length := lt_of_getElem?_some _ _ _ hm.get
  rw [opMkFile_fresh S k' w m f hm hs]
  unfold dupPatch
  simp only [List.getElem?_set_self hlt, List.set_set]
  congr 2
  simp only [dupStepModel, List.map_append, List.map_cons, List.map_nil, if_true]
  congr 2
  conv => rhs; rw [← List.map_id m.files]
  apply List.map_congr_left
  intro g hg
  have := hm.below g hg
  rw [if_neg (by omega)]; rfl

theorem dupStep (k' : Nat) (w : World) (m : Model) (f : File) (hm : FreshRoot k' w m)
    (hs : (opMkFile S w k' f.name f.version true).1.nextFile = w.nextFile + 1) :
    FreshRoot k' (dupPatch k' w.nextFile f.standalone (opMkFile S w k' f.name f.version true).1) (dupStepModel k' w m f) := by
  have hlt : k' < w.models.length := lt_of_getElem?_some _ _ _ hm.get
  rw [dupStep_eq S k' w m f hm hs]
  refine ⟨by simp [List.getElem?_set_self hlt], hm.kids, ?_, ?_⟩
  · simp only [dupStepModel]
    cases m.rootIssued <;> simp [hm.rfiles]
  · intro g hg
    simp only [dupStepModel, List.mem_append, List.mem_singleton] at hg
    rcases hg with hg | rfl
    · have := hm.below g hg; show g.id < w.nextFile + 1; omega
    · show w.nextFile < w.nextFile + 1; omega

/-- what `dupFiles` makes of the model under construction -/
structure DupFilesRes (k' : Nat) (fs : List File) (w w1 : World) (m m1 : Model) : Prop where
  fresh : FreshRoot k' w1 m1
  ids : m1.files.map (·.id) = m.files.map (·.id) ++ List.range' w.nextFile fs.length
  data : m1.files.map (fun g => (g.name, g.version, g.standalone)) =
    (m.files ++ fs).map (fun g => (g.name, g.version, g.standalone))
  index : m1.index = m.index
  refs : m1.refs = m.refs
  hdr : m1.rootHdr.name = m.rootHdr.name ∧ m1.rootHdr.ety = m.rootHdr.ety ∧ m1.rootHdr.attrs = m.rootHdr.attrs ∧
    m1.rootHdr.comment = m.rootHdr.comment
  issued : fs ≠ [] → m1.rootIssued = true
  root0 : m.rootIssued = false → fs ≠ [] → m1.rootHdr.id = w.nextId ∧ m1.rootHdr.parent = .model k' ∧ w1.nextId = w.nextId + 1
  root1 : m.rootIssued = true → m1.rootHdr.id = m.rootHdr.id ∧ m1.rootHdr.parent = m.rootHdr.parent ∧ w1.nextId = w.nextId ∧
    m1.rootIssued = true
  nextFile : w1.nextFile = w.nextFile + fs.length

theorem dupFiles_res (k' : Nat) (fs : List File) (w w1 : World) (m : Model) (hm : FreshRoot k' w m)
    (h : dupFiles S k' fs w = some w1) : ∃ m1, DupFilesRes k' fs w w1 m m1 := by
  induction fs generalizing w m with
  | nil =>
    simp only [dupFiles] at h; cases h
    exact ⟨m, hm, by simp, by simp, rfl, rfl, ⟨rfl, rfl, rfl, rfl⟩, fun h => absurd rfl h, fun _ h => absurd rfl h,
      fun h => ⟨rfl, rfl, rfl, h⟩, rfl⟩
  | cons f fs ih =>
    rw [dupFiles_cons] at h
    split at h
    · rename_i hs
      have hst := dupStep S k' w m f hm hs
      have heq := dupStep_eq S k' w m f hm hs
      obtain ⟨m1, r⟩ := ih _ _ hst h
      have hnf : (dupPatch k' w.nextFile f.standalone (opMkFile S w k' f.name f.version true).1).nextFile = w.nextFile + 1 := by
        rw [heq]
      have hni : (dupPatch k' w.nextFile f.standalone (opMkFile S w k' f.name f.version true).1).nextId =
          if m.rootIssued then w.nextId else w.nextId + 1 := by rw [heq]
      have hiss : (dupStepModel k' w m f).rootIssued = true := rfl
      obtain ⟨r1, r2, r3, r4⟩ := r.root1 hiss
      refine ⟨m1, r.fresh, ?_, ?_, r.index, r.refs, ?_, fun _ => r4, ?_, ?_, ?_⟩
      · rw [r.ids, hnf]
        simp [dupStepModel, List.range'_succ]
      · rw [r.data]
        simp [dupStepModel]
      · obtain ⟨a, b, c, d⟩ := r.hdr
        rw [a, b, c, d]
        simp only [dupStepModel]
        cases m.rootIssued <;> simp
      · intro h0 _
        rw [r1, r2, r3, hni]
        simp [dupStepModel, h0]
      · intro h1
        rw [r1, r2, r3, hni]
        simp [dupStepModel, h1, r4]
      · rw [r.nextFile, hnf]; simp; omega
    · cases h

/-- **C13 / C11: an answer other than `ok` leaves the world as it was** (unconditionally) -/
theorem opDup_err_frame (w : World) (k : Nat) (h : ∀ p, (opDup S V rootAttrs w k).2 ≠ .ok p) : (opDup S V rootAttrs w k).1 = w := by
  revert h
  fun_cases opDup S V rootAttrs w k <;> intro h <;> first | rfl | exact absurd rfl (h _)

theorem take_of_ext {w w' : World} {n : Nat} (h : Ext n w w') (_hn : n ≤ w.models.length) : w'.models.take n = w.models.take n := by
  apply List.ext_getElem?
  intro j
  rw [List.getElem?_take, List.getElem?_take]
  split
  · exact h.1 j ‹_›
  · rfl

theorem opDup_frame_aux (w : World) (k : Nat) (hfresh : ∀ m ∈ w.models, w.nextId ∉ m.rootItems.ids) :
    Ext w.models.length { w with models := w.models ++ [newModel S rootAttrs] } (opDup S V rootAttrs w k).1 ∨
      (opDup S V rootAttrs w k).1 = w := by
  fun_cases opDup S V rootAttrs w k
  all_goals try exact Or.inr rfl
  · exact Or.inl (Ext.refl _ _)
  · rename_i m hm k' w0 hne w1 hf m1 hm1 w2 hc m2 hm2 newFiles mapF origSets root' m3 ids hids fs es
    left
    have hfr0 : FreshRoot k' w0 (newModel S rootAttrs) :=
      ⟨by simp [w0, k'], rfl, rfl, fun g hg => by simp [newModel] at hg⟩
    obtain ⟨m1', r⟩ := dupFiles_res S k' m.files w0 w1 _ hfr0 hf
    have : m1' = m1 := Option.some.inj (r.fresh.get.symm.trans hm1)
    subst this
    have hne' : m.files ≠ [] := by intro h; rw [h] at hne; exact hne rfl
    have hid : m1'.rootHdr.id = w.nextId := (r.root0 rfl hne').1
    have e1 : Ext k' w0 w1 := dupFiles_ext S k' m.files w0 w1 hf
    have hl1 : w1.models.length = k' + 1 := by rw [e1.2.2]; simp [w0, k']
    have e2 : Ext k' w1 w2 := by
      refine dupCopies_ext S V _ k' _ w1 w2 hl1 ?_ hc
      intro j mj hj hmj
      rw [e1.1 j hj] at hmj
      have : w.models[j]? = some mj := by
        simp only [w0] at hmj
        rwa [List.getElem?_append_left hj] at hmj
      rw [hid]
      exact hfresh mj (List.mem_of_getElem? this)
    refine (e1.trans e2).trans ⟨fun j hj => ?_, rfl, by simp [setModel]⟩
    simp only [setModel]
    rw [List.getElem?_set_ne (by omega)]

/-- **C13 "independent" / C11**: every existing model — in particular the original — and the dead headers are unchanged,
whatever the answer.  Hypothesis `hfresh`: the next element id is not in use (it follows from the history invariant; without it
`locate` may find the new root's id in an OLDER model and the copies go there, `opDup_frame_needs_fresh` below). -/
theorem opDup_frame (w : World) (k : Nat) (hfresh : ∀ m ∈ w.models, w.nextId ∉ m.rootItems.ids) :
    (opDup S V rootAttrs w k).1.models.take w.models.length = w.models ∧ (opDup S V rootAttrs w k).1.dead = w.dead ∧
      (opDup S V rootAttrs w k).1.models.length ≤ w.models.length + 1 := by
  rcases opDup_frame_aux S V rootAttrs w k hfresh with h | h
  · refine ⟨?_, h.2.1, by rw [h.2.2]; simp⟩
    rw [take_of_ext h (by simp)]
    simp
  · rw [h]; simp

/-- the hypothesis of `opDup_frame` from the history invariants: element ids are below `nextId` in a model whose root has its
protocol id (`WInv`), the root of a model without file has the id 0 (`SepInv`) — and some element id has been given out -/
theorem fresh_of_winv (vOk : Nat) (w : World) (hw : WInv S vOk w) (h0 : ∀ m ∈ w.models, m.rootIssued = false → m.rootHdr.id = 0)
    (hpos : 0 < w.nextId) : ∀ m ∈ w.models, w.nextId ∉ m.rootItems.ids := by
  intro m hm hin
  cases hi : m.rootIssued with
  | true => exact absurd ((hw m hm).bound hi _ hin) (Nat.lt_irrefl _)
  | false =>
    have := (hw m hm).fresh hi
    rw [rootItems_ids, this.1] at hin
    simp only [List.mem_singleton] at hin
    have := h0 m hm hi
    omega

end

/-! ### 3. faithfulness: when the two iterations run in step -/

/-- a header with identity and parent link erased (the file set stays) -/
def Hdr.anon (h : Hdr) : Hdr := { h with id := 0, parent := .none }

/-- **the zip of `duplicate` when the iterations run in step**: if the copy `its` equals the original `orig` up to identities,
parent links and file sets (`Items.shape`, what `deepCopy_faithful` gives for a same-version copy), then after `assignFiles`
with the images `g` of the original's file sets, the copy equals the original up to identities and parent links with every file
set replaced by its image — element by element; no set is left over -/
theorem assignFiles_in_step (g : List Nat → List Nat) (its orig : Items) (hs : its.shape = orig.shape) (rest : List (List Nat)) :
    (assignFiles its (orig.hdrs.map (fun h => g h.files) ++ rest)).2 = rest ∧
    (assignFiles its (orig.hdrs.map (fun h => g h.files) ++ rest)).1.mapHdrs Hdr.anon =
      orig.mapHdrs (fun h => { h.anon with files := g h.files }) := by
  induction its generalizing orig rest with
  | nil =>
    cases orig with
    | nil => exact ⟨rfl, rfl⟩
    | text _ _ => cases hs
    | elem _ _ _ => cases hs
  | text c r ih =>
    cases orig with
    | nil => cases hs
    | elem _ _ _ => cases hs
    | text c' r' =>
      rw [shape_text, shape_text] at hs
      injection hs with hc hr
      subst hc
      obtain ⟨a, b⟩ := ih r' hr rest
      simp only [assignFiles, Items.hdrs, Items.mapHdrs]
      exact ⟨a, by rw [b]⟩
  | elem h k r ihk ihr =>
    cases orig with
    | nil => cases hs
    | text _ _ => cases hs
    | elem h' k' r' =>
      rw [shape_elem, shape_elem] at hs
      injection hs with hh hk hr
      simp only [Items.hdrs, List.map_cons, List.map_append, List.cons_append, List.append_assoc, assignFiles, Items.mapHdrs]
      obtain ⟨a1, b1⟩ := ihk k' hk (r'.hdrs.map (fun h => g h.files) ++ rest)
      rw [a1, b1]
      obtain ⟨a2, b2⟩ := ihr r' hr rest
      rw [a2, b2]
      refine ⟨rfl, ?_⟩
      congr 1
      have e1 := congrArg Hdr.name hh
      have e2 := congrArg Hdr.ety hh
      have e3 := congrArg Hdr.attrs hh
      have e4 := congrArg Hdr.comment hh
      simp only [Hdr.shape] at e1 e2 e3 e4
      simp only [Hdr.anon, e1, e2, e3, e4]

theorem hdrs_mapHdrs (f : Hdr → Hdr) (its : Items) : (its.mapHdrs f).hdrs = its.hdrs.map f := by
  induction its with
  | nil => rfl
  | text c r ih => simpa [Items.mapHdrs, Items.hdrs] using ih
  | elem h k r ihk ihr => simp [Items.mapHdrs, Items.hdrs, ihk, ihr]

/-- position-wise form of `assignFiles_in_step`: the same number of elements in the same document order; the element at position
`i` of the copy has name, type, attributes and comment of the element at position `i` of the original, and the image of ITS
file set -/
theorem assignFiles_in_step_getElem? (g : List Nat → List Nat) (its orig : Items) (hs : its.shape = orig.shape) :
    (assignFiles its (orig.hdrs.map fun h => g h.files)).1.hdrs.length = orig.hdrs.length ∧
    ∀ i : Nat, ((assignFiles its (orig.hdrs.map fun h => g h.files)).1.hdrs[i]?).map (fun h : Hdr => (h.name, h.ety, h.attrs, h.comment, h.files)) =
      (orig.hdrs[i]?).map (fun h : Hdr => (h.name, h.ety, h.attrs, h.comment, g h.files)) := by
  have h := (assignFiles_in_step g its orig hs []).2
  rw [List.append_nil] at h
  have h2 := congrArg Items.hdrs h
  rw [hdrs_mapHdrs, hdrs_mapHdrs] at h2
  constructor
  · have := congrArg List.length h2
    simpa using this
  · intro i
    have := congrArg (fun l => (l[i]?).map (fun h : Hdr => (h.name, h.ety, h.attrs, h.comment, h.files))) h2
    simp only [List.getElem?_map, Option.map_map] at this
    exact this

theorem dupCopies_error_not_ok (S : Spec) (V : Env) (root' : Nat) (cs : List Nat) (w : World) (a : Ans)
    (h : dupCopies S V root' cs w = .error a) (p : String) : a ≠ .ok p := by
  induction cs generalizing w with
  | nil => simp only [dupCopies] at h; cases h
  | cons c cs ih =>
    unfold dupCopies at h
    split at h
    · exact ih _ h
    · rename_i hno _
      cases h
      exact fun e => hno p e

/-- `duplicate`'s map from the files of the original `m` to the files of the copy `m3`: by position in the file lists -/
def dupMapF (m m3 : Model) : Nat → Option Nat := fun fid =>
  match m.files.findIdx? (·.id == fid) with
  | some i => (m3.files.map (·.id))[i]?
  | none => none

theorem shape_assignFiles (its : Items) (fs : List (List Nat)) : (assignFiles its fs).1.shape = its.shape := by
  have h := congrArg (Items.mapHdrs Hdr.shape) (assignFiles_noFiles its fs)
  rw [mapHdrs_mapHdrs, mapHdrs_mapHdrs] at h
  exact h

/-- **C13 "faithful", the last step**: after a successful `duplicate` of a model with files, the new model `m3` is the last one; IF its
tree equals the original's up to identities, parent links and file sets (the iterations run in step), then it equals the original's
up to identities and parent links with every file set replaced by its image under `dupMapF` -/
theorem opDup_in_step (S : Spec) (V : Env) (rootAttrs : List (Nat × CDv)) (w : World) (k : Nat) (m : Model)
    (hm : w.models[k]? = some m) (hne : m.files.isEmpty = false) (p : String) (hok : (opDup S V rootAttrs w k).2 = .ok p) :
    ∃ m3, (opDup S V rootAttrs w k).1.models[w.models.length]? = some m3 ∧
      (m3.rootItems.shape = m.rootItems.shape →
        m3.rootItems.mapHdrs Hdr.anon = m.rootItems.mapHdrs (fun h => { h.anon with files := h.files.filterMap (dupMapF m m3) })) := by
  revert hok
  fun_cases opDup S V rootAttrs w k
  all_goals try (intro hok; cases hok; done)
  · rename_i m' hm' _ _ hemp _
    rw [hm] at hm'; cases hm'
    rw [hne] at hemp; cases hemp
  · rename_i a herr
    intro hok
    exact absurd hok (dupCopies_error_not_ok S V _ _ _ _ herr p)
  · rename_i m' hm' k' w0 _ w1 hf m1 hm1 w2 hc m2 hm2 newFiles mapF origSets root' m3 ids hids fs es
    rw [hm] at hm'; cases hm'
    intro _
    have hs := setRoot_of_skel m2 root' (assignFiles_skel _ _)
    refine ⟨m3, ?_, ?_⟩
    · have hlt : k' < w2.models.length := lt_of_getElem?_some _ _ _ hm2
      simp only [setModel]
      exact List.getElem?_set_self hlt
    · intro hsh
      have hri : m3.rootItems = root' := hs.1
      have hfi : m3.files = m2.files := hs.2.2.1
      rw [hri] at hsh ⊢
      have hsh2 : m2.rootItems.shape = m.rootItems.shape := by rw [← hsh]; exact (shape_assignFiles _ _).symm
      have hg : dupMapF m m3 = mapF := by
        funext fid
        simp only [dupMapF, hfi]
        rfl
      rw [hg]
      have := (assignFiles_in_step (fun l => l.filterMap mapF) m2.rootItems m.rootItems hsh2 []).2
      rw [List.append_nil] at this
      have horig : origSets = m.rootItems.hdrs.map (fun h => h.files.filterMap mapF) := by
        simp only [origSets, Model.rootItems, Items.hdrs, List.append_nil]
      show Items.mapHdrs Hdr.anon (assignFiles m2.rootItems origSets).1 = _
      rw [horig]
      exact this

end AV.W
