/-
`NameWF` on the real specification tables.

RESULT: the real tables do NOT satisfy `NameWF`: `named_seq` fails for exactly two data types,
  * 1298 (DIAG-EVENT-DEBOUNCE-ALGORITHM, mode CHOICE) and
  * 1923 (ECUC-QUERY-EXPRESSION, mode MIXED),
whose SHORT-NAME (definition 6912, multiplicity one, type 2500 = characters / pattern 8, max. length 128, as for every other
named type) exists in version AUTOSAR_4-0-1 only (version mask 1).  The other three facts hold of all 1366 named types.

What is proved here, by kernel evaluation of the scans of `Lemmas/NameWfCheck.lean`:
  * `realSpec_nameWf_fails`  — the check for `NameWF` evaluates to `false`;
  * `realSpec_nameWFv`       — `NameWFv realSpec 0xFFFFFFFE`: `NameWF` with SEQUENCE required only of the types whose SHORT-NAME
                               exists in some version other than AUTOSAR_4-0-1;
  * `realSpec_named_nonseq`  — the named types that are no SEQUENCE are 1298 and 1923, and their SHORT-NAME mask is 1;
  * `realSpec_snOnlyFirst`   — `SnOnlyFirst realSpec` (holds of all named types, the two exceptions included).
-/
import AutosarVerif.Gen.SpecData
import AutosarVerif.Lemmas.NameWfCheck

namespace AV.Gen
open AV.W

/-- the real tables violate `NameWF` (the fact `named_seq`, see `realSpec_named_nonseq`) -/
theorem realSpec_nameWf_fails : SpecData.packed.nameWfB = false := by decide +kernel

/-- all versions except AUTOSAR_4-0-1 (bit 0) -/
def vNot401 : Nat := 0xFFFFFFFE

theorem realSpec_nameWfvOk : SpecData.packed.nameWfvB vNot401 = true := by decide +kernel

theorem realSpec_nameWFv : NameWFv realSpec vNot401 :=
  PackedSpec.nameWfvB_sound SpecData.packed vNot401 realSpec_nameWfvOk

/-- a named type that is no SEQUENCE is one of the two exceptions, and its SHORT-NAME exists in AUTOSAR_4-0-1 only -/
def nonSeqExcB (t : Nat) : Bool :=
  (realSpec.mode t).isSeq || ((t == 1298 || t == 1923) && realSpec.subMask t 0 == 1)

theorem realSpec_nonSeqExcOk : SpecData.packed.namedAllB nonSeqExcB = true := by decide +kernel

theorem realSpec_named_nonseq (t : Nat) (hn : realSpec.isNamed t = true) (hm : realSpec.mode t ≠ .sequence) :
    (t = 1298 ∨ t = 1923) ∧ realSpec.subMask t 0 = 1 := by
  have h := PackedSpec.namedAllB_sound SpecData.packed nonSeqExcB realSpec_nonSeqExcOk t hn
  unfold nonSeqExcB at h
  simp only [Bool.or_eq_true, Bool.and_eq_true, beq_iff_eq] at h
  cases h with
  | inl hs => exact absurd (Mode.eq_of_isSeq hs) hm
  | inr he => exact he

/-- the two exceptions are there: named, not SEQUENCE -/
theorem realSpec_exc_1298 : realSpec.isNamed 1298 = true ∧ realSpec.mode 1298 = .choice := by decide +kernel
theorem realSpec_exc_1923 : realSpec.isNamed 1923 = true ∧ realSpec.mode 1923 = .mixed := by decide +kernel

/-- hence `NameWF` is false of the real tables -/
theorem realSpec_not_nameWF : ¬ NameWF realSpec := fun h => by
  have := h.named_seq 1298 realSpec_exc_1298.1
  rw [realSpec_exc_1298.2] at this
  cases this

/-- no other listed sub-element of a named type is called SHORT-NAME (18312 listed entries) -/
theorem realSpec_snOnlyFirstOk : SpecData.packed.snOnlyFirstB = true := by decide +kernel

theorem realSpec_snOnlyFirst : SnOnlyFirst realSpec :=
  PackedSpec.snOnlyFirstB_sound SpecData.packed realSpec_snOnlyFirstOk

end AV.Gen
