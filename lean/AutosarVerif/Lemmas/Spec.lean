/-
Generic lemmas about the specification lookups (`Model/Spec.lean`), for an arbitrary `S : Spec`:
name lookup (`find_sub_element`) agrees with the listing (`sub_element_spec_iter`), the index
path it returns designates the listed entry (`get_sub_element_spec`), attribute lookup agrees
with the attribute listing, and a proposed DEST value is accepted by the target type.
-/
import AutosarVerif.Model.Spec

namespace AV.Spec

variable (S : Spec)

/-- whatever `find_sub_element` returns is a listed entry with the requested name whose version
mask intersects the requested versions -/
theorem findSubT_sound (nm v : Nat) (fuel t : Nat) (e : ETy) (idx : List Nat)
    (h : S.findSubT nm v fuel t = some (e, idx)) :
    ∃ m, (nm, e, m, idx) ∈ S.listSubT fuel t ∧ (v &&& m) ≠ 0 := by
  induction fuel generalizing t e idx with
  | zero => simp [findSubT] at h
  | succ fuel ih =>
    simp only [findSubT] at h
    obtain ⟨pos, hpos, hf⟩ := List.exists_of_findSome?_eq_some h
    simp only [listSubT, List.mem_flatMap]
    cases hs : S.subAt t pos with
    | elem d =>
      rw [hs] at hf
      simp only at hf
      split at hf
      · rename_i hc
        simp only [Option.some.injEq, Prod.mk.injEq] at hf
        obtain ⟨he, hi⟩ := hf
        subst he hi
        refine ⟨S.subMask t pos, ⟨pos, hpos, ?_⟩, hc.2⟩
        rw [hs]; simp [hc.1]
      · simp at hf
    | group g =>
      rw [hs] at hf
      simp only at hf
      split at hf
      · rename_i e' idx' hg
        simp only [Option.some.injEq, Prod.mk.injEq] at hf
        obtain ⟨he, hi⟩ := hf
        subst he hi
        obtain ⟨m, hm, hv⟩ := ih g e' idx' hg
        refine ⟨m, ⟨pos, hpos, ?_⟩, hv⟩
        rw [hs]
        simp only [List.mem_map]
        exact ⟨(nm, e', m, idx'), hm, rfl⟩
      · simp at hf

/-- every listed entry whose mask contains a requested version is found by name in that version -/
theorem findSubT_complete (nm v : Nat) (fuel t : Nat) (e : ETy) (m : Nat) (idx : List Nat)
    (hl : (nm, e, m, idx) ∈ S.listSubT fuel t) (hv : (v &&& m) ≠ 0) :
    (S.findSubT nm v fuel t).isSome = true := by
  induction fuel generalizing t e m idx with
  | zero => simp [listSubT] at hl
  | succ fuel ih =>
    simp only [listSubT, List.mem_flatMap] at hl
    obtain ⟨pos, hpos, hmem⟩ := hl
    simp only [findSubT]
    rw [List.findSome?_isSome_iff]
    refine ⟨pos, hpos, ?_⟩
    cases hs : S.subAt t pos with
    | elem d =>
      rw [hs] at hmem
      simp only [List.mem_singleton, Prod.mk.injEq] at hmem
      obtain ⟨h1, _, h3, _⟩ := hmem
      subst h3
      simp [← h1, hv]
    | group g =>
      rw [hs] at hmem
      simp only [List.mem_map] at hmem
      obtain ⟨⟨nm', e', m', idx'⟩, hin, heq⟩ := hmem
      simp only [Prod.mk.injEq] at heq
      obtain ⟨h1, h2, h3, h4⟩ := heq
      subst h1 h2 h3
      have := ih g e' m' idx' hin hv
      simp only
      cases hg : S.findSubT nm' v fuel g with
      | none => simp [hg] at this
      | some r => obtain ⟨a, b⟩ := r; simp

theorem listSubT_idx_ne_nil (fuel t nm : Nat) (e : ETy) (m : Nat) (idx : List Nat)
    (hl : (nm, e, m, idx) ∈ S.listSubT fuel t) : idx ≠ [] := by
  cases fuel with
  | zero => simp [listSubT] at hl
  | succ fuel =>
    simp only [listSubT, List.mem_flatMap] at hl
    obtain ⟨pos, _, hmem⟩ := hl
    cases hs : S.subAt t pos with
    | elem d =>
      rw [hs] at hmem
      simp only [List.mem_singleton, Prod.mk.injEq] at hmem
      rw [hmem.2.2.2]; simp
    | group g =>
      rw [hs] at hmem
      simp only [List.mem_map] at hmem
      obtain ⟨⟨nm', e', m', idx'⟩, _, heq⟩ := hmem
      simp only [Prod.mk.injEq] at heq
      rw [← heq.2.2.2]; simp

/-- the index path of a listed entry designates that entry: `get_sub_element_spec(idx)` is the
element definition with the listed version mask -/
theorem subSpecAt_listed (fuel t nm : Nat) (e : ETy) (m : Nat) (idx : List Nat)
    (hl : (nm, e, m, idx) ∈ S.listSubT fuel t) :
    S.subSpecAt t idx = some (.elem e.defId, m) ∧ S.defName e.defId = nm ∧ e = S.ety e.defId := by
  induction fuel generalizing t nm e m idx with
  | zero => simp [listSubT] at hl
  | succ fuel ih =>
    simp only [listSubT, List.mem_flatMap] at hl
    obtain ⟨pos, _, hmem⟩ := hl
    cases hs : S.subAt t pos with
    | elem d =>
      rw [hs] at hmem
      simp only [List.mem_singleton, Prod.mk.injEq] at hmem
      obtain ⟨h1, h2, h3, h4⟩ := hmem
      subst h1 h2 h3 h4
      simp [subSpecAt, hs, ety]
    | group g =>
      rw [hs] at hmem
      simp only [List.mem_map] at hmem
      obtain ⟨⟨nm', e', m', idx'⟩, hin, heq⟩ := hmem
      simp only [Prod.mk.injEq] at heq
      obtain ⟨h1, h2, h3, h4⟩ := heq
      subst h1 h2 h3 h4
      have hne := listSubT_idx_ne_nil S fuel g nm' e' m' idx' hin
      obtain ⟨r1, r2, r3⟩ := ih g nm' e' m' idx' hin
      refine ⟨?_, r2, r3⟩
      cases idx' with
      | nil => exact absurd rfl hne
      | cons i rest => simp only [subSpecAt, hs]; exact r1

/-- **listed ⇒ found** (sub-elements): a sub-element listed for type `t` with a mask containing
version bit(s) `v` is found by name lookup with `v`; what is found is again a listed entry of that
name, its returned index path designates it, and the mask reported for that path contains `v`. -/
theorem listed_found (t nm : Nat) (e : ETy) (m : Nat) (idx : List Nat) (v : Nat)
    (hl : (nm, e, m, idx) ∈ S.listSub t) (hv : (v &&& m) ≠ 0) :
    ∃ e' idx' m', S.findSub t nm v = some (e', idx') ∧ (nm, e', m', idx') ∈ S.listSub t ∧
      S.subMaskAt t idx' = some m' ∧ (v &&& m') ≠ 0 := by
  have hc := findSubT_complete S nm v (S.depth + 1) t e m idx hl hv
  cases hf : S.findSubT nm v (S.depth + 1) t with
  | none => simp [hf] at hc
  | some r =>
    obtain ⟨e', idx'⟩ := r
    obtain ⟨m', hm', hv'⟩ := findSubT_sound S nm v (S.depth + 1) t e' idx' hf
    refine ⟨e', idx', m', hf, hm', ?_, hv'⟩
    have := (subSpecAt_listed S (S.depth + 1) t nm e' m' idx' hm').1
    simp [subMaskAt, this]

/-! ### attributes -/

theorem findAttrFrom_some (t name pos n p : Nat) (h : S.findAttrFrom t name pos n = some p) :
    pos ≤ p ∧ p < pos + n ∧ S.attrName (S.attrStart t + p) = name := by
  induction n generalizing pos with
  | zero => simp [findAttrFrom] at h
  | succ n ih =>
    simp only [findAttrFrom] at h
    split at h
    · rename_i hc
      simp at h; subst h
      exact ⟨Nat.le_refl _, by omega, hc⟩
    · obtain ⟨h1, h2, h3⟩ := ih (pos + 1) h
      exact ⟨by omega, by omega, h3⟩

theorem findAttrFrom_complete (t name pos n q : Nat) (hq1 : pos ≤ q) (hq2 : q < pos + n)
    (hn : S.attrName (S.attrStart t + q) = name) : (S.findAttrFrom t name pos n).isSome = true := by
  induction n generalizing pos with
  | zero => omega
  | succ n ih =>
    simp only [findAttrFrom]
    split
    · rfl
    · rename_i hc
      have : pos ≠ q := fun h => hc (h ▸ hn)
      exact ih (pos + 1) (by omega) (by omega)

/-- **listed ⇒ found** (attributes): an attribute listed for `t` is found by name; the result is a
listed attribute of that name (the first one, as in the Rust `find`). -/
theorem attr_listed_found (t nm cd : Nat) (rq : Bool) (m : Nat)
    (hl : (nm, cd, rq, m) ∈ S.listAttrs t) :
    ∃ cd' rq' m', S.findAttr t nm = some (cd', rq', m') ∧ (nm, cd', rq', m') ∈ S.listAttrs t := by
  simp only [listAttrs, List.mem_map, List.mem_range, Prod.mk.injEq] at hl
  obtain ⟨q, hq, h1, _⟩ := hl
  have hc := findAttrFrom_complete S t nm 0 (S.attrEnd t - S.attrStart t) q (by omega) (by omega) h1
  cases hf : S.findAttrFrom t nm 0 (S.attrEnd t - S.attrStart t) with
  | none => simp [hf] at hc
  | some p =>
    obtain ⟨_, hp2, hp3⟩ := findAttrFrom_some S t nm 0 _ p hf
    refine ⟨S.attrCData (S.attrStart t + p), S.attrRequired (S.attrStart t + p), S.verInfo (S.attrVer t + p),
      by simp [findAttr, hf], ?_⟩
    simp only [listAttrs, List.mem_map, List.mem_range, Prod.mk.injEq]
    exact ⟨p, by omega, hp3, rfl, rfl, rfl⟩

/-! ### DEST values -/

/-- a DEST value proposed for a reference from type `r` to type `t` is accepted by `t`
(`verify_reference_dest`) and belongs to the DEST enumeration of `r` -/
theorem dest_ok (r t d : Nat) (h : S.refDestValue r t = some d) :
    S.verifyDest t d = true ∧
    ∃ cd rq m items, S.findAttr r S.atDest = some (cd, rq, m) ∧ S.cspec cd = .enum items ∧
      (items.any fun it => it.1 == d) = true := by
  simp only [refDestValue] at h
  split at h
  · split at h
    · rename_i cd rq m hfa
      split at h
      · rename_i items hcs
        have h1 := List.find?_some h
        have h2 := List.mem_of_find?_eq_some h
        refine ⟨by simp [verifyDest, h2], cd, rq, m, items, hfa, hcs, h1⟩
      · simp at h
    · simp at h
  · simp at h

end AV.Spec
