/-
Pack LM3, `decide` witnesses.

2. C03 negation witness = known finding c03:merge-into-twin-siblings-shares-subtree.
-/
import AutosarVerif.Lemmas.MergeKeeps
import AutosarVerif.Lemmas.MergeOrder
import AutosarVerif.Lemmas.DupWitness

namespace AV.W.LM3
open Items AV.PM AV.W.MU AV.W.MU.OrdEx2

/-! ## 2. merging into twin siblings puts one sub-tree of the new file below both -/
namespace Twin

def hDR (id p : Nat) : Hdr := { id := id, name := 901, ety := ⟨3, 3⟩, parent := .elem p, attrs := [], files := [], comment := none }

/-- `<X><SHORT-NAME>n</SHORT-NAME></X>` with ids `i`, `i+1` -/
def xn (i p : Nat) (nm : UInt8) (rest : Items) : Items → Items :=
  fun r => .elem (hX i p) (.elem (hSN (i + 1) i) (.text (.str [nm]) .nil) rest) r

/-- the model: `<R><X>n</X><X>n</X></R>` — TWO sibling elements `X` with the one item name `n` (ids 1 and 3) -/
def ka : Items := xn 1 0 110 .nil (xn 3 0 110 .nil .nil)
/-- the new file: `<R><X>m</X><X>n<DEFINITION-REF>d</DEFINITION-REF></X></R>` — the `X` named `n` (id 13, with a child, id 15) is
not at the position of the first twin -/
def kb : Items := xn 11 10 109 .nil (xn 13 10 110 (.elem (hDR 15 13) (.text (.str [100]) .nil) .nil) .nil)

def res := mergeElement namedSpec toyEnv fver 2 1 6 (hR 0 1) ka [1] kb

/-- both sides are well-formed on their own: ids without repetition, disjoint from each other -/
theorem sides : ka.ids = [1, 2, 3, 4] ∧ kb.ids = [11, 12, 13, 14, 15] := by decide

/-- **C03 negation witness**: `mergeElement` answers without error, and the id of the child (15) of the new file's `X` "n" is in
the result TWICE — below the first twin and below the second: the result is not a tree of distinct elements. -/
theorem shared : res.2 = none ∧ res.1.ids = [1, 2, 15, 3, 4, 15, 11, 12] ∧ ¬ res.1.ids.Nodup := by decide

end Twin

/-! ## 3. content below a mixed-version file set is checked against the lowest version only -/
namespace MixedVer
open AV.W

/-- as `dupSpec` of `Lemmas/DupWitness.lean`: R: P*; P: X?, Y? — here X (name 102) exists ONLY in version 1 (mask 1), everything
else in the versions 1 and 2 (mask 3) -/
def c07Spec : Spec := { AV.W.dupSpec with verInfo := fun i => if i = 1 then 1 else 3 }

/-- one model with the file f0 "a" of version 1 and the file f1 "b" of version 2, the root e0 in both, a P e1 below it -/
def c07Ops : List Op := [.newModel, .mkFile 0 [97] 1 true, .mkFile 0 [98] 2 true, .create 0 101 none]
def c07W : World := run c07Spec nameEnv [] c07Ops
def c07W' : World := (opCreate c07Spec nameEnv c07W 1 102 none).1

/-- **C07 negation witness** (known finding c07:content-below-mixed-version-file-set-checked-against-lowest-version-only):
the model has the files f0 (version 1) and f1 (version 2); `create_sub_element(X)` below P e1 — whose effective file set is
{f0, f1} — is validated against `minVersion` = 1 only and succeeds; the new X e2 is in the view of f1 (effective file set
{f0, f1}), but the type of P does not permit an X in version 2, the version of f1. -/
theorem mixed_version_finding :
    (c07W.models.map fun m => m.files.map fun f => (f.id, f.version)) = [[(0, 1), (1, 2)]] ∧
    -- the parent: type 1, version the create is checked against: 1
    ((locate c07W 1).map fun kc => ((lastOf kc.2).1.ety.typ, effective kc.2, minVersion nameEnv c07W.models[kc.1]! kc.2)) =
      some (1, [0, 1], some 1) ∧
    (opCreate c07Spec nameEnv c07W 1 102 none).2 = .ok "e2" ∧
    -- the created element (id, name, local file set) and its effective file set: f1 is in it
    (c07W'.models.map fun m => m.rootItems.hdrs.map fun h => (h.id, h.name, h.files)) = [[(0, 100, [0, 1]), (1, 101, []), (2, 102, [])]] ∧
    ((locate c07W' 2).map fun kc => effective kc.2) = some [0, 1] ∧
    -- permitted in version 1, NOT permitted in version 2
    (c07Spec.findSub 1 102 1).isSome = true ∧ c07Spec.findSub 1 102 2 = none := by decide

/-- the same world is reachable and satisfies the full invariant -/
theorem c07W_inv : Inv c07W := run_inv c07Spec nameEnv [] c07Ops

end MixedVer
end AV.W.LM3
